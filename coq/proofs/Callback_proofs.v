(* Callback_proofs.v — lemmas about lookups with fallible caller-supplied components (Callback.v).

   1. fault-free runs compute the answers of MapElems.v / MapTree.v / ArrayTree.v           ([nof])
   2. a faulty run (checked errors) is the fault-free run cut at the first failing call        ([cuts])
   3. dropped digester errors = the fault-free run over changed digests                        ([swallow])
   4. single-fault plans: reached -> that component's failure, not reached -> fault-free run   ([cut_first])
   5. bounds on the number of calls of each component, for every plan                          ([bounds])
   6. what a run leaves behind (the read cache) cannot change a later answer                   ([retry]) *)
From Coq Require Import ZArith NArith List Bool Arith Lia.
From AtreeGen Require Import Consts.
From AtreeModel Require Import ErrSpec Settings MapElems MapElemsInv MapTree Callback.
From AtreeModel Require ArrayTree.
Import ListNotations.
Local Open Scope N_scope.

(* ====================================================================== *)
(* 0. basics                                                              *)
(* ====================================================================== *)

Lemma comp_eqb_eq a b : comp_eqb a b = true <-> a = b.
Proof. destruct a, b; cbn; split; intros H; try reflexivity; discriminate. Qed.
Lemma comp_eqb_refl a : comp_eqb a a = true.
Proof. destruct a; reflexivity. Qed.
Lemma comp_eqb_sym a b : comp_eqb a b = comp_eqb b a.
Proof. destruct a, b; reflexivity. Qed.

Definition ind (e : cev) (c : comp) : nat := if comp_eqb (comp_of e) c then 1%nat else 0%nat.

Lemma cnt_nil c : cnt c [] = 0%nat.
Proof. reflexivity. Qed.
Lemma cnt_cons c e tr : cnt c (e :: tr) = (ind e c + cnt c tr)%nat.
Proof. unfold cnt, ind. cbn [filter]. destruct (comp_eqb (comp_of e) c); reflexivity. Qed.
Lemma cnt_app c a b : cnt c (a ++ b) = (cnt c a + cnt c b)%nat.
Proof. unfold cnt. rewrite filter_app, app_length. reflexivity. Qed.

Lemma on_kth_spec {X Y} (f : X -> Y) l k : ArrayTree.on_kth f l k = option_map f (nth_error l k).
Proof. revert k. induction l as [|a l IH]; intros [|k]; cbn; auto. Qed.

Section mnode_ind.
  Variable Pn : mnode -> Prop.
  Hypothesis HD : forall h nx es, Pn (MD h nx es).
  Hypothesis HM : forall h hs cs, Forall Pn cs -> Pn (MM h hs cs).
  Fixpoint mnode_ind' (n : mnode) : Pn n :=
    match n with
    | MD h nx es => HD h nx es
    | MM h hs cs =>
      HM h hs cs ((fix go (l : list mnode) : Forall Pn l :=
                     match l with [] => Forall_nil _ | ch :: r => Forall_cons ch (mnode_ind' ch) (go r) end) cs)
    end.
End mnode_ind.

Section anode_ind.
  Import ArrayTree.
  Variable Pn : anode -> Prop.
  Hypothesis HD : forall h nx es, Pn (AD h nx es).
  Hypothesis HM : forall h hs sums cs, Forall Pn cs -> Pn (AM h hs sums cs).
  Fixpoint anode_ind' (n : anode) : Pn n :=
    match n with
    | AD h nx es => HD h nx es
    | AM h hs sums cs =>
      HM h hs sums cs ((fix go (l : list anode) : Forall Pn l :=
                          match l with [] => Forall_nil _ | ch :: r => Forall_cons ch (anode_ind' ch) (go r) end) cs)
    end.
End anode_ind.

Lemma Forall_nth_error {X} (P : X -> Prop) l i x : Forall P l -> nth_error l i = Some x -> P x.
Proof. intros H E. rewrite Forall_forall in H. apply H. eapply nth_error_In; eassumption. Qed.

(* ====================================================================== *)
(* 1. fault-free runs compute the existing models' answers                *)
(* ====================================================================== *)

Section nof_run.
  Variable loaded : N -> bool.
  Context {A : Type}.
  Notation R := (fres A * list cev)%type.

  Lemma fst_emit_nof e tr (K : list cev -> R) : fst (emit no_faults e tr K) = fst (K (e :: tr)).
  Proof. unfold emit. cbn [no_faults p_fails]. destruct (K (e :: tr)); reflexivity. Qed.
  Lemma fst_emit_swallowed_nof e tr (K : bool -> list cev -> R) :
    fst (emit_swallowed no_faults e tr K) = fst (K false (e :: tr)).
  Proof. unfold emit_swallowed. cbn [no_faults p_fails]. destruct (K false (e :: tr)); reflexivity. Qed.
  Lemma fst_read_nof id tr (K : list cev -> R) (a : fres A) :
    (forall tr', fst (K tr') = a) -> fst (read no_faults loaded id tr K) = a.
  Proof. intros H. unfold read. destruct (loaded id || was_read id tr); [apply H|]. rewrite fst_emit_nof. apply H. Qed.
End nof_run.

Section nof.
  Variable dg : N -> nat -> N.
  Variable levels : nat.
  Variable loaded : N -> bool.
  Context {A : Type}.
  Variable fin : kv * kv -> list cev -> fres A * list cev.
  Variable err : merr -> A.
  Variable fv : kv * kv -> A.
  Hypothesis Hfin : forall q tr, fst (fin q tr) = FOk (fv q).

  Definition spec (x : merr + kv * kv) : A := match x with inr q => fv q | inl e => err e end.

  Lemma scan_nof kvs k tr :
    fst (scan_f no_faults fin err kvs k tr) =
    FOk (spec (match find_key k kvs with
               | Some i => match nth_error kvs i with Some q => inr q | None => inl EInternal end
               | None => inl EKeyNotFound
               end)).
  Proof.
    revert tr. induction kvs as [|q r IH]; intros tr; cbn [scan_f find_key]; [reflexivity|].
    rewrite fst_emit_nof. destruct (kid (fst q) =? k).
    - cbn [nth_error]. apply Hfin.
    - rewrite IH. destruct (find_key k r) as [i|]; reflexivity.
  Qed.

  Lemma get_nof f :
    (forall e l k tr, fst (get_elem_f dg levels no_faults loaded fin err f e l k tr) = FOk (spec (get_elem dg levels f e l k))) /\
    (forall g l k tr, fst (get_elems_f dg levels no_faults loaded fin err f g l k (dg k l) tr) = FOk (spec (get_elems dg levels f g l k))).
  Proof.
    induction f as [|f [IHe IHg]]; (split; [intros e l k tr|intros g l k tr]); try reflexivity.
    - cbn [get_elem_f get_elem]. destruct e as [k0 v0|loc g].
      + rewrite fst_emit_nof. destruct (kid k0 =? k); [apply Hfin|reflexivity].
      + assert (D : forall tr1,
                 fst (if (levels <? S l)%nat then (FOk (err EInternal), [])
                      else emit_swallowed no_faults (VDig (S l)) tr1
                             (fun failed tr2 => get_elems_f dg levels no_faults loaded fin err f g (S l) k
                                                            (dig_value dg no_faults failed k (S l)) tr2)) =
                 FOk (spec (if (levels <? S l)%nat then inl EInternal else get_elems dg levels f g (S l) k))).
        { intros tr1. destruct (levels <? S l)%nat; [reflexivity|].
          rewrite fst_emit_swallowed_nof. unfold dig_value. apply IHg. }
        destruct loc as [id|]; [apply fst_read_nof; exact D|apply D].
    - cbn [get_elems_f get_elems]. destruct g as [lv hks es sz|lv kvs sz].
      + destruct (levels <=? l)%nat; [reflexivity|].
        destruct (fst (hk_search hks (dg k l))) as [i|]; [|reflexivity].
        destruct (nth_error es i) as [e|]; [apply IHe|reflexivity].
      + destruct (negb (l =? levels)%nat); [reflexivity|]. apply scan_nof.
  Qed.

  Lemma n_get_nof n : forall k tr,
    fst (n_get_f dg levels no_faults loaded fin err n k (dg k 0) tr) = FOk (spec (n_get dg levels n k)).
  Proof.
    induction n as [h nx es|h hs cs IH] using mnode_ind'; intros k tr; cbn [n_get_f n_get].
    - apply (proj2 (get_nof _)).
    - unfold hkey0. destruct (route_get hs (dg k 0)) as [i|]; [|reflexivity].
      apply fst_read_nof. intros tr'. rewrite !on_kth_spec.
      destruct (nth_error cs i) as [ch|] eqn:E; cbn [option_map]; [|reflexivity].
      apply (Forall_nth_error _ _ _ _ IH E).
  Qed.

  Lemma prelude_nof k (K : N -> list cev -> fres A * list cev) :
    fst (prelude dg no_faults k K) = fst (K (dg k 0) [VDig 0; VHip k]).
  Proof. unfold prelude. rewrite !fst_emit_nof. reflexivity. Qed.

  Lemma lookup_nof root k :
    fst (lookup_f dg levels no_faults loaded fin err root k) = FOk (spec (n_get dg levels root k)).
  Proof. unfold lookup_f. rewrite prelude_nof. apply n_get_nof. Qed.

  Lemma elookup_nof g k :
    fst (elookup_f dg levels no_faults loaded fin err g k) = FOk (spec (get_elems dg levels (op_fuel levels) g 0 k)).
  Proof. unfold elookup_f. rewrite prelude_nof. apply (proj2 (get_nof _)). Qed.
End nof.

(* the users *)
Lemma fin_get_nof vext loaded q tr : fst (fin_get vext no_faults loaded q tr) = FOk (RVal (snd q)).
Proof. unfold fin_get. destruct (vext (snd q)); [|reflexivity]. apply fst_read_nof. reflexivity. Qed.

Lemma has_post_ok x (a : mout) : fst x = FOk a -> fst (has_post x) = FOk a.
Proof. destruct x as [[b|c k] t]; cbn; intros H; [exact H|discriminate]. Qed.

Lemma mt_get_nof dg levels vext loaded t k :
  fst (mt_get_f dg levels vext no_faults loaded t k) = FOk (mt_get dg levels t k).
Proof.
  unfold mt_get_f, mt_get. rewrite (lookup_nof dg levels loaded _ RErr (fun q => RVal (snd q))).
  - destruct (n_get dg levels (t_root t) k) as [e|[k0 v]]; reflexivity.
  - apply fin_get_nof.
Qed.

Lemma mt_has_nof dg levels loaded t k :
  fst (mt_has_f dg levels no_faults loaded t k) = FOk (mt_has dg levels t k).
Proof.
  unfold mt_has_f, mt_has_raw_f, mt_has. apply has_post_ok.
  rewrite (lookup_nof dg levels loaded _ err_has (fun _ => RBool true)); [|reflexivity].
  destruct (n_get dg levels (t_root t) k) as [[| |]|q]; reflexivity.
Qed.

Lemma mt_lookup_nof dg levels loaded t k :
  fst (mt_lookup_f dg levels no_faults loaded t k) = FOk (n_get dg levels (t_root t) k).
Proof.
  unfold mt_lookup_f. rewrite (lookup_nof dg levels loaded _ inl (fun q => inr q)); [|reflexivity].
  destruct (n_get dg levels (t_root t) k); reflexivity.
Qed.

Lemma m_get_nof dg levels mi lim vext loaded s k :
  fst (m_get_f dg levels vext no_faults loaded s k) = FOk (snd (fst (m_step dg levels mi lim s (OGet k)))).
Proof.
  unfold m_get_f. rewrite (elookup_nof dg levels loaded _ RErr (fun q => RVal (snd q))); [|apply fin_get_nof].
  cbn [m_step]. destruct (get_elems dg levels (op_fuel levels) (m_root s) 0 k) as [e|[k0 v]]; reflexivity.
Qed.

Lemma m_has_nof dg levels mi lim loaded s k :
  fst (m_has_f dg levels no_faults loaded s k) = FOk (snd (fst (m_step dg levels mi lim s (OHas k)))).
Proof.
  unfold m_has_f, m_has_raw_f. apply has_post_ok.
  rewrite (elookup_nof dg levels loaded _ err_has (fun _ => RBool true)); [|reflexivity].
  cbn [m_step]. destruct (get_elems dg levels (op_fuel levels) (m_root s) 0 k) as [[| |]|q]; reflexivity.
Qed.

(* arrays *)
Section anof.
  Import ArrayTree.
  Variable loaded : N -> bool.
  Context {A : Type}.
  Variable fin : elem -> list cev -> fres A * list cev.
  Variable err : aerr -> A.
  Variable fv : elem -> A.
  Hypothesis Hfin : forall e tr, fst (fin e tr) = FOk (fv e).

  Definition aspec (x : res elem) : A := match x with Ok e => fv e | Err e => err e end.

  Lemma an_get_nof n : forall i tr, fst (an_get_f no_faults loaded fin err n i tr) = FOk (aspec (n_get n i)).
  Proof.
    induction n as [h nx es|h hs sums cs IH] using anode_ind'; intros i tr; cbn [an_get_f n_get].
    - destruct (nth_N es i); [apply Hfin|reflexivity].
    - destruct (h_count h <=? i); [reflexivity|].
      destruct (route hs sums i) as [[k j]|]; [|reflexivity].
      apply fst_read_nof. intros tr'. rewrite !on_kth_spec.
      destruct (nth_error cs k) as [ch|] eqn:E; cbn [option_map]; [|reflexivity].
      apply (Forall_nth_error _ _ _ _ IH E).
  Qed.
End anof.

Lemma afin_get_nof loaded e tr : fst (afin_get no_faults loaded e tr) = FOk (ArrayTree.RElem e).
Proof. unfold afin_get. destruct (ArrayTree.e_ext e =? 0); [reflexivity|]. apply fst_read_nof. reflexivity. Qed.

Lemma a_get_nof loaded a i : fst (a_get_f no_faults loaded a i) = FOk (ArrayTree.a_get a i).
Proof.
  unfold a_get_f, ArrayTree.a_get.
  rewrite (an_get_nof loaded _ ArrayTree.RErr ArrayTree.RElem (afin_get_nof loaded)).
  destruct (ArrayTree.n_get (ArrayTree.a_root a) i); reflexivity.
Qed.

(* ====================================================================== *)
(* 2. a faulty run is the fault-free run cut at the first failing call    *)
(* ====================================================================== *)

Section cuts_run.
  Variable p : plan.
  Variable loaded : N -> bool.
  Context {A : Type}.
  Notation R := (fres A * list cev)%type.

  Lemma emit_cuts e tr (Kp K0 : list cev -> R) :
    Kp (e :: tr) = cutr p (e :: tr) (K0 (e :: tr)) ->
    emit p e tr Kp = cutr p tr (emit no_faults e tr K0).
  Proof.
    intros H. unfold emit. cbn [no_faults p_fails]. destruct (K0 (e :: tr)) as [r t] eqn:E0.
    unfold cutr. cbn [snd fst cut].
    destruct (p_fails p (comp_of e) (cnt (comp_of e) tr)); [reflexivity|].
    rewrite H. unfold cutr. cbn [snd fst]. destruct (cut p (e :: tr) t) as [t' [c|]]; reflexivity.
  Qed.

  Lemma emit_swallowed_cuts e tr (Kp K0 : bool -> list cev -> R) :
    p_fails p (comp_of e) (cnt (comp_of e) tr) = false ->
    Kp false (e :: tr) = cutr p (e :: tr) (K0 false (e :: tr)) ->
    emit_swallowed p e tr Kp = cutr p tr (emit_swallowed no_faults e tr K0).
  Proof.
    intros Hf H. unfold emit_swallowed. cbn [no_faults p_fails]. rewrite Hf.
    destruct (K0 false (e :: tr)) as [r t] eqn:E0.
    unfold cutr. cbn [snd fst cut]. rewrite Hf.
    rewrite H. unfold cutr. cbn [snd fst]. destruct (cut p (e :: tr) t) as [t' [c|]]; reflexivity.
  Qed.

  Lemma read_cuts id tr (Kp K0 : list cev -> R) :
    Kp tr = cutr p tr (K0 tr) ->
    Kp (VRead id :: tr) = cutr p (VRead id :: tr) (K0 (VRead id :: tr)) ->
    read p loaded id tr Kp = cutr p tr (read no_faults loaded id tr K0).
  Proof. intros H1 H2. unfold read. destruct (loaded id || was_read id tr); [exact H1|apply emit_cuts, H2]. Qed.
End cuts_run.

Lemma cnt_dig_cmp s tr : cnt CDig (VCmp s :: tr) = cnt CDig tr.
Proof. reflexivity. Qed.
Lemma cnt_dig_read s tr : cnt CDig (VRead s :: tr) = cnt CDig tr.
Proof. reflexivity. Qed.
Lemma cnt_dig_dig l tr : cnt CDig (VDig l :: tr) = S (cnt CDig tr).
Proof. reflexivity. Qed.

Section cuts.
  Variable dg : N -> nat -> N.
  Variable levels : nat.
  Variable p : plan.
  Variable loaded : N -> bool.
  Context {A : Type}.
  Variables finp fin0 : kv * kv -> list cev -> fres A * list cev.
  Variable err : merr -> A.
  Hypothesis Hns : noswallow p.
  Hypothesis Hfin : forall q tr, finp q tr = cutr p tr (fin0 q tr).

  Lemma scan_cuts kvs k tr :
    scan_f p finp err kvs k tr = cutr p tr (scan_f no_faults fin0 err kvs k tr).
  Proof.
    revert tr. induction kvs as [|q r IH]; intros tr; cbn [scan_f]; [reflexivity|].
    apply emit_cuts. destruct (kid (fst q) =? k); [apply Hfin|apply IH].
  Qed.

  Lemma get_cuts f :
    (forall e l k tr, cnt CDig tr = S l ->
       get_elem_f dg levels p loaded finp err f e l k tr =
       cutr p tr (get_elem_f dg levels no_faults loaded fin0 err f e l k tr)) /\
    (forall g l k hk tr, cnt CDig tr = S l ->
       get_elems_f dg levels p loaded finp err f g l k hk tr =
       cutr p tr (get_elems_f dg levels no_faults loaded fin0 err f g l k hk tr)).
  Proof.
    induction f as [|f [IHe IHg]]; (split; [intros e l k tr Hc|intros g l k hk tr Hc]); try reflexivity.
    - cbn [get_elem_f]. destruct e as [k0 v0|loc g].
      + apply emit_cuts. destruct (kid k0 =? k); [apply Hfin|reflexivity].
      + assert (D : forall tr1, cnt CDig tr1 = S l ->
                 (if (levels <? S l)%nat then (FOk (err EInternal), [])
                  else emit_swallowed p (VDig (S l)) tr1
                         (fun failed tr2 => get_elems_f dg levels p loaded finp err f g (S l) k
                                                        (dig_value dg p failed k (S l)) tr2)) =
                 cutr p tr1
                   (if (levels <? S l)%nat then (FOk (err EInternal), [])
                    else emit_swallowed no_faults (VDig (S l)) tr1
                           (fun failed tr2 => get_elems_f dg levels no_faults loaded fin0 err f g (S l) k
                                                          (dig_value dg no_faults failed k (S l)) tr2))).
        { intros tr1 H1. destruct (levels <? S l)%nat; [reflexivity|].
          apply emit_swallowed_cuts.
          - cbn [comp_of]. rewrite H1. apply Hns.
          - unfold dig_value. apply IHg. rewrite cnt_dig_dig, H1. reflexivity. }
        destruct loc as [id|]; [|apply D, Hc].
        apply read_cuts; apply D; [exact Hc|rewrite cnt_dig_read; exact Hc].
    - cbn [get_elems_f]. destruct g as [lv hks es sz|lv kvs sz].
      + destruct (levels <=? l)%nat; [reflexivity|].
        destruct (fst (hk_search hks hk)) as [i|]; [|reflexivity].
        destruct (nth_error es i) as [e|]; [apply IHe, Hc|reflexivity].
      + destruct (negb (l =? levels)%nat); [reflexivity|]. apply scan_cuts.
  Qed.

  Lemma n_get_cuts n : forall k hk tr, cnt CDig tr = 1%nat ->
    n_get_f dg levels p loaded finp err n k hk tr =
    cutr p tr (n_get_f dg levels no_faults loaded fin0 err n k hk tr).
  Proof.
    induction n as [h nx es|h hs cs IH] using mnode_ind'; intros k hk tr Hc; cbn [n_get_f].
    - apply (proj2 (get_cuts _)), Hc.
    - destruct (route_get hs hk) as [i|]; [|reflexivity].
      assert (D : forall tr', cnt CDig tr' = 1%nat ->
                 match ArrayTree.on_kth (fun ch => n_get_f dg levels p loaded finp err ch k hk) cs i with
                 | Some f => f tr' | None => (FOk (err EInternal), []) end =
                 cutr p tr'
                   match ArrayTree.on_kth (fun ch => n_get_f dg levels no_faults loaded fin0 err ch k hk) cs i with
                   | Some f => f tr' | None => (FOk (err EInternal), []) end).
      { intros tr' H'. rewrite !on_kth_spec. destruct (nth_error cs i) as [ch|] eqn:E; cbn [option_map]; [|reflexivity].
        apply (Forall_nth_error _ _ _ _ IH E), H'. }
      apply read_cuts; apply D; [exact Hc|rewrite cnt_dig_read; exact Hc].
  Qed.

  Lemma prelude_cuts k (Kp K0 : N -> list cev -> fres A * list cev) :
    (forall hk tr, cnt CDig tr = 1%nat -> Kp hk tr = cutr p tr (K0 hk tr)) ->
    prelude dg p k Kp = cutr p [] (prelude dg no_faults k K0).
  Proof. intros H. unfold prelude. apply emit_cuts, emit_cuts, H. reflexivity. Qed.

  Lemma lookup_cuts root k :
    lookup_f dg levels p loaded finp err root k = cutr p [] (lookup_f dg levels no_faults loaded fin0 err root k).
  Proof. unfold lookup_f. apply prelude_cuts. intros hk tr H. apply n_get_cuts, H. Qed.

  Lemma elookup_cuts g k :
    elookup_f dg levels p loaded finp err g k = cutr p [] (elookup_f dg levels no_faults loaded fin0 err g k).
  Proof. unfold elookup_f. apply prelude_cuts. intros hk tr H. apply (proj2 (get_cuts _)), H. Qed.
End cuts.

Lemma fin_get_cuts vext p loaded q tr :
  fin_get vext p loaded q tr = cutr p tr (fin_get vext no_faults loaded q tr).
Proof. unfold fin_get. destruct (vext (snd q)); [|reflexivity]. apply read_cuts; reflexivity. Qed.

Lemma mt_get_cuts dg levels vext p loaded t k : noswallow p ->
  mt_get_f dg levels vext p loaded t k = cutr p [] (mt_get_f dg levels vext no_faults loaded t k).
Proof. intros H. apply lookup_cuts; [exact H|]. intros. apply fin_get_cuts. Qed.

Lemma mt_lookup_cuts dg levels p loaded t k : noswallow p ->
  mt_lookup_f dg levels p loaded t k = cutr p [] (mt_lookup_f dg levels no_faults loaded t k).
Proof. intros H. apply lookup_cuts; [exact H|]. reflexivity. Qed.

Lemma m_get_cuts dg levels vext p loaded s k : noswallow p ->
  m_get_f dg levels vext p loaded s k = cutr p [] (m_get_f dg levels vext no_faults loaded s k).
Proof. intros H. apply elookup_cuts; [exact H|]. intros. apply fin_get_cuts. Qed.

(* Has: the same before OrderedMap.Has looks for a KeyNotFoundError *)
Lemma mt_has_cuts dg levels p loaded t k : noswallow p ->
  mt_has_f dg levels p loaded t k =
  has_post (cutr p [] (lookup_f dg levels no_faults loaded fin_has err_has (t_root t) k)).
Proof. intros H. unfold mt_has_f, mt_has_raw_f. f_equal. apply lookup_cuts; [exact H|]. reflexivity. Qed.

Lemma m_has_cuts dg levels p loaded s k : noswallow p ->
  m_has_f dg levels p loaded s k =
  has_post (cutr p [] (elookup_f dg levels no_faults loaded fin_has err_has (m_root s) k)).
Proof. intros H. unfold m_has_f, m_has_raw_f. f_equal. apply elookup_cuts; [exact H|]. reflexivity. Qed.

(* arrays: no dropped errors, every plan *)
Section acuts.
  Import ArrayTree.
  Variable p : plan.
  Variable loaded : N -> bool.
  Context {A : Type}.
  Variables finp fin0 : elem -> list cev -> fres A * list cev.
  Variable err : aerr -> A.
  Hypothesis Hfin : forall e tr, finp e tr = cutr p tr (fin0 e tr).

  Lemma an_get_cuts n : forall i tr,
    an_get_f p loaded finp err n i tr = cutr p tr (an_get_f no_faults loaded fin0 err n i tr).
  Proof.
    induction n as [h nx es|h hs sums cs IH] using anode_ind'; intros i tr; cbn [an_get_f].
    - destruct (nth_N es i); [apply Hfin|reflexivity].
    - destruct (h_count h <=? i); [reflexivity|].
      destruct (route hs sums i) as [[k j]|]; [|reflexivity].
      assert (D : forall tr',
                 match on_kth (fun ch => an_get_f p loaded finp err ch j) cs k with
                 | Some f => f tr' | None => (FOk (err ESlabNotFound), []) end =
                 cutr p tr'
                   match on_kth (fun ch => an_get_f no_faults loaded fin0 err ch j) cs k with
                   | Some f => f tr' | None => (FOk (err ESlabNotFound), []) end).
      { intros tr'. rewrite !on_kth_spec. destruct (nth_error cs k) as [ch|] eqn:E; cbn [option_map]; [|reflexivity].
        apply (Forall_nth_error _ _ _ _ IH E). }
      apply read_cuts; apply D.
  Qed.
End acuts.

Lemma afin_get_cuts p loaded e tr : afin_get p loaded e tr = cutr p tr (afin_get no_faults loaded e tr).
Proof. unfold afin_get. destruct (ArrayTree.e_ext e =? 0); [reflexivity|]. apply read_cuts; reflexivity. Qed.

Lemma a_get_cuts p loaded a i : a_get_f p loaded a i = cutr p [] (a_get_f no_faults loaded a i).
Proof. unfold a_get_f. apply an_get_cuts. intros. apply afin_get_cuts. Qed.

(* ====================================================================== *)
(* 3. dropped digester errors                                             *)
(* ====================================================================== *)

Lemma strip_fails p c i : c <> CDig \/ i = O -> p_fails (strip p) c i = p_fails p c i.
Proof. intros [H|H]; destruct c, i; cbn; try reflexivity; congruence. Qed.
Lemma strip_noswallow p : noswallow (strip p).
Proof. intros i. reflexivity. Qed.

Section strip_run.
  Variable p : plan.
  Variable loaded : N -> bool.
  Context {A : Type}.
  Notation R := (fres A * list cev)%type.

  Lemma emit_strip e tr (K K' : list cev -> R) :
    comp_of e <> CDig \/ cnt CDig tr = 0%nat -> K (e :: tr) = K' (e :: tr) ->
    emit p e tr K = emit (strip p) e tr K'.
  Proof.
    intros Hc H. unfold emit. rewrite strip_fails, H; [reflexivity|].
    destruct Hc as [H1|H1]; [left; exact H1|].
    destruct (comp_of e) eqn:E; try (left; discriminate). right. exact H1.
  Qed.

  Lemma read_strip id tr (K K' : list cev -> R) :
    K tr = K' tr -> K (VRead id :: tr) = K' (VRead id :: tr) ->
    read p loaded id tr K = read (strip p) loaded id tr K'.
  Proof.
    intros H1 H2. unfold read. destruct (loaded id || was_read id tr); [exact H1|].
    apply emit_strip; [left; discriminate|exact H2].
  Qed.
End strip_run.

Section swallow.
  Variable dg : N -> nat -> N.
  Variable levels : nat.
  Variable p : plan.
  Variable loaded : N -> bool.
  Context {A : Type}.
  Variables finp fins : kv * kv -> list cev -> fres A * list cev.
  Variable err : merr -> A.
  Variable k : N.                                      (* the key looked up *)
  Hypothesis Hfin : forall q tr, finp q tr = fins q tr.

  Let dg' := dgp p dg k.

  Lemma scan_strip kvs tr : scan_f p finp err kvs k tr = scan_f (strip p) fins err kvs k tr.
  Proof.
    revert tr. induction kvs as [|q r IH]; intros tr; cbn [scan_f]; [reflexivity|].
    apply emit_strip; [left; discriminate|]. destruct (kid (fst q) =? k); [apply Hfin|apply IH].
  Qed.

  Lemma dig_value_strip l : dig_value dg p (p_fails p CDig (S l)) k (S l) = dig_value dg' (strip p) false k (S l).
  Proof.
    unfold dig_value, dg', dgp. rewrite N.eqb_refl. cbn [andb].
    destruct (p_fails p CDig (S l)); reflexivity.
  Qed.

  Lemma get_strip f :
    (forall e l tr, cnt CDig tr = S l ->
       get_elem_f dg levels p loaded finp err f e l k tr =
       get_elem_f dg' levels (strip p) loaded fins err f e l k tr) /\
    (forall g l hk tr, cnt CDig tr = S l ->
       get_elems_f dg levels p loaded finp err f g l k hk tr =
       get_elems_f dg' levels (strip p) loaded fins err f g l k hk tr).
  Proof.
    induction f as [|f [IHe IHg]]; (split; [intros e l tr Hc|intros g l hk tr Hc]); try reflexivity.
    - cbn [get_elem_f]. destruct e as [k0 v0|loc g].
      + apply emit_strip; [left; discriminate|]. destruct (kid k0 =? k); [apply Hfin|reflexivity].
      + assert (D : forall tr1, cnt CDig tr1 = S l ->
                 (if (levels <? S l)%nat then (FOk (err EInternal), [])
                  else emit_swallowed p (VDig (S l)) tr1
                         (fun failed tr2 => get_elems_f dg levels p loaded finp err f g (S l) k
                                                        (dig_value dg p failed k (S l)) tr2)) =
                 (if (levels <? S l)%nat then (FOk (err EInternal), [])
                  else emit_swallowed (strip p) (VDig (S l)) tr1
                         (fun failed tr2 => get_elems_f dg' levels (strip p) loaded fins err f g (S l) k
                                                        (dig_value dg' (strip p) failed k (S l)) tr2))).
        { intros tr1 H1. destruct (levels <? S l)%nat; [reflexivity|].
          unfold emit_swallowed. cbn [comp_of]. rewrite H1.
          replace (p_fails (strip p) CDig (S l)) with false by reflexivity.
          rewrite dig_value_strip. rewrite (proj2 (conj IHe IHg)); [reflexivity|].
          rewrite cnt_dig_dig, H1. reflexivity. }
        destruct loc as [id|]; [|apply D, Hc].
        apply read_strip; apply D; [exact Hc|rewrite cnt_dig_read; exact Hc].
    - cbn [get_elems_f]. destruct g as [lv hks es sz|lv kvs sz].
      + destruct (levels <=? l)%nat; [reflexivity|].
        destruct (fst (hk_search hks hk)) as [i|]; [|reflexivity].
        destruct (nth_error es i) as [e|]; [apply IHe, Hc|reflexivity].
      + destruct (negb (l =? levels)%nat); [reflexivity|]. apply scan_strip.
  Qed.

  Lemma n_get_strip n : forall hk tr, cnt CDig tr = 1%nat ->
    n_get_f dg levels p loaded finp err n k hk tr =
    n_get_f dg' levels (strip p) loaded fins err n k hk tr.
  Proof.
    induction n as [h nx es|h hs cs IH] using mnode_ind'; intros hk tr Hc; cbn [n_get_f].
    - apply (proj2 (get_strip _)), Hc.
    - destruct (route_get hs hk) as [i|]; [|reflexivity].
      assert (D : forall tr', cnt CDig tr' = 1%nat ->
                 match ArrayTree.on_kth (fun ch => n_get_f dg levels p loaded finp err ch k hk) cs i with
                 | Some f => f tr' | None => (FOk (err EInternal), []) end =
                 match ArrayTree.on_kth (fun ch => n_get_f dg' levels (strip p) loaded fins err ch k hk) cs i with
                 | Some f => f tr' | None => (FOk (err EInternal), []) end).
      { intros tr' H'. rewrite !on_kth_spec. destruct (nth_error cs i) as [ch|] eqn:E; cbn [option_map]; [|reflexivity].
        apply (Forall_nth_error _ _ _ _ IH E), H'. }
      apply read_strip; apply D; [exact Hc|rewrite cnt_dig_read; exact Hc].
  Qed.

  Lemma prelude_strip (K K' : N -> list cev -> fres A * list cev) :
    (forall hk tr, cnt CDig tr = 1%nat -> K hk tr = K' hk tr) ->
    prelude dg p k K = prelude dg' (strip p) k K'.
  Proof.
    intros H. unfold prelude. apply emit_strip; [left; discriminate|].
    apply emit_strip; [right; reflexivity|]. apply H. reflexivity.
  Qed.

  Lemma lookup_strip root :
    lookup_f dg levels p loaded finp err root k = lookup_f dg' levels (strip p) loaded fins err root k.
  Proof. unfold lookup_f. apply prelude_strip. intros hk tr H. apply n_get_strip, H. Qed.

  Lemma elookup_strip g :
    elookup_f dg levels p loaded finp err g k = elookup_f dg' levels (strip p) loaded fins err g k.
  Proof. unfold elookup_f. apply prelude_strip. intros hk tr H. apply (proj2 (get_strip _)), H. Qed.
End swallow.

Lemma fin_get_strip vext p loaded q tr : fin_get vext p loaded q tr = fin_get vext (strip p) loaded q tr.
Proof. unfold fin_get. destruct (vext (snd q)); [|reflexivity]. apply read_strip; reflexivity. Qed.

(* every plan: the run is the fault-free run over the changed digests, cut by the checked errors *)
Lemma mt_get_general dg levels vext p loaded t k :
  mt_get_f dg levels vext p loaded t k =
  cutr (strip p) [] (mt_get_f (dgp p dg k) levels vext no_faults loaded t k).
Proof.
  unfold mt_get_f. rewrite (lookup_strip dg levels p loaded _ (fin_get vext (strip p) loaded) RErr k (fin_get_strip vext p loaded)).
  apply lookup_cuts; [apply strip_noswallow|]. intros. apply fin_get_cuts.
Qed.

Lemma m_get_general dg levels vext p loaded s k :
  m_get_f dg levels vext p loaded s k =
  cutr (strip p) [] (m_get_f (dgp p dg k) levels vext no_faults loaded s k).
Proof.
  unfold m_get_f. rewrite (elookup_strip dg levels p loaded _ (fin_get vext (strip p) loaded) RErr k (fin_get_strip vext p loaded)).
  apply elookup_cuts; [apply strip_noswallow|]. intros. apply fin_get_cuts.
Qed.

Lemma mt_has_general dg levels p loaded t k :
  mt_has_f dg levels p loaded t k =
  has_post (cutr (strip p) [] (lookup_f (dgp p dg k) levels no_faults loaded fin_has err_has (t_root t) k)).
Proof.
  unfold mt_has_f, mt_has_raw_f. f_equal.
  rewrite (lookup_strip dg levels p loaded _ fin_has err_has k (fun _ _ => eq_refl)).
  apply lookup_cuts; [apply strip_noswallow|]. reflexivity.
Qed.

(* ====================================================================== *)
(* 4. where the cut falls                                                 *)
(* ====================================================================== *)

Lemma cut_nofail p tr t : (forall c i, p_fails p c i = false) -> cut p tr t = (t, None).
Proof.
  intros H. revert tr. induction t as [|e t IH]; intros tr; cbn [cut]; [reflexivity|].
  rewrite H, IH. reflexivity.
Qed.

Lemma cutr_nofail {A} p tr (x : fres A * list cev) : (forall c i, p_fails p c i = false) -> cutr p tr x = x.
Proof. intros H. unfold cutr. rewrite cut_nofail by exact H. destruct x; reflexivity. Qed.

Lemma cut_prefix p t : forall tr, exists t2, t = fst (cut p tr t) ++ t2.
Proof.
  induction t as [|e t IH]; intros tr; cbn [cut]; [exists []; reflexivity|].
  destruct (p_fails p (comp_of e) (cnt (comp_of e) tr)); [exists t; reflexivity|].
  destruct (IH (e :: tr)) as [t2 E]. destruct (cut p (e :: tr) t) as [t' f]. cbn [fst] in *.
  exists t2. cbn [app]. f_equal. exact E.
Qed.

(* a failed run stops ON a call of the failing component *)
Lemma cut_some_last p t : forall tr t' c, cut p tr t = (t', Some c) ->
  exists t1 e, t' = t1 ++ [e] /\ comp_of e = c.
Proof.
  induction t as [|e t IH]; intros tr t' c H; cbn [cut] in H; [discriminate|].
  destruct (p_fails p (comp_of e) (cnt (comp_of e) tr)).
  - inversion H; subst. exists [], e. split; reflexivity.
  - destruct (cut p (e :: tr) t) as [t'' f] eqn:E. inversion H; subst.
    destruct (IH _ _ _ E) as (t1 & e' & -> & Hc). exists (e :: t1), e'. split; [reflexivity|exact Hc].
Qed.

Section cut_first.
  Variable p : plan.
  Variable c : comp.
  Variable i : nat.
  Hypothesis Hother : forall c' j, c' <> c -> p_fails p c' j = false.
  Hypothesis Hbefore : forall j, (j < i)%nat -> p_fails p c j = false.
  Hypothesis Hat : p_fails p c i = true.

  Lemma cut_first t : forall tr, (cnt c tr <= i)%nat ->
    ((i < cnt c tr + cnt c t)%nat ->
       exists t1 t2, t = t1 ++ t2 /\ cut p tr t = (t1, Some c) /\ (cnt c tr + cnt c t1 = S i)%nat) /\
    ((cnt c tr + cnt c t <= i)%nat -> cut p tr t = (t, None)).
  Proof.
    induction t as [|e t IH]; intros tr Hle.
    - split; [rewrite cnt_nil; lia|reflexivity].
    - rewrite cnt_cons. cbn [cut]. specialize (IH (e :: tr)). rewrite cnt_cons in IH.
      unfold ind in *. destruct (comp_eqb (comp_of e) c) eqn:Ec.
      + assert (Ee : comp_of e = c) by (apply comp_eqb_eq; exact Ec). rewrite Ee.
        destruct (Nat.eq_dec (cnt c tr) i) as [Ei|Ni].
        * rewrite Ei, Hat. split; [|lia]. intros _. exists [e], t. repeat split.
          rewrite cnt_cons, cnt_nil. unfold ind. rewrite Ec. lia.
        * rewrite Hbefore by lia. destruct IH as [IH1 IH2]; [lia|]. split; intros H.
          -- destruct IH1 as (t1 & t2 & E & Ecut & Ecnt); [lia|]. rewrite Ecut.
             exists (e :: t1), t2. split; [cbn [app]; f_equal; exact E|]. split; [reflexivity|].
             rewrite cnt_cons. unfold ind. rewrite Ec. lia.
          -- rewrite IH2 by lia. reflexivity.
      + assert (Ne : comp_of e <> c) by (intros X; rewrite X, comp_eqb_refl in Ec; discriminate).
        rewrite (Hother _ _ Ne). destruct IH as [IH1 IH2]; [lia|]. split; intros H.
        * destruct IH1 as (t1 & t2 & E & Ecut & Ecnt); [lia|]. rewrite Ecut.
          exists (e :: t1), t2. split; [cbn [app]; f_equal; exact E|]. split; [reflexivity|].
          rewrite cnt_cons. unfold ind. rewrite Ec. lia.
        * rewrite IH2 by lia. reflexivity.
  Qed.

  (* the run-level reading: x0 is the fault-free run *)
  Lemma cutr_first {A} (x0 : fres A * list cev) :
    ((i < cnt c (snd x0))%nat ->
       fst (cutr p [] x0) = FFail c (p_kind p) /\
       cnt c (snd (cutr p [] x0)) = S i /\
       exists t2, snd x0 = snd (cutr p [] x0) ++ t2) /\
    ((cnt c (snd x0) <= i)%nat -> cutr p [] x0 = x0).
  Proof.
    destruct (cut_first (snd x0) [] ltac:(rewrite cnt_nil; lia)) as [H1 H2]. rewrite cnt_nil in *.
    split; intros H.
    - destruct (H1 H) as (t1 & t2 & E & Ecut & Ecnt). unfold cutr. rewrite Ecut. cbn [fst snd].
      split; [reflexivity|]. split; [lia|]. exists t2. exact E.
    - unfold cutr. rewrite (H2 H). destruct x0; reflexivity.
  Qed.
End cut_first.

(* the two plan shapes of the harness satisfy the hypotheses *)
Lemma fail_at_other c i k j c' n : c' <> c -> p_fails (fail_at c i k j) c' n = false.
Proof. intros H. cbn. destruct (comp_eqb c c') eqn:E; [|reflexivity]. apply comp_eqb_eq in E. congruence. Qed.
Lemma fail_at_before c i k j n : (n < i)%nat -> p_fails (fail_at c i k j) c n = false.
Proof. intros H. cbn. rewrite comp_eqb_refl. cbn [andb]. apply Nat.eqb_neq. lia. Qed.
Lemma fail_at_at c i k j : p_fails (fail_at c i k j) c i = true.
Proof. cbn. rewrite comp_eqb_refl, Nat.eqb_refl. reflexivity. Qed.
Lemma fail_at_noswallow c i k j : c <> CDig \/ i = O -> noswallow (fail_at c i k j).
Proof.
  intros [H|H] n; cbn.
  - destruct (comp_eqb c CDig) eqn:E; [|reflexivity]. apply comp_eqb_eq in E. congruence.
  - subst. apply andb_false_r.
Qed.

Lemma fail_from_other c i k j c' n : c' <> c -> p_fails (fail_from c i k j) c' n = false.
Proof. intros H. cbn. destruct (comp_eqb c c') eqn:E; [|reflexivity]. apply comp_eqb_eq in E. congruence. Qed.
Lemma fail_from_before c i k j n : (n < i)%nat -> p_fails (fail_from c i k j) c n = false.
Proof. intros H. cbn. rewrite comp_eqb_refl. cbn [andb]. apply Nat.leb_gt. lia. Qed.
Lemma fail_from_at c i k j : p_fails (fail_from c i k j) c i = true.
Proof. cbn. rewrite comp_eqb_refl. cbn [andb]. apply Nat.leb_refl. Qed.
Lemma fail_from_noswallow c i k j : c <> CDig -> noswallow (fail_from c i k j).
Proof. intros H n; cbn. destruct (comp_eqb c CDig) eqn:E; [|reflexivity]. apply comp_eqb_eq in E. congruence. Qed.

(* a digester failing at a deeper level only: nothing is ever cut *)
Lemma strip_dig_deep_nofail i k j c n : p_fails (strip (fail_at CDig (S i) k j)) c n = false.
Proof. destruct c, n; reflexivity. Qed.

(* ====================================================================== *)
(* 5. how many calls: bounds that hold for EVERY plan                     *)
(* ====================================================================== *)

Section bounds_run.
  Variable p : plan.
  Variable loaded : N -> bool.
  Context {A : Type}.
  Variable c : comp.
  Notation R := (fres A * list cev)%type.

  Lemma cnt_emit e tr (K : list cev -> R) b :
    (forall tr', (cnt c (snd (K tr')) <= b)%nat) -> (cnt c (snd (emit p e tr K)) <= w c (comp_of e) + b)%nat.
  Proof.
    intros H. unfold emit. destruct (p_fails p (comp_of e) (cnt (comp_of e) tr)).
    - cbn [snd]. rewrite cnt_cons, cnt_nil. unfold ind, w. lia.
    - specialize (H (e :: tr)). destruct (K (e :: tr)) as [r t]. cbn [snd] in *. rewrite cnt_cons. unfold ind, w in *. lia.
  Qed.

  Lemma cnt_emit_swallowed e tr (K : bool -> list cev -> R) b :
    (forall fl tr', (cnt c (snd (K fl tr')) <= b)%nat) -> (cnt c (snd (emit_swallowed p e tr K)) <= w c (comp_of e) + b)%nat.
  Proof.
    intros H. unfold emit_swallowed.
    specialize (H (p_fails p (comp_of e) (cnt (comp_of e) tr)) (e :: tr)).
    destruct (K _ (e :: tr)) as [r t]. cbn [snd] in *. rewrite cnt_cons. unfold ind, w in *. lia.
  Qed.

  Lemma cnt_read id tr (K : list cev -> R) b :
    (forall tr', (cnt c (snd (K tr')) <= b)%nat) -> (cnt c (snd (read p loaded id tr K)) <= w c CRead + b)%nat.
  Proof.
    intros H. unfold read. destruct (loaded id || was_read id tr).
    - specialize (H tr). lia.
    - apply (cnt_emit (VRead id)), H.
  Qed.
End bounds_run.

Lemma go_max {X} (F : X -> nat) (l : list X) i x : nth_error l i = Some x ->
  (F x <= (fix go (l : list X) : nat := match l with [] => O | y :: r => Nat.max (F y) (go r) end) l)%nat.
Proof.
  revert i. induction l as [|a l IH]; intros [|i] H; cbn [nth_error] in H; try discriminate.
  - inversion H; subst. apply Nat.le_max_l.
  - specialize (IH _ H). etransitivity; [exact IH|apply Nat.le_max_r].
Qed.

(* the skeleton: any bound that dominates what each construct adds *)
Section skeleton.
  Variable dg : N -> nat -> N.
  Variable levels : nat.
  Variable p : plan.
  Variable loaded : N -> bool.
  Context {A : Type}.
  Variable fin : kv * kv -> list cev -> fres A * list cev.
  Variable err : merr -> A.
  Variable c : comp.
  Variable m : nat.
  Hypothesis Hfin : forall q tr, (cnt c (snd (fin q tr)) <= m)%nat.

  Variable Be : melem -> nat -> nat.
  Variable Bg : melems -> nat -> nat.
  Variable Bn : mnode -> nat.
  Hypothesis HS : forall k0 v0 l, (w c CCmp + m <= Be (ESingle k0 v0) l)%nat.
  Hypothesis HGi : forall g l, (S l <= levels)%nat -> (w c CDig + Bg g (S l) <= Be (EGroup None g) l)%nat.
  Hypothesis HGe : forall id g l, (S l <= levels)%nat -> (w c CRead + (w c CDig + Bg g (S l)) <= Be (EGroup (Some id) g) l)%nat.
  Hypothesis HGe' : forall id g l, (w c CRead <= Be (EGroup (Some id) g) l)%nat.
  Hypothesis HK : forall lv hks es sz i e l, nth_error es i = Some e -> (Be e l <= Bg (HKey lv hks es sz) l)%nat.
  Hypothesis HL : forall lv kvs sz l, (w c CCmp * length kvs + m <= Bg (SList lv kvs sz) l)%nat.
  Hypothesis HMD : forall h nx es, (Bg es 0 <= Bn (MD h nx es))%nat.
  Hypothesis HMM : forall h hs cs i ch, nth_error cs i = Some ch -> (w c CRead + Bn ch <= Bn (MM h hs cs))%nat.
  Hypothesis HMM' : forall h hs cs, (w c CRead <= Bn (MM h hs cs))%nat.

  Lemma scan_bound kvs k tr : (cnt c (snd (scan_f p fin err kvs k tr)) <= w c CCmp * length kvs + m)%nat.
  Proof.
    revert tr. induction kvs as [|q r IH]; intros tr; cbn [scan_f length]; [cbn; lia|].
    rewrite Nat.mul_succ_r, (Nat.add_comm _ (w c CCmp)), <- Nat.add_assoc.
    apply (cnt_emit p c (VCmp (kid (fst q)))). intros tr'.
    destruct (kid (fst q) =? k); [specialize (Hfin q tr'); lia|apply IH].
  Qed.

  Lemma skel f :
    (forall e l k tr, (cnt c (snd (get_elem_f dg levels p loaded fin err f e l k tr)) <= Be e l)%nat) /\
    (forall g l k hk tr, (cnt c (snd (get_elems_f dg levels p loaded fin err f g l k hk tr)) <= Bg g l)%nat).
  Proof.
    induction f as [|f [IHe IHg]]; (split; [intros e l k tr|intros g l k hk tr]); try (cbn; lia).
    - cbn [get_elem_f]. destruct e as [k0 v0|loc g].
      + etransitivity; [|apply HS]. apply (cnt_emit p c (VCmp (kid k0))). intros tr'.
        destruct (kid k0 =? k); [apply Hfin|cbn; lia].
      + destruct loc as [id|].
        * destruct (levels <? S l)%nat eqn:El.
          -- etransitivity; [|apply (HGe' id g l)]. rewrite <- (Nat.add_0_r (w c CRead)).
             apply cnt_read. intros tr'. cbn. lia.
          -- apply Nat.ltb_ge in El. etransitivity; [|apply (HGe id g l El)].
             apply cnt_read. intros tr'. apply (cnt_emit_swallowed p c (VDig (S l))). intros fl tr2. apply IHg.
        * destruct (levels <? S l)%nat eqn:El; [cbn; lia|].
          apply Nat.ltb_ge in El. etransitivity; [|apply (HGi g l El)].
          apply (cnt_emit_swallowed p c (VDig (S l))). intros fl tr2. apply IHg.
    - cbn [get_elems_f]. destruct g as [lv hks es sz|lv kvs sz].
      + destruct (levels <=? l)%nat; [cbn; lia|].
        destruct (fst (hk_search hks hk)) as [i|]; [|cbn; lia].
        destruct (nth_error es i) as [e|] eqn:E; [|cbn; lia].
        etransitivity; [apply IHe|]. eapply HK, E.
      + destruct (negb (l =? levels)%nat); [cbn; lia|].
        etransitivity; [apply scan_bound|apply HL].
  Qed.

  Lemma skel_tree n : forall k hk tr,
    (cnt c (snd (n_get_f dg levels p loaded fin err n k hk tr)) <= Bn n)%nat.
  Proof.
    induction n as [h nx es|h hs cs IH] using mnode_ind'; intros k hk tr; cbn [n_get_f].
    - etransitivity; [apply (proj2 (skel _))|apply HMD].
    - destruct (route_get hs hk) as [i|]; [|cbn; lia].
      destruct (nth_error cs i) as [ch|] eqn:E.
      + etransitivity; [|apply (HMM h hs cs i ch E)]. apply cnt_read. intros tr'.
        rewrite on_kth_spec, E. cbn [option_map]. apply (Forall_nth_error _ _ _ _ IH E).
      + etransitivity; [|apply (HMM' h hs cs)]. rewrite <- (Nat.add_0_r (w c CRead)).
        apply cnt_read. intros tr'. rewrite on_kth_spec, E. cbn. lia.
  Qed.

  Lemma skel_prelude k (K : N -> list cev -> fres A * list cev) b :
    (forall hk tr, (cnt c (snd (K hk tr)) <= b)%nat) ->
    (cnt c (snd (prelude dg p k K)) <= w c CHip + (w c CDig + b))%nat.
  Proof.
    intros H. unfold prelude. apply (cnt_emit p c (VHip k)). intros tr1.
    apply (cnt_emit p c (VDig 0)). intros tr2. apply H.
  Qed.

  Lemma skel_lookup root k :
    (cnt c (snd (lookup_f dg levels p loaded fin err root k)) <= w c CHip + (w c CDig + Bn root))%nat.
  Proof. unfold lookup_f. apply skel_prelude. intros. apply skel_tree. Qed.

  Lemma skel_elookup g k :
    (cnt c (snd (elookup_f dg levels p loaded fin err g k)) <= w c CHip + (w c CDig + Bg g 0))%nat.
  Proof. unfold elookup_f. apply skel_prelude. intros. apply (proj2 (skel _)). Qed.
End skeleton.

(* instance 1: the structural bound [gbound] / [tbound], any component *)
Section structural.
  Variable dg : N -> nat -> N.
  Variable levels : nat.
  Variable p : plan.
  Variable loaded : N -> bool.
  Context {A : Type}.
  Variable fin : kv * kv -> list cev -> fres A * list cev.
  Variable err : merr -> A.
  Variable c : comp.
  Variable m : nat.
  Hypothesis Hfin : forall q tr, (cnt c (snd (fin q tr)) <= m)%nat.

  Let Be (e : melem) (_ : nat) := (gbound_e c e + m)%nat.
  Let Bg (g : melems) (_ : nat) := (gbound c g + m)%nat.
  Let Bn (n : mnode) := (tbound c n + m)%nat.

  Lemma structural_lookup root k :
    (cnt c (snd (lookup_f dg levels p loaded fin err root k)) <= w c CHip + (w c CDig + (tbound c root + m)))%nat.
  Proof.
    apply (skel_lookup dg levels p loaded fin err c m Hfin Be Bg Bn); unfold Be, Bg, Bn; intros; cbn [gbound_e gbound tbound]; try lia.
    - pose proof (go_max (gbound_e c) es i e H). lia.
    - pose proof (go_max (tbound c) cs i ch H). lia.
  Qed.

  Lemma structural_elookup g k :
    (cnt c (snd (elookup_f dg levels p loaded fin err g k)) <= w c CHip + (w c CDig + (gbound c g + m)))%nat.
  Proof.
    apply (skel_elookup dg levels p loaded fin err c m Hfin Be Bg); unfold Be, Bg; intros; cbn [gbound_e gbound]; try lia.
    pose proof (go_max (gbound_e c) es i e H). lia.
  Qed.
End structural.

(* instance 2: the digester is asked at most once per level *)
Section by_level.
  Variable dg : N -> nat -> N.
  Variable levels : nat.
  Variable p : plan.
  Variable loaded : N -> bool.
  Context {A : Type}.
  Variable fin : kv * kv -> list cev -> fres A * list cev.
  Variable err : merr -> A.
  Variable m : nat.
  Hypothesis Hfin : forall q tr, (cnt CDig (snd (fin q tr)) <= m)%nat.

  Let Be (_ : melem) (l : nat) := (levels - l + m)%nat.
  Let Bg (_ : melems) (l : nat) := (levels - l + m)%nat.

  Lemma level_lookup root k :
    (cnt CDig (snd (lookup_f dg levels p loaded fin err root k)) <= S levels + m)%nat.
  Proof.
    etransitivity; [apply (skel_lookup dg levels p loaded fin err CDig m Hfin Be Bg (fun _ => (levels + m)%nat))|];
      unfold Be, Bg; intros; cbn [w comp_eqb]; lia.
  Qed.

  Lemma level_elookup g k :
    (cnt CDig (snd (elookup_f dg levels p loaded fin err g k)) <= S levels + m)%nat.
  Proof.
    etransitivity; [apply (skel_elookup dg levels p loaded fin err CDig m Hfin Be Bg)|];
      unfold Be, Bg; intros; cbn [w comp_eqb]; lia.
  Qed.
End by_level.

(* instance 3: the hash-input provider is called once *)
Section hip_once.
  Variable dg : N -> nat -> N.
  Variable levels : nat.
  Variable p : plan.
  Variable loaded : N -> bool.
  Context {A : Type}.
  Variable fin : kv * kv -> list cev -> fres A * list cev.
  Variable err : merr -> A.
  Hypothesis Hfin : forall q tr, (cnt CHip (snd (fin q tr)) <= 0)%nat.

  Lemma hip_lookup root k : (cnt CHip (snd (lookup_f dg levels p loaded fin err root k)) <= 1)%nat.
  Proof.
    etransitivity; [apply (skel_lookup dg levels p loaded fin err CHip 0%nat Hfin (fun _ _ => 0%nat) (fun _ _ => 0%nat) (fun _ => 0%nat))|];
      intros; cbn [w comp_eqb]; lia.
  Qed.
  Lemma hip_elookup g k : (cnt CHip (snd (elookup_f dg levels p loaded fin err g k)) <= 1)%nat.
  Proof.
    etransitivity; [apply (skel_elookup dg levels p loaded fin err CHip 0%nat Hfin (fun _ _ => 0%nat) (fun _ _ => 0%nat))|];
      intros; cbn [w comp_eqb]; lia.
  Qed.
End hip_once.

(* the users' last step *)
Lemma fin_get_cnt vext p loaded c q tr : (cnt c (snd (fin_get vext p loaded q tr)) <= w c CRead)%nat.
Proof.
  unfold fin_get. destruct (vext (snd q)); [|cbn; lia].
  rewrite <- (Nat.add_0_r (w c CRead)). apply cnt_read. intros. cbn. lia.
Qed.

Lemma snd_has_post x : snd (has_post x) = snd x.
Proof. destruct x as [[a|c [| | | |]] t]; reflexivity. Qed.

Lemma mt_get_counts dg levels vext p loaded t k :
  let tr := snd (mt_get_f dg levels vext p loaded t k) in
  (cnt CHip tr <= 1 /\ cnt CDig tr <= S levels /\ cnt CCmp tr <= tcmp_bound (t_root t) /\ cnt CRead tr <= rd_bound (t_root t) + 1)%nat.
Proof.
  cbn zeta. unfold mt_get_f, tcmp_bound, rd_bound. repeat split.
  - apply hip_lookup. intros. apply (fin_get_cnt vext p loaded CHip).
  - etransitivity; [apply (level_lookup dg levels p loaded _ RErr 0%nat)|lia]. intros. apply (fin_get_cnt vext p loaded CDig).
  - etransitivity; [apply (structural_lookup dg levels p loaded _ RErr CCmp 0%nat)|cbn [w comp_eqb]; lia].
    intros. apply (fin_get_cnt vext p loaded CCmp).
  - etransitivity; [apply (structural_lookup dg levels p loaded _ RErr CRead 1%nat)|cbn [w comp_eqb]; lia].
    intros. apply (fin_get_cnt vext p loaded CRead).
Qed.

Lemma mt_has_counts dg levels p loaded t k :
  let tr := snd (mt_has_f dg levels p loaded t k) in
  (cnt CHip tr <= 1 /\ cnt CDig tr <= S levels /\ cnt CCmp tr <= tcmp_bound (t_root t) /\ cnt CRead tr <= rd_bound (t_root t))%nat.
Proof.
  cbn zeta. unfold mt_has_f, mt_has_raw_f, tcmp_bound, rd_bound. rewrite snd_has_post. repeat split.
  - apply hip_lookup. intros. cbn. lia.
  - etransitivity; [apply (level_lookup dg levels p loaded _ err_has 0%nat)|lia]. intros. cbn. lia.
  - etransitivity; [apply (structural_lookup dg levels p loaded _ err_has CCmp 0%nat)|cbn [w comp_eqb]; lia]. intros. cbn. lia.
  - etransitivity; [apply (structural_lookup dg levels p loaded _ err_has CRead 0%nat)|cbn [w comp_eqb]; lia]. intros. cbn. lia.
Qed.

Lemma m_get_counts dg levels vext p loaded s k :
  let tr := snd (m_get_f dg levels vext p loaded s k) in
  (cnt CHip tr <= 1 /\ cnt CDig tr <= S levels /\ cnt CCmp tr <= cmp_bound (m_root s) /\ cnt CRead tr <= ext_bound (m_root s) + 1)%nat.
Proof.
  cbn zeta. unfold m_get_f, cmp_bound, ext_bound. repeat split.
  - apply hip_elookup. intros. apply (fin_get_cnt vext p loaded CHip).
  - etransitivity; [apply (level_elookup dg levels p loaded _ RErr 0%nat)|lia]. intros. apply (fin_get_cnt vext p loaded CDig).
  - etransitivity; [apply (structural_elookup dg levels p loaded _ RErr CCmp 0%nat)|cbn [w comp_eqb]; lia].
    intros. apply (fin_get_cnt vext p loaded CCmp).
  - etransitivity; [apply (structural_elookup dg levels p loaded _ RErr CRead 1%nat)|cbn [w comp_eqb]; lia].
    intros. apply (fin_get_cnt vext p loaded CRead).
Qed.

(* arrays: only ledger reads, one per index slab crossed, one for a value in its own slab *)
Section abounds.
  Import ArrayTree.
  Variable p : plan.
  Variable loaded : N -> bool.
  Context {A : Type}.
  Variable fin : elem -> list cev -> fres A * list cev.
  Variable err : aerr -> A.
  Variable c : comp.
  Variable m : nat.
  Hypothesis Hfin : forall e tr, (cnt c (snd (fin e tr)) <= m)%nat.

  Lemma an_get_bound n : forall i tr,
    (cnt c (snd (an_get_f p loaded fin err n i tr)) <= w c CRead * aheight n + m)%nat.
  Proof.
    induction n as [h nx es|h hs sums cs IH] using anode_ind'; intros i tr; cbn [an_get_f aheight].
    - destruct (nth_N es i); [specialize (Hfin e tr); lia|cbn; lia].
    - destruct (h_count h <=? i); [cbn; lia|].
      destruct (route hs sums i) as [[k j]|]; [|cbn; lia].
      rewrite Nat.mul_succ_r, (Nat.add_comm _ (w c CRead)), <- Nat.add_assoc.
      apply cnt_read. intros tr'. rewrite on_kth_spec.
      destruct (nth_error cs k) as [ch|] eqn:E; cbn [option_map]; [|cbn; lia].
      etransitivity; [apply (Forall_nth_error _ _ _ _ IH E)|].
      pose proof (go_max aheight cs k ch E). nia.
  Qed.
End abounds.

Lemma afin_get_cnt p loaded c e tr : (cnt c (snd (afin_get p loaded e tr)) <= w c CRead)%nat.
Proof.
  unfold afin_get. destruct (ArrayTree.e_ext e =? 0); [cbn; lia|].
  rewrite <- (Nat.add_0_r (w c CRead)). apply cnt_read. intros. cbn. lia.
Qed.

Lemma a_get_counts p loaded a i :
  let tr := snd (a_get_f p loaded a i) in
  (cnt CHip tr = 0 /\ cnt CDig tr = 0 /\ cnt CCmp tr = 0 /\ cnt CRead tr <= aheight (ArrayTree.a_root a) + 1)%nat.
Proof.
  cbn zeta. unfold a_get_f.
  pose proof (fun c => an_get_bound p loaded (afin_get p loaded) ArrayTree.RErr c (w c CRead) (afin_get_cnt p loaded c) (ArrayTree.a_root a) i []) as H.
  pose proof (H CHip) as H1. pose proof (H CDig) as H2. pose proof (H CCmp) as H3. pose proof (H CRead) as H4.
  cbn [w comp_eqb] in *. lia.
Qed.

(* ====================================================================== *)
(* 6. which slabs a lookup reads: slabs of the container only             *)
(* ====================================================================== *)

Lemma route_bs_lt fuel hs hk : forall i j ans r, (j <= length hs)%nat ->
  (forall a, ans = Some a -> (a < length hs)%nat) ->
  route_bs fuel hs hk i j ans = Some r -> (r < length hs)%nat.
Proof.
  induction fuel as [|f IH]; intros i j ans r Hj Ha H; cbn [route_bs] in H; [eauto|].
  destruct (i <? j)%nat eqn:E; [|eauto]. apply Nat.ltb_lt in E.
  assert (Hm : ((i + j) / 2 < j)%nat) by (apply Nat.div_lt_upper_bound; lia).
  set (mid := ((i + j) / 2)%nat) in *. clearbody mid.
  destruct (hk <? mh_first (nth mid hs (mkmhdr 0 0 0))).
  - eapply IH; [|exact Ha|exact H]. lia.
  - eapply IH; [exact Hj| |exact H]. intros a Ea. inversion Ea; subst. lia.
Qed.

Lemma route_get_lt hs hk i : route_get hs hk = Some i -> (i < length hs)%nat.
Proof. unfold route_get. apply route_bs_lt; [lia|discriminate]. Qed.

Section in_run.
  Variable p : plan.
  Variable loaded : N -> bool.
  Context {A : Type}.
  Notation R := (fres A * list cev)%type.

  Lemma in_emit x e tr (K : list cev -> R) : In x (snd (emit p e tr K)) -> x = e \/ In x (snd (K (e :: tr))).
  Proof.
    unfold emit. destruct (p_fails p (comp_of e) (cnt (comp_of e) tr)).
    - cbn. intros [H|[]]; left; congruence.
    - destruct (K (e :: tr)) as [r t]. cbn. intros [H|H]; [left; congruence|right; exact H].
  Qed.

  Lemma in_emit_swallowed x e tr (K : bool -> list cev -> R) :
    In x (snd (emit_swallowed p e tr K)) -> x = e \/ exists fl, In x (snd (K fl (e :: tr))).
  Proof.
    unfold emit_swallowed. destruct (K _ (e :: tr)) as [r t] eqn:E. cbn. intros [H|H]; [left; congruence|].
    right. eexists. rewrite E. exact H.
  Qed.

  Lemma in_read x id tr (K : list cev -> R) :
    In x (snd (read p loaded id tr K)) -> x = VRead id \/ exists tr', In x (snd (K tr')).
  Proof.
    unfold read. destruct (loaded id || was_read id tr); [intros H; right; eexists; exact H|].
    intros H. apply in_emit in H. destruct H as [H|H]; [left; exact H|right; eexists; exact H].
  Qed.
End in_run.

Section reads.
  Variable dg : N -> nat -> N.
  Variable levels : nat.
  Variable p : plan.
  Variable loaded : N -> bool.
  Context {A : Type}.
  Variable fin : kv * kv -> list cev -> fres A * list cev.
  Variable err : merr -> A.
  Variable P : N -> Prop.
  Hypothesis Hfin : forall q tr id, In (VRead id) (snd (fin q tr)) -> P id.

  Lemma scan_reads id kvs k tr : In (VRead id) (snd (scan_f p fin err kvs k tr)) -> P id.
  Proof.
    revert tr. induction kvs as [|q r IH]; intros tr; cbn [scan_f]; [intros []|].
    intros H. apply in_emit in H. destruct H as [H|H]; [discriminate|].
    destruct (kid (fst q) =? k); [eapply Hfin; exact H|eapply IH; exact H].
  Qed.

  Lemma get_reads id f :
    (forall e l k tr, In (VRead id) (snd (get_elem_f dg levels p loaded fin err f e l k tr)) -> In id (elem_slabs_e e) \/ P id) /\
    (forall g l k hk tr, In (VRead id) (snd (get_elems_f dg levels p loaded fin err f g l k hk tr)) -> In id (elem_slabs g) \/ P id).
  Proof.
    induction f as [|f [IHe IHg]]; (split; [intros e l k tr|intros g l k hk tr]); try (intros []).
    - cbn [get_elem_f]. destruct e as [k0 v0|loc g]; intros H.
      + apply in_emit in H. destruct H as [H|H]; [discriminate|].
        destruct (kid k0 =? k); [right; eapply Hfin; exact H|destruct H].
      + assert (D : forall tr1,
                 In (VRead id) (snd (if (levels <? S l)%nat then (FOk (err EInternal), [])
                      else emit_swallowed p (VDig (S l)) tr1
                             (fun failed tr2 => get_elems_f dg levels p loaded fin err f g (S l) k
                                                            (dig_value dg p failed k (S l)) tr2))) ->
                 In id (elem_slabs g) \/ P id).
        { intros tr1 H1. destruct (levels <? S l)%nat; [destruct H1|].
          apply in_emit_swallowed in H1. destruct H1 as [H1|[fl H1]]; [discriminate|]. eapply IHg; exact H1. }
        cbn [elem_slabs_e]. destruct loc as [id0|].
        * apply in_read in H. destruct H as [H|[tr' H]].
          -- inversion H; subst. left. left. reflexivity.
          -- destruct (D _ H) as [X|X]; [left; right; exact X|right; exact X].
        * apply D in H. exact H.
    - cbn [get_elems_f]. destruct g as [lv hks es sz|lv kvs sz]; intros H.
      + destruct (levels <=? l)%nat; [destruct H|].
        destruct (fst (hk_search hks hk)) as [i|]; [|destruct H].
        destruct (nth_error es i) as [e|] eqn:E; [|destruct H].
        destruct (IHe _ _ _ _ H) as [X|X]; [left|right; exact X].
        cbn [elem_slabs]. apply in_flat_map. exists e. split; [eapply nth_error_In; exact E|exact X].
      + destruct (negb (l =? levels)%nat); [destruct H|]. right. eapply scan_reads; exact H.
  Qed.

  Lemma n_get_reads id n : forall k hk tr,
    In (VRead id) (snd (n_get_f dg levels p loaded fin err n k hk tr)) -> In id (tree_slabs n) \/ P id.
  Proof.
    induction n as [h nx es|h hs cs IH] using mnode_ind'; intros k hk tr H; cbn [n_get_f tree_slabs] in *.
    - eapply (proj2 (get_reads id _)); exact H.
    - destruct (route_get hs hk) as [i|] eqn:Er; [|destruct H].
      apply in_read in H. destruct H as [H|[tr' H]].
      + inversion H; subst. left. apply in_or_app. left. apply in_map, nth_In, (route_get_lt _ _ _ Er).
      + rewrite on_kth_spec in H. destruct (nth_error cs i) as [ch|] eqn:E; cbn [option_map] in H; [|destruct H].
        destruct (Forall_nth_error _ _ _ _ IH E _ _ _ H) as [X|X]; [left|right; exact X].
        apply in_or_app. right. apply in_flat_map. exists ch. split; [eapply nth_error_In; exact E|exact X].
  Qed.

  Lemma lookup_reads id root k :
    In (VRead id) (snd (lookup_f dg levels p loaded fin err root k)) -> In id (tree_slabs root) \/ P id.
  Proof.
    unfold lookup_f, prelude. intros H.
    apply in_emit in H. destruct H as [H|H]; [discriminate|].
    apply in_emit in H. destruct H as [H|H]; [discriminate|].
    eapply n_get_reads; exact H.
  Qed.
End reads.

Lemma mt_get_reads dg levels vext p loaded t k id :
  In (VRead id) (snd (mt_get_f dg levels vext p loaded t k)) ->
  In id (tree_slabs (t_root t)) \/ exists v, vext v = Some id.
Proof.
  unfold mt_get_f. apply (lookup_reads dg levels p loaded (fin_get vext p loaded) RErr (fun i => exists v, vext v = Some i)).
  intros q tr id0 H. unfold fin_get in H.
  destruct (vext (snd q)) as [j|] eqn:E; [|destruct H].
  apply in_read in H. destruct H as [H|[tr' []]]. inversion H; subst. exists (snd q). exact E.
Qed.

Lemma mt_has_reads dg levels p loaded t k id :
  In (VRead id) (snd (mt_has_f dg levels p loaded t k)) -> In id (tree_slabs (t_root t)).
Proof.
  unfold mt_has_f, mt_has_raw_f. rewrite snd_has_post. intros H.
  destruct (lookup_reads dg levels p loaded fin_has err_has (fun _ => False) (fun _ _ _ X => X) id _ _ H) as [X|[]]. exact X.
Qed.

(* the cache only grows *)
Lemma loaded_after_mono {A} loaded (x : fres A * list cev) id : loaded id = true -> loaded_after loaded x id = true.
Proof. intros H. unfold loaded_after. rewrite H. reflexivity. Qed.

(* ====================================================================== *)
(* 7. on well-formed element structures                                   *)
(* ====================================================================== *)

Lemma Forall2_nth_error_r {X Y} (Rel : X -> Y -> Prop) l m i y :
  Forall2 Rel l m -> nth_error m i = Some y -> exists x, nth_error l i = Some x /\ Rel x y.
Proof.
  intros H. revert i. induction H as [|x0 y0 l m H0 _ IH]; intros [|i] E; cbn [nth_error] in *; try discriminate.
  - inversion E; subst. exists x0. split; [reflexivity|exact H0].
  - apply IH, E.
Qed.

(* the binary search answers with a position holding the digest asked for *)
Lemma bsearch_found fuel hks h : forall i j lt m, fst (bsearch fuel hks h i j lt) = Some m -> nth m hks 0 = h.
Proof.
  induction fuel as [|f IH]; intros i j lt m H; cbn [bsearch] in H; [discriminate|].
  destruct (i <? j)%nat; [|discriminate].
  destruct (h <? nth ((i + j) / 2) hks 0) eqn:E1; [eapply IH; exact H|].
  destruct (nth ((i + j) / 2) hks 0 <? h) eqn:E2; [eapply IH; exact H|].
  cbn [fst] in H. inversion H; subst. apply N.ltb_ge in E1, E2. apply N.le_antisymm; assumption.
Qed.

Lemma hk_search_found hks h m : fst (hk_search hks h) = Some m -> nth m hks 0 = h.
Proof. unfold hk_search. apply bsearch_found. Qed.

Section wf_reads.
  Variable dg : N -> nat -> N.
  Variable levels : nat.
  Variable p : plan.
  Variable loaded : N -> bool.
  Context {A : Type}.
  Variable fin : kv * kv -> list cev -> fres A * list cev.
  Variable err : merr -> A.
  Variable m : nat.
  Hypothesis Hfin : forall q tr, (cnt CRead (snd (fin q tr)) <= m)%nat.

  Definition top (l : nat) : nat := match l with O => 1%nat | S _ => 0%nat end.

  (* external groups exist at the first level only: at most ONE ledger read below a leaf *)
  Lemma wf_reads f :
    (forall e l h k tr, ewf_e dg levels l h e ->
       (cnt CRead (snd (get_elem_f dg levels p loaded fin err f e l k tr)) <= top l + m)%nat) /\
    (forall g l k hk tr, ewf_g dg levels l g ->
       (cnt CRead (snd (get_elems_f dg levels p loaded fin err f g l k hk tr)) <= top l + m)%nat).
  Proof.
    induction f as [|f [IHe IHg]]; (split; [intros e l h k tr W|intros g l k hk tr W]); try (cbn; lia).
    - cbn [get_elem_f]. inversion W as [l0 k0 v0|l0 h0 loc g Wg Hlen Hk Hloc]; subst.
      + etransitivity; [apply (cnt_emit p CRead (VCmp (kid k0)) tr _ m)|cbn [w comp_eqb comp_of]; lia].
        intros tr'. destruct (kid k0 =? k); [apply Hfin|cbn; lia].
      + assert (D : forall tr1,
                 (cnt CRead (snd (if (levels <? S l)%nat then (FOk (err EInternal), [])
                      else emit_swallowed p (VDig (S l)) tr1
                             (fun failed tr2 => get_elems_f dg levels p loaded fin err f g (S l) k
                                                            (dig_value dg p failed k (S l)) tr2))) <= m)%nat).
        { intros tr1. destruct (levels <? S l)%nat; [cbn; lia|].
          etransitivity; [apply (cnt_emit_swallowed p CRead (VDig (S l)) tr1 _ m)|cbn [w comp_eqb comp_of]; lia].
          intros fl tr2. specialize (IHg g (S l) k (dig_value dg p fl k (S l)) tr2 Wg). cbn [top] in IHg. lia. }
        destruct loc as [id|].
        * cbn in Hloc. subst l. cbn [top]. etransitivity; [apply (cnt_read p loaded CRead id tr _ m D)|cbn [w comp_eqb]; lia].
        * etransitivity; [apply (D tr)|lia].
    - cbn [get_elems_f]. inversion W as [l0 hks es sz Hl Hs Hsz HF|kvs sz Hsz Hnd]; subst.
      + destruct (levels <=? l)%nat; [cbn; lia|].
        destruct (fst (hk_search hks hk)) as [i|]; [|cbn; lia].
        destruct (nth_error es i) as [e|] eqn:E; [|cbn; lia].
        destruct (Forall2_nth_error_r _ _ _ _ _ HF E) as (h & _ & We). eapply IHe; exact We.
      + destruct (negb (_ =? _)%nat); [cbn; lia|].
        etransitivity; [apply (scan_bound p fin err CRead m Hfin)|cbn [w comp_eqb]; lia].
  Qed.
End wf_reads.

Lemma m_get_wf_reads dg levels vext p loaded s k : ewf dg levels (m_root s) ->
  (cnt CRead (snd (m_get_f dg levels vext p loaded s k)) <= 2)%nat.
Proof.
  intros W. unfold m_get_f, elookup_f.
  etransitivity; [apply (skel_prelude dg p CRead k _ 2%nat)|cbn [w comp_eqb]; lia].
  intros hk tr.
  apply (proj2 (wf_reads dg levels p loaded (fin_get vext p loaded) RErr 1%nat (fun q tr => fin_get_cnt vext p loaded CRead q tr) _) (m_root s) 0%nat k hk tr W).
Qed.

(* ====================================================================== *)
(* 8. the statements of C18 for single-fault plans                        *)
(* ====================================================================== *)

(* [first_fault p c i]: the plan fails component c at its call i and nothing before it *)
Definition first_fault (p : plan) (c : comp) (i : nat) : Prop :=
  (forall c' j, c' <> c -> p_fails p c' j = false) /\
  (forall j, (j < i)%nat -> p_fails p c j = false) /\
  p_fails p c i = true.

Lemma first_fault_fail_at c i k j : first_fault (fail_at c i k j) c i.
Proof. repeat split; [apply fail_at_other|apply fail_at_before|apply fail_at_at]. Qed.
Lemma first_fault_fail_from c i k j : first_fault (fail_from c i k j) c i.
Proof. repeat split; [apply fail_from_other|apply fail_from_before|apply fail_from_at]. Qed.

(* what a reached / unreached single fault does to a run, stated on the fault-free run x0 *)
Definition fault_outcome {A} (p : plan) (c : comp) (i : nat) (x0 x : fres A * list cev) : Prop :=
  ((i < cnt c (snd x0))%nat ->
     fst x = FFail c (p_kind p) /\ fres_cat (fst x) = Some (wrap_cat (p_kind p)) /\
     cnt c (snd x) = S i /\ exists t2, snd x0 = snd x ++ t2) /\
  ((cnt c (snd x0) <= i)%nat -> x = x0).

Lemma fault_outcome_cutr {A} p c i (x0 : fres A * list cev) : first_fault p c i -> fault_outcome p c i x0 (cutr p [] x0).
Proof.
  intros (Ho & Hb & Ha). destruct (cutr_first p c i Ho Hb Ha x0) as [H1 H2]. split; [|exact H2].
  intros H. destruct (H1 H) as (E1 & E2 & E3). rewrite E1. repeat split; [exact E2|exact E3].
Qed.

Lemma mt_get_fault dg levels vext p loaded t k c i : first_fault p c i -> noswallow p ->
  fault_outcome p c i (mt_get_f dg levels vext no_faults loaded t k) (mt_get_f dg levels vext p loaded t k).
Proof. intros Hf Hn. rewrite (mt_get_cuts dg levels vext p loaded t k Hn). apply fault_outcome_cutr, Hf. Qed.

Lemma m_get_fault dg levels vext p loaded s k c i : first_fault p c i -> noswallow p ->
  fault_outcome p c i (m_get_f dg levels vext no_faults loaded s k) (m_get_f dg levels vext p loaded s k).
Proof. intros Hf Hn. rewrite (m_get_cuts dg levels vext p loaded s k Hn). apply fault_outcome_cutr, Hf. Qed.

Lemma mt_has_raw_fault dg levels p loaded t k c i : first_fault p c i -> noswallow p ->
  fault_outcome p c i (mt_has_raw_f dg levels no_faults loaded t k) (mt_has_raw_f dg levels p loaded t k).
Proof.
  intros Hf Hn. unfold mt_has_raw_f.
  rewrite (lookup_cuts dg levels p loaded fin_has fin_has err_has Hn (fun _ _ => eq_refl)).
  apply fault_outcome_cutr, Hf.
Qed.

Lemma has_post_not_knf c k t : k <> KKeyNotFound -> has_post (FFail c k, t) = (FFail c k, t).
Proof. destruct k; intros H; try reflexivity. congruence. Qed.

(* Has: the same unless the component returned a KeyNotFoundError *)
Lemma mt_has_fault dg levels p loaded t k c i : first_fault p c i -> noswallow p -> p_kind p <> KKeyNotFound ->
  fault_outcome p c i (mt_has_f dg levels no_faults loaded t k) (mt_has_f dg levels p loaded t k).
Proof.
  intros Hf Hn Hk. destruct (mt_has_raw_fault dg levels p loaded t k c i Hf Hn) as [H1 H2].
  unfold fault_outcome, mt_has_f. rewrite !snd_has_post. split.
  - intros H. destruct (H1 H) as (E1 & E2 & E3 & E4).
    destruct (mt_has_raw_f dg levels p loaded t k) as [r tt]. cbn [fst snd] in *. subst r.
    rewrite has_post_not_knf by exact Hk. cbn [fst snd]. repeat split; [exact E3|exact E4].
  - intros H. rewrite (H2 H). reflexivity.
Qed.

(* ... and when it did, Has answers "absent" *)
Lemma mt_has_knf dg levels p loaded t k c i : first_fault p c i -> noswallow p -> p_kind p = KKeyNotFound ->
  (i < cnt c (snd (mt_has_raw_f dg levels no_faults loaded t k)))%nat ->
  fst (mt_has_f dg levels p loaded t k) = FOk (RBool false).
Proof.
  intros Hf Hn Hk H. destruct (mt_has_raw_fault dg levels p loaded t k c i Hf Hn) as [H1 _].
  destruct (H1 H) as (E1 & _). unfold mt_has_f.
  destruct (mt_has_raw_f dg levels p loaded t k) as [r tt]. cbn [fst] in E1. subst r. rewrite Hk. reflexivity.
Qed.

Lemma a_get_fault p loaded a n c i : first_fault p c i ->
  fault_outcome p c i (a_get_f no_faults loaded a n) (a_get_f p loaded a n).
Proof. intros Hf. rewrite (a_get_cuts p loaded a n). apply fault_outcome_cutr, Hf. Qed.

(* the plans of the harness *)
Lemma fail_from_noswallow' c i k j : c <> CDig -> noswallow (fail_from c i k j).
Proof. apply fail_from_noswallow. Qed.

(* a digester that fails at deeper levels only: the run is a fault-free run over other digests *)
Lemma mt_get_dig_dropped dg levels vext loaded t k i kd junk :
  mt_get_f dg levels vext (fail_at CDig (S i) kd junk) loaded t k =
  mt_get_f (dgp (fail_at CDig (S i) kd junk) dg k) levels vext no_faults loaded t k.
Proof. rewrite mt_get_general. apply cutr_nofail. intros c n. apply strip_dig_deep_nofail. Qed.

Lemma mt_has_dig_dropped dg levels loaded t k i kd junk :
  mt_has_f dg levels (fail_at CDig (S i) kd junk) loaded t k =
  mt_has_f (dgp (fail_at CDig (S i) kd junk) dg k) levels no_faults loaded t k.
Proof.
  rewrite mt_has_general. unfold mt_has_f, mt_has_raw_f. f_equal. apply cutr_nofail. intros c n. apply strip_dig_deep_nofail.
Qed.

(* the category: external exactly for uncategorised errors and ExternalErrors *)
Lemma wrap_cat_external k : wrap_cat k = External <-> (k = KPlain \/ k = KExternal).
Proof. destruct k; cbn; split; intros H; try (destruct H; discriminate); try discriminate; auto. Qed.

(* the cache after a run: what was loaded, plus slabs of the container *)
Lemma In_removelast {X} (x : X) l : In x (removelast l) -> In x l.
Proof.
  induction l as [|a l IH]; [intros []|]. cbn [removelast]. destruct l as [|b l]; [intros []|].
  intros [H|H]; [left; exact H|right; apply IH, H].
Qed.

Lemma was_read_in id t : was_read id t = true -> In (VRead id) t.
Proof.
  unfold was_read. rewrite existsb_exists. intros (e & He & Hr). destruct e; try discriminate.
  cbn in Hr. apply N.eqb_eq in Hr. subst. exact He.
Qed.

Lemma ok_calls_in {A} (x : fres A * list cev) e : In e (ok_calls x) -> In e (snd x).
Proof. unfold ok_calls. destruct (fst x); [auto|apply In_removelast]. Qed.

Lemma mt_get_cache dg levels vext p loaded t k id :
  loaded_after loaded (mt_get_f dg levels vext p loaded t k) id = true ->
  loaded id = true \/ In id (tree_slabs (t_root t)) \/ exists v, vext v = Some id.
Proof.
  unfold loaded_after. intros H. apply orb_true_iff in H. destruct H as [H|H]; [left; exact H|right].
  apply was_read_in, ok_calls_in in H. apply (mt_get_reads dg levels vext p loaded t k id H).
Qed.

Lemma mt_has_cache dg levels p loaded t k id :
  loaded_after loaded (mt_has_raw_f dg levels p loaded t k) id = true ->
  loaded id = true \/ In id (tree_slabs (t_root t)).
Proof.
  unfold loaded_after. intros H. apply orb_true_iff in H. destruct H as [H|H]; [left; exact H|right].
  apply was_read_in, ok_calls_in in H.
  pose proof (mt_has_reads dg levels p loaded t k id) as R. unfold mt_has_f in R. rewrite snd_has_post in R. exact (R H).
Qed.

(* ====================================================================== *)
(* 9. which keys the comparator sees (well-formed structures, fault-free) *)
(* ====================================================================== *)

Section nof_trace.
  Variable loaded : N -> bool.
  Context {A : Type}.
  Notation R := (fres A * list cev)%type.
  Lemma snd_emit_nof e tr (K : list cev -> R) : snd (emit no_faults e tr K) = e :: snd (K (e :: tr)).
  Proof. unfold emit. cbn [no_faults p_fails]. destruct (K (e :: tr)); reflexivity. Qed.
  Lemma snd_emit_swallowed_nof e tr (K : bool -> list cev -> R) :
    snd (emit_swallowed no_faults e tr K) = e :: snd (K false (e :: tr)).
  Proof. unfold emit_swallowed. cbn [no_faults p_fails]. destruct (K false (e :: tr)); reflexivity. Qed.
End nof_trace.

Lemma cnt_zero_not_in c t e : cnt c t = 0%nat -> In e t -> comp_of e <> c.
Proof.
  induction t as [|a t IH]; [intros _ []|]. rewrite cnt_cons. unfold ind. intros H [->|Hin].
  - intros E. rewrite E, comp_eqb_refl in H. discriminate.
  - apply IH; [|exact Hin]. destruct (comp_eqb (comp_of a) c); [discriminate|exact H].
Qed.

Lemma dkeys_in_flat es e i s : nth_error es i = Some e -> In s (dkeys (to_list_e e)) -> In s (dkeys (flat_map to_list_e es)).
Proof.
  intros E H. unfold dkeys in *. rewrite in_map_iff in *. destruct H as (q & Hq & Hin). exists q. split; [exact Hq|].
  apply in_flat_map. exists e. split; [eapply nth_error_In; exact E|exact Hin].
Qed.

Section cmp_keys.
  Variable dg : N -> nat -> N.
  Variable levels : nat.
  Variable loaded : N -> bool.
  Context {A : Type}.
  Variable fin : kv * kv -> list cev -> fres A * list cev.
  Variable err : merr -> A.
  Hypothesis Hfin : forall q tr, cnt CCmp (snd (fin q tr)) = 0%nat.

  (* all keys below an element stored under digest h of level l have that digest *)
  Lemma ewf_e_keys l h e : ewf_e dg levels l h e -> forall s, In s (dkeys (to_list_e e)) -> dg s l = h.
  Proof.
    intros W s Hs. inversion W as [l0 k0 v0|l0 h0 loc g Wg Hlen Hk Hloc]; subst.
    - cbn in Hs. destruct Hs as [<-|[]]. reflexivity.
    - cbn [to_list_e] in Hs. unfold dkeys in Hs. rewrite in_map_iff in Hs. destruct Hs as (q & <- & Hin).
      unfold keys_dg in Hk. rewrite Forall_forall in Hk. apply Hk, Hin.
  Qed.

  Lemma scan_cmp kvs k tr s :
    In (VCmp s) (snd (scan_f no_faults fin err kvs k tr)) -> In s (dkeys kvs).
  Proof.
    revert tr. induction kvs as [|q r IH]; intros tr; cbn [scan_f]; [intros []|].
    rewrite snd_emit_nof. intros [H|H]; [inversion H; left; reflexivity|].
    destruct (kid (fst q) =? k).
    - exfalso. apply (cnt_zero_not_in CCmp _ _ (Hfin q _) H). reflexivity.
    - right. eapply IH; exact H.
  Qed.

  Definition shares (s k : N) (a : nat) : Prop := forall l', (a <= l' < levels)%nat -> dg s l' = dg k l'.

  Lemma cmp_keys f k :
    (forall e l tr s, ewf_e dg levels l (dg k l) e ->
       let t := snd (get_elem_f dg levels no_faults loaded fin err f e l k tr) in
       In (VCmp s) t -> In s (dkeys (to_list_e e)) /\ ((2 <= cnt CCmp t)%nat -> shares s k (S l))) /\
    (forall g l tr s, ewf_g dg levels l g ->
       let t := snd (get_elems_f dg levels no_faults loaded fin err f g l k (dg k l) tr) in
       In (VCmp s) t -> In s (dkeys (to_list g)) /\ ((2 <= cnt CCmp t)%nat -> shares s k l)).
  Proof.
    induction f as [|f [IHe IHg]]; (split; [intros e l tr s W|intros g l tr s W]); cbn zeta; try (intros []).
    - cbn [get_elem_f]. inversion W as [l0 k0 v0 El Eh|l0 h0 loc g Wg Hlen Hk Hloc]; subst.
      + rewrite snd_emit_nof. cbn beta. destruct (kid k0 =? k).
        * pose proof (Hfin (k0, v0) (VCmp (kid k0) :: tr)) as Z. intros [H|H].
          -- inversion H. split; [left; reflexivity|]. rewrite cnt_cons, Z. cbn. lia.
          -- exfalso. apply (cnt_zero_not_in CCmp _ _ Z H). reflexivity.
        * cbn [snd]. intros [H|[]]. inversion H. split; [left; reflexivity|]. cbn. lia.
      + assert (D : forall tr1,
                 let t := snd (if (levels <? S l)%nat then (FOk (err EInternal), [])
                      else emit_swallowed no_faults (VDig (S l)) tr1
                             (fun failed tr2 => get_elems_f dg levels no_faults loaded fin err f g (S l) k
                                                            (dig_value dg no_faults failed k (S l)) tr2)) in
                 In (VCmp s) t -> In s (dkeys (to_list g)) /\ ((2 <= cnt CCmp t)%nat -> shares s k (S l))).
        { intros tr1. cbn zeta. destruct (levels <? S l)%nat; [intros []|].
          rewrite snd_emit_swallowed_nof. unfold dig_value. intros [H|H]; [discriminate|].
          rewrite cnt_cons. cbn [ind comp_of comp_eqb Nat.add].
          apply (IHg g (S l) _ s Wg H). }
        cbn [to_list_e]. destruct loc as [id|]; [|apply D].
        unfold read. destruct (loaded id || was_read id tr); [apply D|].
        rewrite snd_emit_nof. intros [H|H]; [discriminate|]. rewrite cnt_cons. cbn [ind comp_of comp_eqb Nat.add].
        apply (D _ H).
    - cbn [get_elems_f]. inversion W as [l0 hks es sz Hl Hs Hsz HF|kvs sz Hsz Hnd]; subst.
      + destruct (levels <=? l)%nat; [intros []|].
        destruct (fst (hk_search hks (dg k l))) as [i|] eqn:Es; [|intros []].
        destruct (nth_error es i) as [e|] eqn:E; [|intros []].
        destruct (Forall2_nth_error_r _ _ _ _ _ HF E) as (h & Eh & We).
        assert (h = dg k l).
        { apply hk_search_found in Es. rewrite <- Es. symmetry. apply nth_error_nth. exact Eh. }
        subst h. intros H. destruct (IHe e l tr s We H) as [C1 C2]. split.
        * cbn [to_list]. eapply dkeys_in_flat; eassumption.
        * intros H2 l' Hl'. destruct (Nat.eq_dec l' l) as [->|Nl].
          -- apply (ewf_e_keys _ _ _ We s C1).
          -- apply (C2 H2). lia.
      + destruct (negb (_ =? _)%nat); [intros []|]. intros H. split.
        * cbn [to_list]. eapply scan_cmp; exact H.
        * intros _ l' Hl'. lia.
  Qed.
End cmp_keys.

Lemma m_get_cmp_keys dg levels vext loaded s k x : ewf dg levels (m_root s) ->
  let t := snd (m_get_f dg levels vext no_faults loaded s k) in
  In (VCmp x) t ->
  In x (dkeys (to_list (m_root s))) /\ ((2 <= cnt CCmp t)%nat -> forall l, (l < levels)%nat -> dg x l = dg k l).
Proof.
  intros W. cbn zeta. unfold m_get_f, elookup_f, prelude. rewrite !snd_emit_nof.
  intros [H|[H|H]]; try discriminate. rewrite !cnt_cons. cbn [ind comp_of comp_eqb Nat.add].
  assert (Hfin : forall q tr, cnt CCmp (snd (fin_get vext no_faults loaded q tr)) = 0%nat).
  { intros q tr. pose proof (fin_get_cnt vext no_faults loaded CCmp q tr) as Z. cbn [w comp_eqb] in Z. lia. }
  destruct (proj2 (cmp_keys dg levels loaded (fin_get vext no_faults loaded) RErr Hfin (op_fuel levels) k) (m_root s) 0%nat _ x W H) as [C1 C2].
  split; [exact C1|]. intros H2 l Hl. apply (C2 H2). lia.
Qed.
