(* NestedDurable_steps.v — every operation of Nested.v but OCommit is a [dur_step]: the decomposition
   of Nested_steps.v (edit / notify / post steps) is replayed to obtain [op_shape], then
   [shape_dur] applies.  The context-building parts follow Nested_steps.v line by line. *)
From Coq Require Import ZArith NArith List Bool Lia Arith.
From AtreeGen Require Import Consts.
From AtreeModel Require Import Nested NestedDurable.
From AtreeProofs Require Import Nested_base Nested_resync Nested_chain Nested_edit Nested_ops Nested_steps Nested_proofs
  NestedDurable_base NestedDurable_chain NestedDurable_ops.
Import ListNotations.
Local Open Scope N_scope.

Definition dummy_slot : slot := mkSlot 0 0 (NScalar 0 0).

Lemma In_insert_nth_conv {A} i (x : A) l y : In y l -> In y (insert_nth i x l).
Proof.
  revert l; induction i as [|i IH]; intros l H.
  - destruct l; cbn; auto.
  - destruct l as [|z l]; [destruct H|]. cbn. destruct H as [<-|H]; auto.
Qed.

(* ---------- Array.Insert ---------- *)
Lemma arr_insert_shape n g f p i e f' :
  fwf n g f -> op_ok n f (OArrInsert p i e) -> arr_insert n g f p i e = (f', true) -> op_shape n g false f f' p.
Proof.
  intros Hwf ((c & Hc & Hk & Hi) & Hok) Hstep.
  destruct (fwf_parts _ _ _ Hwf) as (HS & Hidx & Hcs & Hio).
  unfold arr_insert in Hstep. rewrite Hc in Hstep. unfold is_arr in Hstep. rewrite Hk in Hstep. cbn [negb orb] in Hstep.
  destruct (Nat.ltb_spec (length (c_slots c)) i) as [Hlt|_]; [lia|].
  rewrite (storable_elem_get_t n g f p KArr 0 e Hok), Hc in Hstep.
  set (s' := mkSlot 0 0 e) in *. set (l' := insert_nth i s' (c_slots c)) in *.
  assert (Hlen : length l' = S (length (c_slots c))) by (apply insert_nth_length; auto).
  rewrite Hlen, (shift_up_ok f p c i Hidx Hc) in Hstep.
  set (sz := c_csize c + esize g (storable_elem g f KArr 0 e) e) in *.
  replace (storable_elem g f KArr 0 e) with (storable_elem g f (c_kind c) (s_ksz s') (s_val s')) in * by (rewrite Hk; reflexivity).
  change (set_callback g (commit_slots (storable_elem g f (c_kind c) (s_ksz s') (s_val s')) p c l' sz (shift_up i (c_idx c))) p i s')
    with (pipe g f p c l' sz (shift_up i (c_idx c)) i s') in Hstep.
  assert (Hnth : nth_error l' i = Some s') by (apply nth_error_insert_nth_eq; auto).
  assert (Hsz : sz = data_size g (storable_elem g f (c_kind c) (s_ksz s') (s_val s')) (c_kind c) l').
  { unfold sz, l'. rewrite (Hcs p c Hc).
    rewrite <- (data_size_old n g f p c (c_kind c) (s_ksz s') (s_val s') Hc Hok (c_slots c)) by auto.
    unfold data_size. rewrite sum_slots_insert by auto. rewrite Hk. unfold s'. cbn [base slot_size s_val s_ksz]. lia. }
  assert (HF : slots_from c l' (idx3_of c (shift_up i (c_idx c)) i s') (nc_of i s')).
  { intros j s v' w' Hj Hv'. unfold l' in Hj.
    destruct (Nat.lt_trichotomy j i) as [Hji|[->|Hji]].
    - rewrite nth_error_insert_nth_lt in Hj by auto.
      destruct (st_hooked _ _ _ HS p c j s v' w' Hc Hj Hv') as (cv & Hcv & _ & Hix). split; [|eauto].
      intros _. specialize (Hix Hk).
      assert (Hg : aget (shift_up i (c_idx c)) v' = Some j).
      { rewrite aget_shift_up, Hix. cbn. destruct (Nat.leb_spec i j); [lia|auto]. }
      unfold idx3_of. destruct (s_val s') as [|v w] eqn:Es; auto. unfold idx_with. rewrite Hk.
      rewrite aget_aset_ne; auto. intros ->. cbn in Es. subst e.
      destruct (elem_ok_child _ _ _ _ _ Hok) as (_ & _ & Hna & _). apply Hna. exists p, j, s, w', c. auto.
    - rewrite nth_error_insert_nth_eq in Hj by auto. injection Hj as <-. split.
      + intros _. unfold idx3_of. rewrite Hv'. unfold idx_with. rewrite Hk. apply aget_aset_eq.
      + left. unfold nc_of. now rewrite Hv'.
    - destruct j as [|j]; [lia|]. rewrite nth_error_insert_nth_gt in Hj by lia.
      destruct (st_hooked _ _ _ HS p c j s v' w' Hc Hj Hv') as (cv & Hcv & _ & Hix). split; [|eauto].
      intros _. specialize (Hix Hk).
      assert (Hg : aget (shift_up i (c_idx c)) v' = Some (S j)).
      { rewrite aget_shift_up, Hix. cbn. destruct (Nat.leb_spec i j); [auto|lia]. }
      unfold idx3_of. destruct (s_val s') as [|v w] eqn:Es; auto. unfold idx_with. rewrite Hk.
      rewrite aget_aset_ne; auto. intros ->. cbn in Es. subst e.
      destruct (elem_ok_child _ _ _ _ _ Hok) as (_ & _ & Hna & _). apply Hna. exists p, j, s, w', c. auto. }
  assert (X : ectx n g f (pipe g f p c l' sz (shift_up i (c_idx c)) i s') p c l' (idx3_of c (shift_up i (c_idx c)) i s') (nc_of i s')).
  { apply mk_ctx; auto. rewrite Hk. discriminate. }
  exists c, l', sz, (shift_up i (c_idx c)), i, s', f', None, false.
  split; auto. split; [exact Hok|]. split; [exact X|]. split; [exact Hstep|]. split; [reflexivity|]. split; [discriminate|].
  intros _ j s v w Hj _. left. unfold l'. apply In_insert_nth_conv. eapply nth_error_In; eauto.
Qed.

(* ---------- private set on an existing slot + the public post steps ---------- *)
Lemma cset_shape n g f p c i s e f4 old del :
  fwf n g f -> fget f p = Some c -> nth_error (c_slots c) i = Some s -> elem_ok n f p e ->
  cset_body (notify n g) g f p i e = (f4, true, old) ->
  op_shape n g false f (post_steps f4 p (od_of (s_val s)) del) p.
Proof.
  intros Hwf Hc Hn Hok Hstep.
  destruct (fwf_parts _ _ _ Hwf) as (HS & Hidx & Hcs & Hio).
  unfold cset_body in Hstep. rewrite Hc, Hn in Hstep.
  rewrite (storable_elem_get_t n g f p (c_kind c) (s_ksz s) e Hok), Hc in Hstep.
  set (s' := mkSlot (s_kid s) (s_ksz s) e) in *. set (l' := replace_nth i s' (c_slots c)) in *.
  set (sz := data_size g (storable_elem g f (c_kind c) (s_ksz s) e) (c_kind c) l') in *.
  change (set_callback g (commit_slots (storable_elem g f (c_kind c) (s_ksz s) e) p c l' sz (c_idx c)) p i s')
    with (pipe g f p c l' sz (c_idx c) i s') in Hstep.
  destruct (notify n g (pipe g f p c l' sz (c_idx c) i s') p) as [f4' ok'] eqn:Hntf.
  injection Hstep as <- -> _.
  assert (Hnth : nth_error l' i = Some s') by (eapply nth_error_replace_nth_eq; eauto).
  assert (Hnew_unatt : forall v w, e = NChild v w -> ~ attached f v).
  { intros v w ->. now destruct (elem_ok_child _ _ _ _ _ Hok) as (_ & _ & Hna & _). }
  assert (HF : slots_from c l' (idx3_of c (c_idx c) i s') (nc_of i s')).
  { intros j s1 v' w' Hj Hv'. destruct (Nat.eq_dec j i) as [->|Hji].
    - rewrite Hnth in Hj. injection Hj as <-. split.
      + intros Hk. unfold idx3_of. rewrite Hv'. unfold idx_with. rewrite Hk. apply aget_aset_eq.
      + left. unfold nc_of. now rewrite Hv'.
    - unfold l' in Hj. rewrite nth_error_replace_nth_ne in Hj by auto.
      destruct (st_hooked _ _ _ HS p c j s1 v' w' Hc Hj Hv') as (cv & Hcv & _ & Hix). split; [|eauto].
      intros Hk. specialize (Hix Hk). unfold idx3_of. destruct (s_val s') as [|v w] eqn:Es; auto.
      unfold idx_with. rewrite Hk. rewrite aget_aset_ne; auto. intros ->. cbn in Es.
      apply (Hnew_unatt _ _ Es). exists p, j, s1, w', c. auto. }
  assert (X : ectx n g f (pipe g f p c l' sz (c_idx c) i s') p c l' (idx3_of c (c_idx c) i s') (nc_of i s')).
  { apply mk_ctx; auto. intros Hk. unfold l'. rewrite (map_kid_replace i s' (c_slots c) s); auto. eapply st_keys; eauto. }
  exists c, l', sz, (c_idx c), i, s', f4', (od_of (s_val s)), del.
  split; auto. split; [exact Hok|]. split; [exact X|]. split; [exact Hntf|]. split; [reflexivity|]. split.
  2:{ intros _ j s1 v w Hj Hv1. destruct (Nat.eq_dec j i) as [->|Hji].
      - right. rewrite Hn in Hj. injection Hj as <-. unfold od_of. now rewrite Hv1.
      - left. apply (nth_error_In _ j). unfold l'. rewrite nth_error_replace_nth_ne by congruence. exact Hj. }
  intros v0 w0 Hod. unfold od_of in Hod. destruct (s_val s) as [|v0' w0'] eqn:Eo; [discriminate|]. injection Hod as <- <-.
  split; [eauto|]. intros s1 w Hin Hv1. destruct (In_nth_error _ _ Hin) as (j & Hj).
  destruct (Nat.eq_dec j i) as [->|Hji].
  + rewrite Hnth in Hj. injection Hj as <-. cbn in Hv1. apply (Hnew_unatt _ _ Hv1). exists p, i, s, w0', c. auto.
  + unfold l' in Hj. rewrite nth_error_replace_nth_ne in Hj by auto.
    assert (E1 : edge f p j s1 v0' w) by (exists c; auto).
    assert (E2 : edge f p i s v0' w0') by (exists c; auto).
    destruct (edge_unique _ _ _ HS _ _ _ _ _ _ _ _ _ E1 E2) as (_ & Hj' & _). congruence.
Qed.

Lemma arr_set_shape n g f p i e f' :
  fwf n g f -> op_ok n f (OArrSet p i e) -> arr_set n g f p i e = (f', true) -> op_shape n g false f f' p.
Proof.
  intros Hwf ((c & Hc & Hk & Hi) & Hok) Hstep.
  destruct (nth_error (c_slots c) i) as [s|] eqn:Hn; [|apply nth_error_None in Hn; lia].
  unfold arr_set in Hstep. rewrite Hc in Hstep. unfold is_arr in Hstep. rewrite Hk in Hstep. cbn [negb] in Hstep.
  destruct (cset_body (notify n g) g f p i e) as [[f1 ok1] old] eqn:Hcs.
  destruct (cset_res n g f p c i s e f1 ok1 old true Hwf Hc Hn Hok Hcs) as (-> & -> & _ & _).
  { unfold is_arr. now rewrite Hk. }
  injection Hstep as <-.
  assert (Heq : match s_val s with
                | NChild v0 _ => if same_child e v0 then uninline_old f1 (s_val s) else del_idx (uninline_old f1 (s_val s)) p v0
                | NScalar _ _ => uninline_old f1 (s_val s)
                end = post_steps f1 p (od_of (s_val s)) true).
  { rewrite post_steps_eq. destruct (s_val s) as [|v0 w0] eqn:Eo; auto.
    assert (Hsc : same_child e v0 = false).
    { destruct e as [|v w]; cbn; auto. destruct (N.eqb_spec v v0) as [->|]; auto. exfalso.
      destruct (elem_ok_child _ _ _ _ _ Hok) as (_ & _ & Hna & _). apply Hna. exists p, i, s, w0, c. auto. }
    now rewrite Hsc. }
  rewrite Heq. eapply cset_shape; eauto.
Qed.

(* ---------- removal of a slot ---------- *)
Lemma remove_shape n g f p c i s del idx' f3 :
  fwf n g f -> fget f p = Some c -> nth_error (c_slots c) i = Some s ->
  idx' = (if is_arr c then shift_down i (c_idx c) else c_idx c) ->
  notify n g (commit_slots f p c (remove_nth i (c_slots c)) (c_csize c - slot_size g f (c_kind c) s) idx') p = (f3, true) ->
  op_shape n g false f (post_steps f3 p (od_of (s_val s)) del) p.
Proof.
  intros Hwf Hc Hn Hidx' Hstep.
  destruct (fwf_parts _ _ _ Hwf) as (HS & Hidx & Hcs & Hio).
  set (l' := remove_nth i (c_slots c)) in *.
  assert (Hpos : forall j s1, nth_error l' j = Some s1 ->
            exists j0, nth_error (c_slots c) j0 = Some s1 /\ j0 <> i /\ j = (if Nat.ltb i j0 then pred j0 else j0)).
  { intros j s1 Hj. unfold l' in Hj. destruct (Nat.lt_ge_cases j i) as [Hlt|Hge].
    - rewrite nth_error_remove_nth_lt in Hj by auto. exists j. repeat split; auto; try lia.
      destruct (Nat.ltb_spec i j); [lia|auto].
    - rewrite nth_error_remove_nth_ge in Hj by auto. exists (S j). repeat split; auto; try lia.
      destruct (Nat.ltb_spec i (S j)); [auto|lia]. }
  assert (Hsz : c_csize c - slot_size g f (c_kind c) s = data_size g f (c_kind c) l').
  { rewrite (Hcs p c Hc). unfold data_size, l'. rewrite (sum_slots_remove g f (c_kind c) i s (c_slots c) Hn). lia. }
  assert (HF : slots_from c l' idx' None).
  { intros j s1 v' w' Hj Hv'. destruct (Hpos j s1 Hj) as (j0 & Hj0 & Hne & Hjeq). split; [|eauto].
    intros Hk. destruct (st_hooked _ _ _ HS p c j0 s1 v' w' Hc Hj0 Hv') as (cv & _ & _ & Hix). specialize (Hix Hk).
    rewrite Hidx'. unfold is_arr. rewrite Hk. rewrite aget_shift_down, Hix. cbn [option_map]. now rewrite Hjeq. }
  assert (X : ectx n g f (commit_slots f p c l' (c_csize c - slot_size g f (c_kind c) s) idx') p c l' idx' None).
  { apply mk_ctx0; auto. intros Hk. apply NoDup_remove_nth. eapply st_keys; eauto. }
  exists c, l', (c_csize c - slot_size g f (c_kind c) s), idx', 0%nat, dummy_slot, f3, (od_of (s_val s)), del.
  split; auto. split; [exact I|]. split; [exact X|]. split; [exact Hstep|]. split; [reflexivity|]. split.
  2:{ intros _ j s1 v w Hj Hv1. destruct (Nat.eq_dec j i) as [->|Hji].
      - right. rewrite Hn in Hj. injection Hj as <-. unfold od_of. now rewrite Hv1.
      - left. unfold l'. destruct (Nat.lt_ge_cases j i) as [Hlt|Hge].
        + apply (nth_error_In _ j). now rewrite nth_error_remove_nth_lt.
        + destruct j as [|j]; [lia|]. apply (nth_error_In _ j). rewrite nth_error_remove_nth_ge by lia. auto. }
  intros v0 w0 Hod. unfold od_of in Hod. destruct (s_val s) as [|v0' w0'] eqn:Eo; [discriminate|]. injection Hod as <- <-.
  split; [eauto|]. intros s1 w Hin Hv1. destruct (In_nth_error _ _ Hin) as (j & Hj).
  destruct (Hpos j s1 Hj) as (j0 & Hj0 & Hne & _).
  assert (E1 : edge f p j0 s1 v0' w) by (exists c; auto).
  assert (E2 : edge f p i s v0' w0') by (exists c; auto).
  destruct (edge_unique _ _ _ HS _ _ _ _ _ _ _ _ _ E1 E2) as (_ & Hj' & _). congruence.
Qed.

Lemma arr_remove_shape n g f p i f' :
  fwf n g f -> op_ok n f (OArrRemove p i) -> arr_remove n g f p i = (f', true) -> op_shape n g false f f' p.
Proof.
  intros Hwf (c & Hc & Hk & Hi) Hstep.
  destruct (nth_error (c_slots c) i) as [s|] eqn:Hn; [|apply nth_error_None in Hn; lia].
  unfold arr_remove in Hstep. rewrite Hc in Hstep. unfold is_arr in Hstep. rewrite Hk in Hstep. cbn [negb] in Hstep.
  rewrite Hn in Hstep.
  destruct (notify n g (commit_slots f p c (remove_nth i (c_slots c)) (c_csize c - slot_size g f KArr s) (shift_down i (c_idx c))) p)
    as [f3 ok3] eqn:Hntf.
  injection Hstep as <- ->.
  rewrite <- Hk in Hntf at 1.
  assert (Hidx' : shift_down i (c_idx c) = (if is_arr c then shift_down i (c_idx c) else c_idx c)) by (unfold is_arr; now rewrite Hk).
  assert (Heq : match s_val s with
                | NChild v0 _ => del_idx (uninline_old f3 (s_val s)) p v0
                | NScalar _ _ => uninline_old f3 (s_val s)
                end = post_steps f3 p (od_of (s_val s)) true).
  { rewrite post_steps_eq. destruct (s_val s); auto. }
  rewrite Heq. eapply remove_shape; eauto.
Qed.

(* ---------- PopIterate ---------- *)
Lemma pop_shape n g f p f' :
  fwf n g f -> op_ok n f (OPop p) -> pop_step n g f p = (f', true) -> op_shape n g true f f' p.
Proof.
  intros Hwf (c & Hc) Hstep. unfold pop_step in Hstep. rewrite Hc in Hstep.
  assert (X : ectx n g f (commit_slots f p c [] (base (c_kind c)) []) p c [] [] None).
  { apply mk_ctx0; auto.
    - unfold data_size. cbn. lia.
    - intros j s v w Hj. destruct j; discriminate.
    - intros _. constructor. }
  exists c, [], (base (c_kind c)), [], 0%nat, dummy_slot, f', None, false.
  split; auto. split; [exact I|]. split; [exact X|]. split; [exact Hstep|]. split; [reflexivity|]. split; discriminate.
Qed.

(* ---------- OrderedMap.Set ---------- *)
Lemma map_set_shape n g f p kid ksz e f' :
  fwf n g f -> op_ok n f (OMapSet p kid ksz e) -> map_set n g f p kid ksz e = (f', true) -> op_shape n g false f f' p.
Proof.
  intros Hwf ((c & Hc & Hk) & Hok) Hstep.
  destruct (fwf_parts _ _ _ Hwf) as (HS & Hidx & Hcs & Hio).
  unfold map_set in Hstep. rewrite Hc in Hstep. unfold is_arr in Hstep. rewrite Hk in Hstep.
  destruct (find_key (c_slots c) kid) as [i|] eqn:Hfk.
  - destruct (find_key_nth _ _ _ Hfk) as (s & Hn & Hkid).
    destruct (cset_body (notify n g) g f p i e) as [[f1 ok1] old] eqn:Hcset.
    destruct (cset_res n g f p c i s e f1 ok1 old false Hwf Hc Hn Hok Hcset) as (-> & -> & _ & _).
    { unfold is_arr. now rewrite Hk. }
    injection Hstep as <-.
    assert (Heq : uninline_old f1 (s_val s) = post_steps f1 p (od_of (s_val s)) false).
    { rewrite post_steps_eq. destruct (s_val s); auto. }
    rewrite Heq. eapply cset_shape; eauto.
  - rewrite (storable_elem_get_t n g f p KMap ksz e Hok), Hc in Hstep.
    set (s' := mkSlot kid ksz e) in *. set (l' := c_slots c ++ [s']) in *.
    set (i := length (c_slots c)) in *.
    set (sz := c_csize c + slot_size g (storable_elem g f KMap ksz e) KMap s') in *.
    replace (storable_elem g f KMap ksz e) with (storable_elem g f (c_kind c) (s_ksz s') (s_val s')) in * by (rewrite Hk; reflexivity).
    change (set_callback g (commit_slots (storable_elem g f (c_kind c) (s_ksz s') (s_val s')) p c l' sz (c_idx c)) p i s')
      with (pipe g f p c l' sz (c_idx c) i s') in Hstep.
    assert (Hnth : nth_error l' i = Some s') by apply nth_error_app_last.
    assert (Hsz : sz = data_size g (storable_elem g f (c_kind c) (s_ksz s') (s_val s')) (c_kind c) l').
    { unfold sz, l'. rewrite (Hcs p c Hc).
      rewrite <- (data_size_old n g f p c (c_kind c) (s_ksz s') (s_val s') Hc Hok (c_slots c)) by auto.
      unfold data_size. rewrite sum_slots_app. rewrite Hk. unfold s'. cbn [s_ksz s_val]. lia. }
    assert (HF : slots_from c l' (idx3_of c (c_idx c) i s') (nc_of i s')).
    { intros j s1 v' w' Hj Hv'. split; [rewrite Hk; discriminate|].
      destruct (nth_error_app_inv _ _ _ _ Hj) as [(-> & ->)|(Hlt & Hj0)]; [|eauto].
      left. unfold nc_of. now rewrite Hv'. }
    assert (X : ectx n g f (pipe g f p c l' sz (c_idx c) i s') p c l' (idx3_of c (c_idx c) i s') (nc_of i s')).
    { apply mk_ctx; auto. intros _. apply NoDup_app_key; auto. eapply st_keys; eauto. }
    exists c, l', sz, (c_idx c), i, s', f', None, false.
    split; auto. split; [exact Hok|]. split; [exact X|]. split; [exact Hstep|]. split; [reflexivity|]. split; [discriminate|].
    intros _ j s v w Hj _. left. unfold l'. apply in_or_app. left. eapply nth_error_In; eauto.
Qed.

(* ---------- OrderedMap.Remove ---------- *)
Lemma map_remove_shape n g f p kid f' :
  fwf n g f -> op_ok n f (OMapRemove p kid) -> map_remove n g f p kid = (f', true) -> op_shape n g false f f' p.
Proof.
  intros Hwf (c & i & Hc & Hk & Hfk) Hstep.
  destruct (find_key_nth _ _ _ Hfk) as (s & Hn & Hkid).
  unfold map_remove in Hstep. rewrite Hc in Hstep. unfold is_arr in Hstep. rewrite Hk, Hfk, Hn in Hstep.
  destruct (notify n g (commit_slots f p c (remove_nth i (c_slots c)) (c_csize c - slot_size g f KMap s) (c_idx c)) p)
    as [f3 ok3] eqn:Hntf.
  injection Hstep as <- ->.
  rewrite <- Hk in Hntf at 1.
  assert (Hidx' : c_idx c = (if is_arr c then shift_down i (c_idx c) else c_idx c)) by (unfold is_arr; now rewrite Hk).
  assert (Heq : uninline_old f3 (s_val s) = post_steps f3 p (od_of (s_val s)) false).
  { rewrite post_steps_eq. destruct (s_val s); auto. }
  rewrite Heq. eapply remove_shape; eauto.
Qed.

(* ---------- a bare notification chain (SetType on an inlined container) ---------- *)
Lemma resync_dur n g f t f' : fstruct n g f -> resync n g f t = (f', true) -> dur_step n f f'.
Proof.
  intros HS Hr. destruct (st_ranked _ _ _ HS) as (lvl & Hl & Hb).
  destruct (resync_log n g lvl n f t f' HS Hl Hr) as (Hm & Hlok & Hfl & _).
  pose proof (resync_su _ _ _ _ _ _ _ HS Hr) as Hsu.
  assert (Hflip : forall x, flag f' x <> flag f x -> dirty f' x <> None) by (intros x Hx; now destruct (Hfl x Hx)).
  split; auto.
  - intros x Hd.
    destruct (optb_dec (flag f' x) (flag f x)) as [Hfx|Hfx]; [|exfalso; now apply (Hflip x Hfx)].
    destruct (optb_dec (flag f x) (Some false)) as [Hst|Hst].
    2:{ rewrite !flat_none; auto. congruence. }
    assert (Hs : stored f x) by now apply flag_stored.
    apply flat_ext; auto. intros y A. split.
    + pose proof (Hsu y) as Hy. unfold vsame. destruct (fget f y), (fget f' y); tauto.
    + intros i0 s0 c0 w0 E0. destruct (optb_dec (flag f' c0) (flag f c0)) as [|Hne]; auto.
      exfalso. destruct (Hfl c0 Hne) as (_ & _ & p & i1 & s1 & w1 & E1 & Hlog).
      destruct (edge_unique _ _ _ HS _ _ _ _ _ _ _ _ _ E0 E1) as (-> & _). now apply (Hlog x Hs A).
  - intros x. pose proof (Hsu x) as Hx. unfold flag. destruct (fget f x), (fget f' x); cbn; try congruence; tauto.
Qed.

Lemma dur_step_refl n f : dur_step n f f.
Proof.
  apply dur_step_views; auto; [apply dmono_refl|]. intros y. split; auto. unfold vsame. destruct (fget f y); auto.
Qed.

Lemma flog_dur n f v b : flag f v = Some (negb b) -> dur_step n f (flog f v b).
Proof.
  intros Hv. apply dur_step_views.
  - intros x. rewrite dirty_flog. destruct (v =? x); [discriminate|auto].
  - intros H x b0. rewrite dirty_flog. change (flag (flog f v b) x) with (flag f x).
    destruct (N.eqb_spec v x) as [<-|]; [|apply H]. now intros [= <-].
  - intros y. split; auto. unfold vsame. change (fget (flog f v b) y) with (fget f y). destruct (fget f y); auto.
Qed.

Lemma new_dur n g f v k : fstruct n g f -> fget f v = None -> dur_step n f (new_container f v k).
Proof.
  intros HS Hnone. set (f' := new_container f v k).
  assert (Hget : forall x, x <> v -> fget f' x = fget f x).
  { intros x Hx. unfold f', new_container. rewrite fget_flog. apply fget_fset_ne. congruence. }
  assert (Hgv : fget f' v = Some (mkC k [] false (base k) None [])).
  { unfold f', new_container. rewrite fget_flog. apply fget_fset_eq. }
  assert (Hd : forall x, dirty f' x = if v =? x then Some true else dirty f x) by reflexivity.
  assert (Hfl : forall x, x <> v -> flag f' x = flag f x) by (intros; unfold flag; now rewrite Hget).
  split.
  - intros x. rewrite Hd. destruct (v =? x); [discriminate|auto].
  - intros H x b. rewrite Hd. destruct (N.eqb_spec v x) as [<-|Hne].
    + intros [= <-]. unfold flag. now rewrite Hgv.
    + rewrite Hfl by congruence. apply H.
  - intros x. rewrite Hd. destruct (N.eqb_spec v x) as [<-|Hne]; [discriminate|]. intros _.
    apply flat_ext; [|symmetry; apply Hfl; congruence].
    intros y A.
    assert (Hyv : y <> v).
    { intros ->. destruct A as [|x p i s t w E (ct & Hct & _) A]; congruence. }
    split.
    + unfold vsame. rewrite Hget by auto. destruct (fget f y); auto.
    + intros i s c0 w E. symmetry. apply Hfl. intros ->.
      destruct (hooked_edge _ _ _ HS _ _ _ _ _ E) as (_ & cv & _ & _ & Hcv & _). congruence.
  - intros x Hx. rewrite Hd. destruct (N.eqb_spec v x) as [<-|Hne]; [discriminate|].
    exfalso. apply Hx. apply Hfl. congruence.
  - intros x Hx. destruct (N.eq_dec x v) as [->|Hne].
    + unfold flag in Hx. now rewrite Hnone in Hx.
    + now rewrite Hfl.
Qed.

(* ---------- every operation but OCommit ---------- *)
Lemma step_dur n g f o f' :
  fwf n g f -> op_ok n f o -> is_commit o = false -> step n g f o = (f', true) -> dur_step n f f'.
Proof.
  intros Hwf Hok Hnc Hstep. destruct o; cbn [step] in Hstep; try discriminate.
  - injection Hstep as <-. apply (new_dur n g); [apply Hwf|exact Hok].
  - eapply shape_dur; eauto. eapply arr_insert_shape; eauto.
  - eapply shape_dur; eauto. eapply arr_set_shape; eauto.
  - eapply shape_dur; eauto. eapply arr_remove_shape; eauto.
  - eapply shape_dur; eauto. eapply pop_shape; eauto.
  - eapply shape_dur; eauto. eapply map_set_shape; eauto.
  - eapply shape_dur; eauto. eapply map_remove_shape; eauto.
  - assert (f' = f) by (eapply get_child_id; eauto). subst f'. apply dur_step_refl.
  - destruct Hok as (c & Hc). unfold touch in Hstep. rewrite Hc in Hstep. destruct (c_inl c) eqn:Hi.
    + rewrite (notify_resync n g n f v (proj1 Hwf)) in Hstep. eapply resync_dur; eauto. apply Hwf.
    + injection Hstep as <-. apply flog_dur. unfold flag. rewrite Hc. cbn. now rewrite Hi.
  - destruct Hok.
Qed.

(* ====================================================================================== *)
(* accounting: containers are only created by ONew, and a container can only lose both its
   register and its slot by PopIterate of its parent while it is inlined *)

Lemma vsame_edge f f' p i s v w : vsame f f' p -> edge f p i s v w -> edge f' p i s v w.
Proof.
  unfold vsame. intros H (c & Hc & Hn & Hv). rewrite Hc in H. destruct (fget f' p) as [c'|] eqn:E'; [|contradiction].
  destruct H as (_ & Hs). exists c'. rewrite <- Hs. auto.
Qed.

Lemma popped_same f f' v : (forall y, fget f' y = fget f y) -> popped f' v -> popped f v.
Proof.
  intros H ((c & Hc & Hi) & Hna). split; [exists c; rewrite <- H; auto|].
  intros (p & i & s & w & (cp & Hcp & Hr)). apply Hna. exists p, i, s, w, cp. rewrite H. auto.
Qed.

Lemma post_steps_od_stored f4 t v0 w0 del : flag (post_steps f4 t (Some (v0, w0)) del) v0 <> Some true.
Proof.
  cbn [post_steps]. assert (H : flag (uninline_old f4 (NChild v0 w0)) v0 <> Some true).
  { rewrite uninline_old_flag, N.eqb_refl. destruct (fget f4 v0); cbn; discriminate. }
  destruct del; auto. now rewrite del_idx_flag.
Qed.

Lemma shape_extra n g pop f f' t :
  fwf n g f -> op_shape n g pop f f' t ->
  (forall x, flag f x = None -> flag f' x = None) /\
  (forall v, popped f' v -> popped f v \/ (pop = true /\ inlined f v /\ exists i s w, edge f t i s v w)).
Proof.
  intros Hwf (c & l' & sz & idx' & i & s' & f4 & od & del & Hct & Hok & X & Hn & -> & Hod & Hkept).
  set (f3 := pipe g f t c l' sz idx' i s') in *.
  destruct (pipe_facts n g f t c l' sz idx' i s' Hct Hok) as (_ & _ & Hfl03 & _). fold f3 in Hfl03.
  destruct (edit_core _ _ _ _ _ _ _ _ _ _ _ X Hwf Hn) as (_ & HS4 & _ & Hsu & Hksi & (ct4 & Ht4 & Hk4 & Hsl4 & _) & _ & _).
  pose proof (edited_struct _ _ _ _ _ _ _ _ _ X) as HS3.
  destruct (st_ranked _ _ _ HS3) as (lvl & Hl3 & Hb).
  pose proof X as X'. ectx_intro X'.
  rewrite (notify_resync n g n f3 t HS3) in Hn.
  destruct (resync_log n g lvl n f3 t f4 HS3 Hl3 Hn) as (_ & _ & Hfl34 & _).
  destruct (post_steps_facts f4 t od del) as (_ & _ & Hfl4 & Hv4 & _).
  set (f' := post_steps f4 t od del) in *. cbn zeta in Hfl4, Hv4.
  assert (Hdom : forall x, flag f x = None -> flag f' x = None).
  { intros x Hx. assert (Hxt : x <> t) by (intros ->; unfold flag in Hx; rewrite Hc in Hx; discriminate).
    pose proof (Hksi x Hxt) as H4. pose proof (Hv4 x) as H'. unfold flag, vsame, ksi_eq in *.
    destruct (fget f x); [discriminate|]. destruct (fget f4 x); [contradiction|]. destruct (fget f' x); [contradiction|auto]. }
  split; auto.
  assert (Hatt3 : forall v, attached f3 v -> attached f' v).
  { intros v (p & j & s & w & E). exists p, j, s, w. apply (vsame_edge f4 f'); auto. now apply (su_edge f3 f4 p j s v w Hsu). }
  (* a flag that differs between f and f' : who changed it *)
  assert (Hwho : forall v, flag f' v <> flag f v ->
            (exists w, s_val s' = NChild v w) \/ attached f3 v \/ exists w0, od = Some (v, w0)).
  { intros v Hv. destruct (optb_dec (flag f' v) (flag f4 v)) as [E1|N1].
    - destruct (optb_dec (flag f4 v) (flag f3 v)) as [E2|N2].
      + left. apply Hfl03. congruence.
      + right. left. destruct (Hfl34 v N2) as (_ & _ & p & j & s & w & E & _). now exists p, j, s, w.
    - right. right. now destruct (Hfl4 v N1). }
  intros v ((cv & Hcv & Hiv) & Hna).
  assert (Hfv' : flag f' v = Some true) by (unfold flag; rewrite Hcv; cbn; now rewrite Hiv).
  assert (Hnew_att : forall w, s_val s' = NChild v w -> attached f3 v).
  { intros w Hs'. destruct HE as (_ & _ & Hm0). unfold nc_of in Hm0. rewrite Hs' in Hm0. destruct Hm0 as (_ & Hv & Hn0 & _).
    exists t, i, s', w. eexists. split; [exact Et|]. cbn. auto. }
  assert (Hno_change : flag f' v <> flag f v -> False).
  { intros Hd. destruct (Hwho v Hd) as [(w & Hs')|[Ha|(w0 & Hodv)]].
    - apply Hna, Hatt3. eauto.
    - apply Hna, Hatt3, Ha.
    - subst od. now apply (post_steps_od_stored f4 t v w0 del). }
  assert (Hfv : flag f v = Some true).
  { destruct (optb_dec (flag f' v) (flag f v)) as [<-|Hd]; [exact Hfv'|destruct (Hno_change Hd)]. }
  assert (Hinl : inlined f v) by now apply flag_inlined.
  destruct (parent_of f v) as [y|] eqn:Hp.
  2:{ left. split; auto. eapply parent_of_none; eauto. }
  destruct (parent_of_edge _ _ _ Hp) as (j & s & w & E). right.
  destruct (N.eq_dec y t) as [->|Hyt].
  - destruct pop; [split; auto; split; eauto|]. exfalso.
    destruct E as (c0 & Hc0 & Hj & Hs). rewrite Hc in Hc0. injection Hc0 as <-.
    destruct (Hkept eq_refl j s v w Hj Hs) as [Hin|Hodv].
    + destruct (In_nth_error _ _ Hin) as (j' & Hj'). apply Hna. exists t, j', s, w.
      apply (vsame_edge f4 f'); auto. exists ct4. rewrite Hsl4. auto.
    + subst od. apply (post_steps_od_stored f4 t v w del). exact Hfv'.
  - exfalso. apply Hna. exists y, j, s, w. apply (vsame_edge f4 f'); auto.
    apply (vsame_edge f f4); auto. apply ksi_vsame. now apply Hksi.
Qed.

Lemma step_extra n g f o f' :
  fwf n g f -> op_ok n f o -> step n g f o = (f', true) ->
  (forall x, flag f x = None -> flag f' x <> None -> exists k, o = ONew x k) /\
  (forall v, popped f' v -> popped f v \/ exists p i s w, o = OPop p /\ inlined f v /\ edge f p i s v w).
Proof.
  intros Hwf Hok Hstep.
  assert (Hshape : forall pop t, op_shape n g pop f f' t ->
            (forall x, flag f x = None -> flag f' x <> None -> exists k, o = ONew x k) /\
            (forall v, popped f' v -> popped f v \/ (pop = true /\ inlined f v /\ exists i s w, edge f t i s v w))).
  { intros pop t Hsh. destruct (shape_extra n g pop f f' t Hwf Hsh) as (Hd & Hp). split; auto.
    intros x Hx Hx'. exfalso. apply Hx'. now apply Hd. }
  assert (Hnopop : forall t,
            (forall x, flag f x = None -> flag f' x <> None -> exists k, o = ONew x k) /\
            (forall v, popped f' v -> popped f v \/ (false = true /\ inlined f v /\ exists i s w, edge f t i s v w)) ->
            (forall x, flag f x = None -> flag f' x <> None -> exists k, o = ONew x k) /\
            (forall v, popped f' v -> popped f v \/ exists p i s w, o = OPop p /\ inlined f v /\ edge f p i s v w)).
  { intros t (A & B). split; auto. intros v Hv. destruct (B v Hv) as [?|(? & _)]; [auto|discriminate]. }
  assert (Hsame : (forall y, fget f' y = fget f y) ->
            (forall x, flag f x = None -> flag f' x <> None -> exists k, o = ONew x k) /\
            (forall v, popped f' v -> popped f v \/ exists p i s w, o = OPop p /\ inlined f v /\ edge f p i s v w)).
  { intros H. split.
    - intros x Hx Hx'. exfalso. apply Hx'. unfold flag in *. now rewrite H.
    - intros v Hv. left. eapply popped_same; eauto. }
  destruct o; cbn [step] in Hstep.
  - (* ONew *)
    injection Hstep as <-. cbn [op_ok] in Hok.
    assert (Hget : forall x, x <> v -> fget (new_container f v k) x = fget f x).
    { intros x Hx. unfold new_container. rewrite fget_flog. apply fget_fset_ne. congruence. }
    assert (Hgv : fget (new_container f v k) v = Some (mkC k [] false (base k) None [])).
    { unfold new_container. rewrite fget_flog. apply fget_fset_eq. }
    split.
    + intros x Hx Hx'. destruct (N.eq_dec x v) as [->|Hne]; [eauto|]. exfalso. apply Hx'. unfold flag in *. now rewrite Hget.
    + intros x ((cx & Hcx & Hix) & Hna). left.
      assert (Hxv : x <> v) by (intros ->; rewrite Hgv in Hcx; injection Hcx as <-; discriminate).
      rewrite Hget in Hcx by auto. split; [exists cx; auto|].
      intros (p & i & s & w & (cp & Hcp & Hr)). apply Hna. exists p, i, s, w, cp. rewrite Hget; auto. congruence.
  - apply (Hnopop p). eapply Hshape. eapply arr_insert_shape; eauto.
  - apply (Hnopop p). eapply Hshape. eapply arr_set_shape; eauto.
  - apply (Hnopop p). eapply Hshape. eapply arr_remove_shape; eauto.
  - destruct (Hshape true p) as (A & B); [eapply pop_shape; eauto|]. split; auto.
    intros v Hv. destruct (B v Hv) as [?|(_ & Hi & i & s & w & E)]; auto. right. exists p, i, s, w. auto.
  - apply (Hnopop p). eapply Hshape. eapply map_set_shape; eauto.
  - apply (Hnopop p). eapply Hshape. eapply map_remove_shape; eauto.
  - assert (f' = f) by (eapply get_child_id; eauto). subst f'. apply Hsame. auto.
  - destruct Hok as (c & Hc). unfold touch in Hstep. rewrite Hc in Hstep. destruct (c_inl c) eqn:Hi.
    + pose proof (proj1 Hwf) as HS. rewrite (notify_resync n g n f v HS) in Hstep.
      destruct (st_ranked _ _ _ HS) as (lvl & Hl & Hb).
      destruct (resync_log n g lvl n f v f' HS Hl Hstep) as (_ & _ & Hfl & _).
      pose proof (resync_su _ _ _ _ _ _ _ HS Hstep) as Hsu. split.
      * intros x Hx Hx'. exfalso. apply Hx'. pose proof (Hsu x) as H. unfold flag in *.
        destruct (fget f x); [discriminate|]. destruct (fget f' x); [contradiction|auto].
      * intros x ((cx & Hcx & Hix) & Hna). left.
        assert (Hna0 : ~ attached f x) by (intros Ha; apply Hna; now apply (su_attached f f' x Hsu)).
        split; auto. apply flag_inlined.
        destruct (optb_dec (flag f' x) (flag f x)) as [<-|Hd]; [unfold flag; rewrite Hcx; cbn; now rewrite Hix|].
        exfalso. destruct (Hfl x Hd) as (_ & _ & p & i & s & w & E & _). apply Hna0. now exists p, i, s, w.
    + injection Hstep as <-. apply Hsame. auto.
  - injection Hstep as <-. apply Hsame. auto.
  - destruct Hok.
Qed.
