(* MapTree_proofs.v — first links between the map slab tree (MapTree.v, MapTreeInv.v) and the
   element level / the settings:
   1. arithmetic of map data slabs for every legal slab size (the map twins of the array facts and
      of the Split.v / Lend.v spikes): a full data slab has >= 2 elements; splitting a data slab that
      is at most one element over the maximum leaves both halves inside the band; lending after
      CanLendToRight keeps both slabs inside the band; when the sibling cannot lend the merged slab
      does not exceed the maximum;
      the header-count versions for index slabs;
   2. routing: under the tree invariant, Get through the index slabs = the element-level Get on
      the one logical hkeyElements [elems_of_tree];
   3. soundness of the executable invariant checker [mtwfb] (the oracle of the trace engine) with
      respect to the invariant [mtwf_full].
   Preservation of the invariant by Set/Remove is NOT proved here (follow-up). *)
From Coq Require Import ZArith NArith List Bool Arith Lia ZifyBool ZifyN ZifyNat Sorted.
From AtreeGen Require Import Consts.
From AtreeModel Require Import Settings MapElems MapElemsInv MapTree MapTreeInv.
From AtreeProofs Require Import Settings_proofs MapElems_proofs.
Import ListNotations.
Local Open Scope N_scope.
Ltac Zify.zify_post_hook ::= Z.div_mod_to_equations.

(* ====================================================================== *)
(* 1. arithmetic                                                          *)
(* ====================================================================== *)

(* the largest cost of a level-0 element: maxInlineMapElementSize + digestSize *)
Definition Emax (c : cfg) : N := cinl_melem c + c_digestSize.

Ltac unfold_mconsts :=
  unfold Emax, P, RP, PM, HS, HP, valid_T, set_threshold, c_minSlabSize, c_maxSlabSize,
    c_mapDataSlabPrefixSize, c_mapRootDataSlabPrefixSize, c_hkeyElementsPrefixSize, c_minElementCountInSlab,
    c_digestSize, c_singleElementPrefixSize, c_mapMetaDataSlabPrefixSize, c_mapSlabHeaderSize in *;
  cbn [cT cmin cmax cinl_arr cinl_melem cinl_mkey] in *.

Lemma Nsum_cons x l : Nsum (x :: l) = x + Nsum l.
Proof. reflexivity. Qed.

Lemma Nsum_le_length (E : N) (zs : list N) :
  Forall (fun z => z <= E) zs -> Nsum zs <= N.of_nat (length zs) * E.
Proof.
  induction 1 as [|z r Hz HF IH]; [cbn; lia|]. rewrite Nsum_cons. cbn [length]. lia.
Qed.

(* a data slab above the maximum (even with the small root prefix) holds at least two elements *)
Theorem map_full_has_two : forall T zs pfx,
  valid_T T -> let c := set_threshold T in
  Forall (fun z => z <= Emax c) zs -> pfx <= P ->
  pfx + HP + Nsum zs > cmax c -> (2 <= length zs)%nat.
Proof.
  intros T zs pfx HT c HF Hp Hfull.
  destruct zs as [|a [|b r]]; cbn [length]; [| |lia].
  - change (Nsum []) with 0 in Hfull. subst c; unfold_mconsts; lia.
  - pose proof (Forall_inv HF) as Ha; cbn beta in Ha.
    change (Nsum [a]) with (a + 0) in Hfull. subst c; unfold_mconsts; lia.
Qed.

(* hkeyElements.Split *)
Lemma split_point_spec : forall zs D acc i E,
  Forall (fun z => 0 < z <= E) zs ->
  acc + Nsum zs = D -> acc < (D + 1) / 2 ->
  let '(lc, ls) := split_point zs D ((D + 1) / 2) acc i in
  ls <= D /\ 2 * ls + E >= D /\ 2 * (D - ls) + E >= D /\ (i <= lc)%nat /\ (lc <= i + length zs)%nat /\
  ls = acc + Nsum (firstn (lc - i) zs).
Proof.
  induction zs as [|z r IH]; intros D acc i E HF Hsum Hacc; cbn [split_point] in *.
  - exfalso. cbn in Hsum. lia.
  - rewrite Nsum_cons in Hsum.
    pose proof (Forall_inv HF) as Hz. pose proof (Forall_inv_tail HF) as HF'. cbn beta in Hz.
    destruct (((D + 1) / 2) <=? acc + z) eqn:H1.
    + destruct (acc <=? D - acc - z) eqn:H2; cbn [length].
      * replace (S i - i)%nat with 1%nat by lia. cbn [firstn]. rewrite Nsum_cons. cbn [Nsum fold_right].
        repeat split; lia.
      * rewrite Nat.sub_diag. cbn [firstn Nsum fold_right]. repeat split; lia.
    + specialize (IH D (acc + z) (S i) E HF' ltac:(lia) ltac:(lia)).
      destruct (split_point r D _ (acc + z) (S i)) as [lc ls]. cbn [length].
      destruct IH as (A1 & A2 & A3 & A4 & A5 & A6).
      replace (lc - i)%nat with (S (lc - S i)) by lia. cbn [firstn]. rewrite Nsum_cons.
      repeat split; lia.
Qed.

(* a data slab that exceeds the maximum by at most one element cost (it was <= max before one
   element arrived or grew) splits into two slabs inside [min, max]; both get at least one element.
   [pfx] is the prefix the slab had BEFORE the split (P, or RP when the root is split): both halves
   are ordinary data slabs afterwards. *)
Theorem map_split_both_halves_in_band : forall T zs pfx,
  valid_T T -> let c := set_threshold T in
  Forall (fun z => 0 < z <= Emax c) zs ->
  pfx = P \/ pfx = RP ->
  let D := Nsum zs in
  pfx + HP + D > cmax c -> pfx + HP + D <= cmax c + Emax c ->
  let '(lc, ls) := split_point zs D ((D + 1) / 2) 0 0 in
  cmin c <= P + HP + ls <= cmax c /\ cmin c <= P + HP + (D - ls) <= cmax c /\
  (0 < lc < length zs)%nat /\ ls = Nsum (firstn lc zs).
Proof.
  intros T zs pfx HT c HF Hp D Hfull Hone.
  pose proof (split_point_spec zs D 0 0%nat (Emax c) HF eq_refl) as H.
  assert (Hacc : 0 < (D + 1) / 2) by (subst c; destruct Hp; subst pfx; unfold_mconsts; lia).
  specialize (H Hacc).
  destruct (split_point zs D _ 0 0%nat) as [lc ls].
  destruct H as (A1 & A2 & A3 & A4 & A5 & A6). rewrite Nat.sub_0_r in A6. cbn in A6.
  assert (B1 : cmin c <= P + HP + ls <= cmax c /\ cmin c <= P + HP + (D - ls) <= cmax c)
    by (subst c; destruct Hp; subst pfx; unfold_mconsts; lia).
  split; [tauto|]. split; [tauto|]. split; [|assumption].
  (* both halves are non-empty: each is >= min > prefix *)
  assert (Hls : 0 < ls /\ ls < D) by (subst c; destruct Hp; subst pfx; unfold_mconsts; lia).
  split.
  - destruct lc; [cbn in A6; lia|lia].
  - destruct (Nat.lt_ge_cases lc (length zs)) as [|Hge]; [assumption|].
    rewrite firstn_all2 in A6 by lia. subst D. lia.
Qed.

(* ---------- CanLendToRight / LendToRight in lock step (Lend.v for the map loops) ---------- *)

(* phase 2: the right side already has its minimum *)
Lemma lend_phase2 : forall rzs size mid m lc0 ls0,
  m <= mid -> m <= ls0 -> ls0 <= size -> m <= size - ls0 ->
  let '(_, ls) := lend_loop rzs size mid m lc0 ls0 in
  m <= ls /\ ls <= ls0 /\ (ls = ls0 \/ mid <= ls).
Proof.
  induction rzs as [|z r IH]; intros size mid m lc0 ls0 Hmm Hl Hs Hr; cbn [lend_loop].
  - lia.
  - destruct ((ls0 - z <? mid) && (m <=? size - ls0)) eqn:Hb.
    + lia.
    + assert (mid <= ls0 - z) by lia.
      specialize (IH size mid m (pred lc0) (ls0 - z) Hmm ltac:(lia) ltac:(lia) ltac:(lia)).
      destruct (lend_loop r size mid m (pred lc0) (ls0 - z)) as [lc ls]. lia.
Qed.

(* phase 1 in lock step with the CanLend loop; all quantities are DATA sizes (no prefixes):
   sL, sR = sum of the element costs of the left / right slab, m = the minimum of such a sum *)
Lemma lend_phase1 : forall rzs sL sR m E lend lc0,
  Forall (fun z => 0 < z <= E) rzs ->
  sR < m -> lend < m - sR -> lend + Nsum rzs <= sL -> m <= sL - lend ->
  can_lend_loop rzs sL m (m - sR) lend = true ->
  let size := sL + sR in let mid := (size + 1) / 2 in
  let '(_, ls) := lend_loop rzs size mid m lc0 (sL - lend) in
  m <= ls /\ ls <= sL /\ m <= size - ls /\ (size - ls <= m - 1 + E \/ mid <= ls).
Proof.
  induction rzs as [|z r IH]; intros sL sR m E lend lc0 HF HR Hlend Hsum Hleft Hcan size mid;
    cbn [can_lend_loop lend_loop] in *.
  - discriminate.
  - rewrite Nsum_cons in Hsum.
    pose proof (Forall_inv HF) as Hz. pose proof (Forall_inv_tail HF) as HF'. cbn beta in Hz.
    destruct (sL - (lend + z) <? m) eqn:H1; [discriminate|].
    assert (Hnb : ((sL - lend - z <? mid) && (m <=? size - (sL - lend))) = false) by (subst size; lia).
    rewrite Hnb.
    destruct (m - sR <=? lend + z) eqn:H2.
    + pose proof (lend_phase2 r size mid m (pred lc0) (sL - lend - z) ltac:(subst mid size; lia) ltac:(lia)
                    ltac:(subst size; lia) ltac:(subst size; lia)) as H.
      destruct (lend_loop r size mid m (pred lc0) (sL - lend - z)) as [lc ls]. subst size. lia.
    + specialize (IH sL sR m E (lend + z) (pred lc0) HF' HR ltac:(lia) ltac:(lia) ltac:(lia) Hcan). cbn zeta in IH.
      replace (sL - (lend + z)) with (sL - lend - z) in IH by lia. exact IH.
Qed.

(* the CanLend loop of the Go code works on elements.Size() (with the hkeyElements prefix) and
   minThreshold - mapDataSlabPrefixSize; subtracting the prefix on both sides gives data sizes *)
Lemma can_lend_loop_shift : forall zs s m0 q need lend,
  0 < m0 -> can_lend_loop zs (q + s) (m0 + q) need lend = can_lend_loop zs s m0 need lend.
Proof.
  induction zs as [|z r IH]; intros s m0 q need lend Hm; cbn [can_lend_loop]; [reflexivity|].
  replace (q + s - (lend + z) <? m0 + q) with (s - (lend + z) <? m0) by lia.
  destruct (s - (lend + z) <? m0); [reflexivity|]. destruct (need <=? lend + z); [reflexivity|]. apply IH; assumption.
Qed.

(* LendToRight after CanLendToRight said yes: both data slabs end inside [min, max].
   zs = element costs of the LEFT (lending) slab, sR = sum of the element costs of the right
   (underflowing) slab; header sizes are P + HP + sums. *)
Theorem map_lend_keeps_bands : forall T zs sR,
  valid_T T -> let c := set_threshold T in
  Forall (fun z => 0 < z <= Emax c) zs ->
  let sL := Nsum zs in
  P + HP + sL <= cmax c -> P + HP + sR < cmin c ->
  e_can_lend (rev zs) (HP + sL) (cmin c - P) (cmin c - (P + HP + sR)) = true ->
  let size := (HP + sL) + (HP + sR) - HP * 2 in
  let '(_, ls) := lend_loop (rev zs) size ((size + 1) / 2) (cmin c - P - HP) (length zs) (HP + sL - HP) in
  cmin c <= P + HP + ls <= cmax c /\ cmin c <= P + HP + (size - ls) <= cmax c.
Proof.
  intros T zs sR HT c HF sL HX HR Hcan size.
  set (m0 := cmin c - P - HP).
  assert (Hm0 : 0 < m0 /\ cmin c = m0 + P + HP) by (subst m0 c; unfold_mconsts; lia).
  destruct Hm0 as [Hm0 Hmeq].
  unfold e_can_lend in Hcan.
  destruct (length (rev zs) <? 2)%nat; [discriminate|].
  destruct (HP + sL - (cmin c - (P + HP + sR)) <? cmin c - P) eqn:H0; [discriminate|].
  replace (cmin c - P) with (m0 + HP) in Hcan by lia.
  rewrite can_lend_loop_shift in Hcan by assumption.
  replace (cmin c - (P + HP + sR)) with (m0 - sR) in Hcan by lia.
  assert (HFr : Forall (fun z => 0 < z <= Emax c) (rev zs)) by (apply Forall_rev; assumption).
  assert (Hsum : Nsum (rev zs) = sL).
  { subst sL. clear. induction zs as [|z r IH]; [reflexivity|]. cbn [rev]. rewrite Nsum_app, IH, !Nsum_cons. change (Nsum []) with 0. lia. }
  pose proof (lend_phase1 (rev zs) sL sR m0 (Emax c) 0 (length zs) HFr ltac:(lia) ltac:(lia) ltac:(lia) ltac:(lia) Hcan) as H.
  cbn zeta in H. replace (sL - 0) with sL in H by lia.
  replace size with (sL + sR) by (subst size; lia).
  replace (HP + sL - HP) with sL by lia.
  destruct (lend_loop (rev zs) (sL + sR) ((sL + sR + 1) / 2) m0 (length zs) sL) as [lc ls].
  subst c m0. unfold_mconsts. lia.
Qed.

(* merge bound: if the sibling cannot lend, merging stays within the maximum *)
Lemma cannot_lend_loop_bound : forall zs sL m u E lend,
  Forall (fun z => 0 < z <= E) zs -> lend < u -> m <= sL - lend ->
  can_lend_loop zs sL m u lend = false ->
  sL < m + u - 1 + E + 1 \/ lend + Nsum zs < u.
Proof.
  induction zs as [|z r IH]; intros sL m u E lend HF Hl Hleft Hc; cbn [can_lend_loop] in *.
  - right; cbn; lia.
  - rewrite Nsum_cons.
    pose proof (Forall_inv HF) as Hz. pose proof (Forall_inv_tail HF) as HF'. cbn beta in Hz.
    destruct (sL - (lend + z) <? m) eqn:H1.
    + left; lia.
    + destruct (u <=? lend + z) eqn:H2; [discriminate|].
      specialize (IH sL m u E (lend + z) HF' ltac:(lia) ltac:(lia) Hc). lia.
Qed.

(* zs_walk: the costs of the sibling's elements in the order its CanLend loop walks them
   (front to back for CanLendToLeft, back to front for CanLendToRight) *)
Theorem map_merge_le_max : forall T zs_walk sR,
  valid_T T -> let c := set_threshold T in
  Forall (fun z => 0 < z <= Emax c) zs_walk ->
  let sL := Nsum zs_walk in
  cmin c <= P + HP + sL -> P + HP + sL <= cmax c -> P + HP + sR < cmin c ->
  e_can_lend zs_walk (HP + sL) (cmin c - P) (cmin c - (P + HP + sR)) = false ->
  P + HP + (sL + sR) <= cmax c.
Proof.
  intros T zs sR HT c HF sL Hm HX HR Hcan.
  set (m0 := cmin c - P - HP).
  assert (Hm0 : 0 < m0 /\ cmin c = m0 + P + HP) by (subst m0 c; unfold_mconsts; lia).
  destruct Hm0 as [Hm0 Hmeq].
  unfold e_can_lend in Hcan.
  destruct (length zs <? 2)%nat eqn:Hlen.
  - destruct zs as [|a [|b r]]; cbn [length Nat.ltb Nat.leb] in Hlen; try discriminate; subst sL.
    + change (Nsum []) with 0 in *. subst c m0; unfold_mconsts; lia.
    + pose proof (Forall_inv HF) as Ha; cbn beta in Ha. change (Nsum [a]) with (a + 0) in *.
      subst c m0; unfold_mconsts; lia.
  - destruct (HP + sL - (cmin c - (P + HP + sR)) <? cmin c - P) eqn:H0.
    + subst c m0; unfold_mconsts; lia.
    + replace (cmin c - P) with (m0 + HP) in Hcan by lia.
      rewrite can_lend_loop_shift in Hcan by assumption.
      replace (cmin c - (P + HP + sR)) with (m0 - sR) in Hcan by lia.
      pose proof (cannot_lend_loop_bound zs sL m0 (m0 - sR) (Emax c) 0 HF ltac:(lia) ltac:(lia) Hcan) as [H|H];
        subst c m0; unfold_mconsts; lia.
Qed.

(* ====================================================================== *)
(* 2. routing: Get through the tree = element-level Get on elems_of_tree   *)
(* ====================================================================== *)

(* hand-written induction principle for the nested type *)
Section mnode_ind.
  Variable Pn : mnode -> Prop.
  Hypothesis HD : forall h nx es, Pn (MD h nx es).
  Hypothesis HM : forall h hs cs, Forall Pn cs -> Pn (MM h hs cs).
  Fixpoint mnode_ind' (n : mnode) : Pn n :=
    match n with
    | MD h nx es => HD h nx es
    | MM h hs cs =>
      HM h hs cs ((fix go (l : list mnode) : Forall Pn l :=
                     match l with [] => Forall_nil _ | ch :: r => Forall_cons ch (mnode_ind' ch) (go r) end) cs)
    end.
End mnode_ind.

(* the element stored under digest h *)
Fixpoint assoc (hks : list N) (es : list melem) (h : N) : option melem :=
  match hks, es with
  | x :: hr, e :: er => if x =? h then Some e else assoc hr er h
  | _, _ => None
  end.

Lemma assoc_app H1 E1 H2 E2 h : length H1 = length E1 ->
  assoc (H1 ++ H2) (E1 ++ E2) h = match assoc H1 E1 h with Some e => Some e | None => assoc H2 E2 h end.
Proof.
  revert E1; induction H1 as [|a H1 IH]; intros [|e E1] Hl; try discriminate; cbn [app assoc]; [reflexivity|].
  destruct (a =? h); [reflexivity|]. apply IH. cbn in Hl; lia.
Qed.

Lemma assoc_notin H E h : ~ In h H -> assoc H E h = None.
Proof.
  revert E; induction H as [|x H IH]; intros [|e E] Hn; cbn [assoc]; try reflexivity.
  destruct (x =? h) eqn:Ex.
  - apply N.eqb_eq in Ex; subst. exfalso; apply Hn; left; reflexivity.
  - apply IH. intros Hin; apply Hn; right; assumption.
Qed.

Lemma split_at {A} (l : list A) n : (n < length l)%nat ->
  exists l1 x l2, l = l1 ++ x :: l2 /\ length l1 = n.
Proof.
  intros Hn. exists (firstn n l). destruct (skipn n l) as [|x l2] eqn:E.
  - exfalso. pose proof (skipn_length n l) as H. rewrite E in H. cbn in H. lia.
  - exists x, l2. split; [rewrite <- E; symmetry; apply firstn_skipn|]. rewrite firstn_length. lia.
Qed.

Lemma ssorted_app (l1 l2 : list N) :
  ssorted l1 -> ssorted l2 -> (forall x y, In x l1 -> In y l2 -> x < y) -> ssorted (l1 ++ l2).
Proof.
  unfold ssorted. induction l1 as [|a l1 IH]; intros S1 S2 H; cbn [app]; [assumption|].
  inversion S1 as [|? ? S1' F1]; subst. constructor.
  - apply IH; [assumption|assumption|]. intros x y Hx Hy. apply H; [right|]; assumption.
  - rewrite Forall_app. split; [assumption|]. rewrite Forall_forall. intros y Hy. apply H; [left; reflexivity|assumption].
Qed.

Lemma ssorted_app_lt (l1 l2 : list N) : ssorted (l1 ++ l2) -> forall x y, In x l1 -> In y l2 -> x < y.
Proof.
  unfold ssorted. induction l1 as [|a l1 IH]; intros S x y Hx Hy; [destruct Hx|].
  cbn [app] in S. inversion S as [|? ? S' F]; subst. destruct Hx as [->|Hx].
  - rewrite Forall_forall in F. apply F. apply in_or_app. right; assumption.
  - apply IH; assumption.
Qed.

Lemma ssorted_hd_le (l : list N) y : ssorted l -> In y l -> hd 0 l <= y.
Proof.
  unfold ssorted. intros S Hy. destruct l as [|a l]; [destruct Hy|]. cbn [hd].
  inversion S as [|? ? S' F]; subst. destruct Hy as [->|Hy]; [lia|].
  rewrite Forall_forall in F. specialize (F _ Hy). lia.
Qed.

Lemma hd_In (l : list N) : l <> [] -> In (hd 0 l) l.
Proof. destruct l; [congruence|]. intros _. left; reflexivity. Qed.

Lemma hd_app_ne (l1 l2 : list N) : l1 <> [] -> hd 0 (l1 ++ l2) = hd 0 l1.
Proof. destruct l1; [congruence|reflexivity]. Qed.

Lemma on_kth_app {A B} (f : A -> B) (l1 l2 : list A) x : on_kth f (l1 ++ x :: l2) (length l1) = Some (f x).
Proof. induction l1 as [|a l1 IH]; [reflexivity|]. cbn [app length]. exact IH. Qed.

(* all level-0 elements below a node, left to right *)
Fixpoint elems_flat (n : mnode) : list melem :=
  match n with
  | MD _ _ es => g_elems es
  | MM _ _ cs => flat_map elems_flat cs
  end.

Lemma leaves_keys n : flat_map g_hkeys (leaves n) = keys_of n.
Proof.
  induction n as [h nx es|h hs cs IH] using mnode_ind'; cbn [leaves keys_of flat_map]; [apply app_nil_r|].
  induction IH as [|ch r Hc _ IHr]; [reflexivity|]. cbn [flat_map]. rewrite flat_map_app, Hc, IHr. reflexivity.
Qed.

Lemma leaves_elems n : flat_map g_elems (leaves n) = elems_flat n.
Proof.
  induction n as [h nx es|h hs cs IH] using mnode_ind'; cbn [leaves elems_flat flat_map]; [apply app_nil_r|].
  induction IH as [|ch r Hc _ IHr]; [reflexivity|]. cbn [flat_map]. rewrite flat_map_app, Hc, IHr. reflexivity.
Qed.

Lemma elems_of_tree_eq n : exists sz, elems_of_tree n = HKey 0 (keys_of n) (elems_flat n) sz.
Proof. unfold elems_of_tree, elems_of_leaves. rewrite leaves_keys, leaves_elems. eexists; reflexivity. Qed.

(* the routing binary search, from its invariant *)
Definition firstk (hs : list mhdr) (m : nat) : N := mh_first (nth m hs (mkmhdr 0 0 0)).

Lemma route_bs_spec (hs : list mhdr) (hk : N) :
  (forall a b, (a < b < length hs)%nat -> firstk hs a <= firstk hs b) ->
  forall fuel i j ans,
    (i <= j <= length hs)%nat -> (j - i < fuel)%nat ->
    (forall m, (m < i)%nat -> firstk hs m <= hk) ->
    (forall m, (j <= m < length hs)%nat -> hk < firstk hs m) ->
    ans = match i with O => None | S i' => Some i' end ->
    match route_bs fuel hs hk i j ans with
    | None => forall m, (m < length hs)%nat -> hk < firstk hs m
    | Some p => (p < length hs)%nat /\ firstk hs p <= hk /\ forall m, (p < m < length hs)%nat -> hk < firstk hs m
    end.
Proof.
  intros Hmono. induction fuel as [|f IH]; intros i j ans Hij Hf Hlo Hhi Hans; [lia|].
  cbn [route_bs]. destruct (i <? j)%nat eqn:Eij.
  - apply Nat.ltb_lt in Eij. set (h := ((i + j) / 2)%nat).
    assert (Hh : (i <= h < j)%nat) by (subst h; lia).
    fold (firstk hs h). destruct (hk <? firstk hs h) eqn:E1.
    + apply N.ltb_lt in E1. apply IH; try lia; try assumption.
      intros m Hm. destruct (Nat.eq_dec m h) as [->|]; [assumption|].
      specialize (Hmono h m ltac:(lia)). lia.
    + apply N.ltb_ge in E1. apply IH; try lia; try assumption; [|reflexivity].
      intros m Hm. destruct (Nat.eq_dec m h) as [->|]; [assumption|].
      specialize (Hmono m h ltac:(lia)). lia.
  - apply Nat.ltb_ge in Eij. assert (i = j) by lia. subst j ans. destruct i as [|i'].
    + intros m Hm. apply Hhi. lia.
    + split; [lia|]. split; [apply Hlo; lia|]. intros m Hm. apply Hhi. lia.
Qed.

Lemma route_get_spec (hs : list mhdr) (hk : N) :
  (forall a b, (a < b < length hs)%nat -> firstk hs a <= firstk hs b) ->
  match route_get hs hk with
  | None => forall m, (m < length hs)%nat -> hk < firstk hs m
  | Some p => (p < length hs)%nat /\ firstk hs p <= hk /\ forall m, (p < m < length hs)%nat -> hk < firstk hs m
  end.
Proof.
  intros Hmono. unfold route_get. apply route_bs_spec; try assumption; try lia; try reflexivity; intros; lia.
Qed.

Section routing.
  Variable dg : N -> nat -> N.
  Variable levels : nat.
  Variable c : cfg.
  Hypothesis Hlv : (0 < levels)%nat.
  Hypothesis Hc : P + HP < cmin c.       (* holds for every legal slab size: [valid_T_min] below *)

  (* the element-level Get on an hkeyElements: find the element stored under the digest, descend *)
  Lemma get_elems_assoc f l hks es s k :
    ssorted hks -> length hks = length es ->
    get_elems dg levels (S f) (HKey l hks es s) 0 k =
    match assoc hks es (dg k 0) with
    | Some e => get_elem dg levels f e 0 k
    | None => inl EKeyNotFound
    end.
  Proof.
    intros Hs Hl. cbn [get_elems].
    replace (levels <=? 0)%nat with false by (symmetry; apply Nat.leb_gt; exact Hlv).
    destruct (hks_split (dg k 0) hks Hs) as [(H1 & H3 & ->)|(H1 & H3 & -> & F1 & F3)].
    - rewrite hk_search_found by assumption.
      destruct (split_at es (length H1)) as (E1 & e & E3 & -> & HlE).
      { rewrite <- Hl, app_length. cbn. lia. }
      rewrite <- HlE at 1. rewrite nth_error_app_mid.
      rewrite assoc_app by (symmetry; exact HlE).
      destruct (ssorted_app_inv _ _ _ Hs) as (_ & _ & FF1 & _).
      rewrite assoc_notin.
      + cbn [assoc]. rewrite N.eqb_refl. reflexivity.
      + intros Hin. rewrite Forall_forall in FF1. specialize (FF1 _ Hin). lia.
    - destruct (hk_search_notfound H1 H3 (dg k 0) Hs F1 F3) as [-> _].
      rewrite assoc_notin; [reflexivity|].
      intros Hin. apply in_app_or in Hin. rewrite Forall_forall in F1, F3.
      destruct Hin as [Hin|Hin]; [specialize (F1 _ Hin)|specialize (F3 _ Hin)]; lia.
  Qed.

  (* what the invariant says about the keys below a node *)
  Definition node_facts (n : mnode) : Prop :=
    length (keys_of n) = length (elems_flat n) /\ ssorted (keys_of n) /\
    mh_first (hdr_of n) = hd 0 (keys_of n) /\ (in_band c n -> keys_of n <> []).

  Lemma flat_lengths cs : Forall node_facts cs ->
    length (flat_map keys_of cs) = length (flat_map elems_flat cs).
  Proof.
    induction 1 as [|ch r Hch _ IH]; [reflexivity|]. cbn [flat_map]. rewrite !app_length, IH.
    destruct Hch as (-> & _). reflexivity.
  Qed.

  Lemma flat_sorted cs : Forall node_facts cs -> Forall (in_band c) cs -> ranges_ok cs ->
    ssorted (flat_map keys_of cs).
  Proof.
    induction 1 as [|ch r Hch HF IH]; intros HB HR; [constructor|].
    cbn [flat_map]. cbn [ranges_ok] in HR. destruct HR as (_ & Hnext & HR).
    pose proof (Forall_inv HB) as Bch. pose proof (Forall_inv_tail HB) as HB'.
    destruct Hch as (_ & Sch & _ & _).
    specialize (IH HB' HR). apply ssorted_app; [assumption|assumption|].
    intros x y Hx Hy. destruct r as [|c2 r']; [destruct Hy|].
    rewrite Forall_forall in Hnext. specialize (Hnext _ Hx).
    destruct (Forall_inv HF) as (_ & _ & F2 & N2). specialize (N2 (Forall_inv HB')).
    pose proof (ssorted_hd_le _ y IH Hy) as Hle. cbn [flat_map] in Hle.
    rewrite hd_app_ne in Hle by assumption. lia.
  Qed.

  Lemma flat_nonempty cs : cs <> [] -> Forall node_facts cs -> Forall (in_band c) cs ->
    flat_map keys_of cs <> [] /\ hd 0 (flat_map keys_of cs) = hfirst (map hdr_of cs).
  Proof.
    intros Hne HF HB. destruct cs as [|ch r]; [congruence|].
    destruct (Forall_inv HF) as (_ & _ & F1 & N1). specialize (N1 (Forall_inv HB)).
    cbn [flat_map map hfirst]. split.
    - intros E. apply app_eq_nil in E. tauto.
    - rewrite hd_app_ne by assumption. symmetry; assumption.
  Qed.

  Lemma mwfn_facts : forall d n, mwfn dg levels c d n -> node_facts n.
  Proof.
    induction d as [|d IH]; intros n Hn; inversion Hn; subst.
    - (* leaf *)
      match goal with H : ewf_g _ _ _ _ |- _ => inversion H; subst end.
      unfold node_facts. cbn [keys_of elems_flat g_hkeys g_elems hdr_of].
      split; [eapply Forall2_len; eassumption|]. split; [assumption|]. split; [assumption|].
      intros [Hb _]. cbn [hdr_of] in Hb. intros ->.
      match goal with H : Forall2 _ [] _ |- _ => inversion H; subst end.
      match goal with H : mh_size _ = _ |- _ => rewrite H in Hb end.
      unfold hk_recompute in Hb. cbn [fold_left] in Hb. fold HP in Hb. lia.
    - (* index slab *)
      assert (HF : Forall node_facts cs).
      { match goal with H : Forall (mwfn _ _ _ d) cs |- _ => revert H end.
        apply Forall_impl. intros a Ha. apply IH; assumption. }
      unfold node_facts. cbn [keys_of elems_flat hdr_of].
      destruct (flat_nonempty cs) as [Hne Hhd]; try assumption.
      split; [apply flat_lengths; assumption|]. split; [apply flat_sorted; assumption|].
      split; [congruence|]. intros _. assumption.
  Qed.

  (* monotone firstKeys of the children of an index slab *)
  Lemma firsts_sorted cs : Forall node_facts cs -> Forall (in_band c) cs -> ssorted (flat_map keys_of cs) ->
    ssorted (map (fun ch => mh_first (hdr_of ch)) cs).
  Proof.
    induction 1 as [|ch r Hch HF IH]; intros HB HS; [constructor|].
    cbn [map flat_map] in *. pose proof (Forall_inv HB) as Bch. pose proof (Forall_inv_tail HB) as HB'.
    destruct (ssorted_app_inv2 _ _ HS) as [_ HSr].
    constructor; [apply IH; assumption|].
    destruct Hch as (_ & _ & F1 & N1). specialize (N1 Bch).
    rewrite Forall_forall. intros x Hx. apply in_map_iff in Hx. destruct Hx as (c2 & <- & Hc2).
    rewrite F1. apply (ssorted_app_lt _ _ HS); [apply hd_In; assumption|].
    apply in_flat_map. exists c2. split; [assumption|].
    rewrite Forall_forall in HF, HB'. destruct (HF _ Hc2) as (_ & _ & F2 & N2). specialize (N2 (HB' _ Hc2)).
    rewrite F2. apply hd_In; assumption.
  Qed.

  Lemma firstk_map cs m : firstk (map hdr_of cs) m = nth m (map (fun ch => mh_first (hdr_of ch)) cs) 0.
  Proof.
    unfold firstk. rewrite <- (map_nth mh_first), map_map. reflexivity.
  Qed.

  Definition fuel' : nat := (3 * levels + 3)%nat.
  Lemma op_fuel_S : op_fuel levels = S fuel'.
  Proof. unfold op_fuel, fuel'. lia. Qed.

  (* Get through the tree finds the element stored under the key's digest and descends into it *)
  Lemma n_get_assoc k : forall d n, mwfn dg levels c d n ->
    n_get dg levels n k =
    match assoc (keys_of n) (elems_flat n) (dg k 0) with
    | Some e => get_elem dg levels fuel' e 0 k
    | None => inl EKeyNotFound
    end.
  Proof.
    induction d as [|d IH]; intros n Hn; pose proof (mwfn_facts _ _ Hn) as Hfacts; inversion Hn; subst.
    - cbn [n_get keys_of elems_flat g_hkeys g_elems]. rewrite op_fuel_S.
      destruct Hfacts as (Hl & Hs & _). apply get_elems_assoc; assumption.
    - cbn [n_get keys_of elems_flat]. unfold hkey0.
      assert (HF : Forall node_facts cs).
      { match goal with H : Forall (mwfn _ _ _ d) cs |- _ => revert H end.
        apply Forall_impl. intros a Ha. apply mwfn_facts with (d := d); assumption. }
      destruct Hfacts as (_ & HS & _ & _). cbn [keys_of] in HS.
      pose proof (firsts_sorted cs HF ltac:(assumption) HS) as HFS.
      assert (Hmono : forall a b, (a < b < length (map hdr_of cs))%nat ->
                                  firstk (map hdr_of cs) a <= firstk (map hdr_of cs) b).
      { intros a b Hab. rewrite !firstk_map. rewrite map_length in Hab.
        pose proof (ssorted_nth _ HFS a b) as Hlt. rewrite map_length in Hlt. specialize (Hlt Hab). lia. }
      pose proof (route_get_spec (map hdr_of cs) (dg k 0) Hmono) as HR.
      destruct (route_get (map hdr_of cs) (dg k 0)) as [p|].
      + destruct HR as (Hp & Hlo & Hhi). rewrite map_length in Hp, Hhi.
        destruct (split_at cs p Hp) as (C1 & ch & C3 & -> & HlC).
        rewrite <- HlC. rewrite on_kth_app.
        match goal with H : Forall (mwfn _ _ _ d) _ |- _ => rename H into Hcs end.
        assert (Hch : mwfn dg levels c d ch).
        { rewrite Forall_forall in Hcs. apply Hcs. apply in_or_app. right; left; reflexivity. }
        rewrite (IH _ Hch).
        rewrite !flat_map_app. cbn [flat_map].
        apply Forall_app in HF. destruct HF as [HF1 HF23].
        pose proof (Forall_inv HF23) as Fch. pose proof (Forall_inv_tail HF23) as HF3.
        match goal with H : Forall (in_band c) _ |- _ => rename H into HB end.
        apply Forall_app in HB. destruct HB as [HB1 HB23].
        pose proof (Forall_inv HB23) as Bch. pose proof (Forall_inv_tail HB23) as HB3.
        destruct Fch as (Lch & Sch & F1 & N1). specialize (N1 Bch).
        rewrite flat_map_app in HS. cbn [flat_map] in HS.
        (* firstKey of the routed child *)
        assert (Efp : firstk (map hdr_of (C1 ++ ch :: C3)) p = hd 0 (keys_of ch)).
        { unfold firstk. rewrite map_app. cbn [map]. rewrite <- HlC, <- (map_length hdr_of C1).
          rewrite app_nth2 by lia. rewrite Nat.sub_diag. cbn [nth]. exact F1. }
        rewrite Efp in Hlo.
        rewrite assoc_app by (apply flat_lengths; assumption).
        rewrite (assoc_notin (flat_map keys_of C1)).
        2:{ intros Hin. pose proof (ssorted_app_lt _ _ HS _ (hd 0 (keys_of ch)) Hin) as Hlt.
            specialize (Hlt ltac:(apply in_or_app; left; apply hd_In; assumption)). lia. }
        rewrite assoc_app by assumption.
        destruct (assoc (keys_of ch) (elems_flat ch) (dg k 0)); [reflexivity|].
        rewrite (assoc_notin (flat_map keys_of C3)); [reflexivity|].
        intros Hin. destruct C3 as [|c3 C3']; [destruct Hin|].
        destruct (ssorted_app_inv2 _ _ HS) as [_ HS2]. destruct (ssorted_app_inv2 _ _ HS2) as [_ HS3].
        pose proof (ssorted_hd_le _ _ HS3 Hin) as Hle.
        destruct (Forall_inv HF3) as (_ & _ & F3 & N3). specialize (N3 (Forall_inv HB3)).
        cbn [flat_map] in Hle. rewrite hd_app_ne in Hle by assumption.
        specialize (Hhi (S p)). rewrite app_length in Hhi. cbn [length] in Hhi. specialize (Hhi ltac:(lia)).
        assert (Efs : firstk (map hdr_of (C1 ++ ch :: c3 :: C3')) (S p) = hd 0 (keys_of c3)).
        { unfold firstk. rewrite map_app. cbn [map]. rewrite <- HlC, <- (map_length hdr_of C1).
          rewrite app_nth2 by lia. replace (S (length (map hdr_of C1)) - length (map hdr_of C1))%nat with 1%nat by lia.
          cbn [nth]. exact F3. }
        rewrite Efs in Hhi. lia.
      + (* below the first child's firstKey: not found on both sides *)
        rewrite assoc_notin; [reflexivity|].
        intros Hin.
        destruct (flat_nonempty cs) as [Hne Hhd]; try assumption.
        pose proof (ssorted_hd_le _ _ HS Hin) as Hle. rewrite Hhd in Hle.
        destruct cs as [|c0 r]; [congruence|].
        specialize (HR 0%nat). cbn [map length] in HR. specialize (HR ltac:(lia)).
        unfold firstk in HR. cbn [nth map hfirst] in *. lia.
  Qed.

  (* the routing theorem, for a subtree and for the root *)
  Theorem n_get_elems_of_tree k d n : mwfn dg levels c d n ->
    n_get dg levels n k = get_elems dg levels (op_fuel levels) (elems_of_tree n) 0 k.
  Proof.
    intros Hn. rewrite (n_get_assoc k d n Hn). destruct (elems_of_tree_eq n) as [sz ->].
    rewrite op_fuel_S. destruct (mwfn_facts _ _ Hn) as (Hl & Hs & _).
    symmetry. apply get_elems_assoc; assumption.
  Qed.

  Theorem root_get_elems_of_tree k n : mwf_root dg levels c n ->
    n_get dg levels n k = get_elems dg levels (op_fuel levels) (elems_of_tree n) 0 k.
  Proof.
    intros Hn. inversion Hn; subst.
    - destruct (elems_of_tree_eq (MD h 0 (HKey 0 hks els sz))) as [sz' ->].
      cbn [n_get keys_of elems_flat g_hkeys g_elems]. rewrite op_fuel_S.
      match goal with H : ewf_g _ _ _ _ |- _ => inversion H; subst end.
      rewrite !get_elems_assoc; try assumption; try (eapply Forall2_len; eassumption). reflexivity.
    - eapply n_get_elems_of_tree; eassumption.
  Qed.
End routing.

Lemma valid_T_min T : valid_T T -> P + HP < cmin (set_threshold T).
Proof. intros HT. unfold_mconsts. lia. Qed.

(* Get and Has of the tree model answer what the element-level model answers on the one logical
   hkeyElements of the tree *)
Theorem mt_get_refines dg levels mie limit c (t : mtree) k :
  (0 < levels)%nat -> P + HP < cmin c -> mtwf dg levels c t ->
  snd (fst (mt_step dg levels mie limit c t (OGet k))) = snd (fst (m_step dg levels mie limit (mstate_of_tree t) (OGet k))) /\
  snd (fst (mt_step dg levels mie limit c t (OHas k))) = snd (fst (m_step dg levels mie limit (mstate_of_tree t) (OHas k))).
Proof.
  intros Hlv Hc [Hroot _]. cbn [mt_step m_step mstate_of_tree m_root fst snd]. unfold mt_get, mt_has.
  rewrite (root_get_elems_of_tree dg levels c Hlv Hc k _ Hroot).
  split; destruct (get_elems dg levels (op_fuel levels) (elems_of_tree (t_root t)) 0 k) as [[| |]|[? ?]]; reflexivity.
Qed.
(* ---------- index slabs: the header-count versions ---------- *)

(* MapMetaDataSlab.Split: an index slab that exceeds the maximum by at most one header splits into
   ceil(n/2) and floor(n/2) headers, both inside the band *)
Theorem map_index_split_in_band : forall T n,
  valid_T T -> let c := set_threshold T in
  PM + n * HS > cmax c -> PM + n * HS <= cmax c + HS ->
  let lc := (n + 1) / 2 in
  2 <= n /\ cmin c <= PM + lc * HS <= cmax c /\ cmin c <= PM + n * HS - lc * HS <= cmax c.
Proof. intros T n HT c Hfull Hone lc. subst c lc. unfold_mconsts. lia. Qed.

(* MapMetaDataSlab.CanLendToLeft/Right + LendToRight/BorrowFromRight: if the sibling (n1 headers,
   inside the band) can lend what the underflowing slab (n2 headers) needs, the even redistribution
   leaves both inside the band *)
Theorem map_index_rebalance_in_band : forall T n1 n2 id f,
  valid_T T -> let c := set_threshold T in
  PM + n1 * HS <= cmax c -> PM + n2 * HS < cmin c ->
  m_can_lend c (mkmhdr id (PM + n1 * HS) f) (cmin c - (PM + n2 * HS)) = true ->
  let lc := (n1 + n2) / 2 in
  cmin c <= PM + lc * HS <= cmax c /\ cmin c <= PM + (n1 + n2 - lc) * HS <= cmax c.
Proof.
  intros T n1 n2 id f HT c HX HR Hcan lc. unfold m_can_lend, ArrayTree.ceil_div in Hcan. cbn [mh_size] in Hcan.
  subst c lc. unfold_mconsts.
  destruct (18 * ((T / 2 - (12 + n2 * 18) + 18 - 1) / 18) <=? 12 + n1 * 18) eqn:E; [|discriminate]. lia.
Qed.

(* merge only when no sibling can lend: the merged index slab does not exceed the maximum *)
Theorem map_index_merge_le_max : forall T n1 n2 id f,
  valid_T T -> let c := set_threshold T in
  cmin c <= PM + n1 * HS -> PM + n1 * HS <= cmax c -> PM + n2 * HS < cmin c ->
  m_can_lend c (mkmhdr id (PM + n1 * HS) f) (cmin c - (PM + n2 * HS)) = false ->
  (PM + n1 * HS) + (PM + n2 * HS - PM) <= cmax c.
Proof.
  intros T n1 n2 id f HT c Hm HX HR Hcan. unfold m_can_lend, ArrayTree.ceil_div in Hcan. cbn [mh_size] in Hcan.
  subst c. unfold_mconsts.
  destruct (18 * ((T / 2 - (12 + n2 * 18) + 18 - 1) / 18) <=? 12 + n1 * 18) eqn:E; lia.
Qed.
(* ====================================================================== *)
(* 3. soundness of the executable invariant checker                        *)
(* ====================================================================== *)

Lemma ssortedb_sound l : ssortedb l = true -> ssorted l.
Proof.
  unfold ssorted. induction l as [|x r IH]; intros H; [constructor|].
  cbn [ssortedb] in H. destruct r as [|y r'].
  - constructor; constructor.
  - apply andb_true_iff in H. destruct H as [Hxy Hr]. specialize (IH Hr).
    constructor; [assumption|]. inversion IH as [|? ? S' F]; subst.
    constructor; [lia|]. eapply Forall_impl; [|exact F]. cbn. intros; lia.
Qed.

Lemma nodupb_sound l : nodupb l = true -> NoDup l.
Proof.
  induction l as [|x r IH]; intros H; [constructor|]. cbn [nodupb] in H.
  apply andb_true_iff in H. destruct H as [Hx Hr]. constructor; [|apply IH; assumption].
  intros Hin. apply negb_true_iff in Hx. assert (existsb (N.eqb x) r = true); [|congruence].
  apply existsb_exists. exists x. split; [assumption|apply N.eqb_refl].
Qed.

Fixpoint all2b (f : N -> melem -> bool) (hs : list N) (es : list melem) : bool :=
  match hs, es with
  | [], [] => true
  | h :: hs', e :: es' => f h e && all2b f hs' es'
  | _, _ => false
  end.

Lemma all2b_Forall2 (f : N -> melem -> bool) (R : N -> melem -> Prop) hs es :
  (forall h e, In e es -> f h e = true -> R h e) -> all2b f hs es = true -> Forall2 R hs es.
Proof.
  revert hs; induction es as [|e es IH]; intros [|h hs] Hf H; cbn [all2b] in H; try discriminate; [constructor|].
  apply andb_true_iff in H. destruct H as [H1 H2]. constructor.
  - apply Hf; [left; reflexivity|assumption].
  - apply IH; [|assumption]. intros h' e' Hin. apply Hf. right; assumption.
Qed.

Section checker.
  Variable dg : N -> nat -> N.
  Variable levels : nat.
  Variable c : cfg.

  Lemma ewf_gb_hkey l l' hks es sz :
    ewf_gb dg levels l (HKey l' hks es sz) =
    (l' =? l)%nat && (l <? levels)%nat && ssortedb hks && (sz =? hk_recompute es) && all2b (ewf_eb dg levels l) hks es.
  Proof.
    cbn [ewf_gb]. f_equal. revert hks; induction es as [|e es IH]; intros [|h hks]; cbn [all2b]; try reflexivity.
    rewrite IH. reflexivity.
  Qed.

  Lemma ewf_eb_sound_from l :
    (forall g, ewf_gb dg levels (S l) g = true -> ewf_g dg levels (S l) g) ->
    forall h e, ewf_eb dg levels l h e = true -> ewf_e dg levels l h e.
  Proof.
    intros Hg h e H. destruct e as [k v|loc g]; cbn [ewf_eb] in H.
    - apply N.eqb_eq in H. subst h. constructor.
    - repeat (apply andb_true_iff in H; destruct H as [H ?]).
      constructor.
      + apply Hg; assumption.
      + match goal with X : (2 <=? _)%nat = true |- _ => apply Nat.leb_le in X; exact X end.
      + unfold keys_dg. rewrite Forall_forall. intros p Hp.
        match goal with X : forallb _ _ = true |- _ => rewrite forallb_forall in X; specialize (X _ Hp); apply N.eqb_eq in X; exact X end.
      + unfold loc_ok. destruct loc; [|exact I]. unfold loc_okb in *.
        match goal with X : (l =? 0)%nat = true |- _ => apply Nat.eqb_eq in X; exact X end.
  Qed.

  (* downward induction on the level: n = levels + 1 - l *)
  Lemma ewf_gb_sound_aux : forall n l, (levels + 1 - l <= n)%nat ->
    forall g, ewf_gb dg levels l g = true -> ewf_g dg levels l g.
  Proof.
    induction n as [|n IH]; intros l Hn g H.
    - (* l > levels: the checker rejects everything *)
      destruct g as [l' hks es sz|l' kvs sz].
      + rewrite ewf_gb_hkey in H. repeat (apply andb_true_iff in H; destruct H as [H ?]).
        match goal with X : (l <? levels)%nat = true |- _ => apply Nat.ltb_lt in X; lia end.
      + cbn [ewf_gb] in H. repeat (apply andb_true_iff in H; destruct H as [H ?]).
        match goal with X : (l =? levels)%nat = true |- _ => apply Nat.eqb_eq in X; lia end.
    - destruct g as [l' hks es sz|l' kvs sz].
      + rewrite ewf_gb_hkey in H. repeat (apply andb_true_iff in H; destruct H as [H ?]).
        apply Nat.eqb_eq in H. subst l'.
        match goal with X : (l <? levels)%nat = true |- _ => apply Nat.ltb_lt in X; rename X into Hl end.
        constructor.
        * assumption.
        * apply ssortedb_sound; assumption.
        * match goal with X : (sz =? _) = true |- _ => apply N.eqb_eq in X; exact X end.
        * eapply all2b_Forall2; [|eassumption]. intros h e _. apply ewf_eb_sound_from.
          apply IH. lia.
      + cbn [ewf_gb] in H. repeat (apply andb_true_iff in H; destruct H as [H ?]).
        apply Nat.eqb_eq in H. subst l'.
        match goal with X : (l =? levels)%nat = true |- _ => apply Nat.eqb_eq in X; subst l end.
        constructor.
        * match goal with X : (sz =? _) = true |- _ => apply N.eqb_eq in X; exact X end.
        * apply nodupb_sound; assumption.
  Qed.

  Lemma ewf_gb_sound l g : ewf_gb dg levels l g = true -> ewf_g dg levels l g.
  Proof. apply (ewf_gb_sound_aux (levels + 1 - l) l). lia. Qed.

  Lemma list_eqb_mhdr_sound hs hs' : list_eqb mhdr_eqb hs hs' = true -> hs = hs'.
  Proof.
    revert hs'; induction hs as [|a hs IH]; intros [|b hs'] H; cbn [list_eqb] in H; try discriminate; [reflexivity|].
    apply andb_true_iff in H. destruct H as [Hab Hr]. f_equal; [|apply IH; assumption].
    unfold mhdr_eqb in Hab. apply andb_true_iff in Hab. destruct Hab as [Hab H3].
    apply andb_true_iff in Hab. destruct Hab as [H1 H2]. apply N.eqb_eq in H1, H2, H3.
    destruct a as [a1 a2 a3], b as [b1 b2 b3]; cbn [mh_id mh_size mh_first] in *. congruence.
  Qed.

  Lemma ranges_okb_sound cs : ranges_okb cs = true -> ranges_ok cs.
  Proof.
    induction cs as [|ch r IH]; intros H; [exact I|]. cbn [ranges_okb] in H.
    repeat (apply andb_true_iff in H; destruct H as [H ?]).
    cbn [ranges_ok]. split; [|split; [|apply IH; assumption]].
    - rewrite Forall_forall. intros k Hk. rewrite forallb_forall in H. specialize (H _ Hk). lia.
    - destruct r as [|c2 r']; [exact I|]. rewrite Forall_forall. intros k Hk.
      match goal with X : forallb _ (keys_of ch) = true |- _ => rewrite forallb_forall in X; specialize (X _ Hk); lia end.
  Qed.

  Lemma in_bandb_sound n : in_bandb c n = true -> in_band c n.
  Proof. unfold in_bandb, in_band. intros H. apply andb_true_iff in H. lia. Qed.

  Lemma leaf_okb_sound pfx h es : leaf_okb dg levels c pfx h es = true ->
    exists hks els sz, es = HKey 0 hks els sz /\ ewf_g dg levels 0 es /\ Forall (elem_ok c) els /\
                       mh_first h = hd 0 hks /\ mh_size h = pfx + sz.
  Proof.
    destruct es as [[|l] hks els sz|]; try discriminate. intros H.
    change (ewf_gb dg levels 0 (HKey 0 hks els sz) && forallb (elem_okb c) els && (mh_first h =? hd 0 hks) &&
            (mh_size h =? pfx + sz) = true) in H.
    do 3 (apply andb_true_iff in H; destruct H as [H ?]).
    exists hks, els, sz. split; [reflexivity|]. split; [apply ewf_gb_sound; assumption|].
    split; [|split; apply N.eqb_eq; assumption].
    rewrite Forall_forall. intros e He.
    match goal with X : forallb _ els = true |- _ => rewrite forallb_forall in X; specialize (X _ He); unfold elem_okb in X end.
    unfold elem_ok. lia.
  Qed.

  Lemma mwfnb_sound : forall n d, mwfnb dg levels c n = Some d -> mwfn dg levels c d n.
  Proof.
    induction n as [h nx es|h hs cs IH] using mnode_ind'; intros d H; cbn [mwfnb] in H.
    - destruct (leaf_okb dg levels c P h es) eqn:E; [|discriminate]. inversion H; subst d.
      destruct (leaf_okb_sound _ _ _ E) as (hks & els & sz & -> & Hg & He & Hf & Hs).
      constructor; assumption.
    - destruct (map (mwfnb dg levels c) cs) as [|[d0|] hts] eqn:Eh; try discriminate.
      match type of H with (if ?b then _ else _) = _ => destruct b eqn:Eb; [|discriminate] end.
      inversion H; subst d.
      do 5 (apply andb_true_iff in Eb; destruct Eb as [Eb ?]).
      assert (Hall : Forall (fun ch => mwfnb dg levels c ch = Some d0) cs).
      { rewrite Forall_forall. intros ch Hch.
        rewrite forallb_forall in Eb. specialize (Eb (mwfnb dg levels c ch)).
        rewrite <- Eh in Eb. specialize (Eb (in_map _ _ _ Hch)).
        destruct (mwfnb dg levels c ch) as [d'|]; [|discriminate]. apply Nat.eqb_eq in Eb. congruence. }
      constructor.
      + rewrite Forall_forall in *. intros ch Hch. apply IH; [assumption|]. apply Hall; assumption.
      + rewrite Forall_forall. intros ch Hch. apply in_bandb_sound.
        match goal with X : forallb (in_bandb c) cs = true |- _ => rewrite forallb_forall in X; apply X; assumption end.
      + apply list_eqb_mhdr_sound; assumption.
      + intros ->. discriminate.
      + apply N.eqb_eq; assumption.
      + apply N.eqb_eq; assumption.
      + apply ranges_okb_sound; assumption.
  Qed.

  Lemma mwf_rootb_sound n : mwf_rootb dg levels c n = true -> mwf_root dg levels c n.
  Proof.
    destruct n as [h nx es|h hs cs]; cbn [mwf_rootb]; intros H.
    - repeat (apply andb_true_iff in H; destruct H as [H ?]).
      destruct (leaf_okb_sound _ _ _ H) as (hks & els & sz & -> & Hg & He & Hf & Hs).
      match goal with X : (nx =? 0) = true |- _ => apply N.eqb_eq in X; subst nx end.
      constructor; try assumption. lia.
    - destruct (mwfnb dg levels c (MM h hs cs)) as [d|] eqn:E; [|discriminate].
      apply andb_true_iff in H. destruct H as [H1 H2].
      pose proof (mwfnb_sound _ _ E) as Hw. inversion Hw; subst.
      eapply wfr_MM; [exact Hw|apply Nat.leb_le; assumption|lia].
  Qed.

  Lemma chainb_sound : forall n nxt, chainb n nxt = true -> chain n nxt.
  Proof.
    induction n as [h nx es|h hs cs IH] using mnode_ind'; intros nxt H; cbn [chainb chain] in *.
    - apply N.eqb_eq; assumption.
    - revert nxt H. induction IH as [|ch r Hch HF IHr]; intros nxt H; [exact I|].
      destruct r as [|c2 r'].
      + apply Hch; assumption.
      + apply andb_true_iff in H. destruct H as [H1 H2]. split; [apply Hch; assumption|].
        apply IHr; assumption.
  Qed.

  (* the checker used by the trace engine accepts only states satisfying the full invariant *)
  Theorem mtwfb_sound t : mtwfb dg levels c t = true -> mtwf_full dg levels c t.
  Proof.
    unfold mtwfb. intros H. repeat (apply andb_true_iff in H; destruct H as [H ?]).
    split; [split|split].
    - apply mwf_rootb_sound; assumption.
    - apply N.eqb_eq; assumption.
    - apply chainb_sound; assumption.
    - split; [apply nodupb_sound; assumption|].
      rewrite Forall_forall. intros i Hi.
      match goal with X : forallb _ (slab_ids _) = true |- _ => rewrite forallb_forall in X; specialize (X _ Hi) end.
      lia.
  Qed.
End checker.
