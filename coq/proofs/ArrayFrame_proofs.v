(* ArrayFrame_proofs.v — structural theorems of the array slab tree (ArrayTree.v / ArrayInv.v):

   F1  identifiers (C09):   [ids_step]  uniqueness and bounds of all slab indexes, allocator monotone,
                            root index constant, and the exact ACCOUNTING
                              slab_ids(new tree) ++ released tree slabs ++ slab of the element handed back
                                ==_perm  slab_ids(old tree) ++ the freshly allocated indexes
   F2  frame (C03):         [frame_step]  every slab that is not in the storeSlab/Remove log is
                            unchanged; last event Store => present; last event Remove => absent;
                            new slabs are stored; [log_no_store_after_remove]; [fresh_ids_stored]
   F3  sibling links (C05/C13): [chain_step] and the traversal theorem [follow_to_list]
   F4  PopIterate (C09):    [pop_releases_all]
   F5  reachable arrays:    [ainv_init] [ainv_run] [follow_reachable]

   Nothing here depends on byte sizes: the size-driven loops (split_point, lend_loop, borrow_loop)
   are treated as black boxes; the theorems hold whatever an operation returns (on an error the
   array is unchanged and the log is empty).

   Method.  Every successful node operation is shown to be an [nstep]: one leaf update followed,
   per level, by one local repair [pfix] of the parent (nothing / child split / rebalance / merge),
   which is a replacement of a segment of adjacent children ([seg_ok]).  All properties are then
   proved once for "stages" ([stage_ok]), which are closed under composition, for the node steps,
   splitRoot, promoteChildAsNewRoot and PopIterate.  Permutation / NoDup goals are discharged by
   occurrence counting ([cnt], tactic [perm_solve]). *)
From Coq Require Import NArith ZArith List Bool Lia ZifyBool ZifyN ZifyNat Permutation.
From AtreeGen Require Import Consts.
From AtreeModel Require Import Settings ArrayTree ArrayInv.
Import ListNotations.
Local Open Scope N_scope.


(** * 0. Induction principle for the nested tree type *)
Section anode_ind.
  Variable Pn : anode -> Prop.
  Hypothesis HD : forall h nx es, Pn (AD h nx es).
  Hypothesis HM : forall h hs sums cs, Forall Pn cs -> Pn (AM h hs sums cs).
  Fixpoint anode_ind' (n : anode) : Pn n :=
    match n with
    | AD h nx es => HD h nx es
    | AM h hs sums cs =>
      HM h hs sums cs ((fix go (l : list anode) : Forall Pn l :=
                          match l with
                          | [] => Forall_nil _
                          | c :: r => Forall_cons c (anode_ind' c) (go r)
                          end) cs)
    end.
End anode_ind.

(** * 1. Multiset toolkit: Permutation / NoDup / In through occurrence counting *)

Definition cnt (l : list N) (x : N) : nat := count_occ N.eq_dec l x.
Definition one (a x : N) : nat := if N.eq_dec a x then 1%nat else 0%nat.

Lemma cnt_nil x : cnt [] x = 0%nat. Proof. reflexivity. Qed.
Lemma cnt_cons a l x : cnt (a :: l) x = (one a x + cnt l x)%nat.
Proof. unfold cnt, one. cbn [count_occ]. destruct (N.eq_dec a x); reflexivity. Qed.
Lemma cnt_app l1 l2 x : cnt (l1 ++ l2) x = (cnt l1 x + cnt l2 x)%nat.
Proof. apply count_occ_app. Qed.
Lemma one_le a x : (one a x <= 1)%nat.
Proof. unfold one. destruct (N.eq_dec a x); lia. Qed.
Lemma one_eq a : one a a = 1%nat.
Proof. unfold one. destruct (N.eq_dec a a); congruence. Qed.
Lemma one_neq a x : a <> x -> one a x = 0%nat.
Proof. unfold one. destruct (N.eq_dec a x); congruence. Qed.
Lemma one_pos a x : (0 < one a x)%nat -> a = x.
Proof. unfold one. destruct (N.eq_dec a x); [auto|lia]. Qed.

Lemma perm_cnt l1 l2 : Permutation l1 l2 <-> forall x, cnt l1 x = cnt l2 x.
Proof. apply (Permutation_count_occ N.eq_dec). Qed.
Lemma nodup_cnt l : NoDup l <-> forall x, (cnt l x <= 1)%nat.
Proof. apply (NoDup_count_occ N.eq_dec). Qed.
Lemma in_cnt l x : In x l <-> (0 < cnt l x)%nat.
Proof. unfold cnt. rewrite (count_occ_In N.eq_dec). lia. Qed.
Lemma notin_cnt l x : ~ In x l <-> cnt l x = 0%nat.
Proof. rewrite in_cnt. lia. Qed.

#[export] Hint Rewrite cnt_app cnt_cons cnt_nil : cnt.
Ltac cnt_norm := autorewrite with cnt in *.
(* turn the goal and all hypotheses about Permutation / NoDup / In of id lists into arithmetic at x *)
Ltac cnt_hyps x :=
  repeat match goal with
         | H : Permutation _ _ |- _ => rewrite perm_cnt in H; specialize (H x)
         | H : NoDup _ |- _ => rewrite nodup_cnt in H; specialize (H x)
         | H : In x _ |- _ => rewrite in_cnt in H
         | H : ~ In x _ |- _ => rewrite notin_cnt in H
         end.
Ltac perm_solve :=
  match goal with
  | |- Permutation _ _ => apply perm_cnt; let x := fresh "x" in intro x; cnt_hyps x; cnt_norm; try lia
  | |- NoDup _ => apply nodup_cnt; let x := fresh "x" in intro x; cnt_hyps x; cnt_norm; try lia
  end.

(** fresh slab indexes: the k indexes following [a] *)
Fixpoint nseq (a : N) (k : nat) : list N :=
  match k with O => [] | S k' => (a + 1) :: nseq (a + 1) k' end.

Lemma nseq_app a k1 k2 : nseq a (k1 + k2) = nseq a k1 ++ nseq (a + N.of_nat k1) k2.
Proof.
  revert a; induction k1 as [|k1 IH]; intros a; cbn [nseq Nat.add app].
  - f_equal. lia.
  - rewrite IH. do 3 f_equal. lia.
Qed.
Lemma in_nseq x a k : In x (nseq a k) <-> a < x <= a + N.of_nat k.
Proof.
  revert a; induction k as [|k IH]; intros a; cbn [nseq In].
  - lia.
  - rewrite IH. lia.
Qed.
Lemma nodup_nseq a k : NoDup (nseq a k).
Proof.
  revert a; induction k as [|k IH]; intros a; cbn [nseq]; constructor; auto.
  rewrite in_nseq. lia.
Qed.
Lemma cnt_nseq_le a k x : (cnt (nseq a k) x <= 1)%nat.
Proof. apply nodup_cnt, nodup_nseq. Qed.
Lemma cnt_nseq_pos a k x : (0 < cnt (nseq a k) x)%nat -> a < x <= a + N.of_nat k.
Proof. rewrite <- in_cnt. apply in_nseq. Qed.
Lemma cnt_nseq_out a k x : x <= a -> cnt (nseq a k) x = 0%nat.
Proof. intros H. apply notin_cnt. rewrite in_nseq. lia. Qed.

(** * 2. List helpers of the model *)

Lemma on_kth_spec {A B} (f : A -> B) l k : on_kth f l k = option_map f (nth_error l k).
Proof. revert k; induction l as [|a l IH]; intros [|k]; cbn; auto. Qed.

Lemma replace_nth_app {A} (pre : list A) x y post k :
  length pre = k -> replace_nth k y (pre ++ x :: post) = pre ++ y :: post.
Proof. intros <-. induction pre; cbn; [reflexivity|]. now rewrite IHpre. Qed.
Lemma insert_nth_app {A} (pre : list A) y post k :
  length pre = k -> insert_nth k y (pre ++ post) = pre ++ y :: post.
Proof. intros <-. induction pre; cbn; [destruct post; reflexivity|]. now rewrite IHpre. Qed.
Lemma remove_nth_app {A} (pre : list A) x post k :
  length pre = k -> remove_nth k (pre ++ x :: post) = pre ++ post.
Proof. intros <-. induction pre; cbn; [reflexivity|]. now rewrite IHpre. Qed.

Lemma replace_nth_app2 {A} (pre : list A) a x y post k :
  length pre = k -> replace_nth (S k) y (pre ++ a :: x :: post) = pre ++ a :: y :: post.
Proof.
  intros H. change (pre ++ a :: x :: post) with (pre ++ [a] ++ x :: post).
  rewrite app_assoc, replace_nth_app, <- app_assoc; [reflexivity|]. rewrite app_length; cbn; lia.
Qed.
Lemma insert_nth_app2 {A} (pre : list A) a y post k :
  length pre = k -> insert_nth (S k) y (pre ++ a :: post) = pre ++ a :: y :: post.
Proof.
  intros H. change (pre ++ a :: post) with (pre ++ [a] ++ post).
  rewrite app_assoc, insert_nth_app, <- app_assoc; [reflexivity|]. rewrite app_length; cbn; lia.
Qed.
Lemma remove_nth_app2 {A} (pre : list A) a x post k :
  length pre = k -> remove_nth (S k) (pre ++ a :: x :: post) = pre ++ a :: post.
Proof.
  intros H. change (pre ++ a :: x :: post) with (pre ++ [a] ++ x :: post).
  rewrite app_assoc, remove_nth_app, <- app_assoc; [reflexivity|]. rewrite app_length; cbn; lia.
Qed.

Lemma nth_N_split {A} (l : list A) i x :
  nth_N l i = Some x -> exists pre post, l = pre ++ x :: post /\ length pre = N.to_nat i.
Proof.
  unfold nth_N. destruct (N.of_nat (length l) <=? i); [discriminate|].
  intros H. apply nth_error_split in H. exact H.
Qed.

Lemma length_replace_nth {A} k (x : A) l : length (replace_nth k x l) = length l.
Proof. revert k; induction l as [|a l IH]; intros [|k]; cbn; auto. Qed.
Lemma length_insert_nth {A} k (x : A) l : length (insert_nth k x l) = S (length l).
Proof. revert l; induction k as [|k IH]; intros [|a l]; cbn; auto. Qed.
Lemma length_remove_nth {A} k (l : list A) : (k < length l)%nat -> length (remove_nth k l) = pred (length l).
Proof.
  revert k; induction l as [|a l IH]; intros [|k]; cbn; auto; try lia.
  intros H. rewrite IH by lia. destruct l; cbn in *; lia.
Qed.

(** * 3. Identifiers *)

Definition nid (n : anode) : N := h_id (hdr_of n).
Definition ext1 (e : elem) : list N := if e_ext e =? 0 then [] else [e_ext e].

Lemma ext_ids_cons e r : ext_ids (e :: r) = ext1 e ++ ext_ids r.
Proof. unfold ext1. cbn [ext_ids]. destruct (e_ext e =? 0); reflexivity. Qed.
Lemma ext_ids_app l1 l2 : ext_ids (l1 ++ l2) = ext_ids l1 ++ ext_ids l2.
Proof.
  induction l1 as [|e r IH]; [reflexivity|].
  change ((e :: r) ++ l2) with (e :: (r ++ l2)). now rewrite !ext_ids_cons, IH, app_assoc.
Qed.
Lemma ext_ids_rev l : Permutation (ext_ids (rev l)) (ext_ids l).
Proof.
  induction l as [|e r IH]; [constructor|]. cbn [rev].
  rewrite ext_ids_app, !ext_ids_cons. change (ext_ids []) with (@nil N). rewrite app_nil_r.
  rewrite Permutation_app_comm. now apply Permutation_app_head.
Qed.

(* the slabs of the tree proper (data and index slabs, not the external value slabs) *)
Fixpoint tree_ids (n : anode) : list N :=
  match n with
  | AD h _ _ => [h_id h]
  | AM h _ _ cs => h_id h :: flat_map tree_ids cs
  end.

Definition removed (lg : wlog) : list N :=
  flat_map (fun w => match w with WRemove i => [i] | WStore _ => [] end) lg.
Definition stored (lg : wlog) : list N :=
  flat_map (fun w => match w with WStore i => [i] | WRemove _ => [] end) lg.
Lemma removed_app l1 l2 : removed (l1 ++ l2) = removed l1 ++ removed l2.
Proof. apply flat_map_app. Qed.
Lemma stored_app l1 l2 : stored (l1 ++ l2) = stored l1 ++ stored l2.
Proof. apply flat_map_app. Qed.
Lemma in_removed i lg : In i (removed lg) <-> In (WRemove i) lg.
Proof.
  unfold removed. rewrite in_flat_map. split.
  - intros ([j|j] & H1 & H2); cbn in H2; [tauto|]. destruct H2 as [->|[]]. exact H1.
  - intros H. exists (WRemove i). split; [exact H|now left].
Qed.
Lemma in_stored i lg : In i (stored lg) <-> In (WStore i) lg.
Proof.
  unfold stored. rewrite in_flat_map. split.
  - intros ([j|j] & H1 & H2); cbn in H2; [|tauto]. destruct H2 as [->|[]]. exact H1.
  - intros H. exists (WStore i). split; [exact H|now left].
Qed.
Lemma removed_map_store l : removed (map WStore l) = [].
Proof. induction l; cbn; auto. Qed.
Lemma stored_map_store l : stored (map WStore l) = l.
Proof. induction l; cbn; [auto|]. f_equal. exact IHl. Qed.

(** * 4. The relational view of a mutation: one leaf update, then one local repair per level *)

(* repair of an index slab [hid] with children [cs] after one child changed: nothing / split of a
   child / rebalance of two adjacent children / merge of two adjacent children.  Headers, child
   header copies and counts of the result are left unconstrained here (they are the business of
   the size proofs); only identities, order and links matter. *)
Inductive pfix (hid : N) (nh : nat) (cs : list anode) (alloc : N) : anode -> N -> wlog -> Prop :=
| pf_plain : forall h' hs' sums',
    h_id h' = hid ->
    length hs' = nh ->
    pfix hid nh cs alloc (AM h' hs' sums' cs) alloc [WStore hid]
| pf_split : forall h' hs' sums' pre ch post l r,
    cs = pre ++ ch :: post ->
    n_split ch (alloc + 1) = Ok (l, r) ->
    h_id h' = hid ->
    length hs' = S nh ->
    pfix hid nh cs alloc (AM h' hs' sums' (pre ++ l :: r :: post)) (alloc + 1)
         [WStore (nid l); WStore (nid r); WStore hid]
| pf_rebal : forall h' hs' sums' pre l r post l' r' c (b : bool),
    cs = pre ++ l :: r :: post ->
    (if b then n_borrow_from_right c l r else n_lend_to_right c l r) = Ok (l', r') ->
    h_id h' = hid ->
    length hs' = nh ->
    pfix hid nh cs alloc (AM h' hs' sums' (pre ++ l' :: r' :: post)) alloc
         [WStore (nid l'); WStore (nid r'); WStore hid]
| pf_merge : forall h' hs' sums' pre l r post m,
    cs = pre ++ l :: r :: post ->
    n_merge l r = Ok m ->
    h_id h' = hid ->
    (nh = length cs -> length hs' = pred nh) ->
    pfix hid nh cs alloc (AM h' hs' sums' (pre ++ m :: post)) alloc
         [WStore (nid m); WStore hid; WRemove (nid r)].

(* [nstep n alloc n' alloc' lg back]: [back] = external slab indexes that left the tree with the
   returned element *)
Inductive nstep : anode -> N -> anode -> N -> wlog -> list N -> Prop :=
| ns_leaf : forall h nx es h' es' alloc k back rest,
    h_id h' = h_id h ->
    Permutation (ext_ids es) (back ++ rest) ->
    Permutation (ext_ids es') (rest ++ nseq alloc k) ->
    nstep (AD h nx es) alloc (AD h' nx es') (alloc + N.of_nat k)
          (map WStore (nseq alloc k) ++ [WStore (h_id h)]) back
| ns_node : forall h hs sums pre ch post alloc ch' alloc1 lg1 back n' alloc' lg' tl,
    nstep ch alloc ch' alloc1 lg1 back ->
    pfix (h_id h) (length hs) (pre ++ ch' :: post) alloc1 n' alloc' lg' ->
    (tl = [] \/ tl = [WStore (h_id h)]) ->
    nstep (AM h hs sums (pre ++ ch :: post)) alloc n' alloc' (lg1 ++ lg' ++ tl) back.

(** unfolding equations *)
Lemma n_set_AM c pfx h hs sums cs i e alloc :
  n_set c pfx (AM h hs sums cs) i e alloc =
    if h_count h <=? i then Err EIndexOOB
    else match route hs sums i with
         | None => Err EPanic
         | Some (k, j) =>
           match on_kth (fun ch => n_set c P ch j e alloc) cs k with
           | None => Err ESlabNotFound
           | Some (Err x) => Err x
           | Some (Ok (ch', old, alloc', lg)) =>
             let hs' := replace_nth k (hdr_of ch') hs in
             let cs' := replace_nth k ch' cs in
             if n_is_full c ch' then
               match split_child h hs' sums cs' k ch' alloc' with
               | Err x => Err x
               | Ok (n', alloc'', lg') => Ok (n', old, alloc'', lg ++ lg')
               end
             else match n_underflow c ch' with
                  | Some need =>
                    match merge_or_rebalance c h hs' sums cs' k ch' need with
                    | Err x => Err x
                    | Ok (n', lg') => Ok (n', old, alloc', lg ++ lg')
                    end
                  | None => Ok (AM h hs' sums cs', old, alloc', lg ++ [WStore (h_id h)])
                  end
           end
         end.
Proof. reflexivity. Qed.

Lemma n_insert_AM c h hs sums cs i e alloc :
  n_insert c (AM h hs sums cs) i e alloc =
    if h_count h <? i then Err EIndexOOB
    else
      let target :=
        if i =? h_count h then
          match length hs with
          | O => None
          | S k => match nth_error hs k with Some hh => Some (k, h_count hh) | None => None end
          end
        else route hs sums i in
      match target with
      | None => Err EPanic
      | Some (k, j) =>
        match on_kth (fun ch => n_insert c ch j e alloc) cs k with
        | None => Err ESlabNotFound
        | Some (Err x) => Err x
        | Some (Ok (ch', alloc', lg)) =>
          let h' := mkhdr (h_id h) (h_size h) (h_count h + 1) in
          let sums' := incr_from k sums in
          let hs' := replace_nth k (hdr_of ch') hs in
          let cs' := replace_nth k ch' cs in
          if n_is_full c ch' then
            match split_child h' hs' sums' cs' k ch' alloc' with
            | Err x => Err x
            | Ok (n', alloc'', lg') => Ok (n', alloc'', lg ++ lg')
            end
          else Ok (AM h' hs' sums' cs', alloc', lg ++ [WStore (h_id h)])
        end
      end.
Proof. reflexivity. Qed.

Lemma n_remove_AM c h hs sums cs i :
  n_remove c (AM h hs sums cs) i =
    if h_count h <=? i then Err EIndexOOB
    else match route hs sums i with
         | None => Err EPanic
         | Some (k, j) =>
           match on_kth (fun ch => n_remove c ch j) cs k with
           | None => Err ESlabNotFound
           | Some (Err x) => Err x
           | Some (Ok (ch', old, lg)) =>
             let h' := mkhdr (h_id h) (h_size h) (h_count h - 1) in
             let sums' := decr_from k sums in
             let hs' := replace_nth k (hdr_of ch') hs in
             let cs' := replace_nth k ch' cs in
             match n_underflow c ch' with
             | Some need =>
               match merge_or_rebalance c h' hs' sums' cs' k ch' need with
               | Err x => Err x
               | Ok (n', lg') => Ok (n', old, lg ++ lg' ++ [WStore (h_id h)])
               end
             | None => Ok (AM h' hs' sums' cs', old, lg ++ [WStore (h_id h)])
             end
           end
         end.
Proof. reflexivity. Qed.

(** the three repairs are [pfix] *)
Lemma split_child_pfix h hs sums pre ch post alloc n' alloc' lg :
  split_child h hs sums (pre ++ ch :: post) (length pre) ch alloc = Ok (n', alloc', lg) ->
  pfix (h_id h) (length hs) (pre ++ ch :: post) alloc n' alloc' lg.
Proof.
  unfold split_child. destruct (n_split ch (alloc + 1)) as [[l r]|] eqn:E; [|discriminate].
  rewrite (replace_nth_app pre), insert_nth_app2 by reflexivity.
  set (hs1 := insert_nth _ _ (replace_nth _ _ hs)).
  assert (Hh : length hs1 = S (length hs)) by (subst hs1; now rewrite length_insert_nth, length_replace_nth).
  clearbody hs1.
  intros H; injection H as <- <- <-.
  eapply pf_split; eauto.
Qed.

Lemma rebalance_children_pfix c h hs sums pre l r post b alloc n' lg :
  rebalance_children c h hs sums (pre ++ l :: r :: post) (length pre) l r b = Ok (n', lg) ->
  pfix (h_id h) (length hs) (pre ++ l :: r :: post) alloc n' alloc lg.
Proof.
  unfold rebalance_children.
  destruct (if b then n_borrow_from_right c l r else n_lend_to_right c l r) as [[l' r']|] eqn:E; [|discriminate].
  rewrite (replace_nth_app pre), replace_nth_app2 by reflexivity.
  set (hs1 := replace_nth _ _ (replace_nth _ _ hs)).
  assert (Hh : length hs1 = length hs) by (subst hs1; now rewrite !length_replace_nth).
  clearbody hs1.
  intros H; injection H as <- <-.
  eapply pf_rebal; eauto.
Qed.

Lemma merge_children_pfix h hs sums pre l r post alloc n' lg :
  merge_children h hs sums (pre ++ l :: r :: post) (length pre) l r = Ok (n', lg) ->
  pfix (h_id h) (length hs) (pre ++ l :: r :: post) alloc n' alloc lg.
Proof.
  unfold merge_children. destruct (n_merge l r) as [m|] eqn:E; [|discriminate].
  rewrite (replace_nth_app pre), remove_nth_app2 by reflexivity.
  set (hs1 := remove_nth _ (replace_nth _ _ hs)).
  assert (Hh : length hs = length (pre ++ l :: r :: post) -> length hs1 = pred (length hs)).
  { intros Hn. subst hs1. rewrite length_remove_nth; rewrite length_replace_nth; [reflexivity|].
    rewrite Hn, app_length. cbn. lia. }
  clearbody hs1.
  intros H; injection H as <- <-.
  eapply pf_merge; eauto.
Qed.

Lemma nth_error_last_pre {A} (pre : list A) x post k ls :
  length pre = S k -> nth_error (pre ++ x :: post) k = Some ls ->
  exists p, pre = p ++ [ls] /\ length p = k.
Proof.
  intros Hl Hn. destruct (exists_last (l:=pre)) as (p & a & ->); [destruct pre; discriminate|].
  rewrite app_length in Hl; cbn in Hl. assert (length p = k) by lia.
  exists p. split; [|auto]. rewrite <- app_assoc in Hn. rewrite nth_error_app2 in Hn by lia.
  replace (k - length p)%nat with O in Hn by lia. cbn in Hn. congruence.
Qed.

Lemma merge_or_rebalance_pfix c h hs sums pre ch post need alloc n' lg :
  merge_or_rebalance c h hs sums (pre ++ ch :: post) (length pre) ch need = Ok (n', lg) ->
  pfix (h_id h) (length hs) (pre ++ ch :: post) alloc n' alloc lg.
Proof.
  unfold merge_or_rebalance.
  assert (Hr : nth_error (pre ++ ch :: post) (S (length pre)) = nth_error post 0).
  { rewrite nth_error_app2 by lia. replace (S (length pre) - length pre)%nat with 1%nat by lia. reflexivity. }
  rewrite Hr; clear Hr.
  set (lsib := match length pre with O => None | S k' => nth_error (pre ++ ch :: post) k' end).
  assert (Hl : forall ls, lsib = Some ls -> exists p, pre = p ++ [ls] /\ length p = pred (length pre)).
  { intros ls. subst lsib. destruct (length pre) eqn:El; [discriminate|]. intros Hn.
    cbn [pred]. eapply nth_error_last_pre; eauto. }
  assert (Hrs : forall rs, nth_error post 0 = Some rs -> exists q, post = rs :: q).
  { intros rs. destruct post; cbn; [discriminate|]. intros [= ->]. eauto. }
  destruct lsib as [ls|] eqn:Els; destruct (nth_error post 0) as [rs|] eqn:Ers.
  - destruct (Hl _ eq_refl) as (p & -> & Hp). destruct (Hrs _ eq_refl) as (q & ->).
    assert (Ecs : (p ++ [ls]) ++ ch :: rs :: q = p ++ ls :: ch :: rs :: q) by now rewrite <- app_assoc.
    repeat match goal with |- context [if ?b then _ else _] => destruct b end; intros H;
      first [ eapply rebalance_children_pfix; exact H | eapply merge_children_pfix; exact H
            | rewrite <- Hp in H; rewrite Ecs in *;
              first [eapply rebalance_children_pfix; exact H | eapply merge_children_pfix; exact H] ].
  - destruct (Hl _ eq_refl) as (p & -> & Hp).
    assert (Ecs : (p ++ [ls]) ++ ch :: post = p ++ ls :: ch :: post) by now rewrite <- app_assoc.
    repeat match goal with |- context [if ?b then _ else _] => destruct b end; intros H;
      rewrite <- Hp in H; rewrite Ecs in *;
      first [eapply rebalance_children_pfix; exact H | eapply merge_children_pfix; exact H].
  - destruct (Hrs _ eq_refl) as (q & ->).
    repeat match goal with |- context [if ?b then _ else _] => destruct b end; intros H;
      first [eapply rebalance_children_pfix; exact H | eapply merge_children_pfix; exact H].
  - repeat match goal with |- context [if ?b then _ else _] => destruct b end; discriminate.
Qed.


(** * 5. Every successful node operation is an [nstep] *)

Lemma ns_leaf' h nx es h' es' alloc k back rest alloc' lg :
  h_id h' = h_id h ->
  Permutation (ext_ids es) (back ++ rest) ->
  Permutation (ext_ids es') (rest ++ nseq alloc k) ->
  alloc' = alloc + N.of_nat k ->
  lg = map WStore (nseq alloc k) ++ [WStore (h_id h)] ->
  nstep (AD h nx es) alloc (AD h' nx es') alloc' lg back.
Proof. intros H1 H2 H3 -> ->. now eapply ns_leaf; eauto. Qed.

Lemma externalise_spec e alloc e' alloc' lg :
  externalise e alloc = (e', alloc', lg) ->
  exists k, alloc' = alloc + N.of_nat k /\ lg = map WStore (nseq alloc k) /\ ext1 e' = nseq alloc k.
Proof.
  unfold externalise. destruct (e_ext e =? 0) eqn:E; intros [= <- <- <-].
  - exists 0%nat. unfold ext1. rewrite E. cbn. split; [lia|auto].
  - exists 1%nat. unfold ext1. cbn [e_ext nseq map]. replace (alloc + 1 =? 0) with false by lia.
    split; [lia|auto].
Qed.

Lemma n_set_nstep c : forall n pfx i e alloc n' old alloc' lg,
  n_set c pfx n i e alloc = Ok (n', old, alloc', lg) -> nstep n alloc n' alloc' lg (ext1 old).
Proof.
  induction n as [h nx es|h hs sums cs IH] using anode_ind'; intros pfx i e alloc n' old alloc' lg H.
  - cbn [n_set] in H. destruct (nth_N es i) as [old0|] eqn:E; [|discriminate].
    destruct (externalise e alloc) as [[e' a'] lg0] eqn:Ex.
    injection H as <- <- <- <-.
    apply nth_N_split in E as (pre & post & -> & Hl).
    apply externalise_spec in Ex as (k & -> & -> & Hk).
    rewrite replace_nth_app by exact Hl.
    eapply ns_leaf' with (k := k) (rest := ext_ids pre ++ ext_ids post); [reflexivity| | |reflexivity|reflexivity];
      rewrite !ext_ids_app, !ext_ids_cons, ?Hk; perm_solve.
  - rewrite n_set_AM in H. destruct (h_count h <=? i); [discriminate|].
    destruct (route hs sums i) as [[k j]|]; [|discriminate].
    rewrite on_kth_spec in H. destruct (nth_error cs k) as [ch|] eqn:Ek; cbn [option_map] in H; [|discriminate].
    apply nth_error_split in Ek as (pre & post & -> & Hl).
    apply Forall_elt in IH.
    destruct (n_set c P ch j e alloc) as [[[[ch' old'] alloc1] lg1]|] eqn:Es; [|discriminate].
    apply IH in Es. cbv zeta in H. rewrite (replace_nth_app pre) in H by exact Hl. subst k.
    destruct (n_is_full c ch').
    + destruct (split_child _ _ _ _ _ _ _) as [[[n1 a1] lg']|] eqn:Esp; [|discriminate].
      injection H as <- <- <- <-. apply split_child_pfix in Esp. rewrite length_replace_nth in Esp.
      rewrite <- (app_nil_r lg'). eapply ns_node; eauto.
    + destruct (n_underflow c ch') as [need|].
      * destruct (merge_or_rebalance _ _ _ _ _ _ _ _) as [[n1 lg']|] eqn:Em; [|discriminate].
        injection H as <- <- <- <-. apply (merge_or_rebalance_pfix _ _ _ _ _ _ _ _ alloc1) in Em. rewrite length_replace_nth in Em.
        rewrite <- (app_nil_r lg'). eapply ns_node; eauto.
      * injection H as <- <- <- <-.
        change [WStore (h_id h)] with ([WStore (h_id h)] ++ []).
        eapply ns_node; eauto. apply pf_plain; [reflexivity|apply length_replace_nth].
Qed.

Lemma n_insert_nstep c : forall n i e alloc n' alloc' lg,
  n_insert c n i e alloc = Ok (n', alloc', lg) -> nstep n alloc n' alloc' lg [].
Proof.
  induction n as [h nx es|h hs sums cs IH] using anode_ind'; intros i e alloc n' alloc' lg H.
  - cbn [n_insert] in H. destruct (N.of_nat (length es) <? i) eqn:E; [discriminate|].
    destruct (externalise e alloc) as [[e' a'] lg0] eqn:Ex.
    injection H as <- <- <-.
    apply externalise_spec in Ex as (k & -> & -> & Hk).
    rewrite <- (firstn_skipn (N.to_nat i) es) at 2.
    rewrite insert_nth_app by (rewrite firstn_length; lia).
    eapply ns_leaf' with (k := k) (rest := ext_ids es); [reflexivity|reflexivity| |reflexivity|reflexivity].
    rewrite <- (firstn_skipn (N.to_nat i) es) at 3.
    rewrite !ext_ids_app, !ext_ids_cons, Hk. perm_solve.
  - rewrite n_insert_AM in H. destruct (h_count h <? i); [discriminate|]. cbv zeta in H.
    match type of H with match ?t with _ => _ end = _ => destruct t as [[k j]|] end; [|discriminate].
    rewrite on_kth_spec in H. destruct (nth_error cs k) as [ch|] eqn:Ek; cbn [option_map] in H; [|discriminate].
    apply nth_error_split in Ek as (pre & post & -> & Hl).
    apply Forall_elt in IH.
    destruct (n_insert c ch j e alloc) as [[[ch' alloc1] lg1]|] eqn:Es; [|discriminate].
    apply IH in Es. rewrite (replace_nth_app pre) in H by exact Hl. subst k.
    destruct (n_is_full c ch').
    + destruct (split_child _ _ _ _ _ _ _) as [[[n1 a1] lg']|] eqn:Esp; [|discriminate].
      injection H as <- <- <-. apply split_child_pfix in Esp. cbn [h_id] in Esp. rewrite length_replace_nth in Esp.
      rewrite <- (app_nil_r lg'). eapply ns_node; eauto.
    + injection H as <- <- <-.
      change [WStore (h_id h)] with ([WStore (h_id h)] ++ []).
      eapply ns_node; eauto. apply pf_plain; [reflexivity|apply length_replace_nth].
Qed.

Lemma n_remove_nstep c : forall n i n' old lg alloc,
  n_remove c n i = Ok (n', old, lg) -> nstep n alloc n' alloc lg (ext1 old).
Proof.
  induction n as [h nx es|h hs sums cs IH] using anode_ind'; intros i n' old lg alloc H.
  - cbn [n_remove] in H. destruct (nth_N es i) as [old0|] eqn:E; [|discriminate].
    injection H as <- <- <-.
    apply nth_N_split in E as (pre & post & -> & Hl).
    rewrite remove_nth_app by exact Hl.
    eapply ns_leaf' with (k := 0%nat) (rest := ext_ids pre ++ ext_ids post); [reflexivity| | |lia|reflexivity];
      rewrite !ext_ids_app, ?ext_ids_cons; perm_solve.
  - rewrite n_remove_AM in H. destruct (h_count h <=? i); [discriminate|].
    destruct (route hs sums i) as [[k j]|]; [|discriminate].
    rewrite on_kth_spec in H. destruct (nth_error cs k) as [ch|] eqn:Ek; cbn [option_map] in H; [|discriminate].
    apply nth_error_split in Ek as (pre & post & -> & Hl).
    apply Forall_elt in IH.
    destruct (n_remove c ch j) as [[[ch' old'] lg1]|] eqn:Es; [|discriminate].
    apply (IH _ _ _ _ alloc) in Es. cbv zeta in H. rewrite (replace_nth_app pre) in H by exact Hl. subst k.
    destruct (n_underflow c ch') as [need|].
    + destruct (merge_or_rebalance _ _ _ _ _ _ _ _) as [[n1 lg']|] eqn:Em; [|discriminate].
      injection H as <- <- <-. apply (merge_or_rebalance_pfix _ _ _ _ _ _ _ _ alloc) in Em. cbn [h_id] in Em. rewrite length_replace_nth in Em.
      eapply ns_node; eauto.
    + injection H as <- <- <-.
      change [WStore (h_id h)] with ([WStore (h_id h)] ++ []).
      eapply ns_node; eauto. apply pf_plain; [reflexivity|apply length_replace_nth].
Qed.


(** * 6. Structural notions: shape, sibling chain, lookup by slab index *)

(* every index slab has as many child headers as children, and at least one child *)
Fixpoint shape (n : anode) : Prop :=
  match n with
  | AD _ _ _ => True
  | AM _ hs _ cs =>
    length hs = length cs /\ cs <> [] /\
    (fix go (l : list anode) : Prop := match l with [] => True | c :: r => shape c /\ go r end) cs
  end.

Lemma shape_AM h hs sums cs :
  shape (AM h hs sums cs) <-> length hs = length cs /\ cs <> [] /\ Forall shape cs.
Proof.
  cbn [shape].
  assert (E : forall l, (fix go (l : list anode) : Prop := match l with [] => True | c :: r => shape c /\ go r end) l <-> Forall shape l).
  { induction l as [|c r IH]; [split; auto|]. rewrite IH. split.
    - intros [? ?]; constructor; auto.
    - intros H; inversion H; auto. }
  rewrite E. tauto.
Qed.

Fixpoint chain_list (l : list anode) (nxt : N) : Prop :=
  match l with
  | [] => True
  | c :: r => match r with [] => chain c nxt | c2 :: _ => chain c (first_leaf_id c2) /\ chain_list r nxt end
  end.
Definition fl (l : list anode) (nxt : N) : N :=
  match l with [] => nxt | c :: _ => first_leaf_id c end.

Lemma chain_AM h hs sums cs nxt : chain (AM h hs sums cs) nxt = chain_list cs nxt.
Proof.
  cbn [chain]. induction cs as [|c r IH]; [reflexivity|].
  cbn [chain_list]. destruct r as [|c2 r']; [reflexivity|]. rewrite <- IH. reflexivity.
Qed.
Lemma first_AM h hs sums cs : first_leaf_id (AM h hs sums cs) = fl cs 0.
Proof. destruct cs; reflexivity. Qed.
Lemma chain_list_cons c r nxt : chain_list (c :: r) nxt <-> chain c (fl r nxt) /\ chain_list r nxt.
Proof. cbn [chain_list]. destruct r; cbn [fl chain_list]; tauto. Qed.
Lemma chain_list_app pre post nxt :
  chain_list (pre ++ post) nxt <-> chain_list pre (fl post nxt) /\ chain_list post nxt.
Proof.
  induction pre as [|c r IH]; [cbn; tauto|].
  change ((c :: r) ++ post) with (c :: (r ++ post)). rewrite !chain_list_cons, IH.
  destruct r; cbn [app fl]; tauto.
Qed.
Lemma fl_app pre post nxt : fl (pre ++ post) nxt = fl pre (fl post nxt).
Proof. destruct pre; reflexivity. Qed.
Lemma fl_ne l x y : l <> [] -> fl l x = fl l y.
Proof. destruct l; [congruence|reflexivity]. Qed.

(* the slab's own content *)
Inductive shallow : Type :=
| SD (h : hdr) (next : N) (es : list elem)
| SM (h : hdr) (hs : list hdr) (sums : list N).

Fixpoint node_at (n : anode) (id : N) : option shallow :=
  match n with
  | AD h nx es => if h_id h =? id then Some (SD h nx es) else None
  | AM h hs sums cs =>
    if h_id h =? id then Some (SM h hs sums)
    else (fix go (l : list anode) : option shallow :=
            match l with
            | [] => None
            | c :: r => match node_at c id with Some s => Some s | None => go r end
            end) cs
  end.
Fixpoint nodes_at (l : list anode) (id : N) : option shallow :=
  match l with
  | [] => None
  | c :: r => match node_at c id with Some s => Some s | None => nodes_at r id end
  end.
Lemma node_at_AM h hs sums cs id :
  node_at (AM h hs sums cs) id = if h_id h =? id then Some (SM h hs sums) else nodes_at cs id.
Proof.
  cbn [node_at]. destruct (h_id h =? id); [reflexivity|].
  induction cs as [|c r IH]; [reflexivity|]. cbn [nodes_at]. rewrite IH. reflexivity.
Qed.
Lemma nodes_at_app l1 l2 id :
  nodes_at (l1 ++ l2) id = match nodes_at l1 id with Some s => Some s | None => nodes_at l2 id end.
Proof.
  induction l1 as [|c r IH]; [reflexivity|]. cbn [app nodes_at]. rewrite IH.
  destruct (node_at c id); reflexivity.
Qed.
Lemma node_at_other n id : id <> nid n ->
  node_at n id = match n with AD _ _ _ => None | AM _ _ _ cs => nodes_at cs id end.
Proof.
  destruct n as [h nx es|h hs sums cs]; unfold nid; cbn [hdr_of]; intros H.
  - cbn [node_at]. replace (h_id h =? id) with false by lia. reflexivity.
  - rewrite node_at_AM. replace (h_id h =? id) with false by lia. reflexivity.
Qed.

Lemma slab_ids_AM h hs sums cs : slab_ids (AM h hs sums cs) = h_id h :: flat_map slab_ids cs.
Proof. reflexivity. Qed.
Lemma tree_ids_AM h hs sums cs : tree_ids (AM h hs sums cs) = h_id h :: flat_map tree_ids cs.
Proof. reflexivity. Qed.

(** * 7. The primitive regroupings, with the byte sizes abstracted away *)

Lemma n_split_inv n newid l r :
  n_split n newid = Ok (l, r) ->
  (exists h nx es lc hl hr, n = AD h nx es /\ l = AD hl newid (firstn lc es) /\ r = AD hr nx (skipn lc es)
      /\ h_id hl = h_id h /\ h_id hr = newid) \/
  (exists h hs sums cs lc hl hr sl sr, n = AM h hs sums cs /\
      l = AM hl (firstn lc hs) sl (firstn lc cs) /\ r = AM hr (skipn lc hs) sr (skipn lc cs)
      /\ h_id hl = h_id h /\ h_id hr = newid /\ (1 <= lc)%nat /\ (lc < length hs)%nat).
Proof.
  destruct n as [h nx es|h hs sums cs]; cbn [n_split].
  - destruct (Nat.ltb (length es) 2); [discriminate|].
    destruct (split_point _ _ _ _ _) as [lc ls]. intros [= <- <-].
    left. do 6 eexists. split; [reflexivity|]. split; [reflexivity|]. split; [reflexivity|]. split; reflexivity.
  - destruct (Nat.ltb (length hs) 2) eqn:E; [discriminate|].
    set (lc := Nat.div2 (S (length hs))).
    assert (Hlc : (1 <= lc)%nat /\ (lc < length hs)%nat).
    { subst lc. apply Nat.ltb_ge in E. rewrite Nat.div2_div.
      split; [apply Nat.div_le_lower_bound; lia | apply Nat.div_lt_upper_bound; lia]. }
    clearbody lc. intros [= <- <-].
    right. do 9 eexists. split; [reflexivity|]. split; [reflexivity|]. split; [reflexivity|].
    split; [reflexivity|]. split; [reflexivity|]. exact Hlc.
Qed.

Lemma n_merge_inv l r m :
  n_merge l r = Ok m ->
  (exists h nx es h2 nx2 es2 hm, l = AD h nx es /\ r = AD h2 nx2 es2 /\ m = AD hm nx2 (es ++ es2)
      /\ h_id hm = h_id h) \/
  (exists h hs sums cs h2 hs2 sums2 cs2 hm sm, l = AM h hs sums cs /\ r = AM h2 hs2 sums2 cs2 /\
      m = AM hm (hs ++ hs2) sm (cs ++ cs2) /\ h_id hm = h_id h).
Proof.
  destruct l as [h nx es|h hs sums cs]; destruct r as [h2 nx2 es2|h2 hs2 sums2 cs2]; cbn [n_merge];
    try discriminate; intros [= <-].
  - left. do 7 eexists. repeat (split; [reflexivity|]). reflexivity.
  - right. do 10 eexists. repeat (split; [reflexivity|]). reflexivity.
Qed.

Lemma div2_facts a b : (1 <= a)%nat -> (1 <= b)%nat ->
  (1 <= Nat.div2 (a + b))%nat /\ (Nat.div2 (a + b) - a < b)%nat /\ (Nat.div2 (a + b) < a + b)%nat.
Proof.
  intros Ha Hb. rewrite Nat.div2_div.
  assert (H1 : (1 <= (a + b) / 2)%nat) by (apply Nat.div_le_lower_bound; lia).
  assert (H2 : ((a + b) / 2 < a + b)%nat) by (apply Nat.div_lt_upper_bound; lia).
  lia.
Qed.

Lemma pair_inv c (b : bool) l r l' r' :
  (if b then n_borrow_from_right c l r else n_lend_to_right c l r) = Ok (l', r') ->
  (exists h nx es h2 nx2 es2 hl hr esl esr,
      l = AD h nx es /\ r = AD h2 nx2 es2 /\ l' = AD hl nx esl /\ r' = AD hr nx2 esr /\
      esl ++ esr = es ++ es2 /\ h_id hl = h_id h /\ h_id hr = h_id h2) \/
  (exists h hs sums cs h2 hs2 sums2 cs2 hl hsl sl csl hr hsr sr csr,
      l = AM h hs sums cs /\ r = AM h2 hs2 sums2 cs2 /\
      l' = AM hl hsl sl csl /\ r' = AM hr hsr sr csr /\
      csl ++ csr = cs ++ cs2 /\ h_id hl = h_id h /\ h_id hr = h_id h2 /\
      (length hs = length cs -> length hs2 = length cs2 -> cs <> [] -> cs2 <> [] ->
       length hsl = length csl /\ length hsr = length csr /\ csl <> [] /\ csr <> [])).
Proof.
  destruct l as [h nx es|h hs sums cs]; destruct r as [h2 nx2 es2|h2 hs2 sums2 cs2]; destruct b;
    cbn [n_borrow_from_right n_lend_to_right]; try discriminate.
  - destruct (borrow_loop _ _ _ _ _ _) as [lc ls]. intros [= <- <-].
    left. do 10 eexists. repeat (split; [reflexivity|]). split; [|split; reflexivity].
    now rewrite <- app_assoc, firstn_skipn.
  - destruct (lend_loop _ _ _ _ _ _) as [lc ls]. intros [= <- <-].
    left. do 10 eexists. repeat (split; [reflexivity|]). split; [|split; reflexivity].
    now rewrite app_assoc, firstn_skipn.
  - intros [= <- <-]. right. do 16 eexists. repeat (split; [reflexivity|]).
    split; [now rewrite <- app_assoc, firstn_skipn|]. split; [reflexivity|]. split; [reflexivity|].
    intros E1 E2 N1 N2.
    assert (L1 : (1 <= length cs)%nat) by (destruct cs; cbn; [congruence|lia]).
    assert (L2 : (1 <= length cs2)%nat) by (destruct cs2; cbn; [congruence|lia]).
    rewrite E1, E2. destruct (div2_facts (length cs) (length cs2) L1 L2) as (D1 & D2 & D3).
    set (mv := (Nat.div2 (length cs + length cs2) - length cs)%nat) in *.
    split; [rewrite !app_length, !firstn_length; lia|].
    split; [rewrite !skipn_length; lia|].
    split; [destruct cs; cbn; congruence|].
    intros E. apply (f_equal (@length _)) in E. rewrite skipn_length in E. cbn in E. lia.
  - intros [= <- <-]. right. do 16 eexists. repeat (split; [reflexivity|]).
    split; [now rewrite app_assoc, firstn_skipn|]. split; [reflexivity|]. split; [reflexivity|].
    intros E1 E2 N1 N2.
    assert (L1 : (1 <= length cs)%nat) by (destruct cs; cbn; [congruence|lia]).
    assert (L2 : (1 <= length cs2)%nat) by (destruct cs2; cbn; [congruence|lia]).
    rewrite E1, E2. destruct (div2_facts (length cs) (length cs2) L1 L2) as (D1 & D2 & D3).
    set (lc := Nat.div2 (length cs + length cs2)) in *.
    split; [rewrite !firstn_length; lia|].
    split; [rewrite !app_length, !skipn_length; lia|].
    split; [|destruct cs2; [congruence|]; destruct (skipn lc cs); cbn; congruence].
    intros E. apply (f_equal (@length _)) in E. rewrite firstn_length in E. cbn in E. lia.
Qed.


(** * 8. What a regrouping of adjacent siblings preserves *)

(* a segment [seg] of adjacent children is replaced by [seg']; [fresh] = new slab indexes used,
   [rem] = slabs released, [st] = slabs stored (other than the parent) *)
Record seg_ok (seg seg' : list anode) (fresh rem st : list N) : Prop := {
  so_ids : Permutation (flat_map slab_ids seg' ++ rem) (flat_map slab_ids seg ++ fresh);
  so_ne : seg <> [] -> seg' <> [];
  so_shape : Forall shape seg ->
             Forall shape seg' /\ (forall x, fl seg' x = fl seg x) /\
             (forall nxt, chain_list seg nxt -> chain_list seg' nxt);
  so_frame : forall id, ~ In id st -> ~ In id rem -> nodes_at seg' id = nodes_at seg id;
  so_st : forall id, In id st -> In id (flat_map tree_ids seg');
  so_fresh : forall id, In id fresh -> In id st;
  so_len : (length seg' + length rem = length seg + length fresh)%nat
}.

Lemma nid_in_tree_ids n : In (nid n) (tree_ids n).
Proof. destruct n; cbn; auto. Qed.

Lemma chain2_AM h hs s cs h2 hs2 s2 cs2 nxt : cs2 <> [] ->
  (chain (AM h hs s cs) (first_leaf_id (AM h2 hs2 s2 cs2)) /\ chain (AM h2 hs2 s2 cs2) nxt
   <-> chain_list (cs ++ cs2) nxt).
Proof.
  intros H. rewrite !chain_AM, first_AM, chain_list_app, (fl_ne cs2 0 nxt H). tauto.
Qed.
Lemma nodes2_AM h hs s cs h2 hs2 s2 cs2 id : id <> h_id h -> id <> h_id h2 ->
  nodes_at [AM h hs s cs; AM h2 hs2 s2 cs2] id = nodes_at (cs ++ cs2) id.
Proof.
  intros H1 H2. cbn [nodes_at]. rewrite !node_at_AM, nodes_at_app.
  replace (h_id h =? id) with false by lia. replace (h_id h2 =? id) with false by lia.
  destruct (nodes_at cs id); [reflexivity|]. destruct (nodes_at cs2 id); reflexivity.
Qed.
Lemma nodes1 n id : nodes_at [n] id = node_at n id.
Proof. cbn. destruct (node_at n id); reflexivity. Qed.

Lemma firstn_ne {A} k (l : list A) : (1 <= k)%nat -> l <> [] -> firstn k l <> [].
Proof. destruct k; [lia|]. destruct l; cbn; congruence. Qed.
Lemma skipn_ne {A} k (l : list A) : (k < length l)%nat -> skipn k l <> [].
Proof. intros H E. apply (f_equal (@length _)) in E. rewrite skipn_length in E. cbn in E. lia. Qed.

Lemma split_seg ch newid l r :
  n_split ch newid = Ok (l, r) -> seg_ok [ch] [l; r] [newid] [] [nid l; nid r].
Proof.
  intros H. apply n_split_inv in H as
    [(h & nx & es & lc & hl & hr & -> & -> & -> & E1 & E2)
    |(h & hs & sums & cs & lc & hl & hr & sl & sr & -> & -> & -> & E1 & E2 & L1 & L2)].
  - split.
    + cbn [flat_map slab_ids app]. rewrite !app_nil_r, E1, E2.
      assert (E : ext_ids es = ext_ids (firstn lc es) ++ ext_ids (skipn lc es))
        by now rewrite <- ext_ids_app, firstn_skipn.
      rewrite E. perm_solve.
    + congruence.
    + intros _. split; [repeat constructor|]. split; [intros x; cbn; congruence|].
      intros nxt. cbn. intros ->. auto.
    + intros id Hn _. unfold nid in Hn; cbn [In hdr_of] in Hn. cbn [nodes_at node_at].
      replace (h_id hl =? id) with false by lia. replace (h_id hr =? id) with false by lia.
      replace (h_id h =? id) with false by lia. reflexivity.
    + intros id [<-|[<-|[]]]; cbn; auto.
    + intros id [<-|[]]. cbn. auto.
    + reflexivity.
  - assert (Ecs : firstn lc cs ++ skipn lc cs = cs) by apply firstn_skipn.
    split.
    + cbn [flat_map app]. rewrite !slab_ids_AM, !app_nil_r, E1, E2.
      rewrite <- Ecs at 3. rewrite flat_map_app. perm_solve.
    + congruence.
    + intros Hs. apply Forall_inv in Hs. apply shape_AM in Hs as (Hl & Hne & Hf).
      assert (N1 : firstn lc cs <> []) by (apply firstn_ne; auto).
      assert (N2 : skipn lc cs <> []) by (apply skipn_ne; lia).
      rewrite <- Ecs in Hf. apply Forall_app in Hf as [Hf1 Hf2].
      split.
      * constructor; [|constructor; [|constructor]]; apply shape_AM; (split; [|split]); auto.
        -- rewrite !firstn_length. lia.
        -- rewrite !skipn_length. lia.
      * split.
        -- intros x. cbn [fl]. rewrite !first_AM. rewrite <- Ecs at 2. rewrite fl_app. now apply fl_ne.
        -- intros nxt. cbn [chain_list]. intros Hc. apply chain2_AM; [exact N2|].
           rewrite chain_AM in Hc. now rewrite Ecs.
    + intros id Hn _. unfold nid in Hn; cbn [In hdr_of] in Hn. rewrite nodes2_AM by lia.
      rewrite Ecs, nodes1, node_at_AM. replace (h_id h =? id) with false by lia. reflexivity.
    + intros id [<-|[<-|[]]]; cbn; auto. right. apply in_or_app. right. now left.
    + intros id [<-|[]]. cbn. auto.
    + reflexivity.
Qed.

Lemma merge_seg l r m :
  n_merge l r = Ok m -> seg_ok [l; r] [m] [] [nid r] [nid m].
Proof.
  intros H. apply n_merge_inv in H as
    [(h & nx & es & h2 & nx2 & es2 & hm & -> & -> & -> & E1)
    |(h & hs & sums & cs & h2 & hs2 & sums2 & cs2 & hm & sm & -> & -> & -> & E1)].
  - split.
    + unfold nid; cbn [flat_map slab_ids app hdr_of]. rewrite !app_nil_r, E1, ext_ids_app. perm_solve.
    + congruence.
    + intros _. split; [repeat constructor|]. split; [intros x; cbn; congruence|].
      intros nxt. cbn. tauto.
    + intros id Hn Hr. unfold nid in Hn, Hr; cbn [In hdr_of] in Hn, Hr. cbn [nodes_at node_at].
      replace (h_id hm =? id) with false by lia. replace (h_id h2 =? id) with false by lia.
      replace (h_id h =? id) with false by lia. reflexivity.
    + intros id [<-|[]]; cbn; auto.
    + intros id [].
    + reflexivity.
  - split.
    + unfold nid; cbn [flat_map app hdr_of]. rewrite !slab_ids_AM, !app_nil_r, E1, flat_map_app. perm_solve.
    + congruence.
    + intros Hs. pose proof (Forall_inv Hs) as S1. pose proof (Forall_inv (Forall_inv_tail Hs)) as S2.
      apply shape_AM in S1 as (Hl1 & Hne1 & Hf1). apply shape_AM in S2 as (Hl2 & Hne2 & Hf2).
      split.
      * constructor; [|constructor]. apply shape_AM. split; [rewrite !app_length; lia|].
        split; [destruct cs; cbn; congruence|]. apply Forall_app; auto.
      * split.
        -- intros x. cbn [fl]. rewrite !first_AM, fl_app. now apply fl_ne.
        -- intros nxt. cbn [chain_list]. intros Hc. apply chain2_AM in Hc; [|exact Hne2].
           now rewrite chain_AM.
    + intros id Hn Hr. unfold nid in Hn, Hr; cbn [In hdr_of] in Hn, Hr. rewrite nodes2_AM by lia.
      rewrite nodes1, node_at_AM. replace (h_id hm =? id) with false by lia. reflexivity.
    + intros id [<-|[]]; cbn; auto.
    + intros id [].
    + reflexivity.
Qed.

Lemma pair_seg c (b : bool) l r l' r' :
  (if b then n_borrow_from_right c l r else n_lend_to_right c l r) = Ok (l', r') ->
  seg_ok [l; r] [l'; r'] [] [] [nid l'; nid r'].
Proof.
  intros H. apply pair_inv in H as
    [(h & nx & es & h2 & nx2 & es2 & hl & hr & esl & esr & -> & -> & -> & -> & Ee & E1 & E2)
    |(h & hs & sums & cs & h2 & hs2 & sums2 & cs2 & hl & hsl & sl & csl & hr & hsr & sr & csr &
      -> & -> & -> & -> & Ee & E1 & E2 & Hsh)].
  - split.
    + cbn [flat_map slab_ids app]. rewrite !app_nil_r, E1, E2.
      assert (E : Permutation (ext_ids esl ++ ext_ids esr) (ext_ids es ++ ext_ids es2))
        by now rewrite <- !ext_ids_app, Ee.
      perm_solve.
    + congruence.
    + intros _. split; [repeat constructor|]. split; [intros x; cbn; congruence|].
      intros nxt. cbn. rewrite E2. tauto.
    + intros id Hn _. unfold nid in Hn; cbn [In hdr_of] in Hn. cbn [nodes_at node_at].
      replace (h_id hl =? id) with false by lia. replace (h_id hr =? id) with false by lia.
      replace (h_id h =? id) with false by lia. replace (h_id h2 =? id) with false by lia. reflexivity.
    + intros id [<-|[<-|[]]]; cbn; auto.
    + intros id [].
    + reflexivity.
  - split.
    + cbn [flat_map app]. rewrite !slab_ids_AM, !app_nil_r, E1, E2.
      assert (E : Permutation (flat_map slab_ids csl ++ flat_map slab_ids csr)
                              (flat_map slab_ids cs ++ flat_map slab_ids cs2))
        by now rewrite <- !flat_map_app, Ee.
      perm_solve.
    + congruence.
    + intros Hs. pose proof (Forall_inv Hs) as S1. pose proof (Forall_inv (Forall_inv_tail Hs)) as S2.
      apply shape_AM in S1 as (Hl1 & Hne1 & Hf1). apply shape_AM in S2 as (Hl2 & Hne2 & Hf2).
      destruct (Hsh Hl1 Hl2 Hne1 Hne2) as (L1 & L2 & N1 & N2).
      assert (Hf : Forall shape (csl ++ csr)) by (rewrite Ee; apply Forall_app; auto).
      apply Forall_app in Hf as [Hfl Hfr].
      split.
      * constructor; [|constructor; [|constructor]]; apply shape_AM; auto.
      * split.
        -- intros x. cbn [fl]. rewrite !first_AM.
           rewrite (fl_ne csl 0 (fl csr 0) N1), (fl_ne cs 0 (fl cs2 0) Hne1), <- !fl_app. now rewrite Ee.
        -- intros nxt. cbn [chain_list]. intros Hc. apply chain2_AM in Hc; [|exact Hne2].
           apply chain2_AM; [exact N2|]. now rewrite Ee.
    + intros id Hn _. unfold nid in Hn; cbn [In hdr_of] in Hn. rewrite !nodes2_AM by lia. now rewrite Ee.
    + intros id [<-|[<-|[]]]; cbn; auto. right. apply in_or_app. right. now left.
    + intros id [].
    + reflexivity.
Qed.

Lemma nil_seg : seg_ok [] [] [] [] [].
Proof.
  split; auto; try (intros id []); try (intros _; split; [constructor|]; split; auto).
Qed.

(** * 9. The repair of an index slab as a segment replacement *)

Lemma pfix_seg hid nh cs alloc n' alloc' lg :
  pfix hid nh cs alloc n' alloc' lg ->
  exists h' hs' sums' pre seg seg' post k rem st,
    cs = pre ++ seg ++ post /\ n' = AM h' hs' sums' (pre ++ seg' ++ post) /\ h_id h' = hid /\
    (nh = length cs -> length hs' = length (pre ++ seg' ++ post)) /\
    alloc' = alloc + N.of_nat k /\
    seg_ok seg seg' (nseq alloc k) rem st /\
    removed lg = rem /\ (forall id, In id (stored lg) <-> id = hid \/ In id st).
Proof.
  intros H. destruct H as
    [h' hs' sums' E1 E2
    |h' hs' sums' pre ch post l r Ecs Es E1 E2
    |h' hs' sums' pre l r post l' r' c b Ecs Ep E1 E2
    |h' hs' sums' pre l r post m Ecs Em E1 E2].
  - exists h', hs', sums', [], [], [], cs, 0%nat, [], [].
    cbn [app nseq]. repeat (split; [first [reflexivity | assumption | lia | apply nil_seg | congruence]|]).
    intros id. cbn. intuition.
  - exists h', hs', sums', pre, [ch], [l; r], post, 1%nat, [], [nid l; nid r].
    split; [exact Ecs|]. split; [reflexivity|]. split; [exact E1|].
    split; [intros ->; subst cs; rewrite E2, !app_length; cbn; lia|].
    split; [lia|]. split; [apply split_seg; exact Es|]. split; [reflexivity|].
    intros id. cbn. intuition.
  - exists h', hs', sums', pre, [l; r], [l'; r'], post, 0%nat, [], [nid l'; nid r'].
    split; [exact Ecs|]. split; [reflexivity|]. split; [exact E1|].
    split; [intros ->; subst cs; rewrite E2, !app_length; cbn; lia|].
    split; [lia|]. split; [eapply pair_seg; exact Ep|]. split; [reflexivity|].
    intros id. cbn. intuition.
  - exists h', hs', sums', pre, [l; r], [m], post, 0%nat, [nid r], [nid m].
    split; [exact Ecs|]. split; [reflexivity|]. split; [exact E1|].
    split; [intros ->; rewrite E2 by reflexivity; subst cs; rewrite !app_length; cbn; lia|].
    split; [lia|]. split; [apply merge_seg; exact Em|]. split; [reflexivity|].
    intros id. cbn. intuition.
Qed.


(** * 10. Logs: no store after a remove; the last event on an id *)

Fixpoint sar_free (lg : wlog) : Prop :=
  match lg with
  | [] => True
  | WStore _ :: r => sar_free r
  | WRemove i :: r => ~ In i (stored r) /\ sar_free r
  end.

Lemma sar_free_app l1 l2 :
  sar_free (l1 ++ l2) <->
  sar_free l1 /\ sar_free l2 /\ (forall i, In i (removed l1) -> ~ In i (stored l2)).
Proof.
  induction l1 as [|[i|i] r IH]; cbn [app sar_free].
  - cbn. intuition.
  - rewrite IH. change (removed (WStore i :: r)) with (removed r). tauto.
  - rewrite IH, stored_app, in_app_iff. change (removed (WRemove i :: r)) with (i :: removed r).
    cbn [In]. split.
    + intros (Hn & H1 & H2 & H3). repeat split; auto. intros j [<-|Hj]; auto.
    + intros ((Hn & H1) & H2 & H3). repeat split; auto. intros [?|?]; [auto|]. apply (H3 i); auto.
Qed.

Lemma sar_no_removes lg : removed lg = [] -> sar_free lg.
Proof. induction lg as [|[i|i] r IH]; cbn; [auto|auto|discriminate]. Qed.

Inductive ev : Type := EvStore | EvRemove.
Fixpoint last_ev (lg : wlog) (id : N) : option ev :=
  match lg with
  | [] => None
  | w :: r =>
    match last_ev r id with
    | Some e => Some e
    | None => match w with
              | WStore i => if i =? id then Some EvStore else None
              | WRemove i => if i =? id then Some EvRemove else None
              end
    end
  end.

Lemma last_ev_none lg id : last_ev lg id = None <-> ~ In id (stored lg) /\ ~ In id (removed lg).
Proof.
  induction lg as [|[i|i] r IH]; cbn [last_ev].
  - cbn. tauto.
  - change (stored (WStore i :: r)) with (i :: stored r). change (removed (WStore i :: r)) with (removed r).
    cbn [In]. destruct (last_ev r id).
    + split; [discriminate|]. intros [H1 H2]. exfalso. assert (Some e = None) by (apply IH; tauto). discriminate.
    + destruct (N.eqb_spec i id); [split; [discriminate|tauto]|]. split; [|auto]. intros _.
      destruct IH as [IH _]. specialize (IH eq_refl). tauto.
  - change (stored (WRemove i :: r)) with (stored r). change (removed (WRemove i :: r)) with (i :: removed r).
    cbn [In]. destruct (last_ev r id).
    + split; [discriminate|]. intros [H1 H2]. exfalso. assert (Some e = None) by (apply IH; tauto). discriminate.
    + destruct (N.eqb_spec i id); [split; [discriminate|tauto]|]. split; [|auto]. intros _.
      destruct IH as [IH _]. specialize (IH eq_refl). tauto.
Qed.

Lemma last_ev_remove lg id : last_ev lg id = Some EvRemove -> In id (removed lg).
Proof.
  induction lg as [|[i|i] r IH]; cbn [last_ev]; [discriminate| |].
  - change (removed (WStore i :: r)) with (removed r).
    destruct (last_ev r id); [auto|]. destruct (i =? id); discriminate.
  - change (removed (WRemove i :: r)) with (i :: removed r). cbn [In].
    destruct (last_ev r id); [auto|]. destruct (N.eqb_spec i id); [auto|discriminate].
Qed.

Lemma last_ev_store lg id :
  last_ev lg id = Some EvStore -> In id (stored lg) /\ (sar_free lg -> ~ In id (removed lg)).
Proof.
  induction lg as [|[i|i] r IH]; cbn [last_ev sar_free]; [discriminate| |].
  - change (removed (WStore i :: r)) with (removed r). change (stored (WStore i :: r)) with (i :: stored r).
    cbn [In]. destruct (last_ev r id) eqn:E.
    + intros H. destruct (IH H). auto.
    + apply last_ev_none in E. destruct (N.eqb_spec i id); [|discriminate]. intros _. tauto.
  - change (removed (WRemove i :: r)) with (i :: removed r). change (stored (WRemove i :: r)) with (stored r).
    cbn [In]. destruct (last_ev r id) eqn:E.
    + intros H. destruct (IH H) as [H1 H2]. split; [auto|]. intros [Hn Hs] [<-|Hr]; [auto|]. now apply H2.
    + destruct (i =? id); discriminate.
Qed.

(** * 11. Accounting implies uniqueness and bounds *)

Lemma nodup_app_nseq A alloc k :
  NoDup A -> Forall (fun i => 0 < i /\ i <= alloc) A -> NoDup (A ++ nseq alloc k).
Proof.
  intros HN HB. apply nodup_cnt. intros x. rewrite cnt_app.
  rewrite nodup_cnt in HN. specialize (HN x). pose proof (cnt_nseq_le alloc k x) as H2.
  destruct (Nat.eq_dec (cnt (nseq alloc k) x) 0) as [E|E]; [lia|].
  assert (H3 : (0 < cnt (nseq alloc k) x)%nat) by lia. apply cnt_nseq_pos in H3.
  destruct (Nat.eq_dec (cnt A x) 0) as [E'|E']; [lia|].
  assert (H4 : In x A) by (apply in_cnt; lia). rewrite Forall_forall in HB. apply HB in H4. lia.
Qed.

Lemma acct_nodup A A' R alloc k :
  Permutation (A' ++ R) (A ++ nseq alloc k) ->
  NoDup A -> Forall (fun i => 0 < i /\ i <= alloc) A ->
  NoDup (A' ++ R) /\ Forall (fun i => 0 < i /\ i <= alloc + N.of_nat k) (A' ++ R).
Proof.
  intros HP HN HB. split.
  - eapply Permutation_NoDup; [symmetry; exact HP|]. now apply nodup_app_nseq.
  - apply Forall_forall. intros x Hx. eapply Permutation_in in Hx; [|exact HP].
    apply in_app_or in Hx as [Hx|Hx].
    + rewrite Forall_forall in HB. apply HB in Hx. lia.
    + apply in_nseq in Hx. lia.
Qed.

Lemma nodup_app_disj (A B : list N) x : NoDup (A ++ B) -> In x A -> ~ In x B.
Proof.
  intros HN HA HB. rewrite nodup_cnt in HN. specialize (HN x). rewrite cnt_app in HN.
  rewrite in_cnt in HA, HB. lia.
Qed.

(** * 12. Stages: what every piece of an operation guarantees; closed under composition *)

Record stage_ok (r : anode) (alloc : N) (r' : anode) (alloc' : N) (lg : wlog) (back : list N) : Prop := {
  st_acct : exists k, alloc' = alloc + N.of_nat k /\
                      Permutation (slab_ids r' ++ removed lg ++ back) (slab_ids r ++ nseq alloc k) /\
                      (forall id, In id (nseq alloc k) -> In id (stored lg));
  st_nid : nid r' = nid r;
  st_frame : forall id, ~ In id (stored lg) -> ~ In id (removed lg) -> node_at r' id = node_at r id;
  st_stored : forall id, In id (stored lg) -> In id (slab_ids r') \/ In id (removed lg);
  st_sar : NoDup (slab_ids r) -> Forall (fun i => 0 < i /\ i <= alloc) (slab_ids r) -> sar_free lg
}.

Lemma stage_nodup r alloc r' alloc' lg back :
  stage_ok r alloc r' alloc' lg back ->
  NoDup (slab_ids r) -> Forall (fun i => 0 < i /\ i <= alloc) (slab_ids r) ->
  NoDup (slab_ids r' ++ removed lg ++ back) /\
  Forall (fun i => 0 < i /\ i <= alloc') (slab_ids r' ++ removed lg ++ back) /\ alloc <= alloc'.
Proof.
  intros S HN HB. destruct (st_acct _ _ _ _ _ _ S) as (k & -> & HP & _).
  destruct (acct_nodup _ _ _ _ _ HP HN HB). split; [auto|]. split; [auto|lia].
Qed.

Lemma stage_refl r alloc : stage_ok r alloc r alloc [] [].
Proof.
  split.
  - exists 0%nat. cbn. rewrite app_nil_r. split; [lia|]. split; [reflexivity|tauto].
  - reflexivity.
  - reflexivity.
  - intros id [].
  - intros; exact I.
Qed.

Lemma stage_comp r a r1 a1 lg1 back r2 a2 lg2 :
  stage_ok r a r1 a1 lg1 back -> stage_ok r1 a1 r2 a2 lg2 [] ->
  stage_ok r a r2 a2 (lg1 ++ lg2) back.
Proof.
  intros S1 S2.
  destruct (st_acct _ _ _ _ _ _ S1) as (k1 & E1 & P1 & F1).
  destruct (st_acct _ _ _ _ _ _ S2) as (k2 & E2 & P2 & F2).
  assert (PW : Permutation (slab_ids r2 ++ removed (lg1 ++ lg2) ++ back) (slab_ids r ++ nseq a (k1 + k2))).
  { rewrite removed_app, nseq_app, <- E1. rewrite app_nil_r in P2. perm_solve. }
  split.
  - exists (k1 + k2)%nat. split; [lia|]. split; [exact PW|].
    intros id. rewrite nseq_app, <- E1, stored_app, !in_app_iff. intros [H|H]; auto.
  - rewrite (st_nid _ _ _ _ _ _ S2). apply (st_nid _ _ _ _ _ _ S1).
  - intros id. rewrite stored_app, removed_app, !in_app_iff. intros H1 H2.
    rewrite (st_frame _ _ _ _ _ _ S2), (st_frame _ _ _ _ _ _ S1); tauto.
  - intros id. rewrite stored_app, removed_app, !in_app_iff. intros [H|H].
    + apply (st_stored _ _ _ _ _ _ S1) in H as [H|H]; [|tauto].
      assert (H' : In id (slab_ids r2 ++ removed lg2 ++ [])).
      { eapply Permutation_in; [symmetry; exact P2|]. apply in_or_app. now left. }
      rewrite app_nil_r, in_app_iff in H'. tauto.
    + apply (st_stored _ _ _ _ _ _ S2) in H. tauto.
  - intros HN HB. apply sar_free_app.
    destruct (stage_nodup _ _ _ _ _ _ S1 HN HB) as (N1 & B1 & _).
    assert (N1' : NoDup (slab_ids r1)).
    { revert N1. rewrite !nodup_cnt. intros N1 x. specialize (N1 x). cnt_norm. lia. }
    assert (B1' : Forall (fun i => 0 < i /\ i <= a1) (slab_ids r1)).
    { apply Forall_app in B1. tauto. }
    split; [apply (st_sar _ _ _ _ _ _ S1); auto|]. split; [apply (st_sar _ _ _ _ _ _ S2); auto|].
    intros i Hi Hs. apply (st_stored _ _ _ _ _ _ S2) in Hs.
    destruct (acct_nodup _ _ _ _ _ PW HN HB) as [NW _].
    rewrite removed_app in NW. rewrite nodup_cnt in NW. specialize (NW i). cnt_norm.
    rewrite !in_cnt in *. lia.
Qed.

(* lifting a stage on child k into its parent (the parent itself untouched) *)
Lemma stage_lift h hs sums pre ch post alloc ch' alloc' lg back :
  stage_ok ch alloc ch' alloc' lg back ->
  stage_ok (AM h hs sums (pre ++ ch :: post)) alloc (AM h hs sums (pre ++ ch' :: post)) alloc' lg back.
Proof.
  intros S. destruct (st_acct _ _ _ _ _ _ S) as (k & E & HP & F).
  split.
  - exists k. split; [exact E|]. split; [|exact F].
    rewrite !slab_ids_AM, !flat_map_app. cbn [flat_map]. perm_solve.
  - reflexivity.
  - intros id H1 H2. rewrite !node_at_AM, !nodes_at_app. cbn [nodes_at].
    now rewrite (st_frame _ _ _ _ _ _ S id H1 H2).
  - intros id H. apply (st_stored _ _ _ _ _ _ S) in H as [H|H]; [left|tauto].
    rewrite slab_ids_AM, flat_map_app. cbn [flat_map]. right. rewrite !in_app_iff. tauto.
  - intros HN HB. rewrite slab_ids_AM, flat_map_app in HN, HB. cbn [flat_map] in HN, HB.
    apply (st_sar _ _ _ _ _ _ S).
    + revert HN. rewrite !nodup_cnt. intros HN x. specialize (HN x). cnt_norm. lia.
    + apply Forall_inv_tail in HB. apply Forall_app in HB as [_ HB]. apply Forall_app in HB. tauto.
Qed.

Lemma stage_store_root n alloc : stage_ok n alloc n alloc [WStore (nid n)] [].
Proof.
  split.
  - exists 0%nat. cbn. rewrite app_nil_r. split; [lia|]. split; [reflexivity|tauto].
  - reflexivity.
  - reflexivity.
  - intros id [<-|[]]. left. destruct n; cbn; auto.
  - intros; exact I.
Qed.

Lemma in_tree_slab n id : In id (tree_ids n) -> In id (slab_ids n).
Proof.
  induction n as [h nx es|h hs sums cs IH] using anode_ind'; cbn [tree_ids slab_ids In].
  - tauto.
  - intros [H|H]; [auto|]. right. rewrite in_flat_map in *. destruct H as (c & Hc & H).
    exists c. split; [auto|]. rewrite Forall_forall in IH. auto.
Qed.

Lemma pfix_sar hid nh cs alloc n' alloc' lg :
  pfix hid nh cs alloc n' alloc' lg -> sar_free lg.
Proof. intros []; cbn; tauto. Qed.

Lemma stage_pfix h hs sums cs nh alloc n' alloc' lg :
  pfix (h_id h) nh cs alloc n' alloc' lg ->
  stage_ok (AM h hs sums cs) alloc n' alloc' lg [].
Proof.
  intros H. pose proof (pfix_sar _ _ _ _ _ _ _ H) as Hsar.
  apply pfix_seg in H as (h' & hs' & sums' & pre & seg & seg' & post & k & rem & st &
                          -> & -> & Eh & _ & Ea & SO & Er & Es).
  destruct SO as [so1 so2 so3 so4 so5 so6 so7].
  split.
  - exists k. split; [exact Ea|]. split.
    + rewrite Er, !slab_ids_AM, !flat_map_app, Eh. perm_solve.
    + intros id Hi. apply Es. right. auto.
  - unfold nid; cbn [hdr_of]. exact Eh.
  - intros id H1 H2. rewrite Er in H2. rewrite !node_at_AM, Eh.
    assert (id <> h_id h) by (intros ->; apply H1, Es; auto).
    replace (h_id h =? id) with false by lia.
    rewrite !nodes_at_app. rewrite (so4 id); [reflexivity| |exact H2].
    intros Hs. apply H1, Es. auto.
  - intros id Hi. left. apply Es in Hi as [->|Hi].
    + rewrite slab_ids_AM, Eh. now left.
    + apply in_tree_slab. rewrite tree_ids_AM, !flat_map_app. right. rewrite !in_app_iff. right. left. auto.
  - intros _ _. exact Hsar.
Qed.

Lemma stage_leaf h nx es h' es' alloc k back rest :
  h_id h' = h_id h ->
  Permutation (ext_ids es) (back ++ rest) ->
  Permutation (ext_ids es') (rest ++ nseq alloc k) ->
  stage_ok (AD h nx es) alloc (AD h' nx es') (alloc + N.of_nat k)
           (map WStore (nseq alloc k) ++ [WStore (h_id h)]) back.
Proof.
  intros Eh P1 P2.
  assert (Er : removed (map WStore (nseq alloc k) ++ [WStore (h_id h)]) = []).
  { now rewrite removed_app, removed_map_store. }
  assert (Es : stored (map WStore (nseq alloc k) ++ [WStore (h_id h)]) = nseq alloc k ++ [h_id h]).
  { now rewrite stored_app, stored_map_store. }
  split.
  - exists k. split; [reflexivity|]. split.
    + rewrite Er. cbn [slab_ids]. rewrite Eh. perm_solve.
    + intros id Hi. rewrite Es. apply in_or_app. now left.
  - unfold nid; cbn [hdr_of]. exact Eh.
  - intros id H1 _. rewrite Es, in_app_iff in H1. cbn [In] in H1. cbn [node_at]. rewrite Eh.
    replace (h_id h =? id) with false by lia. reflexivity.
  - intros id Hi. left. rewrite Es in Hi. cbn [slab_ids]. rewrite Eh.
    apply in_app_or in Hi as [Hi|[<-|[]]]; [right|now left].
    eapply Permutation_in; [symmetry; exact P2|]. apply in_or_app. now right.
  - intros _ _. now apply sar_no_removes.
Qed.

Theorem nstep_stage n alloc n' alloc' lg back :
  nstep n alloc n' alloc' lg back -> stage_ok n alloc n' alloc' lg back.
Proof.
  induction 1 as [h nx es h' es' alloc k back rest Eh P1 P2
                 |h hs sums pre ch post alloc ch' alloc1 lg1 back n' alloc' lg' tl Hs IH Hp Htl].
  - now apply stage_leaf with (rest := rest).
  - eapply stage_comp; [apply stage_lift; exact IH|].
    eapply stage_comp; [eapply stage_pfix; exact Hp|].
    assert (En : nid n' = h_id h).
    { apply stage_pfix with (h := h) (hs := hs) (sums := sums) in Hp. apply (st_nid _ _ _ _ _ _ Hp). }
    destruct Htl as [->| ->]; [apply stage_refl|]. rewrite <- En. apply stage_store_root.
Qed.


(** * 13. Shape and sibling links through a node operation *)

Lemma pfix_struct hid nh cs alloc n' alloc' lg :
  pfix hid nh cs alloc n' alloc' lg ->
  nh = length cs -> cs <> [] -> Forall shape cs ->
  shape n' /\ first_leaf_id n' = fl cs 0 /\ (forall nxt, chain_list cs nxt -> chain n' nxt).
Proof.
  intros H Hn Hne Hf.
  apply pfix_seg in H as (h' & hs' & sums' & pre & seg & seg' & post & k & rem & st &
                          -> & -> & Eh & El & Ea & SO & Er & Es).
  destruct SO as [so1 so2 so3 so4 so5 so6 so7].
  apply Forall_app in Hf as [Hf1 Hf2]. apply Forall_app in Hf2 as [Hf2 Hf3].
  destruct (so3 Hf2) as (Sh & Fl & Ch).
  split; [|split].
  - apply shape_AM. split; [apply El; exact Hn|]. split.
    + intros E. apply app_eq_nil in E as [-> E]. apply app_eq_nil in E as [E ->].
      rewrite app_nil_r in Hne. cbn [app] in Hne. exact (so2 Hne E).
    + repeat (apply Forall_app; split); auto.
  - rewrite first_AM, !fl_app, Fl. reflexivity.
  - intros nxt. rewrite chain_AM, !chain_list_app, !fl_app, Fl. intros (C1 & C2 & C3). auto.
Qed.

Theorem nstep_struct n alloc n' alloc' lg back :
  nstep n alloc n' alloc' lg back -> shape n ->
  shape n' /\ first_leaf_id n' = first_leaf_id n /\ (forall nxt, chain n nxt -> chain n' nxt).
Proof.
  induction 1 as [h nx es h' es' alloc k back rest Eh P1 P2
                 |h hs sums pre ch post alloc ch' alloc1 lg1 back n' alloc' lg' tl Hs IH Hp Htl].
  - intros _. cbn. auto.
  - intros Sh. apply shape_AM in Sh as (Hl & Hne & Hf).
    pose proof (Forall_elt _ _ _ Hf) as Hch. destruct (IH Hch) as (Sh' & Fl' & Ch').
    apply Forall_app in Hf as [Hf1 Hf2]. pose proof (Forall_inv_tail Hf2) as Hf3.
    destruct (pfix_struct _ _ _ _ _ _ _ Hp) as (S1 & F1 & C1).
    + rewrite Hl, !app_length. reflexivity.
    + destruct pre; cbn; congruence.
    + apply Forall_app. split; [auto|]. constructor; auto.
    + split; [exact S1|]. split.
      * rewrite F1, first_AM, !fl_app. cbn [fl]. now rewrite Fl'.
      * intros nxt. rewrite chain_AM. intros Hc. apply C1. revert Hc.
        rewrite !chain_list_app, !chain_list_cons. cbn [fl]. rewrite Fl'. intros (A1 & A2 & A3). auto.
Qed.

(** * 14. tree slabs vs. all slabs; lookup *)

Lemma nodes_at_none cs id :
  Forall (fun n => node_at n id = None <-> ~ In id (tree_ids n)) cs ->
  (nodes_at cs id = None <-> ~ In id (flat_map tree_ids cs)).
Proof.
  induction 1 as [|c r Hc Hr IH]; cbn [nodes_at flat_map]; [tauto|].
  rewrite in_app_iff. destruct (node_at c id) eqn:E.
  - split; [discriminate|]. intros Hn. exfalso. assert (Some s = None) by (apply Hc; tauto). discriminate.
  - destruct Hc as [Hc _]. specialize (Hc eq_refl). tauto.
Qed.

Lemma node_at_none n id : node_at n id = None <-> ~ In id (tree_ids n).
Proof.
  induction n as [h nx es|h hs sums cs IH] using anode_ind'.
  - cbn. destruct (N.eqb_spec (h_id h) id); [split; [discriminate|tauto]|]. tauto.
  - rewrite node_at_AM, tree_ids_AM. cbn [In].
    destruct (N.eqb_spec (h_id h) id); [split; [discriminate|tauto]|].
    rewrite nodes_at_none by exact IH. tauto.
Qed.

Lemma slab_tree_ext n : Permutation (slab_ids n) (tree_ids n ++ ext_ids (to_list n)).
Proof.
  induction n as [h nx es|h hs sums cs IH] using anode_ind'.
  - reflexivity.
  - cbn [slab_ids tree_ids to_list app]. apply perm_skip.
    induction IH as [|c r Hc Hr IHr]; cbn [flat_map]; [reflexivity|].
    rewrite ext_ids_app. perm_solve.
Qed.

Lemma nodup_tree_ids n : NoDup (slab_ids n) -> NoDup (tree_ids n).
Proof.
  intros H. pose proof (slab_tree_ext n) as HP.
  apply (Permutation_NoDup HP) in H. revert H. rewrite !nodup_cnt. intros H x. specialize (H x).
  cnt_norm. lia.
Qed.

Lemma removed_concat L : removed (concat L) = flat_map removed L.
Proof. induction L; cbn; [reflexivity|]. now rewrite removed_app, IHL. Qed.
Lemma stored_concat L : stored (concat L) = flat_map stored L.
Proof. induction L; cbn; [reflexivity|]. now rewrite stored_app, IHL. Qed.

Lemma pop_log_spec n :
  Permutation (nid n :: removed (n_pop_log n)) (tree_ids n) /\ stored (n_pop_log n) = [].
Proof.
  induction n as [h nx es|h hs sums cs IH] using anode_ind'.
  - cbn. auto.
  - cbn [n_pop_log tree_ids nid hdr_of].
    assert (H : Permutation (removed (concat (rev (map (fun ch => n_pop_log ch ++ [WRemove (h_id (hdr_of ch))]) cs))))
                            (flat_map tree_ids cs) /\
                stored (concat (rev (map (fun ch => n_pop_log ch ++ [WRemove (h_id (hdr_of ch))]) cs))) = []).
    { induction IH as [|c r Hc Hr IHr]; cbn [map rev flat_map]; [split; [constructor|reflexivity]|].
      destruct IHr as [I1 I2]. destruct Hc as [C1 C2].
      rewrite concat_app, removed_app, stored_app, I2. cbn [concat].
      rewrite !app_nil_r, removed_app, stored_app, C2. cbn [removed stored flat_map app].
      split; [|reflexivity]. unfold nid in C1. perm_solve. }
    destruct H as [H1 H2]. split; [now apply perm_skip|exact H2].
Qed.

Lemma sar_no_stores lg : stored lg = [] -> sar_free lg.
Proof.
  induction lg as [|[i|i] r IH]; cbn [sar_free]; [auto|discriminate|].
  change (stored (WRemove i :: r)) with (stored r). intros E. rewrite E. split; [tauto|auto].
Qed.

(** * 15. Root-level stages *)

Definition sub_ids (n : anode) : list N := tl (slab_ids n).
Lemma slab_ids_nid n : slab_ids n = nid n :: sub_ids n.
Proof. destruct n; reflexivity. Qed.
Definition kids (n : anode) : list anode := match n with AD _ _ _ => [] | AM _ _ _ cs => cs end.
Lemma node_at_kids n id : id <> nid n -> node_at n id = nodes_at (kids n) id.
Proof. intros H. rewrite node_at_other by exact H. destruct n; reflexivity. Qed.

(* same slab, different header (id and cached size) *)
Definition rehdr (n : anode) (h' : hdr) : anode :=
  match n with AD _ nx es => AD h' nx es | AM _ hs sums cs => AM h' hs sums cs end.
Lemma rehdr_facts n h' :
  sub_ids (rehdr n h') = sub_ids n /\ kids (rehdr n h') = kids n /\ nid (rehdr n h') = h_id h' /\
  (shape (rehdr n h') <-> shape n) /\ (forall nxt, chain (rehdr n h') nxt <-> chain n nxt).
Proof. destruct n; cbn; tauto. Qed.

Lemma split_root_inv a a2 lg :
  split_root a = (Ok a2, lg) ->
  exists h1 hr hs2 sums2 l r,
    n_split (rehdr (a_root a) h1) (a_alloc a + 1 + 1) = Ok (l, r) /\ h_id h1 = a_alloc a + 1 /\
    h_id hr = a_rootid a /\ length hs2 = 2%nat /\
    a2 = mkarr (AM hr hs2 sums2 [l; r]) (a_alloc a + 1 + 1) (a_type a) /\
    lg = [WStore (nid l); WStore (nid r); WStore (a_rootid a)].
Proof.
  unfold split_root.
  match goal with |- context [n_split ?o ?i] => destruct (n_split o i) as [[l r]|] eqn:E end; [|discriminate].
  intros [= <- <-].
  destruct (a_root a) as [h nx es|h hs sums cs] eqn:Er; cbn [set_id h_id h_size h_count] in E.
  - eexists (mkhdr (a_alloc a + 1) _ _), _, _, _, l, r. cbn [rehdr].
    split; [exact E|]. split; [reflexivity|]. refine (conj _ (conj _ (conj eq_refl _))); reflexivity.
  - eexists (mkhdr (a_alloc a + 1) _ _), _, _, _, l, r. cbn [rehdr].
    split; [exact E|]. split; [reflexivity|]. refine (conj _ (conj _ (conj eq_refl _))); reflexivity.
Qed.

Lemma split_nid ch newid l r : n_split ch newid = Ok (l, r) -> nid l = nid ch /\ nid r = newid.
Proof.
  intros H. apply n_split_inv in H as
    [(h & nx & es & lc & hl & hr & -> & -> & -> & E1 & E2)
    |(h & hs & sums & cs & lc & hl & hr & sl & sr & -> & -> & -> & E1 & E2 & L1 & L2)]; cbn; auto.
Qed.

Lemma stage_split_root a a2 lg :
  split_root a = (Ok a2, lg) ->
  stage_ok (a_root a) (a_alloc a) (a_root a2) (a_alloc a2) lg [] /\
  (shape (a_root a) -> shape (a_root a2) /\ (chain (a_root a) 0 -> chain (a_root a2) 0)).
Proof.
  intros H. apply split_root_inv in H as (h1 & hr & hs2 & sums2 & l & r & Es & E1 & Er & Eh & -> & ->).
  destruct (rehdr_facts (a_root a) h1) as (R1 & R2 & R3 & R4 & R5).
  destruct (split_nid _ _ _ _ Es) as [Nl Nr]. rewrite R3, E1 in Nl.
  apply split_seg in Es. destruct Es as [so1 so2 so3 so4 so5 so6 so7].
  cbn [a_root a_alloc]. cbn [flat_map] in so1. rewrite !app_nil_r in so1.
  rewrite (slab_ids_nid (rehdr _ _)), R1, R3, E1 in so1.
  rewrite Nl, Nr in *.
  split; [split|].
  - exists 2%nat. split; [lia|]. split.
    + rewrite slab_ids_AM, Er. cbn [flat_map nseq removed app]. rewrite !app_nil_r.
      rewrite (slab_ids_nid (a_root a)). unfold a_rootid, nid. perm_solve.
    + intros id. cbn [nseq stored flat_map app In]. tauto.
  - unfold nid; cbn [hdr_of]. exact Er.
  - intros id Hs _. cbn [stored flat_map app In] in Hs.
    rewrite node_at_AM, Er. replace (a_rootid a =? id) with false by lia.
    rewrite so4; [|cbn [In]; tauto|tauto].
    rewrite nodes1.
    rewrite node_at_kids by (rewrite R3, E1; lia).
    rewrite R2. symmetry. apply node_at_kids. unfold a_rootid, nid in *. lia.
  - intros id Hs. left. cbn [stored flat_map app In] in Hs. rewrite slab_ids_AM, Er. cbn [In flat_map].
    destruct Hs as [<-|[<-|[<-|[]]]]; [right|right|now left].
    + rewrite (slab_ids_nid l), Nl. cbn. now left.
    + apply in_or_app. right. rewrite (slab_ids_nid r), Nr. cbn. now left.
  - intros _ _. now apply sar_no_removes.
  - intros Sh. apply R4 in Sh. destruct (so3 (Forall_cons _ Sh (Forall_nil _))) as (S1 & _ & C1).
    split.
    + apply shape_AM. split; [exact Eh|]. split; [congruence|exact S1].
    + intros Hc. rewrite chain_AM. apply C1. cbn [chain_list]. now apply R5.
Qed.


Lemma promote_inv a a3 lg3 :
  promote_if_single a = (a3, lg3) ->
  (a3 = a /\ lg3 = []) \/
  (exists h h1 sums ch h', a_root a = AM h [h1] sums [ch] /\
      a3 = mkarr (rehdr ch h') (a_alloc a) (a_type a) /\ h_id h' = h_id h /\
      lg3 = [WStore (h_id h); WRemove (nid ch)]).
Proof.
  unfold promote_if_single.
  destruct (a_root a) as [h nx es|h hs sums cs] eqn:Er; [intros [= <- <-]; now left|].
  destruct hs as [|h1 [|? ?]]; try (intros [= <- <-]; now left).
  destruct cs as [|ch [|? ?]]; try (intros [= <- <-]; now left).
  intros [= <- <-]. right.
  destruct ch as [hh nx es|hh hs sums' cs];
    (eexists h, h1, sums, _, (mkhdr (h_id h) _ _); split; [reflexivity|]; split; [reflexivity|]; split; reflexivity).
Qed.

Definition astage (a a' : arr) (lg : wlog) (back : list N) : Prop :=
  stage_ok (a_root a) (a_alloc a) (a_root a') (a_alloc a') lg back /\
  (shape (a_root a) -> chain (a_root a) 0 -> shape (a_root a') /\ chain (a_root a') 0).

Lemma astage_refl a : astage a a [] [].
Proof. split; [apply stage_refl|tauto]. Qed.
Lemma astage_comp a a1 a2 lg1 lg2 back :
  astage a a1 lg1 back -> astage a1 a2 lg2 [] -> astage a a2 (lg1 ++ lg2) back.
Proof.
  intros [S1 C1] [S2 C2]. split; [eapply stage_comp; eauto|].
  intros Sh Ch. destruct (C1 Sh Ch). auto.
Qed.

Lemma astage_split_root a a2 lg : split_root a = (Ok a2, lg) -> astage a a2 lg [].
Proof.
  intros H. apply stage_split_root in H as [S C]. split; [exact S|].
  intros Sh Ch. destruct (C Sh). auto.
Qed.

Lemma astage_promote a a3 lg3 : promote_if_single a = (a3, lg3) -> astage a a3 lg3 [].
Proof.
  intros H. apply promote_inv in H as [[-> ->]|(h & h1 & sums & ch & h' & Er & -> & Eh & ->)];
    [apply astage_refl|].
  destruct (rehdr_facts ch h') as (R1 & R2 & R3 & R4 & R5).
  unfold astage. cbn [a_root a_alloc]. rewrite Er. split; [split|].
  - exists 0%nat. split; [lia|]. split; [|intros id []].
    rewrite slab_ids_AM. cbn [flat_map removed nseq app]. rewrite !app_nil_r.
    rewrite (slab_ids_nid (rehdr ch h')), (slab_ids_nid ch), R1, R3, Eh. perm_solve.
  - rewrite R3. unfold nid; cbn [hdr_of]. exact Eh.
  - intros id Hs Hr. cbn [stored removed flat_map app In] in Hs, Hr.
    rewrite node_at_kids by (rewrite R3, Eh; lia). rewrite R2.
    rewrite node_at_AM. replace (h_id h =? id) with false by lia.
    rewrite nodes1. symmetry. apply node_at_kids. lia.
  - intros id Hs. cbn [stored flat_map app In] in Hs. destruct Hs as [<-|[]].
    left. rewrite slab_ids_nid, R3, Eh. now left.
  - intros _ _. cbn. tauto.
  - intros Sh Ch. apply shape_AM in Sh as (_ & _ & Hf). apply Forall_inv in Hf.
    rewrite chain_AM in Ch. cbn [chain_list] in Ch. split; [now apply R4|now apply R5].
Qed.

Lemma astage_nstep a r' alloc' lg back :
  nstep (a_root a) (a_alloc a) r' alloc' lg back ->
  astage a (mkarr r' alloc' (a_type a)) lg back.
Proof.
  intros H. split; [now apply nstep_stage|]. cbn [a_root].
  intros Sh Ch. destruct (nstep_struct _ _ _ _ _ _ H Sh) as (S1 & _ & C1). auto.
Qed.

Lemma astage_pop a :
  astage a (mkarr (AD (mkhdr (a_rootid a) RP 0) 0 []) (a_alloc a) (a_type a))
         (n_pop_log (a_root a) ++ [WStore (a_rootid a)]) (ext_ids (rev (to_list (a_root a)))).
Proof.
  destruct (pop_log_spec (a_root a)) as [P1 P2].
  pose proof (slab_tree_ext (a_root a)) as P3. pose proof (ext_ids_rev (to_list (a_root a))) as P4.
  assert (Er : removed (n_pop_log (a_root a) ++ [WStore (a_rootid a)]) = removed (n_pop_log (a_root a))).
  { rewrite removed_app. cbn. apply app_nil_r. }
  assert (Es : stored (n_pop_log (a_root a) ++ [WStore (a_rootid a)]) = [a_rootid a]).
  { rewrite stored_app, P2. reflexivity. }
  change (nid (a_root a)) with (a_rootid a) in P1.
  split; [split|]; cbn [a_root a_alloc].
  - exists 0%nat. split; [lia|]. split; [|intros id []].
    rewrite Er. cbn [slab_ids ext_ids h_id nseq]. rewrite app_nil_r. perm_solve.
  - reflexivity.
  - intros id Hs Hr. rewrite Er in Hr. rewrite Es in Hs. cbn [In] in Hs.
    cbn [node_at h_id]. replace (a_rootid a =? id) with false by lia.
    symmetry. apply node_at_none. intros Hi.
    eapply Permutation_in in Hi; [|symmetry; exact P1]. cbn [In] in Hi. tauto.
  - intros id Hs. rewrite Es in Hs. left. cbn. tauto.
  - intros HN _. apply sar_free_app. split; [now apply sar_no_stores|]. split; [exact I|].
    intros i Hi [<-|[]]. apply nodup_tree_ids in HN.
    eapply Permutation_NoDup in HN; [|symmetry; exact P1]. inversion HN; auto.
  - intros _ _. cbn. auto.
Qed.

(** * 16. The array operations *)

(* external slab indexes that leave the tree with the result handed back to the caller *)
Definition back_of (o : aop) (out : aout) : list N :=
  match o, out with
  | OSet _ _, RElem e => ext1 e
  | ORemove _, RElem e => ext1 e
  | OPop, RList l => ext_ids l
  | _, _ => []
  end.

Lemma a_set_astage c a i e a' out lg :
  a_set c a i e = (a', out, lg) -> astage a a' lg (match out with RElem e => ext1 e | _ => [] end).
Proof.
  unfold a_set. destruct (n_set c RP (a_root a) i e (a_alloc a)) as [[[[r' old] alloc'] lg1]|] eqn:E.
  2: { intros [= <- <- <-]. apply astage_refl. }
  apply n_set_nstep, astage_nstep in E.
  destruct (if n_is_full c r' then split_root _ else _) as [ra2 lg2] eqn:E2.
  destruct ra2 as [a2|x]; [|intros [= <- <- <-]; apply astage_refl].
  destruct (promote_if_single a2) as [a3 lg3] eqn:E3. intros [= <- <- <-].
  eapply astage_comp; [exact E|]. rewrite <- (app_nil_l lg2) at 1.
  eapply astage_comp; [|apply astage_promote; exact E3].
  rewrite app_nil_l. destruct (n_is_full c r').
  - now apply astage_split_root.
  - injection E2 as <- <-. apply astage_refl.
Qed.

Lemma a_insert_astage c a i e a' out lg :
  a_insert c a i e = (a', out, lg) -> astage a a' lg [].
Proof.
  unfold a_insert. destruct (a_count a =? max_count); [intros [= <- <- <-]; apply astage_refl|].
  destruct (n_insert c (a_root a) i e (a_alloc a)) as [[[r' alloc'] lg1]|] eqn:E.
  2: { intros [= <- <- <-]. apply astage_refl. }
  apply n_insert_nstep, astage_nstep in E.
  destruct (if n_is_full c r' then split_root _ else _) as [ra2 lg2] eqn:E2.
  destruct ra2 as [a2|x]; [|intros [= <- <- <-]; apply astage_refl].
  intros [= <- <- <-].
  eapply astage_comp; [exact E|]. destruct (n_is_full c r').
  - now apply astage_split_root.
  - injection E2 as <- <-. apply astage_refl.
Qed.

Lemma a_remove_astage c a i a' out lg :
  a_remove c a i = (a', out, lg) -> astage a a' lg (match out with RElem e => ext1 e | _ => [] end).
Proof.
  unfold a_remove. destruct (n_remove c (a_root a) i) as [[[r' old] lg1]|] eqn:E.
  2: { intros [= <- <- <-]. apply astage_refl. }
  apply (n_remove_nstep _ _ _ _ _ _ (a_alloc a)), astage_nstep in E.
  destruct (promote_if_single _) as [a3 lg3] eqn:E3. intros [= <- <- <-].
  eapply astage_comp; [exact E|]. apply astage_promote; exact E3.
Qed.

Theorem a_step_astage c a o a' out lg :
  a_step c a o = (a', out, lg) -> astage a a' lg (back_of o out).
Proof.
  destruct o; cbn [a_step back_of]; try (intros [= <- <- <-]; apply astage_refl).
  - apply a_set_astage.
  - intros H. apply a_insert_astage in H. destruct out; exact H.
  - intros H. apply a_insert_astage in H. destruct out; exact H.
  - apply a_remove_astage.
  - unfold a_pop. intros [= <- <- <-]. apply astage_pop.
  - intros [= <- <- <-]. split; [apply (stage_store_root (a_root a))|tauto].
Qed.

(** * 17. Main theorems *)

(** F1 *)
Theorem ids_step c a o a' out lg :
  ids_ok a -> a_step c a o = (a', out, lg) ->
  ids_ok a' /\ a_alloc a <= a_alloc a' /\ a_rootid a' = a_rootid a /\
  NoDup (slab_ids (a_root a') ++ removed lg ++ back_of o out) /\
  exists k, a_alloc a' = a_alloc a + N.of_nat k /\
            Permutation (slab_ids (a_root a') ++ removed lg ++ back_of o out)
                        (slab_ids (a_root a) ++ nseq (a_alloc a) k).
Proof.
  intros [HN HB] H. apply a_step_astage in H as [S _].
  destruct (stage_nodup _ _ _ _ _ _ S HN HB) as (N1 & B1 & Hle).
  split; [split|].
  - revert N1. rewrite !nodup_cnt. intros N1 x. specialize (N1 x). cnt_norm. lia.
  - apply Forall_app in B1. tauto.
  - split; [exact Hle|]. split; [apply (st_nid _ _ _ _ _ _ S)|]. split; [exact N1|].
    destruct (st_acct _ _ _ _ _ _ S) as (k & E & P & _). eauto.
Qed.

(* the released slabs and the slab handed back were slabs of the old tree (or allocated in this
   very operation) *)
Corollary released_were_owned c a o a' out lg id :
  ids_ok a -> a_step c a o = (a', out, lg) ->
  In id (removed lg ++ back_of o out) ->
  ~ In id (slab_ids (a_root a')) /\ (In id (slab_ids (a_root a)) \/ a_alloc a < id <= a_alloc a').
Proof.
  intros Hok H Hi. destruct (ids_step _ _ _ _ _ _ Hok H) as (_ & _ & _ & N1 & k & E & P).
  split.
  - intros Hx. eapply nodup_app_disj in N1; eauto.
  - assert (Hx : In id (slab_ids (a_root a') ++ removed lg ++ back_of o out)) by (apply in_or_app; now right).
    eapply Permutation_in in Hx; [|exact P]. apply in_app_or in Hx as [Hx|Hx]; [now left|right].
    apply in_nseq in Hx. lia.
Qed.

(** F2 *)
Definition touched (lg : wlog) (id : N) : Prop := In (WStore id) lg \/ In (WRemove id) lg.

Lemma last_ev_untouched lg id : last_ev lg id = None <-> ~ touched lg id.
Proof. unfold touched. rewrite last_ev_none, in_stored, in_removed. tauto. Qed.

Theorem frame_step c a o a' out lg :
  ids_ok a -> a_step c a o = (a', out, lg) ->
  forall id,
    (~ touched lg id -> node_at (a_root a') id = node_at (a_root a) id) /\
    (last_ev lg id = Some EvStore ->
       node_at (a_root a') id <> None \/ In id (ext_ids (to_list (a_root a')))) /\
    (last_ev lg id = Some EvRemove ->
       node_at (a_root a') id = None /\ ~ In id (slab_ids (a_root a'))) /\
    (node_at (a_root a') id <> None -> node_at (a_root a) id = None -> last_ev lg id = Some EvStore).
Proof.
  intros Hok H id. pose proof Hok as [HN HB].
  destruct (ids_step _ _ _ _ _ _ Hok H) as (_ & _ & _ & N1 & _).
  apply a_step_astage in H as [S _].
  assert (F1 : ~ touched lg id -> node_at (a_root a') id = node_at (a_root a) id).
  { intros Hu. apply last_ev_untouched, last_ev_none in Hu. apply (st_frame _ _ _ _ _ _ S); tauto. }
  assert (F3 : last_ev lg id = Some EvRemove -> node_at (a_root a') id = None /\ ~ In id (slab_ids (a_root a'))).
  { intros Hl. apply last_ev_remove in Hl.
    assert (Hn : ~ In id (slab_ids (a_root a'))).
    { intros Hx. eapply nodup_app_disj in N1; eauto. apply N1, in_or_app. now left. }
    split; [|exact Hn]. apply node_at_none. intros Hx. apply Hn. now apply in_tree_slab. }
  split; [exact F1|]. split; [|split; [exact F3|]].
  - intros Hl. apply last_ev_store in Hl as [H1 H2].
    specialize (H2 (st_sar _ _ _ _ _ _ S HN HB)).
    apply (st_stored _ _ _ _ _ _ S) in H1 as [H1|H1]; [|tauto].
    eapply Permutation_in in H1; [|apply slab_tree_ext]. apply in_app_or in H1 as [H1|H1]; [left|now right].
    intros Hx. apply node_at_none in Hx. auto.
  - intros Hp Ha. destruct (last_ev lg id) as [[|]|] eqn:El; [reflexivity| |].
    + destruct (F3 eq_refl). congruence.
    + apply last_ev_untouched in El. rewrite (F1 El) in Hp. congruence.
Qed.

(* the log never stores an id after removing it, so "last event" is unambiguous *)
Theorem log_no_store_after_remove c a o a' out lg :
  ids_ok a -> a_step c a o = (a', out, lg) -> sar_free lg.
Proof.
  intros [HN HB] H. apply a_step_astage in H as [S _]. apply (st_sar _ _ _ _ _ _ S HN HB).
Qed.

(* every slab index allocated by the operation is stored by it *)
Theorem fresh_ids_stored c a o a' out lg id :
  a_step c a o = (a', out, lg) -> a_alloc a < id <= a_alloc a' -> In (WStore id) lg.
Proof.
  intros H Hi. apply a_step_astage in H as [S _].
  destruct (st_acct _ _ _ _ _ _ S) as (k & E & _ & F). apply in_stored, F, in_nseq. lia.
Qed.

(** F3, preservation *)
Theorem chain_step c a o a' out lg :
  shape (a_root a) -> chain (a_root a) 0 -> a_step c a o = (a', out, lg) ->
  shape (a_root a') /\ chain (a_root a') 0.
Proof. intros Sh Ch H. apply a_step_astage in H as [_ C]. auto. Qed.

(** F4 *)
Theorem pop_releases_all a a' out lg :
  a_pop a = (a', out, lg) ->
  slab_ids (a_root a') = [a_rootid a] /\
  stored lg = [a_rootid a] /\
  Permutation (a_rootid a :: removed lg) (tree_ids (a_root a)) /\
  (exists l, out = RList l /\ Permutation (ext_ids l) (ext_ids (to_list (a_root a))) /\
             Permutation (slab_ids (a_root a)) (a_rootid a :: removed lg ++ ext_ids l)) /\
  (NoDup (slab_ids (a_root a)) -> NoDup (a_rootid a :: removed lg)).
Proof.
  unfold a_pop. intros [= <- <- <-]. cbn [a_root].
  destruct (pop_log_spec (a_root a)) as [P1 P2]. change (nid (a_root a)) with (a_rootid a) in P1.
  pose proof (slab_tree_ext (a_root a)) as P3. pose proof (ext_ids_rev (to_list (a_root a))) as P4.
  assert (Er : removed (n_pop_log (a_root a) ++ [WStore (a_rootid a)]) = removed (n_pop_log (a_root a))).
  { rewrite removed_app. cbn. apply app_nil_r. }
  rewrite Er. split; [reflexivity|]. split; [rewrite stored_app, P2; reflexivity|].
  split; [exact P1|]. split.
  - eexists. split; [reflexivity|]. split; [exact P4|]. perm_solve.
  - intros HN. apply nodup_tree_ids in HN. eapply Permutation_NoDup; [symmetry; exact P1|exact HN].
Qed.

(** * 18. Reachable arrays *)

Definition ainv (a : arr) : Prop := ids_ok a /\ shape (a_root a) /\ chain (a_root a) 0.

Lemma ainv_init rootid ti : 0 < rootid -> ainv (fst (arr_init rootid ti)).
Proof.
  intros H. cbn. split; [split|]; cbn.
  - constructor; [tauto|constructor].
  - constructor; [lia|constructor].
  - auto.
Qed.

Lemma ainv_step c a o a' out lg : ainv a -> a_step c a o = (a', out, lg) -> ainv a' /\ a_rootid a' = a_rootid a.
Proof.
  intros (Hok & Sh & Ch) H. destruct (ids_step _ _ _ _ _ _ Hok H) as (Hok' & _ & Hr & _).
  destruct (chain_step _ _ _ _ _ _ Sh Ch H) as [Sh' Ch'].
  split; [split; [exact Hok'|split; assumption]|exact Hr].
Qed.

Theorem ainv_run c : forall ops a, ainv a ->
  ainv (fst (a_run c a ops)) /\ a_rootid (fst (a_run c a ops)) = a_rootid a.
Proof.
  induction ops as [|o r IH]; intros a Ha; cbn [a_run]; [cbn; auto|].
  destruct (a_step c a o) as [[a1 x] lg] eqn:E. destruct (ainv_step _ _ _ _ _ _ Ha E) as [H1 H2].
  destruct (IH a1 H1) as [H3 H4]. destruct (a_run c a1 r) as [a2 xs]. cbn [fst] in *.
  split; [exact H3|congruence].
Qed.


(** * 19. Sequential traversal along the sibling links (readOnlyArrayIterator.Next) *)

Fixpoint leaves (n : anode) : list anode :=
  match n with
  | AD _ _ _ => [n]
  | AM _ _ _ cs => flat_map leaves cs
  end.

(* start at slab [id]; yield its elements; continue with its [next] until SlabIDUndefined (0).
   Slabs are looked up by index in the tree (= Storage.Retrieve).  A missing slab or a slab of the
   wrong kind ends the walk (the Go code returns an error there). *)
Fixpoint follow (fuel : nat) (t : anode) (id : N) : list elem :=
  match fuel with
  | O => []
  | S f =>
    if id =? 0 then []
    else match node_at t id with
         | Some (SD _ nx es) => es ++ follow f t nx
         | _ => []
         end
  end.

Definition lfirst (ls : list anode) (nxt : N) : N :=
  match ls with [] => nxt | L :: _ => nid L end.

Fixpoint linked (ls : list anode) (nxt : N) : Prop :=
  match ls with
  | [] => True
  | L :: r => (exists h es, L = AD h (lfirst r nxt) es) /\ linked r nxt
  end.

Lemma linked_app A B nxt : linked (A ++ B) nxt <-> linked A (lfirst B nxt) /\ linked B nxt.
Proof.
  induction A as [|L r IH]; [cbn; tauto|]. cbn [app linked]. rewrite IH.
  assert (E : lfirst (r ++ B) nxt = lfirst r (lfirst B nxt)) by (destruct r; reflexivity).
  rewrite E. tauto.
Qed.
Lemma lfirst_app A B nxt : lfirst (A ++ B) nxt = lfirst A (lfirst B nxt).
Proof. destruct A; reflexivity. Qed.
Lemma lfirst_ne A x y : A <> [] -> lfirst A x = lfirst A y.
Proof. destruct A; [congruence|reflexivity]. Qed.

Lemma leaves_linked n :
  shape n -> leaves n <> [] /\ (forall x, lfirst (leaves n) x = first_leaf_id n) /\
             (forall nxt, chain n nxt -> linked (leaves n) nxt).
Proof.
  induction n as [h nx es|h hs sums cs IH] using anode_ind'.
  - intros _. cbn. split; [congruence|]. split; [auto|]. intros nxt ->. split; [eauto|exact I].
  - intros Sh. apply shape_AM in Sh as (_ & Hne & Hf). cbn [leaves].
    assert (H : (cs <> [] -> flat_map leaves cs <> []) /\
                (forall x, lfirst (flat_map leaves cs) x = fl cs x) /\
                (forall nxt, chain_list cs nxt -> linked (flat_map leaves cs) nxt)).
    { clear Hne. induction IH as [|c r Hc Hr IHr].
      - cbn. split; [congruence|]. split; auto.
      - pose proof (Forall_inv Hf) as Sc. pose proof (Forall_inv_tail Hf) as Sr.
        destruct (Hc Sc) as (C1 & C2 & C3). destruct (IHr Sr) as (R1 & R2 & R3).
        cbn [flat_map]. split; [|split].
        + intros _ E. apply app_eq_nil in E. tauto.
        + intros x. rewrite lfirst_app. cbn [fl]. apply C2.
        + intros nxt. rewrite chain_list_cons, linked_app, R2. intros [A1 A2]. auto. }
    destruct H as (H1 & H2 & H3). split; [auto|]. split.
    + intros x. rewrite first_AM. rewrite H2. now apply fl_ne.
    + intros nxt. rewrite chain_AM. apply H3.
Qed.

Lemma to_list_leaves n : flat_map to_list (leaves n) = to_list n.
Proof.
  induction n as [h nx es|h hs sums cs IH] using anode_ind'.
  - cbn. apply app_nil_r.
  - cbn [leaves to_list]. induction IH as [|c r Hc Hr IHr]; [reflexivity|].
    cbn [flat_map]. now rewrite flat_map_app, Hc, IHr.
Qed.

Lemma leaf_in_tree_ids n L : In L (leaves n) -> In (nid L) (tree_ids n).
Proof.
  induction n as [h nx es|h hs sums cs IH] using anode_ind'.
  - cbn. intros [<-|[]]. now left.
  - cbn [leaves tree_ids]. rewrite in_flat_map. intros (c & Hc & HL). right.
    rewrite in_flat_map. exists c. split; [auto|]. rewrite Forall_forall in IH. auto.
Qed.

Lemma leaf_is_AD n L : In L (leaves n) -> exists h nx es, L = AD h nx es.
Proof.
  induction n as [h nx es|h hs sums cs IH] using anode_ind'.
  - cbn. intros [<-|[]]. eauto.
  - cbn [leaves]. rewrite in_flat_map. intros (c & Hc & HL). rewrite Forall_forall in IH. eauto.
Qed.

Lemma leaves_in_flat cs L : In L (flat_map leaves cs) -> In (nid L) (flat_map tree_ids cs).
Proof.
  rewrite !in_flat_map. intros (c & Hc & HL). exists c. split; [auto|]. now apply leaf_in_tree_ids.
Qed.

Lemma leaf_lookup_list cs :
  Forall (fun n => NoDup (tree_ids n) ->
            forall h nx es, In (AD h nx es) (leaves n) -> node_at n (h_id h) = Some (SD h nx es)) cs ->
  NoDup (flat_map tree_ids cs) ->
  forall h nx es, In (AD h nx es) (flat_map leaves cs) -> nodes_at cs (h_id h) = Some (SD h nx es).
Proof.
  induction 1 as [|c r Hc Hr IHr]; intros HN h nx es Hin; [destruct Hin|].
  cbn [flat_map] in Hin, HN. cbn [nodes_at].
  assert (Nc : NoDup (tree_ids c)).
  { revert HN. rewrite !nodup_cnt. intros HN x. specialize (HN x). cnt_norm. lia. }
  assert (Nr : NoDup (flat_map tree_ids r)).
  { revert HN. rewrite !nodup_cnt. intros HN x. specialize (HN x). cnt_norm. lia. }
  apply in_app_or in Hin as [Hin|Hin].
  - now rewrite (Hc Nc _ _ _ Hin).
  - assert (Hn : node_at c (h_id h) = None).
    { apply node_at_none. intros Hx. apply (nodup_app_disj _ _ _ HN Hx).
      apply (leaves_in_flat r (AD h nx es)). exact Hin. }
    rewrite Hn. now apply IHr.
Qed.

(* with unique slab indexes, looking a leaf up by its index finds that leaf *)
Lemma leaf_lookup n : NoDup (tree_ids n) ->
  forall h nx es, In (AD h nx es) (leaves n) -> node_at n (h_id h) = Some (SD h nx es).
Proof.
  induction n as [h0 nx0 es0|h0 hs sums cs IH] using anode_ind'; intros HN h nx es Hin.
  - cbn in Hin. destruct Hin as [[= -> -> ->]|[]]. cbn. now rewrite N.eqb_refl.
  - cbn [leaves] in Hin. pose proof (leaves_in_flat _ _ Hin) as Hid. unfold nid in Hid; cbn [hdr_of] in Hid.
    rewrite tree_ids_AM in HN. inversion HN as [|? ? Hnotin HN']; subst.
    rewrite node_at_AM. destruct (N.eqb_spec (h_id h0) (h_id h)) as [E|_]; [rewrite E in Hnotin; tauto|].
    now apply leaf_lookup_list.
Qed.

Lemma follow_linked t ls nxt :
  linked ls nxt ->
  (forall h nx es, In (AD h nx es) ls -> h_id h <> 0 /\ node_at t (h_id h) = Some (SD h nx es)) ->
  forall f, follow (length ls + f) t (lfirst ls nxt) = flat_map to_list ls ++ follow f t nxt.
Proof.
  induction ls as [|L r IH]; intros HL Hlk f; [reflexivity|].
  cbn [linked] in HL. destruct HL as ((h & es & ->) & HL).
  destruct (Hlk h _ es (or_introl eq_refl)) as [Hz Hn].
  cbn [length Nat.add follow lfirst]. unfold nid; cbn [hdr_of].
  replace (h_id h =? 0) with false by lia. rewrite Hn.
  rewrite IH; [|exact HL|intros; apply Hlk; now right].
  cbn [flat_map to_list]. now rewrite app_assoc.
Qed.

(** F3, traversal: the walk along the sibling links yields exactly the elements, in order, and
    ends by reaching the undefined link, not by running out of fuel *)
Theorem follow_to_list n :
  shape n -> chain n 0 -> NoDup (tree_ids n) -> Forall (fun i => 0 < i) (tree_ids n) ->
  forall fuel, (length (leaves n) <= fuel)%nat ->
  follow fuel n (first_leaf_id n) = to_list n.
Proof.
  intros Sh Ch HN HP fuel Hf. destruct (leaves_linked n Sh) as (L1 & L2 & L3).
  replace fuel with (length (leaves n) + (fuel - length (leaves n)))%nat by lia.
  rewrite <- (L2 0). rewrite follow_linked.
  - rewrite to_list_leaves. destruct (fuel - length (leaves n))%nat; cbn; apply app_nil_r.
  - auto.
  - intros h nx es Hin. split; [|now apply leaf_lookup].
    apply leaf_in_tree_ids in Hin. rewrite Forall_forall in HP. apply HP in Hin.
    unfold nid in Hin; cbn [hdr_of] in Hin. lia.
Qed.

(* for reachable arrays *)
Theorem follow_reachable a :
  ainv a -> forall fuel, (length (leaves (a_root a)) <= fuel)%nat ->
  follow fuel (a_root a) (first_leaf_id (a_root a)) = to_list (a_root a).
Proof.
  intros ((HN & HB) & Sh & Ch). apply follow_to_list; auto.
  - now apply nodup_tree_ids.
  - apply Forall_forall. intros x Hx. apply in_tree_slab in Hx. rewrite Forall_forall in HB.
    apply HB in Hx. tauto.
Qed.

(** * 20. Statements for the property files (reachable arrays) *)

Lemma reach_inv c rootid ti ops : 0 < rootid ->
  ainv (fst (a_run c (fst (arr_init rootid ti)) ops)) /\
  a_rootid (fst (a_run c (fst (arr_init rootid ti)) ops)) = rootid.
Proof. intros H. apply (ainv_run c ops _ (ainv_init rootid ti H)). Qed.

Lemma reach_ids : forall c rootid ti ops o, 0 < rootid ->
  let a := fst (a_run c (fst (arr_init rootid ti)) ops) in
  forall a' out lg, a_step c a o = (a', out, lg) ->
    ids_ok a /\ ids_ok a' /\ a_rootid a = rootid /\ a_rootid a' = rootid /\ a_alloc a <= a_alloc a' /\
    NoDup (slab_ids (a_root a') ++ removed lg ++ back_of o out) /\
    exists k, a_alloc a' = a_alloc a + N.of_nat k /\
              Permutation (slab_ids (a_root a') ++ removed lg ++ back_of o out)
                          (slab_ids (a_root a) ++ nseq (a_alloc a) k).
Proof.
  intros c rootid ti ops o H a a' out lg E. destruct (reach_inv c rootid ti ops H) as [(Hok & _) Hr].
  fold a in Hok, Hr. destruct (ids_step _ _ _ _ _ _ Hok E) as (H1 & H2 & H3 & H4 & H5).
  repeat (split; [first [assumption|congruence]|]). exact H5.
Qed.

Lemma reach_pop : forall c rootid ti ops, 0 < rootid ->
  let a := fst (a_run c (fst (arr_init rootid ti)) ops) in
  forall a' out lg, a_step c a OPop = (a', out, lg) ->
    slab_ids (a_root a') = [rootid] /\
    stored lg = [rootid] /\
    NoDup (rootid :: removed lg) /\
    Permutation (rootid :: removed lg) (tree_ids (a_root a)) /\
    exists l, out = RList l /\
              Permutation (ext_ids l) (ext_ids (to_list (a_root a))) /\
              Permutation (slab_ids (a_root a)) (rootid :: removed lg ++ ext_ids l).
Proof.
  intros c rootid ti ops H a a' out lg E. destruct (reach_inv c rootid ti ops H) as [((HN & _) & _) Hr].
  fold a in HN, Hr. cbn [a_step] in E. apply pop_releases_all in E as (H1 & H2 & H3 & H4 & H5).
  rewrite Hr in *. auto.
Qed.

Lemma reach_frame : forall c rootid ti ops o, 0 < rootid ->
  let a := fst (a_run c (fst (arr_init rootid ti)) ops) in
  forall a' out lg, a_step c a o = (a', out, lg) ->
    sar_free lg /\
    (forall id, a_alloc a < id <= a_alloc a' -> In (WStore id) lg) /\
    forall id,
      (~ touched lg id -> node_at (a_root a') id = node_at (a_root a) id) /\
      (last_ev lg id = Some EvStore ->
         node_at (a_root a') id <> None \/ In id (ext_ids (to_list (a_root a')))) /\
      (last_ev lg id = Some EvRemove ->
         node_at (a_root a') id = None /\ ~ In id (slab_ids (a_root a'))) /\
      (node_at (a_root a') id <> None -> node_at (a_root a) id = None -> last_ev lg id = Some EvStore).
Proof.
  intros c rootid ti ops o H a a' out lg E. destruct (reach_inv c rootid ti ops H) as [(Hok & _) _].
  fold a in Hok. split; [eapply log_no_store_after_remove; eauto|].
  split; [intros id; eapply fresh_ids_stored; eauto|]. eapply frame_step; eauto.
Qed.

Lemma reach_follow : forall c rootid ti ops, 0 < rootid ->
  let a := fst (a_run c (fst (arr_init rootid ti)) ops) in
  chain (a_root a) 0 /\
  forall fuel, (length (leaves (a_root a)) <= fuel)%nat ->
    follow fuel (a_root a) (first_leaf_id (a_root a)) = to_list (a_root a).
Proof.
  intros c rootid ti ops H a. destruct (reach_inv c rootid ti ops H) as [Hinv _]. fold a in Hinv.
  split; [apply Hinv|]. now apply follow_reachable.
Qed.
