(* MapBatch_proofs.v — NewMapFromBatchData and the map copy (theories/MapBatch.v), for EVERY legal
   slab size T, every digest assignment (any collisions), any number of digest levels >= 1 and
   every stream of pairs that is sorted by level-0 digest, free of duplicate keys and within the
   size contract of OrderedMap.Set ([pair_ok] of MapTreeOps_proofs / [mop_ok] of Map_proofs):
     - the construction never fails (no element, merge or lend error; the fuel of the level loop
       suffices);
     - the entries of the result in tree order are the dictionary obtained by inserting the stream
       pair by pair (d_ins: canonical order); on a canonically sorted stream that is the stream;
     - the result satisfies [minv] (the invariant carried by Map_proofs.mt_step_ok: tree invariant
       [mtwf], last sibling link, size discipline) and the full invariant [mtwf_full] (sibling
       chain, pairwise distinct identifiers within the allocator);
     - every identifier of the result was allocated by the call; the log only stores such ones;
     - an unsorted stream is refused with the digest-order error, a repeated key with the
       duplicate-key error, seed 0 with the seed error;
     - the copy is offered exactly under the Go predicate and yields an equal single-slab map.
   Reuses the slab-level lemmas of MapRebalance_proofs (lend_ok, merge_ok, cannot_lend_right_merge_le_max), the
   element-level specification of MapElems_proofs (set_spec) and the identifier accounting of
   MapFrame_proofs (set_ok, pair_seg, merge_seg). *)
From Coq Require Import ZArith NArith List Bool Arith Lia ZifyBool ZifyN ZifyNat Sorted Permutation.
From AtreeGen Require Import Consts.
From AtreeModel Require Import Settings MapElems MapElemsInv MapTree MapTreeInv MapBatch.
From AtreeProofs Require Import Settings_proofs ArrayList_lemmas MapElems_proofs MapTree_proofs
  MapRebalance_proofs MapFixup_proofs MapTreeOps_proofs Map_proofs MapFrame_proofs.
Import ListNotations.
Local Open Scope N_scope.
Ltac Zify.zify_post_hook ::= Z.div_mod_to_equations.

(** * 0. Lists *)

(* all but the last satisfy A, the last satisfies B *)
Fixpoint abl {X} (A B : X -> Prop) (l : list X) : Prop :=
  match l with
  | [] => False
  | x :: r => match r with [] => B x | _ :: _ => A x /\ abl A B r end
  end.

Lemma abl_cons {X} (A B : X -> Prop) x r : r <> [] -> (abl A B (x :: r) <-> A x /\ abl A B r).
Proof. destruct r; [congruence|]. intros _. cbn [abl]. tauto. Qed.

Lemma abl_ne {X} (A B : X -> Prop) l : abl A B l -> l <> [].
Proof. destruct l; [intros []|congruence]. Qed.

Lemma abl_split {X} (A B : X -> Prop) l : abl A B l ->
  (exists x, l = [x] /\ B x) \/
  (exists pre a b, l = pre ++ [a; b] /\ Forall A pre /\ A a /\ B b).
Proof.
  induction l as [|x r IH]; [intros []|]. destruct r as [|y r'].
  - intros H. left. exists x. auto.
  - intros [Hx Hr]. right. destruct (IH Hr) as [(z & E & Hz)|(pre & a & b & E & Hp & Ha & Hb)].
    + injection E as -> ->. exists [], x, z. repeat split; auto.
    + exists (x :: pre), a, b. rewrite E. repeat split; auto.
Qed.

Lemma abl_app {X} (A B : X -> Prop) pre l : Forall A pre -> abl A B l -> abl A B (pre ++ l).
Proof.
  intros Hp Hl. induction Hp as [|x pre Hx _ IH]; [exact Hl|].
  cbn [app]. apply abl_cons; [|split; assumption].
  intros E. apply app_eq_nil in E as [_ E]. subst l. destruct Hl.
Qed.

Lemma abl_all {X} (A : X -> Prop) l : l <> [] -> Forall A l -> abl A A l.
Proof.
  induction l as [|x r IH]; [congruence|]. intros _ H. inversion H; subst.
  destruct r as [|y r']; [assumption|]. split; [assumption|]. apply IH; [discriminate|assumption].
Qed.

Lemma abl_weaken {X} (A B A' B' : X -> Prop) l :
  (forall x, A x -> A' x) -> (forall x, B x -> B' x) -> abl A B l -> abl A' B' l.
Proof.
  intros HA HB. induction l as [|x r IH]; [auto|]. destruct r as [|y r'].
  - apply HB.
  - intros [Hx Hr]. split; [apply HA, Hx|apply IH, Hr].
Qed.

Lemma list_two_end {X} (l : list X) : (2 <= length l)%nat -> exists pre a b, l = pre ++ [a; b].
Proof.
  induction l as [|x r IH]; cbn [length]; [lia|]. intros H.
  destruct r as [|y r']; [cbn in H; lia|]. destruct r' as [|z r''].
  - exists [], x, y. reflexivity.
  - destruct IH as (pre & a & b & E); [cbn [length]; lia|]. exists (x :: pre), a, b. rewrite E. reflexivity.
Qed.

Lemma nodup_app_intro {X} (a b : list X) : NoDup a -> NoDup b -> (forall x, In x a -> In x b -> False) -> NoDup (a ++ b).
Proof.
  induction 1 as [|x a Hx Ha IH]; intros Hb Hd; cbn; [assumption|]. constructor.
  - rewrite in_app_iff. intros [H|H]; [tauto|]. eapply Hd; [now left|eassumption].
  - apply IH; [assumption|]. intros y Hy. apply Hd. now right.
Qed.

Lemma ssorted_snoc (l : list N) x : ssorted l -> Forall (fun y => y < x) l -> ssorted (l ++ [x]).
Proof.
  intros Hs Hf. replace l with (l ++ []) in Hs by apply app_nil_r.
  apply ssorted_insert; [exact Hs|exact Hf|constructor].
Qed.

Lemma ssorted_last_lt (l : list N) x y : ssorted (l ++ [x]) -> In y l -> y < x.
Proof. intros H Hy. apply (ssorted_app_lt _ _ H); [exact Hy|now left]. Qed.

Lemma ssorted_cons_inv (x : N) l : ssorted (x :: l) -> ssorted l /\ Forall (fun y => x < y) l.
Proof. intros H. inversion H; subst. split; assumption. Qed.

(** * 1. The element level: Set never removes *)
Section setlog.
  Variable dg : N -> nat -> N.
  Variable levels : nat.
  Variable max_inline_elem limit : N.
  Local Notation set_elem := (set_elem dg levels max_inline_elem limit).
  Local Notation set_elems := (set_elems dg levels max_inline_elem limit).

  Lemma set_no_remove : forall f,
    (forall e l k v a e' prev a' evs, set_elem f e l k v a = inr (e', prev, a', evs) -> removed evs = []) /\
    (forall g l k v a g' prev a' evs, set_elems f g l k v a = inr (g', prev, a', evs) -> removed evs = []).
  Proof.
    induction f as [|f [IHe IHg]]; [split; intros; discriminate|]. split.
    - intros e l k v a e' prev a' evs H. rewrite set_elem_S in H.
      destruct e as [k0 v0|[id|] g].
      + destruct (kid k0 =? kid k); [injection H as <- <- <- <-; reflexivity|].
        destruct (S l =? levels)%nat; eapply IHe; exact H.
      + cbv zeta in H. destruct (levels <? S l)%nat; [discriminate|].
        destruct (set_elems f g (S l) k v a) as [err|[[[g' prev'] a1] evs1]] eqn:E; [discriminate|].
        injection H as <- <- <- <-. rewrite removed_app. erewrite IHg by exact E. reflexivity.
      + cbv zeta in H. destruct (levels <? S l)%nat; [discriminate|].
        destruct (set_elems f g (S l) k v a) as [err|[[[g' prev'] a1] evs1]] eqn:E; [discriminate|].
        destruct ((S l =? 1)%nat && _); injection H as <- <- <- <-.
        * rewrite removed_app. erewrite IHg by exact E. reflexivity.
        * eapply IHg; exact E.
    - intros g l k v a g' prev a' evs H. rewrite set_elems_S in H.
      destruct g as [lv hks es sz|lv kvs sz].
      + cbv zeta in H. destruct (levels <=? l)%nat; [discriminate|].
        destruct hks as [|h0 hks0]; [injection H as <- <- <- <-; reflexivity|].
        destruct (dg (kid k) l <? h0); [injection H as <- <- <- <-; reflexivity|].
        destruct (last (h0 :: hks0) 0 <? dg (kid k) l); [injection H as <- <- <- <-; reflexivity|].
        destruct (hk_search (h0 :: hks0) (dg (kid k) l)) as [[i|] lt]; [|injection H as <- <- <- <-; reflexivity].
        destruct (nth_error es i) as [e|]; [|discriminate].
        match type of H with match ?r with _ => _ end = _ => destruct r; [discriminate|] end.
        destruct (set_elem f e l k v a) as [err|[[[e' prev'] a1] evs1]] eqn:E; [discriminate|].
        injection H as <- <- <- <-. eapply IHe; exact E.
      + destruct (negb (l =? levels)%nat); [discriminate|].
        destruct (find_key (kid k) kvs) as [i|].
        * destruct (nth_error kvs i) as [[k0 v0]|]; [|discriminate]. injection H as <- <- <- <-. reflexivity.
        * injection H as <- <- <- <-. reflexivity.
  Qed.
End setlog.

(** * 2. The stream *)
Section stream.
  Variable dg : N -> nat -> N.
  Variable levels : nat.

  Definition d0 (p : kv * kv) : N := dg (kid (fst p)) 0.

  (* level-0 digests never decrease, starting from [prev] (the Go variable prevHkey) *)
  Fixpoint sorted_from (prev : N) (st : dict) : Prop :=
    match st with
    | [] => True
    | p :: r => prev <= d0 p /\ sorted_from (d0 p) r
    end.

  (* the dictionary obtained by inserting the stream pair by pair *)
  Definition ins_all (d : dict) (st : dict) : dict :=
    fold_left (fun acc p => d_ins dg levels acc (fst p) (snd p)) st d.

  Lemma sorted_from_weaken lo lo' st : lo' <= lo -> sorted_from lo st -> sorted_from lo' st.
  Proof. destruct st as [|p r]; [auto|]. cbn. intros H [H1 H2]. split; [lia|exact H2]. Qed.

  Lemma sorted_from_Forall lo st : sorted_from lo st -> Forall (fun p => lo <= d0 p) st.
  Proof.
    revert lo; induction st as [|p r IH]; intros lo H; [constructor|]. destruct H as [H1 H2].
    constructor; [exact H1|]. eapply Forall_impl; [|apply IH, H2]. cbn. intros; lia.
  Qed.

  Lemma sorted_from_Sorted st : Sorted (fun p q => d0 p <= d0 q) st -> sorted_from 0 st.
  Proof.
    intros H. assert (G : forall lo, match st with [] => True | p :: _ => lo <= d0 p end -> sorted_from lo st).
    { induction H as [|p r Hr IH Hd]; intros lo Hlo; [exact I|]. split; [exact Hlo|].
      apply IH. destruct Hd; [exact I|assumption]. }
    apply G. destruct st; [exact I|lia].
  Qed.

  Lemma dlt_lt_false n l a b : dg b l < dg a l -> dlt dg (S n) l a b = false.
  Proof.
    intros H. cbn [dlt]. replace (dg a l <? dg b l) with false by (symmetry; apply N.ltb_ge; lia).
    replace (dg a l =? dg b l) with false by (symmetry; apply N.eqb_neq; lia). reflexivity.
  Qed.

  Lemma ins_all_Forall (Q : kv * kv -> Prop) d st : Forall Q d -> Forall Q st -> Forall Q (ins_all d st).
  Proof.
    revert d; induction st as [|p r IH]; intros d Hd Hs; [exact Hd|].
    inversion Hs; subst. cbn [ins_all fold_left]. apply IH; [|assumption].
    unfold d_ins. apply d_ins_from_Forall; [assumption|]. destruct p; assumption.
  Qed.

  Lemma ins_all_length d st : length (ins_all d st) = (length d + length st)%nat.
  Proof.
    revert d; induction st as [|p r IH]; intros d; cbn [ins_all fold_left length]; [lia|].
    fold (ins_all (d_ins dg levels d (fst p) (snd p)) r). rewrite IH. unfold d_ins. rewrite d_ins_from_length. lia.
  Qed.

  (* entries whose level-0 digest is below everything still to come are never moved *)
  Lemma ins_all_app_l lo A B st : (0 < levels)%nat ->
    Forall (fun p => d0 p < lo) A -> Forall (fun p => lo <= d0 p) st ->
    ins_all (A ++ B) st = A ++ ins_all B st.
  Proof.
    intros Hlv HA. revert B; induction st as [|p r IH]; intros B Hs; [reflexivity|].
    inversion Hs; subst. cbn [ins_all fold_left].
    fold (ins_all (d_ins dg levels (A ++ B) (fst p) (snd p)) r). fold (ins_all (d_ins dg levels B (fst p) (snd p)) r).
    unfold d_ins. rewrite d_ins_from_app_l.
    - apply IH. assumption.
    - eapply Forall_impl; [|exact HA]. cbn. intros q Hq. destruct levels as [|n]; [lia|].
      apply dlt_lt_false. unfold d0 in *. lia.
  Qed.

  (* a canonically sorted stream is its own dictionary *)
  Definition canon_sorted (st : dict) : Prop :=
    StronglySorted (fun p q => key_lt dg levels (kid (fst q)) (kid (fst p)) = false) st.

  Lemma d_ins_from_end n l d k v :
    Forall (fun p : kv * kv => dlt dg n l (kid k) (kid (fst p)) = false) d -> d_ins_from dg n l d k v = d ++ [(k, v)].
  Proof. intros H. rewrite <- (app_nil_r d) at 1. rewrite d_ins_from_app_l by exact H. reflexivity. Qed.

  Lemma ins_all_canon d st : canon_sorted (d ++ st) -> ins_all d st = d ++ st.
  Proof.
    revert d; induction st as [|p r IH]; intros d H; [symmetry; apply app_nil_r|].
    cbn [ins_all fold_left]. fold (ins_all (d_ins dg levels d (fst p) (snd p)) r).
    unfold d_ins. rewrite d_ins_from_end.
    - destruct p as [k v]. cbn [fst snd] in *. rewrite IH; rewrite <- app_assoc; [reflexivity|exact H].
    - clear IH. unfold canon_sorted in H. induction d as [|q d IHd]; [constructor|].
      cbn [app] in H. inversion H as [|? ? Hs Hf]; subst. constructor; [|apply IHd, Hs].
      rewrite Forall_app in Hf. destruct Hf as [_ Hf]. inversion Hf; subst. assumption.
  Qed.
End stream.

(** * 3. The construction, for every legal T *)
Section WithT.
Variable dg : N -> nat -> N.
Variable levels : nat.
Variable T : N.
Hypothesis HT : valid_T T.
Hypothesis Hlv : (0 < levels)%nat.
Variable limit : N.
Variable ks : N -> N.
Local Notation c := (set_threshold T).
Local Notation M := (cinl_melem (set_threshold T)).
Local Notation mwfn := (mwfn dg levels c).
Local Notation mwf_root := (mwf_root dg levels c).
Local Notation mtwf := (mtwf dg levels c).
Local Notation in_band := (in_band c).
Local Notation ewf_e := (ewf_e dg levels).
Local Notation ewf_g := (ewf_g dg levels).
Local Notation pair_ok := (pair_ok T ks).
Local Notation pairs_ok := (pairs_ok T ks).
Local Notation set_elem := (set_elem dg levels M limit).
Local Notation d0 := (d0 dg).
Local Notation sorted_from := (sorted_from dg).
Local Notation ins_all := (ins_all dg levels).
Local Notation mfill := (mfill dg levels M limit c).
Local Notation close_leaf := close_leaf.
Local Notation mwfn_0_inv := (mwfn_0_inv dg levels T).
Local Notation mwfn_S_inv := (mwfn_S_inv dg levels T HT Hlv).
Local Notation mwfn_0_intro := (mwfn_0_intro dg levels T Hlv).
Local Notation mwfn_MM_intro := (mwfn_MM_intro dg levels T HT Hlv).

(** ** 3.1 element.Set on the last element of the current data slab *)
Lemma set_elem0_ok pe h k v alloc :
  ewf_e 0 h pe -> dg (kid k) 0 = h -> ~ In (kid k) (dkeys (to_list_e pe)) ->
  pairs_ok (to_list_e pe) -> pair_ok (k, v) ->
  exists e' alloc' evs n,
    set_elem (op_fuel levels) pe 0 k v (alloc + 1) = inr (e', None, alloc' + 1, evs) /\
    ewf_e 0 h e' /\ elem_ok c e' /\
    to_list_e e' = d_ins_from dg levels 0 (to_list_e pe) k v /\
    alloc' = alloc + N.of_nat n /\ Permutation (eids_e e') (eids_e pe ++ nseq alloc n) /\
    (forall i, In i (stored evs) -> In i (eids_e e')) /\ removed evs = [].
Proof.
  intros He Hh Hnk Hp Hkv.
  destruct (set_spec dg levels M limit (op_fuel levels)) as [SE _].
  destruct (SE pe 0%nat h k v (alloc + 1)) as (e' & a' & evs & Eq & W & TL & _);
    [unfold op_fuel; destruct (is_group pe); lia|exact Hlv|apply ewf_e_weak, He|exact Hh|].
  assert (Dn : d_get (to_list_e pe) (kid k) = None) by (apply d_get_none_iff; exact Hnk).
  rewrite Dn in Eq. cbn [option_map] in Eq.
  rewrite Nat.sub_0_r in TL. unfold d_set_from in TL. rewrite Dn in TL.
  destruct (set_ok dg levels M limit (op_fuel levels)) as [SO _].
  destruct (SO pe 0%nat k v alloc e' None a' evs (proj1 (ewf_eshape dg levels) _ _ _ He) Eq) as (alloc' & Ea & _ & St).
  pose proof (proj1 (set_no_remove dg levels M limit (op_fuel levels)) _ _ _ _ _ _ _ _ _ Eq) as Hr.
  destruct (xs_acct _ _ _ _ _ _ _ St) as (n & En & HP & _).
  rewrite Hr, app_nil_r in HP.
  assert (Hlen : (2 <= length (to_list_e e'))%nat).
  { rewrite TL, d_ins_from_length. pose proof (ewf_e_nonempty _ _ _ _ _ He). lia. }
  assert (Hp' : pairs_ok (to_list_e e')).
  { rewrite TL. apply d_ins_from_Forall; assumption. }
  exists e', alloc', evs, n. subst a'. split; [exact Eq|].
  split; [apply ewf_ew_strong; [exact W|intros _; exact Hlen]|].
  split.
  { assert (F : Forall (elem_ok c) [e']).
    { apply (elem_ok_of dg levels T HT Hlv limit ks).
      - constructor; [|constructor]. eapply set_elem_inl_ok; exact Eq.
      - cbn [flat_map]. rewrite app_nil_r. exact Hp'. }
    apply Forall_inv in F. exact F. }
  split; [exact TL|]. split; [exact En|]. split; [exact HP|]. split; [|exact Hr].
  intros i Hi. destruct (xs_stored _ _ _ _ _ _ _ St i Hi) as [H|H]; [exact H|]. rewrite Hr in H. destruct H.
Qed.
(** ** 3.2 the data slab under construction *)
Ltac tlia := change (cT (set_threshold T)) with T in *; mcfg_lia.

Lemma Forall2_snoc_inv {A B} (R : A -> B -> Prop) l1 a l2 b :
  Forall2 R (l1 ++ [a]) (l2 ++ [b]) -> Forall2 R l1 l2 /\ R a b.
Proof.
  intros H. pose proof (Forall2_len _ _ _ H) as Hl. rewrite !app_length in Hl. cbn in Hl.
  destruct (Forall2_app_inv_both R l1 [a] l2 [b]) as [H1 H2]; [lia|exact H|].
  split; [exact H1|]. inversion H2; subst. assumption.
Qed.

Lemma log_stores (Q : N -> Prop) lg :
  removed lg = [] -> (forall i, In i (stored lg) -> Q i) -> Forall (fun w => exists i, w = WStore i /\ Q i) lg.
Proof.
  induction lg as [|[i|i] r IH]; intros Hr Hs; [constructor| |discriminate].
  constructor.
  - exists i. split; [reflexivity|]. apply Hs. now left.
  - apply IH; [exact Hr|]. intros j Hj. apply Hs. now right.
Qed.

Lemma hkr_nil : hk_recompute [] = HP.
Proof. reflexivity. Qed.
Lemma hkr_snoc a e : hk_recompute (a ++ [e]) = hk_recompute a + ecost e.
Proof. rewrite hkr_mid, app_nil_r. reflexivity. Qed.

Lemma elem_ok_cost e : elem_ok c e -> 0 < ecost e <= Emax c.
Proof. unfold elem_ok, ecost, Emax, c_digestSize. lia. Qed.

Record acc_ok (lo id : N) (rhks : list N) (rels : list melem) (size prev count alloc : N) : Prop := {
  ao_sorted : ssorted (rev rhks);
  ao_wf : Forall2 (ewf_e 0) (rev rhks) (rev rels);
  ao_elems : Forall (elem_ok c) (rev rels);
  ao_size : size = hk_recompute (rev rels);
  ao_last : match rels, rhks with
            | [], [] => count = 0 /\ prev = 0
            | _ :: rels', h :: _ => 0 < count /\ prev = h /\ P + hk_recompute (rev rels') < cT c
            | _, _ => False
            end;
  ao_pairs : pairs_ok (flat_map to_list_e (rev rels));
  ao_id : lo < id <= alloc;
  ao_ids : NoDup (id :: flat_map eids_e (rev rels));
  ao_rng : Forall (fun i => lo < i <= alloc) (flat_map eids_e (rev rels))
}.

Definition fresh_last (rels : list melem) (st : dict) : Prop :=
  match rels with
  | pe :: _ => Forall (fun p : kv * kv => ~ In (kid (fst p)) (dkeys (to_list_e pe))) st
  | [] => True
  end.

Lemma acc_size_bound lo id rhks rels size prev count alloc :
  acc_ok lo id rhks rels size prev count alloc -> P + size <= cmax c /\ P + HP <= P + size.
Proof.
  intros A. rewrite (ao_size _ _ _ _ _ _ _ _ A). pose proof (hkr_ge (rev rels)). split; [|lia].
  pose proof (ao_last _ _ _ _ _ _ _ _ A) as L. pose proof (ao_elems _ _ _ _ _ _ _ _ A) as E.
  destruct rels as [|e rels']; destruct rhks as [|h rh']; try contradiction.
  - cbn [rev]. rewrite hkr_nil. tlia.
  - destruct L as (_ & _ & L). cbn [rev] in *. rewrite hkr_snoc.
    apply Forall_app in E. destruct E as [_ E]. apply Forall_inv in E. apply elem_ok_cost in E. tlia.
Qed.

Lemma close_leaf_facts lo id nx rhks rels size prev count alloc :
  acc_ok lo id rhks rels size prev count alloc ->
  let n := close_leaf id nx rhks rels size in
  mwfn 0 n /\ mh_size (hdr_of n) = P + size /\ keys_of n = rev rhks /\
  to_list_tree n = flat_map to_list_e (rev rels) /\ mslab_ids n = id :: flat_map eids_e (rev rels) /\
  first_leaf_id n = id /\ chain n nx /\ elems_flat n = rev rels.
Proof.
  intros A n. subst n. unfold close_leaf. rewrite (ao_size _ _ _ _ _ _ _ _ A).
  split; [|cbn [hdr_of mh_size keys_of g_hkeys to_list_tree to_list mslab_ids first_leaf_id chain mh_id elems_flat g_elems];
           rewrite gids_HKey; repeat split; reflexivity].
  apply mwfn_0_intro; try apply A; cbn [mh_first mh_size]; [apply efirst_hd|reflexivity].
Qed.

(* appending a non-colliding element without closing *)
Lemma acc_append lo id rhks rels size prev count alloc k v :
  acc_ok lo id rhks rels size prev count alloc -> pair_ok (k, v) ->
  prev <= dg (kid k) 0 -> (dg (kid k) 0 =? prev) && (0 <? count) = false ->
  P + size < cT c ->
  acc_ok lo id (dg (kid k) 0 :: rhks) (ESingle k v :: rels)
         (size + (c_digestSize + esize (ESingle k v))) (dg (kid k) 0) (count + 1) alloc.
Proof.
  intros A Hkv Hle Hnc Hsz. set (h := dg (kid k) 0) in *.
  assert (Hlt : Forall (fun y => y < h) (rev rhks)).
  { pose proof (ao_last _ _ _ _ _ _ _ _ A) as L. pose proof (ao_sorted _ _ _ _ _ _ _ _ A) as S.
    destruct rels as [|e rels']; destruct rhks as [|hl rh']; try contradiction; [constructor|].
    destruct L as (Hc & -> & _). assert (hl < h) by lia.
    cbn [rev] in *. apply Forall_app. split; [|repeat constructor; assumption].
    rewrite Forall_forall. intros y Hy. pose proof (ssorted_last_lt _ _ _ S Hy). lia. }
  split; cbn [rev].
  - apply ssorted_snoc; [apply A|exact Hlt].
  - apply Forall2_app; [apply A|]. constructor; [apply wf_single|constructor].
  - apply Forall_app. split; [apply A|]. constructor; [|constructor]. unfold elem_ok. cbn [esize]. apply Hkv.
  - rewrite hkr_snoc, (ao_size _ _ _ _ _ _ _ _ A). unfold ecost. lia.
  - split; [lia|]. split; [reflexivity|]. rewrite <- (ao_size _ _ _ _ _ _ _ _ A). exact Hsz.
  - rewrite flat_map_app. apply Forall_app. split; [apply A|]. cbn. repeat constructor; apply Hkv.
  - apply A.
  - rewrite flat_map_app. cbn [flat_map eids_e]. rewrite !app_nil_r. apply A.
  - rewrite flat_map_app. cbn [flat_map eids_e]. rewrite !app_nil_r. apply A.
Qed.

(* the first element of a fresh data slab *)
Lemma acc_fresh lo nid k v count : lo < nid -> pair_ok (k, v) ->
  acc_ok lo nid [dg (kid k) 0] [ESingle k v] (HP + (c_digestSize + esize (ESingle k v))) (dg (kid k) 0) (count + 1) nid.
Proof.
  intros H Hkv.
  split; cbn [rev app flat_map eids_e].
  - repeat constructor.
  - constructor; [apply wf_single|constructor].
  - constructor; [|constructor]. unfold elem_ok. cbn [esize]. apply Hkv.
  - rewrite hkr_cons, hkr_nil. unfold ecost. lia.
  - split; [lia|]. split; [reflexivity|]. rewrite hkr_nil. tlia.
  - cbn. repeat constructor; apply Hkv.
  - lia.
  - repeat constructor. intros [].
  - constructor.
Qed.

(* the closing test: a slab is closed exactly when it has reached the target size *)
Lemma close_test lo id rhks rels size prev count alloc k v :
  acc_ok lo id rhks rels size prev count alloc -> pair_ok (k, v) ->
  (cT c <=? P + size) || (cmax c <? P + size + (c_digestSize + esize (ESingle k v))) = (cT c <=? P + size).
Proof.
  intros A Hkv. destruct (cT c <=? P + size) eqn:E; [reflexivity|]. cbn [orb]. apply N.leb_gt in E.
  apply N.ltb_ge. cbn [esize]. destruct Hkv as [_ Hkv]. cbn [fst snd] in Hkv. unfold ssize in *. tlia.
Qed.
(* a colliding element: element.Set on the last element of the slab under construction *)
Lemma acc_collide lo id hl rh' pe rels' size count alloc k v :
  acc_ok lo id (hl :: rh') (pe :: rels') size hl count alloc -> pair_ok (k, v) ->
  dg (kid k) 0 = hl -> ~ In (kid k) (dkeys (to_list_e pe)) ->
  exists e' alloc' evs,
    set_elem (op_fuel levels) pe 0 k v (alloc + 1) = inr (e', None, alloc' + 1, evs) /\
    acc_ok lo id (hl :: rh') (e' :: rels') ((size + esize e') - esize pe) hl (count + 1) alloc' /\
    flat_map to_list_e (rev (e' :: rels')) = d_ins dg levels (flat_map to_list_e (rev (pe :: rels'))) k v /\
    alloc <= alloc' /\
    Forall (fun w => exists i, w = WStore i /\ lo < i <= alloc') evs /\
    (forall x, In x (dkeys (to_list_e e')) <-> x = kid k \/ In x (dkeys (to_list_e pe))).
Proof.
  intros A Hkv Hh Hnk.
  pose proof (ao_wf _ _ _ _ _ _ _ _ A) as W. cbn [rev] in W. apply Forall2_snoc_inv in W as [F' He].
  pose proof (ao_pairs _ _ _ _ _ _ _ _ A) as Pp. cbn [rev] in Pp. rewrite flat_map_app in Pp.
  apply Forall_app in Pp as [Pp' Ppe]. cbn [flat_map] in Ppe. rewrite app_nil_r in Ppe.
  pose proof (ao_elems _ _ _ _ _ _ _ _ A) as El. cbn [rev] in El. apply Forall_app in El as [El' _].
  pose proof (ao_sorted _ _ _ _ _ _ _ _ A) as Ss. cbn [rev] in Ss.
  pose proof (ao_ids _ _ _ _ _ _ _ _ A) as Nd. cbn [rev] in Nd. rewrite flat_map_app in Nd. cbn [flat_map] in Nd. rewrite app_nil_r in Nd.
  pose proof (ao_rng _ _ _ _ _ _ _ _ A) as Rg. cbn [rev] in Rg. rewrite flat_map_app in Rg. cbn [flat_map] in Rg. rewrite app_nil_r in Rg.
  apply Forall_app in Rg as [Rg' Rgp].
  pose proof (ao_id _ _ _ _ _ _ _ _ A) as Hid.
  destruct (set_elem0_ok pe hl k v alloc He Hh Hnk Ppe Hkv) as (e' & alloc' & evs & n & Eq & He' & Hok & TL & En & HP & Hst & Hr).
  assert (Hin : forall x, In x (eids_e e') -> lo < x <= alloc').
  { intros x Hx. eapply Permutation_in in Hx; [|exact HP]. apply in_app_or in Hx as [Hx|Hx].
    - rewrite Forall_forall in Rgp. apply Rgp in Hx. lia.
    - apply in_nseq in Hx. lia. }
  exists e', alloc', evs. split; [exact Eq|]. split; [|split; [|split; [lia|split]]].
  - split; cbn [rev].
    + exact Ss.
    + apply Forall2_app; [exact F'|]. constructor; [exact He'|constructor].
    + apply Forall_app. split; [exact El'|]. constructor; [exact Hok|constructor].
    + rewrite hkr_snoc. rewrite (ao_size _ _ _ _ _ _ _ _ A). cbn [rev]. rewrite hkr_snoc. unfold ecost. lia.
    + pose proof (ao_last _ _ _ _ _ _ _ _ A) as L. cbn in L. destruct L as (L1 & _ & L3). split; [lia|]. split; [reflexivity|exact L3].
    + rewrite flat_map_app. apply Forall_app. split; [exact Pp'|]. cbn [flat_map]. rewrite app_nil_r, TL.
      apply d_ins_from_Forall; assumption.
    + lia.
    + rewrite flat_map_app. cbn [flat_map]. rewrite app_nil_r.
      assert (B : bnd alloc (id :: flat_map eids_e (rev rels') ++ eids_e pe)).
      { constructor; [lia|]. apply Forall_app. split; (eapply Forall_impl; [|eassumption]); cbn; intros; lia. }
      pose proof (nodup_app_nseq _ alloc n Nd B) as N2.
      eapply Permutation_NoDup; [|exact N2]. perm_solve.
    + rewrite flat_map_app. cbn [flat_map]. rewrite app_nil_r. apply Forall_app. split.
      * eapply Forall_impl; [|exact Rg']. cbn. intros; lia.
      * rewrite Forall_forall. exact Hin.
  - cbn [rev]. rewrite !flat_map_app. cbn [flat_map]. rewrite !app_nil_r, TL. unfold d_ins.
    rewrite d_ins_from_app_l; [reflexivity|].
    assert (Hlt : Forall (fun y => y < hl) (rev rh')).
    { rewrite Forall_forall. intros y Hy. apply (ssorted_last_lt _ _ _ Ss Hy). }
    pose proof (ewf_flat_keys dg levels (fun x => x < hl) 0 _ _ F' Hlt) as Fk.
    eapply Forall_impl; [|exact Fk]. cbn. intros q Hq. destruct levels as [|m]; [lia|].
    apply dlt_lt_false. rewrite Hh. exact Hq.
  - apply log_stores; [exact Hr|]. intros i Hi. apply Hin, Hst, Hi.
  - intros x. rewrite TL. apply d_ins_from_keys.
Qed.
(** ** 3.3 the filling loop *)
Lemma acc_keys_lt lo id rhks rels size prev count alloc h :
  acc_ok lo id rhks rels size prev count alloc ->
  prev <= h -> (h =? prev) && (0 <? count) = false -> Forall (fun y => y < h) (rev rhks).
Proof.
  intros A Hle Hnc.
  pose proof (ao_last _ _ _ _ _ _ _ _ A) as L. pose proof (ao_sorted _ _ _ _ _ _ _ _ A) as S.
  destruct rels as [|e rels']; destruct rhks as [|hl rh']; try contradiction; [constructor|].
  destruct L as (Hc & -> & _). assert (hl < h) by lia.
  cbn [rev] in *. apply Forall_app. split; [|repeat constructor; assumption].
  rewrite Forall_forall. intros y Hy. pose proof (ssorted_last_lt _ _ _ S Hy). lia.
Qed.

Lemma acc_content_lt lo id rhks rels size prev count alloc h :
  acc_ok lo id rhks rels size prev count alloc ->
  prev <= h -> (h =? prev) && (0 <? count) = false ->
  Forall (fun p => d0 p < h) (flat_map to_list_e (rev rels)).
Proof.
  intros A Hle Hnc. pose proof (acc_keys_lt _ _ _ _ _ _ _ _ h A Hle Hnc) as Hlt.
  exact (ewf_flat_keys dg levels (fun x => x < h) 0 _ _ (ao_wf _ _ _ _ _ _ _ _ A) Hlt).
Qed.

Lemma d_ins_end L k v : Forall (fun p => d0 p < dg (kid k) 0) L -> d_ins dg levels L k v = L ++ [(k, v)].
Proof.
  intros H. unfold d_ins. apply d_ins_from_end. eapply Forall_impl; [|exact H]. cbn. intros q Hq.
  destruct levels as [|m]; [lia|]. apply dlt_lt_false. exact Hq.
Qed.

Definition leaf_closed (n : mnode) : Prop := mwfn 0 n /\ cT c <= mh_size (hdr_of n) <= cmax c.
Definition leaf_last (n : mnode) : Prop := mwfn 0 n /\ mh_size (hdr_of n) <= cmax c.

Record fill_post (lo id : N) (els : list melem) (hks : list N) (st : dict) (count alloc : N)
                 (slabs : list mnode) (cnt alloc' : N) (lg : wlog) : Prop := {
  fp_cnt : cnt = count + N.of_nat (length st);
  fp_abl : abl leaf_closed leaf_last slabs;
  fp_keys : exists K, flat_map keys_of slabs = hks ++ K /\ ssorted (hks ++ K);
  fp_list : flat_map to_list_tree slabs = ins_all (flat_map to_list_e els) st;
  fp_first : fl slabs 0 = id;
  fp_chain : chain_list slabs 0;
  fp_alloc : alloc <= alloc';
  fp_nodup : NoDup (flat_map mslab_ids slabs);
  fp_rng : Forall (fun i => lo < i <= alloc') (flat_map mslab_ids slabs);
  fp_log : Forall (fun w => exists i, w = WStore i /\ lo < i <= alloc') lg;
  fp_len : (length slabs <= S (length st))%nat
}.

Lemma fresh_next (k : kv) (v : kv) r e' (Q : N -> Prop) :
  NoDup (dkeys ((k, v) :: r)) ->
  (forall x, In x (dkeys (to_list_e e')) -> x = kid k \/ Q x) ->
  Forall (fun p : kv * kv => ~ Q (kid (fst p))) r ->
  Forall (fun p : kv * kv => ~ In (kid (fst p)) (dkeys (to_list_e e'))) r.
Proof.
  intros Hnd Hk Hq. cbn [dkeys map fst] in Hnd. inversion Hnd as [|? ? Hn Hnd']; subst.
  rewrite Forall_forall in *. intros p Hp Hin. apply Hk in Hin as [E|E].
  - apply Hn. rewrite <- E. unfold dkeys. apply in_map_iff. exists p. auto.
  - exact (Hq p Hp E).
Qed.

Lemma fill_spec : forall st lo id rhks rels size prev count alloc,
  acc_ok lo id rhks rels size prev count alloc ->
  sorted_from prev st -> NoDup (dkeys st) -> fresh_last rels st -> Forall pair_ok st ->
  exists slabs cnt alloc' lg,
    mfill st id rhks rels size prev count alloc = BOk (slabs, cnt, alloc', lg) /\
    fill_post lo id (rev rels) (rev rhks) st count alloc slabs cnt alloc' lg.
Proof.
  induction st as [|[k v] r IH]; intros lo id rhks rels size prev count alloc A Hs Hnd Hfr Hp.
  - (* end of the stream: the last data slab *)
    cbn [MapBatch.mfill]. do 4 eexists. split; [reflexivity|].
    destruct (close_leaf_facts lo id 0 _ _ _ _ _ _ A) as (W & Sz & Ky & Tl & Ids & Fi & Ch & _).
    split; cbn [length flat_map abl fl chain_list]; rewrite ?app_nil_r.
    + cbn. lia.
    + split; [exact W|]. rewrite Sz. apply (acc_size_bound _ _ _ _ _ _ _ _ A).
    + exists []. rewrite app_nil_r. split; [exact Ky|apply A].
    + exact Tl.
    + exact Fi.
    + exact Ch.
    + lia.
    + rewrite Ids. apply A.
    + rewrite Ids. constructor; [apply A|apply A].
    + constructor.
    + lia.
  - cbn [sorted_from d0 fst] in Hs. destruct Hs as [Hle Hs]. unfold MapBatch_proofs.d0 in Hle, Hs. cbn [fst] in Hle, Hs.
    pose proof (Forall_inv Hp) as Hkv. pose proof (Forall_inv_tail Hp) as Hp'.
    assert (Hnd' : NoDup (dkeys r)) by (cbn [dkeys map] in Hnd; inversion Hnd; assumption).
    cbn [MapBatch.mfill]. set (h := dg (kid k) 0) in *.
    replace (h <? prev) with false by (symmetry; apply N.ltb_ge; exact Hle).
    destruct ((h =? prev) && (0 <? count)) eqn:Hc.
    + (* collision *)
      apply andb_true_iff in Hc as [Hc1 Hc2]. apply N.eqb_eq in Hc1. apply N.ltb_lt in Hc2.
      pose proof (ao_last _ _ _ _ _ _ _ _ A) as L.
      destruct rels as [|pe rels']; destruct rhks as [|hl rh']; try contradiction; [lia|].
      destruct L as (_ & Eh & _). rewrite Eh in *. clear Eh.
      cbn [fresh_last] in Hfr. pose proof (Forall_inv Hfr) as Hnk. cbn [fst] in Hnk.
      destruct (acc_collide lo id hl rh' pe rels' size count alloc k v A Hkv Hc1 Hnk)
        as (e' & alloc' & evs & Eq & A' & TL & Ha & Hlog & Hkeys).
      rewrite Eq. replace (alloc' + 1 - 1) with alloc' by lia.
      destruct (IH lo id (hl :: rh') (e' :: rels') _ hl (count + 1) alloc' A') as (slabs & cnt & alloc'' & lg & Em & Po).
      * rewrite <- Hc1. exact Hs.
      * exact Hnd'.
      * cbn [fresh_last]. apply (fresh_next k v r e' (fun x => In x (dkeys (to_list_e pe)))); [exact Hnd|intros x Hx; apply Hkeys, Hx|].
        apply Forall_inv_tail in Hfr. exact Hfr.
      * exact Hp'.
      * rewrite Em. do 4 eexists. split; [reflexivity|].
        destruct Po as [Q1 Q2 Q3 Q4 Q5 Q6 Q7 Q8 Q9 Q10 Q11]. split.
        -- rewrite Q1. cbn [length]. lia.
        -- exact Q2.
        -- exact Q3.
        -- rewrite Q4, TL. reflexivity.
        -- exact Q5.
        -- exact Q6.
        -- lia.
        -- exact Q8.
        -- exact Q9.
        -- apply Forall_app. split; [|exact Q10]. eapply Forall_impl; [|exact Hlog]. cbn.
           intros w (i & -> & Hi). exists i. split; [reflexivity|lia].
        -- cbn [length]. lia.
    + (* a new level-0 digest *)
      assert (Hlt : Forall (fun p => d0 p < h) (flat_map to_list_e (rev rels)))
        by (apply (acc_content_lt _ _ _ _ _ _ _ _ h A Hle Hc)).
      assert (Hfr' : forall rels0, fresh_last (ESingle k v :: rels0) r).
      { intros rels0. cbn [fresh_last]. apply (fresh_next k v r (ESingle k v) (fun _ => False)); [exact Hnd| |].
        - cbn. intros x [<-|[]]. left; reflexivity.
        - rewrite Forall_forall. tauto. }
      rewrite (close_test _ _ _ _ _ _ _ _ k v A Hkv).
      destruct (cT c <=? P + size) eqn:Hfull.
      * (* the current slab is closed, the element opens the next one *)
        apply N.leb_le in Hfull. pose proof (ao_id _ _ _ _ _ _ _ _ A) as Hid.
        assert (A' := acc_fresh alloc (alloc + 1) k v count ltac:(lia) Hkv).
        destruct (IH alloc (alloc + 1) [h] [ESingle k v] _ h (count + 1) (alloc + 1) A' Hs Hnd' (Hfr' []) Hp')
          as (slabs & cnt & alloc'' & lg & Em & Po).
        rewrite Em. do 4 eexists. split; [reflexivity|].
        destruct (close_leaf_facts lo id (alloc + 1) _ _ _ _ _ _ A) as (W & Sz & Ky & Tl & Ids & Fi & Ch & _).
        destruct Po as [Q1 Q2 Q3 Q4 Q5 Q6 Q7 Q8 Q9 Q10 Q11].
        pose proof (abl_ne _ _ _ Q2) as Hne.
        split; cbn [flat_map].
        -- rewrite Q1. cbn [length]. lia.
        -- apply abl_cons; [exact Hne|]. split; [|exact Q2]. split; [exact W|]. rewrite Sz.
           split; [exact Hfull|apply (acc_size_bound _ _ _ _ _ _ _ _ A)].
        -- destruct Q3 as (K' & E1 & S1). cbn [rev app] in E1, S1. exists (h :: K'). rewrite Ky, E1. split; [reflexivity|].
           apply ssorted_app; [apply A|exact S1|]. intros x y Hx Hy.
           pose proof (acc_keys_lt _ _ _ _ _ _ _ _ h A Hle Hc) as Hk. rewrite Forall_forall in Hk. specialize (Hk x Hx).
           destruct Hy as [<-|Hy]; [exact Hk|]. apply ssorted_cons_inv in S1 as [_ S1]. rewrite Forall_forall in S1.
           specialize (S1 y Hy). lia.
        -- rewrite Tl, Q4. cbn [rev app flat_map to_list_e]. cbn [MapBatch_proofs.ins_all fold_left fst snd].
           fold (ins_all (d_ins dg levels (flat_map to_list_e (rev rels)) k v) r). rewrite d_ins_end by exact Hlt.
           rewrite (ins_all_app_l dg levels h _ [(k, v)] r Hlv Hlt (sorted_from_Forall dg h r Hs)). reflexivity.
        -- exact Fi.
        -- apply chain_list_cons. rewrite Q5. split; [exact Ch|exact Q6].
        -- lia.
        -- rewrite Ids. apply nodup_app_intro; [exact (ao_ids _ _ _ _ _ _ _ _ A)|exact Q8|].
           intros x Hx Hy. rewrite Forall_forall in Q9. specialize (Q9 x Hy).
           destruct Hx as [<-|Hx]; [lia|]. pose proof (ao_rng _ _ _ _ _ _ _ _ A) as Rg. rewrite Forall_forall in Rg.
           specialize (Rg x Hx). lia.
        -- rewrite Ids. apply Forall_app. split.
           ++ constructor; [lia|]. eapply Forall_impl; [|apply A]. cbn. intros; lia.
           ++ eapply Forall_impl; [|exact Q9]. cbn. intros; lia.
        -- eapply Forall_impl; [|exact Q10]. cbn. intros w (i & -> & Hi). exists i. split; [reflexivity|lia].
        -- cbn [length]. lia.
      * (* the element is appended to the current slab *)
        apply N.leb_gt in Hfull.
        assert (A' := acc_append lo id rhks rels size prev count alloc k v A Hkv Hle Hc Hfull).
        destruct (IH lo id (h :: rhks) (ESingle k v :: rels) _ h (count + 1) alloc A' Hs Hnd' (Hfr' rels) Hp')
          as (slabs & cnt & alloc'' & lg & Em & Po).
        rewrite Em. do 4 eexists. split; [reflexivity|].
        destruct Po as [Q1 Q2 Q3 Q4 Q5 Q6 Q7 Q8 Q9 Q10 Q11]. split.
        -- rewrite Q1. cbn [length]. lia.
        -- exact Q2.
        -- destruct Q3 as (K' & E1 & S1). cbn [rev] in E1, S1. rewrite <- app_assoc in E1, S1. exists ([h] ++ K'). split; assumption.
        -- rewrite Q4. cbn [rev]. rewrite flat_map_app. cbn [flat_map to_list_e app].
           cbn [MapBatch_proofs.ins_all fold_left fst snd].
           fold (ins_all (d_ins dg levels (flat_map to_list_e (rev rels)) k v) r). rewrite d_ins_end by exact Hlt. reflexivity.
        -- exact Q5.
        -- exact Q6.
        -- exact Q7.
        -- exact Q8.
        -- exact Q9.
        -- exact Q10.
        -- cbn [length]. lia.
Qed.
(** ** 3.4 the tail rebalance of a level *)
Definition band (d : nat) (n : mnode) : Prop := mwfn d n /\ in_band n.
Definition lvl (d : nat) (n : mnode) : Prop := mwfn d n /\ mh_size (hdr_of n) <= cmax c.

Lemma band_lvl d n : band d n -> lvl d n.
Proof. intros [W [_ B]]. split; assumption. Qed.

Lemma nid_in_mslab n : In (nid n) (mslab_ids n).
Proof. destruct n; cbn; auto. Qed.

Definition pair_post (d : nat) (l r : mnode) (out : list mnode) : Prop :=
  Forall (band d) out /\ out <> [] /\ (length out <= 2)%nat /\
  flat_map keys_of out = keys_of l ++ keys_of r /\
  flat_map elems_flat out = elems_flat l ++ elems_flat r /\
  (exists rem, Permutation (flat_map mslab_ids out ++ rem) (mslab_ids l ++ mslab_ids r)) /\
  (forall x, fl out x = fl [l; r] x) /\
  (forall nxt, chain_list [l; r] nxt -> chain_list out nxt).

Lemma fix_pair_spec d l r :
  band d l -> lvl d r -> ssorted (keys_of l ++ keys_of r) ->
  exists out, fix_pair c l r = TOk out /\ pair_post d l r out.
Proof.
  intros [Wl Bl] [Wr Xr] Hs. unfold fix_pair, n_underflow.
  destruct (mwfn_frame dg levels c _ _ Wl) as [Sl _]. destruct (mwfn_frame dg levels c _ _ Wr) as [Sr _].
  assert (Hsh : Forall shape [l; r]) by (constructor; [assumption|constructor; [assumption|constructor]]).
  destruct (mh_size (hdr_of r) <? cmin c) eqn:Hu.
  - apply N.ltb_lt in Hu. set (need := cmin c - mh_size (hdr_of r)).
    assert (Hn1 : mh_size (hdr_of r) + need = cmin c) by (subst need; lia).
    assert (Hn2 : 0 < need) by (subst need; lia).
    destruct (n_can_lend_to_right c l need) eqn:Hcan.
    + destruct (lend_ok dg levels T HT Hlv d l r need Wl Wr Bl Hn1 Hn2 Hs Hcan)
        as (l' & r' & E & Wl' & Wr' & Bl' & Br' & Ek & Ee & _).
      rewrite E. exists [l'; r']. split; [reflexivity|].
      pose proof (pair_seg dg levels 0 0 c false l r l' r' E) as Sg.
      destruct (so_shape _ _ _ _ _ Sg Hsh) as (_ & Hfl & Hch).
      split; [constructor; [split; assumption|constructor; [split; assumption|constructor]]|]. split; [discriminate|]. split; [cbn; lia|].
      split; [cbn [flat_map]; rewrite app_nil_r; exact Ek|].
      split; [cbn [flat_map]; rewrite app_nil_r; exact Ee|].
      split; [|split; assumption].
      exists []. pose proof (so_ids _ _ _ _ _ Sg) as HP. cbn [flat_map] in HP. rewrite !app_nil_r in *.
      cbn [flat_map]. rewrite app_nil_r. exact HP.
    + destruct (merge_ok dg levels T HT Hlv d l r Wl Wr Hs) as (m & E & Wm & Ek & Ee & _ & Hz & _).
      rewrite E. exists [m]. split; [reflexivity|].
      pose proof (merge_seg dg levels 0 0 l r m E) as Sg.
      destruct (so_shape _ _ _ _ _ Sg Hsh) as (_ & Hfl & Hch).
      pose proof (cannot_lend_right_merge_le_max dg levels T HT Hlv d l r need Wl Wr Bl Hn1 Hn2 Hcan) as Hx.
      pose proof (mwfn_size_ge_pfx dg levels T HT Hlv d r Wr) as Hr.
      rewrite (pfx_of_eq dg levels T d l r Wl Wr) in Hr.
      split; [constructor; [|constructor]; split; [exact Wm|]; destruct Bl as [Bm BX]; split; lia|].
      split; [discriminate|]. split; [cbn; lia|].
      split; [cbn [flat_map]; rewrite app_nil_r; exact Ek|].
      split; [cbn [flat_map]; rewrite app_nil_r; exact Ee|].
      split; [|split; assumption].
      exists [nid r]. pose proof (so_ids _ _ _ _ _ Sg) as HP. cbn [flat_map] in HP. rewrite !app_nil_r in *. cbn [flat_map]. rewrite app_nil_r. exact HP.
  - apply N.ltb_ge in Hu. exists [l; r]. split; [reflexivity|].
    split; [constructor; [split; assumption|constructor; [split; [assumption|split; assumption]|constructor]]|]. split; [discriminate|]. split; [cbn; lia|].
    split; [cbn [flat_map]; rewrite app_nil_r; reflexivity|].
    split; [cbn [flat_map]; rewrite app_nil_r; reflexivity|].
    split; [exists []; cbn [flat_map]; rewrite !app_nil_r; reflexivity|]. split; auto.
Qed.

Lemma tail_fix_app pre l r :
  tail_fix c (pre ++ [l; r]) =
  match fix_pair c l r with TOk o => TOk (pre ++ o) | TErr e => TErr e end.
Proof.
  induction pre as [|x pre IH].
  - cbn [app tail_fix]. destruct (fix_pair c l r); reflexivity.
  - change ((x :: pre) ++ [l; r]) with (x :: (pre ++ [l; r])). remember (pre ++ [l; r]) as rest eqn:E.
    cbn [tail_fix]. destruct rest as [|y rest2]; [destruct pre; discriminate|].
    destruct rest2 as [|z rest3]; [destruct pre as [|? [|? ?]]; discriminate|].
    rewrite IH. destruct (fix_pair c l r); reflexivity.
Qed.
Record level_ok (d : nat) (lo hi : N) (slabs : list mnode) : Prop := {
  lv_abl : abl (band d) (lvl d) slabs;
  lv_sorted : ssorted (flat_map keys_of slabs);
  lv_chain : chain_list slabs 0;
  lv_nodup : NoDup (flat_map mslab_ids slabs);
  lv_rng : Forall (fun i => lo < i <= hi) (flat_map mslab_ids slabs)
}.

Lemma tail_fix_spec d lo hi slabs :
  level_ok d lo hi slabs -> (2 <= length slabs)%nat ->
  exists out, tail_fix c slabs = TOk out /\
    Forall (band d) out /\ out <> [] /\ (length out <= length slabs)%nat /\
    flat_map keys_of out = flat_map keys_of slabs /\
    flat_map elems_flat out = flat_map elems_flat slabs /\
    chain_list out 0 /\ NoDup (flat_map mslab_ids out) /\
    Forall (fun i => lo < i <= hi) (flat_map mslab_ids out).
Proof.
  intros [Ha Hs Hc Hn Hr] Hlen.
  destruct (abl_split _ _ _ Ha) as [(x & -> & _)|(pre & a & b & -> & Hp & Hba & Hlb)]; [cbn in Hlen; lia|].
  rewrite flat_map_app in Hs, Hn, Hr. cbn [flat_map] in Hs, Hn, Hr. rewrite !app_nil_r in Hs, Hn, Hr.
  destruct (fix_pair_spec d a b Hba Hlb (proj2 (ssorted_app_inv2 _ _ Hs)))
    as (o & E & Fb & One & Ol & Ok & Oe & (rem & OP) & Ofl & Och).
  rewrite tail_fix_app, E. exists (pre ++ o). split; [reflexivity|].
  split; [apply Forall_app; split; assumption|].
  split; [intros X; apply app_eq_nil in X; tauto|].
  split; [rewrite !app_length; cbn [length]; lia|].
  split; [rewrite !flat_map_app, Ok; cbn [flat_map]; rewrite app_nil_r; reflexivity|].
  split; [rewrite !flat_map_app, Oe; cbn [flat_map]; rewrite app_nil_r; reflexivity|].
  apply chain_list_app in Hc as [Hc1 Hc2].
  split; [apply chain_list_app; rewrite Ofl; split; [exact Hc1|apply Och, Hc2]|].
  rewrite flat_map_app.
  assert (PW : Permutation ((flat_map mslab_ids pre ++ flat_map mslab_ids o) ++ rem)
                           (flat_map mslab_ids pre ++ mslab_ids a ++ mslab_ids b)).
  { rewrite <- app_assoc. apply Permutation_app_head. exact OP. }
  split.
  - apply (nodup_app_l _ rem). eapply Permutation_NoDup; [symmetry; exact PW|exact Hn].
  - rewrite Forall_forall in *. intros x Hx. apply Hr.
    eapply Permutation_in; [exact PW|]. apply in_or_app. left. exact Hx.
Qed.

(** ** 3.5 the next level of index slabs *)
Local Notation maxn := (N.to_nat (max_headers c)).

Lemma max_headers_facts :
  (2 <= maxn)%nat /\ cmin c <= PM + max_headers c * HS /\ PM + max_headers c * HS <= cmax c.
Proof.
  unfold max_headers. pose proof (mcfg_facts T HT) as (H1 & H2 & H3 & H4 & _). rewrite H3, H4. unfold_msizes.
  split; [|split]; lia.
Qed.

Record ma_inv (d : nat) (m : meta_acc) : Prop := {
  mi_k : ma_k m = length (ma_cs m);
  mi_k1 : (1 <= ma_k m <= maxn)%nat;
  mi_band : Forall (band d) (ma_cs m);
  mi_hs : ma_hs m = map hdr_of (ma_cs m);
  mi_size : ma_size m = PM + N.of_nat (ma_k m) * HS;
  mi_first : ma_first m = hfirst (map hdr_of (rev (ma_cs m)))
}.

Definition nkids (n : mnode) : nat := match n with MM _ _ cs => length cs | MD _ _ _ => 0%nat end.

Lemma ma_close_facts d m : ma_inv d m -> ssorted (flat_map keys_of (rev (ma_cs m))) ->
  let n := ma_close m in
  mwfn (S d) n /\ mh_size (hdr_of n) = PM + N.of_nat (ma_k m) * HS /\
  keys_of n = flat_map keys_of (rev (ma_cs m)) /\ elems_flat n = flat_map elems_flat (rev (ma_cs m)) /\
  mslab_ids n = ma_id m :: flat_map mslab_ids (rev (ma_cs m)) /\
  (forall nxt, chain n nxt = chain_list (rev (ma_cs m)) nxt) /\
  (forall x, first_leaf_id n = fl (rev (ma_cs m)) x) /\ nkids n = ma_k m.
Proof.
  intros [I1 I2 I3 I4 I5 I6] Hs n. subst n. unfold ma_close.
  assert (Hne : rev (ma_cs m) <> []).
  { intros E. apply (f_equal (@length _)) in E. rewrite rev_length in E. cbn in E. lia. }
  rewrite I4, <- map_rev.
  split; [|split; [|split; [|split; [|split; [|split; [|split]]]]]].
  - apply mwfn_MM_intro; cbn [mh_size mh_first].
    + split; [eapply Forall_impl; [|apply Forall_rev; exact I3]; cbn; intros a Ha; apply Ha
             |eapply Forall_impl; [|apply Forall_rev; exact I3]; cbn; intros a Ha; apply Ha].
    + exact Hne.
    + exact Hs.
    + rewrite rev_length, <- I1. exact I5.
    + exact I6.
  - cbn [hdr_of mh_size]. exact I5.
  - reflexivity.
  - reflexivity.
  - apply mslab_ids_MM.
  - intros nxt. apply chain_MM.
  - intros x. rewrite first_MM. apply fl_ne. exact Hne.
  - cbn [nkids]. rewrite rev_length. auto.
Qed.

Lemma ma_add_inv d m s : ma_inv d m -> (ma_k m < maxn)%nat -> band d s -> ma_inv d (ma_add m s).
Proof.
  intros [I1 I2 I3 I4 I5 I6] Hk Hb. split; cbn [ma_add ma_k ma_cs ma_hs ma_size ma_first length map rev].
  - lia.
  - lia.
  - constructor; assumption.
  - rewrite I4. reflexivity.
  - rewrite I5. lia.
  - rewrite I6, map_app. apply eq_sym, hfirst_app.
    intros E. apply map_eq_nil in E. apply (f_equal (@length _)) in E. rewrite rev_length in E. cbn in E. lia.
Qed.

Lemma ma_first_inv d id s : band d s -> ma_inv d (ma_add (ma_new id (mh_first (hdr_of s))) s).
Proof.
  intros Hb. pose proof max_headers_facts as (Hm & _).
  split; cbn [ma_add ma_new ma_k ma_cs ma_hs ma_size ma_first length map rev app hfirst]; try reflexivity.
  - lia.
  - constructor; [exact Hb|constructor].
Qed.
Record go_post (d : nat) (m : meta_acc) (sl : list mnode) (alloc : N) (out : list mnode) (alloc' : N) : Prop := {
  gp_abl : abl (band (S d)) (lvl (S d)) out;
  gp_keys : flat_map keys_of out = flat_map keys_of (rev (ma_cs m) ++ sl);
  gp_elems : flat_map elems_flat out = flat_map elems_flat (rev (ma_cs m) ++ sl);
  gp_ids : exists k, alloc' = alloc + N.of_nat k /\
           Permutation (flat_map mslab_ids out)
                       (ma_id m :: nseq alloc k ++ flat_map mslab_ids (rev (ma_cs m) ++ sl));
  gp_chain : forall nxt, chain_list (rev (ma_cs m) ++ sl) nxt -> chain_list out nxt;
  gp_fl : forall x, fl out x = fl (rev (ma_cs m) ++ sl) x;
  gp_len : ((length out - 1) * 2 + 1 <= ma_k m + length sl)%nat;
  gp_single : forall x, out = [x] -> nkids x = (ma_k m + length sl)%nat
}.

Lemma rev_ne {X} (l : list X) : l <> [] -> rev l <> [].
Proof. intros H E. apply H. rewrite <- (rev_involutive l), E. reflexivity. Qed.

Lemma next_level_go_spec d : forall sl m alloc,
  ma_inv d m -> Forall (band d) sl -> ssorted (flat_map keys_of (rev (ma_cs m) ++ sl)) ->
  exists out alloc', next_level_go maxn sl m alloc = (out, alloc') /\ go_post d m sl alloc out alloc'.
Proof.
  pose proof max_headers_facts as (Hm2 & Hmlo & Hmhi).
  induction sl as [|s r IH]; intros m alloc I Hb Hs.
  - cbn [next_level_go]. do 2 eexists. split; [reflexivity|].
    rewrite app_nil_r in *. destruct (ma_close_facts d m I Hs) as (W & Sz & Ky & El & Ids & Ch & Fl & Nk).
    split; cbn [abl flat_map length]; rewrite ?app_nil_r.
    + split; [exact W|]. rewrite Sz. pose proof (mi_k1 _ _ I).
      assert (N.of_nat (ma_k m) <= max_headers c) by lia. unfold_msizes. nia.
    + exact Ky.
    + exact El.
    + exists 0%nat. cbn [nseq app]. split; [lia|]. rewrite Ids. reflexivity.
    + intros nxt H. cbn [chain_list]. rewrite Ch. exact H.
    + intros x. cbn [fl]. apply Fl.
    + pose proof (mi_k1 _ _ I). lia.
    + intros x [= <-]. rewrite Nk. lia.
  - assert (Hne : rev (ma_cs m) <> []).
    { apply rev_ne. intros E. pose proof (mi_k _ _ I) as K. pose proof (mi_k1 _ _ I). rewrite E in K. cbn in K. lia. }
    pose proof (Forall_inv Hb) as Hbs. pose proof (Forall_inv_tail Hb) as Hbr.
    cbn [next_level_go]. destruct (Nat.eqb (ma_k m) maxn) eqn:Ek.
    + (* the index slab under construction is full: it is closed, s opens the next one *)
      apply Nat.eqb_eq in Ek.
      destruct (ssorted_app_inv2 _ _ (eq_ind _ ssorted Hs _ (flat_map_app _ _ _))) as [Hs1 Hs2].
      set (m' := ma_add (ma_new (alloc + 1) (mh_first (hdr_of s))) s).
      assert (I' : ma_inv d m') by (apply ma_first_inv; exact Hbs).
      destruct (IH m' (alloc + 1) I' Hbr) as (rest & alloc' & Eg & Po).
      { subst m'. cbn [ma_add ma_new ma_cs rev app]. exact Hs2. }
      rewrite Eg. do 2 eexists. split; [reflexivity|].
      destruct (ma_close_facts d m I Hs1) as (W & Sz & Ky & El & Ids & Ch & Fl & Nk).
      destruct Po as [Q1 Q2 Q3 Q4 Q5 Q6 Q7 Q8]. pose proof (abl_ne _ _ _ Q1) as Rne.
      subst m'. cbn [ma_add ma_new ma_cs ma_id ma_k rev app] in *.
      split; cbn [flat_map].
      * apply abl_cons; [exact Rne|]. split; [|exact Q1]. split; [exact W|]. split; rewrite Sz, Ek, N2Nat.id; assumption.
      * rewrite Ky, Q2, flat_map_app. reflexivity.
      * rewrite El, Q3, flat_map_app. reflexivity.
      * destruct Q4 as (k' & Ea & HP). exists (S k'). split; [lia|]. rewrite Ids. cbn [nseq].
        rewrite flat_map_app. cbn [flat_map] in *. perm_solve.
      * intros nxt H. apply chain_list_app in H as [H1 H2]. apply chain_list_cons. split.
        -- rewrite Ch, Q6. exact H1.
        -- apply Q5. exact H2.
      * intros x. cbn [fl]. rewrite fl_app. rewrite (Fl (fl (s :: r) x)). reflexivity.
      * cbn [length]. destruct rest as [|y rest']; [congruence|]. cbn [length] in *. lia.
      * intros x E. destruct rest; [congruence|discriminate].
    + (* s is added to the index slab under construction *)
      apply Nat.eqb_neq in Ek. pose proof (mi_k1 _ _ I) as K1.
      assert (I' : ma_inv d (ma_add m s)) by (apply ma_add_inv; [exact I|lia|exact Hbs]).
      destruct (IH (ma_add m s) alloc I' Hbr) as (out & alloc' & Eg & Po).
      { cbn [ma_add ma_cs rev]. rewrite <- app_assoc. exact Hs. }
      rewrite Eg. do 2 eexists. split; [reflexivity|].
      destruct Po as [Q1 Q2 Q3 Q4 Q5 Q6 Q7 Q8]. cbn [ma_add ma_cs ma_id ma_k rev] in *. rewrite <- app_assoc in *.
      cbn [app] in *. split; auto.
      * cbn [length]. lia.
      * intros x E. rewrite (Q8 x E). cbn [length]. lia.
Qed.

Lemma next_level_spec d s0 r alloc :
  Forall (band d) (s0 :: r) -> ssorted (flat_map keys_of (s0 :: r)) ->
  exists out alloc', next_level c (s0 :: r) alloc = Some (out, alloc') /\
    abl (band (S d)) (lvl (S d)) out /\
    flat_map keys_of out = flat_map keys_of (s0 :: r) /\
    flat_map elems_flat out = flat_map elems_flat (s0 :: r) /\
    (exists k, alloc' = alloc + N.of_nat (S k) /\
       Permutation (flat_map mslab_ids out) (nseq alloc (S k) ++ flat_map mslab_ids (s0 :: r))) /\
    (forall nxt, chain_list (s0 :: r) nxt -> chain_list out nxt) /\
    ((length out - 1) * 2 + 1 <= length (s0 :: r))%nat /\
    (forall x, out = [x] -> nkids x = length (s0 :: r)).
Proof.
  intros Hb Hs. pose proof max_headers_facts as (Hm2 & _).
  unfold next_level. cbn [next_level_go ma_new ma_k].
  replace (Nat.eqb 0 maxn) with false by (symmetry; apply Nat.eqb_neq; lia).
  set (m := ma_add (ma_new (alloc + 1) (mh_first (hdr_of s0))) s0).
  assert (I : ma_inv d m) by (apply ma_first_inv; apply (Forall_inv Hb)).
  destruct (next_level_go_spec d r m (alloc + 1) I (Forall_inv_tail Hb)) as (out & alloc' & Eg & Po).
  { subst m. cbn [ma_add ma_new ma_cs rev app]. exact Hs. }
  fold m. rewrite Eg. do 2 eexists. split; [reflexivity|].
  destruct Po as [Q1 Q2 Q3 Q4 Q5 Q6 Q7 Q8]. subst m. cbn [ma_add ma_new ma_cs ma_id ma_k rev app] in *.
  split; [exact Q1|]. split; [exact Q2|]. split; [exact Q3|].
  split; [destruct Q4 as (k & Ea & HP); exists k; split; [lia|cbn [nseq]; exact HP]|].
  split; [exact Q5|]. split; [cbn [length]; lia|]. intros x E. rewrite (Q8 x E). reflexivity.
Qed.
(** ** 3.6 the level loop *)
Lemma mlevels_two f slabs alloc lg : (2 <= length slabs)%nat ->
  mlevels c (S f) slabs alloc lg =
  match tail_fix c slabs with
  | TErr e => BErr (BTree e)
  | TOk [] => BErr BPanic
  | TOk [root] => BOk (root, alloc, lg)
  | TOk slabs' =>
    match next_level c slabs' alloc with
    | None => BErr BPanic
    | Some (next, alloc') => mlevels c f next alloc' (lg ++ store_all slabs')
    end
  end.
Proof. destruct slabs as [|x [|y r]]; cbn [length]; try lia. reflexivity. Qed.

Definition root_ok (n : mnode) : Prop := exists d, mwfn d n /\ kids2 n /\ mh_size (hdr_of n) <= cmax c.
Definition single_ok (slabs : list mnode) : Prop := forall x, slabs = [x] -> kids2 x.
Definition log_in (lo hi : N) (lg : wlog) : Prop := Forall (fun w => exists i, w = WStore i /\ lo < i <= hi) lg.

Lemma log_in_weaken lo hi hi' lg : hi <= hi' -> log_in lo hi lg -> log_in lo hi' lg.
Proof. intros H. apply Forall_impl. intros w (i & -> & Hi). exists i. split; [reflexivity|lia]. Qed.

Lemma store_all_in lo hi slabs :
  Forall (fun i => lo < i <= hi) (flat_map mslab_ids slabs) -> log_in lo hi (store_all slabs).
Proof.
  induction slabs as [|s r IH]; intros H; [constructor|]. cbn [flat_map] in H. apply Forall_app in H as [H1 H2].
  constructor; [|apply IH, H2]. exists (mh_id (hdr_of s)). split; [reflexivity|].
  rewrite Forall_forall in H1. apply H1. apply nid_in_mslab.
Qed.

Lemma mlevels_spec : forall fuel d lo slabs alloc lg,
  (length slabs <= fuel)%nat -> lo <= alloc -> level_ok d lo alloc slabs -> single_ok slabs -> log_in lo alloc lg ->
  exists root alloc' lg',
    mlevels c fuel slabs alloc lg = BOk (root, alloc', lg') /\ root_ok root /\
    keys_of root = flat_map keys_of slabs /\ elems_flat root = flat_map elems_flat slabs /\
    chain root 0 /\ NoDup (mslab_ids root) /\ Forall (fun i => lo < i <= alloc') (mslab_ids root) /\
    alloc <= alloc' /\ log_in lo alloc' lg'.
Proof.
  induction fuel as [|f IH]; intros d lo slabs alloc lg Hlen Hlo L Hsg Hlg.
  - destruct slabs; [|cbn in Hlen; lia]. destruct (lv_abl _ _ _ _ L).
  - destruct (abl_split _ _ _ (lv_abl _ _ _ _ L)) as [(x & -> & Hx)|(pre & a & b & E & _)].
    + (* a single slab: the root *)
      cbn [mlevels]. do 3 eexists. split; [reflexivity|].
      destruct L as [_ Ls Lc Ln Lr]. cbn [flat_map] in *. rewrite app_nil_r in Ls, Ln, Lr. rewrite !app_nil_r.
      split; [exists d; split; [apply Hx|split; [apply Hsg; reflexivity|apply Hx]]|].
      split; [reflexivity|]. split; [reflexivity|]. split; [exact Lc|]. split; [exact Ln|]. split; [exact Lr|].
      split; [lia|exact Hlg].
    + assert (H2 : (2 <= length slabs)%nat) by (rewrite E, app_length; cbn; lia).
      rewrite (mlevels_two f slabs alloc lg H2).
      destruct (tail_fix_spec d lo alloc slabs L H2) as (out & Et & Fb & One & Ol & Ok & Oe & Oc & On & Or).
      rewrite Et. destruct out as [|r1 [|r2 rest]]; [congruence| |].
      * (* the tail merge left one slab: the root *)
        do 3 eexists. split; [reflexivity|]. cbn [flat_map] in Ok, Oe, On, Or. rewrite app_nil_r in Ok, Oe, On, Or.
        pose proof (Forall_inv Fb) as [W1 B1].
        split; [exists d; split; [exact W1|split; [apply (in_band_kids2 dg levels T HT Hlv d r1 W1 B1)|apply B1]]|].
        split; [exact Ok|]. split; [exact Oe|]. split; [exact Oc|]. split; [exact On|]. split; [exact Or|].
        split; [lia|exact Hlg].
      * (* all slabs of the level are stored, the next level is built *)
        assert (Hso : ssorted (flat_map keys_of (r1 :: r2 :: rest))) by (rewrite Ok; apply L).
        destruct (next_level_spec d r1 (r2 :: rest) alloc Fb Hso)
          as (next & alloc' & En & Na & Nk & Ne & (k & Ea & NP) & Nc & Nl & Ns).
        rewrite En.
        assert (L' : level_ok (S d) lo alloc' next).
        { split.
          - exact Na.
          - rewrite Nk. exact Hso.
          - apply Nc, Oc.
          - eapply Permutation_NoDup; [symmetry; exact NP|].
            eapply Permutation_NoDup; [apply Permutation_app_comm|].
            apply nodup_app_nseq; [exact On|]. eapply Forall_impl; [|exact Or]. cbn. intros; lia.
          - rewrite Forall_forall. intros x Hx. eapply Permutation_in in Hx; [|exact NP].
            apply in_app_or in Hx as [Hx|Hx].
            + apply in_nseq in Hx. lia.
            + rewrite Forall_forall in Or. apply Or in Hx. lia. }
        destruct (IH (S d) lo next alloc' (lg ++ store_all (r1 :: r2 :: rest))) as (root & alloc'' & lg' & Em & Hr & Rk & Re & Rc & Rn & Rr & Ra & Rl).
        -- cbn [length] in *. lia.
        -- lia.
        -- exact L'.
        -- intros x Ex. specialize (Ns x Ex). destruct x as [|h hs cs]; [exact I|]. cbn [kids2 nkids] in *. cbn [length] in Ns. lia.
        -- apply Forall_app. split; [apply (log_in_weaken lo alloc); [lia|exact Hlg]|].
           apply store_all_in. eapply Forall_impl; [|exact Or]. cbn. intros; lia.
        -- rewrite Em. do 3 eexists. split; [reflexivity|]. split; [exact Hr|].
           split; [rewrite Rk, Nk, Ok; reflexivity|]. split; [rewrite Re, Ne, Oe; reflexivity|].
           split; [exact Rc|]. split; [exact Rn|]. split; [exact Rr|]. split; [lia|exact Rl].
Qed.
(** ** 3.7 the root and the whole construction *)
Lemma chain_last_next : forall n nxt, shape n -> chain n nxt -> last_next n = nxt.
Proof.
  induction n as [h nx es|h hs cs IH] using MapFrame_proofs.mnode_ind'; intros nxt Sh Ch.
  - exact Ch.
  - apply shape_MM in Sh as (_ & Hne & Hsh). rewrite chain_MM in Ch. cbn [last_next].
    revert Hne Hsh Ch. induction IH as [|ch r Hc _ IHr]; intros Hne Hsh Ch; [congruence|].
    inversion Hsh; subst. destruct r as [|c2 r'].
    + cbn [map last chain_list] in *. apply Hc; assumption.
    + cbn [chain_list] in Ch. destruct Ch as [_ Ch]. cbn [map]. cbn [map] in IHr.
      change (last (last_next ch :: last_next c2 :: map last_next r') 0) with (last (last_next c2 :: map last_next r') 0).
      apply IHr; [discriminate|assumption|exact Ch].
Qed.

Lemma rebase_root_facts n :
  to_list_tree (rebase_root n) = to_list_tree n /\ mslab_ids (rebase_root n) = mslab_ids n /\
  (forall nxt, chain (rebase_root n) nxt = chain n nxt) /\ mh_id (hdr_of (rebase_root n)) = mh_id (hdr_of n) /\
  last_next (rebase_root n) = last_next n.
Proof. destruct n; cbn; repeat split; reflexivity. Qed.

Lemma root_ok_rebase n : root_ok n -> chain n 0 -> mwf_root (rebase_root n).
Proof.
  intros (d & W & K & X) Ch. destruct d as [|d].
  - destruct (mwfn_0_inv _ W) as (h & nx & hks & els & -> & Hs & HF & He & Hf & Hz).
    cbn [chain] in Ch. subst nx. cbn [rebase_root hdr_of mh_size] in *.
    constructor; cbn [mh_first mh_size mh_id].
    + constructor; auto.
    + exact He.
    + exact Hf.
    + rewrite Hz. unfold_msizes. lia.
    + rewrite Hz in *. unfold_msizes. lia.
  - destruct (mwfn_S_inv _ _ W) as (h & cs & -> & _). cbn [rebase_root]. cbn [kids2 hdr_of] in *.
    eapply wfr_MM; [exact W|exact K|exact X].
Qed.

Lemma leaves_to_list slabs : Forall (mwfn 0) slabs ->
  flat_map to_list_e (flat_map elems_flat slabs) = flat_map to_list_tree slabs.
Proof.
  intros H. rewrite flat_map_flat_map. apply flat_map_ext_Forall.
  eapply Forall_impl; [|exact H]. cbn. intros a Ha.
  destruct (mwfn_flat dg levels T HT Hlv 0 a Ha) as (_ & _ & _ & E). symmetry. exact E.
Qed.

Definition stream_ok (st : dict) : Prop :=
  sorted_from 0 st /\ NoDup (dkeys st) /\ Forall pair_ok st.

Local Notation map_from_batch_res := (map_from_batch_res dg levels M limit c).

Theorem mbatch_spec alloc seed st : seed <> 0 -> stream_ok st ->
  exists t lg, map_from_batch_res alloc seed st = BOk (t, lg) /\
    minv dg levels T ks t /\ mtwf_full dg levels c t /\
    to_list_tree (t_root t) = ins_all [] st /\ t_count t = N.of_nat (length st) /\
    alloc < t_alloc t /\
    Forall (fun i => alloc < i <= t_alloc t) (slab_ids (t_root t)) /\ NoDup (slab_ids (t_root t)) /\
    log_in alloc (t_alloc t) lg.
Proof.
  intros Hseed (Hs & Hnd & Hp). unfold MapBatch.map_from_batch_res.
  replace (seed =? 0) with false by (symmetry; apply N.eqb_neq; exact Hseed).
  assert (A0 : acc_ok alloc (alloc + 1) [] [] HP 0 0 (alloc + 1)).
  { split; cbn [rev flat_map]; try (constructor; fail); try reflexivity; try tauto; try lia.
    repeat constructor. intros []. }
  destruct (fill_spec st alloc (alloc + 1) [] [] HP 0 0 (alloc + 1) A0 Hs Hnd I Hp)
    as (slabs & cnt & alloc1 & lg1 & Ef & [F1 F2 F3 F4 F5 F6 F7 F8 F9 F10 F11]).
  rewrite Ef. cbn [rev flat_map app] in *.
  assert (Hleaf : Forall (mwfn 0) slabs).
  { clear - F2. induction slabs as [|x r IH]; [constructor|]. destruct r as [|y r'].
    - constructor; [apply F2|constructor].
    - destruct F2 as [H1 H2]. constructor; [apply H1|apply IH, H2]. }
  assert (L0 : level_ok 0 alloc alloc1 slabs).
  { split.
    - eapply abl_weaken; [| |exact F2].
      + intros x (W & Hlo & Hhi). split; [exact W|]. split; [tlia|exact Hhi].
      + intros x Hx. exact Hx.
    - destruct F3 as (K & -> & S). exact S.
    - exact F6.
    - exact F8.
    - exact F9. }
  assert (Sg : single_ok slabs).
  { intros x ->. pose proof (Forall_inv Hleaf) as W. destruct (mwfn_0_inv _ W) as (h & nx & hks & els & -> & _). exact I. }
  destruct (mlevels_spec (length st + 2) 0 alloc slabs alloc1 lg1) as (root & alloc2 & lg2 & Em & Hr & Rk & Re & Rc & Rn & Rr & Ra & Rl);
    [lia|lia|exact L0|exact Sg|exact F10|].
  rewrite Em.
  destruct (rebase_root_facts root) as (B1 & B2 & B3 & B4 & B5).
  pose proof (root_ok_rebase root Hr Rc) as Wr.
  destruct (mwf_root_frame dg levels c _ Wr) as [Shr Eids].
  assert (Etl : to_list_tree (rebase_root root) = ins_all [] st).
  { rewrite B1. destruct Hr as (d & W & _). destruct (mwfn_flat dg levels T HT Hlv d root W) as (_ & _ & _ & E).
    rewrite E, Re, leaves_to_list by exact Hleaf. exact F4. }
  do 2 eexists. split; [reflexivity|]. cbn [t_root t_count t_alloc].
  assert (Hmt : mtwf (mkmt (rebase_root root) alloc2 cnt)).
  { split; cbn [t_root t_count]; [exact Wr|]. rewrite Etl, ins_all_length, F1. cbn [length]. lia. }
  assert (Hch : chain (rebase_root root) 0) by (rewrite B3; exact Rc).
  split; [|split; [|split; [exact Etl|split; [rewrite F1; lia|split; [lia|split; [|split]]]]]].
  - split; [exact Hmt|]. cbn [t_root]. split.
    + apply chain_last_next; [exact Shr|exact Hch].
    + rewrite Etl. apply ins_all_Forall; [constructor|exact Hp].
  - split; [exact Hmt|]. cbn [t_root t_alloc]. split; [exact Hch|]. unfold ids_ok. cbn [t_root t_alloc].
    rewrite <- Eids, B2. split; [exact Rn|].
    eapply Forall_impl; [|exact Rr]. cbn. intros; lia.
  - rewrite <- Eids, B2. exact Rr.
  - rewrite <- Eids, B2. exact Rn.
  - apply Forall_app. split; [exact Rl|]. constructor; [|constructor].
    eexists. split; [reflexivity|]. rewrite B4. rewrite Forall_forall in Rr. apply Rr. apply nid_in_mslab.
Qed.
(** ** 3.8 refused streams: the loop up to an offending element *)
Definition last_keys (rels : list melem) : list N :=
  match rels with pe :: _ => dkeys (to_list_e pe) | [] => [] end.
Definition prev_after (prev : N) (st : dict) : N := fold_left (fun _ p => d0 p) st prev.

Lemma prev_after_ge prev st : sorted_from prev st -> prev <= prev_after prev st.
Proof.
  revert prev; induction st as [|p r IH]; intros prev H; [cbn; lia|].
  destruct H as [H1 H2]. cbn [prev_after fold_left]. specialize (IH _ H2). unfold prev_after in IH. lia.
Qed.

Lemma prev_after_cons prev p r : prev_after prev (p :: r) = prev_after (d0 p) r.
Proof. reflexivity. Qed.

Lemma bres_assoc (X : bres (list mnode * N * N * wlog)) (pre1 pre2 : list mnode) (l1 l2 : wlog) :
  match (match X with BOk (s, c0, a, lg) => BOk (pre2 ++ s, c0, a, l2 ++ lg) | BErr x => BErr x end) with
  | BOk (s, c0, a, lg) => BOk (pre1 ++ s, c0, a, l1 ++ lg)
  | BErr x => BErr x
  end =
  match X with BOk (s, c0, a, lg) => BOk ((pre1 ++ pre2) ++ s, c0, a, (l1 ++ l2) ++ lg) | BErr x => BErr x end.
Proof. destruct X as [[[[s c0] a] lg]|x]; [|reflexivity]. rewrite !app_assoc. reflexivity. Qed.

Lemma fill_prefix : forall st1 lo id rhks rels size prev count alloc,
  acc_ok lo id rhks rels size prev count alloc ->
  sorted_from prev st1 -> NoDup (dkeys st1) -> fresh_last rels st1 -> Forall pair_ok st1 ->
  exists lo' id' rhks' rels' size' alloc' pre lgp,
    acc_ok lo' id' rhks' rels' size' (prev_after prev st1) (count + N.of_nat (length st1)) alloc' /\
    (prev_after prev st1 = prev -> incl (last_keys rels) (last_keys rels')) /\
    Forall (fun p => d0 p = prev_after prev st1 -> In (kid (fst p)) (last_keys rels')) st1 /\
    forall rest, mfill (st1 ++ rest) id rhks rels size prev count alloc =
      match mfill rest id' rhks' rels' size' (prev_after prev st1) (count + N.of_nat (length st1)) alloc' with
      | BOk (slabs, cnt, a, lg) => BOk (pre ++ slabs, cnt, a, lgp ++ lg)
      | BErr x => BErr x
      end.
Proof.
  induction st1 as [|[k v] r IH]; intros lo id rhks rels size prev count alloc A Hs Hnd Hfr Hp.
  - exists lo, id, rhks, rels, size, alloc, [], []. cbn [length prev_after fold_left app].
    replace (count + N.of_nat 0) with count by lia.
    split; [exact A|]. split; [intros _ x Hx; exact Hx|]. split; [constructor|].
    intros rest. destruct (mfill rest id rhks rels size prev count alloc) as [[[[s c0] a] lg]|x]; reflexivity.
  - cbn [sorted_from] in Hs. destruct Hs as [Hle Hs]. unfold MapBatch_proofs.d0 in Hle, Hs. cbn [fst] in Hle, Hs.
    pose proof (Forall_inv Hp) as Hkv. pose proof (Forall_inv_tail Hp) as Hp'.
    assert (Hnd' : NoDup (dkeys r)) by (cbn [dkeys map] in Hnd; inversion Hnd; assumption).
    rewrite prev_after_cons. cbn [length]. change (d0 (k, v)) with (dg (kid k) 0).
    set (h := dg (kid k) 0) in *.
    replace (count + N.of_nat (S (length r))) with (count + 1 + N.of_nat (length r)) by lia.
    pose proof (prev_after_ge h r Hs) as Hge.
    destruct ((h =? prev) && (0 <? count)) eqn:Hc.
    + (* collision *)
      apply andb_true_iff in Hc as [Hc1 Hc2]. apply N.eqb_eq in Hc1. apply N.ltb_lt in Hc2.
      pose proof (ao_last _ _ _ _ _ _ _ _ A) as L.
      destruct rels as [|pe rels']; destruct rhks as [|hl rh']; try contradiction; [lia|].
      destruct L as (_ & Eh & _). rewrite Eh in *. clear Eh.
      cbn [fresh_last] in Hfr. pose proof (Forall_inv Hfr) as Hnk. cbn [fst] in Hnk.
      destruct (acc_collide lo id hl rh' pe rels' size count alloc k v A Hkv Hc1 Hnk)
        as (e' & alloc' & evs & Eq & A' & TL & Ha & Hlog & Hkeys).
      destruct (IH lo id (hl :: rh') (e' :: rels') _ hl (count + 1) alloc' A') as (lo2 & id2 & rhks2 & rels2 & size2 & alloc2 & pre & lgp & A2 & C2 & D2 & E2).
      * rewrite <- Hc1. exact Hs.
      * exact Hnd'.
      * cbn [fresh_last]. apply (fresh_next k v r e' (fun x => In x (dkeys (to_list_e pe)))); [exact Hnd|intros x Hx; apply Hkeys, Hx|].
        apply Forall_inv_tail in Hfr. exact Hfr.
      * exact Hp'.
      * rewrite Hc1 in *. exists lo2, id2, rhks2, rels2, size2, alloc2, pre, (evs ++ lgp).
        split; [exact A2|]. split; [|split].
        -- intros E x Hx. apply (C2 E). cbn [last_keys] in *. apply Hkeys. right. exact Hx.
        -- constructor; [|exact D2]. cbn [fst]. intros E. change (d0 (k, v)) with h in E. rewrite Hc1 in E.
           apply (C2 (eq_sym E)). cbn [last_keys]. apply Hkeys. left. reflexivity.
        -- intros rest. cbn [app MapBatch.mfill]. fold h. rewrite Hc1.
           replace (hl <? hl) with false by (symmetry; apply N.ltb_ge; lia).
           replace ((hl =? hl) && (0 <? count)) with true by (symmetry; apply andb_true_iff; split; [apply N.eqb_eq; reflexivity|apply N.ltb_lt; exact Hc2]).
           rewrite Eq. replace (alloc' + 1 - 1) with alloc' by lia. rewrite E2.
           rewrite (bres_assoc _ [] pre evs lgp). reflexivity.
    + (* a new level-0 digest *)
      assert (Hfr' : forall rels0, fresh_last (ESingle k v :: rels0) r).
      { intros rels0. cbn [fresh_last]. apply (fresh_next k v r (ESingle k v) (fun _ => False)); [exact Hnd| |].
        - cbn. intros x [<-|[]]. left; reflexivity.
        - rewrite Forall_forall. tauto. }
      assert (Hnil : prev_after h r = prev -> last_keys rels = []).
      { intros E. assert (h = prev) by lia. subst h. pose proof (ao_last _ _ _ _ _ _ _ _ A) as L.
        destruct rels as [|e0 rels0]; [reflexivity|]. destruct rhks as [|h0 rh0]; [contradiction|].
        destruct L as (L1 & _). rewrite H in Hc. apply andb_false_iff in Hc as [Hc|Hc]; [apply N.eqb_neq in Hc; congruence|apply N.ltb_ge in Hc; lia]. }
      assert (Hstep : forall rest, mfill (((k, v) :: r) ++ rest) id rhks rels size prev count alloc =
               if cT c <=? P + size then
                 match mfill (r ++ rest) (alloc + 1) [h] [ESingle k v] (HP + (c_digestSize + esize (ESingle k v))) h (count + 1) (alloc + 1) with
                 | BOk (slabs, cnt, a, lg) => BOk (close_leaf id (alloc + 1) rhks rels size :: slabs, cnt, a, lg)
                 | BErr x => BErr x
                 end
               else mfill (r ++ rest) id (h :: rhks) (ESingle k v :: rels) (size + (c_digestSize + esize (ESingle k v))) h (count + 1) alloc).
      { intros rest. cbn [app MapBatch.mfill]. fold h.
        replace (h <? prev) with false by (symmetry; apply N.ltb_ge; exact Hle). rewrite Hc.
        rewrite (close_test _ _ _ _ _ _ _ _ k v A Hkv). reflexivity. }
      destruct (cT c <=? P + size) eqn:Hfull.
      * apply N.leb_le in Hfull. pose proof (ao_id _ _ _ _ _ _ _ _ A) as Hid.
        assert (A' := acc_fresh alloc (alloc + 1) k v count ltac:(lia) Hkv).
        destruct (IH alloc (alloc + 1) [h] [ESingle k v] _ h (count + 1) (alloc + 1) A' Hs Hnd' (Hfr' []) Hp')
          as (lo2 & id2 & rhks2 & rels2 & size2 & alloc2 & pre & lgp & A2 & C2 & D2 & E2).
        exists lo2, id2, rhks2, rels2, size2, alloc2, (close_leaf id (alloc + 1) rhks rels size :: pre), lgp.
        split; [exact A2|]. split; [|split].
        -- intros E. rewrite (Hnil E). intros x [].
        -- constructor; [|exact D2]. cbn [fst]. intros E. change (d0 (k, v)) with h in E. apply (C2 (eq_sym E)). cbn. left. reflexivity.
        -- intros rest. rewrite Hstep, E2.
           destruct (mfill rest id2 rhks2 rels2 size2 (prev_after h r) (count + 1 + N.of_nat (length r)) alloc2) as [[[[s c0] a] lg]|x]; reflexivity.
      * apply N.leb_gt in Hfull.
        assert (A' := acc_append lo id rhks rels size prev count alloc k v A Hkv Hle Hc Hfull).
        destruct (IH lo id (h :: rhks) (ESingle k v :: rels) _ h (count + 1) alloc A' Hs Hnd' (Hfr' rels) Hp')
          as (lo2 & id2 & rhks2 & rels2 & size2 & alloc2 & pre & lgp & A2 & C2 & D2 & E2).
        exists lo2, id2, rhks2, rels2, size2, alloc2, pre, lgp.
        split; [exact A2|]. split; [|split].
        -- intros E. rewrite (Hnil E). intros x [].
        -- constructor; [|exact D2]. cbn [fst]. intros E. change (d0 (k, v)) with h in E. apply (C2 (eq_sym E)). cbn. left. reflexivity.
        -- intros rest. rewrite Hstep, E2. reflexivity.
Qed.
Lemma prev_after_app prev a b : prev_after prev (a ++ b) = prev_after (prev_after prev a) b.
Proof. unfold prev_after. apply fold_left_app. Qed.

Lemma prev_after_const y st : Forall (fun p => d0 p = y) st -> prev_after y st = y.
Proof.
  induction 1 as [|p r Hp _ IH]; [reflexivity|]. rewrite prev_after_cons, Hp. exact IH.
Qed.

Lemma acc0 alloc : acc_ok alloc (alloc + 1) [] [] HP 0 0 (alloc + 1).
Proof.
  split; cbn [rev flat_map]; try (constructor; fail); try reflexivity; try tauto; try lia.
  repeat constructor. intros [].
Qed.

(* two adjacent elements whose level-0 digests decrease: HashError "digest isn't sorted" *)
Theorem mbatch_unsorted alloc seed st1 p q st2 : seed <> 0 ->
  stream_ok (st1 ++ [p]) -> d0 q < d0 p ->
  map_from_batch_res alloc seed (st1 ++ p :: q :: st2) = BErr BUnsorted.
Proof.
  intros Hseed (Hs & Hnd & Hp) Hlt. unfold MapBatch.map_from_batch_res.
  replace (seed =? 0) with false by (symmetry; apply N.eqb_neq; exact Hseed).
  destruct (fill_prefix (st1 ++ [p]) alloc (alloc + 1) [] [] HP 0 0 (alloc + 1) (acc0 alloc) Hs Hnd I Hp)
    as (lo2 & id2 & rhks2 & rels2 & size2 & alloc2 & pre & lgp & A2 & _ & _ & E2).
  replace (st1 ++ p :: q :: st2) with ((st1 ++ [p]) ++ q :: st2) by (rewrite <- app_assoc; reflexivity).
  rewrite E2. rewrite prev_after_app, prev_after_cons. cbn [prev_after fold_left].
  destruct q as [kq vq]. cbn [MapBatch.mfill]. unfold MapBatch_proofs.d0 in Hlt. cbn [fst] in Hlt.
  replace (dg (kid kq) 0 <? MapBatch_proofs.d0 dg p) with true by (symmetry; apply N.ltb_lt; exact Hlt).
  reflexivity.
Qed.

(* a key that comes again while its level-0 digest is still the current one: DuplicateKeyError *)
Theorem mbatch_duplicate alloc seed st1 k v v' st2 st3 : seed <> 0 ->
  stream_ok (st1 ++ (k, v) :: st2) -> Forall (fun p => d0 p = dg (kid k) 0) st2 ->
  map_from_batch_res alloc seed (st1 ++ (k, v) :: st2 ++ (k, v') :: st3) = BErr BDuplicate.
Proof.
  intros Hseed (Hs & Hnd & Hp) Hsame. unfold MapBatch.map_from_batch_res.
  replace (seed =? 0) with false by (symmetry; apply N.eqb_neq; exact Hseed).
  destruct (fill_prefix (st1 ++ (k, v) :: st2) alloc (alloc + 1) [] [] HP 0 0 (alloc + 1) (acc0 alloc) Hs Hnd I Hp)
    as (lo2 & id2 & rhks2 & rels2 & size2 & alloc2 & pre & lgp & A2 & _ & D2 & E2).
  replace (st1 ++ (k, v) :: st2 ++ (k, v') :: st3) with ((st1 ++ (k, v) :: st2) ++ (k, v') :: st3)
    by (rewrite <- app_assoc; reflexivity).
  rewrite E2.
  assert (Epv : prev_after 0 (st1 ++ (k, v) :: st2) = dg (kid k) 0).
  { rewrite prev_after_app, prev_after_cons. apply prev_after_const. exact Hsame. }
  rewrite Epv in *.
  assert (Hin : In (kid k) (last_keys rels2)).
  { rewrite Forall_forall in D2. apply (D2 (k, v)); [apply in_or_app; right; left; reflexivity|reflexivity]. }
  set (cnt := 0 + N.of_nat (length (st1 ++ (k, v) :: st2))) in *.
  assert (Hcnt : 0 < cnt) by (subst cnt; rewrite app_length; cbn [length]; lia).
  pose proof (ao_last _ _ _ _ _ _ _ _ A2) as L. pose proof (ao_wf _ _ _ _ _ _ _ _ A2) as W.
  destruct rels2 as [|pe rels']; [destruct Hin|]. destruct rhks2 as [|hl rh']; [contradiction|].
  destruct L as (_ & Eh & _). cbn [rev] in W. apply Forall2_snoc_inv in W as [_ He].
  cbn [MapBatch.mfill]. rewrite N.ltb_irrefl, N.eqb_refl.
  replace (0 <? cnt) with true by (symmetry; apply N.ltb_lt; exact Hcnt). cbn [andb].
  destruct (set_spec dg levels M limit (op_fuel levels)) as [SE _].
  destruct (SE pe 0%nat hl k v' (alloc2 + 1)) as (e' & a' & evs & Eq & _);
    [unfold op_fuel; destruct (is_group pe); lia|exact Hlv|apply ewf_e_weak, He|exact Eh|].
  rewrite Eq. cbn [last_keys] in Hin.
  destruct (d_get (to_list_e pe) (kid k)) as [pp|] eqn:Dg; [reflexivity|].
  apply d_get_none_iff in Dg. contradiction.
Qed.

Theorem mbatch_seed0 alloc st : map_from_batch_res alloc 0 st = BErr BSeed.
Proof. reflexivity. Qed.

(* on a canonically sorted stream the content is the stream *)
Lemma ins_all_nil_canon st : canon_sorted dg levels st -> ins_all [] st = st.
Proof. intros H. apply (ins_all_canon dg levels [] st). exact H. Qed.

(** * 4. Copy *)
Section copy.
Variable pl : kv -> bool.
Local Notation can_copy_e := (can_copy_e pl).
Local Notation can_copy_g := (can_copy_g pl).
Definition plain_pair (p : kv * kv) : Prop := pl (fst p) = true /\ pl (snd p) = true.

(* the Go predicate, semantically: no external collision group below, all keys and values plain *)
Lemma can_copy_sem :
  (forall e, can_copy_e e = true <-> eids_e e = [] /\ Forall plain_pair (to_list_e e)) /\
  (forall g, can_copy_g g = true <-> gids g = [] /\ Forall plain_pair (to_list g)).
Proof.
  apply melem_melems_ind.
  - intros k v. cbn [MapBatch.can_copy_e eids_e to_list_e]. rewrite andb_true_iff. unfold plain_pair. split.
    + intros H. split; [reflexivity|]. constructor; [exact H|constructor].
    + intros [_ H]. apply Forall_inv in H. exact H.
  - intros [i|] g IH; cbn [MapBatch.can_copy_e eids_e to_list_e loc_ids app].
    + split; [discriminate|]. intros [H _]. discriminate.
    + exact IH.
  - intros l hks es sz IH. cbn [MapBatch.can_copy_g to_list]. rewrite gids_HKey.
    induction IH as [|e r He _ IHr]; cbn [forallb flat_map].
    + split; [intros _; split; [reflexivity|constructor]|reflexivity].
    + rewrite andb_true_iff, He, IHr, Forall_app. split.
      * intros [[A1 A2] [B1 B2]]. rewrite A1, B1. auto.
      * intros [A B]. apply app_eq_nil in A. tauto.
  - intros l kvs sz. cbn [MapBatch.can_copy_g gids to_list]. rewrite forallb_forall, Forall_forall. unfold plain_pair.
    split.
    + intros H. split; [reflexivity|]. intros p Hp. apply andb_true_iff. apply H, Hp.
    + intros [_ H] p Hp. apply andb_true_iff. apply H, Hp.
Qed.

(* the source: a well-formed root data slab, standalone or inlined in its parent *)
Definition copy_src_ok (root : mnode) (inlined : bool) : Prop :=
  match root with
  | MD h nx (HKey 0 hks els sz) =>
    ewf_g 0 (HKey 0 hks els sz) /\ Forall (elem_ok c) els /\ mh_first h = hd 0 hks /\
    mh_size h = (if inlined then IMP else RP) + sz /\ RP + sz <= cmax c
  | MD _ _ _ => False
  | MM _ _ _ => inlined = false
  end.

Lemma mwf_root_copy_src r : mwf_root r -> copy_src_ok r false.
Proof.
  intros H. inversion H as [h hks els sz Hg He Hf Hz Hx|d h hs cs Hw H2 Hx]; subst; cbn [copy_src_ok]; [|reflexivity].
  split; [exact Hg|]. split; [exact He|]. split; [exact Hf|]. split; [exact Hz|]. rewrite <- Hz. exact Hx.
Qed.

Theorem mcopy_spec root inlined count alloc : copy_src_ok root inlined ->
  (can_copy pl root = match root with MD _ nx es => (nx =? 0) && can_copy_g es | MM _ _ _ => false end) /\
  (can_copy pl root = true ->
     exists t, copy_map pl root inlined count alloc = (inl (t, [WStore (alloc + 1)]), alloc + 1) /\
       (exists h', t_root t = MD h' 0 (match root with MD _ _ es => es | MM _ _ _ => HKey 0 [] [] 0 end)) /\
       to_list_tree (t_root t) = to_list_tree root /\ mwf_root (t_root t) /\
       t_count t = count /\ t_alloc t = alloc + 1 /\ slab_ids (t_root t) = [alloc + 1] /\
       chain (t_root t) 0 /\ last_next (t_root t) = 0) /\
  (can_copy pl root = false -> exists e al, copy_map pl root inlined count alloc = (inr e, al)).
Proof.
  intros Hsrc. split; [destruct root; reflexivity|]. split.
  - destruct root as [h nx es|h hs cs]; cbn [can_copy]; [|discriminate].
    intros Hc. apply andb_true_iff in Hc as [Hn Hg]. apply N.eqb_eq in Hn. subst nx.
    destruct es as [[|l] hks els sz|l kvs sz]; try contradiction.
    destruct Hsrc as (Wg & He & Hf & Hz & Hx).
    unfold copy_map. rewrite N.eqb_refl, Hg. cbn [negb].
    eexists. split; [reflexivity|]. cbn [t_root t_count t_alloc].
    split; [eexists; reflexivity|]. split; [reflexivity|]. split.
    + constructor; cbn [mh_first mh_size]; auto.
      * destruct inlined; rewrite Hz; unfold IMP, RP, c_inlinedMapDataSlabPrefixSize, c_mapRootDataSlabPrefixSize; lia.
      * destruct inlined; rewrite Hz; unfold IMP, RP, c_inlinedMapDataSlabPrefixSize, c_mapRootDataSlabPrefixSize in *; lia.
    + split; [reflexivity|]. split; [reflexivity|]. split; [|split; reflexivity].
      cbn [slab_ids mh_id]. f_equal.
      apply (proj2 can_copy_sem) in Hg as [Hg _]. rewrite <- (gids_ext_ids dg levels hks els sz Wg). exact Hg.
  - destruct root as [h nx es|h hs cs]; cbn [can_copy copy_map].
    + intros Hc. destruct (nx =? 0); cbn [negb andb] in *; [|do 2 eexists; reflexivity].
      rewrite Hc. cbn [negb]. do 2 eexists; reflexivity.
    + intros _. do 2 eexists; reflexivity.
Qed.
End copy.

End WithT.

(** * 5. The statements of props/C17_map.v *)
Lemma c17_map_batch_ok : forall T dg limit levels ks alloc seed st,
  valid_T T -> (1 <= levels)%nat -> seed <> 0 -> stream_ok dg T ks st ->
  let c := set_threshold T in
  map_from_batch_res dg levels (cinl_melem c) limit c alloc seed st =
  BOk (map_from_batch dg levels (cinl_melem c) limit c alloc seed st).
Proof.
  intros T dg limit levels ks alloc seed st HT Hlv Hseed Hst. cbv zeta.
  destruct (mbatch_spec dg levels T HT Hlv limit ks alloc seed st Hseed Hst) as (t & lg & E & _).
  unfold map_from_batch. rewrite E. reflexivity.
Qed.

Lemma mbatch_spec' : forall T dg limit levels ks alloc seed st,
  valid_T T -> (1 <= levels)%nat -> seed <> 0 -> stream_ok dg T ks st ->
  let c := set_threshold T in
  let '(t, lg) := map_from_batch dg levels (cinl_melem c) limit c alloc seed st in
  minv dg levels T ks t /\ mtwf_full dg levels c t /\
  to_list_tree (t_root t) = ins_all dg levels [] st /\ t_count t = N.of_nat (length st) /\
  alloc < t_alloc t /\ Forall (fun i => alloc < i <= t_alloc t) (slab_ids (t_root t)) /\
  NoDup (slab_ids (t_root t)) /\ log_in alloc (t_alloc t) lg.
Proof.
  intros T dg limit levels ks alloc seed st HT Hlv Hseed Hst. cbv zeta.
  destruct (mbatch_spec dg levels T HT Hlv limit ks alloc seed st Hseed Hst) as (t & lg & E & H).
  unfold map_from_batch. rewrite E. exact H.
Qed.

Lemma c17_map_batch_content : forall T dg limit levels ks alloc seed st,
  valid_T T -> (1 <= levels)%nat -> seed <> 0 -> stream_ok dg T ks st ->
  let c := set_threshold T in
  let t := fst (map_from_batch dg levels (cinl_melem c) limit c alloc seed st) in
  to_list_tree (t_root t) = ins_all dg levels [] st /\ t_count t = N.of_nat (length st) /\
  (canon_sorted dg levels st -> to_list_tree (t_root t) = st).
Proof.
  intros T dg limit levels ks alloc seed st HT Hlv Hseed Hst. cbv zeta.
  pose proof (mbatch_spec' T dg limit levels ks alloc seed st HT Hlv Hseed Hst) as H. cbv zeta in H.
  destruct (map_from_batch _ _ _ _ _ _ _ _) as [t lg]. cbn [fst]. destruct H as (_ & _ & H1 & H2 & _).
  split; [exact H1|]. split; [exact H2|]. intros Hc. rewrite H1. apply ins_all_nil_canon. exact Hc.
Qed.

Lemma c17_map_batch_wf : forall T dg limit levels ks alloc seed st,
  valid_T T -> (1 <= levels)%nat -> seed <> 0 -> stream_ok dg T ks st ->
  let c := set_threshold T in
  let t := fst (map_from_batch dg levels (cinl_melem c) limit c alloc seed st) in
  minv dg levels T ks t /\ mtwf dg levels c t /\ mtwf_full dg levels c t.
Proof.
  intros T dg limit levels ks alloc seed st HT Hlv Hseed Hst. cbv zeta.
  pose proof (mbatch_spec' T dg limit levels ks alloc seed st HT Hlv Hseed Hst) as H. cbv zeta in H.
  destruct (map_from_batch _ _ _ _ _ _ _ _) as [t lg]. cbn [fst]. destruct H as (H1 & H2 & _).
  split; [exact H1|]. split; [apply H1|exact H2].
Qed.

Lemma c17_map_batch_fresh : forall T dg limit levels ks alloc seed st,
  valid_T T -> (1 <= levels)%nat -> seed <> 0 -> stream_ok dg T ks st ->
  let c := set_threshold T in
  let t := fst (map_from_batch dg levels (cinl_melem c) limit c alloc seed st) in
  Forall (fun i => alloc < i /\ i <= t_alloc t) (slab_ids (t_root t)) /\ NoDup (slab_ids (t_root t)) /\
  alloc < t_alloc t.
Proof.
  intros T dg limit levels ks alloc seed st HT Hlv Hseed Hst. cbv zeta.
  pose proof (mbatch_spec' T dg limit levels ks alloc seed st HT Hlv Hseed Hst) as H. cbv zeta in H.
  destruct (map_from_batch _ _ _ _ _ _ _ _) as [t lg]. cbn [fst]. destruct H as (_ & _ & _ & _ & H1 & H2 & H3 & _).
  auto.
Qed.

Lemma c17_map_batch_frame : forall T dg limit levels ks alloc seed st,
  valid_T T -> (1 <= levels)%nat -> seed <> 0 -> stream_ok dg T ks st ->
  let c := set_threshold T in
  let '(t, lg) := map_from_batch dg levels (cinl_melem c) limit c alloc seed st in
  Forall (fun w => exists i, w = WStore i /\ alloc < i /\ i <= t_alloc t) lg.
Proof.
  intros T dg limit levels ks alloc seed st HT Hlv Hseed Hst. cbv zeta.
  pose proof (mbatch_spec' T dg limit levels ks alloc seed st HT Hlv Hseed Hst) as H. cbv zeta in H.
  destruct (map_from_batch _ _ _ _ _ _ _ _) as [t lg]. destruct H as (_ & _ & _ & _ & _ & _ & _ & H). exact H.
Qed.

Lemma c17_map_batch_leaves_others : forall T dg limit levels ks alloc seed st (old : mtree),
  valid_T T -> (1 <= levels)%nat -> seed <> 0 -> stream_ok dg T ks st ->
  let c := set_threshold T in
  ids_ok old -> t_alloc old <= alloc ->
  Forall (fun w => match w with WStore i => ~ In i (slab_ids (t_root old)) | WRemove _ => False end)
         (snd (map_from_batch dg levels (cinl_melem c) limit c alloc seed st)).
Proof.
  intros T dg limit levels ks alloc seed st old HT Hlv Hseed Hst c [_ Hb] Ha. subst c.
  pose proof (c17_map_batch_frame T dg limit levels ks alloc seed st HT Hlv Hseed Hst) as H. cbv zeta in H.
  destruct (map_from_batch _ _ _ _ _ _ _ _) as [t lg]. cbn [snd].
  eapply Forall_impl; [|exact H]. cbn. intros w (i & -> & Hi & _) Hin.
  rewrite Forall_forall in Hb. apply Hb in Hin. lia.
Qed.

Lemma c17_map_independent_partial : forall T dg limit levels ks alloc seed st (old : mtree),
  valid_T T -> (1 <= levels)%nat -> seed <> 0 -> stream_ok dg T ks st ->
  let c := set_threshold T in
  ids_ok old -> t_alloc old <= alloc ->
  let t := fst (map_from_batch dg levels (cinl_melem c) limit c alloc seed st) in
  forall i, In i (slab_ids (t_root t)) -> ~ In i (slab_ids (t_root old)).
Proof.
  intros T dg limit levels ks alloc seed st old HT Hlv Hseed Hst c [_ Hb] Ha t i Hi Hin. subst c t.
  pose proof (c17_map_batch_fresh T dg limit levels ks alloc seed st HT Hlv Hseed Hst) as (H & _). cbv zeta in H.
  rewrite Forall_forall in H, Hb. apply H in Hi. apply Hb in Hin. lia.
Qed.

(* every theorem about operation histories (C02, and through [minv] C05/C13) applies to the result *)
Lemma c17_map_batch_then_run : forall T dg limit levels ks alloc seed st ops,
  valid_T T -> (1 <= levels)%nat -> seed <> 0 -> stream_ok dg T ks st -> Forall (mop_ok T ks) ops ->
  let c := set_threshold T in
  let t := fst (map_from_batch dg levels (cinl_melem c) limit c alloc seed st) in
  let '(t', outs) := mt_run dg levels (cinl_melem c) limit c t ops in
  let '(d', outs') := d_run dg levels limit (ins_all dg levels [] st) ops in
  outs = outs' /\ to_list_tree (t_root t') = d' /\ t_count t' = N.of_nat (length d') /\
  minv dg levels T ks t' /\ t_rootid t' = t_rootid t.
Proof.
  intros T dg limit levels ks alloc seed st ops HT Hlv Hseed Hst Hops. cbv zeta.
  pose proof (c17_map_batch_wf T dg limit levels ks alloc seed st HT Hlv Hseed Hst) as (Hi & _). cbv zeta in Hi.
  pose proof (c17_map_batch_content T dg limit levels ks alloc seed st HT Hlv Hseed Hst) as (Hc & _). cbv zeta in Hc.
  pose proof (mt_run_refines dg levels T HT Hlv limit ks ops _ Hi Hops) as H. rewrite Hc in H. exact H.
Qed.

Lemma c17_map_batch_unsorted : forall T dg limit levels ks alloc seed st1 p q st2,
  valid_T T -> (1 <= levels)%nat -> seed <> 0 -> stream_ok dg T ks (st1 ++ [p]) -> d0 dg q < d0 dg p ->
  let c := set_threshold T in
  map_from_batch_res dg levels (cinl_melem c) limit c alloc seed (st1 ++ p :: q :: st2) = BErr BUnsorted.
Proof. intros T dg limit levels ks alloc seed st1 p q st2 HT Hlv. exact (mbatch_unsorted dg levels T HT Hlv limit ks alloc seed st1 p q st2). Qed.

Lemma c17_map_batch_duplicate : forall T dg limit levels ks alloc seed st1 k v v' st2 st3,
  valid_T T -> (1 <= levels)%nat -> seed <> 0 -> stream_ok dg T ks (st1 ++ (k, v) :: st2) ->
  Forall (fun p => d0 dg p = dg (kid k) 0%nat) st2 ->
  let c := set_threshold T in
  map_from_batch_res dg levels (cinl_melem c) limit c alloc seed (st1 ++ (k, v) :: st2 ++ (k, v') :: st3) = BErr BDuplicate.
Proof. intros T dg limit levels ks alloc seed st1 k v v' st2 st3 HT Hlv. exact (mbatch_duplicate dg levels T HT Hlv limit ks alloc seed st1 k v v' st2 st3). Qed.

Lemma c17_map_batch_seed0 : forall dg levels mie limit c alloc st,
  map_from_batch_res dg levels mie limit c alloc 0 st = BErr BSeed.
Proof. reflexivity. Qed.

Lemma c17_map_copy : forall T dg levels pl root inlined count alloc,
  (1 <= levels)%nat -> copy_src_ok dg levels T root inlined ->
  let c := set_threshold T in
  (can_copy pl root = match root with MD _ nx es => (nx =? 0) && can_copy_g pl es | MM _ _ _ => false end) /\
  (can_copy pl root = true ->
     exists t, copy_map pl root inlined count alloc = (inl (t, [WStore (alloc + 1)]), alloc + 1) /\
       (exists h', t_root t = MD h' 0 (match root with MD _ _ es => es | MM _ _ _ => HKey 0 [] [] 0 end)) /\
       to_list_tree (t_root t) = to_list_tree root /\ mwf_root dg levels c (t_root t) /\
       t_count t = count /\ t_alloc t = alloc + 1 /\ slab_ids (t_root t) = [alloc + 1] /\
       chain (t_root t) 0 /\ last_next (t_root t) = 0) /\
  (can_copy pl root = false -> exists e al, copy_map pl root inlined count alloc = (inr e, al)).
Proof. intros T dg levels pl root inlined count alloc Hlv H. exact (mcopy_spec dg levels T Hlv (fun _ => 0) pl root inlined count alloc H). Qed.

(* the predicate, semantically *)
Lemma c17_map_copy_predicate : forall pl root,
  can_copy pl root = true <->
  exists h es, root = MD h 0 es /\ gids es = [] /\ Forall (plain_pair pl) (to_list es).
Proof.
  intros pl root. destruct root as [h nx es|h hs cs]; cbn [can_copy].
  - rewrite andb_true_iff, N.eqb_eq, (proj2 (can_copy_sem (fun _ _ => 0) 0%nat 0 (fun _ => 0) pl) es). split.
    + intros [-> H]. exists h, es. auto.
    + intros (h' & es' & [= -> -> ->] & H). auto.
  - split; [discriminate|]. intros (h' & es' & E & _). discriminate.
Qed.

(* a copy of a map satisfying the carried invariant satisfies it again *)
Lemma c17_map_copy_minv : forall T dg levels ks pl (src : mtree) alloc,
  valid_T T -> (1 <= levels)%nat -> minv dg levels T ks src -> can_copy pl (t_root src) = true ->
  exists t, copy_map pl (t_root src) false (t_count src) alloc = (inl (t, [WStore (alloc + 1)]), alloc + 1) /\
    minv dg levels T ks t /\ to_list_tree (t_root t) = to_list_tree (t_root src) /\ t_rootid t = alloc + 1.
Proof.
  intros T dg levels ks pl src alloc HT Hlv ((Hr & Hc) & Hln & Hp) Hcan.
  destruct (mcopy_spec dg levels T Hlv ks pl (t_root src) false (t_count src) alloc (mwf_root_copy_src dg levels T _ Hr))
    as (_ & H & _).
  destruct (H Hcan) as (t & E & (h' & Er) & Etl & Wr & Ec & Ea & Eids & Ech & Eln).
  exists t. split; [exact E|]. split; [|split; [exact Etl|]].
  - split; [split; [exact Wr|rewrite Ec, Etl; exact Hc]|]. split; [exact Eln|rewrite Etl; exact Hp].
  - unfold t_rootid. rewrite Er in Eids |- *. cbn [hdr_of slab_ids] in *. injection Eids as E1 _. exact E1.
Qed.

(** * 6. Executable form of the stream hypothesis (for examples) *)
Fixpoint sorted_fromb (dg : N -> nat -> N) (prev : N) (st : dict) : bool :=
  match st with
  | [] => true
  | p :: r => (prev <=? d0 dg p) && sorted_fromb dg (d0 dg p) r
  end.

Definition pair_okb (T : N) (ks : N -> N) (p : kv * kv) : bool :=
  (ksz (fst p) =? ks (kid (fst p))) && (ssize (fst p) (snd p) <=? cinl_melem (set_threshold T)).

Definition stream_okb (dg : N -> nat -> N) (T : N) (ks : N -> N) (st : dict) : bool :=
  sorted_fromb dg 0 st && nodupb (dkeys st) && forallb (pair_okb T ks) st.

Lemma sorted_fromb_sound dg prev st : sorted_fromb dg prev st = true -> sorted_from dg prev st.
Proof.
  revert prev; induction st as [|p r IH]; intros prev H; [exact I|].
  cbn [sorted_fromb] in H. apply andb_true_iff in H as [H1 H2]. split; [apply N.leb_le, H1|apply IH, H2].
Qed.

Lemma stream_okb_sound dg T ks st : stream_okb dg T ks st = true -> stream_ok dg T ks st.
Proof.
  unfold stream_okb. rewrite !andb_true_iff. intros [[H1 H2] H3].
  split; [apply sorted_fromb_sound, H1|]. split; [apply nodupb_sound, H2|].
  rewrite forallb_forall in H3. apply Forall_forall. intros p Hp. specialize (H3 p Hp).
  unfold pair_okb in H3. apply andb_true_iff in H3 as [A B]. split; [apply N.eqb_eq, A|apply N.leb_le, B].
Qed.

(** * 7. The stream a source map yields *)
Lemma canon_sorted_from dg levels st : (1 <= levels)%nat -> canon_sorted dg levels st -> sorted_from dg 0 st.
Proof.
  intros Hlv H. apply sorted_from_Sorted. unfold canon_sorted in H.
  apply StronglySorted_Sorted. induction H as [|p r Hr IH Hf]; constructor; [exact IH|].
  eapply Forall_impl; [|exact Hf]. cbn. intros q Hq. unfold key_lt in Hq.
  destruct levels as [|n]; [lia|]. cbn [dlt] in Hq. unfold d0.
  destruct (dg (kid (fst q)) 0%nat <? dg (kid (fst p)) 0%nat) eqn:E; [discriminate|]. apply N.ltb_ge in E. exact E.
Qed.

(* the iteration order of any map satisfying the carried invariant is an admissible, canonically sorted stream *)
Lemma source_stream_ok : forall T dg levels ks (src : mtree),
  valid_T T -> (1 <= levels)%nat -> minv dg levels T ks src ->
  stream_ok dg T ks (to_list_tree (t_root src)) /\ canon_sorted dg levels (to_list_tree (t_root src)).
Proof.
  intros T dg levels ks src HT Hlv (Hw & _ & Hp).
  destruct (tree_iteration dg levels T HT Hlv src Hw) as (_ & _ & Hs & Hn & _).
  split; [|exact Hs]. split; [apply (canon_sorted_from dg levels); [exact Hlv|exact Hs]|]. split; [exact Hn|exact Hp].
Qed.

(* C17 for maps in one statement: the batch build from the iteration stream of a source map (any seed but 0,
   any allocator state) succeeds and yields a map with the source's content, order and count, satisfying
   the same invariants, under identifiers none of which the source uses *)
Lemma c17_map_batch_of_source : forall T dg limit levels ks (src : mtree) alloc seed,
  valid_T T -> (1 <= levels)%nat -> seed <> 0 -> minv dg levels T ks src -> ids_ok src -> t_alloc src <= alloc ->
  let c := set_threshold T in
  let st := to_list_tree (t_root src) in
  exists t lg, map_from_batch_res dg levels (cinl_melem c) limit c alloc seed st = BOk (t, lg) /\
    to_list_tree (t_root t) = to_list_tree (t_root src) /\ t_count t = t_count src /\
    minv dg levels T ks t /\ mtwf_full dg levels c t /\
    (forall i, In i (slab_ids (t_root t)) -> ~ In i (slab_ids (t_root src))) /\
    Forall (fun w => match w with WStore i => ~ In i (slab_ids (t_root src)) | WRemove _ => False end) lg.
Proof.
  intros T dg limit levels ks src alloc seed HT Hlv Hseed Hi [_ Hb] Ha. cbv zeta.
  destruct (source_stream_ok T dg levels ks src HT Hlv Hi) as (Hst & Hc).
  destruct (mbatch_spec dg levels T HT Hlv limit ks alloc seed _ Hseed Hst) as (t & lg & E & Hm & Hf & Hl & Hn & _ & Hr & _ & Hg).
  exists t, lg. split; [exact E|]. rewrite Hl, (ins_all_nil_canon dg levels _ Hc).
  split; [reflexivity|]. split; [rewrite Hn; symmetry; apply Hi|]. split; [exact Hm|]. split; [exact Hf|].
  rewrite Forall_forall in Hb. split.
  - intros i Hin Hold. rewrite Forall_forall in Hr. apply Hr in Hin. apply Hb in Hold. lia.
  - eapply Forall_impl; [|exact Hg]. cbn. intros w (i & -> & Hi') Hold. apply Hb in Hold. lia.
Qed.
