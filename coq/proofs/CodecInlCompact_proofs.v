(* CodecInlCompact_proofs.v — data slabs with inlined children INCLUDING COMPACT MAPS:
   decode (encode s) = the slab [xslab_canon s] (theories/CodecInl.v).
   Same architecture as Parts 3/4 of CodecInl_proofs.v, generalised in two ways:
     - the decoder's result is a function of the final table F ([x_canon F]), because a compact
       map comes back with the shared entry's seed / digests / key order;
     - "the final table carries no error marker" is a premise (the model's rendering of "Go's
       encoder returned no error"), from which well-formedness of every earlier table follows. *)
From Coq Require Import ZArith NArith List Bool Lia ZifyBool ZifyN ZifyNat.
From AtreeGen Require Import Consts CodecConsts.
From AtreeModel Require Import Codec CodecInl.
From AtreeProofs Require Import Codec_proofs CodecInl_proofs.
Import ListNotations.
Local Open Scope N_scope.
Ltac Zify.zify_post_hook ::= Z.div_mod_to_equations.

Definition rtc {A} (enc : table -> bytes * table)
           (dec : nat -> nat -> table -> bytes -> option (A * bytes)) (out : table -> A) : Prop :=
  forall t b t', enc t = (b, t') ->
    ext t t' /\
    (tbl_ok t' -> forall F r f1 f2, ext t' F -> (length b <= f1)%nat -> (length b <= f2)%nat ->
       dec f1 f2 F (b ++ r) = Some (out F, r)).

Lemma rtc_ext {A} (e1 e2 : table -> bytes * table) dec (out : table -> A) :
  (forall t, e1 t = e2 t) -> rtc e1 dec out -> rtc e2 dec out.
Proof. intros He H t b t' E. rewrite <- He in E. exact (H t b t' E). Qed.

Lemma rtc_list {A B} (enc : table -> A -> bytes * table) dec (outf : A -> table -> B) (l : list A) :
  Forall (fun a => rtc (fun t => enc t a) dec (outf a)) l ->
  rtc (fun t => st_flat enc t l) (fun f1 f2 F => dec_seq (dec f1 f2 F) (length l)) (fun F => map (fun a => outf a F) l).
Proof.
  induction l as [|a l IH]; intros HF t b t' H.
  - cbn [st_flat] in H. apply pair_equal_spec in H as [Hb Ht]; subst b; subst t'. split; [apply ext_refl|]. intros; reflexivity.
  - inversion HF as [|? ? Ha Hl]; subst. cbn [st_flat] in H.
    destruct (enc t a) as [b1 t1] eqn:E1. destruct (st_flat enc t1 l) as [b2 t2] eqn:E2.
    apply pair_equal_spec in H as [Hb Ht]; subst b; subst t'.
    destruct (Ha t b1 t1 E1) as (X1 & D1). destruct (IH Hl t1 b2 t2 E2) as (X2 & D2).
    split; [eapply ext_trans; eassumption|]. intros Hok F r f1 f2 HX L1 L2. rewrite app_length in L1, L2.
    cbn [length dec_seq map]. rewrite <- app_assoc.
    rewrite (D1 (tbl_ok_prefix _ _ X2 Hok)); [|eapply ext_trans; eassumption|lia|lia].
    rewrite (D2 Hok); [reflexivity|exact HX|lia|lia].
Qed.

Section generic.
  Context {V W : Type} (encV : table -> V -> bytes * table) (decV : nat -> table -> bytes -> option (W * bytes)).
  Context (outV : V -> table -> W) (wfV : V -> bool).

  Definition rtcV (v : V) : Prop := rtc (fun t => encV t v) (fun f1 _ F => decV f1 F) (outV v).
  Definition Qc (v : V) : Prop := wfV v = true -> rtcV v.

  Lemma rtc_pair k v : storable_swf k = true -> rtcV v ->
    rtc (fun t => enc_xpair encV t (k, v)) (fun f1 _ F => dec_xpair (decV f1 F)) (fun F => (k, outV v F)).
  Proof.
    intros Hk Hv t b t' H. unfold enc_xpair in H. cbn [fst snd] in H.
    destruct (encV t v) as [bv tv] eqn:E. apply pair_equal_spec in H as [Hb Ht]; subst b; subst t'.
    destruct (Hv t bv tv E) as (X & D). split; [exact X|].
    intros Hok F r f1 f2 HX L1 L2. cbn [length] in L1. rewrite app_length in L1.
    unfold dec_xpair. cbn [app]. change (rd_typed 4 (130 :: ?x)) with (Some (2, x)). cbn [N.eqb Pos.eqb].
    rewrite <- app_assoc. rewrite dec_storable_top_enc by exact Hk. rewrite (D Hok F r f1 f1) by (try exact HX; lia). reflexivity.
  Qed.

  Lemma rtc_pairs ps : Forall (fun p => Qc (snd p)) ps -> forallb (xpair_wf wfV) ps = true ->
    rtc (fun t => st_flat (enc_xpair encV) t ps) (fun f1 f2 F => dec_seq (dec_xpair (decV f1 F)) (length ps))
        (fun F => map (xpair_map (fun v => outV v F)) ps).
  Proof.
    intros HF Hwf.
    apply (rtc_list (enc_xpair encV) (fun f1 _ F => dec_xpair (decV f1 F)) (fun p F => xpair_map (fun v => outV v F) p) ps).
    rewrite Forall_forall in *. rewrite forallb_forall in Hwf. intros [k v] Hin.
    destruct (xpair_wf_split wfV _ (Hwf _ Hin)) as [Hk Hv]. cbn [fst snd] in *.
    unfold xpair_map. cbn [fst snd]. apply rtc_pair; [exact Hk|]. apply (HF _ Hin). exact Hv.
  Qed.

  Lemma rtc_element e : xel_all Qc e -> xel_wf wfV e = true ->
    rtc (fun t => enc_xelement encV t e) (fun f1 f2 F => dec_xelement (decV f1 F) f2) (fun F => xel_map (fun v => outV v F) e).
  Proof.
    induction e as [k v|l hk es IH|l ps|a i] using xelement_ind'; intros Hall Hwf t b t' H.
    - inversion Hall as [? ? Hq| | |]; subst. cbn [xel_wf] in Hwf. destruct (xpair_wf_split wfV _ Hwf) as [Hk Hv]. cbn [fst snd] in *.
      cbn [enc_xelement] in H.
      destruct (rtc_pair k v Hk (Hq Hv) t b t' H) as (X & D). split; [exact X|].
      intros Hok F r f1 f2 HX L1 L2.
      assert (exists b', b = 130 :: b') as [b' ->].
      { unfold enc_xpair in H. destruct (encV t (snd (k, v))). inversion H. eexists. reflexivity. }
      cbn [length] in L2. destruct f2 as [|f2]; [lia|].
      erewrite dec_xel_single by (cbn [app]; reflexivity). rewrite (D Hok F r f1 f1) by (try exact HX; lia). reflexivity.
    - inversion Hall as [|? ? ? Hq| |]; subst.
      destruct (xel_wf_H wfV _ _ _ Hwf) as (Hl & Hlen & Hhk & Hes & Hh & Hwfs).
      cbn [enc_xelement] in H. destruct (st_flat (enc_xelement encV) t es) as [bs ts] eqn:E.
      apply pair_equal_spec in H as [Hb Ht]; subst b; subst t'.
      assert (HF : Forall (fun e => rtc (fun t => enc_xelement encV t e) (fun f1 f2 F => dec_xelement (decV f1 F) f2)
                                        ((fun e F => xel_map (fun v => outV v F) e) e)) es).
      { rewrite Forall_forall in *. rewrite forallb_forall in Hwfs. intros e He. apply IH; auto. }
      destruct (rtc_list _ _ _ _ HF t bs ts E) as (X & D). split; [exact X|].
      intros Hok F r f1 f2 HX L1 L2. cbn [tag8 app length] in L1, L2; rewrite ?app_length in L1, L2.
      destruct f2 as [|f2]; [lia|]. repeat rewrite <- app_assoc. rewrite dec_xel_group. cbn [xel_map].
      set (es' := map (xel_map (fun v => outV v F)) es).
      assert (Hl' : lenN es' = lenN es) by (unfold es'; apply lenN_map).
      rewrite <- Hl'. rewrite (dec_xelements_with_hkey (decV f1 F) (dec_xelement (decV f1 F) f2) l hk es' bs r); try (rewrite ?Hl'; assumption); [reflexivity|].
      unfold es'. rewrite map_length. apply (D Hok); [exact HX|lia|lia].
    - inversion Hall as [| |? ? Hq|]; subst.
      destruct (xel_wf_S wfV _ _ Hwf) as (Hl & Hpos & Hps & Hwfs).
      cbn [enc_xelement] in H. destruct (st_flat (enc_xpair encV) t ps) as [bs ts] eqn:E.
      apply pair_equal_spec in H as [Hb Ht]; subst b; subst t'.
      destruct (rtc_pairs ps Hq Hwfs t bs ts E) as (X & D). split; [exact X|].
      intros Hok F r f1 f2 HX L1 L2. cbn [tag8 app length] in L1, L2; rewrite ?app_length in L1, L2.
      destruct f2 as [|f2]; [lia|]. repeat rewrite <- app_assoc. rewrite dec_xel_group. cbn [xel_map].
      set (ps' := map (xpair_map (fun v => outV v F)) ps).
      assert (Hl' : lenN ps' = lenN ps) by (unfold ps'; apply lenN_map).
      rewrite <- Hl'. rewrite (dec_xelements_with_singles (decV f1 F) (dec_xelement (decV f1 F) f2) l ps' bs r); try (rewrite ?Hl'; assumption); [reflexivity|].
      unfold ps'. rewrite map_length. apply (D Hok F r f1 f1); [exact HX|lia|lia].
    - cbn [enc_xelement] in H. apply pair_equal_spec in H as [Hb Ht]; subst b; subst t'. split; [apply ext_refl|].
      intros Hok F r f1 f2 HX L1 L2. cbn [tag8 app length] in L2; rewrite ?app_length in L2. destruct f2 as [|f2]; [lia|].
      cbn [xel_wf] in Hwf. rewrite <- app_assoc. rewrite dec_xel_ext. cbn [xel_map].
      rewrite dec_storable_top_enc; [reflexivity|]. unfold storable_swf. cbn [storable_wf some_levels]. rewrite Hwf. reflexivity.
  Qed.

  Lemma rtc_elements els : xels_all Qc els -> xels_wf wfV els = true ->
    rtc (fun t => enc_xelements encV t els)
        (fun f1 f2 F => dec_xelements_with (decV f1 F) (dec_xelement (decV f1 F) f2))
        (fun F => xels_map (fun v => outV v F) els).
  Proof.
    intros Hall Hwf t b t' H. destruct els as [l hk es|l ps]; cbn [xels_all enc_xelements] in *.
    - destruct (xels_wf_H wfV _ _ _ Hwf) as (Hl & Hlen & Hhk & Hes & Hh & Hwfs).
      destruct (st_flat (enc_xelement encV) t es) as [bs ts] eqn:E. apply pair_equal_spec in H as [Hb Ht]; subst b; subst t'.
      assert (HF : Forall (fun e => rtc (fun t => enc_xelement encV t e) (fun f1 f2 F => dec_xelement (decV f1 F) f2)
                                        ((fun e F => xel_map (fun v => outV v F) e) e)) es).
      { rewrite Forall_forall in *. rewrite forallb_forall in Hwfs. intros e He. apply rtc_element; auto. }
      destruct (rtc_list _ _ _ _ HF t bs ts E) as (X & D). split; [exact X|].
      intros Hok F r f1 f2 HX L1 L2. rewrite ?app_length in L1, L2. rewrite <- app_assoc. cbn [xels_map].
      set (es' := map (xel_map (fun v => outV v F)) es).
      assert (Hl' : lenN es' = lenN es) by (unfold es'; apply lenN_map).
      rewrite <- Hl'. apply dec_xelements_with_hkey; try (rewrite ?Hl'; assumption).
      unfold es'. rewrite map_length. apply (D Hok); [exact HX|lia|lia].
    - destruct (xels_wf_S wfV _ _ Hwf) as (Hl & Hpos & Hps & Hwfs).
      destruct (st_flat (enc_xpair encV) t ps) as [bs ts] eqn:E. apply pair_equal_spec in H as [Hb Ht]; subst b; subst t'.
      destruct (rtc_pairs ps Hall Hwfs t bs ts E) as (X & D). split; [exact X|].
      intros Hok F r f1 f2 HX L1 L2. rewrite ?app_length in L1, L2. rewrite <- app_assoc. cbn [xels_map].
      set (ps' := map (xpair_map (fun v => outV v F)) ps).
      assert (Hl' : lenN ps' = lenN ps) by (unfold ps'; apply lenN_map).
      rewrite <- Hl'. apply dec_xelements_with_singles; try (rewrite ?Hl'; assumption).
      unfold ps'. rewrite map_length. apply (D Hok F r f1 f1); [exact HX|lia|lia].
  Qed.
End generic.

(* ---------- the table: compact entries ---------- *)

Lemma find_compact_spec key t : forall i j ks, find_compact key t i = Some (j, ks) ->
  exists k mx hk, j = i + N.of_nat k /\ nth_error t k = Some (XDCompact mx hk ks) /\ (k < length t)%nat.
Proof.
  induction t as [|e t IH]; intros i j ks H; cbn [find_compact] in H; [discriminate|].
  destruct e as [ti|mx|mx hk ks'|].
  - destruct (IH _ _ _ H) as (k & mx' & hk' & -> & Hk & Hl). exists (S k), mx', hk'. cbn. repeat split; try lia; assumption.
  - destruct (IH _ _ _ H) as (k & mx' & hk' & -> & Hk & Hl). exists (S k), mx', hk'. cbn. repeat split; try lia; assumption.
  - destruct (bytes_eqb (ctype_id (mx_ti mx) ks') key).
    + inversion H; subst. exists 0%nat, mx, hk. cbn. repeat split; lia.
    + destruct (IH _ _ _ H) as (k & mx' & hk' & -> & Hk & Hl). exists (S k), mx', hk'. cbn. repeat split; try lia; assumption.
  - destruct (IH _ _ _ H) as (k & mx' & hk' & -> & Hk & Hl). exists (S k), mx', hk'. cbn. repeat split; try lia; assumption.
Qed.

Lemma find_compact_app key t e : forall i x, find_compact key t i = Some x -> find_compact key (t ++ e) i = Some x.
Proof.
  induction t as [|a t IH]; intros i x H; cbn [find_compact app] in *; [discriminate|].
  destruct a as [ti|mx|mx hk ks|]; try (apply IH; exact H).
  destruct (bytes_eqb (ctype_id (mx_ti mx) ks) key); [exact H|apply IH; exact H].
Qed.
Lemma find_compact_ext key t F i x : ext t F -> find_compact key t i = Some x -> find_compact key F i = Some x.
Proof. intros [e ->]. apply find_compact_app. Qed.

Lemma find_compact_new t mx hk ks : forall i, find_compact (ctype_id (mx_ti mx) ks) t i = None ->
  find_compact (ctype_id (mx_ti mx) ks) (t ++ [XDCompact mx hk ks]) i = Some (i + lenN t, ks).
Proof.
  induction t as [|a t IH]; intros i H; cbn [find_compact app] in *.
  - rewrite bytes_eqb_refl. f_equal. f_equal. rewrite lenN_nil. lia.
  - rewrite lenN_cons. destruct a as [ti|mx'|mx' hk' ks'|]; try (rewrite IH by exact H; f_equal; f_equal; lia).
    destruct (bytes_eqb (ctype_id (mx_ti mx') ks') (ctype_id (mx_ti mx) ks)); [discriminate|].
    rewrite IH by exact H. f_equal. f_equal. lia.
Qed.

Lemma add_compact_spec t mx hk ks idx cached t1 : add_compact t mx hk ks = (idx, cached, t1) ->
  ext t t1 /\ idx < lenN t1 /\
  (exists mx' hk', nth_error t1 (N.to_nat idx) = Some (XDCompact mx' hk' cached)) /\
  find_compact (ctype_id (mx_ti mx) ks) t1 0 = Some (idx, cached).
Proof.
  unfold add_compact. destruct (find_compact (ctype_id (mx_ti mx) ks) t 0) as [[j ks']|] eqn:E; intros H; inversion H; subst; clear H.
  - destruct (find_compact_spec _ _ _ _ _ E) as (k & mx' & hk' & -> & Hk & Hl).
    split; [apply ext_refl|]. split; [unfold lenN; lia|]. split; [|exact E].
    exists mx', hk'. replace (N.to_nat (0 + N.of_nat k)) with k by lia. exact Hk.
  - split; [apply ext_app|]. split; [rewrite lenN_app, lenN_cons, lenN_nil; lia|]. split.
    + exists mx, hk. rewrite to_nat_lenN. apply nth_error_last.
    + rewrite (find_compact_new t mx hk cached 0 E). reflexivity.
Qed.

Lemma take_key_len {V} k (pool : list (bytes * V)) v pool' : take_key k pool = Some (v, pool') -> length pool = S (length pool').
Proof. intros H. destruct (take_key_sum (fun _ => 0) _ _ _ _ H) as (_ & Hl & _). exact Hl. Qed.
Lemma pick_values_length {V} cached : forall (pool : list (bytes * V)) vs, pick_values cached pool = Some vs -> length vs = length cached.
Proof.
  induction cached as [|k c IH]; intros pool vs H; cbn [pick_values] in H.
  - inversion H. reflexivity.
  - destruct (take_key k pool) as [[v pool']|]; [|discriminate]. destruct (pick_values c pool') as [t|] eqn:E; [|discriminate].
    inversion H; subst. cbn [length]. rewrite (IH _ _ E). reflexivity.
Qed.

(* ---------- computation rules of x_canon ---------- *)

Lemma x_canon_map_nc F mx vid els : compact_kvs mx els = None ->
  x_canon F (XInlMap mx vid els) = XInlMap mx vid (xels_map (x_canon F) els).
Proof. intros H. cbn [x_canon]. rewrite compact_kvs_map, H. reflexivity. Qed.

Lemma map_fst_map {A B C} (f : B -> C) (l : list (A * B)) : map fst (map (fun kv => (fst kv, f (snd kv))) l) = map fst l.
Proof. induction l as [|x l IH]; [reflexivity|]. cbn [map fst]. rewrite IH. reflexivity. Qed.

Lemma x_canon_compact F mx vid els hk kvs i ks mx' hk' ks0 vs : compact_kvs mx els = Some (hk, kvs) ->
  find_compact (ctype_id (mx_ti mx) (map fst kvs)) F 0 = Some (i, ks) ->
  nth_error F (N.to_nat i) = Some (XDCompact mx' hk' ks0) ->
  lenN ks = lenN kvs -> pick_values ks kvs = Some vs ->
  x_canon F (XInlMap mx vid els) = XInlMap mx' vid (compact_elements hk' ks (map (x_canon F) vs)).
Proof.
  intros Hc Hf Hn Hl Hp. cbn [x_canon]. set (f := x_canon F). rewrite compact_kvs_map, Hc. cbn [option_map fst snd].
  rewrite map_fst_map. rewrite Hf, Hn. rewrite lenN_map, Hl, N.eqb_refl. rewrite pick_values_map, Hp. reflexivity.
Qed.

(* ---------- wrappers and the bases ---------- *)

Lemma rtc_wrap lv base (out : table -> xstorable) : lv < two64 -> rtc base decx out ->
  rtc (wrap_some lv base) decx (fun F => N.iter lv XSome (out F)).
Proof.
  intros Hlv Hb t b t' H. unfold wrap_some in H. destruct (base t) as [bb tb] eqn:E.
  apply pair_equal_spec in H as [Hb' Ht]; subst b; subst t'.
  destruct (Hb t bb tb E) as (X & D). split; [exact X|].
  intros Hok F r f1 f2 HX L1 L2. unfold decx. apply dec_x_wrap; [exact Hlv| |exact L1].
  intros fuel Hf. apply (D Hok F r fuel fuel HX Hf Hf).
Qed.

Lemma rtc_plain bb s : rt_prop (fun t => (bb, t)) decx s -> rtc (fun t : table => (bb, t)) decx (fun _ => s).
Proof.
  intros H t b t' E. apply pair_equal_spec in E as [Hb Ht]; subst b; subst t'. split; [apply ext_refl|].
  intros Hok F r f1 f2 HX L1 L2. destruct (H t bb t Hok eq_refl) as (_ & _ & D). apply D; assumption.
Qed.

Definition Pc (s : xstorable) : Prop :=
  forall lv, x_wf false lv s = true -> rtc (fun t => enc_x lv t s) decx (fun F => N.iter lv XSome (x_canon F s)).

Lemma rtc_base_array ti vid es : ti_ok ti = true -> vid < two64 -> lenN es < two16 ->
  forallb (x_wf false 0) es = true -> Forall Pc es ->
  rtc (base_array ti vid es) decx (fun F => XInlArray ti vid (map (x_canon F) es)).
Proof.
  intros Hti Hvid Hn Hwf HP t b t' H. unfold base_array in H.
  destruct (add_array t ti) as [idx t1] eqn:E1. destruct (st_flat (enc_x 0) t1 es) as [bs t2] eqn:E2.
  apply pair_equal_spec in H as [Hb Ht]; subst b; subst t'.
  pose proof (add_array_ext _ _ _ _ E1) as X1.
  assert (HF : Forall (fun a => rtc (fun t => enc_x 0 t a) decx ((fun a F => x_canon F a) a)) es).
  { rewrite Forall_forall in *. rewrite forallb_forall in Hwf. intros a Ha. apply (HP a Ha 0). apply Hwf. exact Ha. }
  destruct (rtc_list (enc_x 0) decx (fun a F => x_canon F a) es HF t1 bs t2 E2) as (X2 & D2).
  split; [eapply ext_trans; eassumption|].
  intros Hok2 F r f1 f2 HX L1 L2.
  assert (Hok : tbl_ok t) by (eapply tbl_ok_prefix; [|exact Hok2]; eapply ext_trans; eassumption).
  destruct (add_array_spec _ _ _ _ Hok Hti E1) as (_ & O1 & Hi & Hnth).
  unfold decx. rewrite !app_length, enc_inl_head_len in L1.
  destruct f1 as [|f]; [lia|]. unfold enc_inl_head. repeat rewrite <- app_assoc. rewrite dec_x_inl_array.
  assert (HX1 : ext t1 F) by (eapply ext_trans; eassumption).
  rewrite (dec_inl_head_enc F idx vid (XDArray ti)); [|pose proof (ext_len _ _ HX1); lia|eapply ext_nth; eassumption|exact Hvid].
  unfold two16 in Hn. rewrite rd_typed_arr16 by lia.
  replace (c_maxArrayElementCount <? lenN es) with false by (unfold c_maxArrayElementCount; lia).
  rewrite to_nat_lenN. unfold decx in D2. rewrite (D2 Hok2 F r f f HX) by lia. reflexivity.
Qed.

Lemma rtc_base_map mx vid els : mx_ok mx = true -> vid < two64 ->
  xels_wf (x_wf false 0) els = true -> xels_all Pc els ->
  rtc (base_map mx vid els) decx (fun F => XInlMap mx vid (xels_map (x_canon F) els)).
Proof.
  intros Hmx Hvid Hwf HP t b t' H. unfold base_map in H.
  destruct (add_map t mx) as [idx t1] eqn:E1. destruct (enc_xelements (enc_x 0) t1 els) as [bs t2] eqn:E2.
  apply pair_equal_spec in H as [Hb Ht]; subst b; subst t'.
  pose proof (add_map_ext _ _ _ _ E1) as X1.
  assert (HQ : xels_all (Qc (enc_x 0) dec_x (fun v F => x_canon F v) (x_wf false 0)) els).
  { eapply xels_all_impl; [|exact HP]. intros v Hv Hw. exact (Hv 0 Hw). }
  destruct (rtc_elements (enc_x 0) dec_x (fun v F => x_canon F v) (x_wf false 0) els HQ Hwf t1 bs t2 E2) as (X2 & D2).
  split; [eapply ext_trans; eassumption|].
  intros Hok2 F r f1 f2 HX L1 L2.
  assert (Hok : tbl_ok t) by (eapply tbl_ok_prefix; [|exact Hok2]; eapply ext_trans; eassumption).
  destruct (add_map_spec _ _ _ _ Hok Hmx E1) as (_ & O1 & Hi & Hnth).
  unfold decx. rewrite !app_length, enc_inl_head_len in L1.
  destruct f1 as [|f]; [lia|]. unfold enc_inl_head. repeat rewrite <- app_assoc. rewrite dec_x_inl_map.
  assert (HX1 : ext t1 F) by (eapply ext_trans; eassumption).
  rewrite (dec_inl_head_enc F idx vid (XDMap mx)); [|pose proof (ext_len _ _ HX1); lia|eapply ext_nth; eassumption|exact Hvid].
  rewrite (D2 Hok2 F r f f HX) by lia. reflexivity.
Qed.

(* the compact form *)
Lemma rtc_compact lv mx vid els hk kvs : lv < two64 -> vid < two64 -> lenN kvs < two16 ->
  compact_kvs mx els = Some (hk, kvs) ->
  (forall k v, In (k, v) kvs -> x_wf false 0 v = true /\ Pc v) ->
  rtc (compact_branch lv mx vid hk kvs) decx (fun F => N.iter lv XSome (x_canon F (XInlMap mx vid els))).
Proof.
  intros Hlv Hvid Hn Hc Hvals t b t' H. unfold compact_branch in H.
  destruct (add_compact t mx hk (map fst kvs)) as [[idx cached] t1] eqn:E1.
  destruct (add_compact_spec _ _ _ _ _ _ _ E1) as (X1 & Hi & (mx' & hk' & Hnth) & Hfind).
  destruct (lenN cached =? lenN kvs) eqn:El.
  2:{ apply pair_equal_spec in H as [Hb Ht]; subst b; subst t'. split; [eapply ext_trans; [exact X1|apply ext_app]|].
      intros Hok. exfalso. exact (tbl_ok_no_error _ Hok). }
  destruct (pick_values cached kvs) as [vs|] eqn:Ep.
  2:{ apply pair_equal_spec in H as [Hb Ht]; subst b; subst t'. split; [eapply ext_trans; [exact X1|apply ext_app]|].
      intros Hok. exfalso. exact (tbl_ok_no_error _ Hok). }
  destruct (st_flat (enc_x 0) t1 vs) as [bs t2] eqn:E2.
  apply pair_equal_spec in H as [Hb Ht]; subst b; subst t'.
  assert (Hlen : length cached = length kvs) by (apply lenN_length_eq; lia).
  destruct (pick_values_spec (fun _ => 0) cached kvs vs Ep Hlen) as (_ & Hin).
  assert (HF : Forall (fun a => rtc (fun t => enc_x 0 t a) decx ((fun a F => x_canon F a) a)) vs).
  { apply Forall_forall. intros v Hv. destruct (Hin v Hv) as [k Hk]. destruct (Hvals k v Hk) as [Hw HP]. exact (HP 0 Hw). }
  destruct (rtc_list (enc_x 0) decx (fun a F => x_canon F a) vs HF t1 bs t2 E2) as (X2 & D2).
  split; [eapply ext_trans; eassumption|].
  intros Hok2 F r f1 f2 HX L1 L2. unfold decx.
  assert (HX1 : ext t1 F) by (eapply ext_trans; eassumption).
  rewrite (x_canon_compact F mx vid els hk kvs idx cached mx' hk' cached vs Hc
             (find_compact_ext _ _ _ _ _ HX1 Hfind) (ext_nth _ _ _ _ HX1 Hnth) ltac:(lia) Ep).
  apply dec_x_wrap; [exact Hlv| |exact L1].
  intros fuel Hf. rewrite !app_length, enc_inl_head_len in Hf.
  destruct fuel as [|f]; [lia|]. unfold enc_inl_head. repeat rewrite <- app_assoc. rewrite dec_x_inl_compact.
  rewrite (dec_inl_head_enc F idx vid (XDCompact mx' hk' cached)); [|pose proof (ext_len _ _ HX1); lia|eapply ext_nth; eassumption|exact Hvid].
  unfold two16 in Hn. rewrite rd_typed_cbor_head by lia. rewrite N.eqb_refl.
  pose proof (pick_values_length _ _ _ Ep) as Hvl.
  replace (N.to_nat (lenN cached)) with (length vs) by (rewrite to_nat_lenN; exact Hvl).
  unfold decx in D2. rewrite (D2 Hok2 F r f f HX) by lia. reflexivity.
Qed.

Lemma rtc_x s : Pc s.
Proof.
  induction s as [w n|bs|a i|s IH|ti vid es IH|mx vid els IH] using xstorable_ind'; intros lv Hwf; cbn [x_wf] in Hwf.
  - apply andb_true_iff in Hwf as [Hlv Hn].
    apply (rtc_ext (wrap_some lv (base_uint w n))); [reflexivity|].
    apply (rtc_wrap lv (base_uint w n) (fun _ => XUint w n)); [lia|]. apply rtc_plain. apply rt_base_uint. lia.
  - apply andb_true_iff in Hwf as [Hwf Hn]. apply andb_true_iff in Hwf as [Hlv _].
    apply (rtc_ext (wrap_some lv (base_string bs))); [reflexivity|].
    apply (rtc_wrap lv (base_string bs) (fun _ => XString bs)); [lia|]. apply rtc_plain. apply rt_base_string. lia.
  - apply andb_true_iff in Hwf as [Hwf Hi]. apply andb_true_iff in Hwf as [Hlv Ha].
    apply (rtc_ext (wrap_some lv (base_slabid a i))); [reflexivity|].
    apply (rtc_wrap lv (base_slabid a i) (fun _ => XSlabID a i)); [lia|]. apply rtc_plain. apply rt_base_slabid; lia.
  - cbn [x_canon]. specialize (IH (lv + 1) Hwf).
    intros t b t' E. destruct (IH t b t' E) as (X & D). split; [exact X|]. intros Hok F r f1 f2 HX L1 L2.
    rewrite <- iter_succ_r. apply D; assumption.
  - repeat (apply andb_true_iff in Hwf as [Hwf ?]).
    apply (rtc_ext (wrap_some lv (base_array ti vid es))); [intros t; symmetry; apply enc_x_array|].
    apply (rtc_wrap lv (base_array ti vid es) (fun F => XInlArray ti vid (map (x_canon F) es))); [lia|].
    apply rtc_base_array; try assumption; lia.
  - repeat (apply andb_true_iff in Hwf as [Hwf ?]).
    destruct (compact_kvs mx els) as [[hk kvs]|] eqn:Ec.
    + destruct (compact_kvs_spec _ _ _ _ Ec) as [l Hels].
      apply (rtc_ext (compact_branch lv mx vid hk kvs)); [intros t; symmetry; apply enc_x_compact; exact Ec|].
      match goal with Hx : xels_wf _ _ = true |- _ => pose proof Hx as Hxw end. rewrite Hels in Hxw.
      destruct (xels_wf_H _ _ _ _ Hxw) as (_ & _ & _ & Hn16 & _ & Hall). rewrite lenN_map in Hn16.
      apply rtc_compact; try assumption; try lia.
      intros k v Hk. assert (Hin : In (XESingle (SString k) v) (map (fun kv => XESingle (SString (fst kv)) (snd kv)) kvs)).
      { apply in_map_iff. exists (k, v). split; [reflexivity|exact Hk]. }
      split.
      * rewrite forallb_forall in Hall. specialize (Hall _ Hin). cbn [xel_wf] in Hall.
        apply (xpair_wf_split (x_wf false 0) (SString k, v)). exact Hall.
      * rewrite Hels in IH. cbn [xels_all] in IH. rewrite Forall_forall in IH. specialize (IH _ Hin). inversion IH; subst. assumption.
    + assert (Hc : is_compact_map mx els = false) by (unfold is_compact_map; rewrite Ec; reflexivity).
      apply (rtc_ext (wrap_some lv (base_map mx vid els))); [intros t; symmetry; apply enc_x_map; exact Hc|].
      apply (rtc_ext (wrap_some lv (base_map mx vid els))); [reflexivity|].
      assert (Hcan : forall F, x_canon F (XInlMap mx vid els) = XInlMap mx vid (xels_map (x_canon F) els)) by (intros F; apply x_canon_map_nc; exact Ec).
      intros t b t' E.
      destruct (rtc_wrap lv (base_map mx vid els) (fun F => XInlMap mx vid (xels_map (x_canon F) els)) ltac:(lia)
                  ltac:(apply rtc_base_map; try assumption; lia) t b t' E) as (X & D).
      split; [exact X|]. intros Hok F r f1 f2 HX L1 L2. rewrite Hcan. apply D; assumption.
Qed.

Lemma rtc_x_top s : x_wf false 0 s = true -> rtc (fun t => enc_x 0 t s) decx_top (fun F => x_canon F s).
Proof.
  intros Hwf t b t' H. destruct (rtc_x s 0 Hwf t b t' H) as (X & D). split; [exact X|].
  intros Hok F r f1 f2 HX _ _. unfold decx_top, dec_x_top.
  apply (D Hok F r (length (b ++ r)) (length (b ++ r)) HX); rewrite app_length; lia.
Qed.

(* ---------- slabs ---------- *)

Lemma cdecode_encode_xarray_data a i x na ni es : xswf false (XArrayData a i x na ni es) = true ->
  decode_xslab (a, i) (encode_xslab (XArrayData a i x na ni es)) = Some (xslab_canon (XArrayData a i x na ni es)).
Proof.
  intros H. unfold xswf in H. split_swf H. unfold two16 in *.
  unfold xslab_canon. unfold xslab_table, xslab_pass1 in *. unfold encode_xslab, xslab_pass1.
  destruct (st_flat (enc_x 0) [] es) as [eb T] eqn:E. cbn [snd] in *.
  assert (HF : Forall (fun s => rtc (fun t => enc_x 0 t s) decx_top ((fun s F => x_canon F s) s)) es).
  { apply Forall_forall. intros s Hs. apply rtc_x_top. rewrite forallb_forall in Hw0. apply Hw0. exact Hs. }
  destruct (rtc_list (enc_x 0) decx_top (fun s F => x_canon F s) es HF [] eb T E) as (_ & D).
  unfold decode_xslab. rewrite rd_headbytes_mk.
  destruct (head_getters c_maskArrayData (xslab_has_ptr (XArrayData a i x na ni es)) (has_next na ni) false (is_some x) (nonempty T) typ_ok_AD)
    as (Hv & Hr & _ & _ & Hi & Hn & Ht & Hs).
  cbv zeta. rewrite Ht, Hs, Hv.
  change (N.shiftr (N.land c_maskArrayData 24) 3 =? 0) with true. change (N.land c_maskArrayData 7 =? 0) with true.
  change (1 =? 1) with true. cbv beta iota.
  unfold dec_xarray_data. rewrite dec_xa_enc by assumption. rewrite Hi, Hn.
  unfold c_maxInlinedExtraDataIndex in Hw.
  rewrite dec_section_opt_enc by (try exact H; unfold two64; lia).
  rewrite dec_next_enc by lia.
  rewrite lenN_app, arr16_len. unfold c_arrayDataSlabElementHeadSize.
  replace (3 + lenN eb <? 3) with false by lia.
  rewrite rd_typed_arr16 by lia.
  replace (c_maxArrayElementCount <? lenN es) with false by (unfold c_maxArrayElementCount; lia).
  rewrite to_nat_lenN. rewrite <- (app_nil_r eb).
  unfold decx_top in D. rewrite (D H T [] (length eb) (length eb) (ext_refl T)) by lia. reflexivity.
Qed.

Lemma cdecode_encode_xmap_data a i x na ni anys cg els : xswf false (XMapData a i x na ni anys cg els) = true ->
  decode_xslab (a, i) (encode_xslab (XMapData a i x na ni anys cg els)) = Some (xslab_canon (XMapData a i x na ni anys cg els)).
Proof.
  intros H. unfold xswf in H. split_swf H.
  unfold xslab_canon. unfold xslab_table, xslab_pass1 in *. unfold encode_xslab, xslab_pass1.
  destruct (enc_xelements (enc_x 0) [] els) as [eb T] eqn:E. cbn [snd] in *.
  assert (HQ : xels_all (Qc (enc_x 0) (fun _ F => dec_x_top F) (fun v F => x_canon F v) (x_wf false 0)) els).
  { apply xels_all_intro. intros v Hv. apply rtc_x_top. exact Hv. }
  destruct (rtc_elements (enc_x 0) (fun _ F => dec_x_top F) (fun v F => x_canon F v) (x_wf false 0) els HQ Hw0 [] eb T E) as (_ & D).
  unfold decode_xslab. rewrite rd_headbytes_mk.
  assert (Htyp : typ_ok (if cg then c_maskCollisionGroup else c_maskMapData)) by (destruct cg; [apply typ_ok_CG|apply typ_ok_MD]).
  destruct (head_getters _ (xslab_has_ptr (XMapData a i x na ni anys cg els)) (has_next na ni) anys (is_some x) (nonempty T) Htyp)
    as (Hv & Hr & _ & Hl & Hi & Hn & Ht & Hs).
  cbv zeta. rewrite Ht, Hs, Hv.
  assert (E1 : N.shiftr (N.land (if cg then c_maskCollisionGroup else c_maskMapData) 24) 3 = 1) by (destruct cg; reflexivity).
  assert (E2 : ((N.land (if cg then c_maskCollisionGroup else c_maskMapData) 7 =? 0)
                || (N.land (if cg then c_maskCollisionGroup else c_maskMapData) 7 =? 3)) = true) by (destruct cg; reflexivity).
  assert (E3 : (N.land (if cg then c_maskCollisionGroup else c_maskMapData) 7 =? 3) = cg) by (destruct cg; reflexivity).
  rewrite E1, E2. change (1 =? 1) with true. change (1 =? 0) with false. cbv beta iota.
  unfold dec_xmap_data. rewrite dec_xm_enc by assumption. rewrite Hi, Hn, Hl, Hs, E3.
  unfold c_maxInlinedExtraDataIndex in Hw.
  rewrite dec_section_opt_enc by (try exact H; unfold two64; lia).
  rewrite dec_next_enc by lia.
  unfold dec_xelements_top. rewrite <- (app_nil_r eb).
  rewrite (D H T [] (length (eb ++ [])) (length (eb ++ [])) (ext_refl T)) by (rewrite app_length; lia).
  rewrite negb_involutive. reflexivity.
Qed.

Lemma xdecode_encode_canon s : xswf false s = true -> decode_xslab (xsid s) (encode_xslab s) = Some (xslab_canon s).
Proof.
  destruct s; cbn [xsid].
  - apply cdecode_encode_xarray_data.
  - apply cdecode_encode_xmap_data.
Qed.

(* ---------- what x_canon does ---------- *)

Lemma take_key_lookup {V} k (pool : list (bytes * V)) v pool' : take_key k pool = Some (v, pool') ->
  kv_lookup k pool = Some v /\ forall k0, k0 <> k -> kv_lookup k0 pool' = kv_lookup k0 pool.
Proof.
  revert v pool'. induction pool as [|[k' v'] pool IH]; intros v pool' H; [discriminate|]. cbn [take_key kv_lookup] in *.
  destruct (bytes_eqb k' k) eqn:E.
  - inversion H; subst. split; [reflexivity|]. intros k0 Hk0. apply bytes_eqb_eq in E. subst k'.
    destruct (bytes_eqb k k0) eqn:E0; [apply bytes_eqb_eq in E0; congruence|reflexivity].
  - destruct (take_key k pool) as [[x r]|] eqn:Et; [|discriminate]. inversion H; subst.
    destruct (IH _ _ eq_refl) as (Hl & Hr). split; [exact Hl|]. intros k0 Hk0. cbn [kv_lookup].
    destruct (bytes_eqb k' k0); [reflexivity|]. apply Hr. exact Hk0.
Qed.

Lemma pick_values_lookup {V} cached : forall (pool : list (bytes * V)) vs,
  pick_values cached pool = Some vs -> length cached = length pool ->
  forall k, kv_lookup k (combine cached vs) = kv_lookup k pool.
Proof.
  induction cached as [|c cs IH]; intros pool vs H Hl k; cbn [pick_values] in H.
  - inversion H; subst. destruct pool; [reflexivity|discriminate].
  - destruct (take_key c pool) as [[v pool']|] eqn:E; [|discriminate].
    destruct (pick_values cs pool') as [t|] eqn:E2; [|discriminate]. inversion H; subst.
    destruct (take_key_lookup _ _ _ _ E) as (Hc & Hr). pose proof (take_key_len _ _ _ _ E) as Hlen. cbn [length] in Hl.
    cbn [combine kv_lookup]. destruct (bytes_eqb c k) eqn:Ek.
    + apply bytes_eqb_eq in Ek. subst k. symmetry. exact Hc.
    + rewrite (IH pool' t E2 ltac:(lia) k). apply Hr. intros ->. rewrite bytes_eqb_refl in Ek. discriminate.
Qed.

Lemma kv_lookup_map {V W} (f : V -> W) k (kvs : list (bytes * V)) :
  kv_lookup k (map (fun kv => (fst kv, f (snd kv))) kvs) = option_map f (kv_lookup k kvs).
Proof.
  induction kvs as [|[k' v] kvs IH]; [reflexivity|]. cbn [map kv_lookup fst snd].
  destruct (bytes_eqb k' k); [reflexivity|exact IH].
Qed.

Lemma singles_of_map {V W} (f : V -> W) (kvs : list (bytes * V)) :
  map (xel_map f) (singles_of kvs) = singles_of (map (fun kv => (fst kv, f (snd kv))) kvs).
Proof. unfold singles_of. rewrite !map_map. reflexivity. Qed.

(* a compact map after a store / load cycle: again an hkey map of plain StringValue-keyed
   entries, with the same value id, in which every key has the (cycled) value it had before *)
Lemma x_canon_content F mx vid els hk kvs : compact_kvs mx els = Some (hk, kvs) ->
  exists mx' l' hk' kvs',
    x_canon F (XInlMap mx vid els) = XInlMap mx' vid (XHkeyElems l' hk' (singles_of kvs')) /\
    forall k, kv_lookup k kvs' = option_map (x_canon F) (kv_lookup k kvs).
Proof.
  intros Hc. destruct (compact_kvs_spec _ _ _ _ Hc) as [l Hels].
  assert (Hfb : exists mx' l' hk' kvs',
             XInlMap mx vid (xels_map (x_canon F) els) = XInlMap mx' vid (XHkeyElems l' hk' (singles_of kvs')) /\
             forall k, kv_lookup k kvs' = option_map (x_canon F) (kv_lookup k kvs)).
  { exists mx, l, hk, (map (fun kv => (fst kv, x_canon F (snd kv))) kvs). split.
    - rewrite Hels. cbn [xels_map]. fold (singles_of kvs). rewrite singles_of_map. reflexivity.
    - intros k. apply kv_lookup_map. }
  cbn [x_canon]. set (f := x_canon F) in *. rewrite compact_kvs_map, Hc. cbn [option_map fst snd]. rewrite map_fst_map.
  destruct (find_compact (ctype_id (mx_ti mx) (map fst kvs)) F 0) as [[i ks]|]; [|exact Hfb].
  destruct (nth_error F (N.to_nat i)) as [[ti|mx2|mx' hk' ks0|]|]; try exact Hfb.
  rewrite lenN_map. destruct (lenN ks =? lenN kvs) eqn:El; [|exact Hfb].
  rewrite pick_values_map. destruct (pick_values ks kvs) as [vs|] eqn:Ep; [|exact Hfb]. cbn [option_map].
  exists mx', 0, hk', (combine ks (map f vs)). split; [reflexivity|].
  intros k. assert (Hp' : pick_values ks (map (fun kv => (fst kv, f (snd kv))) kvs) = Some (map f vs)) by (rewrite pick_values_map, Ep; reflexivity).
  rewrite (pick_values_lookup ks _ _ Hp' ltac:(rewrite map_length; apply lenN_length_eq; lia) k). apply kv_lookup_map.
Qed.

(* without compact maps nothing changes *)
Section generic_id.
  Context {V : Type} (f : V -> V) (q : V -> bool).
  Lemma xpairs_map_id (ps : list (storable * V)) :
    Forall (fun p => q (snd p) = false -> f (snd p) = snd p) ps -> existsb (fun p => q (snd p)) ps = false ->
    map (xpair_map f) ps = ps.
  Proof.
    induction ps as [|[k v] ps IH]; intros HF Hq; [reflexivity|]. inversion HF; subst. cbn [existsb snd] in *.
    apply orb_false_iff in Hq as [Hq1 Hq2]. cbn [map]. unfold xpair_map at 1. cbn [fst snd]. rewrite H1 by exact Hq1. rewrite IH by assumption. reflexivity.
  Qed.
  Lemma xel_map_id e : xel_all (fun v => q v = false -> f v = v) e -> xel_any q e = false -> xel_map f e = e.
  Proof.
    induction e as [k v|l hk es IH|l ps|a i] using xelement_ind'; intros Hall Hq; cbn [xel_map xel_any] in *.
    - inversion Hall; subst. rewrite H0 by exact Hq. reflexivity.
    - inversion Hall as [|? ? ? Ha| |]; subst. f_equal. clear Hall. induction es as [|e es IHes]; [reflexivity|].
      inversion IH; subst. inversion Ha; subst. cbn [existsb] in Hq. apply orb_false_iff in Hq as [Hq1 Hq2].
      cbn [map]. rewrite H1 by assumption. rewrite IHes by assumption. reflexivity.
    - inversion Hall; subst. rewrite xpairs_map_id by assumption. reflexivity.
    - reflexivity.
  Qed.
  Lemma xels_map_id els : xels_all (fun v => q v = false -> f v = v) els -> xels_any q els = false -> xels_map f els = els.
  Proof.
    destruct els as [l hk es|l ps]; cbn [xels_all xels_any xels_map]; intros Hall Hq.
    - f_equal. induction es as [|e es IHes]; [reflexivity|]. inversion Hall; subst. cbn [existsb] in Hq.
      apply orb_false_iff in Hq as [Hq1 Hq2]. cbn [map]. rewrite xel_map_id by assumption. rewrite IHes by assumption. reflexivity.
    - rewrite xpairs_map_id by assumption. reflexivity.
  Qed.
End generic_id.

Lemma x_canon_plain F s : x_compact s = false -> x_canon F s = s.
Proof.
  induction s as [w n|bs|a i|s IH|ti vid es IH|mx vid els IH] using xstorable_ind'; intros Hq; cbn [x_compact x_canon] in *; try reflexivity.
  - rewrite IH by exact Hq. reflexivity.
  - f_equal. induction es as [|e es IHes]; [reflexivity|]. inversion IH; subst. cbn [existsb] in Hq.
    apply orb_false_iff in Hq as [Hq1 Hq2]. cbn [map]. rewrite H1 by exact Hq1. rewrite IHes by assumption. reflexivity.
  - apply orb_false_iff in Hq as [Hq1 Hq2]. rewrite compact_kvs_map. unfold is_compact_map in Hq1.
    destruct (compact_kvs mx els); [discriminate|]. cbn [option_map].
    rewrite (xels_map_id (x_canon F) x_compact els IH Hq2). reflexivity.
Qed.

Lemma map_canon_plain F es : existsb x_compact es = false -> map (x_canon F) es = es.
Proof.
  induction es as [|e es IH]; intros Hq; [reflexivity|]. cbn [existsb] in Hq. apply orb_false_iff in Hq as [Hq1 Hq2].
  cbn [map]. rewrite x_canon_plain by exact Hq1. rewrite IH by exact Hq2. reflexivity.
Qed.

Lemma xslab_canon_plain s : xslab_compact s = false -> xslab_canon s = s.
Proof.
  unfold xslab_canon. generalize (xslab_table s). intros F.
  destruct s as [a i x na ni es|a i x na ni anys cg els]; cbn [xslab_compact]; intros Hq.
  - rewrite map_canon_plain by exact Hq. reflexivity.
  - f_equal. apply (xels_map_id _ x_compact); [|exact Hq]. apply xels_all_intro. intros v Hv. apply x_canon_plain. exact Hv.
Qed.
