(* NestedDurable_examples.v — a concrete history with a child that crosses the inline limit in both
   directions (non-vacuity of C03_nested / C09_nested).  Limits: maxInlineArrayElementSize = 33, so
   that a child array of five 3-byte scalars (17 + 15 = 32) is inlined and a sixth scalar uninlines it. *)
From Coq Require Import ZArith NArith List Bool Lia Arith.
From AtreeGen Require Import Consts.
From AtreeModel Require Import Nested NestedDurable.
From AtreeProofs Require Import Nested_base Nested_resync Nested_proofs Nested_steps Nested_examples
  NestedDurable_base NestedDurable_proofs.
Import ListNotations.
Local Open Scope N_scope.

Definition cfgS : ncfg := mkCfg 33 40 2 4.

(* parent 1 = [child 2 (5 scalars, inlined), 99], committed *)
Definition dS : dstate := fst (drun 8 cfgS dinit ops0).
(* a sixth element through the child handle: child 2 leaves its parent's register *)
Definition oGrow : nop := OArrInsert 2 5 (sc 15).
Definition dS1 : dstate := fst (dstep 8 cfgS dS oGrow).
Definition dS2 : dstate := fst (dstep 8 cfgS dS1 OCommit).
(* removing it again: child 2 is inlined again, its register is removed *)
Definition oShrink : nop := OArrRemove 2 0.
Definition dS3 : dstate := fst (dstep 8 cfgS dS2 oShrink).
Definition dS4 : dstate := fst (dstep 8 cfgS dS3 OCommit).

Lemma dreach_run_cons n g d o r d1 :
  dreach n g d -> op_ok n (d_f d) o -> dstep n g d o = (d1, true) ->
  (dreach n g d1 -> dreach n g (fst (drun n g d1 r))) -> dreach n g (fst (drun n g d (o :: r))).
Proof.
  intros Hr Hok Hs K. cbn [drun]. rewrite Hs. apply K. econstructor; eauto.
Qed.

Ltac dreach_step tac :=
  match goal with H : dreach _ _ _ |- _ => eapply (dreach_run_cons _ _ _ _ _ _ H); [tac|vm_compute; reflexivity|clear H; intro] end.

Lemma dreach_dS : dreach 8 cfgS dS.
Proof.
  unfold dS, ops0. assert (H : dreach 8 cfgS dinit) by constructor.
  dreach_step ltac:(vm_compute; reflexivity).
  dreach_step ltac:(vm_compute; reflexivity).
  do 5 (dreach_step ltac:(ok_scalar_insert)).
  dreach_step ltac:(idtac).
  { split; [eexists; split; [vm_compute; reflexivity|split; [reflexivity|cbn; lia]]|].
    split; [eexists; vm_compute; reflexivity|]. split.
    - intros (p & i & s & w & E). edge_enum E.
    - exists (fun v => if v =? 2 then 1%nat else 0%nat). split; [|split].
      + intros x i s v' w' E. edge_enum E.
      + cbn. lia.
      + intros x. destruct (x =? 2); lia. }
  dreach_step ltac:(ok_scalar_insert).
  dreach_step ltac:(exact I).
  exact H.
Qed.

Lemma ok_grow : op_ok 8 (d_f dS) oGrow.
Proof. cbn [op_ok oGrow]. split; [eexists; split; [vm_compute; reflexivity|split; [reflexivity|cbn [c_slots length]; lia]]|exact I]. Qed.
Lemma step_grow : dstep 8 cfgS dS oGrow = (dS1, true).
Proof. vm_compute. reflexivity. Qed.
Lemma dreach_dS1 : dreach 8 cfgS dS1.
Proof. econstructor; [apply dreach_dS|apply ok_grow|apply step_grow]. Qed.
Lemma step_commit1 : dstep 8 cfgS dS1 OCommit = (dS2, true).
Proof. vm_compute. reflexivity. Qed.
Lemma dreach_dS2 : dreach 8 cfgS dS2.
Proof. apply (dreach_step 8 cfgS dS1 OCommit dS2 dreach_dS1 I step_commit1). Qed.
Lemma ok_shrink : op_ok 8 (d_f dS2) oShrink.
Proof. cbn [op_ok oShrink]. eexists. split; [vm_compute; reflexivity|split; [reflexivity|cbn [c_slots length]; lia]]. Qed.
Lemma step_shrink : dstep 8 cfgS dS2 oShrink = (dS3, true).
Proof. vm_compute. reflexivity. Qed.
Lemma dreach_dS3 : dreach 8 cfgS dS3.
Proof. econstructor; [apply dreach_dS2|apply ok_shrink|apply step_shrink]. Qed.
Lemma step_commit3 : dstep 8 cfgS dS3 OCommit = (dS4, true).
Proof. vm_compute. reflexivity. Qed.

Definition five : list tslot := [(0,0,TS 10 3); (0,0,TS 11 3); (0,0,TS 12 3); (0,0,TS 13 3); (0,0,TS 14 3)].

(* the registers along the history *)
Lemma example_registers :
  (* committed, child inlined: one register, the child embedded *)
  stored_ids 8 (d_f dS) = [1] /\
  lookup (d_led dS) 1 = Some (KArr, [(0,0,TI 2 0 KArr five); (0,0,TS 99 3)]) /\ lookup (d_led dS) 2 = None /\
  (* grown through the child handle, not yet committed: two registers, both in the write set, ledger still old *)
  stored_ids 8 (d_f dS1) = [1; 2] /\ dirty (d_f dS1) 1 = Some true /\ dirty (d_f dS1) 2 = Some true /\
  d_led dS1 = d_led dS /\
  (* committed: the parent's register holds a reference *)
  lookup (d_led dS2) 1 = Some (KArr, [(0,0,TR 2 0); (0,0,TS 99 3)]) /\
  lookup (d_led dS2) 2 = Some (KArr, five ++ [(0,0,TS 15 3)]) /\
  load 8 (lookup (d_led dS2)) 1 =
    Some (KArr, [(0,0,NC 2 0 KArr false [(0,0,NS 10 3); (0,0,NS 11 3); (0,0,NS 12 3); (0,0,NS 13 3); (0,0,NS 14 3); (0,0,NS 15 3)]);
                 (0,0,NS 99 3)]) /\
  (* shrunk: inlined again, storage.Remove logged; after the commit register 2 is gone *)
  stored_ids 8 (d_f dS3) = [1] /\ dirty (d_f dS3) 2 = Some false /\ dirty (d_f dS3) 1 = Some true /\
  lookup (d_led dS3) 2 <> None /\
  map fst (d_led dS4) = [1].
Proof. vm_compute. repeat split; auto; discriminate. Qed.
