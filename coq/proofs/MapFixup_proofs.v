(* MapFixup_proofs.v — what a map index slab does after one of its children has changed
   (MapMetaDataSlab.SplitChildSlab, MergeOrRebalanceChildSlab, the common tail of
   MapMetaDataSlab.Set / Remove = [fix_child]): the parent's header copies and children stay
   consistent, every child is back inside the size band, the parent's firstKey is the first child's,
   the key ranges of the children stay ordered, the sequence of level-0 digests and elements is
   unchanged, and the "panic" cell of the decision table (no sibling) is unreachable for a slab with
   at least two children.  The map twin of ArrayFixup_proofs.v. *)
From Coq Require Import ZArith NArith List Bool Arith Lia ZifyBool ZifyN ZifyNat Sorted.
From AtreeGen Require Import Consts.
From AtreeModel Require Import Settings MapElems MapElemsInv MapTree MapTreeInv.
From AtreeProofs Require Import Settings_proofs ArrayList_lemmas MapElems_proofs MapTree_proofs MapRebalance_proofs.
Import ListNotations.
Local Open Scope N_scope.
Ltac Zify.zify_post_hook ::= Z.div_mod_to_equations.

(** * list algebra around two neighbours *)
Lemma flat_mid1 {A B} (f : A -> list B) pre x post :
  flat_map f (pre ++ x :: post) = flat_map f pre ++ f x ++ flat_map f post.
Proof. rewrite flat_map_app. reflexivity. Qed.
Lemma flat_mid2 {A B} (f : A -> list B) pre l r post l' r' : f l' ++ f r' = f l ++ f r ->
  flat_map f (pre ++ l' :: r' :: post) = flat_map f (pre ++ l :: r :: post).
Proof. intros H. rewrite !flat_map_app. cbn [flat_map]. f_equal. rewrite !app_assoc. f_equal. exact H. Qed.
Lemma flat_mid21 {A B} (f : A -> list B) pre l r post m : f m = f l ++ f r ->
  flat_map f (pre ++ m :: post) = flat_map f (pre ++ l :: r :: post).
Proof. intros H. rewrite !flat_map_app. cbn [flat_map]. rewrite H, <- !app_assoc. reflexivity. Qed.
Lemma flat_mid12 {A B} (f : A -> list B) pre x post l r : f l ++ f r = f x ->
  flat_map f (pre ++ l :: r :: post) = flat_map f (pre ++ x :: post).
Proof. intros H. symmetry. apply flat_mid21. symmetry. exact H. Qed.

Lemma sorted_mid2 pre l r post :
  ssorted (flat_map keys_of (pre ++ l :: r :: post)) -> ssorted (keys_of l ++ keys_of r).
Proof.
  rewrite flat_map_app. cbn [flat_map]. intros H. apply ssorted_app_inv2 in H. destruct H as (_ & H).
  rewrite app_assoc in H. apply ssorted_app_inv2 in H. tauto.
Qed.

Lemma hfirst_mid pre x y r1 r2 : mh_first (hdr_of x) = mh_first (hdr_of y) ->
  hfirst (map hdr_of (pre ++ x :: r1)) = hfirst (map hdr_of (pre ++ y :: r2)).
Proof. intros H. destruct pre; cbn [app map hfirst]; [exact H|reflexivity]. Qed.

Lemma first_if0_first pre (h : mhdr) x y r1 r2 :
  mh_first h = hfirst (map hdr_of (pre ++ y :: r2)) ->
  mh_first (first_if0 (length pre) h x) = hfirst (map hdr_of (pre ++ x :: r1)).
Proof. destruct pre; cbn [length first_if0 app map hfirst set_first mh_first]; auto. Qed.
Lemma first_if0_size k h x : mh_size (first_if0 k h x) = mh_size h.
Proof. destruct k; reflexivity. Qed.
Lemma first_if0_id k h x : mh_id (first_if0 k h x) = mh_id h.
Proof. destruct k; reflexivity. Qed.

Section WithT.
Variable dg : N -> nat -> N.
Variable levels : nat.
Variable T : N.
Hypothesis HT : valid_T T.
Hypothesis Hlv : (0 < levels)%nat.
Local Notation c := (set_threshold T).
Local Notation mwfn := (mwfn dg levels c).
Local Notation in_band := (in_band c).
Local Notation kids_ok := (kids_ok dg levels T).
Local Notation slack := (slack T).
Local Notation pfx_of := pfx_of.

(* the result n' of a fix-up of parent header h over the (logical) children cs *)
Definition fix_good (d : nat) (h : mhdr) (cs : list mnode) (n' : mnode) : Prop :=
  mwfn (S d) n' /\ keys_of n' = flat_map keys_of cs /\ elems_flat n' = flat_map elems_flat cs /\
  mh_id (hdr_of n') = mh_id h /\ last_next n' = last (map last_next cs) 0.

(** * SplitChildSlab *)
Lemma split_child_ok d h pre ch post alloc :
  kids_ok d pre -> kids_ok d post -> mwfn d ch ->
  cmax c < mh_size (hdr_of ch) -> mh_size (hdr_of ch) <= cmax c + slack ch ->
  let cs := pre ++ ch :: post in
  ssorted (flat_map keys_of cs) ->
  mh_size h = PM + N.of_nat (length cs) * HS -> mh_first h = hfirst (map hdr_of cs) ->
  exists n' lg,
    split_child h (map hdr_of cs) cs (length pre) ch alloc = TOk (n', alloc + 1, lg) /\
    fix_good d h cs n' /\ mh_size (hdr_of n') = mh_size h + HS.
Proof.
  intros Hpre Hpost Hw Hlo Hhi cs Hs Hsz Hf.
  destruct (split_ok dg levels T HT Hlv d ch (alloc + 1) Hw Hlo Hhi)
    as (l & r & Hsp & Hwl & Hwr & Hbl & Hbr & Hk & He & Hidl & Hidr & Hfl & Hln).
  unfold split_child. rewrite Hsp. cbv beta iota.
  subst cs. rewrite map_app in *. cbn [map] in *.
  assert (Hk' : length pre = length (map hdr_of pre)) by (symmetry; apply map_length).
  rewrite (replace_nth_at (length pre)) by exact Hk'.
  rewrite (insert_nth_at_S (length pre)) by exact Hk'.
  rewrite (replace_nth_at (length pre)) by reflexivity.
  rewrite (insert_nth_at_S (length pre)) by reflexivity.
  do 2 eexists. split; [reflexivity|].
  replace (map hdr_of pre ++ hdr_of l :: hdr_of r :: map hdr_of post)
    with (map hdr_of (pre ++ l :: r :: post)) by (rewrite map_app; reflexivity).
  split; [|reflexivity].
  unfold fix_good. cbn [hdr_of mh_id keys_of elems_flat last_next].
  repeat split.
  - apply (mwfn_MM_intro dg levels T HT Hlv); cbn [mh_size mh_first].
    + apply kids_ok_app. split; [exact Hpre|]. apply kids_ok_cons. split; [tauto|].
      apply kids_ok_cons. split; [tauto|exact Hpost].
    + destruct pre; discriminate.
    + rewrite (flat_mid12 keys_of pre ch post l r Hk). exact Hs.
    + rewrite Hsz, !app_length. cbn [length]. unfold_msizes. lia.
    + rewrite Hf. change (map hdr_of pre ++ hdr_of ch :: map hdr_of post) with (map hdr_of pre ++ map hdr_of (ch :: post)).
      rewrite <- map_app. apply hfirst_mid. symmetry. exact Hfl.
  - apply flat_mid12. exact Hk.
  - apply flat_mid12. exact He.
  - rewrite !last_map_app. cbn [map].
    change (last (last_next l :: last_next r :: map last_next post) 0) with (last (last_next r :: map last_next post) 0).
    rewrite Hln. reflexivity.
Qed.

(** * the two generic shapes: rebalance two neighbours, merge two neighbours *)
Lemma rebalance_children_generic d h pre l r post l' r' (borrow : bool) :
  kids_ok d pre -> kids_ok d post ->
  (if borrow then n_borrow_from_right c l r else n_lend_to_right c l r) = TOk (l', r') ->
  mwfn d l' -> mwfn d r' -> in_band l' -> in_band r' ->
  keys_of l' ++ keys_of r' = keys_of l ++ keys_of r ->
  elems_flat l' ++ elems_flat r' = elems_flat l ++ elems_flat r ->
  last_next r' = last_next r ->
  let cs := pre ++ l :: r :: post in
  ssorted (flat_map keys_of cs) ->
  mh_size h = PM + N.of_nat (length cs) * HS -> mh_first h = hfirst (map hdr_of cs) ->
  exists n' lg,
    rebalance_children c h (map hdr_of cs) cs (length pre) l r borrow = TOk (n', lg) /\
    fix_good d h cs n' /\ mh_size (hdr_of n') = mh_size h.
Proof.
  intros Hpre Hpost Hop Hwl Hwr Hbl Hbr Hk He Hln cs Hs Hsz Hf.
  unfold rebalance_children. rewrite Hop. cbv beta iota.
  subst cs. rewrite map_app in *. cbn [map] in *.
  assert (Hk' : length pre = length (map hdr_of pre)) by (symmetry; apply map_length).
  rewrite (replace_nth_at (length pre)) by exact Hk'.
  rewrite (replace_nth_at (length pre)) by reflexivity.
  change (hdr_of l' :: hdr_of r :: map hdr_of post) with ([hdr_of l'] ++ hdr_of r :: map hdr_of post).
  change (l' :: r :: post) with ([l'] ++ r :: post).
  rewrite !app_assoc.
  rewrite (replace_nth_at (S (length pre))) by (rewrite app_length, map_length; cbn; lia).
  rewrite (replace_nth_at (S (length pre))) by (rewrite app_length; cbn; lia).
  rewrite <- !app_assoc. cbn [app].
  do 2 eexists. split; [reflexivity|].
  replace (map hdr_of pre ++ hdr_of l' :: hdr_of r' :: map hdr_of post)
    with (map hdr_of (pre ++ l' :: r' :: post)) by (rewrite map_app; reflexivity).
  split; [|cbn [hdr_of]; apply first_if0_size].
  unfold fix_good. cbn [hdr_of keys_of elems_flat last_next].
  repeat split.
  - apply (mwfn_MM_intro dg levels T HT Hlv).
    + apply kids_ok_app. split; [exact Hpre|]. apply kids_ok_cons. split; [tauto|].
      apply kids_ok_cons. split; [tauto|exact Hpost].
    + destruct pre; discriminate.
    + rewrite (flat_mid2 keys_of pre l r post l' r' Hk). exact Hs.
    + rewrite first_if0_size, Hsz, !app_length. reflexivity.
    + apply first_if0_first with (y := l) (r2 := r :: post).
      rewrite Hf. change (map hdr_of pre ++ hdr_of l :: hdr_of r :: map hdr_of post) with (map hdr_of pre ++ map hdr_of (l :: r :: post)).
      rewrite <- map_app. reflexivity.
  - apply flat_mid2. exact Hk.
  - apply flat_mid2. exact He.
  - apply first_if0_id.
  - rewrite !last_map_app. cbn [map].
    change (last (last_next l' :: last_next r' :: map last_next post) 0) with (last (last_next r' :: map last_next post) 0).
    change (last (last_next l :: last_next r :: map last_next post) 0) with (last (last_next r :: map last_next post) 0).
    rewrite Hln. reflexivity.
Qed.

Lemma merge_children_generic d h pre l r post m :
  kids_ok d pre -> kids_ok d post ->
  n_merge l r = TOk m -> mwfn d m -> in_band m ->
  keys_of m = keys_of l ++ keys_of r -> elems_flat m = elems_flat l ++ elems_flat r ->
  last_next m = last_next r ->
  let cs := pre ++ l :: r :: post in
  ssorted (flat_map keys_of cs) ->
  mh_size h = PM + N.of_nat (length cs) * HS -> mh_first h = hfirst (map hdr_of cs) ->
  exists n' lg,
    merge_children h (map hdr_of cs) cs (length pre) l r = TOk (n', lg) /\
    fix_good d h cs n' /\ mh_size (hdr_of n') + HS = mh_size h.
Proof.
  intros Hpre Hpost Hop Hwm Hbm Hk He Hln cs Hs Hsz Hf.
  unfold merge_children. rewrite Hop. cbv beta iota.
  subst cs. rewrite map_app in *. cbn [map] in *.
  assert (Hk' : length pre = length (map hdr_of pre)) by (symmetry; apply map_length).
  rewrite (replace_nth_at (length pre)) by exact Hk'.
  rewrite (replace_nth_at (length pre)) by reflexivity.
  rewrite (remove_nth_at_S (length pre)) by exact Hk'.
  rewrite (remove_nth_at_S (length pre)) by reflexivity.
  do 2 eexists. split; [reflexivity|].
  replace (map hdr_of pre ++ hdr_of m :: map hdr_of post)
    with (map hdr_of (pre ++ m :: post)) by (rewrite map_app; reflexivity).
  split.
  - unfold fix_good. cbn [hdr_of keys_of elems_flat last_next].
    repeat split.
    + apply (mwfn_MM_intro dg levels T HT Hlv).
      * apply kids_ok_app. split; [exact Hpre|]. apply kids_ok_cons. split; [tauto|exact Hpost].
      * destruct pre; discriminate.
      * rewrite (flat_mid21 keys_of pre l r post m Hk). exact Hs.
      * rewrite first_if0_size. cbn [mh_size]. rewrite Hsz, !app_length. cbn [length]. unfold_msizes. lia.
      * apply first_if0_first with (y := l) (r2 := r :: post). cbn [mh_first].
        rewrite Hf. change (map hdr_of pre ++ hdr_of l :: hdr_of r :: map hdr_of post) with (map hdr_of pre ++ map hdr_of (l :: r :: post)).
        rewrite <- map_app. reflexivity.
    + apply flat_mid21. exact Hk.
    + apply flat_mid21. exact He.
    + rewrite first_if0_id. reflexivity.
    + rewrite !last_map_app. cbn [map].
      change (last (last_next l :: last_next r :: map last_next post) 0) with (last (last_next r :: map last_next post) 0).
      rewrite Hln. reflexivity.
  - cbn [hdr_of]. rewrite first_if0_size. cbn [mh_size]. rewrite Hsz, !app_length. cbn [length]. unfold_msizes. lia.
Qed.

(** * the four actions of MergeOrRebalanceChildSlab on an underflowing child [ch] *)
Section actions.
Variables (d : nat) (h : mhdr) (ch : mnode) (need : N).
Hypothesis Hwch : mwfn d ch.
Hypothesis Hneed : mh_size (hdr_of ch) + need = cmin c.
Hypothesis Hpos : 0 < need.

Lemma borrow_right_ok pre rs post :
  kids_ok d pre -> kids_ok d (rs :: post) ->
  n_can_lend_to_left c rs need = true ->
  let cs := pre ++ ch :: rs :: post in
  ssorted (flat_map keys_of cs) ->
  mh_size h = PM + N.of_nat (length cs) * HS -> mh_first h = hfirst (map hdr_of cs) ->
  exists n' lg,
    rebalance_children c h (map hdr_of cs) cs (length pre) ch rs true = TOk (n', lg) /\
    fix_good d h cs n' /\ mh_size (hdr_of n') = mh_size h.
Proof.
  intros Hpre Hpost Hcan cs Hs. apply kids_ok_cons in Hpost. destruct Hpost as ((Hwrs & Hbrs) & Hpost).
  destruct (borrow_ok dg levels T HT Hlv d ch rs need Hwch Hwrs Hbrs Hneed Hpos (sorted_mid2 _ _ _ _ Hs) Hcan)
    as (l' & r' & H1 & H2 & H3 & H4 & H5 & H6 & H7 & H8 & H9 & H10).
  apply (rebalance_children_generic d h pre ch rs post l' r' true); auto.
Qed.

Lemma lend_left_ok pre ls post :
  kids_ok d (pre ++ [ls]) -> kids_ok d post ->
  n_can_lend_to_right c ls need = true ->
  let cs := pre ++ ls :: ch :: post in
  ssorted (flat_map keys_of cs) ->
  mh_size h = PM + N.of_nat (length cs) * HS -> mh_first h = hfirst (map hdr_of cs) ->
  exists n' lg,
    rebalance_children c h (map hdr_of cs) cs (length pre) ls ch false = TOk (n', lg) /\
    fix_good d h cs n' /\ mh_size (hdr_of n') = mh_size h.
Proof.
  intros Hpre Hpost Hcan cs Hs. apply kids_ok_app in Hpre. destruct Hpre as (Hpre & Hls).
  apply kids_ok_cons in Hls. destruct Hls as ((Hwls & Hbls) & _).
  destruct (lend_ok dg levels T HT Hlv d ls ch need Hwls Hwch Hbls Hneed Hpos (sorted_mid2 _ _ _ _ Hs) Hcan)
    as (l' & r' & H1 & H2 & H3 & H4 & H5 & H6 & H7 & H8 & H9 & H10 & H11).
  apply (rebalance_children_generic d h pre ls ch post l' r' false); auto.
Qed.

Lemma merge_right_ok pre rs post :
  kids_ok d pre -> kids_ok d (rs :: post) ->
  n_can_lend_to_left c rs need = false ->
  let cs := pre ++ ch :: rs :: post in
  ssorted (flat_map keys_of cs) ->
  mh_size h = PM + N.of_nat (length cs) * HS -> mh_first h = hfirst (map hdr_of cs) ->
  exists n' lg,
    merge_children h (map hdr_of cs) cs (length pre) ch rs = TOk (n', lg) /\
    fix_good d h cs n' /\ mh_size (hdr_of n') + HS = mh_size h.
Proof.
  intros Hpre Hpost Hcan cs Hs. apply kids_ok_cons in Hpost. destruct Hpost as ((Hwrs & Hbrs) & Hpost).
  destruct (merge_ok dg levels T HT Hlv d ch rs Hwch Hwrs (sorted_mid2 _ _ _ _ Hs)) as (m & H1 & H2 & H3 & H4 & H5 & H6 & H7).
  pose proof (cannot_lend_left_merge_le_max dg levels T HT Hlv d ch rs need Hwch Hwrs Hbrs Hneed Hpos Hcan) as Hmax.
  pose proof (mwfn_size_ge_pfx dg levels T HT Hlv d ch Hwch) as Hge.
  apply (merge_children_generic d h pre ch rs post m); auto.
  destruct Hbrs as (Bm & BX). unfold MapTreeInv.in_band. lia.
Qed.

Lemma merge_left_ok pre ls post :
  kids_ok d (pre ++ [ls]) -> kids_ok d post ->
  n_can_lend_to_right c ls need = false ->
  let cs := pre ++ ls :: ch :: post in
  ssorted (flat_map keys_of cs) ->
  mh_size h = PM + N.of_nat (length cs) * HS -> mh_first h = hfirst (map hdr_of cs) ->
  exists n' lg,
    merge_children h (map hdr_of cs) cs (length pre) ls ch = TOk (n', lg) /\
    fix_good d h cs n' /\ mh_size (hdr_of n') + HS = mh_size h.
Proof.
  intros Hpre Hpost Hcan cs Hs. apply kids_ok_app in Hpre. destruct Hpre as (Hpre & Hls).
  apply kids_ok_cons in Hls. destruct Hls as ((Hwls & Hbls) & _).
  destruct (merge_ok dg levels T HT Hlv d ls ch Hwls Hwch (sorted_mid2 _ _ _ _ Hs)) as (m & H1 & H2 & H3 & H4 & H5 & H6 & H7).
  pose proof (cannot_lend_right_merge_le_max dg levels T HT Hlv d ls ch need Hwls Hwch Hbls Hneed Hpos Hcan) as Hmax.
  pose proof (mwfn_size_ge_pfx dg levels T HT Hlv d ch Hwch) as Hge.
  rewrite (pfx_of_eq dg levels T d ls ch Hwls Hwch) in Hge.
  apply (merge_children_generic d h pre ls ch post m); auto.
  destruct Hbls as (Bm & BX). unfold MapTreeInv.in_band. lia.
Qed.

(** * MergeOrRebalanceChildSlab: the decision table *)
Lemma merge_or_rebalance_ok pre post :
  kids_ok d pre -> kids_ok d post -> (pre <> [] \/ post <> []) ->
  let cs := pre ++ ch :: post in
  ssorted (flat_map keys_of cs) ->
  mh_size h = PM + N.of_nat (length cs) * HS -> mh_first h = hfirst (map hdr_of cs) ->
  exists n' lg,
    merge_or_rebalance c h (map hdr_of cs) cs (length pre) ch need = TOk (n', lg) /\
    fix_good d h cs n' /\ (mh_size (hdr_of n') = mh_size h \/ mh_size (hdr_of n') + HS = mh_size h).
Proof.
  intros Hpre Hpost Hsib cs. subst cs. unfold merge_or_rebalance.
  assert (Hwrap : forall cs (x : tres (mnode * wlog)),
     (exists n' lg, x = TOk (n', lg) /\ fix_good d h cs n' /\ mh_size (hdr_of n') = mh_size h) \/
     (exists n' lg, x = TOk (n', lg) /\ fix_good d h cs n' /\ mh_size (hdr_of n') + HS = mh_size h) ->
     exists n' lg, x = TOk (n', lg) /\ fix_good d h cs n' /\
       (mh_size (hdr_of n') = mh_size h \/ mh_size (hdr_of n') + HS = mh_size h)).
  { intros cs x [(n' & lg & A & B & C)|(n' & lg & A & B & C)]; exists n', lg; auto. }
  destruct pre as [|p0 pre0].
  - (* no left sibling *)
    intros Hs Hsz Hf. apply Hwrap. clear Hwrap.
    destruct post as [|rs post]; [destruct Hsib; congruence|].
    cbn [length]. rewrite (nth_error_at_S 0 [] ch (rs :: post)) by reflexivity.
    cbn [nth_error orb].
    destruct (n_can_lend_to_left c rs need) eqn:Hr.
    + left. apply (borrow_right_ok [] rs post); auto.
    + right. apply (merge_right_ok [] rs post); auto.
  - (* a left sibling: the last element of pre *)
    assert (Hnn : p0 :: pre0 <> []) by discriminate.
    destruct (exists_last Hnn) as (pre & ls & Epre). rewrite Epre in *. clear Epre Hnn p0 pre0.
    rewrite (app_length pre [ls]). cbn [length]. rewrite Nat.add_1_r. cbv beta iota. cbn [pred].
    rewrite <- !app_assoc. cbn [app].
    intros Hs Hsz Hf. apply Hwrap. clear Hwrap.
    rewrite (nth_error_at (length pre) pre ls (ch :: post)) by reflexivity.
    change (ls :: ch :: post) with ([ls] ++ ch :: post). rewrite app_assoc.
    rewrite (nth_error_at_S (S (length pre)) (pre ++ [ls]) ch post) by (rewrite app_length; cbn; lia).
    rewrite <- !app_assoc. cbn [app].
    destruct post as [|rs post]; cbn [nth_error].
    + (* no right sibling *)
      rewrite orb_false_r.
      destruct (n_can_lend_to_right c ls need) eqn:Hl.
      * left. apply (lend_left_ok pre ls []); auto.
      * right. apply (merge_left_ok pre ls []); auto.
    + destruct (n_can_lend_to_right c ls need) eqn:Hl; destruct (n_can_lend_to_left c rs need) eqn:Hr;
        cbn [orb negb].
      * destruct (mh_size (hdr_of rs) <? mh_size (hdr_of ls)).
        -- left. apply (lend_left_ok pre ls (rs :: post)); auto.
        -- left. change (pre ++ ls :: ch :: rs :: post) with (pre ++ [ls] ++ ch :: rs :: post).
           rewrite app_assoc.
           replace (S (length pre)) with (length (pre ++ [ls])) by (rewrite app_length; cbn; lia).
           apply (borrow_right_ok (pre ++ [ls]) rs post); auto;
             rewrite <- app_assoc; assumption.
      * left. apply (lend_left_ok pre ls (rs :: post)); auto.
      * left. change (pre ++ ls :: ch :: rs :: post) with (pre ++ [ls] ++ ch :: rs :: post).
        rewrite app_assoc.
        replace (S (length pre)) with (length (pre ++ [ls])) by (rewrite app_length; cbn; lia).
        apply (borrow_right_ok (pre ++ [ls]) rs post); auto;
          rewrite <- app_assoc; assumption.
      * destruct (mh_size (hdr_of ls) <? mh_size (hdr_of rs)).
        -- right. apply (merge_left_ok pre ls (rs :: post)); auto.
        -- right. change (pre ++ ls :: ch :: rs :: post) with (pre ++ [ls] ++ ch :: rs :: post).
           rewrite app_assoc.
           replace (S (length pre)) with (length (pre ++ [ls])) by (rewrite app_length; cbn; lia).
           apply (merge_right_ok (pre ++ [ls]) rs post); auto;
             rewrite <- app_assoc; assumption.
Qed.

End actions.

Lemma kids_split d pre ch post :
  Forall (mwfn d) (pre ++ ch :: post) -> Forall in_band (pre ++ ch :: post) ->
  kids_ok d pre /\ mwfn d ch /\ in_band ch /\ kids_ok d post.
Proof.
  intros Hw Hb. apply Forall_app in Hw, Hb. destruct Hw as (W1 & W2). destruct Hb as (B1 & B2).
  inversion W2; subst. inversion B2; subst. unfold MapRebalance_proofs.kids_ok. tauto.
Qed.

(** * the common tail of MapMetaDataSlab.Set / Remove: child [ch] at position [length pre] has
    been updated to [ch'] *)
Lemma fix_child_ok d h pre ch ch' post alloc :
  kids_ok d pre -> kids_ok d post -> mwfn d ch' -> (pre <> [] \/ post <> []) ->
  let cs := pre ++ ch :: post in
  let cs' := pre ++ ch' :: post in
  ssorted (flat_map keys_of cs') ->
  mh_size h = PM + N.of_nat (length cs) * HS -> mh_first h = hfirst (map hdr_of cs) ->
  mh_size (hdr_of ch') <= cmax c + slack ch' ->
  exists n' alloc' lg,
    fix_child c h (map hdr_of cs) cs (length pre) ch' alloc = TOk (n', alloc', lg) /\
    fix_good d h cs' n' /\ alloc <= alloc' /\ alloc' <= alloc + 1 /\
    mh_size (hdr_of n') <= mh_size h + HS /\ mh_size h <= mh_size (hdr_of n') + HS.
Proof.
  intros Hpre Hpost Hw Hsib cs cs' Hs Hsz Hf Hhi.
  unfold fix_child. subst cs.
  rewrite replace_nth_map, !replace_nth_app_len. fold cs'.
  set (h' := first_if0 (length pre) h ch').
  assert (Hsz' : mh_size h' = PM + N.of_nat (length cs') * HS).
  { subst h' cs'. rewrite first_if0_size, Hsz, !app_length. reflexivity. }
  assert (Hf' : mh_first h' = hfirst (map hdr_of cs')).
  { subst h' cs'. eapply first_if0_first. exact Hf. }
  assert (Hid' : mh_id h' = mh_id h) by apply first_if0_id.
  assert (Hsame : mh_size h' = mh_size h) by apply first_if0_size.
  assert (Hgood : forall n', fix_good d h' cs' n' -> fix_good d h cs' n').
  { intros n' (A1 & A2 & A3 & A4 & A5). unfold fix_good. rewrite <- Hid'. auto. }
  unfold n_is_full. destruct (cmax c <? mh_size (hdr_of ch')) eqn:Hfull.
  - destruct (split_child_ok d h' pre ch' post alloc Hpre Hpost Hw ltac:(lia) Hhi Hs Hsz' Hf')
      as (n' & lg & E & G & Z).
    fold cs' in E. rewrite E. exists n', (alloc + 1), lg. split; [reflexivity|].
    split; [apply Hgood, G|]. lia.
  - unfold n_underflow. destruct (mh_size (hdr_of ch') <? cmin c) eqn:Hlt.
    + destruct (merge_or_rebalance_ok d h' ch' (cmin c - mh_size (hdr_of ch')) Hw ltac:(lia) ltac:(lia)
                  pre post Hpre Hpost Hsib Hs Hsz' Hf') as (n' & lg & E & G & Z).
      fold cs' in E. rewrite E. exists n', alloc, lg. split; [reflexivity|].
      split; [apply Hgood, G|]. lia.
    + exists (MM h' (map hdr_of cs') cs'), alloc, [WStore (mh_id h)]. split; [reflexivity|].
      split; [|cbn [hdr_of]; lia].
      unfold fix_good. cbn [hdr_of keys_of elems_flat last_next]. repeat split; auto.
      apply (mwfn_MM_intro dg levels T HT Hlv); auto.
      * subst cs'. apply kids_ok_app. split; [exact Hpre|]. apply kids_ok_cons. split; [|exact Hpost].
        split; [exact Hw|]. unfold MapTreeInv.in_band. lia.
      * subst cs'. destruct pre; discriminate.
Qed.

End WithT.
