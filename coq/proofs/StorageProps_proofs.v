(* StorageProps_proofs.v — the statements of C03/C04/C14/C15/C16 (storage level) over the
   model [Storage.st], assembled from Storage_proofs and Commit_proofs. *)
From stdpp Require Import gmap sorting.
From Coq Require Import ZArith NArith Lia.
From AtreeModel Require Import Storage StorageSpec.
From AtreeProofs Require Import Storage_proofs Commit_proofs.
Local Open Scope N_scope.

Definition reachable (s : st) : Prop := exists ops, s = fst (run st_init ops).

Lemma reachable_coherent s : reachable s -> coherent s.
Proof.
  intros [ops ->]. pose proof (storage_refines_overlay ops) as H.
  destruct (run st_init ops) as [s ms]. destruct (spec_run spec_init ops) as [a sps]. tauto.
Qed.

Lemma run_app ops1 : forall ops2 s,
  run s (ops1 ++ ops2) =
  let '(s1, o1) := run s ops1 in let '(s2, o2) := run s1 ops2 in (s2, o1 ++ o2).
Proof.
  induction ops1 as [|o r IH]; intros ops2 s; cbn [run app].
  - destruct (run s ops2); reflexivity.
  - destruct (step s o) as [s1 x]. rewrite IH.
    destruct (run s1 r) as [s2 xs]. destruct (run s2 ops2) as [s3 ys]. reflexivity.
Qed.

Lemma reachable_step s o : reachable s -> reachable (fst (step s o)).
Proof.
  intros [ops ->]. exists (ops ++ [o]). rewrite run_app.
  destruct (run st_init ops) as [s1 o1]. cbn [run fst]. destruct (step s1 o) as [s2 x]. reflexivity.
Qed.

(** * C15 *)

(* model-level view after a step, through the specification *)
Lemma step_view s o i :
  coherent s -> view (fst (step s o)) i = spec_view (fst (spec_step (abs s) o)) i.
Proof.
  intros Hs. pose proof (step_refines s o Hs) as H.
  destruct (step s o) as [s' m]. destruct (spec_step (abs s) o) as [a' sp].
  destruct H as (H1 & H2 & _). cbn [fst]. rewrite view_abs by exact H1. congruence.
Qed.

Theorem store_view s i v j :
  coherent s -> is_undefined i = false ->
  view (fst (step s (SStore i v))) j = if decide (j = i) then Some v else view s j.
Proof.
  intros Hs Hi. rewrite step_view by exact Hs. cbn [spec_step]. rewrite Hi. cbn [fst].
  rewrite view_abs by exact Hs. unfold spec_view; cbn.
  destruct (decide (j = i)) as [->|Hne]; [rewrite lookup_insert|rewrite lookup_insert_ne by congruence]; reflexivity.
Qed.

Theorem remove_view s i j :
  coherent s -> is_undefined i = false ->
  view (fst (step s (SRemove i))) j = if decide (j = i) then None else view s j.
Proof.
  intros Hs Hi. rewrite step_view by exact Hs. cbn [spec_step]. rewrite Hi. cbn [fst].
  rewrite view_abs by exact Hs. unfold spec_view; cbn.
  destruct (decide (j = i)) as [->|Hne]; [rewrite lookup_insert|rewrite lookup_insert_ne by congruence]; reflexivity.
Qed.

Theorem retrieve_returns_view s i :
  coherent s -> snd (step s (SRetrieve i)) = ORet (view s i) /\
  forall j, view (fst (step s (SRetrieve i))) j = view s j.
Proof.
  intros Hs. split.
  - pose proof (step_refines s (SRetrieve i) Hs) as H.
    destruct (step s (SRetrieve i)) as [s' m]. cbn [spec_step] in H. destruct H as (_ & _ & H).
    cbn in H. cbn [snd]. rewrite H, view_abs by exact Hs. reflexivity.
  - intros j. rewrite step_view by exact Hs. cbn [spec_step fst]. symmetry. apply view_abs, Hs.
Qed.

Definition is_pure_read (o : sop) : bool :=
  match o with
  | SRetrieve _ | SRetrieveIfLoaded _ | SRetrieveIgnoringDeltas _ _ | SBatchPreload _
  | SObserve | SHasUnsaved _ | SBaseGet _ | SDropCache => true
  | _ => false
  end.

Theorem reads_pure s o :
  coherent s -> is_pure_read o = true ->
  (forall j, view (fst (step s o)) j = view s j) /\ abs (fst (step s o)) = abs s.
Proof.
  intros Hs Ho.
  assert (Ha : fst (spec_step (abs s) o) = abs s) by (destruct o; try discriminate; reflexivity).
  split.
  - intros j. rewrite step_view by exact Hs. rewrite Ha. symmetry. apply view_abs, Hs.
  - pose proof (step_refines s o Hs) as H.
    destruct (step s o) as [s' m]. destruct (spec_step (abs s) o) as [a' sp].
    cbn [fst] in *. destruct H as (_ & H & _). congruence.
Qed.

Theorem drop_reverts_to_ledger s i :
  coherent s ->
  view (fst (step (fst (step s SDropDeltas)) SDropCache)) i = base s !! i /\
  view (fst (step s SRecreate)) i = base s !! i.
Proof. intros _. unfold view; cbn. rewrite !lookup_empty. auto. Qed.

(* a successful pass over the owned write set *)
Lemma commit_pass_state s ids :
  coherent s ->
  Forall (fun i => is_temp i = false) ids -> (forall j, j ∈ owned_delta_keys s -> j ∈ ids) ->
  let '(s', ok, log) := apply_writes ids None s [] in
  ok = true /\ coherent s' /\
  (forall i, is_temp i = false -> base s' !! i = view s i /\ deltas s' !! i = None) /\
  (forall i, is_temp i = true -> deltas s' !! i = deltas s !! i /\ base s' !! i = base s !! i) /\
  (forall i, view s' i = view s i) /\
  owned_delta_keys s' = [].
Proof.
  intros Hs Hown Hcov.
  pose proof (apply_writes_abs ids None s []) as Ha.
  pose proof (apply_writes_coherent ids None s [] Hs Hown) as Hco.
  pose proof (full_commit_state (abs s) ids [] Hown Hcov) as Hst.
  pose proof (sp_apply_writes_ok_nofail ids (abs s) []) as Hok.
  pose proof (sp_apply_writes_view ids None (abs s) []) as Hv.
  destruct (apply_writes ids None s []) as [[s' ok] log]. rewrite Ha in Hst, Hok, Hv. cbn [fst snd] in *.
  split; [exact Hok|]. split; [exact Hco|].
  split; [|split; [|split]].
  - intros i Hi. destruct (Hst i) as [_ O]. destruct (O Hi) as [O1 O2]. cbn in O1, O2.
    split; [|exact O1]. rewrite O2. symmetry. apply view_abs, Hs.
  - intros i Hi. destruct (Hst i) as [T _]. destruct (T Hi) as [T1 T2]. split; assumption.
  - intros i. rewrite !view_abs by assumption. apply Hv.
  - destruct (owned_delta_keys s') as [|j l] eqn:E; [reflexivity|]. exfalso.
    assert (Hj : j ∈ owned_delta_keys s') by (rewrite E; left).
    apply elem_of_owned_delta_keys in Hj. destruct Hj as [Hj1 Hj2].
    destruct (Hst j) as [_ O]. destruct (O Hj1) as [O1 _]. cbn in O1. congruence.
Qed.

Theorem fast_commit_state s :
  coherent s ->
  let '(s', ok, log) := fast_commit s None in
  ok = true /\ coherent s' /\
  (forall i, is_temp i = false -> base s' !! i = view s i /\ deltas s' !! i = None) /\
  (forall i, is_temp i = true -> deltas s' !! i = deltas s !! i /\ base s' !! i = base s !! i) /\
  (forall i, view s' i = view s i) /\
  owned_delta_keys s' = [].
Proof.
  intros Hs. unfold fast_commit. apply commit_pass_state; [exact Hs|apply sorted_owned_keys_owned|].
  intros j Hj. unfold sorted_owned_delta_keys. rewrite merge_sort_Permutation. exact Hj.
Qed.

Lemma order_ok_complete_cover s order :
  order_ok s order true = true -> forall j, j ∈ owned_delta_keys s -> j ∈ order.
Proof.
  unfold order_ok. intros H.
  apply andb_prop in H; destruct H as [H Hlen].
  apply andb_prop in H; destruct H as [H _].
  apply andb_prop in H; destruct H as [Hnd Hsub].
  apply Nat.eqb_eq in Hlen. unfold nodupb in Hnd. apply bool_decide_eq_true in Hnd.
  assert (Hincl : order ⊆+ owned_delta_keys s).
  { apply NoDup_submseteq; [exact Hnd|]. intros x Hx. rewrite forallb_forall in Hsub.
    specialize (Hsub x (proj1 (elem_of_list_In _ _) Hx)). apply bool_decide_eq_true in Hsub. exact Hsub. }
  intros j Hj. apply submseteq_Permutation_length_eq in Hincl; [|lia]. rewrite Hincl. exact Hj.
Qed.

Theorem nondet_commit_state s order :
  coherent s -> order_ok s order true = true ->
  let '(s', ok, log) := apply_writes order None s [] in
  ok = true /\ coherent s' /\
  (forall i, is_temp i = false -> base s' !! i = view s i /\ deltas s' !! i = None) /\
  (forall i, is_temp i = true -> deltas s' !! i = deltas s !! i /\ base s' !! i = base s !! i) /\
  (forall i, view s' i = view s i) /\
  owned_delta_keys s' = [].
Proof.
  intros Hs Hok. apply commit_pass_state; [exact Hs|eapply order_ok_owned; exact Hok|].
  apply order_ok_complete_cover, Hok.
Qed.

(** * C14 *)

(* effect of ANY commit step (either kind, any fault position, any order) on identifier j *)
Theorem commit_step_effect s o j :
  coherent s -> is_commit o = true ->
  let s' := fst (step s o) in
  coherent s' /\
  (forall i, view s' i = view s i) /\
  ((deltas s' !! j = deltas s !! j /\ base s' !! j = base s !! j) \/
   (deltas s !! j <> None /\ deltas s' !! j = None /\ base s' !! j = view s j)).
Proof.
  intros Hs Ho. cbn zeta.
  assert (Hgen : forall ids fail, Forall (fun i => is_temp i = false) ids ->
     let s' := fst (fst (apply_writes ids fail s [])) in
     coherent s' /\ (forall i, view s' i = view s i) /\
     ((deltas s' !! j = deltas s !! j /\ base s' !! j = base s !! j) \/
      (deltas s !! j <> None /\ deltas s' !! j = None /\ base s' !! j = view s j))).
  { intros ids fail Hown. cbn zeta.
    pose proof (apply_writes_abs ids fail s []) as Ha.
    pose proof (apply_writes_coherent ids fail s [] Hs Hown) as Hco.
    pose proof (sp_apply_writes_view ids fail (abs s) []) as Hv.
    pose proof (sp_apply_writes_cases ids fail (abs s) [] j) as Hc.
    destruct (apply_writes ids fail s []) as [[s' ok] log]. rewrite Ha in Hv, Hc. cbn [fst snd] in *.
    split; [exact Hco|]. split.
    - intros i. rewrite !view_abs by assumption. apply Hv.
    - destruct Hc as [[U1 U2]|[_ (F1 & F2 & F3)]]; [left; split; assumption|].
      right. cbn in F1, F2, F3. split; [exact F1|]. split; [exact F2|]. rewrite F3. symmetry. apply view_abs, Hs. }
  destruct o as [| | | | |fail|order fail| | | | | | |]; try discriminate; cbn [step].
  - unfold fast_commit. specialize (Hgen (sorted_owned_delta_keys s) fail (sorted_owned_keys_owned s)).
    destruct (apply_writes _ fail s []) as [[s' ok] log]. exact Hgen.
  - unfold nondet_commit. destruct (order_ok s order _) eqn:Hok.
    + specialize (Hgen order fail (order_ok_owned _ _ _ Hok)).
      destruct (apply_writes order fail s []) as [[s' ok] log]. exact Hgen.
    + cbn [fst]. split; [exact Hs|]. split; [reflexivity|]. left; split; reflexivity.
Qed.

Theorem failed_commit_reports s o :
  is_commit o = true ->
  match snd (step s o) with
  | OCommit ok log => ok = false -> exists c, last log = Some c   (* the failing call is the last one logged *)
  | OBadOrder => True
  | _ => False
  end.
Proof.
  intros Ho.
  assert (Hgen : forall ids fail s0 log0, snd (fst (apply_writes ids fail s0 log0)) = false ->
                 exists c, last (snd (apply_writes ids fail s0 log0)) = Some c).
  { induction ids as [|i r IH]; intros fail s0 log0; cbn [apply_writes]; [discriminate|].
    destruct (call_of s0 i) as [c|]; [|apply IH].
    destruct fail as [[|k]|]; [|apply IH|apply IH].
    intros _. exists c. cbn. apply last_snoc. }
  destruct o as [| | | | |fail|order fail| | | | | | |]; try discriminate; cbn [step].
  - unfold fast_commit. specialize (Hgen (sorted_owned_delta_keys s) fail s []).
    destruct (apply_writes _ fail s []) as [[s' ok] log]. exact Hgen.
  - unfold nondet_commit. destruct (order_ok s order _); [|exact I].
    specialize (Hgen order fail s []).
    destruct (apply_writes order fail s []) as [[s' ok] log]. exact Hgen.
Qed.

(* every commit step is an attempt on the specification *)
Lemma commit_step_attempt s o :
  coherent s -> is_commit o = true ->
  exists t, attempt_ok t /\ abs (fst (step s o)) = do_attempt (abs s) t /\ coherent (fst (step s o)).
Proof.
  intros Hs Ho. destruct o as [| | | | |fail|order fail| | | | | | |]; try discriminate; cbn [step].
  - exists (sorted_owned_delta_keys s, fail). unfold fast_commit, do_attempt, attempt_ok. cbn [fst snd].
    pose proof (apply_writes_abs (sorted_owned_delta_keys s) fail s []) as Ha.
    pose proof (apply_writes_coherent (sorted_owned_delta_keys s) fail s [] Hs (sorted_owned_keys_owned s)) as Hco.
    destruct (apply_writes _ fail s []) as [[s' ok] log]. rewrite Ha. cbn [fst] in *.
    split; [apply sorted_owned_keys_owned|]. split; [reflexivity|exact Hco].
  - unfold nondet_commit. destruct (order_ok s order _) eqn:Hok.
    + exists (order, fail). unfold do_attempt, attempt_ok. cbn [fst snd].
      pose proof (apply_writes_abs order fail s []) as Ha.
      pose proof (apply_writes_coherent order fail s [] Hs (order_ok_owned _ _ _ Hok)) as Hco.
      destruct (apply_writes order fail s []) as [[s' ok] log]. rewrite Ha. cbn [fst] in *.
      split; [eapply order_ok_owned; exact Hok|]. split; [reflexivity|exact Hco].
    + exists ([], None). unfold do_attempt, attempt_ok. cbn. split; [constructor|]. split; [reflexivity|exact Hs].
Qed.

Lemma commit_run_attempts cs : forall s,
  coherent s -> forallb is_commit cs = true ->
  exists ts, Forall attempt_ok ts /\ abs (fst (run s cs)) = fold_left do_attempt ts (abs s) /\ coherent (fst (run s cs)).
Proof.
  induction cs as [|o r IH]; intros s Hs Hcs; cbn [run].
  - exists []. cbn. auto.
  - cbn [forallb] in Hcs. apply andb_prop in Hcs. destruct Hcs as [Ho Hr].
    destruct (commit_step_attempt s o Hs Ho) as (t & Ht & Hat & Hco).
    destruct (step s o) as [s1 x]. cbn [fst] in *.
    destruct (IH s1 Hco Hr) as (ts & Hts & Hats & Hco2).
    destruct (run s1 r) as [s2 xs]. cbn [fst] in *.
    exists (t :: ts). split; [constructor; assumption|]. split; [|exact Hco2].
    cbn [fold_left]. rewrite <- Hat. exact Hats.
Qed.

(* any number of commits of either kind with any faults, then one fault-free commit of either kind:
   ledger and write set equal those of a single fault-free deterministic commit *)
Theorem retry_converges_model s cs final :
  coherent s -> forallb is_commit cs = true ->
  (final = SFastCommit None \/
   exists order, final = SNondetCommit order None /\ order_ok (fst (run s cs)) order true = true) ->
  let s1 := fst (step (fst (run s cs)) final) in
  let s0 := fst (step s (SFastCommit None)) in
  base s1 = base s0 /\ deltas s1 = deltas s0 /\ owned_delta_keys s1 = [].
Proof.
  intros Hs Hcs Hfinal. cbn zeta.
  destruct (commit_run_attempts cs s Hs Hcs) as (ts & Hts & Hats & Hco).
  set (sb := fst (run s cs)) in *.
  assert (Hfin : exists ids, Forall (fun i => is_temp i = false) ids /\ (forall j, j ∈ owned_delta_keys sb -> j ∈ ids) /\
                 fst (step sb final) = fst (fst (apply_writes ids None sb []))).
  { destruct Hfinal as [->|[order [-> Hok]]].
    - exists (sorted_owned_delta_keys sb). split; [apply sorted_owned_keys_owned|]. split.
      + intros j Hj. unfold sorted_owned_delta_keys. rewrite merge_sort_Permutation. exact Hj.
      + cbn [step]. unfold fast_commit. destruct (apply_writes _ None sb []) as [[? ?] ?]. reflexivity.
    - exists order. split; [eapply order_ok_owned; exact Hok|]. split; [apply order_ok_complete_cover, Hok|].
      cbn [step]. unfold nondet_commit. rewrite Hok. destruct (apply_writes order None sb []) as [[? ?] ?]. reflexivity. }
  destruct Hfin as (ids & Hown & Hcov & ->).
  assert (Habs : abs (fst (fst (apply_writes ids None sb []))) = abs (fst (step s (SFastCommit None)))).
  { pose proof (apply_writes_abs ids None sb []) as H1.
    destruct (apply_writes ids None sb []) as [[s1 ok1] l1]. cbn [fst].
    cbn [step]. unfold fast_commit.
    pose proof (apply_writes_abs (sorted_owned_delta_keys s) None s []) as H0.
    destruct (apply_writes (sorted_owned_delta_keys s) None s []) as [[s0 ok0] l0]. cbn [fst].
    assert (E1 : abs s1 = fst (fst (sp_apply_writes ids None (abs sb) []))) by (rewrite H1; reflexivity).
    assert (E0 : abs s0 = fst (fst (sp_apply_writes (sorted_owned_delta_keys s) None (abs s) []))) by (rewrite H0; reflexivity).
    rewrite E1, E0, Hats.
    apply retry_converges; try assumption.
    - rewrite <- Hats. exact Hcov.
    - apply sorted_owned_keys_owned.
    - intros j Hj. unfold sorted_owned_delta_keys. rewrite merge_sort_Permutation. exact Hj. }
  split; [|split].
  - change (committed (abs (fst (fst (apply_writes ids None sb [])))) = committed (abs (fst (step s (SFastCommit None))))).
    rewrite Habs. reflexivity.
  - change (pending (abs (fst (fst (apply_writes ids None sb [])))) = pending (abs (fst (step s (SFastCommit None))))).
    rewrite Habs. reflexivity.
  - pose proof (commit_pass_state sb ids Hco Hown Hcov) as H.
    destruct (apply_writes ids None sb []) as [[s1 ok1] l1]. cbn [fst]. tauto.
Qed.

(** * C04 *)

Theorem fast_commit_log_sorted_model s fail :
  StronglySorted sid_lt (map snd (snd (fast_commit s fail))).
Proof.
  unfold fast_commit, sorted_owned_delta_keys. rewrite owned_keys_abs.
  pose proof (apply_writes_abs (merge_sort sid_le (sp_owned_keys (abs s))) fail s []) as Ha.
  pose proof (fast_commit_log_sorted (abs s) fail) as H.
  destruct (apply_writes _ fail s []) as [[s' ok] log]. rewrite Ha in H. exact H.
Qed.

(* Go iterates over the write-set map in an unspecified order before sorting *)
Theorem delta_iteration_order_irrelevant s ks fail :
  ks ≡ₚ owned_delta_keys s ->
  apply_writes (merge_sort sid_le ks) fail s [] = fast_commit s fail.
Proof. intros Hp. unfold fast_commit, sorted_owned_delta_keys. rewrite (sorted_keys_unique _ _ Hp). reflexivity. Qed.

Theorem relaxed_commit_same_registers s order :
  coherent s -> order_ok s order true = true ->
  let s1 := fst (step s (SNondetCommit order None)) in
  let s0 := fst (step s (SFastCommit None)) in
  base s1 = base s0 /\ deltas s1 = deltas s0.
Proof.
  intros Hs Hok.
  pose proof (retry_converges_model s [] (SNondetCommit order None) Hs eq_refl
                (or_intror (ex_intro _ order (conj eq_refl Hok)))) as H.
  cbn zeta in H. cbn [run fst] in H. destruct H as (H1 & H2 & _). split; assumption.
Qed.

(** * C03 (storage half) *)

Lemma no_commit_base ops : forall s,
  forallb (fun o => negb (is_commit o)) ops = true -> base (fst (run s ops)) = base s.
Proof.
  induction ops as [|o r IH]; intros s H; cbn [run]; [reflexivity|].
  cbn [forallb] in H. apply andb_prop in H. destruct H as [Ho Hr].
  pose proof (writes_only_in_commit s o ltac:(destruct (is_commit o); [discriminate|reflexivity])) as Hb.
  destruct (step s o) as [s1 x]. cbn [fst] in Hb. specialize (IH s1 Hr).
  destruct (run s1 r) as [s2 xs]. cbn [fst] in *. congruence.
Qed.

(* abandoning the in-memory storage at any point after a commit leaves the ledger as the commit left it *)
Theorem crash_keeps_last_commit h1 c h2 :
  forallb (fun o => negb (is_commit o)) h2 = true ->
  base (fst (run st_init (h1 ++ [c] ++ h2))) = base (fst (run st_init (h1 ++ [c]))).
Proof.
  intros H. rewrite app_assoc, run_app.
  destruct (run st_init (h1 ++ [c])) as [s1 o1]. pose proof (no_commit_base h2 s1 H) as Hb.
  destruct (run s1 h2) as [s2 o2]. exact Hb.
Qed.

(* after a successful commit a brand-new storage over the same ledger sees every owned slab as it was *)
Theorem commit_then_reopen s i :
  coherent s -> is_temp i = false ->
  view (fst (step (fst (step s (SFastCommit None))) SRecreate)) i = view s i.
Proof.
  intros Hs Hi. pose proof (fast_commit_state s Hs) as H. cbn [step].
  destruct (fast_commit s None) as [[s' ok] log]. cbn [fst].
  destruct H as (_ & _ & H & _). destruct (H i Hi) as [H1 _].
  unfold view at 1; cbn. rewrite !lookup_empty. exact H1.
Qed.
