(* Nested_examples.v — concrete forests: non-vacuity of the hypotheses of C10 / C11 and the
   two-container witness against the code before "fix: notify parent container after PopIterate". *)
From Coq Require Import ZArith NArith List Bool Lia Arith.
From AtreeGen Require Import Consts.
From AtreeModel Require Import Nested.
From AtreeProofs Require Import Nested_base Nested_resync Nested_proofs Nested_steps.
Import ListNotations.
Local Open Scope N_scope.

Definition sc (id : N) : elem := NScalar id 3.

(* parent 1 = [child 2 (5 scalars, inlined), 99], committed *)
Definition ops0 : list nop :=
  [ONew 1 KArr; ONew 2 KArr;
   OArrInsert 2 0 (sc 10); OArrInsert 2 1 (sc 11); OArrInsert 2 2 (sc 12); OArrInsert 2 3 (sc 13); OArrInsert 2 4 (sc 14);
   OArrInsert 1 0 (NChild 2 0); OArrInsert 1 1 (sc 99); OCommit].
Definition f0 : forest := fst (run 8 cfg1024 empty_forest ops0).

Lemma edge_In2 f x i s v w :
  edge f x i s v w -> exists c, In (x, c) (f_cs f) /\ In s (c_slots c) /\ s_val s = NChild v w.
Proof.
  intros (c & Hc & Hn & Hv). exists c. split; [now apply aget_In|]. split; auto. eapply nth_error_In; eauto.
Qed.

(* enumerate the edges of a concrete forest *)
Ltac edge_enum E :=
  let c := fresh "c" in let Hin := fresh "Hin" in let Hs := fresh "Hs" in let Hv := fresh "Hv" in
  destruct (edge_In2 _ _ _ _ _ _ E) as (c & Hin & Hs & Hv); vm_compute in Hin;
  repeat (destruct Hin as [Hin|Hin]); try contradiction;
  injection Hin as <- <-; cbn in Hs;
  repeat (destruct Hs as [Hs|Hs]); try contradiction;
  subst; cbn in Hv; try discriminate; injection Hv as <- <-.

Lemma reach_run_cons n g f o r f1 :
  reach n g f -> op_ok n f o -> step n g f o = (f1, true) ->
  (reach n g f1 -> reach n g (fst (run n g f1 r))) -> reach n g (fst (run n g f (o :: r))).
Proof.
  intros Hr Hok Hs K. cbn [run]. rewrite Hs. apply K. econstructor; eauto.
Qed.

Ltac ok_scalar_insert := split; [eexists; split; [vm_compute; reflexivity|split; [reflexivity|cbn; lia]]|exact I].
Ltac reach_step tac :=
  match goal with H : reach _ _ _ |- _ => eapply (reach_run_cons _ _ _ _ _ _ H); [tac|vm_compute; reflexivity|clear H; intro] end.

Lemma reach_f0 : reach 8 cfg1024 f0.
Proof.
  unfold f0, ops0. assert (H : reach 8 cfg1024 empty_forest) by constructor.
  reach_step ltac:(vm_compute; reflexivity).
  reach_step ltac:(vm_compute; reflexivity).
  do 5 (reach_step ltac:(ok_scalar_insert)).
  reach_step ltac:(idtac).
  { split; [eexists; split; [vm_compute; reflexivity|split; [reflexivity|cbn; lia]]|].
    split; [eexists; vm_compute; reflexivity|]. split.
    - intros (p & i & s & w & E). edge_enum E.
    - exists (fun v => if v =? 2 then 1%nat else 0%nat). split; [|split].
      + intros x i s v' w' E. edge_enum E.
      + cbn. lia.
      + intros x. destruct (x =? 2); lia. }
  reach_step ltac:(ok_scalar_insert).
  reach_step ltac:(exact I).
  exact H.
Qed.

Lemma fwf_f0 : fwf 8 cfg1024 f0.
Proof. apply C10_reachable_l; [lia|apply reach_f0]. Qed.

Lemma edge_f0 : edge f0 1 0 (mkSlot 0 0 (NChild 2 0)) 2 0.
Proof. eexists. split; [vm_compute; reflexivity|]. split; reflexivity. Qed.

Lemma op_ok_f0_append : op_ok 8 f0 (cop_nop 2 (CInsert 5 (sc 15))).
Proof. cbn [op_ok cop_nop]. split; [eexists; split; [vm_compute; reflexivity|split; [reflexivity|cbn [c_slots length]; lia]]|exact I]. Qed.

(* growing the child through its handle: the parent's cached size follows, the parent is dirty *)
Lemma grow_f0 :
  let f' := fst (child_step 8 cfg1024 f0 2 (CInsert 5 (sc 15))) in
  enclosing 8 f' 2 = Some 1 /\ dirty f' 1 = Some true /\
  option_map c_csize (fget f' 1) = Some 38 /\ option_map c_csize (fget f0 1) = Some 35.
Proof. vm_compute. auto. Qed.

(* the witness against the old PopIterate *)
Lemma refuted_old :
  let f' := fst (pop_step_old f0 2) in
  option_map c_slots (fget f' 2) = Some [] /\                     (* the mutation happened *)
  enclosing 8 f' 2 = Some 1 /\ dirty f' 1 = None /\               (* ... the enclosing stored slab is clean: not persisted *)
  option_map c_csize (fget f' 1) = Some 35 /\                      (* ... the parent's cached size is stale *)
  option_map (fun c => data_size cfg1024 f' (c_kind c) (c_slots c)) (fget f' 1) = Some 20.
Proof. vm_compute. auto 6. Qed.

Lemma refuted_old_not_fwf : ~ fwf 8 cfg1024 (fst (pop_step_old f0 2)).
Proof.
  intros (_ & _ & Hc & _).
  eassert (E : fget (fst (pop_step_old f0 2)) 1 = Some _) by (vm_compute; reflexivity).
  specialize (Hc 1 _ E). apply N.eqb_eq in Hc. vm_compute in Hc. discriminate Hc.
Qed.

(* with the repair *)
Lemma repaired_pop :
  let f' := fst (pop_step 8 cfg1024 f0 2) in
  dirty f' 1 = Some true /\ option_map c_csize (fget f' 1) = Some 20.
Proof. vm_compute. auto. Qed.

(* C11: remove child 2 from parent 1: it is detached; mutating it leaves the parent alone *)
Definition f1 : forest := fst (child_step 8 cfg1024 f0 1 (CRemove 0)).

Lemma op_ok_f0_remove : op_ok 8 f0 (cop_nop 1 (CRemove 0)).
Proof. cbn [op_ok cop_nop]. eexists. split; [vm_compute; reflexivity|split; [reflexivity|cbn [c_slots length]; lia]]. Qed.

Lemma step_f0_remove : child_step 8 cfg1024 f0 1 (CRemove 0) = (f1, true).
Proof. vm_compute. reflexivity. Qed.

Lemma fwf_f1 : fwf 8 cfg1024 f1.
Proof.
  destruct (step_fwf 8 cfg1024 f0 (cop_nop 1 (CRemove 0)) f1 true fwf_f0 op_ok_f0_remove step_f0_remove). auto.
Qed.

Lemma detached_f1 : detached f1 2.
Proof.
  eapply (C11_detach_l 8 cfg1024 f0 1 (CRemove 0) f1 true 0%nat _ 2 0 fwf_f0 edge_f0 op_ok_f0_remove step_f0_remove). auto.
Qed.

Lemma op_ok_f1_append : op_ok 8 f1 (cop_nop 2 (CInsert 5 (sc 15))).
Proof. cbn [op_ok cop_nop]. split; [eexists; split; [vm_compute; reflexivity|split; [reflexivity|cbn [c_slots length]; lia]]|exact I]. Qed.

Lemma detached_example :
  let f' := fst (child_step 8 cfg1024 f1 2 (CInsert 5 (sc 15))) in
  fget f' 1 = fget f1 1 /\ dirty f' 1 = dirty f1 1 /\
  option_map c_upd (fget f1 2) = Some (Some (mkUpd 1 0 501 0)) /\      (* stale callback before *)
  option_map c_upd (fget f' 2) = Some None.                            (* dropped by the first miss *)
Proof. vm_compute. auto. Qed.
