(* AliasStorage_proofs.v — the pointer-level model of PersistentSlabStorage (AliasStorage.v)
   refines the value model (Storage.v) under the discipline the containers follow.

   1. invariants [ainv] (well-formed, no dirty-but-unrecorded cached object, no temporary
      register) and [own] (an object is the live reference of at most one identifier);
   2. every storage call except DropDeltas commutes with the abstraction [aabs] and answers like
      the value model (the cache-bypassing read answers differently on a shadowed dirty entry);
   3. every disciplined client operation [cop] commutes with [aabs];
   4. handles ([Array.root]) stay valid under all schedule operations and under operations on
      other identifiers. *)
From stdpp Require Import gmap sorting.
From Coq Require Import ZArith NArith Lia.
From AtreeModel Require Import Storage StorageSpec AliasStorage.
From AtreeProofs Require Import Storage_proofs Commit_proofs StorageProps_proofs Cache_proofs.
Local Open Scope N_scope.

(** * Look-ups through the abstraction *)

Lemma abs_deltas_lookup a i : abs_deltas a !! i = deref a <$> (adeltas a !! i).
Proof. unfold abs_deltas. apply lookup_fmap. Qed.

Lemma abs_cache_lookup a i :
  abs_cache a !! i =
  match acache a !! i with
  | Some r => Some (match adeltas a !! i with Some _ => abase a !! i | None => deref a r end)
  | None => None
  end.
Proof. unfold abs_cache. rewrite map_lookup_imap. destruct (acache a !! i); reflexivity. Qed.

Lemma st_eq (s1 s2 : st) :
  deltas s1 = deltas s2 -> cache s1 = cache s2 -> base s1 = base s2 -> s1 = s2.
Proof. destruct s1, s2; cbn; intros -> -> ->; reflexivity. Qed.

(** * The invariants *)

Definition own (a : ast) : Prop :=
  forall i j x, live a i = Some (Some x) -> live a j = Some (Some x) -> i = j.

Definition INV (a : ast) : Prop := ainv a /\ own a.

Lemma wf_delta_lt a i x : wf a -> adeltas a !! i = Some (Some x) -> x < anext a.
Proof. intros (H1 & _ & H3) H. apply H3, (H1 _ _ H). Qed.
Lemma wf_cache_lt a i x : wf a -> acache a !! i = Some (Some x) -> x < anext a.
Proof. intros (_ & H2 & H3) H. apply H3, (H2 _ _ H). Qed.

Lemma ainv_init : ainv ast_init.
Proof.
  split; [|split].
  - split; [|split]; cbn; intros *; rewrite ?lookup_empty; try discriminate. intros [? ?]; discriminate.
  - intros i r; cbn. rewrite lookup_empty. discriminate.
  - intros i _; cbn. apply lookup_empty.
Qed.

Lemma INV_init : INV ast_init.
Proof. split; [apply ainv_init|]. intros i j x; unfold live; cbn. rewrite !lookup_empty. discriminate. Qed.

(* the abstraction of a state satisfying the invariant is a coherent value state *)
Lemma aabs_coherent a : ainv a -> coherent (aabs a).
Proof.
  intros (_ & Hc & Ht). split; cbn; [|exact Ht].
  intros i x. rewrite abs_cache_lookup. destruct (acache a !! i) as [r|] eqn:Hci; [|discriminate].
  intros [= <-]. destruct (adeltas a !! i) eqn:Hd; [reflexivity|]. apply (Hc _ _ Hci Hd).
Qed.

(* the view of the abstraction is the view through the live reference *)
Lemma aview_abs a i : ainv a -> view (aabs a) i = aview a i.
Proof.
  intros (_ & Hc & _). unfold view, aview, live; cbn.
  rewrite abs_deltas_lookup, abs_cache_lookup.
  destruct (adeltas a !! i) as [r|] eqn:Hd; cbn; [reflexivity|].
  destruct (acache a !! i) as [r|] eqn:Hci; reflexivity.
Qed.

(** * Allocation *)

Lemma alloc_fields a v :
  adeltas (fst (alloc a v)) = adeltas a /\ acache (fst (alloc a v)) = acache a /\
  abase (fst (alloc a v)) = abase a /\ anext (fst (alloc a v)) = anext a + 1 /\
  aheap (fst (alloc a v)) = <[anext a := v]> (aheap a) /\ snd (alloc a v) = anext a.
Proof. repeat split. Qed.

Lemma heap_fresh a : wf a -> aheap a !! anext a = None.
Proof.
  intros (_ & _ & H3). destruct (aheap a !! anext a) eqn:E; [|reflexivity].
  assert (anext a < anext a) by (apply H3; eauto). lia.
Qed.

(* a state that differs from [a] only by new objects (and possibly the cache) *)
Definition heap_ext (a a' : ast) : Prop :=
  (forall x, x < anext a -> aheap a' !! x = aheap a !! x) /\ anext a <= anext a'.

Lemma heap_ext_alloc a v : wf a -> heap_ext a (fst (alloc a v)).
Proof.
  intros Hw. split; cbn; [|lia]. intros x Hx. rewrite lookup_insert_ne by lia. reflexivity.
Qed.

Lemma deref_ext a a' r : heap_ext a a' -> (forall x, r = Some x -> x < anext a) -> deref a' r = deref a r.
Proof. intros [H _] Hr. destruct r as [x|]; cbn; [apply H, Hr; reflexivity|reflexivity]. Qed.

Lemma abs_deltas_ext a a' :
  wf a -> heap_ext a a' -> adeltas a' = adeltas a -> abs_deltas a' = abs_deltas a.
Proof.
  intros Hw He Hd. apply map_eq. intros i. rewrite !abs_deltas_lookup, Hd.
  destruct (adeltas a !! i) as [r|] eqn:E; cbn; [|reflexivity]. f_equal.
  apply deref_ext; [exact He|]. intros x ->. eapply wf_delta_lt; eauto.
Qed.

(** * [load]: decode register [i] (holding [v]) into a new object and cache it *)

Definition load (a : ast) (i : sid) (v : val) : ast :=
  set_cache (fst (alloc a v)) (<[i := Some (anext a)]> (acache a)).

Lemma load_wf a i v : wf a -> wf (load a i v).
Proof.
  intros Hw. pose proof Hw as (H1 & H2 & H3). split; [|split]; cbn.
  - intros j x Hj. destruct (decide (x = anext a)) as [->|Hne].
    + rewrite lookup_insert. eauto.
    + rewrite lookup_insert_ne by congruence. eauto.
  - intros j x. destruct (decide (j = i)) as [->|Hji].
    + rewrite lookup_insert. intros [= <-]. rewrite lookup_insert. eauto.
    + rewrite lookup_insert_ne by congruence. intros Hj.
      destruct (decide (x = anext a)) as [->|Hne]; [rewrite lookup_insert; eauto|].
      rewrite lookup_insert_ne by congruence. eauto.
  - intros x. destruct (decide (x = anext a)) as [->|Hne]; [lia|].
    rewrite lookup_insert_ne by congruence. intros Hx. specialize (H3 _ Hx). lia.
Qed.

Lemma load_deref_old a i v r :
  wf a -> (forall x, r = Some x -> x < anext a) -> deref (load a i v) r = deref a r.
Proof.
  intros Hw Hr. destruct r as [x|]; cbn; [|reflexivity].
  rewrite lookup_insert_ne; [reflexivity|]. specialize (Hr x eq_refl). lia.
Qed.

Lemma load_ainv a i v : ainv a -> abase a !! i = Some v -> ainv (load a i v).
Proof.
  intros (Hw & Hc & Ht) Hb. split; [apply load_wf, Hw|]. split; [|exact Ht].
  intros j r; cbn [load set_cache acache adeltas abase alloc fst].
  destruct (decide (j = i)) as [->|Hji].
  - rewrite lookup_insert. intros [= <-] _. cbn. rewrite lookup_insert. congruence.
  - rewrite lookup_insert_ne by congruence. intros Hj Hd.
    rewrite <- (Hc _ _ Hj Hd). apply load_deref_old; [exact Hw|].
    intros x ->. eapply wf_cache_lt; eauto.
Qed.

Lemma load_live a i v j :
  live (load a i v) j =
  if decide (j = i) then (match adeltas a !! i with Some r => Some r | None => Some (Some (anext a)) end)
  else live a j.
Proof.
  unfold live; cbn [load set_cache acache adeltas alloc fst].
  destruct (decide (j = i)) as [->|Hji].
  - rewrite lookup_insert. reflexivity.
  - rewrite lookup_insert_ne by congruence. reflexivity.
Qed.

Lemma live_lt a i x : wf a -> live a i = Some (Some x) -> x < anext a.
Proof.
  intros Hw. unfold live. destruct (adeltas a !! i) as [r|] eqn:Hd.
  - intros [= ->]. eapply wf_delta_lt; eauto.
  - intros Hc. eapply wf_cache_lt; eauto.
Qed.

Lemma load_own a i v : wf a -> own a -> own (load a i v).
Proof.
  intros Hw Ho j k x. rewrite !load_live.
  destruct (decide (j = i)) as [->|Hji], (decide (k = i)) as [->|Hki]; try (intros; congruence).
  - destruct (adeltas a !! i) as [r|] eqn:Hd.
    + intros [= ->] Hk. apply (Ho i k x); [unfold live; rewrite Hd; reflexivity|exact Hk].
    + intros [= <-] Hk. apply live_lt in Hk; [lia|exact Hw].
  - destruct (adeltas a !! i) as [r|] eqn:Hd.
    + intros Hj [= ->]. apply (Ho j i x); [exact Hj|unfold live; rewrite Hd; reflexivity].
    + intros Hj [= <-]. apply live_lt in Hj; [lia|exact Hw].
  - apply Ho.
Qed.

Lemma load_abs a i v :
  ainv a -> abase a !! i = Some v ->
  aabs (load a i v) = mkst (abs_deltas a) (<[i := Some v]> (abs_cache a)) (abase a).
Proof.
  intros (Hw & Hc & Ht) Hb. apply st_eq; cbn [aabs deltas cache base]; [| |reflexivity].
  - apply abs_deltas_ext; [exact Hw| |reflexivity].
    split; cbn; [|lia]. intros x Hx. rewrite lookup_insert_ne by lia. reflexivity.
  - apply map_eq. intros j. rewrite abs_cache_lookup.
    cbn [load set_cache acache adeltas abase alloc fst].
    destruct (decide (j = i)) as [->|Hji].
    + rewrite !lookup_insert. f_equal. destruct (adeltas a !! i); [exact Hb|].
      cbn. apply lookup_insert.
    + rewrite !lookup_insert_ne by congruence. rewrite abs_cache_lookup.
      destruct (acache a !! j) as [r|] eqn:Hj; [|reflexivity]. f_equal.
      destruct (adeltas a !! j); [reflexivity|].
      change (deref (load a i v) r = deref a r). apply load_deref_old; [exact Hw|].
      intros x ->. eapply wf_cache_lt; eauto.
Qed.

Lemma load_INV a i v : INV a -> abase a !! i = Some v -> INV (load a i v).
Proof. intros [Hi Ho] Hb. split; [apply load_ainv; assumption|apply load_own; [apply Hi|exact Ho]]. Qed.

(* allocation alone (an object nobody refers to yet) *)
Lemma alloc_ainv a v : ainv a -> ainv (fst (alloc a v)).
Proof.
  intros (Hw & Hc & Ht). pose proof Hw as (H1 & H2 & H3). split; [|split]; [|..|exact Ht].
  - split; [|split]; cbn.
    + intros j x Hj. destruct (decide (x = anext a)) as [->|Hne];
        [rewrite lookup_insert|rewrite lookup_insert_ne by congruence]; eauto.
    + intros j x Hj. destruct (decide (x = anext a)) as [->|Hne];
        [rewrite lookup_insert|rewrite lookup_insert_ne by congruence]; eauto.
    + intros x. destruct (decide (x = anext a)) as [->|Hne]; [lia|].
      rewrite lookup_insert_ne by congruence. intros Hx. specialize (H3 _ Hx). lia.
  - intros j r Hj Hd. cbn in Hj, Hd. change (abase (fst (alloc a v))) with (abase a).
    rewrite <- (Hc _ _ Hj Hd).
    apply deref_ext; [apply heap_ext_alloc, Hw|]. intros x ->. eapply wf_cache_lt; eauto.
Qed.

Lemma alloc_abs a v : ainv a -> aabs (fst (alloc a v)) = aabs a.
Proof.
  intros (Hw & Hc & Ht). apply st_eq; cbn [aabs deltas cache base]; [| |reflexivity].
  - apply abs_deltas_ext; [exact Hw|apply heap_ext_alloc, Hw|reflexivity].
  - apply map_eq. intros j. rewrite !abs_cache_lookup. cbn [alloc fst acache adeltas abase].
    destruct (acache a !! j) as [r|] eqn:Hj; [|reflexivity]. f_equal.
    destruct (adeltas a !! j); [reflexivity|].
    apply deref_ext; [apply heap_ext_alloc, Hw|]. intros x ->. eapply wf_cache_lt; eauto.
Qed.

Lemma alloc_own a v : own a -> own (fst (alloc a v)).
Proof. intros Ho i j x. apply Ho. Qed.

Lemma alloc_INV a v : INV a -> INV (fst (alloc a v)).
Proof. intros [Hi Ho]. split; [apply alloc_ainv, Hi|apply alloc_own, Ho]. Qed.

(** * Store / Remove: one entry of the write set *)

Definition upd_delta (a : ast) (i : sid) (r : option addr) : ast :=
  set_deltas a (<[i := r]> (adeltas a)).

Lemma upd_delta_ainv a i r :
  ainv a -> (forall x, r = Some x -> is_Some (aheap a !! x)) -> ainv (upd_delta a i r).
Proof.
  intros (Hw & Hc & Ht) Hr. pose proof Hw as (H1 & H2 & H3). split; [|split]; [|..|exact Ht].
  - split; [|split]; cbn; [|exact H2|exact H3].
    intros j x. destruct (decide (j = i)) as [->|Hji].
    + rewrite lookup_insert. intros [= ->]. apply Hr. reflexivity.
    + rewrite lookup_insert_ne by congruence. apply H1.
  - intros j q; cbn. destruct (decide (j = i)) as [->|Hji].
    + rewrite lookup_insert. discriminate.
    + rewrite lookup_insert_ne by congruence. apply Hc.
Qed.

Lemma upd_delta_abs a i r :
  ainv a ->
  aabs (upd_delta a i r) = mkst (<[i := deref a r]> (abs_deltas a)) (abs_cache a) (abase a).
Proof.
  intros (Hw & Hc & Ht). apply st_eq; cbn [aabs deltas cache base]; [| |reflexivity].
  - unfold abs_deltas, upd_delta; cbn. rewrite fmap_insert. reflexivity.
  - apply map_eq. intros j. rewrite !abs_cache_lookup. cbn [upd_delta set_deltas acache adeltas abase].
    destruct (acache a !! j) as [q|] eqn:Hj; [|reflexivity]. f_equal.
    destruct (decide (j = i)) as [->|Hji].
    + rewrite lookup_insert. destruct (adeltas a !! i) eqn:Hd; [reflexivity|].
      symmetry. apply (Hc _ _ Hj Hd).
    + rewrite lookup_insert_ne by congruence. reflexivity.
Qed.

Lemma upd_delta_live a i r j :
  live (upd_delta a i r) j = if decide (j = i) then Some r else live a j.
Proof.
  unfold live; cbn. destruct (decide (j = i)) as [->|Hji].
  - rewrite lookup_insert. reflexivity.
  - rewrite lookup_insert_ne by congruence. reflexivity.
Qed.

Lemma upd_delta_own a i r :
  own a -> (forall x j, r = Some x -> live a j = Some (Some x) -> j = i) -> own (upd_delta a i r).
Proof.
  intros Ho Hr j k x. rewrite !upd_delta_live.
  destruct (decide (j = i)) as [->|Hji], (decide (k = i)) as [->|Hki]; try (intros; congruence).
  - intros [= ->] Hk. symmetry. eapply Hr; eauto.
  - intros Hj [= ->]. eapply Hr; eauto.
  - apply Ho.
Qed.

(** * Reads *)

Lemma a_rid_unfold a i c :
  a_rid a i c =
  match acache a !! i with
  | Some r => (a, r)
  | None => match abase a !! i with
            | None => (a, None)
            | Some v => ((if c then load a i v else fst (alloc a v)), Some (anext a))
            end
  end.
Proof. unfold a_rid. destruct (acache a !! i); [reflexivity|]. destruct (abase a !! i); reflexivity. Qed.

(* the cache-bypassing read: the state commutes with the abstraction; the ANSWER is the committed
   value unless the identifier has a pending change and a cache entry (then the cached object is
   returned as it is now — possibly modified in place) *)
Lemma a_rid_refines a i c :
  INV a ->
  let '(a', r) := a_rid a i c in
  let '(s', x) := retrieve_ignoring_deltas (aabs a) i c in
  INV a' /\ aabs a' = s' /\
  (adeltas a !! i = None \/ acache a !! i = None -> deref a' r = x) /\
  (forall q, acache a !! i = Some q -> r = q /\ a' = a).
Proof.
  intros HI. pose proof HI as [Hi Ho]. pose proof Hi as (Hw & Hc & Ht).
  rewrite a_rid_unfold. unfold retrieve_ignoring_deltas. cbn [aabs cache base].
  rewrite abs_cache_lookup.
  destruct (acache a !! i) as [r|] eqn:Hci.
  - split; [exact HI|]. split; [reflexivity|]. split; [|intros q [= <-]; auto].
    intros [Hd|Hd]; [|discriminate]. rewrite Hd. reflexivity.
  - destruct (abase a !! i) as [v|] eqn:Hb.
    + destruct c.
      * split; [apply load_INV; assumption|]. split; [apply load_abs; assumption|].
        split; [|discriminate]. intros _. cbn. rewrite lookup_insert. reflexivity.
      * split; [apply alloc_INV, HI|]. split; [apply alloc_abs, Hi|].
        split; [|discriminate]. intros _. cbn. rewrite lookup_insert. reflexivity.
    + split; [exact HI|]. split; [reflexivity|]. split; [reflexivity|discriminate].
Qed.

Lemma a_retrieve_refines a i :
  INV a ->
  let '(a', r) := a_retrieve a i in
  let '(s', x) := retrieve (aabs a) i in
  INV a' /\ aabs a' = s' /\ deref a' r = x /\ live a' i = (match r with Some _ => Some r | None => live a' i end)
  /\ (forall j, j <> i -> live a' j = live a j) /\ heap_ext a a'
  /\ (forall y, r = Some y -> live a' i = Some (Some y)).
Proof.
  intros HI. pose proof HI as [Hi Ho]. pose proof Hi as (Hw & Hc & Ht).
  unfold a_retrieve, retrieve. cbn [aabs deltas]. rewrite abs_deltas_lookup.
  destruct (adeltas a !! i) as [r|] eqn:Hd; cbn [fmap option_fmap option_map].
  - split; [exact HI|]. split; [reflexivity|]. split; [reflexivity|].
    split; [unfold live; rewrite Hd; destruct r; reflexivity|]. split; [auto|].
    split; [split; [auto|lia]|]. intros y ->. unfold live. rewrite Hd. reflexivity.
  - pose proof (a_rid_refines a i true HI) as H. rewrite a_rid_unfold in *.
    unfold retrieve_ignoring_deltas in *. cbn [aabs cache base] in *. rewrite abs_cache_lookup in *.
    destruct (acache a !! i) as [r|] eqn:Hci.
    + destruct H as (H1 & H2 & H3 & _). split; [exact H1|]. split; [exact H2|]. split; [apply H3; auto|].
      split; [unfold live; rewrite Hd, Hci; destruct r; reflexivity|]. split; [auto|].
      split; [split; [auto|lia]|]. intros y ->. unfold live. rewrite Hd, Hci. reflexivity.
    + destruct (abase a !! i) as [v|] eqn:Hb.
      * destruct H as (H1 & H2 & H3 & _). split; [exact H1|]. split; [exact H2|]. split; [apply H3; auto|].
        split; [rewrite load_live, decide_True, Hd by reflexivity; reflexivity|].
        split; [intros j Hj; rewrite load_live, decide_False by exact Hj; reflexivity|].
        split; [split; cbn; [intros x Hx; rewrite lookup_insert_ne by lia; reflexivity|lia]|].
        intros y [= <-]. rewrite load_live, decide_True, Hd by reflexivity. reflexivity.
      * destruct H as (H1 & H2 & H3 & _). split; [exact H1|]. split; [exact H2|]. split; [apply H3; auto|].
        split; [reflexivity|]. split; [auto|]. split; [split; [auto|lia]|]. discriminate.
Qed.

(** * Commit *)

Lemma a_call_of_abs a i : wf a -> a_call_of a i = call_of (aabs a) i.
Proof.
  intros (H1 & _). unfold a_call_of, call_of. cbn [aabs deltas]. rewrite abs_deltas_lookup.
  destruct (adeltas a !! i) as [[x|]|] eqn:Hd; cbn; [|reflexivity|reflexivity].
  destruct (H1 _ _ Hd) as [v ->]. reflexivity.
Qed.

Lemma a_apply_one_wf a i : wf a -> wf (a_apply_one a i).
Proof.
  intros Hw. pose proof Hw as (H1 & H2 & H3). unfold a_apply_one.
  destruct (adeltas a !! i) as [[x|]|] eqn:Hd; [|..|exact Hw].
  - destruct (aheap a !! x) as [v|] eqn:Hx; [|exact Hw].
    split; [|split]; cbn; [| |exact H3].
    + intros j y Hj. apply lookup_delete_Some in Hj. destruct Hj as [_ Hj]. eauto.
    + intros j y. destruct (decide (j = i)) as [->|Hji].
      * rewrite lookup_insert. intros [= <-]. eauto.
      * rewrite lookup_insert_ne by congruence. apply H2.
  - split; [|split]; cbn; [| |exact H3].
    + intros j y Hj. apply lookup_delete_Some in Hj. destruct Hj as [_ Hj]. eauto.
    + intros j y. destruct (decide (j = i)) as [->|Hji].
      * rewrite lookup_insert. discriminate.
      * rewrite lookup_insert_ne by congruence. apply H2.
Qed.

Lemma a_apply_one_abs a i : wf a -> aabs (a_apply_one a i) = fst (apply_one (aabs a) i).
Proof.
  intros Hw. pose proof Hw as (H1 & H2 & H3). unfold a_apply_one, apply_one.
  cbn [aabs deltas cache base]. rewrite abs_deltas_lookup.
  destruct (adeltas a !! i) as [[x|]|] eqn:Hd; cbn [fmap option_fmap option_map deref]; [| |reflexivity].
  - destruct (H1 _ _ Hd) as [v Hx]. rewrite Hx. cbn [fst].
    apply st_eq; cbn [aabs deltas cache base]; [| |reflexivity].
    + unfold abs_deltas; cbn. rewrite fmap_delete. reflexivity.
    + apply map_eq. intros j. rewrite abs_cache_lookup. cbn [acache adeltas abase aheap].
      destruct (decide (j = i)) as [->|Hji].
      * rewrite !lookup_insert, lookup_delete. cbn. rewrite Hx. reflexivity.
      * rewrite !lookup_insert_ne, lookup_delete_ne by congruence. rewrite abs_cache_lookup. reflexivity.
  - cbn [fst]. apply st_eq; cbn [aabs deltas cache base]; [| |reflexivity].
    + unfold abs_deltas; cbn. rewrite fmap_delete. reflexivity.
    + apply map_eq. intros j. rewrite abs_cache_lookup. cbn [acache adeltas abase aheap].
      destruct (decide (j = i)) as [->|Hji].
      * rewrite !lookup_insert, lookup_delete. reflexivity.
      * rewrite lookup_insert_ne, !lookup_delete_ne, lookup_insert_ne by congruence.
        rewrite abs_cache_lookup. reflexivity.
Qed.

Lemma a_apply_one_live a i j : wf a -> live (a_apply_one a i) j = live a j.
Proof.
  intros (H1 & _). unfold a_apply_one, live.
  destruct (adeltas a !! i) as [[x|]|] eqn:Hd; [| |reflexivity].
  - destruct (H1 _ _ Hd) as [v Hx]. rewrite Hx. cbn.
    destruct (decide (j = i)) as [->|Hji].
    + rewrite lookup_delete, lookup_insert, Hd. reflexivity.
    + rewrite lookup_delete_ne, lookup_insert_ne by congruence. reflexivity.
  - cbn. destruct (decide (j = i)) as [->|Hji].
    + rewrite lookup_delete, lookup_insert, Hd. reflexivity.
    + rewrite lookup_delete_ne, lookup_insert_ne by congruence. reflexivity.
Qed.

Lemma a_apply_one_INV a i : INV a -> is_temp i = false -> INV (a_apply_one a i).
Proof.
  intros [(Hw & Hc & Ht) Ho] Hi. split.
  - split; [apply a_apply_one_wf, Hw|]. pose proof Hw as (H1 & H2 & H3).
    unfold a_apply_one. destruct (adeltas a !! i) as [[x|]|] eqn:Hd; [| |split; assumption].
    + destruct (H1 _ _ Hd) as [v Hx]. rewrite Hx. split.
      * intros j r; cbn. destruct (decide (j = i)) as [->|Hji].
        -- rewrite !lookup_insert. intros [= <-] _. cbn. rewrite Hx. reflexivity.
        -- rewrite !lookup_insert_ne, lookup_delete_ne by congruence. apply Hc.
      * intros j Hj; cbn. rewrite lookup_insert_ne by (intros ->; congruence). apply Ht, Hj.
    + split.
      * intros j r; cbn. destruct (decide (j = i)) as [->|Hji].
        -- rewrite lookup_insert, !lookup_delete. intros [= <-] _. reflexivity.
        -- rewrite lookup_insert_ne, !lookup_delete_ne by congruence. apply Hc.
      * intros j Hj; cbn. rewrite lookup_delete_ne by (intros ->; congruence). apply Ht, Hj.
  - intros j k x. rewrite !a_apply_one_live by exact Hw. apply Ho.
Qed.

Lemma a_apply_writes_refines ids : forall fail a log,
  INV a -> Forall (fun i => is_temp i = false) ids ->
  let '(a', ok, l) := a_apply_writes ids fail a log in
  INV a' /\ apply_writes ids fail (aabs a) log = (aabs a', ok, l) /\ (forall j, live a' j = live a j)
  /\ (aheap a' = aheap a /\ anext a' = anext a).
Proof.
  induction ids as [|i r IH]; intros fail a log HI Hall; cbn [a_apply_writes apply_writes]; [auto|].
  inversion Hall as [|? ? Hi Hr]; subst.
  rewrite <- a_call_of_abs by apply HI. destruct (a_call_of a i) as [c|]; [|apply IH; assumption].
  assert (Hh : aheap (a_apply_one a i) = aheap a /\ anext (a_apply_one a i) = anext a).
  { unfold a_apply_one. destruct (adeltas a !! i) as [[x|]|]; [destruct (aheap a !! x)|..]; split; reflexivity. }
  destruct fail as [[|k]|]; [auto| |].
  - rewrite <- a_apply_one_abs by apply HI.
    specialize (IH (Some k) (a_apply_one a i) (c :: log) (a_apply_one_INV a i HI Hi) Hr).
    destruct (a_apply_writes r (Some k) (a_apply_one a i) (c :: log)) as [[a' ok] l].
    destruct IH as (I1 & I2 & I3 & I4). split; [exact I1|]. split; [exact I2|].
    split; [intros j; rewrite I3; apply a_apply_one_live, HI|destruct I4, Hh; split; congruence].
  - rewrite <- a_apply_one_abs by apply HI.
    specialize (IH None (a_apply_one a i) (c :: log) (a_apply_one_INV a i HI Hi) Hr).
    destruct (a_apply_writes r None (a_apply_one a i) (c :: log)) as [[a' ok] l].
    destruct IH as (I1 & I2 & I3 & I4). split; [exact I1|]. split; [exact I2|].
    split; [intros j; rewrite I3; apply a_apply_one_live, HI|destruct I4, Hh; split; congruence].
Qed.

(* the owned keys: the same set, hence the same sorted list and the same admissible orders *)
Lemma a_owned_keys_perm a : a_owned_delta_keys a ≡ₚ owned_delta_keys (aabs a).
Proof.
  unfold a_owned_delta_keys, owned_delta_keys. cbn [aabs deltas]. unfold abs_deltas.
  apply filter_Permutation. symmetry. rewrite map_to_list_fmap.
  induction (map_to_list (adeltas a)) as [|[k x] l IH]; cbn; [reflexivity|]. constructor. exact IH.
Qed.

Lemma a_sorted_keys_abs a : a_sorted_owned_delta_keys a = sorted_owned_delta_keys (aabs a).
Proof. apply sorted_keys_unique, a_owned_keys_perm. Qed.

Lemma a_is_mod_abs a i : wf a -> a_is_mod a i = is_mod (aabs a) i.
Proof.
  intros (H1 & _). unfold a_is_mod, is_mod. cbn [aabs deltas]. rewrite abs_deltas_lookup.
  destruct (adeltas a !! i) as [[x|]|] eqn:Hd; cbn; try reflexivity.
  destruct (H1 _ _ Hd) as [v ->]. reflexivity.
Qed.
Lemma a_is_del_abs a i : wf a -> a_is_del a i = is_del (aabs a) i.
Proof.
  intros (H1 & _). unfold a_is_del, is_del. cbn [aabs deltas]. rewrite abs_deltas_lookup.
  destruct (adeltas a !! i) as [[x|]|] eqn:Hd; cbn; try reflexivity.
  destruct (H1 _ _ Hd) as [v ->]. reflexivity.
Qed.

Lemma all_then_ext (p p' q q' : sid -> bool) l :
  (forall i, p i = p' i) -> (forall i, q i = q' i) -> all_then p q l = all_then p' q' l.
Proof.
  intros Hp Hq. induction l as [|i r IH]; [reflexivity|]. cbn [all_then]. rewrite <- Hp.
  destruct (p i); [exact IH|]. cbn [forallb]. rewrite Hq. f_equal.
  clear IH. induction r as [|k r IH]; [reflexivity|]. cbn. rewrite Hq, IH. reflexivity.
Qed.

Lemma forallb_ext' {A} (f g : A -> bool) l : (forall x, f x = g x) -> forallb f l = forallb g l.
Proof. intros H. induction l as [|x r IH]; [reflexivity|]. cbn. rewrite H, IH. reflexivity. Qed.

Lemma a_order_ok_abs a order c : wf a -> a_order_ok a order c = order_ok (aabs a) order c.
Proof.
  intros Hw. unfold a_order_ok, order_ok. pose proof (a_owned_keys_perm a) as Hp.
  assert (E1 : length (filter (fun i => a_is_mod a i = true) (a_owned_delta_keys a)) =
               length (filter (fun i => is_mod (aabs a) i = true) (owned_delta_keys (aabs a)))).
  { rewrite <- Hp. f_equal. apply list_filter_iff. intros i. rewrite a_is_mod_abs by exact Hw. reflexivity. }
  rewrite E1. rewrite (Permutation_length Hp).
  assert (E2 : forallb (fun i => bool_decide (i ∈ a_owned_delta_keys a)) order =
               forallb (fun i => bool_decide (i ∈ owned_delta_keys (aabs a))) order).
  { apply forallb_ext'. intros i. apply bool_decide_ext. rewrite Hp. reflexivity. }
  rewrite E2.
  rewrite (all_then_ext (a_is_del a) (is_del (aabs a)) (a_is_mod a) (is_mod (aabs a)) order)
    by (intros i; first [apply a_is_mod_abs, Hw | apply a_is_del_abs, Hw]).
  rewrite (all_then_ext (a_is_mod a) (is_mod (aabs a)) (a_is_del a) (is_del (aabs a)) order)
    by (intros i; first [apply a_is_mod_abs, Hw | apply a_is_del_abs, Hw]).
  reflexivity.
Qed.

Lemma a_owned_keys_owned a : Forall (fun i => is_temp i = false) (a_owned_delta_keys a).
Proof. unfold a_owned_delta_keys. apply Forall_forall. intros i Hi. apply elem_of_list_filter in Hi. tauto. Qed.

(** * Preload *)

Lemma a_preload_one_refines a i :
  INV a -> INV (a_preload_one a i) /\ aabs (a_preload_one a i) = preload_one (aabs a) i /\
  heap_ext a (a_preload_one a i).
Proof.
  intros HI. unfold a_preload_one, preload_one. cbn [aabs base].
  destruct (abase a !! i) as [v|] eqn:Hb; [|split; [exact HI|split; [reflexivity|split; [auto|lia]]]].
  change (let '(a1, x) := alloc a v in set_cache a1 (<[i:=Some x]> (acache a1))) with (load a i v).
  split; [apply load_INV; assumption|]. split; [apply load_abs; [apply HI|exact Hb]|].
  split; cbn; [|lia]. intros x Hx. rewrite lookup_insert_ne by lia. reflexivity.
Qed.

Lemma heap_ext_trans a b c : heap_ext a b -> heap_ext b c -> heap_ext a c.
Proof. intros [H1 H2] [H3 H4]. split; [|lia]. intros x Hx. rewrite H3 by lia. apply H1, Hx. Qed.

Lemma a_batch_preload_refines ids : forall a,
  INV a -> INV (a_batch_preload a ids) /\ aabs (a_batch_preload a ids) = batch_preload (aabs a) ids /\
  heap_ext a (a_batch_preload a ids).
Proof.
  unfold a_batch_preload, batch_preload. induction ids as [|i r IH]; intros a HI; cbn [fold_left].
  - split; [exact HI|]. split; [reflexivity|]. split; [auto|lia].
  - destruct (a_preload_one_refines a i HI) as (H1 & H2 & H3).
    destruct (IH _ H1) as (H4 & H5 & H6). split; [exact H4|]. split; [rewrite H5, H2; reflexivity|].
    eapply heap_ext_trans; eauto.
Qed.

(** * Frames: what an operation that never mutates an object leaves alone *)

Definition frame (a a' : ast) : Prop :=
  heap_ext a a' /\
  forall j x, live a' j = Some (Some x) -> live a j = Some (Some x) \/ anext a <= x.

Lemma frame_refl a : frame a a.
Proof. split; [split; [auto|lia]|auto]. Qed.

Lemma frame_trans a b c : frame a b -> frame b c -> frame a c.
Proof.
  intros [H1 H2] [H3 H4]. split; [eapply heap_ext_trans; eauto|].
  intros j x Hx. destruct (H4 _ _ Hx) as [H|H].
  - apply H2, H.
  - right. destruct H1 as [_ H1]. lia.
Qed.

Lemma load_frame a i v : frame a (load a i v).
Proof.
  split.
  - split; cbn; [|lia]. intros x Hx. rewrite lookup_insert_ne by lia. reflexivity.
  - intros j x. rewrite load_live. destruct (decide (j = i)) as [->|Hji]; [|auto].
    destruct (adeltas a !! i) as [r|] eqn:Hd.
    + intros [= ->]. left. unfold live. rewrite Hd. reflexivity.
    + intros [= <-]. right. lia.
Qed.

Lemma alloc_frame a v : frame a (fst (alloc a v)).
Proof.
  split.
  - split; cbn; [|lia]. intros x Hx. rewrite lookup_insert_ne by lia. reflexivity.
  - intros j x H. left. exact H.
Qed.

(** * One storage call *)

Definition vop (a : ast) (o : aop) : option sop :=
  match o with
  | AStore i x => match aheap a !! x with Some v => Some (SStore i v) | None => None end
  | ARemove i => Some (SRemove i)
  | ARetrieve i => Some (SRetrieve i)
  | ARetrieveIfLoaded i => Some (SRetrieveIfLoaded i)
  | ARetrieveIgnoringDeltas i c => Some (SRetrieveIgnoringDeltas i c)
  | AFastCommit f => Some (SFastCommit f)
  | ANondetCommit order f => Some (SNondetCommit order f)
  | ADropCache => Some SDropCache
  | ABatchPreload ids => Some (SBatchPreload ids)
  | ARecreate => Some SRecreate
  | ABaseGet i => Some (SBaseGet i)
  | ADropDeltas | ANew _ | AMutate _ _ => None
  end.

(* Store(id, object): the object must not be the live object of another identifier *)
Definition store_ok (a : ast) (o : aop) : Prop :=
  match o with
  | AStore i x => forall j, live a j = Some (Some x) -> j = i
  | _ => True
  end.

Definition answer_ok (a : ast) (o : aop) (x : aout) (y : sout) : Prop :=
  match o with
  | ARetrieveIgnoringDeltas i _ => adeltas a !! i = None \/ acache a !! i = None -> out_val x = y
  | _ => out_val x = y
  end.

Lemma upd_delta_INV a i r :
  INV a -> (forall x, r = Some x -> is_Some (aheap a !! x)) ->
  (forall x j, r = Some x -> live a j = Some (Some x) -> j = i) -> INV (upd_delta a i r).
Proof. intros [Hi Ho] H1 H2. split; [apply upd_delta_ainv; assumption|apply upd_delta_own; assumption]. Qed.

Theorem astep_refines a o so :
  INV a -> vop a o = Some so -> store_ok a o ->
  let '(a', x) := astep a o in
  let '(s', y) := step (aabs a) so in
  INV a' /\ aabs a' = s' /\ answer_ok a o x y.
Proof.
  intros HI Hv Hs. pose proof HI as [Hi Ho]. pose proof Hi as (Hw & Hc & Ht).
  destruct o as [i x|i|i|i|i c|fail|order fail| | |ids| |i|v|x v]; cbn [vop] in Hv; try discriminate;
    try (injection Hv as <-); cbn [astep step answer_ok].
  - (* store *)
    destruct (aheap a !! x) as [v|] eqn:Hx; [|discriminate]. injection Hv as <-. cbn [step].
    destruct (is_undefined i); [auto|].
    change (set_deltas a (<[i:=Some x]> (adeltas a))) with (upd_delta a i (Some x)).
    split; [|split; [|reflexivity]].
    + apply upd_delta_INV; [exact HI| |].
      * intros y [= <-]. eauto.
      * intros y j [= <-]. apply Hs.
    + rewrite upd_delta_abs by exact Hi. cbn. rewrite Hx. reflexivity.
  - (* remove *)
    destruct (is_undefined i); [auto|].
    change (set_deltas a (<[i:=None]> (adeltas a))) with (upd_delta a i None).
    split; [|split; [|reflexivity]].
    + apply upd_delta_INV; [exact HI|discriminate|discriminate].
    + rewrite upd_delta_abs by exact Hi. reflexivity.
  - (* retrieve *)
    pose proof (a_retrieve_refines a i HI) as H.
    destruct (a_retrieve a i) as [a' r]. destruct (retrieve (aabs a) i) as [s' y].
    destruct H as (H1 & H2 & H3 & _). cbn. rewrite H3. auto.
  - (* retrieve if loaded *)
    split; [exact HI|]. split; [reflexivity|]. cbn. f_equal.
    unfold a_retrieve_if_loaded, retrieve_if_loaded. cbn [aabs deltas cache].
    rewrite abs_deltas_lookup, abs_cache_lookup.
    destruct (adeltas a !! i) as [r|] eqn:Hd; cbn; [reflexivity|].
    destruct (acache a !! i) as [r|] eqn:Hci; reflexivity.
  - (* retrieve ignoring deltas *)
    pose proof (a_rid_refines a i c HI) as H.
    destruct (a_rid a i c) as [a' r]. destruct (retrieve_ignoring_deltas (aabs a) i c) as [s' y].
    destruct H as (H1 & H2 & H3 & _). split; [exact H1|]. split; [exact H2|].
    intros Hd. cbn. rewrite (H3 Hd). reflexivity.
  - (* fast commit *)
    unfold a_fast_commit, fast_commit. rewrite a_sorted_keys_abs.
    pose proof (a_apply_writes_refines (sorted_owned_delta_keys (aabs a)) fail a [] HI
                  (sorted_owned_keys_owned _)) as H.
    destruct (a_apply_writes _ fail a []) as [[a' ok] l]. destruct H as (H1 & H2 & _). rewrite H2. auto.
  - (* nondet commit *)
    unfold a_nondet_commit, nondet_commit. rewrite a_order_ok_abs by exact Hw.
    destruct (order_ok (aabs a) order _) eqn:Hok; [|auto].
    pose proof (a_apply_writes_refines order fail a [] HI (order_ok_owned _ _ _ Hok)) as H.
    destruct (a_apply_writes order fail a []) as [[a' ok] l]. destruct H as (H1 & H2 & _). rewrite H2. auto.
  - (* drop cache *)
    split; [|split; [|reflexivity]].
    + split; [split; [|split]|].
      * destruct Hw as (H1 & H2 & H3). split; [exact H1|]. split; [|exact H3].
        intros j x; cbn. rewrite lookup_empty. discriminate.
      * intros j r; cbn. rewrite lookup_empty. discriminate.
      * exact Ht.
      * intros j k x. unfold live; cbn. rewrite !lookup_empty.
        destruct (adeltas a !! j) as [r|] eqn:Hj; [|discriminate].
        destruct (adeltas a !! k) as [q|] eqn:Hk; [|discriminate].
        intros [= ->] [= ->]. apply (Ho j k x); unfold live; [rewrite Hj|rewrite Hk]; reflexivity.
    + apply st_eq; cbn [aabs deltas cache base]; [reflexivity| |reflexivity].
      unfold abs_cache; cbn. apply map_imap_empty.
  - (* preload *)
    destruct (a_batch_preload_refines ids a HI) as (H1 & H2 & _). auto.
  - (* recreate *)
    split; [|split; [|reflexivity]].
    + split; [split; [|split]|].
      * destruct Hw as (H1 & H2 & H3). split; [|split; [|exact H3]]; intros j x; cbn; rewrite lookup_empty; discriminate.
      * intros j r; cbn. rewrite lookup_empty. discriminate.
      * exact Ht.
      * intros j k x. unfold live; cbn. rewrite !lookup_empty. discriminate.
    + apply st_eq; cbn [aabs deltas cache base]; [| |reflexivity].
      * unfold abs_deltas; cbn. apply fmap_empty.
      * unfold abs_cache; cbn. apply map_imap_empty.
  - (* base get *) auto.
Qed.

(* allocation of a client object: invisible *)
Lemma anew_refines a v : INV a -> INV (fst (astep a (ANew v))) /\ aabs (fst (astep a (ANew v))) = aabs a.
Proof. intros HI. cbn. split; [apply alloc_INV, HI|apply alloc_abs, HI]. Qed.

(** * Schedule operations *)

Definition is_asched (a : ast) (o : aop) : bool :=
  match o with
  | AFastCommit None | ADropCache | ABatchPreload _ | ARetrieveIgnoringDeltas _ _ | ARetrieveIfLoaded _ => true
  | ANondetCommit order None => a_order_ok a order true
  | ARecreate => bool_decide (adeltas a = ∅)
  | _ => false
  end.

Lemma is_asched_vop a o :
  wf a -> is_asched a o = true -> exists so, vop a o = Some so /\ is_sched (aabs a) so = true /\ store_ok a o.
Proof.
  intros Hw H. destruct o as [i x|i|i|i|i c|[k|]|order [k|]| | |ids| |i|v|x v]; cbn in H; try discriminate;
    (eexists; split; [reflexivity|]; split; [|exact I]); cbn; try reflexivity.
  - rewrite <- a_order_ok_abs by exact Hw. exact H.
  - apply bool_decide_eq_true in H. apply bool_decide_eq_true. unfold abs_deltas. rewrite H. apply fmap_empty.
Qed.

Lemma a_apply_writes_frame ids fail a log :
  INV a -> Forall (fun i => is_temp i = false) ids ->
  frame a (fst (fst (a_apply_writes ids fail a log))).
Proof.
  intros HI Hall. pose proof (a_apply_writes_refines ids fail a log HI Hall) as H.
  destruct (a_apply_writes ids fail a log) as [[a' ok] l]. destruct H as (_ & _ & H3 & H4 & H5). cbn [fst].
  split; [split; [intros; rewrite H4; reflexivity|lia]|intros j x; rewrite H3; auto].
Qed.

Lemma a_batch_preload_frame ids : forall a, frame a (a_batch_preload a ids).
Proof.
  unfold a_batch_preload. induction ids as [|i r IH]; intros a; cbn [fold_left]; [apply frame_refl|].
  eapply frame_trans; [|apply IH]. unfold a_preload_one.
  destruct (abase a !! i) as [v|]; [apply (load_frame a i v)|apply frame_refl].
Qed.

Lemma asched_frame a o : INV a -> is_asched a o = true -> frame a (fst (astep a o)).
Proof.
  intros HI H. pose proof HI as [(Hw & Hc & Ht) Ho].
  destruct o as [i x|i|i|i|i c|[k|]|order [k|]| | |ids| |i|v|x v]; cbn in H; try discriminate; cbn [astep].
  - apply frame_refl.
  - rewrite a_rid_unfold. destruct (acache a !! i); [apply frame_refl|].
    destruct (abase a !! i); [|apply frame_refl]. destruct c; [apply load_frame|apply alloc_frame].
  - unfold a_fast_commit.
    pose proof (a_apply_writes_frame (a_sorted_owned_delta_keys a) None a [] HI) as H1.
    rewrite a_sorted_keys_abs in *. specialize (H1 (sorted_owned_keys_owned _)).
    destruct (a_apply_writes _ None a []) as [[a' ok] l]. exact H1.
  - unfold a_nondet_commit. rewrite H.
    assert (Hown : Forall (fun i => is_temp i = false) order).
    { rewrite a_order_ok_abs in H by exact Hw. eapply order_ok_owned, H. }
    pose proof (a_apply_writes_frame order None a [] HI Hown) as H1.
    destruct (a_apply_writes order None a []) as [[a' ok] l]. exact H1.
  - cbn [fst]. split; [split; [auto|cbn; lia]|].
    intros j x. unfold live; cbn. rewrite lookup_empty. destruct (adeltas a !! j); [auto|discriminate].
  - apply a_batch_preload_frame.
  - cbn [fst]. split; [split; [auto|cbn; lia]|].
    intros j x. unfold live; cbn. rewrite !lookup_empty. discriminate.
Qed.

(** * The disciplined mutation: mutate an object in place, then Store it under [i] *)

Definition mut_store (a : ast) (x : addr) (v : val) (i : sid) : ast :=
  upd_delta (a_mutate a x v) i (Some x).

Lemma mut_store_fields a x v i :
  is_Some (aheap a !! x) ->
  mut_store a x v i =
  mkast (<[x := v]> (aheap a)) (anext a) (<[i := Some x]> (adeltas a)) (acache a) (abase a).
Proof. intros [w Hx]. unfold mut_store, a_mutate. rewrite Hx. reflexivity. Qed.

Lemma is_Some_insert_heap (h : gmap addr val) x v y : is_Some (h !! y) -> is_Some (<[x := v]> h !! y).
Proof. intros H. destruct (decide (y = x)) as [->|Hne]; [rewrite lookup_insert; eauto|rewrite lookup_insert_ne by congruence; exact H]. Qed.

Lemma mut_store_refines a x v i :
  INV a -> is_Some (aheap a !! x) -> (forall j, live a j = Some (Some x) -> j = i) ->
  INV (mut_store a x v i) /\
  aabs (mut_store a x v i) = mkst (<[i := Some v]> (abs_deltas a)) (abs_cache a) (abase a).
Proof.
  intros HI Hx Hl. pose proof HI as [(Hw & Hc & Ht) Ho]. pose proof Hw as (H1 & H2 & H3).
  rewrite mut_store_fields by exact Hx.
  set (a' := mkast _ _ _ _ _).
  (* objects other than [x] keep their value *)
  assert (Hder : forall r, r <> Some x -> deref a' r = deref a r).
  { intros [y|] Hr; cbn; [|reflexivity]. rewrite lookup_insert_ne by congruence. reflexivity. }
  (* a cache entry that is not shadowed does not hold [x] unless it is [i]'s *)
  assert (Hcx : forall j, acache a !! j = Some (Some x) -> adeltas a !! j = None -> j = i).
  { intros j Hj Hd. apply Hl. unfold live. rewrite Hd. exact Hj. }
  assert (Hdx : forall j, adeltas a !! j = Some (Some x) -> j = i).
  { intros j Hd. apply Hl. unfold live. rewrite Hd. reflexivity. }
  split; [split; [split; [|split]|]|].
  - (* wf *)
    split; [|split]; cbn.
    + intros j y. destruct (decide (j = i)) as [->|Hji].
      * rewrite lookup_insert. intros [= <-]. rewrite lookup_insert. eauto.
      * rewrite lookup_insert_ne by congruence. intros Hj. apply is_Some_insert_heap. eauto.
    + intros j y Hj. apply is_Some_insert_heap. eauto.
    + intros y. destruct (decide (y = x)) as [->|Hne]; [intros _; apply H3, Hx|].
      rewrite lookup_insert_ne by congruence. apply H3.
  - (* clean *)
    intros j r; cbn [a' acache adeltas abase]. intros Hj Hd.
    destruct (decide (j = i)) as [->|Hji]; [rewrite lookup_insert in Hd; discriminate|].
    rewrite lookup_insert_ne in Hd by congruence.
    rewrite Hder; [apply (Hc _ _ Hj Hd)|]. intros ->. apply Hji. apply (Hcx _ Hj Hd).
  - exact Ht.
  - (* own *)
    intros j k y. unfold live; cbn [a' acache adeltas].
    destruct (decide (j = i)) as [->|Hji], (decide (k = i)) as [->|Hki]; try (intros; congruence).
    + rewrite lookup_insert, lookup_insert_ne by congruence. intros [= <-] Hk. symmetry. apply Hl, Hk.
    + rewrite lookup_insert, lookup_insert_ne by congruence. intros Hj [= <-]. apply Hl, Hj.
    + rewrite !lookup_insert_ne by congruence. apply Ho.
  - (* abstraction *)
    apply st_eq; cbn [aabs deltas cache base]; [| |reflexivity].
    + apply map_eq. intros j. rewrite abs_deltas_lookup. cbn [a' adeltas].
      destruct (decide (j = i)) as [->|Hji].
      * rewrite !lookup_insert. cbn. rewrite lookup_insert. reflexivity.
      * rewrite !lookup_insert_ne by congruence. rewrite abs_deltas_lookup.
        destruct (adeltas a !! j) as [r|] eqn:Hd; cbn; [|reflexivity]. f_equal.
        apply Hder. intros ->. apply Hji, Hdx, Hd.
    + apply map_eq. intros j. rewrite !abs_cache_lookup. cbn [a' acache adeltas abase].
      destruct (acache a !! j) as [r|] eqn:Hj; [|reflexivity]. f_equal.
      destruct (decide (j = i)) as [->|Hji].
      * rewrite lookup_insert. destruct (adeltas a !! i) eqn:Hd; [reflexivity|]. symmetry. apply (Hc _ _ Hj Hd).
      * rewrite lookup_insert_ne by congruence. destruct (adeltas a !! j) eqn:Hd; [reflexivity|].
        apply Hder. intros ->. apply Hji. apply (Hcx _ Hj Hd).
Qed.

Lemma mut_store_live a x v i j :
  is_Some (aheap a !! x) -> live (mut_store a x v i) j = if decide (j = i) then Some (Some x) else live a j.
Proof.
  intros Hx. rewrite mut_store_fields by exact Hx. unfold live; cbn.
  destruct (decide (j = i)) as [->|Hji]; [rewrite lookup_insert|rewrite lookup_insert_ne by congruence]; reflexivity.
Qed.

