(* DecodeSafe_proofs.v — C19: no Go panic is reachable in the transcribed decoders; allocation is bounded by
   the input length (fixed-offset part) / by the size of the validated CBOR item (CBOR-driven part). *)
From Coq Require Import NArith ZArith List Bool Lia ZifyBool ZifyN ZifyNat.
From AtreeGen Require Import Consts.
From AtreeModel Require Import DecodeSafe.
Import ListNotations.
Local Open Scope N_scope.
Ltac Zify.zify_post_hook ::= Z.div_mod_to_equations.

(* ------------------------------------------------------------------------------------------ *)
(* the computation type                                                                        *)
(* ------------------------------------------------------------------------------------------ *)

Definition np {A} (m : M A) : Prop := out m <> Panic.

Lemma np_ret {A} (a : A) : np (ret a).
Proof. unfold np; cbn; discriminate. Qed.
Lemma np_err {A} : np (@err A).
Proof. unfold np; cbn; discriminate. Qed.
Lemma np_make n : np (make_units n).
Proof. unfold np; cbn; discriminate. Qed.
Lemma np_lift_opt {A} (o : option A) : np (lift_opt o).
Proof. destruct o; [apply np_ret | apply np_err]. Qed.

Lemma np_bind {A B} (m : M A) (f : A -> M B) :
  np m -> (forall a, out m = Val a -> np (f a)) -> np (bind m f).
Proof.
  unfold np, bind. intros Hm Hf. destruct (out m) eqn:E; cbn; try discriminate; try congruence.
  apply Hf; reflexivity.
Qed.

Lemma bind_ret_l {A B} (a : A) (f : A -> M B) : bind (ret a) f = f a.
Proof. unfold bind, ret; cbn. destruct (f a); reflexivity. Qed.

Lemma units_bind {A B} (m : M A) (f : A -> M B) :
  units (bind m f) = units m + match out m with Val a => units (f a) | _ => 0 end.
Proof. unfold bind. destruct (out m); cbn; lia. Qed.

Lemma units_bind_le {A B} (m : M A) (f : A -> M B) (b : N) :
  units m = 0 -> (forall a, out m = Val a -> units (f a) <= b) -> units (bind m f) <= b.
Proof.
  intros H0 Hf. rewrite units_bind, H0. destruct (out m) eqn:E; try lia.
  specialize (Hf a eq_refl). lia.
Qed.

Lemma units_bind0 {A B} (m : M A) (f : A -> M B) :
  units m = 0 -> (forall a, units (f a) = 0) -> units (bind m f) = 0.
Proof. intros H0 Hf. rewrite units_bind, H0. destruct (out m); try reflexivity. rewrite Hf; reflexivity. Qed.

Lemma units_make_bind {B} n (f : unit -> M B) : units (bind (make_units n) f) = n + units (f tt).
Proof. rewrite units_bind; reflexivity. Qed.

Lemma Val_pair_inj {A B} (a c : A) (b d : B) : @Val (A * B) (a, b) = Val (c, d) -> a = c /\ b = d.
Proof. intros H; inversion H; auto. Qed.
Lemma Val_inj {A} (a c : A) : Val a = Val c -> a = c.
Proof. intros H; inversion H; auto. Qed.

Lemma out_bind_val {A B} (m : M A) (f : A -> M B) (b : B) :
  out (bind m f) = Val b -> exists a, out m = Val a /\ out (f a) = Val b.
Proof. unfold bind. destruct (out m) eqn:E; cbn; try discriminate. intros H; eauto. Qed.

(* ------------------------------------------------------------------------------------------ *)
(* primitives                                                                                  *)
(* ------------------------------------------------------------------------------------------ *)

Lemma lenN_skipn {A} (d : list A) (a : N) : lenN (skipn (N.to_nat a) d) = lenN d - a.
Proof. unfold lenN. rewrite skipn_length. lia. Qed.

Lemma lenN_firstn {A} (d : list A) (a : N) : a <= lenN d -> lenN (firstn (N.to_nat a) d) = a.
Proof. unfold lenN. intros H. rewrite firstn_length. lia. Qed.

Lemma slice_from_ok d a : a <= lenN d -> slice_from d a = ret (skipn (N.to_nat a) d).
Proof. unfold slice_from. intros H. destruct (N.leb_spec a (lenN d)); [reflexivity | lia]. Qed.

Lemma slice_from_val d a s : out (slice_from d a) = Val s -> s = skipn (N.to_nat a) d /\ a <= lenN d.
Proof.
  unfold slice_from. destruct (N.leb_spec a (lenN d)); cbn; [|discriminate].
  intros E; inversion E; auto.
Qed.

Lemma slice_to_ok d b : b <= lenN d -> slice_to d b = ret (firstn (N.to_nat b) d).
Proof. unfold slice_to. intros H. destruct (N.leb_spec b (lenN d)); [reflexivity | lia]. Qed.

Lemma be_uint_ok k d : k <= lenN d -> be_uint k d = ret (be_val (firstn (N.to_nat k) d)).
Proof. unfold be_uint. intros H. destruct (N.leb_spec k (lenN d)); [reflexivity | lia]. Qed.

Lemma units_slice_from d a : units (slice_from d a) = 0.
Proof. unfold slice_from. destruct (a <=? lenN d); reflexivity. Qed.
Lemma units_slice_to d a : units (slice_to d a) = 0.
Proof. unfold slice_to. destruct (a <=? lenN d); reflexivity. Qed.
Lemma units_be_uint k d : units (be_uint k d) = 0.
Proof. unfold be_uint. destruct (k <=? lenN d); reflexivity. Qed.
Lemma units_index {A} (d : list A) i : units (index d i) = 0.
Proof. unfold index. destruct (nth_error d (N.to_nat i)); reflexivity. Qed.
Lemma units_lift_opt {A} (o : option A) : units (lift_opt o) = 0.
Proof. destruct o; reflexivity. Qed.

Lemma index_ok {A} (d : list A) i : i < lenN d -> exists x, index d i = ret x.
Proof.
  unfold index, lenN. intros H. destruct (nth_error d (N.to_nat i)) eqn:E; eauto.
  apply nth_error_None in E. lia.
Qed.

Lemma np_index {A} (d : list A) i : i < lenN d -> np (index d i).
Proof. intros H. destruct (index_ok d i H) as [x ->]. apply np_ret. Qed.

(* newHeadFromData never panics: the two index operations are guarded by the length check *)
Lemma np_newHeadFromData d : np (newHeadFromData d).
Proof.
  unfold newHeadFromData. destruct (N.eqb_spec (lenN d) 2); cbn [negb]; [|apply np_err].
  apply np_bind; [apply np_index; lia|]. intros b0 _.
  apply np_bind; [apply np_index; lia|]. intros b1 _. apply np_ret.
Qed.

Lemma units_newHeadFromData d : units (newHeadFromData d) = 0.
Proof.
  unfold newHeadFromData. destruct (negb (lenN d =? 2)); [reflexivity|].
  apply units_bind0; [apply units_index|]. intros. apply units_bind0; [apply units_index|]. reflexivity.
Qed.

Lemma np_newSlabIDFromRawBytes b : np (newSlabIDFromRawBytes b).
Proof.
  unfold newSlabIDFromRawBytes. destruct (N.ltb_spec (lenN b) c_slabIDLength); [apply np_err|].
  unfold c_slabIDLength, c_slabAddressLength in *.
  rewrite slice_from_ok by lia. rewrite bind_ret_l. apply np_ret.
Qed.

Lemma units_newSlabIDFromRawBytes b : units (newSlabIDFromRawBytes b) = 0.
Proof.
  unfold newSlabIDFromRawBytes. destruct (lenN b <? c_slabIDLength); [reflexivity|].
  apply units_bind0; [apply units_slice_from|]. reflexivity.
Qed.

(* ------------------------------------------------------------------------------------------ *)
(* header queries                                                                              *)
(* ------------------------------------------------------------------------------------------ *)

Lemma np_header_query f d : np (header_query f d).
Proof.
  unfold header_query. destruct (N.ltb_spec (lenN d) c_versionAndFlagSize); [apply np_err|].
  rewrite slice_to_ok by assumption. rewrite bind_ret_l.
  apply np_bind; [apply np_newHeadFromData|]. intros; apply np_ret.
Qed.

Lemma header_queries_no_panic : forall data,
  is_root_go data <> Panic /\ has_pointers_go data <> Panic /\ has_size_limit_go data <> Panic.
Proof. intros data. repeat split; apply np_header_query. Qed.

(* the queries answer exactly: error iff fewer than 2 bytes, else the flag bit of the second byte *)
Lemma header_query_spec f d :
  out (header_query f d) =
  match d with
  | b0 :: b1 :: _ => Val (f (b0, b1))
  | _ => Error
  end.
Proof.
  unfold header_query, c_versionAndFlagSize.
  destruct d as [|b0 [|b1 r]]; try reflexivity.
  destruct (N.ltb_spec (lenN (b0 :: b1 :: r)) 2) as [H|H]; [unfold lenN in H; cbn [length] in H; lia|].
  rewrite slice_to_ok by assumption. rewrite bind_ret_l. reflexivity.
Qed.

(* ------------------------------------------------------------------------------------------ *)
(* metadata slabs                                                                              *)
(* ------------------------------------------------------------------------------------------ *)

Section FixedProofs.
  Variable array_extra_len : bytes -> option N.
  Variable map_extra_len : bytes -> option N.
  Variable inlined_extra_len : bytes -> option N.
  (* the modelled assumption about fxamacker/cbor: StreamDecoder.NumBytesDecoded() <= len(data) *)
  Hypothesis array_extra_le : forall d n, array_extra_len d = Some n -> n <= lenN d.
  Hypothesis map_extra_le : forall d n, map_extra_len d = Some n -> n <= lenN d.
  Hypothesis inlined_extra_le : forall d n, inlined_extra_len d = Some n -> n <= lenN d.

  Lemma np_after_extra (el : bytes -> option N) d :
    (forall d n, el d = Some n -> n <= lenN d) -> np (after_extra el d).
  Proof.
    intros Hle. unfold after_extra. destruct (el d) eqn:E; cbn [lift_opt]; [|apply np_err].
    rewrite bind_ret_l. rewrite slice_from_ok by eauto. apply np_ret.
  Qed.

  Lemma after_extra_val (el : bytes -> option N) d r :
    (forall d n, el d = Some n -> n <= lenN d) ->
    out (after_extra el d) = Val r -> lenN r <= lenN d.
  Proof.
    intros Hle. unfold after_extra. destruct (el d) eqn:E; cbn [lift_opt]; [|cbn; discriminate].
    rewrite bind_ret_l. intros H. apply slice_from_val in H as [-> _]. rewrite lenN_skipn. lia.
  Qed.

  Lemma units_after_extra el d : units (after_extra el d) = 0.
  Proof. unfold after_extra. apply units_bind0; [apply units_lift_opt|]. intros; apply units_slice_from. Qed.

  (* "extra data, then skip the second head" prologue of the version-0 root slabs *)
  Definition v0_prologue (el : bytes -> option N) (root : bool) (data : bytes) : M bytes :=
    if root then
      data <- after_extra el data ;;
      if lenN data <? c_versionAndFlagSize then err else slice_from data c_versionAndFlagSize
    else ret data.

  Lemma np_v0_prologue el root d :
    (forall d n, el d = Some n -> n <= lenN d) -> np (v0_prologue el root d).
  Proof.
    intros Hle. unfold v0_prologue. destruct root; [|apply np_ret].
    apply np_bind; [apply np_after_extra; assumption|]. intros d' _.
    destruct (N.ltb_spec (lenN d') c_versionAndFlagSize); [apply np_err|].
    rewrite slice_from_ok by assumption. apply np_ret.
  Qed.

  Lemma v0_prologue_val el root d r :
    (forall d n, el d = Some n -> n <= lenN d) ->
    out (v0_prologue el root d) = Val r -> lenN r <= lenN d.
  Proof.
    intros Hle. unfold v0_prologue. destruct root; [|cbn; intros E; inversion E; lia].
    intros H. apply out_bind_val in H as (d' & Hd' & H).
    apply after_extra_val in Hd'; [|assumption].
    destruct (lenN d' <? c_versionAndFlagSize); [cbn in H; discriminate|].
    apply slice_from_val in H as [-> _]. rewrite lenN_skipn. lia.
  Qed.

  Lemma units_v0_prologue el root d : units (v0_prologue el root d) = 0.
  Proof.
    unfold v0_prologue. destruct root; [|reflexivity].
    apply units_bind0; [apply units_after_extra|]. intros d'.
    destruct (lenN d' <? c_versionAndFlagSize); [reflexivity | apply units_slice_from].
  Qed.

  Definition v1_prologue (el : bytes -> option N) (root : bool) (data : bytes) : M bytes :=
    if root then after_extra el data else ret data.

  Lemma np_v1_prologue el root d :
    (forall d n, el d = Some n -> n <= lenN d) -> np (v1_prologue el root d).
  Proof. intros Hle. unfold v1_prologue. destruct root; [apply np_after_extra; assumption | apply np_ret]. Qed.

  Lemma v1_prologue_val el root d r :
    (forall d n, el d = Some n -> n <= lenN d) ->
    out (v1_prologue el root d) = Val r -> lenN r <= lenN d.
  Proof.
    intros Hle. unfold v1_prologue. destruct root; [apply after_extra_val; assumption|].
    cbn; intros E; inversion E; lia.
  Qed.

  Lemma units_v1_prologue el root d : units (v1_prologue el root d) = 0.
  Proof. unfold v1_prologue. destruct root; [apply units_after_extra | reflexivity]. Qed.

  (* ---- child header loops: the length check established before the loop makes every read in range ---- *)

  Lemma np_array_headers_v0 n : forall data offset total,
    offset + 24 * N.of_nat n <= lenN data -> np (array_headers_v0 n data offset total).
  Proof.
    induction n as [|n IH]; intros data offset total H; cbn [array_headers_v0]; [apply np_ret|].
    unfold c_slabIDLength.
    rewrite slice_from_ok by lia. rewrite bind_ret_l.
    apply np_bind; [apply np_newSlabIDFromRawBytes|]. intros sid _.
    rewrite slice_from_ok by lia. rewrite bind_ret_l.
    unfold be32. rewrite be_uint_ok by (rewrite lenN_skipn; lia). rewrite bind_ret_l.
    rewrite slice_from_ok by lia. rewrite bind_ret_l.
    rewrite be_uint_ok by (rewrite lenN_skipn; lia). rewrite bind_ret_l.
    destruct (safeAdd2Uint32 _ _); [|apply np_err].
    apply np_bind; [apply IH; lia|]. intros; apply np_ret.
  Qed.

  Lemma units_array_headers_v0 n : forall data offset total, units (array_headers_v0 n data offset total) = 0.
  Proof.
    induction n as [|n IH]; intros; cbn [array_headers_v0]; [reflexivity|].
    apply units_bind0; [apply units_slice_from|]. intros.
    apply units_bind0; [apply units_newSlabIDFromRawBytes|]. intros.
    apply units_bind0; [apply units_slice_from|]. intros.
    apply units_bind0; [apply units_be_uint|]. intros.
    apply units_bind0; [apply units_slice_from|]. intros.
    apply units_bind0; [apply units_be_uint|]. intros.
    destruct (safeAdd2Uint32 _ _); [|reflexivity].
    apply units_bind0; [apply IH|]. reflexivity.
  Qed.

  Lemma np_array_headers_v1 n : forall address data offset total,
    offset + 14 * N.of_nat n <= lenN data -> np (array_headers_v1 n address data offset total).
  Proof.
    induction n as [|n IH]; intros address data offset total H; cbn [array_headers_v1]; [apply np_ret|].
    unfold c_slabIndexLength.
    rewrite slice_from_ok by lia. rewrite bind_ret_l.
    rewrite slice_from_ok by lia. rewrite bind_ret_l.
    unfold be32. rewrite be_uint_ok by (rewrite lenN_skipn; lia). rewrite bind_ret_l.
    rewrite slice_from_ok by lia. rewrite bind_ret_l.
    unfold be16. rewrite be_uint_ok by (rewrite lenN_skipn; lia). rewrite bind_ret_l.
    destruct (safeAdd2Uint32 _ _); [|apply np_err].
    apply np_bind; [apply IH; lia|]. intros; apply np_ret.
  Qed.

  Lemma units_array_headers_v1 n : forall address data offset total,
    units (array_headers_v1 n address data offset total) = 0.
  Proof.
    induction n as [|n IH]; intros; cbn [array_headers_v1]; [reflexivity|].
    apply units_bind0; [apply units_slice_from|]. intros.
    apply units_bind0; [apply units_slice_from|]. intros.
    apply units_bind0; [apply units_be_uint|]. intros.
    apply units_bind0; [apply units_slice_from|]. intros.
    apply units_bind0; [apply units_be_uint|]. intros.
    destruct (safeAdd2Uint32 _ _); [|reflexivity].
    apply units_bind0; [apply IH|]. reflexivity.
  Qed.

  Lemma np_map_headers_v0 n : forall data offset,
    offset + 28 * N.of_nat n <= lenN data -> np (map_headers_v0 n data offset).
  Proof.
    induction n as [|n IH]; intros data offset H; cbn [map_headers_v0]; [apply np_ret|].
    unfold c_slabIDLength, c_digestSize.
    rewrite slice_from_ok by lia. rewrite bind_ret_l.
    apply np_bind; [apply np_newSlabIDFromRawBytes|]. intros sid _.
    rewrite slice_from_ok by lia. rewrite bind_ret_l.
    unfold be64. rewrite be_uint_ok by (rewrite lenN_skipn; lia). rewrite bind_ret_l.
    rewrite slice_from_ok by lia. rewrite bind_ret_l.
    unfold be32. rewrite be_uint_ok by (rewrite lenN_skipn; lia). rewrite bind_ret_l.
    apply np_bind; [apply IH; lia|]. intros; apply np_ret.
  Qed.

  Lemma units_map_headers_v0 n : forall data offset, units (map_headers_v0 n data offset) = 0.
  Proof.
    induction n as [|n IH]; intros; cbn [map_headers_v0]; [reflexivity|].
    apply units_bind0; [apply units_slice_from|]. intros.
    apply units_bind0; [apply units_newSlabIDFromRawBytes|]. intros.
    apply units_bind0; [apply units_slice_from|]. intros.
    apply units_bind0; [apply units_be_uint|]. intros.
    apply units_bind0; [apply units_slice_from|]. intros.
    apply units_bind0; [apply units_be_uint|]. intros.
    apply units_bind0; [apply IH|]. reflexivity.
  Qed.

  Lemma np_map_headers_v1 n : forall address data offset,
    offset + 18 * N.of_nat n <= lenN data -> np (map_headers_v1 n address data offset).
  Proof.
    induction n as [|n IH]; intros address data offset H; cbn [map_headers_v1]; [apply np_ret|].
    unfold c_slabIndexLength, c_digestSize.
    rewrite slice_from_ok by lia. rewrite bind_ret_l.
    rewrite slice_from_ok by lia. rewrite bind_ret_l.
    unfold be64. rewrite be_uint_ok by (rewrite lenN_skipn; lia). rewrite bind_ret_l.
    rewrite slice_from_ok by lia. rewrite bind_ret_l.
    unfold be16. rewrite be_uint_ok by (rewrite lenN_skipn; lia). rewrite bind_ret_l.
    apply np_bind; [apply IH; lia|]. intros; apply np_ret.
  Qed.

  Lemma units_map_headers_v1 n : forall address data offset, units (map_headers_v1 n address data offset) = 0.
  Proof.
    induction n as [|n IH]; intros; cbn [map_headers_v1]; [reflexivity|].
    apply units_bind0; [apply units_slice_from|]. intros.
    apply units_bind0; [apply units_slice_from|]. intros.
    apply units_bind0; [apply units_be_uint|]. intros.
    apply units_bind0; [apply units_slice_from|]. intros.
    apply units_bind0; [apply units_be_uint|]. intros.
    apply units_bind0; [apply IH|]. reflexivity.
  Qed.

  (* ---- array metadata slab, version 0 ---- *)

  Lemma array_meta_v0_safe id h data :
    np (newArrayMetaDataSlabFromDataV0 array_extra_len id h data) /\
    units (newArrayMetaDataSlabFromDataV0 array_extra_len id h data) <= lenN data.
  Proof.
    unfold newArrayMetaDataSlabFromDataV0.
    change (if h_isRoot h then _ else ret data) with (v0_prologue array_extra_len (h_isRoot h) data).
    split.
    - apply np_bind; [apply np_v0_prologue; exact array_extra_le|]. intros d1 _.
      destruct (N.ltb_spec (lenN d1) 2); [apply np_err|].
      unfold be16. rewrite be_uint_ok by assumption. rewrite bind_ret_l.
      rewrite slice_from_ok by assumption. rewrite bind_ret_l.
      set (cnt := be_val _).
      destruct (N.eqb_spec (lenN (skipn (N.to_nat 2) d1)) ((c_slabIDLength + 4 + 4) * cnt)) as [E|E];
        cbn [negb]; [|apply np_err].
      apply np_bind; [apply np_make|]. intros _ _.
      apply np_bind; [apply np_make|]. intros _ _.
      apply np_bind; [|intros; apply np_ret].
      apply np_array_headers_v0. unfold c_slabIDLength in E. lia.
    - apply units_bind_le; [apply units_v0_prologue|]. intros d1 Hd1.
      apply v0_prologue_val in Hd1; [|exact array_extra_le].
      destruct (N.ltb_spec (lenN d1) 2); [cbn; lia|].
      unfold be16. rewrite be_uint_ok by assumption. rewrite bind_ret_l.
      rewrite slice_from_ok by assumption. rewrite bind_ret_l.
      set (cnt := be_val _).
      destruct (N.eqb_spec (lenN (skipn (N.to_nat 2) d1)) ((c_slabIDLength + 4 + 4) * cnt)) as [E|E];
        cbn [negb]; [|cbn; lia].
      rewrite !units_make_bind. rewrite units_bind, units_array_headers_v0.
      rewrite lenN_skipn in E. unfold c_slabIDLength in E.
      destruct (out _); cbn [units ret]; lia.
  Qed.

  (* ---- array metadata slab, version 1 ---- *)

  Lemma array_meta_v1_safe id h data :
    np (newArrayMetaDataSlabFromDataV1 array_extra_len id h data) /\
    units (newArrayMetaDataSlabFromDataV1 array_extra_len id h data) <= lenN data.
  Proof.
    unfold newArrayMetaDataSlabFromDataV1.
    change (if h_isRoot h then _ else ret data) with (v1_prologue array_extra_len (h_isRoot h) data).
    unfold c_arrayMetaDataSlabPrefixSize, c_versionAndFlagSize, c_slabAddressLength, c_arraySlabHeaderSize.
    split.
    - apply np_bind; [apply np_v1_prologue; exact array_extra_le|]. intros d1 _.
      destruct (N.ltb_spec (lenN d1) (12 - 2)); [apply np_err|].
      rewrite slice_from_ok by lia. rewrite bind_ret_l.
      rewrite slice_from_ok by lia. rewrite bind_ret_l.
      unfold be16. rewrite be_uint_ok by (rewrite lenN_skipn; lia). rewrite bind_ret_l.
      set (cnt := be_val _).
      rewrite slice_from_ok by lia. rewrite bind_ret_l.
      destruct (N.eqb_spec (lenN (skipn (N.to_nat (0 + 8 + 2)) d1)) (14 * cnt)) as [E|E];
        cbn [negb]; [|apply np_err].
      apply np_bind; [apply np_make|]. intros _ _.
      apply np_bind; [apply np_make|]. intros _ _.
      apply np_bind; [|intros; apply np_ret].
      apply np_array_headers_v1. rewrite lenN_skipn in E. lia.
    - apply units_bind_le; [apply units_v1_prologue|]. intros d1 Hd1.
      apply v1_prologue_val in Hd1; [|exact array_extra_le].
      destruct (N.ltb_spec (lenN d1) (12 - 2)); [cbn; lia|].
      rewrite slice_from_ok by lia. rewrite bind_ret_l.
      rewrite slice_from_ok by lia. rewrite bind_ret_l.
      unfold be16. rewrite be_uint_ok by (rewrite lenN_skipn; lia). rewrite bind_ret_l.
      set (cnt := be_val _).
      rewrite slice_from_ok by lia. rewrite bind_ret_l.
      destruct (N.eqb_spec (lenN (skipn (N.to_nat (0 + 8 + 2)) d1)) (14 * cnt)) as [E|E];
        cbn [negb]; [|cbn; lia].
      rewrite !units_make_bind. rewrite units_bind, units_array_headers_v1.
      rewrite lenN_skipn in E.
      destruct (out _); cbn [units ret]; lia.
  Qed.

  Lemma array_meta_safe id data :
    np (newArrayMetaDataSlabFromData array_extra_len id data) /\
    units (newArrayMetaDataSlabFromData array_extra_len id data) <= lenN data.
  Proof.
    unfold newArrayMetaDataSlabFromData.
    destruct (N.ltb_spec (lenN data) c_versionAndFlagSize); [split; [apply np_err | cbn; lia]|].
    rewrite slice_to_ok by assumption. rewrite bind_ret_l.
    split.
    - apply np_bind; [apply np_newHeadFromData|]. intros h _.
      destruct (getSlabArrayType h); try apply np_err.
      rewrite slice_from_ok by assumption. rewrite bind_ret_l.
      destruct (h_version h =? 0); [apply array_meta_v0_safe|].
      destruct (h_version h =? 1); [apply array_meta_v1_safe | apply np_err].
    - apply units_bind_le; [apply units_newHeadFromData|]. intros h _.
      destruct (getSlabArrayType h); try (cbn; lia).
      rewrite slice_from_ok by assumption. rewrite bind_ret_l.
      assert (Hl : lenN (skipn (N.to_nat c_versionAndFlagSize) data) <= lenN data) by (rewrite lenN_skipn; lia).
      destruct (h_version h =? 0).
      { etransitivity; [apply array_meta_v0_safe | exact Hl]. }
      destruct (h_version h =? 1); [|cbn; lia].
      etransitivity; [apply array_meta_v1_safe | exact Hl].
  Qed.

  (* ---- map metadata slab ---- *)

  Lemma map_meta_v0_safe id h data :
    np (newMapMetaDataSlabFromDataV0 map_extra_len id h data) /\
    units (newMapMetaDataSlabFromDataV0 map_extra_len id h data) <= lenN data.
  Proof.
    unfold newMapMetaDataSlabFromDataV0.
    change (if h_isRoot h then _ else ret data) with (v0_prologue map_extra_len (h_isRoot h) data).
    split.
    - apply np_bind; [apply np_v0_prologue; exact map_extra_le|]. intros d1 _.
      destruct (N.ltb_spec (lenN d1) 2); [apply np_err|].
      unfold be16. rewrite be_uint_ok by assumption. rewrite bind_ret_l.
      rewrite slice_from_ok by assumption. rewrite bind_ret_l.
      set (cnt := be_val _).
      destruct (N.eqb_spec (lenN (skipn (N.to_nat 2) d1)) ((c_slabIDLength + 4 + c_digestSize) * cnt)) as [E|E];
        cbn [negb]; [|apply np_err].
      apply np_bind; [apply np_make|]. intros _ _.
      apply np_bind; [|intros; apply np_ret].
      apply np_map_headers_v0. unfold c_slabIDLength, c_digestSize in E. lia.
    - apply units_bind_le; [apply units_v0_prologue|]. intros d1 Hd1.
      apply v0_prologue_val in Hd1; [|exact map_extra_le].
      destruct (N.ltb_spec (lenN d1) 2); [cbn; lia|].
      unfold be16. rewrite be_uint_ok by assumption. rewrite bind_ret_l.
      rewrite slice_from_ok by assumption. rewrite bind_ret_l.
      set (cnt := be_val _).
      destruct (N.eqb_spec (lenN (skipn (N.to_nat 2) d1)) ((c_slabIDLength + 4 + c_digestSize) * cnt)) as [E|E];
        cbn [negb]; [|cbn; lia].
      rewrite !units_make_bind. rewrite units_bind, units_map_headers_v0.
      rewrite lenN_skipn in E. unfold c_slabIDLength, c_digestSize in E.
      destruct (out _); cbn [units ret]; lia.
  Qed.

  Lemma map_meta_v1_safe id h data :
    np (newMapMetaDataSlabFromDataV1 map_extra_len id h data) /\
    units (newMapMetaDataSlabFromDataV1 map_extra_len id h data) <= lenN data.
  Proof.
    unfold newMapMetaDataSlabFromDataV1.
    change (if h_isRoot h then _ else ret data) with (v1_prologue map_extra_len (h_isRoot h) data).
    unfold c_mapMetaDataSlabPrefixSize, c_versionAndFlagSize, c_slabAddressLength, c_mapSlabHeaderSize.
    split.
    - apply np_bind; [apply np_v1_prologue; exact map_extra_le|]. intros d1 _.
      destruct (N.ltb_spec (lenN d1) (12 - 2)); [apply np_err|].
      rewrite slice_from_ok by lia. rewrite bind_ret_l.
      rewrite slice_from_ok by lia. rewrite bind_ret_l.
      unfold be16. rewrite be_uint_ok by (rewrite lenN_skipn; lia). rewrite bind_ret_l.
      set (cnt := be_val _).
      rewrite slice_from_ok by lia. rewrite bind_ret_l.
      destruct (N.eqb_spec (lenN (skipn (N.to_nat (0 + 8 + 2)) d1)) (18 * cnt)) as [E|E];
        cbn [negb]; [|apply np_err].
      apply np_bind; [apply np_make|]. intros _ _.
      apply np_bind; [|intros; apply np_ret].
      apply np_map_headers_v1. rewrite lenN_skipn in E. lia.
    - apply units_bind_le; [apply units_v1_prologue|]. intros d1 Hd1.
      apply v1_prologue_val in Hd1; [|exact map_extra_le].
      destruct (N.ltb_spec (lenN d1) (12 - 2)); [cbn; lia|].
      rewrite slice_from_ok by lia. rewrite bind_ret_l.
      rewrite slice_from_ok by lia. rewrite bind_ret_l.
      unfold be16. rewrite be_uint_ok by (rewrite lenN_skipn; lia). rewrite bind_ret_l.
      set (cnt := be_val _).
      rewrite slice_from_ok by lia. rewrite bind_ret_l.
      destruct (N.eqb_spec (lenN (skipn (N.to_nat (0 + 8 + 2)) d1)) (18 * cnt)) as [E|E];
        cbn [negb]; [|cbn; lia].
      rewrite !units_make_bind. rewrite units_bind, units_map_headers_v1.
      rewrite lenN_skipn in E.
      destruct (out _); cbn [units ret]; lia.
  Qed.

  Lemma map_meta_safe id data :
    np (newMapMetaDataSlabFromData map_extra_len id data) /\
    units (newMapMetaDataSlabFromData map_extra_len id data) <= lenN data.
  Proof.
    unfold newMapMetaDataSlabFromData.
    destruct (N.ltb_spec (lenN data) c_versionAndFlagSize); [split; [apply np_err | cbn; lia]|].
    rewrite slice_to_ok by assumption. rewrite bind_ret_l.
    split.
    - apply np_bind; [apply np_newHeadFromData|]. intros h _.
      destruct (getSlabMapType h); try apply np_err.
      rewrite slice_from_ok by assumption. rewrite bind_ret_l.
      destruct (h_version h =? 0); [apply map_meta_v0_safe|].
      destruct (h_version h =? 1); [apply map_meta_v1_safe | apply np_err].
    - apply units_bind_le; [apply units_newHeadFromData|]. intros h _.
      destruct (getSlabMapType h); try (cbn; lia).
      rewrite slice_from_ok by assumption. rewrite bind_ret_l.
      assert (Hl : lenN (skipn (N.to_nat c_versionAndFlagSize) data) <= lenN data) by (rewrite lenN_skipn; lia).
      destruct (h_version h =? 0).
      { etransitivity; [apply map_meta_v0_safe | exact Hl]. }
      destruct (h_version h =? 1); [|cbn; lia].
      etransitivity; [apply map_meta_v1_safe | exact Hl].
  Qed.

  (* ---- data slab prefixes ---- *)

  (* "next slab id" step guarded by an explicit length check (v0 array/map, v1 map) *)
  Definition next_checked (data : bytes) : M (SlabID * bytes) :=
    if lenN data <? c_slabIDLength then err else
    next <- newSlabIDFromRawBytes data ;;
    data <- slice_from data c_slabIDLength ;;
    ret (next, data).

  (* v1 array: no explicit check, NewSlabIDFromRawBytes' own length check comes first *)
  Definition next_unchecked (data : bytes) : M (SlabID * bytes) :=
    next <- newSlabIDFromRawBytes data ;;
    data <- slice_from data c_slabIDLength ;;
    ret (next, data).

  Lemma np_next_checked d : np (next_checked d) /\ units (next_checked d) = 0.
  Proof.
    unfold next_checked. destruct (N.ltb_spec (lenN d) c_slabIDLength); [split; [apply np_err | reflexivity]|].
    split.
    - apply np_bind; [apply np_newSlabIDFromRawBytes|]. intros.
      rewrite slice_from_ok by assumption. rewrite bind_ret_l. apply np_ret.
    - apply units_bind0; [apply units_newSlabIDFromRawBytes|]. intros.
      apply units_bind0; [apply units_slice_from|]. reflexivity.
  Qed.

  Lemma np_next_unchecked d : np (next_unchecked d) /\ units (next_unchecked d) = 0.
  Proof.
    unfold next_unchecked. split.
    - apply np_bind; [apply np_newSlabIDFromRawBytes|]. intros sid H.
      (* success of NewSlabIDFromRawBytes means len(data) >= 16 *)
      assert (c_slabIDLength <= lenN d).
      { unfold newSlabIDFromRawBytes in H. destruct (N.ltb_spec (lenN d) c_slabIDLength); [cbn in H; discriminate | assumption]. }
      rewrite slice_from_ok by assumption. rewrite bind_ret_l. apply np_ret.
    - apply units_bind0; [apply units_newSlabIDFromRawBytes|]. intros.
      apply units_bind0; [apply units_slice_from|]. reflexivity.
  Qed.

  Definition inl_step (h : head) (data : bytes) : M (option bytes * bytes) :=
    if h_hasInlinedSlabs h then
      n <- lift_opt (inlined_extra_len data) ;;
      rest <- slice_from data n ;;
      ret (Some data, rest)
    else ret (None, data).

  Lemma np_inl_step h d : np (inl_step h d) /\ units (inl_step h d) = 0.
  Proof.
    unfold inl_step. destruct (h_hasInlinedSlabs h); [|split; [apply np_ret | reflexivity]].
    destruct (inlined_extra_len d) eqn:E; cbn [lift_opt]; [|split; [apply np_err | reflexivity]].
    rewrite bind_ret_l. rewrite slice_from_ok by eauto. rewrite bind_ret_l. split; [apply np_ret | reflexivity].
  Qed.

  Ltac prefix_tac :=
    repeat first
      [ apply np_ret | apply np_err
      | match goal with
        | |- np (bind _ _) => apply np_bind; [|intros ? _]
        | |- np (if ?b then _ else _) => destruct b
        | |- np (let '(_, _) := ?p in _) => destruct p
        | |- np (match ?p with pair _ _ => _ end) => destruct p
        end ].

  Lemma array_data_prefix_v0_safe h data :
    np (arrayDataPrefixV0 array_extra_len h data) /\ units (arrayDataPrefixV0 array_extra_len h data) = 0.
  Proof.
    unfold arrayDataPrefixV0.
    change (if h_isRoot h then _ else ret data) with (v0_prologue array_extra_len (h_isRoot h) data).
    split.
    - apply np_bind; [apply np_v0_prologue; exact array_extra_le|]. intros d1 _.
      apply np_bind.
      + destruct (negb (h_isRoot h)); [apply (np_next_checked d1) | apply np_ret].
      + intros [next d2] _. destruct (lenN d2 <? c_arrayDataSlabElementHeadSize); [apply np_err | apply np_ret].
    - apply units_bind0; [apply units_v0_prologue|]. intros d1.
      apply units_bind0.
      + destruct (negb (h_isRoot h)); [apply (np_next_checked d1) | reflexivity].
      + intros [next d2]. destruct (lenN d2 <? c_arrayDataSlabElementHeadSize); reflexivity.
  Qed.

  Lemma array_data_prefix_v1_safe h data :
    np (arrayDataPrefixV1 array_extra_len inlined_extra_len h data) /\
    units (arrayDataPrefixV1 array_extra_len inlined_extra_len h data) = 0.
  Proof.
    unfold arrayDataPrefixV1.
    change (if h_isRoot h then _ else ret data) with (v1_prologue array_extra_len (h_isRoot h) data).
    split.
    - apply np_bind; [apply np_v1_prologue; exact array_extra_le|]. intros d1 _.
      apply np_bind; [apply (np_inl_step h d1)|]. intros [inl d2] _.
      apply np_bind.
      + destruct (h_hasNextSlabID h); [apply (np_next_unchecked d2) | apply np_ret].
      + intros [next d3] _. destruct (lenN d3 <? c_arrayDataSlabElementHeadSize); [apply np_err | apply np_ret].
    - apply units_bind0; [apply units_v1_prologue|]. intros d1.
      apply units_bind0; [apply (np_inl_step h d1)|]. intros [inl d2].
      apply units_bind0.
      + destruct (h_hasNextSlabID h); [apply (np_next_unchecked d2) | reflexivity].
      + intros [next d3]. destruct (lenN d3 <? c_arrayDataSlabElementHeadSize); reflexivity.
  Qed.

  Lemma map_data_prefix_v0_safe h data :
    np (mapDataPrefixV0 map_extra_len h data) /\ units (mapDataPrefixV0 map_extra_len h data) = 0.
  Proof.
    unfold mapDataPrefixV0.
    change (if h_isRoot h then _ else ret data) with (v0_prologue map_extra_len (h_isRoot h) data).
    split.
    - apply np_bind; [apply np_v0_prologue; exact map_extra_le|]. intros d1 _.
      apply np_bind.
      + destruct (negb (h_isRoot h)); [apply (np_next_checked d1) | apply np_ret].
      + intros [next d2] _. apply np_ret.
    - apply units_bind0; [apply units_v0_prologue|]. intros d1.
      apply units_bind0.
      + destruct (negb (h_isRoot h)); [apply (np_next_checked d1) | reflexivity].
      + intros [next d2]. reflexivity.
  Qed.

  Lemma map_data_prefix_v1_safe h data :
    np (mapDataPrefixV1 map_extra_len inlined_extra_len h data) /\
    units (mapDataPrefixV1 map_extra_len inlined_extra_len h data) = 0.
  Proof.
    unfold mapDataPrefixV1.
    change (if h_isRoot h then _ else ret data) with (v1_prologue map_extra_len (h_isRoot h) data).
    split.
    - apply np_bind; [apply np_v1_prologue; exact map_extra_le|]. intros d1 _.
      apply np_bind; [apply (np_inl_step h d1)|]. intros [inl d2] _.
      apply np_bind.
      + destruct (h_hasNextSlabID h); [apply (np_next_checked d2) | apply np_ret].
      + intros [next d3] _. apply np_ret.
    - apply units_bind0; [apply units_v1_prologue|]. intros d1.
      apply units_bind0; [apply (np_inl_step h d1)|]. intros [inl d2].
      apply units_bind0.
      + destruct (h_hasNextSlabID h); [apply (np_next_checked d2) | reflexivity].
      + intros [next d3]. reflexivity.
  Qed.

  Lemma array_data_prefix_safe data :
    np (newArrayDataSlabFromData_prefix array_extra_len inlined_extra_len data) /\
    units (newArrayDataSlabFromData_prefix array_extra_len inlined_extra_len data) = 0.
  Proof.
    unfold newArrayDataSlabFromData_prefix.
    destruct (N.ltb_spec (lenN data) c_versionAndFlagSize); [split; [apply np_err | reflexivity]|].
    rewrite slice_to_ok by assumption. rewrite bind_ret_l.
    split.
    - apply np_bind; [apply np_newHeadFromData|]. intros h _.
      destruct (getSlabArrayType h); try apply np_err.
      rewrite slice_from_ok by assumption. rewrite bind_ret_l.
      destruct (h_version h =? 0); [apply array_data_prefix_v0_safe|].
      destruct (h_version h =? 1); [apply array_data_prefix_v1_safe | apply np_err].
    - apply units_bind0; [apply units_newHeadFromData|]. intros h.
      destruct (getSlabArrayType h); try reflexivity.
      apply units_bind0; [apply units_slice_from|]. intros d.
      destruct (h_version h =? 0); [apply array_data_prefix_v0_safe|].
      destruct (h_version h =? 1); [apply array_data_prefix_v1_safe | reflexivity].
  Qed.

  Lemma map_data_prefix_safe data :
    np (newMapDataSlabFromData_prefix map_extra_len inlined_extra_len data) /\
    units (newMapDataSlabFromData_prefix map_extra_len inlined_extra_len data) = 0.
  Proof.
    unfold newMapDataSlabFromData_prefix.
    destruct (N.ltb_spec (lenN data) c_versionAndFlagSize); [split; [apply np_err | reflexivity]|].
    rewrite slice_to_ok by assumption. rewrite bind_ret_l.
    split.
    - apply np_bind; [apply np_newHeadFromData|]. intros h _.
      destruct (getSlabMapType h); try apply np_err;
        (rewrite slice_from_ok by assumption; rewrite bind_ret_l;
         destruct (h_version h =? 0); [apply map_data_prefix_v0_safe|];
         destruct (h_version h =? 1); [apply map_data_prefix_v1_safe | apply np_err]).
    - apply units_bind0; [apply units_newHeadFromData|]. intros h.
      destruct (getSlabMapType h); try reflexivity;
        (apply units_bind0; [apply units_slice_from|]; intros d;
         destruct (h_version h =? 0); [apply map_data_prefix_v0_safe|];
         destruct (h_version h =? 1); [apply map_data_prefix_v1_safe | reflexivity]).
  Qed.

  (* ---- sizes of what the prefix hands to the CBOR decoder ---- *)

  Definition res_sizes (bound : N) (r : fixed_result) : Prop :=
    match r with
    | FArrayData _ _ inlb c | FMapData _ _ inlb c =>
      lenN c <= bound /\ (forall ib, inlb = Some ib -> lenN ib <= bound)
    | FStorable c => lenN c <= bound
    | _ => True
    end.

  Lemma next_checked_val d n d' : out (next_checked d) = Val (n, d') -> lenN d' <= lenN d.
  Proof.
    unfold next_checked. destruct (lenN d <? c_slabIDLength); [cbn; discriminate|]. intros H.
    apply out_bind_val in H as (x & _ & H). apply out_bind_val in H as (y & Hy & H).
    apply slice_from_val in Hy as [-> _]. cbn [out ret] in H. apply Val_pair_inj in H as [_ <-]. rewrite lenN_skipn. lia.
  Qed.

  Lemma next_unchecked_val d n d' : out (next_unchecked d) = Val (n, d') -> lenN d' <= lenN d.
  Proof.
    unfold next_unchecked. intros H.
    apply out_bind_val in H as (x & _ & H). apply out_bind_val in H as (y & Hy & H).
    apply slice_from_val in Hy as [-> _]. cbn [out ret] in H. apply Val_pair_inj in H as [_ <-]. rewrite lenN_skipn. lia.
  Qed.

  Lemma inl_step_val h d i d' : out (inl_step h d) = Val (i, d') ->
    lenN d' <= lenN d /\ (forall ib, i = Some ib -> ib = d).
  Proof.
    unfold inl_step. destruct (h_hasInlinedSlabs h).
    - intros H. apply out_bind_val in H as (n & _ & H). apply out_bind_val in H as (y & Hy & H).
      apply slice_from_val in Hy as [-> _]. cbn [out ret] in H. injection H; intros; subst. rewrite lenN_skipn.
      split; [lia|]. intros ib E; inversion E; reflexivity.
    - cbn. intros H; injection H; intros; subst. split; [lia | discriminate].
  Qed.

  Lemma array_data_prefix_v0_sizes h data r :
    out (arrayDataPrefixV0 array_extra_len h data) = Val r -> res_sizes (lenN data) r.
  Proof.
    unfold arrayDataPrefixV0.
    change (if h_isRoot h then _ else ret data) with (v0_prologue array_extra_len (h_isRoot h) data).
    intros H. apply out_bind_val in H as (d1 & Hd1 & H). apply v0_prologue_val in Hd1; [|exact array_extra_le].
    apply out_bind_val in H as ([next d2] & Hd2 & H).
    assert (lenN d2 <= lenN d1).
    { destruct (negb (h_isRoot h)); [eapply next_checked_val; exact Hd2 | cbn [out ret] in Hd2; apply Val_pair_inj in Hd2 as [_ <-]; lia]. }
    destruct (lenN d2 <? c_arrayDataSlabElementHeadSize); cbn [out ret err] in H; [discriminate|]. apply Val_inj in H; subst r.
    cbn [res_sizes]. split; [lia | discriminate].
  Qed.

  Lemma map_data_prefix_v0_sizes h data r :
    out (mapDataPrefixV0 map_extra_len h data) = Val r -> res_sizes (lenN data) r.
  Proof.
    unfold mapDataPrefixV0.
    change (if h_isRoot h then _ else ret data) with (v0_prologue map_extra_len (h_isRoot h) data).
    intros H. apply out_bind_val in H as (d1 & Hd1 & H). apply v0_prologue_val in Hd1; [|exact map_extra_le].
    apply out_bind_val in H as ([next d2] & Hd2 & H).
    assert (lenN d2 <= lenN d1).
    { destruct (negb (h_isRoot h)); [eapply next_checked_val; exact Hd2 | cbn [out ret] in Hd2; apply Val_pair_inj in Hd2 as [_ <-]; lia]. }
    cbn [out ret] in H. apply Val_inj in H; subst r. cbn [res_sizes]. split; [lia | discriminate].
  Qed.

  Lemma array_data_prefix_v1_sizes h data r :
    out (arrayDataPrefixV1 array_extra_len inlined_extra_len h data) = Val r -> res_sizes (lenN data) r.
  Proof.
    unfold arrayDataPrefixV1.
    change (if h_isRoot h then _ else ret data) with (v1_prologue array_extra_len (h_isRoot h) data).
    intros H. apply out_bind_val in H as (d1 & Hd1 & H). apply v1_prologue_val in Hd1; [|exact array_extra_le].
    apply out_bind_val in H as ([i d2] & Hd2 & H). apply (inl_step_val h d1 i d2) in Hd2 as [Hl2 Hi].
    apply out_bind_val in H as ([next d3] & Hd3 & H).
    assert (lenN d3 <= lenN d2).
    { destruct (h_hasNextSlabID h); [eapply next_unchecked_val; exact Hd3 | cbn [out ret] in Hd3; apply Val_pair_inj in Hd3 as [_ <-]; lia]. }
    destruct (lenN d3 <? c_arrayDataSlabElementHeadSize); cbn [out ret err] in H; [discriminate|]. apply Val_inj in H; subst r.
    cbn [res_sizes]. split; [lia|]. intros ib E. rewrite (Hi ib E). lia.
  Qed.

  Lemma map_data_prefix_v1_sizes h data r :
    out (mapDataPrefixV1 map_extra_len inlined_extra_len h data) = Val r -> res_sizes (lenN data) r.
  Proof.
    unfold mapDataPrefixV1.
    change (if h_isRoot h then _ else ret data) with (v1_prologue map_extra_len (h_isRoot h) data).
    intros H. apply out_bind_val in H as (d1 & Hd1 & H). apply v1_prologue_val in Hd1; [|exact map_extra_le].
    apply out_bind_val in H as ([i d2] & Hd2 & H). apply (inl_step_val h d1 i d2) in Hd2 as [Hl2 Hi].
    apply out_bind_val in H as ([next d3] & Hd3 & H).
    assert (lenN d3 <= lenN d2).
    { destruct (h_hasNextSlabID h); [eapply next_checked_val; exact Hd3 | cbn [out ret] in Hd3; apply Val_pair_inj in Hd3 as [_ <-]; lia]. }
    cbn [out ret] in H. injection H; intros; subst.
    cbn [res_sizes]. split; [lia|]. intros ib E. rewrite (Hi ib E). lia.
  Qed.

  Lemma res_sizes_mono b b' r : b <= b' -> res_sizes b r -> res_sizes b' r.
  Proof.
    intros Hb. destruct r; cbn; auto; try lia.
    - intros [H1 H2]; split; [lia|]. intros ib E; specialize (H2 ib E); lia.
    - intros [H1 H2]; split; [lia|]. intros ib E; specialize (H2 ib E); lia.
  Qed.

  Lemma array_data_prefix_sizes data r :
    out (newArrayDataSlabFromData_prefix array_extra_len inlined_extra_len data) = Val r -> res_sizes (lenN data) r.
  Proof.
    unfold newArrayDataSlabFromData_prefix.
    destruct (N.ltb_spec (lenN data) c_versionAndFlagSize) as [Hlt|Hge]; [cbn; discriminate|].
    rewrite slice_to_ok by assumption. rewrite bind_ret_l. intros H.
    apply out_bind_val in H as (h & _ & H).
    destruct (getSlabArrayType h); try (cbn in H; discriminate).
    rewrite slice_from_ok in H by assumption. rewrite bind_ret_l in H.
    assert (Hl : lenN (skipn (N.to_nat c_versionAndFlagSize) data) <= lenN data) by (rewrite lenN_skipn; lia).
    destruct (h_version h =? 0); [eapply res_sizes_mono; [exact Hl | eapply array_data_prefix_v0_sizes; exact H]|].
    destruct (h_version h =? 1); [|cbn in H; discriminate].
    eapply res_sizes_mono; [exact Hl | eapply array_data_prefix_v1_sizes; exact H].
  Qed.

  Lemma map_data_prefix_sizes data r :
    out (newMapDataSlabFromData_prefix map_extra_len inlined_extra_len data) = Val r -> res_sizes (lenN data) r.
  Proof.
    unfold newMapDataSlabFromData_prefix.
    destruct (N.ltb_spec (lenN data) c_versionAndFlagSize) as [Hlt|Hge]; [cbn; discriminate|].
    rewrite slice_to_ok by assumption. rewrite bind_ret_l. intros H.
    apply out_bind_val in H as (h & _ & H).
    assert (Hl : lenN (skipn (N.to_nat c_versionAndFlagSize) data) <= lenN data) by (rewrite lenN_skipn; lia).
    destruct (getSlabMapType h); try (cbn in H; discriminate);
      (rewrite slice_from_ok in H by assumption; rewrite bind_ret_l in H;
       destruct (h_version h =? 0); [eapply res_sizes_mono; [exact Hl | eapply map_data_prefix_v0_sizes; exact H]|];
       destruct (h_version h =? 1); [|cbn in H; discriminate];
       eapply res_sizes_mono; [exact Hl | eapply map_data_prefix_v1_sizes; exact H]).
  Qed.

  Lemma decode_slab_fixed_sizes id data r :
    out (decode_slab_fixed_m array_extra_len map_extra_len inlined_extra_len id data) = Val r ->
    res_sizes (lenN data) r.
  Proof.
    unfold decode_slab_fixed_m.
    destruct (N.ltb_spec (lenN data) c_versionAndFlagSize) as [Hlt|Hge]; [cbn; discriminate|].
    rewrite slice_to_ok by assumption. rewrite bind_ret_l. intros H.
    apply out_bind_val in H as (h & _ & H).
    destruct (getSlabType h); [cbn in H; discriminate | | |].
    - destruct (getSlabArrayType h); try (cbn in H; discriminate).
      + apply array_data_prefix_sizes; exact H.
      + apply out_bind_val in H as (s & _ & H). cbn [out ret] in H. apply Val_inj in H; subst r. exact I.
    - destruct (getSlabMapType h); try (cbn in H; discriminate).
      + apply map_data_prefix_sizes; exact H.
      + apply out_bind_val in H as (s & _ & H). cbn [out ret] in H. apply Val_inj in H; subst r. exact I.
      + apply map_data_prefix_sizes; exact H.
    - rewrite slice_from_ok in H by assumption. rewrite bind_ret_l in H. cbn [out ret] in H. apply Val_inj in H; subst r.
      cbn [res_sizes]. rewrite lenN_skipn. lia.
  Qed.

  (* ---- DecodeSlab ---- *)

  Theorem decode_slab_fixed_safe id data :
    np (decode_slab_fixed_m array_extra_len map_extra_len inlined_extra_len id data) /\
    units (decode_slab_fixed_m array_extra_len map_extra_len inlined_extra_len id data) <= lenN data.
  Proof.
    unfold decode_slab_fixed_m.
    destruct (N.ltb_spec (lenN data) c_versionAndFlagSize); [split; [apply np_err | cbn; lia]|].
    rewrite slice_to_ok by assumption. rewrite bind_ret_l.
    split.
    - apply np_bind; [apply np_newHeadFromData|]. intros h _.
      destruct (getSlabType h); [apply np_err | | |].
      + destruct (getSlabArrayType h); try apply np_err.
        * apply array_data_prefix_safe.
        * apply np_bind; [apply array_meta_safe|]. intros; apply np_ret.
      + destruct (getSlabMapType h); try apply np_err.
        * apply map_data_prefix_safe.
        * apply np_bind; [apply map_meta_safe|]. intros; apply np_ret.
        * apply map_data_prefix_safe.
      + rewrite slice_from_ok by assumption. rewrite bind_ret_l. apply np_ret.
    - apply units_bind_le; [apply units_newHeadFromData|]. intros h _.
      destruct (getSlabType h); [cbn; lia | | |].
      + destruct (getSlabArrayType h); try (cbn; lia).
        * destruct (array_data_prefix_safe data) as [_ ->]. lia.
        * rewrite units_bind. destruct (array_meta_safe id data) as [_ Hu].
          destruct (out _); cbn [units ret]; lia.
      + destruct (getSlabMapType h); try (cbn; lia).
        * destruct (map_data_prefix_safe data) as [_ ->]. lia.
        * rewrite units_bind. destruct (map_meta_safe id data) as [_ Hu].
          destruct (out _); cbn [units ret]; lia.
        * destruct (map_data_prefix_safe data) as [_ ->]. lia.
      + rewrite slice_from_ok by assumption. rewrite bind_ret_l. cbn; lia.
  Qed.
End FixedProofs.

(* accessors of decoded metadata slabs *)
Lemma meta_accessors_no_panic :
  (forall s, np (array_meta_byte_size s) /\ np (array_meta_child_storables s)) /\
  (forall s, np (map_meta_byte_size s) /\ np (map_meta_child_storables s)).
Proof.
  split; intros s; split; try apply np_ret;
    (apply np_bind; [apply np_make | intros; apply np_ret]).
Qed.

(* ------------------------------------------------------------------------------------------ *)
(* Part 2: decoders over the validated item tree                                               *)
(* ------------------------------------------------------------------------------------------ *)

Lemma np_decodeArrayHead it : np (decodeArrayHead it).
Proof. destruct it; first [apply np_ret | apply np_err]. Qed.
Lemma np_decodeUint64 it : np (decodeUint64 it).
Proof. destruct it; first [apply np_ret | apply np_err]. Qed.
Lemma np_decodeBytes it : np (decodeBytes it).
Proof. destruct it; first [apply np_ret | apply np_err]. Qed.
Lemma units_decodeArrayHead it : units (decodeArrayHead it) = 0.
Proof. destruct it; reflexivity. Qed.
Lemma units_decodeUint64 it : units (decodeUint64 it) = 0.
Proof. destruct it; reflexivity. Qed.
Lemma units_decodeBytes it : units (decodeBytes it) = 0.
Proof. destruct it; reflexivity. Qed.

Lemma decodeArrayHead_val it l : out (decodeArrayHead it) = Val l -> it = CArray l.
Proof. destruct it; cbn; intros E; inversion E; reflexivity. Qed.
Lemma decodeBytes_val it b : out (decodeBytes it) = Val b -> it = CBytes b.
Proof. destruct it; cbn; intros E; inversion E; reflexivity. Qed.

Lemma np_decodeSlabIDStorable c : np (decodeSlabIDStorable c).
Proof.
  unfold decodeSlabIDStorable. apply np_bind; [apply np_decodeBytes|]. intros b _.
  apply np_bind; [apply np_newSlabIDFromRawBytes|]. intros; apply np_ret.
Qed.
Lemma units_decodeSlabIDStorable c : units (decodeSlabIDStorable c) = 0.
Proof.
  unfold decodeSlabIDStorable. apply units_bind0; [apply units_decodeBytes|]. intros.
  apply units_bind0; [apply units_newSlabIDFromRawBytes|]. reflexivity.
Qed.

Lemma np_loop_acc {A} (f : citem -> M A) sz e : (forall x, np (f x)) ->
  forall l s, np (loop_acc f sz e l s).
Proof.
  intros Hf. induction l as [|x r IH]; intros s; cbn [loop_acc]; [apply np_ret|].
  apply np_bind; [apply Hf|]. intros a _.
  destruct (safeAdd3Uint32 _ _ _); [|apply np_err].
  apply np_bind; [apply IH|]. intros; apply np_ret.
Qed.

Lemma np_compact_loop (f : citem -> M storable) keys : (forall x, np (f x)) ->
  forall l i s, i + lenN l <= lenN keys -> np (compact_loop f keys i l s).
Proof.
  intros Hf. induction l as [|x r IH]; intros i s H; cbn [compact_loop]; [apply np_ret|].
  apply np_bind; [apply Hf|]. intros v _.
  assert (Hl : lenN (x :: r) = 1 + lenN r) by (unfold lenN; cbn [length]; lia).
  apply np_bind; [apply np_index; lia|]. intros k _.
  destruct (safeAdd3Uint32 _ _ _); [|apply np_err].
  destruct (safeAdd3Uint32 _ _ _); [|apply np_err].
  apply np_bind; [apply IH; lia|]. intros; apply np_ret.
Qed.

Lemma np_digests_loop n : forall i b, i * 8 + 8 * N.of_nat n <= lenN b -> np (digests_loop n i b).
Proof.
  induction n as [|n IH]; intros i b H; cbn [digests_loop]; [apply np_ret|].
  unfold c_digestSize.
  rewrite slice_from_ok by lia. rewrite bind_ret_l.
  unfold be64. rewrite be_uint_ok by (rewrite lenN_skipn; lia). rewrite bind_ret_l.
  apply np_bind; [apply IH; lia|]. intros; apply np_ret.
Qed.

Lemma units_digests_loop n : forall i b, units (digests_loop n i b) = 0.
Proof.
  induction n as [|n IH]; intros; cbn [digests_loop]; [reflexivity|].
  apply units_bind0; [apply units_slice_from|]. intros.
  apply units_bind0; [apply units_be_uint|]. intros.
  apply units_bind0; [apply IH|]. reflexivity.
Qed.

Definition fn_np {A} (f : SlabID -> list extra -> citem -> M A) : Prop := forall id ied it, np (f id ied it).

Ltac np_auto :=
  repeat first
    [ apply np_ret | apply np_err | apply np_make
    | apply np_decodeArrayHead | apply np_decodeUint64 | apply np_decodeBytes | apply np_decodeSlabIDStorable
    | apply np_newSlabIDFromRawBytes
    | match goal with
      | H : fn_np ?r |- np (?r _ _ _) => apply H
      | |- np (loop_acc _ _ _ _ _) => apply np_loop_acc; intros
      | |- np (bind _ _) => apply np_bind; [ | intros ? ? ]
      | |- np (if ?b then _ else _) => destruct b eqn:?
      | |- np (match ?x with _ => _ end) => destruct x
      end ].

Section ItemsProofs.
  Variable utf8_valid : bytes -> bool.

  Lemma np_decodeStorable_body r1 r2 r3 r4 :
    fn_np r1 -> fn_np r2 -> fn_np r3 -> fn_np r4 -> fn_np (decodeStorable_body utf8_valid r1 r2 r3 r4).
  Proof. intros H1 H2 H3 H4 id ied it. unfold decodeStorable_body. np_auto. Qed.

  Lemma np_decodeInlinedArrayStorable_body r1 :
    fn_np r1 -> fn_np (decodeInlinedArrayStorable_body r1).
  Proof.
    intros H1 id ied it. unfold decodeInlinedArrayStorable_body. np_auto.
    apply np_index. lia.
  Qed.

  Lemma np_decodeInlinedMapStorable_body r1 :
    fn_np r1 -> fn_np (decodeInlinedMapStorable_body r1).
  Proof.
    intros H1 id ied it. unfold decodeInlinedMapStorable_body. np_auto.
    apply np_index. lia.
  Qed.

  Lemma np_decodeInlinedCompactMapStorable_body r1 :
    fn_np r1 -> fn_np (decodeInlinedCompactMapStorable_body r1).
  Proof.
    intros H1 id ied it. unfold decodeInlinedCompactMapStorable_body. np_auto.
    - apply np_index. lia.
    - apply np_compact_loop; [intros; apply H1 | lia].
  Qed.

  Lemma np_newElementsFromData_body r1 r2 :
    fn_np r1 -> fn_np r2 -> fn_np (newElementsFromData_body r1 r2).
  Proof.
    intros H1 H2 id ied it. unfold newElementsFromData_body. np_auto.
    all: apply np_digests_loop; unfold c_digestSize; lia.
  Qed.

  Lemma np_newElementFromData_body r1 r2 r3 :
    fn_np r1 -> fn_np r2 -> fn_np r3 -> fn_np (newElementFromData_body r1 r2 r3).
  Proof. intros H1 H2 H3 id ied it. unfold newElementFromData_body. np_auto. Qed.

  Lemma np_newSingleElementFromData_body r1 :
    fn_np r1 -> fn_np (newSingleElementFromData_body r1).
  Proof. intros H1 id ied it. unfold newSingleElementFromData_body. np_auto. Qed.

  Lemma np_no_fuel {A} : fn_np (@no_fuel A).
  Proof. intros id ied it. apply np_err. Qed.

  Theorem items_no_panic : forall fuel,
    fn_np (decodeStorable utf8_valid fuel) /\
    fn_np (decodeInlinedArrayStorable utf8_valid fuel) /\
    fn_np (decodeInlinedMapStorable utf8_valid fuel) /\
    fn_np (decodeInlinedCompactMapStorable utf8_valid fuel) /\
    fn_np (newElementsFromData utf8_valid fuel) /\
    fn_np (newElementFromData utf8_valid fuel) /\
    fn_np (newSingleElementFromData utf8_valid fuel).
  Proof.
    induction fuel as [|f (H1 & H2 & H3 & H4 & H5 & H6 & H7)].
    - repeat split; apply np_no_fuel.
    - repeat split; cbn [decodeStorable decodeInlinedArrayStorable decodeInlinedMapStorable
                          decodeInlinedCompactMapStorable newElementsFromData newElementFromData
                          newSingleElementFromData].
      + apply np_decodeStorable_body; assumption.
      + apply np_decodeInlinedArrayStorable_body; assumption.
      + apply np_decodeInlinedMapStorable_body; assumption.
      + apply np_decodeInlinedCompactMapStorable_body; assumption.
      + apply np_newElementsFromData_body; assumption.
      + apply np_newElementFromData_body; assumption.
      + apply np_newSingleElementFromData_body; assumption.
  Qed.
End ItemsProofs.

(* ------------------------------------------------------------------------------------------ *)
(* allocation of the item decoders: at most 2 units per unit of item size                      *)
(* ------------------------------------------------------------------------------------------ *)

Lemma csize_pos it : 1 <= csize it.
Proof. destruct it; cbn [csize]; lia. Qed.

Lemma csize_array l : csize (CArray l) = 1 + csize_list l.
Proof. reflexivity. Qed.

Lemma csize_list_cons x l : csize_list (x :: l) = csize x + csize_list l.
Proof. reflexivity. Qed.
Lemma csize_list_nil : csize_list [] = 0.
Proof. reflexivity. Qed.
Lemma csize_uint n : csize (CUint n) = 1. Proof. reflexivity. Qed.
Lemma csize_bytes b : csize (CBytes b) = 1 + lenN b. Proof. reflexivity. Qed.
Lemma csize_text b : csize (CText b) = 1 + lenN b. Proof. reflexivity. Qed.
Lemma csize_tag t c : csize (CTag t c) = 1 + csize c. Proof. reflexivity. Qed.
Lemma csize_other : csize COther = 1. Proof. reflexivity. Qed.
#[global] Hint Rewrite csize_array csize_list_cons csize_list_nil csize_uint csize_bytes csize_text csize_tag csize_other : csz.

Lemma lenN_cons {A} (x : A) l : lenN (x :: l) = 1 + lenN l.
Proof. unfold lenN; cbn [length]; lia. Qed.

Lemma lenN_le_csize_list l : lenN l <= csize_list l.
Proof.
  induction l as [|x r IH]; [cbn; lia|]. rewrite lenN_cons, csize_list_cons. pose proof (csize_pos x). lia.
Qed.

Lemma index_val_in {A} (l : list A) i x : out (index l i) = Val x -> In x l.
Proof.
  unfold index. destruct (nth_error l (N.to_nat i)) eqn:E; cbn; [|discriminate].
  intros H; inversion H; subst. eapply nth_error_In; eassumption.
Qed.

Definition wf_extra (e : extra) : Prop :=
  match e with
  | ECompactExtra _ _ hkeys keys => length hkeys = length keys
  | _ => True
  end.

Definition fn_alloc {A} (f : SlabID -> list extra -> citem -> M A) : Prop :=
  forall id ied it, Forall wf_extra ied -> units (f id ied it) + 2 <= 2 * csize it.

Lemma units_loop_acc {A} (f : citem -> M A) sz e : (forall x, units (f x) + 2 <= 2 * csize x) ->
  forall l s, units (loop_acc f sz e l s) + 2 * lenN l <= 2 * csize_list l.
Proof.
  intros Hf. induction l as [|x r IH]; intros s; cbn [loop_acc]; [cbn; lia|].
  rewrite lenN_cons, csize_list_cons. rewrite units_bind. specialize (Hf x).
  destruct (out (f x)); try (pose proof (lenN_le_csize_list r); lia).
  destruct (safeAdd3Uint32 _ _ _); [|cbn [units err]; pose proof (lenN_le_csize_list r); lia].
  rewrite units_bind. specialize (IH n).
  destruct (out (loop_acc _ _ _ _ _)); cbn [units ret]; lia.
Qed.

Lemma units_compact_loop (f : citem -> M storable) keys : (forall x, units (f x) + 2 <= 2 * csize x) ->
  forall l i s, units (compact_loop f keys i l s) + 2 * lenN l <= 2 * csize_list l.
Proof.
  intros Hf. induction l as [|x r IH]; intros i s; cbn [compact_loop]; [cbn; lia|].
  rewrite lenN_cons, csize_list_cons. rewrite units_bind. specialize (Hf x).
  pose proof (lenN_le_csize_list r).
  destruct (out (f x)); try lia.
  rewrite units_bind, units_index.
  destruct (out (index keys i)); try lia.
  destruct (safeAdd3Uint32 _ _ _); [|cbn [units err]; lia].
  destruct (safeAdd3Uint32 _ _ _); [|cbn [units err]; lia].
  rewrite units_bind. specialize (IH (i + 1) n0).
  destruct (out (compact_loop _ _ _ _ _)); cbn [units ret]; lia.
Qed.

(* walk through a computation: expose units of binds, split conditionals and matches *)
Ltac u_walk :=
  repeat first
    [ progress cbn [units ret err make_units panic]
    | rewrite units_decodeArrayHead | rewrite units_decodeUint64 | rewrite units_decodeBytes
    | rewrite units_decodeSlabIDStorable | rewrite units_index | rewrite units_digests_loop
    | match goal with
      | |- context [units (bind ?m ?f)] => rewrite (units_bind m f); destruct (out m) eqn:?
      | |- context [units (if ?b then _ else _)] => destruct b eqn:?
      | |- context [units (match ?x with _ => _ end)] => destruct x eqn:?
      end ].

Ltac u_facts :=
  repeat match goal with
    | H : out (decodeArrayHead ?c) = Val ?l |- _ => apply decodeArrayHead_val in H; subst c
    | H : out (decodeBytes ?c) = Val ?b |- _ => apply decodeBytes_val in H; subst c
    end.

Section ItemsAlloc.
  Variable utf8_valid : bytes -> bool.

  Ltac use_rec :=
    repeat match goal with
      | Hr : fn_alloc ?r, Hw : Forall wf_extra ?ied |- context [units (?r ?id ?ied ?x)] =>
        lazymatch goal with
        | _ : units (r id ied x) + 2 <= 2 * csize x |- _ => fail
        | _ => pose proof (Hr id ied x Hw)
        end
      end.

  Ltac fin := u_facts; use_rec; autorewrite with csz in *;
              repeat match goal with x : citem |- _ => lazymatch goal with _ : 1 <= csize x |- _ => fail | _ => pose proof (csize_pos x) end end;
              repeat match goal with l : list citem |- _ => lazymatch goal with _ : lenN l <= csize_list l |- _ => fail | _ => pose proof (lenN_le_csize_list l) end end;
              try lia.

  Lemma alloc_decodeStorable_body r1 r2 r3 r4 :
    fn_alloc r1 -> fn_alloc r2 -> fn_alloc r3 -> fn_alloc r4 -> fn_alloc (decodeStorable_body utf8_valid r1 r2 r3 r4).
  Proof.
    intros H1 H2 H3 H4 id ied it Hw. unfold decodeStorable_body.
    destruct it; autorewrite with csz; try (cbn [units err]; lia).
    - destruct (utf8_valid b); cbn [units ret err]; lia.
    - pose proof (csize_pos it).
      repeat match goal with |- context [if ?b then _ else _] => destruct b eqn:? end;
        u_walk; fin.
  Qed.

  Lemma alloc_decodeInlinedArrayStorable_body r1 : fn_alloc r1 -> fn_alloc (decodeInlinedArrayStorable_body r1).
  Proof.
    intros H1 id ied it Hw. unfold decodeInlinedArrayStorable_body. pose proof (csize_pos it).
    u_walk; fin.
    all: try (match goal with
         | |- context [units (loop_acc ?f ?sz ?e ?l ?s)] =>
           pose proof (units_loop_acc f sz e (fun x => H1 _ _ x Hw) l s)
         end; lia).
  Qed.

  Lemma alloc_decodeInlinedMapStorable_body r1 : fn_alloc r1 -> fn_alloc (decodeInlinedMapStorable_body r1).
  Proof.
    intros H1 id ied it Hw. unfold decodeInlinedMapStorable_body. pose proof (csize_pos it).
    u_walk; fin.
  Qed.

  Lemma alloc_decodeInlinedCompactMapStorable_body r1 :
    fn_alloc r1 -> fn_alloc (decodeInlinedCompactMapStorable_body r1).
  Proof.
    intros H1 id ied it Hw. unfold decodeInlinedCompactMapStorable_body. pose proof (csize_pos it).
    u_walk; fin.
    all: match goal with
         | Hi : out (index ?l _) = Val (ECompactExtra _ _ ?hk ?ks), Hw' : Forall wf_extra ?l |- _ =>
           let Hwf := fresh "Hwf" in
           pose proof (proj1 (Forall_forall wf_extra l) Hw' _ (index_val_in _ _ _ Hi)) as Hwf; cbn [wf_extra] in Hwf
         end.
    all: try match goal with
         | |- context [units (compact_loop ?f ?keys ?i ?l ?s)] =>
           pose proof (units_compact_loop f keys (fun x => H1 _ _ x Hw) l i s)
         end.
    all: unfold lenN in *; lia.
  Qed.
  Lemma alloc_newElementsFromData_body r1 r2 :
    fn_alloc r1 -> fn_alloc r2 -> fn_alloc (newElementsFromData_body r1 r2).
  Proof.
    intros H1 H2 id ied it Hw. unfold newElementsFromData_body. pose proof (csize_pos it).
    u_walk; fin.
    all: try match goal with
         | |- context [units (loop_acc ?f ?sz ?e ?l ?s)] =>
           first [ pose proof (units_loop_acc f sz e (fun x => H1 _ _ x Hw) l s)
                 | pose proof (units_loop_acc f sz e (fun x => H2 _ _ x Hw) l s) ]
         end.
    all: unfold c_digestSize in *; lia.
  Qed.

  Lemma alloc_newElementFromData_body r1 r2 r3 :
    fn_alloc r1 -> fn_alloc r2 -> fn_alloc r3 -> fn_alloc (newElementFromData_body r1 r2 r3).
  Proof.
    intros H1 H2 H3 id ied it Hw. unfold newElementFromData_body.
    destruct it; autorewrite with csz; try (cbn [units err]; lia).
    - pose proof (H3 id ied (CArray l) Hw) as H. autorewrite with csz in H. exact H.
    - pose proof (csize_pos it). u_walk; fin.
  Qed.

  Lemma alloc_newSingleElementFromData_body r1 : fn_alloc r1 -> fn_alloc (newSingleElementFromData_body r1).
  Proof.
    intros H1 id ied it Hw. unfold newSingleElementFromData_body. pose proof (csize_pos it).
    u_walk; fin.
  Qed.

  Lemma alloc_no_fuel {A} : fn_alloc (@no_fuel A).
  Proof. intros id ied it _. cbn [no_fuel units err]. pose proof (csize_pos it). lia. Qed.

  Theorem items_alloc : forall fuel,
    fn_alloc (decodeStorable utf8_valid fuel) /\
    fn_alloc (decodeInlinedArrayStorable utf8_valid fuel) /\
    fn_alloc (decodeInlinedMapStorable utf8_valid fuel) /\
    fn_alloc (decodeInlinedCompactMapStorable utf8_valid fuel) /\
    fn_alloc (newElementsFromData utf8_valid fuel) /\
    fn_alloc (newElementFromData utf8_valid fuel) /\
    fn_alloc (newSingleElementFromData utf8_valid fuel).
  Proof.
    induction fuel as [|f (H1 & H2 & H3 & H4 & H5 & H6 & H7)].
    - repeat split; apply alloc_no_fuel.
    - repeat split; cbn [decodeStorable decodeInlinedArrayStorable decodeInlinedMapStorable
                          decodeInlinedCompactMapStorable newElementsFromData newElementFromData
                          newSingleElementFromData].
      + apply alloc_decodeStorable_body; assumption.
      + apply alloc_decodeInlinedArrayStorable_body; assumption.
      + apply alloc_decodeInlinedMapStorable_body; assumption.
      + apply alloc_decodeInlinedCompactMapStorable_body; assumption.
      + apply alloc_newElementsFromData_body; assumption.
      + apply alloc_newElementFromData_body; assumption.
      + apply alloc_newSingleElementFromData_body; assumption.
  Qed.
End ItemsAlloc.

(* ------------------------------------------------------------------------------------------ *)
(* inlined extra data section and the element loops of the standalone data slabs               *)
(* ------------------------------------------------------------------------------------------ *)

Lemma digests_loop_len n : forall i b l, out (digests_loop n i b) = Val l -> length l = n.
Proof.
  induction n as [|n IH]; intros i b l; cbn [digests_loop].
  - cbn. intros E; inversion E; reflexivity.
  - intros H. apply out_bind_val in H as (s & _ & H). apply out_bind_val in H as (d & _ & H).
    apply out_bind_val in H as (r & Hr & H). cbn in H. inversion H; subst. cbn [length]. f_equal. eapply IH; eassumption.
Qed.

Section ExtraProofs.
  Variable decode_type_info : citem -> bool.
  Variable utf8_valid : bytes -> bool.

  Lemma np_newArrayExtraData c : np (newArrayExtraData decode_type_info c).
  Proof. unfold newArrayExtraData. np_auto. Qed.
  Lemma np_newMapExtraData c : np (newMapExtraData decode_type_info c).
  Proof. unfold newMapExtraData. np_auto. Qed.
  Lemma units_newArrayExtraData c : units (newArrayExtraData decode_type_info c) = 0.
  Proof. unfold newArrayExtraData. u_walk; reflexivity. Qed.
  Lemma units_newMapExtraData c : units (newMapExtraData decode_type_info c) = 0.
  Proof. unfold newMapExtraData. u_walk; reflexivity. Qed.

  Lemma np_compact_keys_loop fuel l : np (compact_keys_loop utf8_valid fuel l).
  Proof.
    induction l as [|x r IH]; cbn [compact_keys_loop]; [apply np_ret|].
    apply np_bind; [apply (items_no_panic utf8_valid fuel)|]. intros k _.
    destruct k; try apply np_err. destruct comparable; [|apply np_err].
    apply np_bind; [apply IH|]. intros; apply np_ret.
  Qed.

  Lemma compact_keys_loop_len fuel l ks : out (compact_keys_loop utf8_valid fuel l) = Val ks -> length ks = length l.
  Proof.
    revert ks. induction l as [|x r IH]; intros ks; cbn [compact_keys_loop].
    - cbn. intros E; inversion E; reflexivity.
    - intros H. apply out_bind_val in H as (k & _ & H).
      destruct k; try (cbn in H; discriminate). destruct comparable; [|cbn in H; discriminate].
      apply out_bind_val in H as (t & Ht & H). cbn in H. inversion H; subst. cbn [length]. f_equal. apply IH; assumption.
  Qed.

  Lemma units_compact_keys_loop fuel l :
    units (compact_keys_loop utf8_valid fuel l) + 2 * lenN l <= 2 * csize_list l.
  Proof.
    induction l as [|x r IH]; cbn [compact_keys_loop]; [cbn; lia|].
    rewrite lenN_cons, csize_list_cons. rewrite units_bind.
    pose proof (proj1 (items_alloc utf8_valid fuel) slabIDUndefined [] x (Forall_nil _)) as Hx.
    pose proof (lenN_le_csize_list r).
    destruct (out (decodeStorable utf8_valid fuel slabIDUndefined [] x)); try lia.
    destruct a; cbn [units err]; try lia. destruct comparable; cbn [units err]; try lia.
    rewrite units_bind. destruct (out (compact_keys_loop _ _ _)); cbn [units ret]; lia.
  Qed.

  Lemma np_newCompactMapExtraData fuel c : np (newCompactMapExtraData decode_type_info utf8_valid fuel c).
  Proof.
    unfold newCompactMapExtraData.
    repeat first
      [ apply np_ret | apply np_err | apply np_make | apply np_newMapExtraData | apply np_compact_keys_loop
      | apply np_decodeArrayHead | apply np_decodeUint64 | apply np_decodeBytes
      | match goal with
        | |- np (digests_loop _ _ _) => apply np_digests_loop; unfold c_digestSize in *; lia
        | |- np (bind _ _) => apply np_bind; [ | intros ? ? ]
        | |- np (if ?b then _ else _) => destruct b eqn:?
        | |- np (match ?x with _ => _ end) => destruct x
        end ].
  Qed.

  Lemma compact_extra_wf fuel c e :
    out (newCompactMapExtraData decode_type_info utf8_valid fuel c) = Val e -> wf_extra e.
  Proof.
    unfold newCompactMapExtraData. intros H.
    repeat match type of H with
      | out (bind _ _) = Val _ => apply out_bind_val in H as (? & ? & H)
      | out (if ?b then _ else _) = Val _ => destruct b eqn:?; [cbn in H; discriminate|]
      | out (match ?x with _ => _ end) = Val _ => destruct x; try (cbn in H; discriminate)
      end.
    cbn in H. inversion H; subst. cbn [wf_extra].
    match goal with Hd : out (digests_loop _ _ _) = Val _ |- _ => apply digests_loop_len in Hd; rewrite Hd end.
    match goal with Hk : out (compact_keys_loop _ _ _) = Val _ |- _ => apply compact_keys_loop_len in Hk; rewrite Hk end.
    unfold lenN in *. lia.
  Qed.

  Lemma units_newCompactMapExtraData fuel c :
    units (newCompactMapExtraData decode_type_info utf8_valid fuel c) + 2 <= 2 * csize c.
  Proof.
    unfold newCompactMapExtraData. pose proof (csize_pos c).
    repeat first
      [ progress cbn [units ret err make_units]
      | rewrite units_decodeArrayHead | rewrite units_decodeUint64 | rewrite units_decodeBytes
      | rewrite units_newMapExtraData | rewrite units_digests_loop
      | match goal with
        | |- context [units (bind ?m ?f)] => rewrite (units_bind m f); destruct (out m) eqn:?
        | |- context [units (if ?b then _ else _)] => destruct b eqn:?
        | |- context [units (match ?x with _ => _ end)] => destruct x eqn:?
        end ].
    all: u_facts; autorewrite with csz in *.
    all: repeat match goal with x : citem |- _ => lazymatch goal with _ : 1 <= csize x |- _ => fail | _ => pose proof (csize_pos x) end end.
    all: repeat match goal with l : list citem |- _ => lazymatch goal with _ : lenN l <= csize_list l |- _ => fail | _ => pose proof (lenN_le_csize_list l) end end.
    all: try match goal with |- context [units (compact_keys_loop _ ?f ?l)] => pose proof (units_compact_keys_loop f l) end.
    all: unfold c_digestSize in *; lia.
  Qed.

  Lemma np_type_infos_loop l : np (type_infos_loop decode_type_info l).
  Proof. induction l as [|x r IH]; cbn [type_infos_loop]; [apply np_ret|]. destruct (decode_type_info x); [apply IH | apply np_err]. Qed.
  Lemma units_type_infos_loop l : units (type_infos_loop decode_type_info l) = 0.
  Proof. induction l as [|x r IH]; cbn [type_infos_loop]; [reflexivity|]. destruct (decode_type_info x); [apply IH | reflexivity]. Qed.

  Lemma np_extras_loop fuel l : np (extras_loop decode_type_info utf8_valid fuel l).
  Proof.
    induction l as [|x r IH]; cbn [extras_loop]; [apply np_ret|].
    destruct x; try apply np_err.
    apply np_bind.
    - repeat match goal with |- np (if ?b then _ else _) => destruct b end;
        first [apply np_newArrayExtraData | apply np_newMapExtraData | apply np_newCompactMapExtraData | apply np_err].
    - intros e _. apply np_bind; [apply IH|]. intros; apply np_ret.
  Qed.

  Lemma extras_loop_wf fuel l es :
    out (extras_loop decode_type_info utf8_valid fuel l) = Val es -> Forall wf_extra es.
  Proof.
    revert es. induction l as [|x r IH]; intros es; cbn [extras_loop].
    - cbn. intros E; inversion E; constructor.
    - destruct x; try (cbn; discriminate). intros H.
      apply out_bind_val in H as (e & He & H). apply out_bind_val in H as (tl & Ht & H).
      cbn in H. inversion H; subst. constructor; [|apply IH; assumption].
      repeat match type of He with out (if ?b then _ else _) = _ => destruct b end.
      + unfold newArrayExtraData in He.
        repeat match type of He with
          | out (bind _ _) = Val _ => apply out_bind_val in He as (? & ? & He)
          | out (if ?b then _ else _) = Val _ => destruct b; [cbn in He; try discriminate|]
          | out (match ?x with _ => _ end) = Val _ => destruct x; try (cbn in He; discriminate)
          end; cbn in He; inversion He; exact I.
      + unfold newMapExtraData in He.
        repeat match type of He with
          | out (bind _ _) = Val _ => apply out_bind_val in He as (? & ? & He)
          | out (if ?b then _ else _) = Val _ => destruct b; [cbn in He; try discriminate|]
          | out (match ?x with _ => _ end) = Val _ => destruct x; try (cbn in He; discriminate)
          end; cbn in He; inversion He; exact I.
      + eapply compact_extra_wf; eassumption.
      + cbn in He; discriminate.
  Qed.

  Lemma units_extras_loop fuel l :
    units (extras_loop decode_type_info utf8_valid fuel l) + 2 * lenN l <= 2 * csize_list l.
  Proof.
    induction l as [|x r IH]; cbn [extras_loop]; [cbn; lia|].
    rewrite lenN_cons, csize_list_cons. pose proof (lenN_le_csize_list r). pose proof (csize_pos x).
    destruct x; cbn [units err]; try lia.
    autorewrite with csz in *. rewrite units_bind.
    assert (Hu : units (if t =? tagInlinedArrayExtraData then newArrayExtraData decode_type_info x
                        else if t =? tagInlinedMapExtraData then newMapExtraData decode_type_info x
                        else if t =? tagInlinedCompactMapExtraData then newCompactMapExtraData decode_type_info utf8_valid fuel x
                        else err) + 2 <= 2 * csize x).
    { pose proof (csize_pos x).
      repeat match goal with |- context [if ?b then _ else _] => destruct b end;
        rewrite ?units_newArrayExtraData, ?units_newMapExtraData; cbn [units err]; try lia.
      apply units_newCompactMapExtraData. }
    destruct (out _); try lia.
    rewrite units_bind. destruct (out (extras_loop _ _ _ _)); cbn [units ret]; lia.
  Qed.

  Lemma np_newInlinedExtraData fuel n it : np (newInlinedExtraData decode_type_info utf8_valid fuel n it).
  Proof.
    unfold newInlinedExtraData.
    repeat first
      [ apply np_ret | apply np_err | apply np_make | apply np_type_infos_loop | apply np_extras_loop
      | apply np_decodeArrayHead
      | match goal with
        | |- np (bind _ _) => apply np_bind; [ | intros ? ? ]
        | |- np (if ?b then _ else _) => destruct b eqn:?
        | |- np (match ?x with _ => _ end) => destruct x
        end ].
  Qed.

  Lemma newInlinedExtraData_wf fuel n it es :
    out (newInlinedExtraData decode_type_info utf8_valid fuel n it) = Val es -> Forall wf_extra es.
  Proof.
    unfold newInlinedExtraData. intros H.
    repeat match type of H with
      | out (bind _ _) = Val _ => apply out_bind_val in H as (? & ? & H)
      | out (if ?b then _ else _) = Val _ => destruct b eqn:?; [cbn in H; discriminate|]
      | out (match ?x with _ => _ end) = Val _ => destruct x; try (cbn in H; discriminate)
      end.
    eapply extras_loop_wf; eassumption.
  Qed.

  Lemma units_newInlinedExtraData fuel n it :
    units (newInlinedExtraData decode_type_info utf8_valid fuel n it) + 2 <= 2 * csize it.
  Proof.
    unfold newInlinedExtraData. pose proof (csize_pos it).
    repeat first
      [ progress cbn [units ret err make_units]
      | rewrite units_decodeArrayHead | rewrite units_type_infos_loop
      | match goal with
        | |- context [units (bind ?m ?f)] => rewrite (units_bind m f); destruct (out m) eqn:?
        | |- context [units (if ?b then _ else _)] => destruct b eqn:?
        | |- context [units (match ?x with _ => _ end)] => destruct x eqn:?
        end ].
    all: u_facts; autorewrite with csz in *.
    all: repeat match goal with l : list citem |- _ => lazymatch goal with _ : lenN l <= csize_list l |- _ => fail | _ => pose proof (lenN_le_csize_list l) end end.
    all: try match goal with |- context [units (extras_loop _ _ ?f ?l)] => pose proof (units_extras_loop f l) end.
    all: lia.
  Qed.

  (* element loops of the standalone data slabs *)
  Lemma array_data_elements_safe fuel id ied isRoot checkRest it restLen :
    np (arrayDataElements utf8_valid fuel id ied isRoot checkRest it restLen) /\
    (Forall wf_extra ied -> units (arrayDataElements utf8_valid fuel id ied isRoot checkRest it restLen) + 2 <= 2 * csize it).
  Proof.
    unfold arrayDataElements. split.
    - apply np_bind; [apply np_decodeArrayHead|]. intros l _.
      destruct (maxUint32 <? lenN l); [apply np_err|].
      apply np_bind; [apply np_make|]. intros _ _.
      apply np_bind; [apply np_loop_acc; intros; apply (items_no_panic utf8_valid fuel)|]. intros r _.
      destruct (checkRest && (0 <? restLen)); [apply np_err | apply np_ret].
    - intros Hw. pose proof (csize_pos it).
      u_walk; u_facts; autorewrite with csz in *.
      all: repeat match goal with l : list citem |- _ => lazymatch goal with _ : lenN l <= csize_list l |- _ => fail | _ => pose proof (lenN_le_csize_list l) end end.
      all: try match goal with
           | |- context [units (loop_acc ?f ?sz ?e ?l ?s)] =>
             pose proof (units_loop_acc f sz e (fun x => proj1 (items_alloc utf8_valid fuel) _ _ x Hw) l s)
           end.
      all: lia.
  Qed.

  Lemma map_data_elements_safe fuel id ied isRoot it :
    np (mapDataElements utf8_valid fuel id ied isRoot it) /\
    (Forall wf_extra ied -> units (mapDataElements utf8_valid fuel id ied isRoot it) + 2 <= 2 * csize it).
  Proof.
    unfold mapDataElements. split.
    - apply np_bind; [apply (items_no_panic utf8_valid fuel)|]. intros els _.
      destruct (safeAdd2Uint32 _ _); [|apply np_err].
      destruct (if negb isRoot then _ else _); [apply np_ret | apply np_err].
    - intros Hw. pose proof (csize_pos it).
      pose proof (proj1 (proj2 (proj2 (proj2 (proj2 (items_alloc utf8_valid fuel))))) id ied it Hw) as He.
      rewrite units_bind. destruct (out _); try lia.
      destruct (safeAdd2Uint32 _ _); cbn [units err]; try lia.
      destruct (if negb isRoot then _ else _); cbn [units ret err]; lia.
  Qed.
End ExtraProofs.

(* ------------------------------------------------------------------------------------------ *)
(* the whole DecodeSlab                                                                        *)
(* ------------------------------------------------------------------------------------------ *)

Section WholeProofs.
  Variable wellformed : bytes -> option (citem * N).
  Variable decode_type_info : citem -> bool.
  Variable utf8_valid : bytes -> bool.
  (* the modelled facts about fxamacker/cbor: a validated item lies inside the input, and every node of the
     item and every payload byte of a string occupies at least one input byte *)
  Hypothesis wellformed_len : forall d it n, wellformed d = Some (it, n) -> n <= lenN d /\ csize it <= n.

  Let ael := go_array_extra_len wellformed decode_type_info.
  Let mel := go_map_extra_len wellformed decode_type_info.
  Let iel := fun fuel => go_inlined_extra_len wellformed decode_type_info utf8_valid fuel.

  Lemma ael_le d n : ael d = Some n -> n <= lenN d.
  Proof.
    unfold ael, go_array_extra_len. destruct (wellformed d) as [[it m]|] eqn:E; [|discriminate].
    destruct (is_val _); [|discriminate]. intros H; inversion H; subst. apply (wellformed_len _ _ _ E).
  Qed.
  Lemma mel_le d n : mel d = Some n -> n <= lenN d.
  Proof.
    unfold mel, go_map_extra_len. destruct (wellformed d) as [[it m]|] eqn:E; [|discriminate].
    destruct (is_val _); [|discriminate]. intros H; inversion H; subst. apply (wellformed_len _ _ _ E).
  Qed.
  Lemma iel_le fuel d n : iel fuel d = Some n -> n <= lenN d.
  Proof.
    unfold iel, go_inlined_extra_len. destruct (wellformed d) as [[it m]|] eqn:E; [|discriminate].
    destruct (is_val _); [|discriminate]. intros H; inversion H; subst. apply (wellformed_len _ _ _ E).
  Qed.

  Lemma decode_inlined_safe fuel inlb bound :
    (forall ib, inlb = Some ib -> lenN ib <= bound) ->
    np (decode_inlined wellformed decode_type_info utf8_valid fuel inlb) /\
    units (decode_inlined wellformed decode_type_info utf8_valid fuel inlb) <= 2 * bound /\
    (forall ied, out (decode_inlined wellformed decode_type_info utf8_valid fuel inlb) = Val ied -> Forall wf_extra ied).
  Proof.
    intros Hb. unfold decode_inlined. destruct inlb as [ib|].
    - specialize (Hb ib eq_refl).
      destruct (wellformed ib) as [[it n]|] eqn:E.
      + destruct (wellformed_len _ _ _ E) as [Hn Hc].
        split; [apply np_newInlinedExtraData|]. split.
        * pose proof (units_newInlinedExtraData decode_type_info utf8_valid fuel (lenN ib) it). lia.
        * intros ied. apply newInlinedExtraData_wf.
      + split; [apply np_err|]. split; [cbn; lia|]. cbn; discriminate.
    - split; [apply np_ret|]. split; [cbn; lia|]. cbn. intros ied H; inversion H; constructor.
  Qed.

  Theorem decode_slab_go_safe id data :
    np (decode_slab_go_m wellformed decode_type_info utf8_valid id data) /\
    units (decode_slab_go_m wellformed decode_type_info utf8_valid id data) <= 5 * (lenN data + 1).
  Proof.
    unfold decode_slab_go_m. set (fuel := fuel_of data).
    pose proof (decode_slab_fixed_safe ael mel (iel fuel) ael_le mel_le (iel_le fuel) id data) as [Hnp Hu].
    pose proof (decode_slab_fixed_sizes ael mel (iel fuel) ael_le mel_le (iel_le fuel) id data) as Hsz.
    fold ael mel. change (go_inlined_extra_len wellformed decode_type_info utf8_valid fuel) with (iel fuel).
    split.
    - apply np_bind; [exact Hnp|]. intros r Hr. specialize (Hsz r Hr).
      destruct r as [s|s|h next inlb content|h next inlb content|content]; try apply np_ret.
      + destruct Hsz as [Hc Hi].
        apply np_bind; [apply (decode_inlined_safe fuel inlb (lenN data) Hi)|]. intros ied _.
        destruct (wellformed content) as [[it n]|]; [|apply np_err].
        apply np_bind; [apply (proj1 (array_data_elements_safe decode_type_info utf8_valid fuel id ied (h_isRoot h) (h_version h =? 1) it (lenN content - n)))|]. intros; apply np_ret.
      + destruct Hsz as [Hc Hi].
        apply np_bind; [apply (decode_inlined_safe fuel inlb (lenN data) Hi)|]. intros ied _.
        destruct (wellformed content) as [[it n]|]; [|apply np_err].
        apply np_bind; [apply (proj1 (map_data_elements_safe decode_type_info utf8_valid fuel id ied (h_isRoot h) it))|]. intros; apply np_ret.
      + destruct (wellformed content) as [[it n]|]; [|apply np_err].
        apply np_bind; [apply (items_no_panic utf8_valid fuel)|]. intros; apply np_ret.
    - rewrite units_bind.
      destruct (out (decode_slab_fixed_m ael mel (iel fuel) id data)) as [r| |] eqn:Hr; try lia.
      specialize (Hsz r eq_refl).
      destruct r as [s|s|h next inlb content|h next inlb content|content]; cbn [units ret]; try lia.
      + destruct Hsz as [Hc Hi].
        destruct (decode_inlined_safe fuel inlb (lenN data) Hi) as (_ & Hui & Hwf).
        rewrite units_bind.
        destruct (out (decode_inlined wellformed decode_type_info utf8_valid fuel inlb)) as [ied| |] eqn:Hied; try lia.
        specialize (Hwf ied eq_refl).
        destruct (wellformed content) as [[it n]|] eqn:E; cbn [units err]; [|lia].
        destruct (wellformed_len _ _ _ E) as [Hn Hcs].
        rewrite units_bind.
        pose proof (proj2 (array_data_elements_safe decode_type_info utf8_valid fuel id ied (h_isRoot h) (h_version h =? 1) it (lenN content - n)) Hwf).
        destruct (out (arrayDataElements _ _ _ _ _ _ _ _)); cbn [units ret]; lia.
      + destruct Hsz as [Hc Hi].
        destruct (decode_inlined_safe fuel inlb (lenN data) Hi) as (_ & Hui & Hwf).
        rewrite units_bind.
        destruct (out (decode_inlined wellformed decode_type_info utf8_valid fuel inlb)) as [ied| |] eqn:Hied; try lia.
        specialize (Hwf ied eq_refl).
        destruct (wellformed content) as [[it n]|] eqn:E; cbn [units err]; [|lia].
        destruct (wellformed_len _ _ _ E) as [Hn Hcs].
        rewrite units_bind.
        pose proof (proj2 (map_data_elements_safe decode_type_info utf8_valid fuel id ied (h_isRoot h) it) Hwf).
        destruct (out (mapDataElements _ _ _ _ _ _)); cbn [units ret]; lia.
      + cbn [res_sizes] in Hsz.
        destruct (wellformed content) as [[it n]|] eqn:E; cbn [units err]; [|lia].
        destruct (wellformed_len _ _ _ E) as [Hn Hcs].
        rewrite units_bind.
        pose proof (proj1 (items_alloc utf8_valid fuel) id [] it (Forall_nil _)).
        destruct (out (decodeStorable _ _ _ _ _)); cbn [units ret]; lia.
  Qed.
End WholeProofs.

(* accessors on whatever DecodeSlab returned: total functions of the decoded value *)
Lemma accessors_no_panic : forall s fuel, byte_size_go s <> Panic /\ child_storables_go fuel s <> Panic.
Proof.
  intros s fuel. split.
  - destruct s; cbn; discriminate.
  - destruct s as [m|m|n st|n st|st]; cbn; try discriminate.
    + destruct st; discriminate.
    + destruct st; discriminate.
Qed.

(* the assumption NumBytesDecoded() <= len(data) is needed: without it `data[n:]` panics *)
Lemma after_extra_needs_bound : exists el d, out (after_extra el d) = Panic.
Proof. exists (fun _ => Some 1), []. reflexivity. Qed.

(* ------------------------------------------------------------------------------------------ *)
(* the concrete extra-data parsers of the trace engine satisfy the cbor assumption             *)
(* ------------------------------------------------------------------------------------------ *)
From AtreeModel Require Import Proto DecodeTrace.

Lemma cbor_head_le d m v hl : cbor_head d = Some (m, v, hl) -> 1 <= hl /\ hl <= lenN d.
Proof.
  unfold cbor_head. destruct d as [|b r]; [discriminate|].
  rewrite lenN_cons.
  repeat match goal with |- context [if ?c then _ else _] => destruct c eqn:? end;
    intros H; inversion H; subst; lia.
Qed.

Lemma uint_len_le d n : uint_len d = Some n -> 1 <= n /\ n <= lenN d.
Proof.
  unfold uint_len. destruct (cbor_head d) as [[[m v] hl]|] eqn:E; [|discriminate].
  destruct m; [|discriminate]. intros H; inversion H; subst. eapply cbor_head_le; eassumption.
Qed.

Lemma typeinfo_len_le d n : typeinfo_len d = Some n -> n <= lenN d.
Proof.
  unfold typeinfo_len. destruct (cbor_head d) as [[[m v] hl]|] eqn:E; [|discriminate].
  apply cbor_head_le in E as [E1 E2].
  destruct m as [|p]; [intros H; inversion H; subst; lia|].
  destruct p as [p|p|]; try discriminate. destruct p as [p|p|]; try discriminate. destruct p; try discriminate.
  destruct ((v =? 200) || (v =? 246)); [|discriminate].
  destruct (uint_len (skipn (N.to_nat hl) d)) as [ul|] eqn:Eu; [|discriminate].
  apply uint_len_le in Eu as [_ Eu]. rewrite lenN_skipn in Eu.
  intros H; inversion H; subst. lia.
Qed.

Lemma concrete_array_extra_le d n : concrete_array_extra_len d = Some n -> n <= lenN d.
Proof.
  unfold concrete_array_extra_len. destruct (cbor_head d) as [[[m v] hl]|] eqn:E; [|discriminate].
  apply cbor_head_le in E as [E1 E2].
  destruct m as [|p]; try discriminate. destruct p as [p|p|]; try discriminate.
  destruct p as [p|p|]; try discriminate. destruct p; try discriminate.
  destruct v as [|q]; try discriminate. destruct q; try discriminate.
  destruct (typeinfo_len (skipn (N.to_nat hl) d)) as [tl|] eqn:Et; [|discriminate].
  apply typeinfo_len_le in Et. rewrite lenN_skipn in Et. intros H; inversion H; subst. lia.
Qed.

Lemma concrete_map_extra_le d n : concrete_map_extra_len d = Some n -> n <= lenN d.
Proof.
  unfold concrete_map_extra_len. destruct (cbor_head d) as [[[m v] hl]|] eqn:E; [|discriminate].
  apply cbor_head_le in E as [E1 E2].
  destruct m as [|p]; try discriminate. destruct p as [p|p|]; try discriminate.
  destruct p as [p|p|]; try discriminate. destruct p; try discriminate.
  destruct v as [|q]; try discriminate. destruct q as [q|q|]; try discriminate. destruct q; try discriminate.
  destruct (typeinfo_len (skipn (N.to_nat hl) d)) as [tl|] eqn:Et; [|discriminate].
  apply typeinfo_len_le in Et. rewrite lenN_skipn in Et.
  destruct (uint_len (skipn (N.to_nat tl) (skipn (N.to_nat hl) d))) as [cl|] eqn:Ec; [|discriminate].
  apply uint_len_le in Ec as [_ Ec]. rewrite !lenN_skipn in Ec.
  destruct (uint_len (skipn (N.to_nat cl) (skipn (N.to_nat tl) (skipn (N.to_nat hl) d)))) as [sl|] eqn:Es; [|discriminate].
  apply uint_len_le in Es as [_ Es]. rewrite !lenN_skipn in Es.
  intros H; inversion H; subst. lia.
Qed.

Lemma no_inlined_extra_le d n : no_inlined_extra_len d = Some n -> n <= lenN d.
Proof. discriminate. Qed.

(* the decoder the trace engine runs (and the Go harness is compared against) never panics *)
Theorem decode_concrete_safe id data :
  decode_concrete id data <> Panic /\
  alloc_units_fixed concrete_array_extra_len concrete_map_extra_len no_inlined_extra_len id data <= lenN data.
Proof.
  exact (decode_slab_fixed_safe _ _ _ concrete_array_extra_le concrete_map_extra_le no_inlined_extra_le id data).
Qed.
