(* Nested_steps.v — each operation of Nested.v, as an instance of the edit / notify / post-step
   pattern, yields [op_result]. *)
From Coq Require Import ZArith NArith List Bool Lia Arith.
From AtreeGen Require Import Consts.
From AtreeModel Require Import Nested.
From AtreeProofs Require Import Nested_base Nested_resync Nested_chain Nested_edit Nested_ops.
Import ListNotations.
Local Open Scope N_scope.

Lemma dirty_set_callback g f p i s x : dirty (set_callback g f p i s) x = dirty f x.
Proof.
  unfold set_callback. destruct (s_val s); auto. destruct (fget f p) as [c|]; auto.
  destruct (c_kind c); destruct (fget _ v); auto.
Qed.

Lemma pipe_dirty_t g f t c l' sz idx' i s' :
  c_inl c = false -> dirty (pipe g f t c l' sz idx' i s') t = Some true.
Proof. intros H. unfold pipe. rewrite dirty_set_callback. now apply commit_slots_dirty. Qed.

Lemma pipe_dirty_ne g f t c l' sz idx' i s' x :
  x <> t -> (forall v w, s_val s' = NChild v w -> x <> v) -> dirty (pipe g f t c l' sz idx' i s') x = dirty f x.
Proof.
  intros Hxt Hxv. unfold pipe. rewrite dirty_set_callback, commit_slots_dirty_ne by auto.
  destruct (s_val s') as [|v w] eqn:E; cbn [storable_elem]; auto. apply storable_dirty_ne. eauto.
Qed.

Lemma pipe_frame n g f t c l' sz idx' i s' od x :
  ectx n g f (pipe g f t c l' sz idx' i s') t c l' (idx3_of c idx' i s') (nc_of i s') ->
  x <> t -> ~ touched_by (nc_of i s') od x ->
  fget (pipe g f t c l' sz idx' i s') x = fget f x /\ dirty (pipe g f t c l' sz idx' i s') x = dirty f x.
Proof.
  intros X Hxt Hnt. split.
  - destruct X as [_ _ (_ & Eo & _) _ _ _]. apply Eo; auto.
    intros v w i0 s0 Hnc ->. apply Hnt. left. eauto.
  - apply pipe_dirty_ne; auto. intros v w Hv ->. apply Hnt. left. unfold nc_of. rewrite Hv. eauto.
Qed.

Lemma aget_shift_up i idx v :
  aget (shift_up i idx) v = option_map (fun j => if Nat.leb i j then S j else j) (aget idx v).
Proof.
  unfold shift_up. rewrite aget_map_cond.
  - destruct (aget idx v) as [j|]; cbn [option_map snd fst]; auto. destruct (Nat.leb i j); reflexivity.
  - intros [k j]. cbn [fst snd]. destruct (Nat.leb i j); reflexivity.
Qed.

Lemma aget_shift_down i idx v :
  aget (shift_down i idx) v = option_map (fun j => if Nat.ltb i j then pred j else j) (aget idx v).
Proof.
  unfold shift_down. rewrite aget_map_cond.
  - destruct (aget idx v) as [j|]; cbn [option_map snd fst]; auto. destruct (Nat.ltb i j); reflexivity.
  - intros [k j]. cbn [fst snd]. destruct (Nat.ltb i j); reflexivity.
Qed.

Lemma aget_In {A} (l : list (N * A)) v x : aget l v = Some x -> In (v, x) l.
Proof.
  induction l as [|[k y] r IH]; cbn; [discriminate|].
  destruct (N.eqb_spec k v) as [->|]; [intros [= ->]; auto|auto].
Qed.

Lemma In_aset {A} (l : list (N * A)) v x v' y : In (v', y) (aset l v x) -> (v' = v /\ y = x) \/ In (v', y) l.
Proof.
  induction l as [|[k z] r IH]; cbn.
  - intros [[= <- <-]|[]]. auto.
  - destruct (N.eqb_spec k v) as [->|Hne]; cbn.
    + intros [[= <- <-]|H]; auto.
    + intros [[= <- <-]|H]; auto. destruct (IH H); auto.
Qed.

Lemma In_adel {A} (l : list (N * A)) v v' y : In (v', y) (adel l v) -> v' <> v /\ In (v', y) l.
Proof.
  induction l as [|[k z] r IH]; cbn; [intros []|].
  destruct (N.eqb_spec k v) as [->|Hne]; cbn.
  - intros H. destruct (IH H). auto.
  - intros [[= <- <-]|H]; auto. destruct (IH H). auto.
Qed.

Lemma In_shift_up i idx v j :
  In (v, j) (shift_up i idx) -> exists j0, In (v, j0) idx /\ j = if Nat.leb i j0 then S j0 else j0.
Proof.
  unfold shift_up. intros H. apply in_map_iff in H. destruct H as ([k j0] & Heq & Hin). cbn [fst snd] in Heq.
  destruct (Nat.leb i j0) eqn:E; injection Heq as <- <-; exists j0; rewrite E; auto.
Qed.

Lemma In_shift_down i idx v j :
  In (v, j) (shift_down i idx) -> exists j0, In (v, j0) idx /\ j = if Nat.ltb i j0 then pred j0 else j0.
Proof.
  unfold shift_down. intros H. apply in_map_iff in H. destruct H as ([k j0] & Heq & Hin). cbn [fst snd] in Heq.
  destruct (Nat.ltb i j0) eqn:E; injection Heq as <- <-; exists j0; rewrite E; auto.
Qed.

Lemma shift_up_ok f p c i :
  idx_ok f -> fget f p = Some c -> shift_up_fails i (S (length (c_slots c))) (c_idx c) = false.
Proof.
  intros Hi Hc. unfold shift_up_fails. apply not_true_is_false. intros H.
  apply existsb_exists in H. destruct H as ([v j] & Hin & Hb). cbn in Hb.
  apply andb_true_iff in Hb. destruct Hb as [_ Hb]. apply Nat.leb_le in Hb.
  destruct (Hi p c Hc) as [H1 _]. destruct (H1 v j Hin) as (s & w & Hn & _).
  assert (j < length (c_slots c))%nat by (apply nth_error_Some; congruence). lia.
Qed.

(* facts every operation on container t starts from *)
Lemma fwf_parts n g f : fwf n g f -> fstruct n g f /\ idx_ok f /\ csize_ok g f /\ forall v, inl_ok g f v.
Proof. auto. Qed.

Lemma storable_elem_get_t n g f t k ksz e :
  elem_ok n f t e -> fget (storable_elem g f k ksz e) t = fget f t.
Proof.
  destruct e as [|v w]; cbn [storable_elem]; auto. intros Hok.
  destruct (elem_ok_child _ _ _ _ _ Hok) as (Hvt & _). rewrite storable_get.
  destruct (N.eqb_spec t v); [congruence|auto].
Qed.

Lemma storable_elem_child_size n g f t k ksz e x :
  elem_ok n f t e -> attached f x -> child_size (storable_elem g f k ksz e) x = child_size f x.
Proof.
  destruct e as [|v w]; cbn [storable_elem]; auto. intros Hok Ha.
  destruct (elem_ok_child _ _ _ _ _ Hok) as (_ & _ & Hna & _). apply child_size_get. rewrite storable_get.
  destruct (N.eqb_spec x v) as [->|]; [contradiction|auto].
Qed.

Lemma data_size_old n g f t c k ksz e :
  fget f t = Some c -> elem_ok n f t e ->
  forall l, (forall s, In s l -> In s (c_slots c)) ->
  data_size g (storable_elem g f k ksz e) (c_kind c) l = data_size g f (c_kind c) l.
Proof.
  intros Hc Hok l Hsub. apply data_size_ext. intros s v w Hin Hv.
  eapply storable_elem_child_size; eauto.
  destruct (In_edge _ _ _ _ _ _ Hc (Hsub s Hin) Hv) as (j & E). now exists t, j, s, w.
Qed.

(* ---------- Array.Insert ---------- *)
Lemma arr_insert_res n g f p i e f' ok :
  fwf n g f -> op_ok n f (OArrInsert p i e) -> arr_insert n g f p i e = (f', ok) ->
  exists c, fget f p = Some c /\ ok = true /\
    op_result n g f f' p (insert_nth i (mkSlot 0 0 e) (c_slots c)) (touched_by (nc_of i (mkSlot 0 0 e)) None).
Proof.
  intros Hwf ((c & Hc & Hk & Hi) & Hok) Hstep. exists c. split; auto.
  destruct (fwf_parts _ _ _ Hwf) as (HS & Hidx & Hcs & Hio).
  unfold arr_insert in Hstep. rewrite Hc in Hstep. unfold is_arr in Hstep. rewrite Hk in Hstep. cbn [negb orb] in Hstep.
  destruct (Nat.ltb_spec (length (c_slots c)) i) as [Hlt|_]; [lia|].
  rewrite (storable_elem_get_t n g f p KArr 0 e Hok), Hc in Hstep.
  set (s' := mkSlot 0 0 e) in *. set (l' := insert_nth i s' (c_slots c)) in *.
  assert (Hlen : length l' = S (length (c_slots c))) by (apply insert_nth_length; auto).
  rewrite Hlen, (shift_up_ok f p c i Hidx Hc) in Hstep.
  set (sz := c_csize c + esize g (storable_elem g f KArr 0 e) e) in *.
  replace (storable_elem g f KArr 0 e) with (storable_elem g f (c_kind c) (s_ksz s') (s_val s')) in * by (rewrite Hk; reflexivity).
  change (set_callback g (commit_slots (storable_elem g f (c_kind c) (s_ksz s') (s_val s')) p c l' sz (shift_up i (c_idx c))) p i s')
    with (pipe g f p c l' sz (shift_up i (c_idx c)) i s') in Hstep.
  assert (Hnth : nth_error l' i = Some s') by (apply nth_error_insert_nth_eq; auto).
  assert (Hsz : sz = data_size g (storable_elem g f (c_kind c) (s_ksz s') (s_val s')) (c_kind c) l').
  { unfold sz, l'. rewrite (Hcs p c Hc).
    rewrite <- (data_size_old n g f p c (c_kind c) (s_ksz s') (s_val s') Hc Hok (c_slots c)) by auto.
    unfold data_size. rewrite sum_slots_insert by auto. rewrite Hk. unfold s'. cbn [base slot_size s_val s_ksz]. lia. }
  assert (HF : slots_from c l' (idx3_of c (shift_up i (c_idx c)) i s') (nc_of i s')).
  { intros j s v' w' Hj Hv'. unfold l' in Hj.
    destruct (Nat.lt_trichotomy j i) as [Hji|[->|Hji]].
    - rewrite nth_error_insert_nth_lt in Hj by auto.
      destruct (st_hooked _ _ _ HS p c j s v' w' Hc Hj Hv') as (cv & Hcv & _ & Hix). split; [|eauto].
      intros _. specialize (Hix Hk).
      assert (Hg : aget (shift_up i (c_idx c)) v' = Some j).
      { rewrite aget_shift_up, Hix. cbn. destruct (Nat.leb_spec i j); [lia|auto]. }
      unfold idx3_of. destruct (s_val s') as [|v w] eqn:Es; auto. unfold idx_with. rewrite Hk.
      rewrite aget_aset_ne; auto. intros ->. cbn in Es. subst e.
      destruct (elem_ok_child _ _ _ _ _ Hok) as (_ & _ & Hna & _). apply Hna. exists p, j, s, w', c. auto.
    - rewrite nth_error_insert_nth_eq in Hj by auto. injection Hj as <-. split.
      + intros _. unfold idx3_of. rewrite Hv'. unfold idx_with. rewrite Hk. apply aget_aset_eq.
      + left. unfold nc_of. now rewrite Hv'.
    - destruct j as [|j]; [lia|]. rewrite nth_error_insert_nth_gt in Hj by lia.
      destruct (st_hooked _ _ _ HS p c j s v' w' Hc Hj Hv') as (cv & Hcv & _ & Hix). split; [|eauto].
      intros _. specialize (Hix Hk).
      assert (Hg : aget (shift_up i (c_idx c)) v' = Some (S j)).
      { rewrite aget_shift_up, Hix. cbn. destruct (Nat.leb_spec i j); [auto|lia]. }
      unfold idx3_of. destruct (s_val s') as [|v w] eqn:Es; auto. unfold idx_with. rewrite Hk.
      rewrite aget_aset_ne; auto. intros ->. cbn in Es. subst e.
      destruct (elem_ok_child _ _ _ _ _ Hok) as (_ & _ & Hna & _). apply Hna. exists p, j, s, w', c. auto. }
  assert (X : ectx n g f (pipe g f p c l' sz (shift_up i (c_idx c)) i s') p c l' (idx3_of c (shift_up i (c_idx c)) i s') (nc_of i s')).
  { apply mk_ctx; auto. rewrite Hk. discriminate. }
  pose proof (edit_master2 n g f _ p c l' _ _ f' ok None false X Hwf Hstep) as HM.
  cbn [post_steps idx_fin] in HM. apply HM; clear HM.
  - apply pipe_dirty_t.
  - intros x Hxp Hnt. eapply pipe_frame; eauto.
  - discriminate.
  - intros v j Hin. unfold idx3_of in Hin.
    assert (Hold : forall v j, In (v, j) (shift_up i (c_idx c)) -> exists s w, nth_error l' j = Some s /\ s_val s = NChild v w).
    { intros v0 j0 H0. destruct (In_shift_up _ _ _ _ H0) as (j1 & Hin1 & ->).
      destruct (Hidx p c Hc) as [H1 _]. destruct (H1 v0 j1 Hin1) as (s & w & Hn1 & Hv1). exists s, w. split; auto.
      unfold l'. destruct (Nat.leb_spec i j1).
      - rewrite nth_error_insert_nth_gt by lia. auto.
      - rewrite nth_error_insert_nth_lt by lia. auto. }
    destruct (s_val s') as [|v0 w0] eqn:Es; auto. unfold idx_with in Hin. rewrite Hk in Hin.
    destruct (In_aset _ _ _ _ _ Hin) as [(-> & ->)|Hin']; auto. exists s', w0. auto.
  - rewrite Hk. discriminate.
Qed.

(* ---------- private set on an existing slot + the public post steps (Array.Set / OrderedMap.Set on a present key) ---------- *)
Definition od_of (e : elem) : option (N * N) := match e with NChild v w => Some (v, w) | NScalar _ _ => None end.

Lemma post_steps_eq f4 p o del :
  post_steps f4 p (od_of o) del =
  match o with
  | NChild v0 _ => if del then del_idx (uninline_old f4 o) p v0 else uninline_old f4 o
  | NScalar _ _ => f4
  end.
Proof. destruct o; reflexivity. Qed.

Lemma cset_res n g f p c i s e f4 ok old del :
  fwf n g f -> fget f p = Some c -> nth_error (c_slots c) i = Some s -> elem_ok n f p e ->
  cset_body (notify n g) g f p i e = (f4, ok, old) -> del = is_arr c ->
  old = Some (s_val s) /\ ok = true /\
  op_result n g f (post_steps f4 p (od_of (s_val s)) del) p
            (replace_nth i (mkSlot (s_kid s) (s_ksz s) e) (c_slots c))
            (touched_by (nc_of i (mkSlot (s_kid s) (s_ksz s) e)) (od_of (s_val s))) /\
  (forall v0 w0, s_val s = NChild v0 w0 -> detached (post_steps f4 p (od_of (s_val s)) del) v0).
Proof.
  intros Hwf Hc Hn Hok Hstep Hdel.
  destruct (fwf_parts _ _ _ Hwf) as (HS & Hidx & Hcs & Hio).
  unfold cset_body in Hstep. rewrite Hc, Hn in Hstep.
  rewrite (storable_elem_get_t n g f p (c_kind c) (s_ksz s) e Hok), Hc in Hstep.
  set (s' := mkSlot (s_kid s) (s_ksz s) e) in *. set (l' := replace_nth i s' (c_slots c)) in *.
  set (sz := data_size g (storable_elem g f (c_kind c) (s_ksz s) e) (c_kind c) l') in *.
  change (set_callback g (commit_slots (storable_elem g f (c_kind c) (s_ksz s) e) p c l' sz (c_idx c)) p i s')
    with (pipe g f p c l' sz (c_idx c) i s') in Hstep.
  destruct (notify n g (pipe g f p c l' sz (c_idx c) i s') p) as [f4' ok'] eqn:Hntf.
  injection Hstep as <- <- <-. split; auto.
  assert (Hnth : nth_error l' i = Some s') by (eapply nth_error_replace_nth_eq; eauto).
  assert (Hnew_unatt : forall v w, e = NChild v w -> ~ attached f v).
  { intros v w ->. now destruct (elem_ok_child _ _ _ _ _ Hok) as (_ & _ & Hna & _). }
  assert (HF : slots_from c l' (idx3_of c (c_idx c) i s') (nc_of i s')).
  { intros j s1 v' w' Hj Hv'. destruct (Nat.eq_dec j i) as [->|Hji].
    - rewrite Hnth in Hj. injection Hj as <-. split.
      + intros Hk. unfold idx3_of. rewrite Hv'. unfold idx_with. rewrite Hk. apply aget_aset_eq.
      + left. unfold nc_of. now rewrite Hv'.
    - unfold l' in Hj. rewrite nth_error_replace_nth_ne in Hj by auto.
      destruct (st_hooked _ _ _ HS p c j s1 v' w' Hc Hj Hv') as (cv & Hcv & _ & Hix). split; [|eauto].
      intros Hk. specialize (Hix Hk). unfold idx3_of. destruct (s_val s') as [|v w] eqn:Es; auto.
      unfold idx_with. rewrite Hk. rewrite aget_aset_ne; auto. intros ->. cbn in Es.
      apply (Hnew_unatt _ _ Es). exists p, j, s1, w', c. auto. }
  assert (X : ectx n g f (pipe g f p c l' sz (c_idx c) i s') p c l' (idx3_of c (c_idx c) i s') (nc_of i s')).
  { apply mk_ctx; auto. intros Hk. unfold l'. rewrite (map_kid_replace i s' (c_slots c) s); auto. eapply st_keys; eauto. }
  pose proof (edit_master n g f _ p c l' _ _ f4' ok' (od_of (s_val s)) del X Hwf Hntf) as HM.
  assert (HM' : ok' = true /\ op_result n g f (post_steps f4' p (od_of (s_val s)) del) p l' (touched_by (nc_of i s') (od_of (s_val s))) /\
                (forall v0 w0, od_of (s_val s) = Some (v0, w0) -> detached (post_steps f4' p (od_of (s_val s)) del) v0));
    [|destruct HM' as (A & B & C); split; [exact A|]; split; [exact B|]; intros v0 w0 Hv0; apply (C v0 w0); now rewrite Hv0].
  apply HM; clear HM.
  - apply pipe_dirty_t.
  - intros x Hxp Hnt. eapply pipe_frame; eauto.
  - intros v0 w0 Hod. unfold od_of in Hod. destruct (s_val s) as [|v0' w0'] eqn:Eo; [discriminate|]. injection Hod as <- <-.
    split; [eauto|]. intros s1 w Hin Hv1. destruct (In_nth_error _ _ Hin) as (j & Hj).
    destruct (Nat.eq_dec j i) as [->|Hji].
    + rewrite Hnth in Hj. injection Hj as <-. cbn in Hv1. apply (Hnew_unatt _ _ Hv1). exists p, i, s, w0', c. auto.
    + unfold l' in Hj. rewrite nth_error_replace_nth_ne in Hj by auto.
      assert (E1 : edge f p j s1 v0' w) by (exists c; auto).
      assert (E2 : edge f p i s v0' w0') by (exists c; auto).
      destruct (edge_unique _ _ _ HS _ _ _ _ _ _ _ _ _ E1 E2) as (_ & Hj' & _). congruence.
  - intros v j Hin.
    assert (Hold : forall v j, In (v, j) (c_idx c) -> (forall w, s_val s <> NChild v w) ->
                               exists s1 w, nth_error l' j = Some s1 /\ s_val s1 = NChild v w).
    { intros v1 j1 H1 Hne. destruct (Hidx p c Hc) as [Hi1 _]. destruct (Hi1 v1 j1 H1) as (s1 & w1 & Hn1 & Hv1).
      exists s1, w1. split; auto. unfold l'. rewrite nth_error_replace_nth_ne; auto.
      intros ->. rewrite Hn in Hn1. injection Hn1 as <-. eapply Hne; eauto. }
    assert (H3 : forall v j, In (v, j) (idx3_of c (c_idx c) i s') -> (forall w, s_val s <> NChild v w) ->
                             exists s1 w, nth_error l' j = Some s1 /\ s_val s1 = NChild v w).
    { intros v1 j1 H1 Hne. unfold idx3_of in H1. destruct (s_val s') as [|v0 w0] eqn:Es; auto.
      unfold idx_with in H1. destruct (c_kind c); auto.
      destruct (In_aset _ _ _ _ _ H1) as [(-> & ->)|H1']; auto. exists s', w0. auto. }
    unfold idx_fin, od_of in Hin. destruct (s_val s) as [|v0 w0] eqn:Eo.
    + apply H3; auto. discriminate.
    + destruct del.
      * destruct (In_adel _ _ _ _ Hin) as (Hne & Hin'). apply H3; auto. intros w [= ->]. congruence.
      * (* maps: the index map is empty *)
        destruct (Hidx p c Hc) as [_ Hmap]. unfold is_arr in Hdel. destruct (c_kind c) eqn:Ek; [discriminate|].
        unfold idx3_of in Hin. rewrite (Hmap eq_refl) in Hin. destruct (s_val s'); unfold idx_with in Hin; try rewrite Ek in Hin; destruct Hin.
  - intros Hk. destruct (Hidx p c Hc) as [_ Hmap]. specialize (Hmap Hk).
    assert (H3 : idx3_of c (c_idx c) i s' = []).
    { unfold idx3_of. rewrite Hmap. destruct (s_val s'); auto. unfold idx_with. now rewrite Hk. }
    unfold idx_fin. rewrite H3. destruct (od_of (s_val s)) as [[? ?]|]; auto. destruct del; auto.
Qed.

Lemma arr_set_res n g f p i e f' ok :
  fwf n g f -> op_ok n f (OArrSet p i e) -> arr_set n g f p i e = (f', ok) ->
  exists c s, fget f p = Some c /\ nth_error (c_slots c) i = Some s /\ ok = true /\
    op_result n g f f' p (replace_nth i (mkSlot (s_kid s) (s_ksz s) e) (c_slots c))
              (touched_by (nc_of i (mkSlot (s_kid s) (s_ksz s) e)) (od_of (s_val s))) /\
    (forall v0 w0, s_val s = NChild v0 w0 -> detached f' v0).
Proof.
  intros Hwf ((c & Hc & Hk & Hi) & Hok) Hstep.
  destruct (nth_error (c_slots c) i) as [s|] eqn:Hn; [|apply nth_error_None in Hn; lia].
  exists c, s. split; auto. split; auto.
  unfold arr_set in Hstep. rewrite Hc in Hstep. unfold is_arr in Hstep. rewrite Hk in Hstep. cbn [negb] in Hstep.
  destruct (cset_body (notify n g) g f p i e) as [[f1 ok1] old] eqn:Hcs.
  destruct (cset_res n g f p c i s e f1 ok1 old true Hwf Hc Hn Hok Hcs) as (-> & -> & Hres & Hdet).
  { unfold is_arr. now rewrite Hk. }
  injection Hstep as <- <-. split; auto.
  assert (Heq : match s_val s with
                | NChild v0 _ => if same_child e v0 then uninline_old f1 (s_val s) else del_idx (uninline_old f1 (s_val s)) p v0
                | NScalar _ _ => uninline_old f1 (s_val s)
                end = post_steps f1 p (od_of (s_val s)) true).
  { rewrite post_steps_eq. destruct (s_val s) as [|v0 w0] eqn:Eo; auto.
    assert (Hsc : same_child e v0 = false).
    { destruct e as [|v w]; cbn; auto. destruct (N.eqb_spec v v0) as [->|]; auto. exfalso.
      destruct (elem_ok_child _ _ _ _ _ Hok) as (_ & _ & Hna & _). apply Hna. exists p, i, s, w0, c. auto. }
    now rewrite Hsc. }
  rewrite Heq. auto.
Qed.

(* ---------- removal of a slot (Array.Remove / OrderedMap.Remove) ---------- *)
Lemma commit_frame f t c l sz idx x :
  x <> t -> fget (commit_slots f t c l sz idx) x = fget f x /\ dirty (commit_slots f t c l sz idx) x = dirty f x.
Proof.
  intros H. rewrite commit_slots_get, commit_slots_dirty_ne by auto. destruct (N.eqb_spec t x); [congruence|auto].
Qed.

Lemma remove_res n g f p c i s del idx' f3 ok :
  fwf n g f -> fget f p = Some c -> nth_error (c_slots c) i = Some s -> del = is_arr c ->
  idx' = (if is_arr c then shift_down i (c_idx c) else c_idx c) ->
  notify n g (commit_slots f p c (remove_nth i (c_slots c)) (c_csize c - slot_size g f (c_kind c) s) idx') p = (f3, ok) ->
  ok = true /\
  op_result n g f (post_steps f3 p (od_of (s_val s)) del) p (remove_nth i (c_slots c)) (touched_by None (od_of (s_val s))) /\
  (forall v0 w0, s_val s = NChild v0 w0 -> detached (post_steps f3 p (od_of (s_val s)) del) v0).
Proof.
  intros Hwf Hc Hn Hdel Hidx' Hstep.
  destruct (fwf_parts _ _ _ Hwf) as (HS & Hidx & Hcs & Hio).
  set (l' := remove_nth i (c_slots c)) in *.
  assert (Hpos : forall j s1, nth_error l' j = Some s1 ->
            exists j0, nth_error (c_slots c) j0 = Some s1 /\ j0 <> i /\ j = (if Nat.ltb i j0 then pred j0 else j0)).
  { intros j s1 Hj. unfold l' in Hj. destruct (Nat.lt_ge_cases j i) as [Hlt|Hge].
    - rewrite nth_error_remove_nth_lt in Hj by auto. exists j. repeat split; auto; try lia.
      destruct (Nat.ltb_spec i j); [lia|auto].
    - rewrite nth_error_remove_nth_ge in Hj by auto. exists (S j). repeat split; auto; try lia.
      destruct (Nat.ltb_spec i (S j)); [auto|lia]. }
  assert (Hsz : c_csize c - slot_size g f (c_kind c) s = data_size g f (c_kind c) l').
  { rewrite (Hcs p c Hc). unfold data_size, l'. rewrite (sum_slots_remove g f (c_kind c) i s (c_slots c) Hn). lia. }
  assert (HF : slots_from c l' idx' None).
  { intros j s1 v' w' Hj Hv'. destruct (Hpos j s1 Hj) as (j0 & Hj0 & Hne & Hjeq). split; [|eauto].
    intros Hk. destruct (st_hooked _ _ _ HS p c j0 s1 v' w' Hc Hj0 Hv') as (cv & _ & _ & Hix). specialize (Hix Hk).
    rewrite Hidx'. unfold is_arr. rewrite Hk. rewrite aget_shift_down, Hix. cbn [option_map]. now rewrite Hjeq. }
  assert (X : ectx n g f (commit_slots f p c l' (c_csize c - slot_size g f (c_kind c) s) idx') p c l' idx' None).
  { apply mk_ctx0; auto. intros Hk. apply NoDup_remove_nth. eapply st_keys; eauto. }
  pose proof (edit_master n g f _ p c l' _ _ f3 ok (od_of (s_val s)) del X Hwf Hstep) as HM.
  assert (HM' : ok = true /\ op_result n g f (post_steps f3 p (od_of (s_val s)) del) p l' (touched_by None (od_of (s_val s))) /\
                (forall v0 w0, od_of (s_val s) = Some (v0, w0) -> detached (post_steps f3 p (od_of (s_val s)) del) v0));
    [|destruct HM' as (A & B & C); split; [exact A|]; split; [exact B|]; intros v0 w0 Hv0; apply (C v0 w0); now rewrite Hv0].
  apply HM; clear HM.
  - apply commit_slots_dirty.
  - intros x Hxp _. now apply commit_frame.
  - intros v0 w0 Hod. unfold od_of in Hod. destruct (s_val s) as [|v0' w0'] eqn:Eo; [discriminate|]. injection Hod as <- <-.
    split; [eauto|]. intros s1 w Hin Hv1. destruct (In_nth_error _ _ Hin) as (j & Hj).
    destruct (Hpos j s1 Hj) as (j0 & Hj0 & Hne & _).
    assert (E1 : edge f p j0 s1 v0' w) by (exists c; auto).
    assert (E2 : edge f p i s v0' w0') by (exists c; auto).
    destruct (edge_unique _ _ _ HS _ _ _ _ _ _ _ _ _ E1 E2) as (_ & Hj' & _). congruence.
  - intros v j Hin. destruct (Hidx p c Hc) as [Hi1 Hmap].
    assert (H3 : forall v j, In (v, j) idx' -> (forall w, s_val s <> NChild v w) ->
                             exists s1 w, nth_error l' j = Some s1 /\ s_val s1 = NChild v w).
    { intros v1 j1 H1 Hne. rewrite Hidx' in H1. unfold is_arr in H1. destruct (c_kind c) eqn:Ek.
      - destruct (In_shift_down _ _ _ _ H1) as (j0 & Hin0 & ->).
        destruct (Hi1 v1 j0 Hin0) as (s1 & w1 & Hn1 & Hv1). exists s1, w1. split; auto.
        assert (j0 <> i) by (intros ->; rewrite Hn in Hn1; injection Hn1 as <-; eapply Hne; eauto).
        unfold l'. destruct (Nat.ltb_spec i j0).
        + rewrite nth_error_remove_nth_ge by lia. destruct j0; [lia|]. auto.
        + rewrite nth_error_remove_nth_lt by lia. auto.
      - rewrite (Hmap eq_refl) in H1. destruct H1. }
    unfold idx_fin, od_of in Hin. destruct (s_val s) as [|v0 w0] eqn:Eo.
    + apply H3; auto. discriminate.
    + destruct del.
      * destruct (In_adel _ _ _ _ Hin) as (Hne & Hin'). apply H3; auto. intros w [= ->]. congruence.
      * apply H3; auto. intros w [= -> ->].
        unfold is_arr in Hdel. destruct (c_kind c) eqn:Ek; [discriminate|]. rewrite Hidx' in Hin. unfold is_arr in Hin.
        rewrite Ek, (Hmap eq_refl) in Hin. destruct Hin.
  - intros Hk. destruct (Hidx p c Hc) as [_ Hmap]. specialize (Hmap Hk).
    assert (H3 : idx' = []) by (rewrite Hidx'; unfold is_arr; now rewrite Hk).
    unfold idx_fin. rewrite H3. destruct (od_of (s_val s)) as [[? ?]|]; auto. destruct del; auto.
Qed.

Lemma arr_remove_res n g f p i f' ok :
  fwf n g f -> op_ok n f (OArrRemove p i) -> arr_remove n g f p i = (f', ok) ->
  exists c s, fget f p = Some c /\ nth_error (c_slots c) i = Some s /\ ok = true /\
    op_result n g f f' p (remove_nth i (c_slots c)) (touched_by None (od_of (s_val s))) /\
    (forall v0 w0, s_val s = NChild v0 w0 -> detached f' v0).
Proof.
  intros Hwf (c & Hc & Hk & Hi) Hstep.
  destruct (nth_error (c_slots c) i) as [s|] eqn:Hn; [|apply nth_error_None in Hn; lia].
  exists c, s. split; auto. split; auto.
  unfold arr_remove in Hstep. rewrite Hc in Hstep. unfold is_arr in Hstep. rewrite Hk in Hstep. cbn [negb] in Hstep.
  rewrite Hn in Hstep.
  destruct (notify n g (commit_slots f p c (remove_nth i (c_slots c)) (c_csize c - slot_size g f KArr s) (shift_down i (c_idx c))) p)
    as [f3 ok3] eqn:Hntf.
  injection Hstep as <- <-.
  rewrite <- Hk in Hntf at 1.
  assert (Hdel : true = is_arr c) by (unfold is_arr; now rewrite Hk).
  assert (Hidx' : shift_down i (c_idx c) = (if is_arr c then shift_down i (c_idx c) else c_idx c)) by (now rewrite <- Hdel).
  destruct (remove_res n g f p c i s true (shift_down i (c_idx c)) f3 ok3 Hwf Hc Hn Hdel Hidx' Hntf) as (-> & Hres & Hdet).
  split; auto.
  assert (Heq : match s_val s with
                | NChild v0 _ => del_idx (uninline_old f3 (s_val s)) p v0
                | NScalar _ _ => uninline_old f3 (s_val s)
                end = post_steps f3 p (od_of (s_val s)) true).
  { rewrite post_steps_eq. destruct (s_val s); auto. }
  rewrite Heq. auto.
Qed.

(* ---------- PopIterate ---------- *)
Lemma pop_res n g f p f' ok :
  fwf n g f -> op_ok n f (OPop p) -> pop_step n g f p = (f', ok) ->
  ok = true /\ op_result n g f f' p [] (touched_by None None).
Proof.
  intros Hwf (c & Hc) Hstep. unfold pop_step in Hstep. rewrite Hc in Hstep.
  assert (X : ectx n g f (commit_slots f p c [] (base (c_kind c)) []) p c [] [] None).
  { apply mk_ctx0; auto.
    - unfold data_size. cbn. lia.
    - intros j s v w Hj. destruct j; discriminate.
    - intros _. constructor. }
  pose proof (edit_master2 n g f _ p c [] _ _ f' ok None false X Hwf Hstep) as HM.
  cbn [post_steps idx_fin] in HM. apply HM; clear HM.
  - apply commit_slots_dirty.
  - intros x Hxp _. now apply commit_frame.
  - discriminate.
  - intros v j [].
  - auto.
Qed.

(* ---------- OrderedMap.Set ---------- *)
Lemma map_set_res n g f p kid ksz e f' ok :
  fwf n g f -> op_ok n f (OMapSet p kid ksz e) -> map_set n g f p kid ksz e = (f', ok) ->
  exists c l' (tch : N -> Prop), fget f p = Some c /\ ok = true /\ l' = slots_after (CMSet kid ksz e) (c_slots c) /\
    (forall x, tch x -> new_child (CMSet kid ksz e) x \/ exists i s w, edge f p i s x w) /\
    op_result n g f f' p l' tch /\
    (forall i s v0 w0, find_key (c_slots c) kid = Some i -> nth_error (c_slots c) i = Some s -> s_val s = NChild v0 w0 -> detached f' v0).
Proof.
  intros Hwf ((c & Hc & Hk) & Hok) Hstep.
  destruct (fwf_parts _ _ _ Hwf) as (HS & Hidx & Hcs & Hio).
  unfold map_set in Hstep. rewrite Hc in Hstep. unfold is_arr in Hstep. rewrite Hk in Hstep.
  exists c. cbn [slots_after].
  destruct (find_key (c_slots c) kid) as [i|] eqn:Hfk.
  - (* present key *)
    destruct (find_key_nth _ _ _ Hfk) as (s & Hn & Hkid). rewrite Hn.
    destruct (cset_body (notify n g) g f p i e) as [[f1 ok1] old] eqn:Hcset.
    destruct (cset_res n g f p c i s e f1 ok1 old false Hwf Hc Hn Hok Hcset) as (-> & -> & Hres & Hdet).
    { unfold is_arr. now rewrite Hk. }
    injection Hstep as <- <-.
    assert (Heq : uninline_old f1 (s_val s) = post_steps f1 p (od_of (s_val s)) false).
    { rewrite post_steps_eq. destruct (s_val s); auto. }
    exists (replace_nth i (mkSlot (s_kid s) (s_ksz s) e) (c_slots c)),
           (touched_by (nc_of i (mkSlot (s_kid s) (s_ksz s) e)) (od_of (s_val s))).
    split; auto. split; auto. split; auto. split.
    + intros x [(w & i0 & s0 & Hnc)|(w0 & Hod)].
      * left. unfold nc_of in Hnc. cbn in Hnc. destruct e; [discriminate|]. injection Hnc as <- _ _ _. reflexivity.
      * right. unfold od_of in Hod. destruct (s_val s) as [|v0 w1] eqn:Eo; [discriminate|]. injection Hod as <- <-.
        exists i, s, w1, c. auto.
    + rewrite Heq. split; auto. intros i0 s0 v0 w0 [= <-] Hn0 Hv0. rewrite Hn in Hn0. injection Hn0 as <-. eauto.
  - (* new key *)
    rewrite (storable_elem_get_t n g f p KMap ksz e Hok), Hc in Hstep.
    set (s' := mkSlot kid ksz e) in *. set (l' := c_slots c ++ [s']) in *.
    set (i := length (c_slots c)) in *.
    set (sz := c_csize c + slot_size g (storable_elem g f KMap ksz e) KMap s') in *.
    replace (storable_elem g f KMap ksz e) with (storable_elem g f (c_kind c) (s_ksz s') (s_val s')) in * by (rewrite Hk; reflexivity).
    change (set_callback g (commit_slots (storable_elem g f (c_kind c) (s_ksz s') (s_val s')) p c l' sz (c_idx c)) p i s')
      with (pipe g f p c l' sz (c_idx c) i s') in Hstep.
    assert (Hnth : nth_error l' i = Some s') by apply nth_error_app_last.
    assert (Hsz : sz = data_size g (storable_elem g f (c_kind c) (s_ksz s') (s_val s')) (c_kind c) l').
    { unfold sz, l'. rewrite (Hcs p c Hc).
      rewrite <- (data_size_old n g f p c (c_kind c) (s_ksz s') (s_val s') Hc Hok (c_slots c)) by auto.
      unfold data_size. rewrite sum_slots_app. rewrite Hk. unfold s'. cbn [s_ksz s_val]. lia. }
    assert (HF : slots_from c l' (idx3_of c (c_idx c) i s') (nc_of i s')).
    { intros j s1 v' w' Hj Hv'. split; [rewrite Hk; discriminate|].
      destruct (nth_error_app_inv _ _ _ _ Hj) as [(-> & ->)|(Hlt & Hj0)]; [|eauto].
      left. unfold nc_of. now rewrite Hv'. }
    assert (X : ectx n g f (pipe g f p c l' sz (c_idx c) i s') p c l' (idx3_of c (c_idx c) i s') (nc_of i s')).
    { apply mk_ctx; auto. intros _. apply NoDup_app_key; auto. eapply st_keys; eauto. }
    pose proof (edit_master2 n g f _ p c l' _ _ f' ok None false X Hwf Hstep) as HM.
    cbn [post_steps idx_fin] in HM.
    assert (H3 : idx3_of c (c_idx c) i s' = []).
    { destruct (Hidx p c Hc) as [_ Hmap]. unfold idx3_of. rewrite (Hmap Hk). destruct (s_val s'); auto.
      unfold idx_with. now rewrite Hk. }
    destruct HM as (-> & Hres).
    + apply pipe_dirty_t.
    + intros x Hxp Hnt. eapply pipe_frame; eauto.
    + discriminate.
    + rewrite H3. intros v j [].
    + auto.
    + exists l', (touched_by (nc_of i s') None). split; auto. split; auto. split; auto. split; [|split; [auto|discriminate]].
      intros x [(w & i0 & s0 & Hnc)|(w0 & Hod)]; [|discriminate].
      left. unfold nc_of in Hnc. cbn in Hnc. destruct e; [discriminate|]. injection Hnc as <- _ _ _. reflexivity.
Qed.

(* ---------- OrderedMap.Remove ---------- *)
Lemma map_remove_res n g f p kid f' ok :
  fwf n g f -> op_ok n f (OMapRemove p kid) -> map_remove n g f p kid = (f', ok) ->
  exists c i s, fget f p = Some c /\ find_key (c_slots c) kid = Some i /\ nth_error (c_slots c) i = Some s /\ ok = true /\
    op_result n g f f' p (remove_nth i (c_slots c)) (touched_by None (od_of (s_val s))) /\
    (forall v0 w0, s_val s = NChild v0 w0 -> detached f' v0).
Proof.
  intros Hwf (c & i & Hc & Hk & Hfk) Hstep.
  destruct (find_key_nth _ _ _ Hfk) as (s & Hn & Hkid).
  exists c, i, s. split; auto. split; auto. split; auto.
  unfold map_remove in Hstep. rewrite Hc in Hstep. unfold is_arr in Hstep. rewrite Hk, Hfk, Hn in Hstep.
  destruct (notify n g (commit_slots f p c (remove_nth i (c_slots c)) (c_csize c - slot_size g f KMap s) (c_idx c)) p)
    as [f3 ok3] eqn:Hntf.
  injection Hstep as <- <-.
  rewrite <- Hk in Hntf at 1.
  assert (Hdel : false = is_arr c) by (unfold is_arr; now rewrite Hk).
  assert (Hidx' : c_idx c = (if is_arr c then shift_down i (c_idx c) else c_idx c)) by (now rewrite <- Hdel).
  destruct (remove_res n g f p c i s false (c_idx c) f3 ok3 Hwf Hc Hn Hdel Hidx' Hntf) as (-> & Hres & Hdet).
  split; auto.
  assert (Heq : uninline_old f3 (s_val s) = post_steps f3 p (od_of (s_val s)) false).
  { rewrite post_steps_eq. destruct (s_val s); auto. }
  rewrite Heq. auto.
Qed.
