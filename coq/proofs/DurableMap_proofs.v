(* DurableMap_proofs.v — the map slab tree is durable (C03, container level, ordered maps); the
   map analogue of Durable_proofs.v.

   A. [mload_flatten]: a map tree — index slabs, data slabs AND external collision-group slabs — is
      rebuilt exactly from its own slabs by following child identifiers and group references.
   B. [mstep_represents] / [mrun_represents]: replaying the storeSlab / Remove logs of a history
      against a slab map yields a map that holds exactly the final tree (from the frame theorem
      MapFrame_proofs.mframe_step).
   C. the same at the level of the storage model ([mcommit_durable], [mcrash_durable],
      [mlast_commit_durable]), and store-time vs commit-time contents.
   D. the concrete codec: [mg_dec (mg_enc x) = Some x]. *)
From stdpp Require Import gmap sorting.
From Coq Require Import ZArith NArith List Bool Lia ZifyBool ZifyN ZifyNat Permutation.
From AtreeGen Require Import Consts.
From AtreeModel Require Import Storage StorageSpec Settings Durable.
From AtreeProofs Require Import Storage_proofs Commit_proofs StorageProps_proofs Settings_proofs Durable_proofs.
From AtreeModel Require Import MapElems MapElemsInv MapTree MapTreeInv DurableMap.
From AtreeProofs Require Import MapFrame_proofs Map_proofs.
Local Open Scope N_scope.

(** * A. mload ∘ mflatten *)

Lemma assoc_eflat :
  (forall e id, assoc (eflat_e e) id = ext_at_e e id) /\
  (forall g id, assoc (eflat_g g) id = ext_at g id).
Proof.
  apply melem_melems_ind.
  - reflexivity.
  - intros [i|] g IH id; cbn [eflat_e ext_at_e app assoc fst snd]; [|apply IH].
    destruct (i =? id); [reflexivity|apply IH].
  - intros l hks es sz IH id. rewrite ext_at_HKey. cbn [eflat_g].
    induction IH as [|e r He Hr IHr]; [reflexivity|].
    cbn [flat_map ext_list]. rewrite assoc_app, He, IHr. reflexivity.
  - reflexivity.
Qed.

Lemma assoc_mflatten n id : assoc (mflatten n) id = mnode_at n id.
Proof.
  induction n as [h nx es|h hs cs IH] using mnode_ind'.
  - cbn [mflatten assoc fst snd mnode_at]. destruct (mh_id h =? id); [reflexivity|apply assoc_eflat].
  - rewrite mnode_at_MM. cbn [mflatten assoc fst snd]. destruct (mh_id h =? id); [reflexivity|].
    induction IH as [|ch r Hc Hr IHr]; [reflexivity|].
    cbn [flat_map nodes_at]. rewrite assoc_app, Hc, IHr. reflexivity.
Qed.

Lemma map_fst_eflat :
  (forall e, map fst (eflat_e e) = eids_e e) /\ (forall g, map fst (eflat_g g) = gids g).
Proof.
  apply melem_melems_ind.
  - reflexivity.
  - intros [i|] g IH; cbn [eflat_e eids_e loc_ids app map fst]; rewrite IH; reflexivity.
  - intros l hks es sz IH. rewrite gids_HKey. cbn [eflat_g].
    induction IH as [|e r He Hr IHr]; [reflexivity|].
    cbn [flat_map]. rewrite map_app, He, IHr. reflexivity.
  - reflexivity.
Qed.

Lemma map_fst_mflatten n : map fst (mflatten n) = mslab_ids n.
Proof.
  induction n as [h nx es|h hs cs IH] using mnode_ind'.
  - cbn [mflatten mslab_ids map fst]. f_equal. apply map_fst_eflat.
  - rewrite mslab_ids_MM. cbn [mflatten map fst]. f_equal.
    induction IH as [|ch r Hc Hr IHr]; [reflexivity|].
    cbn [flat_map]. rewrite map_app, Hc, IHr. reflexivity.
Qed.

Lemma assoc_in {V} (l : list (N * V)) i s : NoDup (map fst l) -> In (i, s) l -> assoc l i = Some s.
Proof.
  induction l as [|[j v] r IH]; intros HN Hin; [destruct Hin|].
  cbn [map fst] in HN. inversion HN as [|? ? Hn HN']; subst.
  cbn [assoc fst snd]. destruct Hin as [E|Hin].
  - injection E as -> ->. rewrite N.eqb_refl. reflexivity.
  - destruct (N.eqb_spec j i) as [->|]; [|apply IH; assumption].
    exfalso. apply Hn. apply in_map_iff. exists (i, s). auto.
Qed.

Lemma list_max_in l x : In x l -> (x <= list_max l)%nat.
Proof.
  induction l as [|a r IH]; intros H; [destruct H|]. cbn [list_max fold_right].
  destruct H as [->|H]; [lia|]. specialize (IH H). unfold list_max in IH. lia.
Qed.

(* the references of external collision groups are resolved through the slab map *)
Lemma unstrip_ok (m : N -> option shallow) :
  (forall e, (forall i s, In (i, s) (eflat_e e) -> m i = Some s) ->
             forall fuel, (edepth_e e <= fuel)%nat -> unstrip_e fuel m (strip_e e) = Some e) /\
  (forall g, (forall i s, In (i, s) (eflat_g g) -> m i = Some s) ->
             forall fuel, (edepth_g g <= fuel)%nat -> unstrip_g fuel m (strip_g g) = Some g).
Proof.
  apply melem_melems_ind.
  - intros k v _ [|f] Hf; [cbn in Hf; lia|reflexivity].
  - intros [i|] g IH Hm [|f] Hf; try (cbn in Hf; lia); cbn [edepth_e] in Hf.
    + cbn [strip_e unstrip_e]. rewrite (Hm i (SG (strip_g g))) by (cbn [eflat_e app In]; auto).
      rewrite IH; [reflexivity| |lia]. intros j s Hj. apply Hm. cbn [eflat_e app In]. auto.
    + cbn [strip_e unstrip_e]. rewrite IH; [reflexivity| |lia]. intros j s Hj. apply Hm. exact Hj.
  - intros l hks es sz IH Hm [|f] Hf; [cbn in Hf; lia|]. cbn [edepth_g] in Hf.
    cbn [strip_g unstrip_g]. rewrite map_map.
    rewrite (all_some_map _ (fun e => e)), map_id; [reflexivity|].
    intros e He. rewrite Forall_forall in IH. apply (IH e He).
    + intros j s Hj. apply Hm. cbn [eflat_g]. apply in_flat_map. eauto.
    + pose proof (list_max_in (map edepth_e es) (edepth_e e) (in_map _ _ _ He)). lia.
  - intros l kvs sz _ [|f] Hf; [cbn in Hf; lia|reflexivity].
Qed.

Lemma mhdrs_ok_MM h hs cs :
  mhdrs_ok (MM h hs cs) <-> map mh_id hs = map nid cs /\ Forall mhdrs_ok cs.
Proof.
  cbn [mhdrs_ok].
  assert (E : forall l, (fix go (l : list mnode) : Prop :=
                           match l with [] => True | c :: r => mhdrs_ok c /\ go r end) l <-> Forall mhdrs_ok l).
  { induction l as [|c r IH]; [split; auto|]. rewrite IH. split.
    - intros [? ?]; constructor; auto.
    - intros H; inversion H; auto. }
  rewrite E. tauto.
Qed.

(* any slab map that has every slab of the tree will do *)
Theorem mload_in n : forall (m : N -> option shallow) fuel,
  (forall i s, In (i, s) (mflatten n) -> m i = Some s) ->
  mhdrs_ok n -> (mdepth n <= fuel)%nat -> mload fuel m (nid n) = Some n.
Proof.
  induction n as [h nx es|h hs cs IH] using mnode_ind'; intros m fuel Hm Hh Hf.
  - destruct fuel as [|f]; [cbn in Hf; lia|]. cbn [mdepth] in Hf. unfold nid. cbn [mload hdr_of].
    rewrite (Hm (mh_id h) (SD h nx (strip_g es))) by (cbn [mflatten In]; auto).
    rewrite (proj2 (unstrip_ok m)); [reflexivity| |lia].
    intros i s Hi. apply Hm. cbn [mflatten In]. auto.
  - destruct fuel as [|f]; [cbn in Hf; lia|]. cbn [mdepth] in Hf. unfold nid. cbn [mload hdr_of].
    rewrite (Hm (mh_id h) (SM h hs)) by (cbn [mflatten In]; auto).
    apply mhdrs_ok_MM in Hh as [Hids Hcs].
    assert (E : map (fun hh => mload f m (mh_id hh)) hs = map (fun ch => mload f m (nid ch)) cs).
    { rewrite <- (map_map mh_id (fun i => mload f m i)), Hids, map_map. reflexivity. }
    rewrite E. rewrite (all_some_map _ (fun ch => ch)), map_id; [reflexivity|].
    intros ch Hin. rewrite Forall_forall in IH, Hcs. apply (IH ch Hin).
    + intros i s Hi. apply Hm. cbn [mflatten In]. right. apply in_flat_map. eauto.
    + apply Hcs, Hin.
    + pose proof (list_max_in (map mdepth cs) (mdepth ch) (in_map _ _ _ Hin)). lia.
Qed.

Lemma in_mflatten_at n i s : NoDup (mslab_ids n) -> In (i, s) (mflatten n) -> mnode_at n i = Some s.
Proof.
  intros HN Hin. rewrite <- assoc_mflatten. apply assoc_in; [|exact Hin].
  rewrite map_fst_mflatten. exact HN.
Qed.

(* ... in particular any slab map that agrees with the tree on the tree's own slabs *)
Theorem mload_agree n (m : N -> option shallow) fuel :
  (forall id s, mnode_at n id = Some s -> m id = Some s) ->
  NoDup (mslab_ids n) -> mhdrs_ok n -> (mdepth n <= fuel)%nat ->
  mload fuel m (nid n) = Some n.
Proof.
  intros Hm HN Hh Hf. apply mload_in; auto.
  intros i s Hi. apply Hm. apply in_mflatten_at; assumption.
Qed.

(* M1: the tree is reconstructed exactly from the list of its own slabs *)
Theorem mload_flatten n fuel :
  NoDup (mslab_ids n) -> mhdrs_ok n -> (mdepth n <= fuel)%nat ->
  mload fuel (assoc (mflatten n)) (nid n) = Some n.
Proof.
  intros HN Hh Hf. apply mload_agree; auto.
  intros id s Hs. rewrite assoc_mflatten. exact Hs.
Qed.

Lemma mload_ext fuel : forall (m1 m2 : N -> option shallow),
  (forall j, m1 j = m2 j) ->
  (forall e, unstrip_e fuel m1 e = unstrip_e fuel m2 e) /\
  (forall g, unstrip_g fuel m1 g = unstrip_g fuel m2 g).
Proof.
  induction fuel as [|f IH]; intros m1 m2 H; [split; reflexivity|].
  destruct (IH m1 m2 H) as [IHe IHg]. split.
  - intros [k v|[i|] g]; cbn [unstrip_e]; [reflexivity| |].
    + rewrite H. destruct (m2 i) as [[| |]|]; try reflexivity. rewrite IHg. reflexivity.
    + rewrite IHg. reflexivity.
  - intros [l hks es sz|l kvs sz]; cbn [unstrip_g]; [|reflexivity].
    replace (map (unstrip_e f m1) es) with (map (unstrip_e f m2) es); [reflexivity|].
    apply map_ext. intros e. symmetry. apply IHe.
Qed.

Lemma mload_map_ext fuel : forall (m1 m2 : N -> option shallow) id,
  (forall j, m1 j = m2 j) -> mload fuel m1 id = mload fuel m2 id.
Proof.
  induction fuel as [|f IH]; intros m1 m2 id H; [reflexivity|].
  cbn [mload]. rewrite H. destruct (m2 id) as [[h nx es|g|h hs]|]; try reflexivity.
  - rewrite (proj2 (mload_ext f m1 m2 H)). reflexivity.
  - replace (map (fun hh => mload f m1 (mh_id hh)) hs) with (map (fun hh => mload f m2 (mh_id hh)) hs); [reflexivity|].
    apply map_ext. intros hh. symmetry. apply IH, H.
Qed.

(* the tree invariant gives [mhdrs_ok] *)
Lemma mwfn_mhdrs_ok dg levels c d n : mwfn dg levels c d n -> mhdrs_ok n.
Proof.
  revert d. induction n as [h nx es|h hs cs IH] using mnode_ind'; intros d H; [exact I|].
  inversion H; subst. apply mhdrs_ok_MM. split.
  - rewrite map_map. reflexivity.
  - rewrite Forall_forall in *. intros x Hx. eapply IH; eauto.
Qed.
Lemma mwf_root_mhdrs_ok dg levels c n : mwf_root dg levels c n -> mhdrs_ok n.
Proof. intros H. inversion H; subst; [exact I|]. eapply mwfn_mhdrs_ok; eauto. Qed.

(** * B. Replay of write logs against a slab map *)

Lemma mapply_log_last_ev {V} (cont : N -> V) lg : forall m id,
  mapply_log cont lg m id =
  match last_ev lg id with
  | None => m id
  | Some EvStore => Some (cont id)
  | Some EvRemove => None
  end.
Proof.
  induction lg as [|[i|i] r IH]; intros m id; [reflexivity| |]; cbn [mapply_log last_ev]; rewrite IH;
    destruct (last_ev r id) as [[|]|]; try reflexivity; unfold Durable.upd;
    destruct (N.eqb_spec i id); destruct (N.eqb_spec id i); subst; congruence.
Qed.

Lemma mapply_log_app {V} (cont : N -> V) l1 l2 m :
  mapply_log cont (l1 ++ l2) m = mapply_log cont l2 (mapply_log cont l1 m).
Proof. revert m; induction l1 as [|[i|i] r IH]; intros m; cbn [app mapply_log]; auto. Qed.

Lemma mapply_log_ext {V} (cont : N -> V) lg : forall m1 m2,
  (forall j, m1 j = m2 j) -> forall j, mapply_log cont lg m1 j = mapply_log cont lg m2 j.
Proof. intros m1 m2 H j. rewrite !mapply_log_last_ev, H. reflexivity. Qed.

Lemma mapply_log_map {V W} (f : N -> V -> W) (cont : N -> V) lg m id :
  mapply_log (fun j => f j (cont j)) lg (fun j => option_map (f j) (m j)) id =
  option_map (f id) (mapply_log cont lg m id).
Proof. rewrite !mapply_log_last_ev. destruct (last_ev lg id) as [[|]|]; reflexivity. Qed.

Lemma mlast_ev_untouched lg id : last_ev lg id = None <-> ~ touched lg id.
Proof. unfold touched. rewrite last_ev_none, in_stored, in_removed. tauto. Qed.

Section map.
  Variable dg : N -> nat -> N.
  Variable levels : nat.
  Variable max_inline_elem : N.
  Variable limit : N.
  Variable c : cfg.
  Notation mt_step := (mt_step dg levels max_inline_elem limit c).
  Notation mt_run := (mt_run dg levels max_inline_elem limit c).
  Notation mreplay := (mreplay dg levels max_inline_elem limit c).
  Notation mhist_sops := (mhist_sops dg levels max_inline_elem limit c).
  Notation mall_logs := (mall_logs dg levels max_inline_elem limit c).
  Notation mfinal_sops := (mfinal_sops dg levels max_inline_elem limit c).
  Notation mdrun := (mdrun dg levels max_inline_elem limit c).

  (** every mutation of a (sub)tree stores the slab it was applied to: the element count lives in
      the root slab, and it changes only together with a store of that slab *)
  Lemma pfix_stores hid nh cs alloc n' alloc' lg :
    pfix c hid nh cs alloc n' alloc' lg -> In (WStore hid) lg.
  Proof. intros H. destruct H; cbn; auto. Qed.

  Lemma nstep_stores_root n alloc n' alloc' lg : nstep c n alloc n' alloc' lg -> In (WStore (nid n)) lg.
  Proof.
    intros H. destruct H as [h nx es h' es' alloc alloc' evs|h hs pre ch post alloc ch' alloc1 lg1 n' alloc' lg' H1 H2].
    - apply in_or_app. right. left. reflexivity.
    - apply in_or_app. right. apply pfix_stores in H2. exact H2.
  Qed.

  Lemma mcount_step t o t' out lg :
    shape (t_root t) -> mt_step t o = (t', out, lg) ->
    t_count t' = t_count t \/ In (WStore (t_rootid t)) lg.
  Proof.
    intros Sh. destruct o; cbn [MapTree.mt_step]; try (intros [= <- <- <-]; left; reflexivity).
    - unfold mt_set. destruct (n_set _ _ _ _ _ _ _ _ _ _) as [[[[r' prev] alloc'] lg1]|] eqn:E.
      2: { intros [= <- <- <-]. left; reflexivity. }
      destruct (fix_root _ _) as [[t2|x] lg2]; intros [= <- <- <-]; [|left; reflexivity].
      right. apply in_or_app. left. apply (n_set_nstep dg levels max_inline_elem limit c _ Sh) in E. apply nstep_stores_root in E. exact E.
    - unfold mt_remove. destruct (n_remove _ _ _ _ _ _ _) as [[[[r' [k0 v0]] alloc'] lg1]|] eqn:E.
      2: { intros [= <- <- <-]. left; reflexivity. }
      destruct (fix_root _ _) as [[t2|x] lg2]; intros [= <- <- <-]; [|left; reflexivity].
      right. apply in_or_app. left. apply (n_remove_nstep dg levels max_inline_elem c _ Sh) in E. apply nstep_stores_root in E. exact E.
    - unfold mt_pop. destruct (n_pop (t_root t)) as [d evs]. intros [= <- <- <-].
      right. apply in_or_app. right. left. reflexivity.
  Qed.

  Lemma mcontent_none t id : mcontent t id = None <-> mnode_at (t_root t) id = None.
  Proof. unfold mcontent. destruct (mnode_at (t_root t) id); split; congruence. Qed.

  Lemma mcell_of_content t id : mcontent t id <> None -> Some (mcell_of t id) = mcontent t id.
  Proof. unfold mcell_of. destruct (mcontent t id); congruence. Qed.

  (* a slab that an operation does not name keeps its content *)
  Lemma muntouched_content t o t' out lg id :
    mids_ok t -> shape (t_root t) -> mt_step t o = (t', out, lg) ->
    last_ev lg id = None -> mcontent t' id = mcontent t id.
  Proof.
    intros Hok Sh H El.
    destruct (mids_step _ _ _ _ _ _ _ _ _ _ Hok Sh H) as (_ & _ & Hroot & _).
    destruct (mframe_step _ _ _ _ _ _ _ _ _ _ Hok Sh H id) as (F1 & _).
    assert (Hu : ~ touched lg id) by (apply mlast_ev_untouched; exact El).
    unfold mcontent, cntof. rewrite (F1 Hu), Hroot. destruct (mnode_at (t_root t) id); [|reflexivity].
    destruct (N.eqb_spec id (t_rootid t)) as [->|]; [|reflexivity].
    destruct (mcount_step _ _ _ _ _ Sh H) as [->|Hin]; [reflexivity|]. exfalso. apply Hu. left. exact Hin.
  Qed.

  (* M2, one operation: if m holds exactly the map before, replaying the operation's log with the
     contents at the end of the operation holds exactly the map after *)
  Theorem mstep_represents t o t' out lg m :
    mids_ok t -> shape (t_root t) -> mt_step t o = (t', out, lg) ->
    mrep m t -> mrep (mapply_log (mcell_of t') lg m) t'.
  Proof.
    intros Hok Sh H Hrep id.
    destruct (mframe_step _ _ _ _ _ _ _ _ _ _ Hok Sh H id) as (F1 & F2 & F3 & F4).
    rewrite mapply_log_last_ev.
    destruct (last_ev lg id) as [[|]|] eqn:El.
    - apply mcell_of_content. intros Hc. apply mcontent_none in Hc. exact (F2 eq_refl Hc).
    - destruct (F3 eq_refl) as [Hn _]. symmetry. apply mcontent_none. exact Hn.
    - rewrite Hrep. symmetry. eapply muntouched_content; eauto.
  Qed.

  Lemma mt_run_cons t o r :
    mt_run t (o :: r) =
    (fst (mt_run (fst (fst (mt_step t o))) r), snd (fst (mt_step t o)) :: snd (mt_run (fst (fst (mt_step t o))) r)).
  Proof.
    cbn [MapTree.mt_run]. destruct (mt_step t o) as [[t1 x] lg]. cbn [fst snd].
    destruct (mt_run t1 r) as [t2 xs]. reflexivity.
  Qed.

  (* M2, histories *)
  Theorem mrun_represents : forall ops t m,
    finv t -> mrep m t -> mrep (mreplay mcell_of t ops m) (fst (mt_run t ops)).
  Proof.
    induction ops as [|o r IH]; intros t m Ht Hm; [exact Hm|].
    rewrite mt_run_cons. cbn [DurableMap.mreplay fst].
    destruct (mt_step t o) as [[t1 x] lg] eqn:E. cbn [fst].
    destruct (finv_step _ _ _ _ _ _ _ _ _ _ Ht E) as [Ht1 _].
    apply IH; [exact Ht1|]. destruct Ht as (Hok & Sh & _). eapply mstep_represents; eauto.
  Qed.

  Lemma minit_represents rootid : mrep (minit_map mcell_of rootid) (fst (mt_init rootid)).
  Proof.
    intros id. unfold minit_map, mt_init. cbn [fst snd mapply_log]. unfold Durable.upd.
    unfold mcell_of, mcontent, cntof, t_rootid, empty_root.
    cbn [t_root t_count mnode_at hdr_of mh_id strip_g map ext_at].
    destruct (N.eqb_spec id rootid) as [->|Hne].
    - rewrite !N.eqb_refl. reflexivity.
    - replace (rootid =? id) with false by lia. reflexivity.
  Qed.

  Theorem mrun_represents_init rootid ops : 0 < rootid ->
    mrep (mreplay mcell_of (fst (mt_init rootid)) ops (minit_map mcell_of rootid))
         (fst (mt_run (fst (mt_init rootid)) ops)).
  Proof.
    intros Hr. apply mrun_represents; [apply (finv_init dg levels max_inline_elem), Hr|apply minit_represents].
  Qed.

  (* what a reader gets from any map that holds the map's slabs *)
  Theorem mload_map_agree (mm : N -> option mcell) t fuel :
    (forall id x, mcontent t id = Some x -> mm id = Some x) ->
    NoDup (mslab_ids (t_root t)) -> mhdrs_ok (t_root t) -> (mdepth (t_root t) <= fuel)%nat ->
    mload_map fuel mm (t_rootid t) = Some (t_root t, t_count t).
  Proof.
    intros Hmm HN Hh Hf. unfold mload_map.
    assert (Hm : forall id s, mnode_at (t_root t) id = Some s -> mm id = Some (s, cntof t id)).
    { intros id s Hs. apply Hmm. unfold mcontent. rewrite Hs. reflexivity. }
    change (t_rootid t) with (nid (t_root t)) at 1.
    rewrite (mload_agree (t_root t)); auto.
    - assert (Hroot : mnode_at (t_root t) (t_rootid t) <> None).
      { intros Hx. apply mnode_at_none in Hx. apply Hx. apply in_tree_slab. apply nid_in_tree_ids. }
      destruct (mnode_at (t_root t) (t_rootid t)) as [s|] eqn:Es; [|congruence].
      rewrite (Hm _ _ Es). cbn [snd]. unfold cntof. rewrite N.eqb_refl. reflexivity.
    - intros id s Hs. rewrite (Hm _ _ Hs). reflexivity.
  Qed.

  Theorem mload_rep (m : N -> option mcell) t fuel :
    mrep m t -> NoDup (mslab_ids (t_root t)) -> mhdrs_ok (t_root t) -> (mdepth (t_root t) <= fuel)%nat ->
    mload_map fuel m (t_rootid t) = Some (t_root t, t_count t).
  Proof. intros Hrep. apply mload_map_agree. intros id x Hx. rewrite Hrep. exact Hx. Qed.
End map.

(** * C. The storage model *)

(* issuing the calls of a log = replaying the log on the storage's view of the address; other
   addresses are not affected (Durable_proofs.sops_view for map logs) *)
Lemma msops_view addr cont lg : addr <> 0 -> forall s, coherent s ->
  forall b id, view (fst (run s (msops addr cont lg))) (b, id) =
               if N.eqb b addr then mapply_log cont lg (view_map s addr) id else view s (b, id).
Proof.
  intros Ha. induction lg as [|[i|i] r IH]; intros s Hs b id.
  - cbn. destruct (N.eqb_spec b addr) as [->|]; reflexivity.
  - cbn [msops map]. rewrite run_cons. fold (msops addr cont r).
    rewrite IH by (apply coherent_step, Hs). cbn [mapply_log].
    destruct (N.eqb_spec b addr) as [->|Hb].
    + apply mapply_log_ext. intros j. unfold Durable.view_map, Durable.upd.
      rewrite store_view by (auto using not_undefined).
      destruct (decide _) as [E|E]; destruct (N.eqb_spec j i); congruence.
    + rewrite store_view by (auto using not_undefined).
      destruct (decide _); congruence.
  - cbn [msops map]. rewrite run_cons. fold (msops addr cont r).
    rewrite IH by (apply coherent_step, Hs). cbn [mapply_log].
    destruct (N.eqb_spec b addr) as [->|Hb].
    + apply mapply_log_ext. intros j. unfold Durable.view_map, Durable.upd.
      rewrite remove_view by (auto using not_undefined).
      destruct (decide _) as [E|E]; destruct (N.eqb_spec j i); congruence.
    + rewrite remove_view by (auto using not_undefined).
      destruct (decide _); congruence.
Qed.

Lemma msops_no_commit addr cont lg : forallb (fun o => negb (is_commit o)) (msops addr cont lg) = true.
Proof. induction lg as [|[i|i] r IH]; cbn; auto. Qed.

Lemma msops_base addr cont lg s : base (fst (run s (msops addr cont lg))) = base s.
Proof. apply no_commit_base, msops_no_commit. Qed.

(* the map M of registers holds the map t exactly: every slab of t — data, index and external
   collision-group slabs — is in M as the encoding of its exact own content (the root slab with
   the element count), and M has nothing else *)
Definition mholds_exactly (K : mslab_codec) (M : N -> option val) (t : mtree) : Prop :=
  forall id, M id = option_map (menc K) (mcontent t id).

Lemma mholds_ext K M1 M2 t : (forall id, M1 id = M2 id) -> mholds_exactly K M1 t -> mholds_exactly K M2 t.
Proof. intros H Hm id. rewrite <- H. apply Hm. Qed.

(* a reader decoding the registers of a map that holds t gets t *)
Theorem mholds_load K M t fuel :
  mholds_exactly K M t -> NoDup (mslab_ids (t_root t)) -> mhdrs_ok (t_root t) ->
  (mdepth (t_root t) <= fuel)%nat ->
  mload_map fuel (mdecode_map K M) (t_rootid t) = Some (t_root t, t_count t).
Proof.
  intros Hm. apply mload_map_agree. intros id x Hx.
  unfold mdecode_map. rewrite Hm, Hx. cbn [option_map]. apply mdec_enc.
Qed.

Section mapC.
  Variable dg : N -> nat -> N.
  Variable levels : nat.
  Variable max_inline_elem : N.
  Variable limit : N.
  Variable c : cfg.
  Notation mt_step := (mt_step dg levels max_inline_elem limit c).
  Notation mt_run := (mt_run dg levels max_inline_elem limit c).
  Notation mreplay := (mreplay dg levels max_inline_elem limit c).
  Notation mhist_sops := (mhist_sops dg levels max_inline_elem limit c).
  Notation mall_logs := (mall_logs dg levels max_inline_elem limit c).
  Notation mfinal_sops := (mfinal_sops dg levels max_inline_elem limit c).
  Notation mdrun := (mdrun dg levels max_inline_elem limit c).

  (* one map operation, its calls issued to the storage *)
  Lemma mholds_step K addr t o t' out lg s :
    addr <> 0 -> mids_ok t -> shape (t_root t) -> coherent s -> mt_step t o = (t', out, lg) ->
    mholds_exactly K (view_map s addr) t ->
    mholds_exactly K (view_map (fst (run s (msops addr (msval K t') lg))) addr) t'.
  Proof.
    intros Ha Hok Sh Hs H Hv id.
    assert (R : mrep (mapply_log (mcell_of t') lg (mcontent t)) t').
    { eapply mstep_represents; eauto. intros j. reflexivity. }
    rewrite <- (R id). unfold Durable.view_map at 1. rewrite msops_view by assumption. rewrite N.eqb_refl.
    unfold msval. rewrite <- (mapply_log_map (fun _ => menc K)). apply mapply_log_ext. intros j. apply Hv.
  Qed.

  (* creating the map (NewMap stores the empty root slab) *)
  Definition ms_create (K : mslab_codec) (addr rootid : N) (s : st) : st :=
    fst (run s (minit_sops K addr rootid)).

  Lemma mholds_create K addr rootid s :
    addr <> 0 -> coherent s -> (forall id, view s (addr, id) = None) ->
    mholds_exactly K (view_map (ms_create K addr rootid s) addr) (fst (mt_init rootid)).
  Proof.
    intros Ha Hs Hfresh id. rewrite <- (minit_represents dg levels rootid id).
    unfold ms_create, minit_sops, minit_map, Durable.view_map at 1.
    rewrite msops_view by assumption. rewrite N.eqb_refl.
    unfold msval. rewrite <- (mapply_log_map (fun _ => menc K)). apply mapply_log_ext.
    intros j. cbn. apply Hfresh.
  Qed.

  (** histories with commits: the storage's view follows the map *)
  Theorem mdrun_inv K addr : addr <> 0 -> forall l t s,
    finv t -> coherent s -> mholds_exactly K (view_map s addr) t ->
    finv (fst (mdrun K addr t s l)) /\ coherent (snd (mdrun K addr t s l)) /\
    mholds_exactly K (view_map (snd (mdrun K addr t s l)) addr) (fst (mdrun K addr t s l)) /\
    fst (mdrun K addr t s l) = fst (mt_run t (mops_of l)).
  Proof.
    intros Ha. induction l as [|[o|] r IH]; intros t s Hinv Hs Hv.
    - cbn. auto.
    - change (mops_of (MOp o :: r)) with (o :: mops_of r). rewrite mt_run_cons. cbn [DurableMap.mdrun fst].
      destruct (mt_step t o) as [[t1 x] lg] eqn:E. cbn [fst].
      destruct (finv_step _ _ _ _ _ _ _ _ _ _ Hinv E) as [Hinv1 _].
      apply IH; [exact Hinv1|apply coherent_run, Hs|].
      destruct Hinv as (Hok & Sh & _). eapply mholds_step; eauto.
    - change (mops_of (MCommit :: r)) with (mops_of r). cbn [DurableMap.mdrun].
      destruct (commit_props s Hs) as (Hc & Hvw & _).
      apply IH; [exact Hinv|exact Hc|].
      eapply mholds_ext; [|exact Hv]. intros id. unfold Durable.view_map. symmetry. apply Hvw.
  Qed.

  (* without a commit the ledger is not written *)
  Lemma mdrun_no_commit_base K addr : forall l t s,
    mno_commit l = true -> base (snd (mdrun K addr t s l)) = base s.
  Proof.
    induction l as [|[o|] r IH]; intros t s H; [reflexivity| |discriminate].
    cbn [DurableMap.mdrun]. destruct (mt_step t o) as [[t1 x] lg]. cbn in H. rewrite IH by exact H. apply msops_base.
  Qed.

  Lemma mno_commit_map_MOp ops : mno_commit (map MOp ops) = true.
  Proof. induction ops; cbn; auto. Qed.
  Lemma mops_of_map_MOp ops : mops_of (map MOp ops) = ops.
  Proof. induction ops as [|o r IH]; cbn; [reflexivity|]. f_equal. exact IH. Qed.

  Lemma mdrun_plain K addr : forall ops t s,
    mdrun K addr t s (map MOp ops) = (fst (mt_run t ops), fst (run s (mhist_sops K addr t ops))).
  Proof.
    induction ops as [|o r IH]; intros t s; [reflexivity|].
    rewrite mt_run_cons. cbn [map DurableMap.mdrun DurableMap.mhist_sops fst].
    destruct (mt_step t o) as [[t1 x] lg]. cbn [fst]. rewrite IH, run_app_fst. reflexivity.
  Qed.

  Lemma mt_run_app : forall l1 l2 t, fst (mt_run t (l1 ++ l2)) = fst (mt_run (fst (mt_run t l1)) l2).
  Proof.
    induction l1 as [|o r IH]; intros l2 t; [reflexivity|].
    cbn [app]. rewrite !mt_run_cons. cbn [fst]. apply IH.
  Qed.

  (** commits anywhere in the history [l1], then a commit, then operations without commit [l2],
      then a brand-new storage over the same ledger: the registers under the address hold exactly
      the map as of that last commit.  [Hfacts]: what the reader needs of the map at the commit. *)
  Theorem mlast_commit_generic K addr rootid s0 l1 l2 :
    addr <> 0 -> 0 < rootid ->
    coherent s0 -> (forall id, view s0 (addr, id) = None) -> mno_commit l2 = true ->
    let t0 := fst (mt_init rootid) in
    let t1 := fst (mt_run t0 (mops_of l1)) in
    let st1 := mdrun K addr t0 (ms_create K addr rootid s0) l1 in
    let st2 := mdrun K addr (fst st1) (commit (snd st1)) l2 in
    let s' := reopen (snd st2) in
    fst st1 = t1 /\
    fst st2 = fst (mt_run t0 (mops_of l1 ++ mops_of l2)) /\
    base (snd st2) = base (commit (snd st1)) /\
    deltas s' = ∅ /\ cache s' = ∅ /\ base s' = base (commit (snd st1)) /\
    (forall id, view s' (addr, id) = base s' !! (addr, id)) /\
    mholds_exactly K (ledger_map s' addr) t1 /\
    finv t1 /\ t_rootid t1 = rootid.
  Proof.
    intros Ha Hr Hs0 Hfresh Hnc t0 t1 st1 st2 s'.
    pose proof (mholds_create K addr rootid s0 Ha Hs0 Hfresh) as V0.
    assert (Hsc : coherent (ms_create K addr rootid s0)) by (apply coherent_run, Hs0).
    pose proof (finv_init dg levels max_inline_elem rootid Hr) as I0.
    destruct (mdrun_inv K addr Ha l1 t0 _ I0 Hsc V0) as (I1 & C1 & V1 & E1).
    fold st1 in I1, C1, V1, E1. fold t1 in E1.
    destruct (commit_props (snd st1) C1) as (C2 & Vw2 & B2).
    assert (V2 : mholds_exactly K (view_map (commit (snd st1)) addr) (fst st1)).
    { eapply mholds_ext; [|exact V1]. intros id. unfold Durable.view_map. symmetry. apply Vw2. }
    destruct (mdrun_inv K addr Ha l2 (fst st1) _ I1 C2 V2) as (_ & _ & _ & E2).
    fold st2 in E2.
    pose proof (mdrun_no_commit_base K addr l2 (fst st1) (commit (snd st1)) Hnc) as Hb. fold st2 in Hb.
    destruct (reopen_props (snd st2)) as (R1 & R2 & R3 & R4). fold s' in R1, R2, R3, R4.
    assert (VL : mholds_exactly K (ledger_map s' addr) t1).
    { rewrite <- E1. eapply mholds_ext; [|exact V1]. intros id. unfold Durable.view_map, Durable.ledger_map.
      rewrite R3, Hb. symmetry. apply B2. apply not_temp, Ha. }
    split; [exact E1|]. split.
    { rewrite E2, E1. unfold t1. symmetry. apply mt_run_app. }
    split; [exact Hb|]. split; [exact R1|]. split; [exact R2|]. split; [congruence|].
    split; [intros id; rewrite R4, R3; reflexivity|]. split; [exact VL|].
    rewrite <- E1. split; [exact I1|]. rewrite E1. unfold t1.
    destruct (finv_run dg levels max_inline_elem limit c (mops_of l1) t0 I0) as [_ Hid]. exact Hid.
  Qed.
End mapC.

(** facts about a reachable map that the reader's theorem needs, and the dictionary (C02) *)
Lemma mreach_load_facts T dg levels limit ks rootid ops :
  valid_T T -> (1 <= levels)%nat -> 0 < rootid -> Forall (mop_ok T ks) ops ->
  let c := set_threshold T in
  let t := fst (mt_run dg levels (cinl_melem c) limit c (fst (mt_init rootid)) ops) in
  let d := fst (d_run dg levels limit [] ops) in
  finv t /\ t_rootid t = rootid /\ NoDup (mslab_ids (t_root t)) /\ mhdrs_ok (t_root t) /\
  to_list_tree (t_root t) = d /\ t_count t = N.of_nat (length d) /\ minv dg levels T ks t.
Proof.
  intros HT Hlv Hr Hops c t d.
  destruct (finv_run dg levels (cinl_melem c) limit c ops _ (finv_init dg levels (cinl_melem c) rootid Hr))
    as [Hinv Hid].
  fold t in Hinv, Hid.
  pose proof (mt_run_from_empty dg levels T HT Hlv limit ks rootid ops Hops) as R.
  fold c in R. unfold t, d.
  destruct (mt_run dg levels (cinl_melem c) limit c (fst (mt_init rootid)) ops) as [t' outs].
  destruct (d_run dg levels limit [] ops) as [d' outs']. cbn [fst] in *.
  destruct R as (_ & R2 & R3 & R4 & R5).
  split; [exact Hinv|]. split; [exact R5|]. split; [apply Hinv|]. split.
  - destruct R4 as ((Hw & _) & _). eapply mwf_root_mhdrs_ok; eauto.
  - auto.
Qed.

Section statements.
  Variable K : mslab_codec.
  Variable T : N.
  Variable dg : N -> nat -> N.
  Variable levels : nat.
  Variable limit : N.
  Variable ks : N -> N.
  Notation c := (set_threshold T).
  Notation M := (cinl_melem (set_threshold T)).
  Notation mt_run := (mt_run dg levels M limit c).
  Notation mhist_sops := (mhist_sops dg levels M limit c).
  Notation mdrun := (mdrun dg levels M limit c).

  (** commits anywhere *)
  Theorem mlast_commit_durable addr rootid s0 l1 l2 :
    valid_T T -> (1 <= levels)%nat -> addr <> 0 -> 0 < rootid ->
    reachable s0 -> (forall id, view s0 (addr, id) = None) ->
    Forall (mop_ok T ks) (mops_of l1) -> mno_commit l2 = true ->
    let t0 := fst (mt_init rootid) in
    let t1 := fst (mt_run t0 (mops_of l1)) in
    let st1 := mdrun K addr t0 (fst (run s0 (minit_sops K addr rootid))) l1 in
    let st2 := mdrun K addr (fst st1) (fst (step (snd st1) (SFastCommit None))) l2 in
    let s' := fst (step (snd st2) SRecreate) in
    fst st1 = t1 /\
    fst st2 = fst (mt_run t0 (mops_of l1 ++ mops_of l2)) /\
    base (snd st2) = base (fst (step (snd st1) (SFastCommit None))) /\
    deltas s' = ∅ /\ cache s' = ∅ /\ base s' = base (fst (step (snd st1) (SFastCommit None))) /\
    (forall id, view s' (addr, id) = base s' !! (addr, id)) /\
    mholds_exactly K (ledger_map s' addr) t1 /\
    (forall fuel, (mdepth (t_root t1) <= fuel)%nat ->
       mload_map fuel (mdecode_map K (ledger_map s' addr)) rootid = Some (t_root t1, t_count t1)) /\
    to_list_tree (t_root t1) = fst (d_run dg levels limit [] (mops_of l1)) /\
    t_count t1 = N.of_nat (length (fst (d_run dg levels limit [] (mops_of l1)))).
  Proof.
    intros HT Hlv Ha Hr Hs0 Hfresh Hops Hnc t0 t1 st1 st2 s'.
    pose proof (mlast_commit_generic dg levels M limit c K addr rootid s0 l1 l2 Ha Hr
                  (reachable_coherent _ Hs0) Hfresh Hnc) as H.
    cbv zeta in H. fold t0 t1 st1 in H.
    destruct H as (H1 & H2 & H3 & H4 & H5 & H6 & H7 & H8 & _ & _).
    destruct (mreach_load_facts T dg levels limit ks rootid (mops_of l1) HT Hlv Hr Hops)
      as (_ & Hid & HN & Hh & Hd & Hc & _).
    fold t0 t1 in Hid, HN, Hh, Hd, Hc.
    repeat (split; [assumption|]). split; [|split; assumption].
    intros fuel Hf. rewrite <- Hid. apply mholds_load; assumption.
  Qed.

  (** one history, commit, brand-new storage *)
  Theorem mcommit_durable addr rootid s0 ops :
    valid_T T -> (1 <= levels)%nat -> addr <> 0 -> 0 < rootid ->
    reachable s0 -> (forall id, view s0 (addr, id) = None) ->
    Forall (mop_ok T ks) ops ->
    let t0 := fst (mt_init rootid) in
    let t := fst (mt_run t0 ops) in
    let s1 := fst (run s0 (minit_sops K addr rootid ++ mhist_sops K addr t0 ops)) in
    let s' := fst (step (fst (step s1 (SFastCommit None))) SRecreate) in
    deltas s' = ∅ /\ cache s' = ∅ /\
    (forall id, view s' (addr, id) = base s' !! (addr, id)) /\
    mholds_exactly K (ledger_map s' addr) t /\
    (forall fuel, (mdepth (t_root t) <= fuel)%nat ->
       mload_map fuel (mdecode_map K (ledger_map s' addr)) rootid = Some (t_root t, t_count t)) /\
    to_list_tree (t_root t) = fst (d_run dg levels limit [] ops) /\
    t_count t = N.of_nat (length (fst (d_run dg levels limit [] ops))).
  Proof.
    intros HT Hlv Ha Hr Hs0 Hfresh Hops t0 t s1 s'.
    pose proof (mlast_commit_durable addr rootid s0 (map MOp ops) nil HT Hlv Ha Hr Hs0 Hfresh) as H.
    rewrite mops_of_map_MOp in H. specialize (H Hops eq_refl). cbv zeta in H.
    fold t0 in H. rewrite mdrun_plain in H. cbn [fst snd DurableMap.mdrun] in H.
    rewrite <- run_app_fst in H. fold t s1 in H. fold s' in H.
    destruct H as (_ & _ & _ & H1 & H2 & _ & H3 & H4 & H5 & H6 & H7). auto 10.
  Qed.

  (** operations after the commit that are not committed do not reach the ledger *)
  Theorem mcrash_durable addr rootid s0 ops1 ops2 :
    valid_T T -> (1 <= levels)%nat -> addr <> 0 -> 0 < rootid ->
    reachable s0 -> (forall id, view s0 (addr, id) = None) ->
    Forall (mop_ok T ks) ops1 ->
    let t0 := fst (mt_init rootid) in
    let t1 := fst (mt_run t0 ops1) in
    let s1 := fst (run s0 (minit_sops K addr rootid ++ mhist_sops K addr t0 ops1)) in
    let s2 := fst (step s1 (SFastCommit None)) in
    let s3 := fst (run s2 (mhist_sops K addr t1 ops2)) in
    let s' := fst (step s3 SRecreate) in
    base s3 = base s2 /\ base s' = base s2 /\
    mholds_exactly K (ledger_map s' addr) t1 /\
    (forall fuel, (mdepth (t_root t1) <= fuel)%nat ->
       mload_map fuel (mdecode_map K (ledger_map s' addr)) rootid = Some (t_root t1, t_count t1)) /\
    to_list_tree (t_root t1) = fst (d_run dg levels limit [] ops1).
  Proof.
    intros HT Hlv Ha Hr Hs0 Hfresh Hops t0 t1 s1 s2 s3 s'.
    pose proof (mlast_commit_durable addr rootid s0 (map MOp ops1) (map MOp ops2) HT Hlv Ha Hr Hs0 Hfresh) as H.
    rewrite mops_of_map_MOp in H. specialize (H Hops (mno_commit_map_MOp ops2)). cbv zeta in H.
    fold t0 in H. rewrite !mdrun_plain in H. cbn [fst snd] in H.
    rewrite <- run_app_fst in H. fold t1 s1 in H. fold s2 in H. fold s3 in H. fold s' in H.
    destruct H as (_ & _ & H0 & _ & _ & H1 & _ & H4 & H5 & H6 & _). auto.
  Qed.
End statements.

(** * D. The concrete codec *)

Lemma take_n_app x : forall rest, take_n (length x) (x ++ rest) = Some (x, rest).
Proof. induction x as [|a r IH]; intros rest; [reflexivity|]. cbn [length app take_n]. rewrite IH. reflexivity. Qed.

Lemma take_pairs_app kvs : forall rest,
  take_pairs (length kvs) (flat_map pair_to kvs ++ rest) = Some (kvs, rest).
Proof.
  induction kvs as [|[[a b] [c0 d]] r IH]; intros rest; [reflexivity|].
  cbn [length flat_map pair_to kv_to fst snd kid ksz app take_pairs].
  rewrite IH. reflexivity.
Qed.

Lemma mhdrs_of_app hs : forall rest, mhdrs_of (length hs) (flat_map mhdr_to hs ++ rest) = Some (hs, rest).
Proof.
  induction hs as [|[a b c0] r IH]; intros rest; [reflexivity|].
  cbn [length flat_map mhdr_to mh_id mh_size mh_first app mhdrs_of]. rewrite IH. reflexivity.
Qed.

Lemma many_app {A} (p : list N -> option (A * list N)) (to : A -> list N) es :
  Forall (fun e => forall rest, p (to e ++ rest) = Some (e, rest)) es ->
  forall rest, many p (length es) (flat_map to es ++ rest) = Some (es, rest).
Proof.
  induction 1 as [|e r He Hr IH]; intros rest; [reflexivity|].
  cbn [length flat_map many]. rewrite <- app_assoc, He, IH. reflexivity.
Qed.

Lemma length_flat_in {A} (to : A -> list N) es e : In e es -> (length (to e) <= length (flat_map to es))%nat.
Proof.
  induction es as [|a r IH]; intros H; [destruct H|]. cbn [flat_map]. rewrite app_length.
  destruct H as [->|H]; [lia|]. specialize (IH H). lia.
Qed.

Lemma parse_ok :
  (forall e fuel rest, (length (melem_to e) <= fuel)%nat -> melem_of fuel (melem_to e ++ rest) = Some (e, rest)) /\
  (forall g fuel rest, (length (melems_to g) <= fuel)%nat -> melems_of fuel (melems_to g ++ rest) = Some (g, rest)).
Proof.
  apply melem_melems_ind.
  - intros [a b] [c0 d] [|f] rest Hf; [cbn in Hf; lia|]. reflexivity.
  - intros [i|] g IH [|f] rest Hf; try (cbn in Hf; lia); cbn [melem_to length] in Hf.
    + cbn [melem_to app melem_of N.eqb Pos.eqb]. rewrite IH by lia. reflexivity.
    + cbn [melem_to app melem_of N.eqb Pos.eqb]. rewrite IH by lia. reflexivity.
  - intros l hks es sz IH [|f] rest Hf; [cbn in Hf; lia|].
    cbn [melems_to length] in Hf. rewrite app_length in Hf. cbn [length] in Hf.
    cbn [melems_to app melems_of N.eqb]. rewrite !Nat2N.id. rewrite <- app_assoc, take_n_app. cbn [app].
    rewrite Nat2N.id. rewrite (many_app (melem_of f) melem_to); [reflexivity|].
    rewrite Forall_forall in *. intros e He rest'. apply (IH e He).
    pose proof (length_flat_in melem_to es e He). lia.
  - intros l kvs sz [|f] rest Hf; [cbn in Hf; lia|].
    cbn [melems_to app melems_of N.eqb Pos.eqb]. rewrite !Nat2N.id, take_pairs_app. reflexivity.
Qed.

Lemma melems_of_to g : melems_of (S (length (melems_to g))) (melems_to g) = Some (g, []).
Proof. rewrite <- (app_nil_r (melems_to g)) at 2. apply (proj2 parse_ok). lia. Qed.

Lemma mfields_of_to x : mfields_of (mfields_to x) = Some x.
Proof.
  destruct x as [[[a b c0] nx es|g|[a b c0] hs] cnt];
    cbn [mfields_to mfields_of mhdr_to mh_id mh_size mh_first app N.eqb Pos.eqb].
  - rewrite melems_of_to. reflexivity.
  - rewrite melems_of_to. reflexivity.
  - rewrite Nat2N.id. rewrite <- (app_nil_r (flat_map mhdr_to hs)), mhdrs_of_app. reflexivity.
Qed.

Theorem mg_dec_enc x : mg_dec (mg_enc x) = Some x.
Proof. unfold mg_dec, mg_enc. cbn [v_id]. rewrite dec_enc_list. apply mfields_of_to. Qed.

Definition mg_codec : mslab_codec := mk_mcodec mg_enc mg_dec mg_dec_enc.

(** * E. Store-time content vs. commit-time content (Go stores pointers) *)

Lemma mlast_ev_app l1 l2 id :
  last_ev (l1 ++ l2) id = match last_ev l2 id with Some e => Some e | None => last_ev l1 id end.
Proof.
  induction l1 as [|w r IH]; cbn [app last_ev]; [destruct (last_ev l2 id); reflexivity|].
  rewrite IH. destruct (last_ev l2 id); [reflexivity|]. destruct (last_ev r id); reflexivity.
Qed.

Lemma mapply_log_cont_change {V} (cont1 cont2 : N -> V) lg rest m id :
  (last_ev rest id = None -> last_ev lg id = Some EvStore -> cont1 id = cont2 id) ->
  mapply_log cont2 rest (mapply_log cont1 lg m) id = mapply_log cont2 (lg ++ rest) m id.
Proof.
  intros H. rewrite mapply_log_app, !(mapply_log_last_ev cont2 rest).
  destruct (last_ev rest id) as [[|]|]; try reflexivity.
  rewrite !mapply_log_last_ev. destruct (last_ev lg id) as [[|]|]; try reflexivity.
  f_equal. auto.
Qed.

Section mapE.
  Variable dg : N -> nat -> N.
  Variable levels : nat.
  Variable max_inline_elem : N.
  Variable limit : N.
  Variable c : cfg.
  Notation mt_step := (mt_step dg levels max_inline_elem limit c).
  Notation mt_run := (mt_run dg levels max_inline_elem limit c).
  Notation mreplay := (mreplay dg levels max_inline_elem limit c).
  Notation mhist_sops := (mhist_sops dg levels max_inline_elem limit c).
  Notation mall_logs := (mall_logs dg levels max_inline_elem limit c).
  Notation mfinal_sops := (mfinal_sops dg levels max_inline_elem limit c).

  Lemma muntouched_run_cell id : forall ops t,
    finv t -> last_ev (mall_logs t ops) id = None -> mcell_of (fst (mt_run t ops)) id = mcell_of t id.
  Proof.
    induction ops as [|o r IH]; intros t Ht El; [reflexivity|].
    rewrite mt_run_cons. cbn [DurableMap.mall_logs fst] in *.
    destruct (mt_step t o) as [[t1 x] lg] eqn:E. cbn [fst].
    destruct (finv_step _ _ _ _ _ _ _ _ _ _ Ht E) as [Ht1 _].
    rewrite mlast_ev_app in El.
    destruct (last_ev (mall_logs t1 r) id) eqn:E1; [discriminate|].
    rewrite IH by assumption. unfold mcell_of.
    destruct Ht as (Hok & Sh & _). rewrite (muntouched_content _ _ _ _ _ _ _ _ _ _ _ Hok Sh E El). reflexivity.
  Qed.

  Lemma mreplay_final {V} (f : N -> mcell -> V) id : forall ops t m,
    finv t ->
    mreplay (fun t j => f j (mcell_of t j)) t ops m id =
    mapply_log (fun j => f j (mcell_of (fst (mt_run t ops)) j)) (mall_logs t ops) m id.
  Proof.
    induction ops as [|o r IH]; intros t m Ht; [reflexivity|].
    rewrite mt_run_cons. cbn [DurableMap.mreplay DurableMap.mall_logs fst].
    destruct (mt_step t o) as [[t1 x] lg] eqn:E. cbn [fst].
    destruct (finv_step _ _ _ _ _ _ _ _ _ _ Ht E) as [Ht1 _].
    rewrite IH by exact Ht1.
    apply (mapply_log_cont_change (fun j => f j (mcell_of t1 j))).
    intros El _. rewrite (muntouched_run_cell id r t1 Ht1 El). reflexivity.
  Qed.

  Lemma mhist_sops_view K addr : addr <> 0 -> forall ops t s, coherent s ->
    forall b id, view (fst (run s (mhist_sops K addr t ops))) (b, id) =
                 if N.eqb b addr then mreplay (msval K) t ops (view_map s addr) id else view s (b, id).
  Proof.
    intros Ha. induction ops as [|o r IH]; intros t s Hs b id.
    - cbn. destruct (N.eqb_spec b addr) as [->|]; reflexivity.
    - cbn [DurableMap.mhist_sops DurableMap.mreplay]. destruct (mt_step t o) as [[t1 x] lg].
      rewrite run_app_fst, IH by (apply coherent_run, Hs).
      destruct (N.eqb_spec b addr) as [->|Hb].
      + revert id. clear IH.
        assert (G : forall m1 m2, (forall j, m1 j = m2 j) -> forall id,
                      mreplay (msval K) t1 r m1 id = mreplay (msval K) t1 r m2 id).
        { clear. revert t1. induction r as [|o r IH]; intros t1 m1 m2 H id; [apply H|].
          cbn [DurableMap.mreplay]. destruct (mt_step t1 o) as [[t2 x] lg]. apply IH. apply mapply_log_ext, H. }
        apply G. intros j. unfold Durable.view_map at 1. rewrite msops_view by assumption.
        rewrite N.eqb_refl. reflexivity.
      + rewrite msops_view by assumption. destruct (N.eqb_spec b addr); [contradiction|reflexivity].
  Qed.

  (* the calls with commit-time contents leave the same storage view as the calls with the
     contents at the end of each operation *)
  Theorem mstore_time_irrelevant K addr rootid ops s0 :
    addr <> 0 -> 0 < rootid -> coherent s0 ->
    forall i, view (fst (run s0 (mfinal_sops K addr rootid ops))) i =
              view (fst (run s0 (minit_sops K addr rootid ++ mhist_sops K addr (fst (mt_init rootid)) ops))) i.
  Proof.
    intros Ha Hr Hs0 [b id]. unfold DurableMap.mfinal_sops. cbv zeta.
    set (t0 := fst (mt_init rootid)). set (tf := fst (mt_run t0 ops)).
    pose proof (finv_init dg levels max_inline_elem rootid Hr) as I0. fold t0 in I0.
    rewrite msops_view by assumption.
    rewrite run_app_fst, mhist_sops_view by (try apply coherent_run; assumption).
    destruct (N.eqb_spec b addr) as [->|Hb].
    - change (msval K) with (fun t j => (fun _ => menc K) j (mcell_of t j)).
      rewrite mreplay_final by exact I0. fold tf.
      symmetry. unfold minit_sops. fold t0.
      etransitivity.
      { apply mapply_log_ext. intros j. unfold Durable.view_map. rewrite msops_view by assumption.
        rewrite N.eqb_refl. reflexivity. }
      apply (mapply_log_cont_change (msval K t0)).
      intros El _. unfold msval. unfold tf. rewrite (muntouched_run_cell id ops t0 I0 El). reflexivity.
    - unfold minit_sops. rewrite msops_view by assumption.
      destruct (N.eqb_spec b addr); [contradiction|reflexivity].
  Qed.

  Lemma mhist_sops_no_commit K addr : forall ops t,
    forallb (fun o => negb (is_commit o)) (mhist_sops K addr t ops) = true.
  Proof.
    induction ops as [|o r IH]; intros t; [reflexivity|]. cbn [DurableMap.mhist_sops].
    destruct (mt_step t o) as [[t1 x] lg]. rewrite forallb_app, msops_no_commit, IH. reflexivity.
  Qed.

  Theorem mfinal_sops_same_ledger K addr rootid ops s0 :
    addr <> 0 -> 0 < rootid -> reachable s0 ->
    base (fst (step (fst (run s0 (mfinal_sops K addr rootid ops))) (SFastCommit None))) =
    base (fst (step (fst (run s0 (minit_sops K addr rootid ++
                                  mhist_sops K addr (fst (mt_init rootid)) ops))) (SFastCommit None))).
  Proof.
    intros Ha Hr Hs0. apply reachable_coherent in Hs0. apply commit_base_eq.
    - apply coherent_run, Hs0.
    - apply coherent_run, Hs0.
    - apply mstore_time_irrelevant; assumption.
    - unfold DurableMap.mfinal_sops. cbv zeta. rewrite msops_base. symmetry. apply no_commit_base.
      unfold minit_sops. rewrite forallb_app, msops_no_commit, mhist_sops_no_commit. reflexivity.
  Qed.
End mapE.

(** * F. Statements for the property file (maps reachable from the empty map) *)

Lemma mreach_load_flatten : forall T dg levels limit ks rootid ops,
  valid_T T -> (1 <= levels)%nat -> 0 < rootid -> Forall (mop_ok T ks) ops ->
  let c := set_threshold T in
  let t := fst (mt_run dg levels (cinl_melem c) limit c (fst (mt_init rootid)) ops) in
  forall fuel, (mdepth (t_root t) <= fuel)%nat ->
    mload fuel (assoc (mflatten (t_root t))) rootid = Some (t_root t).
Proof.
  intros T dg levels limit ks rootid ops HT Hlv Hr Hops c t fuel Hf.
  destruct (mreach_load_facts T dg levels limit ks rootid ops HT Hlv Hr Hops) as (_ & Hid & HN & Hh & _).
  fold c t in Hid, HN, Hh. rewrite <- Hid. apply mload_flatten; auto.
Qed.

Lemma mreach_run_represents : forall dg levels max_inline_elem limit c rootid ops, 0 < rootid ->
  let t := fst (mt_run dg levels max_inline_elem limit c (fst (mt_init rootid)) ops) in
  let m := mreplay dg levels max_inline_elem limit c mcell_of (fst (mt_init rootid)) ops (minit_map mcell_of rootid) in
  forall id, m id = mcontent t id.
Proof. intros dg levels mie limit c rootid ops Hr. exact (mrun_represents_init dg levels mie limit c rootid ops Hr). Qed.

Lemma mreach_step_represents : forall dg levels max_inline_elem limit c rootid ops o m, 0 < rootid ->
  let t := fst (mt_run dg levels max_inline_elem limit c (fst (mt_init rootid)) ops) in
  forall t' out lg, mt_step dg levels max_inline_elem limit c t o = (t', out, lg) ->
    mrep m t -> mrep (mapply_log_tree t' lg m) t'.
Proof.
  intros dg levels mie limit c rootid ops o m Hr t t' out lg H.
  destruct (finv_run dg levels mie limit c ops _ (finv_init dg levels mie rootid Hr)) as [(Hok & Sh & _) _].
  fold t in Hok, Sh. eapply mstep_represents; eauto.
Qed.
