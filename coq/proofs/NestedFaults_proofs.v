(* NestedFaults_proofs.v — C14 / C08 for nested containers: commit attempts that fail part-way keep
   the invariant of NestedDurable_proofs.v ([dinv]); the container states of a history do not
   depend on the write log (so neither on the attempts in between); hence retries converge and
   schedules are transparent. *)
From Coq Require Import ZArith NArith List Bool Lia Arith Permutation Sorted.
From AtreeGen Require Import Consts.
From AtreeModel Require Import Nested NestedDurable NestedFaults.
From AtreeProofs Require Import Nested_base Nested_resync Nested_chain Nested_edit Nested_ops Nested_steps Nested_proofs
  NestedDurable_base NestedDurable_chain NestedDurable_ops NestedDurable_steps NestedDurable_proofs.
Import ListNotations.
Local Open Scope N_scope.

(* ====================================================================================== *)
(* lists of identifiers *)

Lemma memb_In v l : memb v l = true <-> In v l.
Proof.
  unfold memb. rewrite existsb_exists. split.
  - intros (x & Hin & E). apply N.eqb_eq in E. now subst.
  - intros H. exists v. split; auto. apply N.eqb_refl.
Qed.

Lemma memb_false v l : memb v l = false <-> ~ In v l.
Proof. rewrite <- memb_In. destruct (memb v l); split; congruence. Qed.

Lemma nodupb_NoDup l : nodupb l = true <-> NoDup l.
Proof.
  induction l as [|x r IH]; cbn [nodupb].
  - split; [constructor|auto].
  - rewrite andb_true_iff, negb_true_iff, memb_false, IH. split.
    + intros (H1 & H2). now constructor.
    + intros H. inversion H; auto.
Qed.

Lemma In_dedup v l : In v (dedup l) <-> In v l.
Proof.
  induction l as [|x r IH]; cbn [dedup]; [tauto|].
  destruct (memb x r) eqn:E.
  - rewrite IH. apply memb_In in E. split; [now right|]. intros [<-|H]; auto.
  - cbn [In]. rewrite IH. tauto.
Qed.

Lemma NoDup_dedup l : NoDup (dedup l).
Proof.
  induction l as [|x r IH]; cbn [dedup]; [constructor|].
  destruct (memb x r) eqn:E; auto. constructor; auto. rewrite In_dedup. now apply memb_false.
Qed.

Lemma ins_perm x l : Permutation (ins x l) (x :: l).
Proof.
  induction l as [|y r IH]; cbn [ins]; auto.
  destruct (x <=? y); auto. rewrite IH. apply perm_swap.
Qed.

Lemma nsort_perm l : Permutation (nsort l) l.
Proof.
  induction l as [|x r IH]; cbn [nsort fold_right]; auto.
  fold (nsort r). rewrite ins_perm. now constructor.
Qed.

Lemma ins_sorted x l : Sorted N.le l -> Sorted N.le (ins x l).
Proof.
  induction 1 as [|y r Hs IH Hh]; cbn [ins].
  - repeat constructor.
  - destruct (N.leb_spec x y) as [Hle|Hlt].
    + constructor; [now constructor|now constructor].
    + constructor; auto. destruct r as [|z r']; cbn [ins].
      * constructor. lia.
      * inversion Hh; subst. destruct (x <=? z); constructor; auto; lia.
Qed.

Lemma nsort_sorted l : Sorted N.le (nsort l).
Proof. induction l; cbn [nsort fold_right]; [constructor|now apply ins_sorted]. Qed.

Lemma forallb_memb l1 l2 : forallb (fun v => memb v l2) l1 = true <-> incl l1 l2.
Proof.
  rewrite forallb_forall. unfold incl. split; intros H v Hv; [apply memb_In|apply memb_In]; auto.
Qed.

(* the identifiers of the write set are those with a pending entry *)
Lemma dirty_keys_spec f v : In v (dirty_keys f) <-> dirty f v <> None.
Proof. unfold dirty_keys, dirty. apply In_map_fst_aget. Qed.

(* every permutation of the write set is an admissible order, with or without a fault *)
Lemma attempt_ok_perm f order fail :
  Permutation order (dedup (dirty_keys f)) -> attempt_ok f order fail = true.
Proof.
  intros HP. unfold attempt_ok. rewrite !andb_true_iff. split; [split|].
  - apply nodupb_NoDup. eapply Permutation_NoDup; [symmetry; exact HP|apply NoDup_dedup].
  - apply forallb_memb. intros v Hv. apply In_dedup. eapply Permutation_in; eauto.
  - apply orb_true_iff. right. apply forallb_memb. intros v Hv.
    eapply Permutation_in; [symmetry; exact HP|]. now apply In_dedup.
Qed.

(* Commit / FastCommit *)
Lemma sorted_attempt_ok f fail : attempt_ok f (sorted_keys f) fail = true /\ Sorted N.le (sorted_keys f).
Proof. split; [apply attempt_ok_perm, nsort_perm|apply nsort_sorted]. Qed.

Lemma filter_partition_perm {A} (p q : A -> bool) l :
  (forall x, In x l -> q x = negb (p x)) -> Permutation (filter p l ++ filter q l) l.
Proof.
  induction l as [|x r IH]; intros H; cbn [filter app]; auto.
  rewrite (H x) by now left. destruct (p x); cbn [negb app].
  - constructor. apply IH. intros; apply H; now right.
  - rewrite <- Permutation_middle. constructor. apply IH. intros; apply H; now right.
Qed.

(* NondeterministicFastCommit with two or more modified slabs: removals first *)
Lemma nondet_attempt_ok f fail : attempt_ok f (nondet_order f) fail = true.
Proof.
  apply attempt_ok_perm. unfold nondet_order. apply filter_partition_perm.
  intros v Hv. apply In_dedup, dirty_keys_spec in Hv. destruct (dirty f v) as [[|]|]; auto; congruence.
Qed.

Lemma orders_admissible_l f fail :
  attempt_ok f (sorted_keys f) fail = true /\ Sorted N.le (sorted_keys f) /\
  attempt_ok f (nondet_order f) fail = true /\
  forall order, Permutation order (dedup (dirty_keys f)) -> attempt_ok f order fail = true.
Proof.
  destruct (sorted_attempt_ok f fail). split; auto. split; auto.
  split; [apply nondet_attempt_ok|]. intros. now apply attempt_ok_perm.
Qed.

(* ====================================================================================== *)
(* one attempt: ledger and write set *)

Lemma commit_val_wr n f u led v : commit_val n f (wr n f u led) v = commit_val n f led v.
Proof.
  unfold commit_val, wr. destruct (N.eqb_spec u v) as [->|Hne].
  - destruct (dirty f v) as [[|]|]; auto. destruct (embed n f v); auto.
  - destruct (dirty f v) as [[|]|]; auto.
    + destruct (embed n f v); auto. destruct (dirty f u) as [[|]|]; auto.
      * destruct (embed n f u); auto. now apply aget_aset_ne.
      * now apply aget_adel_ne.
    + destruct (dirty f u) as [[|]|]; auto.
      * destruct (embed n f u); auto. now apply aget_aset_ne.
      * now apply aget_adel_ne.
Qed.

Lemma lookup_wr n f u led v :
  lookup (wr n f u led) v = if u =? v then commit_val n f led v else lookup led v.
Proof.
  unfold lookup, wr, commit_val. destruct (N.eqb_spec u v) as [->|Hne].
  - destruct (dirty f v) as [[|]|]; auto.
    + destruct (embed n f v); auto. apply aget_aset_eq.
    + apply aget_adel_eq.
  - destruct (dirty f u) as [[|]|]; auto.
    + destruct (embed n f u); auto. now apply aget_aset_ne.
    + now apply aget_adel_ne.
Qed.

Lemma lookup_apply_ids n f ids : forall led v,
  lookup (apply_ids n f ids led) v = if memb v ids then commit_val n f led v else lookup led v.
Proof.
  induction ids as [|u r IH]; intros led v; [reflexivity|].
  unfold apply_ids. cbn [fold_left]. fold (apply_ids n f r (wr n f u led)).
  rewrite IH, commit_val_wr, lookup_wr. unfold memb. cbn [existsb]. fold (memb v r).
  rewrite (N.eqb_sym v u). destruct (memb v r); [now rewrite orb_true_r|now rewrite orb_false_r].
Qed.

Lemma aget_filter_fst {A} (q : N -> bool) (l : list (N * A)) v :
  aget (filter (fun kv => q (fst kv)) l) v = if q v then aget l v else None.
Proof.
  induction l as [|[k x] r IH]; cbn [filter fst aget]; [now destruct (q v)|].
  destruct (N.eqb_spec k v) as [->|Hne].
  - destruct (q v) eqn:E; cbn [aget]; [now rewrite N.eqb_refl|exact IH].
  - destruct (q k); cbn [aget]; [|exact IH].
    destruct (N.eqb_spec k v); [congruence|exact IH].
Qed.

Lemma dirty_log_drop done f v : dirty (log_drop done f) v = if memb v done then None else dirty f v.
Proof.
  unfold dirty, log_drop. cbn [f_log].
  rewrite (aget_filter_fst (fun k => negb (memb k done))). now destruct (memb v done).
Qed.

Lemma fget_log_drop done f v : fget (log_drop done f) v = fget f v.
Proof. reflexivity. Qed.

(* an attempt that visits the whole write set empties it *)
Lemma log_drop_all done f : incl (dirty_keys f) done -> f_log (log_drop done f) = [].
Proof.
  unfold log_drop, dirty_keys. cbn [f_log]. induction (f_log f) as [|[k b] r IH]; intros H; auto.
  cbn [filter fst]. assert (Hk : memb k done = true) by (apply memb_In, H; now left).
  rewrite Hk. cbn [negb]. apply IH. intros x Hx. apply H. now right.
Qed.

Lemma attempt_complete f order fail :
  attempt_ok f order fail = true -> faulted order fail = false ->
  processed order fail = order /\ incl (dirty_keys f) order.
Proof.
  unfold attempt_ok. rewrite !andb_true_iff. intros ((_ & _) & Hc) Hf. rewrite Hf in Hc. cbn [orb] in Hc.
  split; [|now apply forallb_memb].
  unfold processed, faulted in *. destruct fail as [k|]; auto. apply Nat.ltb_ge in Hf. now apply firstn_all2.
Qed.

(* ====================================================================================== *)
(* forests that differ only in the write log *)

Lemma fget_cs f1 f2 v : cs_eq f1 f2 -> fget f1 v = fget f2 v.
Proof. unfold cs_eq, fget. now intros ->. Qed.

Lemma cs_eq_refl f : cs_eq f f.
Proof. reflexivity. Qed.
Lemma cs_eq_sym f1 f2 : cs_eq f1 f2 -> cs_eq f2 f1.
Proof. unfold cs_eq. congruence. Qed.
Lemma cs_eq_trans f1 f2 f3 : cs_eq f1 f2 -> cs_eq f2 f3 -> cs_eq f1 f3.
Proof. unfold cs_eq. congruence. Qed.

Lemma cs_log_drop done f : cs_eq (log_drop done f) f.
Proof. reflexivity. Qed.

Lemma flat_cs n f f' v : cs_eq f f' -> flat n f' v = flat n f v.
Proof.
  intros H. apply flat_same_views. intros y. unfold vsame, flag. rewrite (fget_cs _ _ y H).
  destruct (fget f' y); auto.
Qed.

Lemma unf_cs f f' : cs_eq f f' -> forall k e, unf k f e = unf k f' e.
Proof.
  intros H. induction k as [|k IH]; intros [id sz|v w]; cbn [unf]; auto; rewrite (fget_cs _ _ v H); auto.
  destruct (fget f' v) as [c|]; auto. f_equal. apply map_ext. intros s. now rewrite IH.
Qed.

Lemma unfold_cs n f f' r : cs_eq f f' -> unfold n f r = unfold n f' r.
Proof.
  intros H. unfold unfold, uslots. rewrite (fget_cs _ _ r H). destruct (fget f' r) as [c|]; auto.
  do 2 f_equal. apply map_ext. intros s. now rewrite (unf_cs _ _ H).
Qed.

Lemma stored_cs f f' v : cs_eq f f' -> stored f v -> stored f' v.
Proof. intros H (c & Hc & Hi). exists c. now rewrite <- (fget_cs _ _ v H). Qed.

Lemma fwf_cs n g f f' : cs_eq f f' -> fwf n g f -> fwf n g f'.
Proof. intros H. apply fwf_fget_ext. intros x. symmetry. now apply fget_cs. Qed.

Lemma op_ok_cs n f f' o : cs_eq f f' -> op_ok n f o -> op_ok n f' o.
Proof.
  destruct f as [cs l], f' as [cs' l']. unfold cs_eq. cbn [f_cs]. intros <- H. destruct o; exact H.
Qed.

(* ---------- one attempt keeps the invariant ---------- *)
Lemma commit_val_flat n g d v : dinv n g d -> commit_val n (d_f d) (d_led d) v = flat n (d_f d) v.
Proof.
  intros (_ & Hl & Hc). rewrite <- (commit_exact n (d_f d) (d_led d) Hl Hc v), lookup_commit. reflexivity.
Qed.

Lemma try_dinv n g d order fail : dinv n g d -> dinv n g (try_commit n d order fail).
Proof.
  intros Hd. pose proof Hd as (Hwf & Hl & Hc). unfold try_commit. set (done := processed order fail).
  split; [|split]; cbn [d_f d_led].
  - eapply fwf_cs; [|exact Hwf]. apply cs_eq_sym, cs_log_drop.
  - intros v b. rewrite dirty_log_drop. destruct (memb v done); [discriminate|]. intros H.
    destruct (Hl v b H) as (c & Hcv & Hi). exists c. auto.
  - intros v. rewrite dirty_log_drop, lookup_apply_ids, (flat_cs n (d_f d) _ v (cs_eq_sym _ _ (cs_log_drop done (d_f d)))).
    destruct (memb v done); intros H.
    + now apply (commit_val_flat n g).
    + now apply Hc.
Qed.

(* what the instance returns is the current forest, whatever is pending *)
Lemma sview_flat n g d v : dinv n g d -> sview n d v = flat n (d_f d) v.
Proof.
  intros (_ & Hl & Hc). unfold sview. destruct (dirty (d_f d) v) as [[|]|] eqn:Ed.
  - destruct (Hl v true Ed) as (c & Hcv & Hi). unfold embed, flat. rewrite Hcv. cbn in Hi. now rewrite Hi.
  - destruct (Hl v false Ed) as (c & Hcv & Hi). unfold flat. rewrite Hcv. cbn in Hi. now rewrite Hi.
  - now apply Hc.
Qed.

Lemma sview_load n g d r :
  dinv n g d -> stored (d_f d) r -> load n (sview n d) r = unfold n (d_f d) r /\ unfold n (d_f d) r <> None.
Proof.
  intros Hd Hs. pose proof Hd as (Hwf & _).
  rewrite (load_ext (sview n d) (lookup (flatten n (d_f d))) n r).
  - now apply (C03_nested_roundtrip_l n g).
  - intros v. rewrite lookup_flatten. now apply (sview_flat n g).
Qed.

(* every pending change is still pending, or durably written with its current content *)
Lemma attempt_loses_nothing n g d order fail :
  dinv n g d ->
  let d' := try_commit n d order fail in
  f_cs (d_f d') = f_cs (d_f d) /\
  (forall v b, dirty (d_f d) v = Some b ->
     (dirty (d_f d') v = Some b /\ lookup (d_led d') v = lookup (d_led d) v /\ ~ In v (processed order fail)) \/
     (dirty (d_f d') v = None /\ lookup (d_led d') v = flat n (d_f d) v /\ In v (processed order fail))) /\
  (forall v, dirty (d_f d) v = None -> dirty (d_f d') v = None /\ lookup (d_led d') v = lookup (d_led d) v) /\
  (forall v, sview n d' v = sview n d v).
Proof.
  intros Hd d'. pose proof (try_dinv n g d order fail Hd) as Hd'. fold d' in Hd'.
  split; [reflexivity|]. split; [|split].
  - intros v b Hv. unfold d', try_commit. cbn [d_f d_led]. rewrite dirty_log_drop, lookup_apply_ids.
    destruct (memb v (processed order fail)) eqn:E.
    + right. split; auto. split; [now apply (commit_val_flat n g)|now apply memb_In].
    + left. split; auto. split; auto. now apply memb_false.
  - intros v Hv. unfold d', try_commit. cbn [d_f d_led]. rewrite dirty_log_drop, lookup_apply_ids.
    destruct (memb v (processed order fail)); [|auto]. split; auto. unfold commit_val. now rewrite Hv.
  - intros v. rewrite (sview_flat n g d' v Hd'), (sview_flat n g d v Hd). apply flat_cs, cs_eq_sym. reflexivity.
Qed.

(* a fault-free attempt: the ledger is the flattening of the forest, nothing is pending *)
Lemma full_attempt n g d order fail :
  dinv n g d -> attempt_ok (d_f d) order fail = true -> faulted order fail = false ->
  let d' := try_commit n d order fail in
  f_log (d_f d') = [] /\ f_cs (d_f d') = f_cs (d_f d) /\
  (forall v, lookup (d_led d') v = lookup (flatten n (d_f d)) v) /\
  (forall v, In v (map fst (d_led d')) <-> stored (d_f d) v) /\
  (forall r, stored (d_f d) r -> load n (lookup (d_led d')) r = unfold n (d_f d) r /\ unfold n (d_f d) r <> None).
Proof.
  intros Hd Hok Hnf d'. destruct (attempt_complete _ _ _ Hok Hnf) as (Hp & Hincl).
  pose proof (try_dinv n g d order fail Hd) as Hd'. fold d' in Hd'.
  assert (Hlog : f_log (d_f d') = []).
  { unfold d', try_commit. cbn [d_f]. rewrite Hp. now apply log_drop_all. }
  assert (Hlk : forall v, lookup (d_led d') v = lookup (flatten n (d_f d)) v).
  { intros v. destruct Hd' as (_ & _ & Hc'). rewrite lookup_flatten.
    rewrite (Hc' v) by (unfold dirty; now rewrite Hlog). apply flat_cs, cs_eq_sym. reflexivity. }
  split; auto. split; [reflexivity|]. split; auto. split.
  - intros v. rewrite In_map_fst_aget. change (aget (d_led d') v) with (lookup (d_led d') v).
    rewrite Hlk, lookup_flatten. apply flat_some_stored.
  - intros r Hr. rewrite (load_ext _ _ n r Hlk). destruct Hd as (Hwf & _). now apply (C03_nested_roundtrip_l n g).
Qed.

(* ====================================================================================== *)
(* no operation reads the write log: the container states after an operation, and its success, are
   functions of the container states before it *)

Ltac cs := unfold cs_eq in *; cbn [f_cs flog fset] in *; try congruence.

Lemma fset_cs f1 f2 v c : cs_eq f1 f2 -> cs_eq (fset f1 v c) (fset f2 v c).
Proof. intros; cs. Qed.
Lemma flog_cs f1 f2 v b : cs_eq f1 f2 -> cs_eq (flog f1 v b) (flog f2 v b).
Proof. intros; cs. Qed.

Lemma child_size_cs f1 f2 v : cs_eq f1 f2 -> child_size f1 v = child_size f2 v.
Proof. intros H. unfold child_size. now rewrite (fget_cs _ _ v H). Qed.
Lemma esize_cs g f1 f2 e : cs_eq f1 f2 -> esize g f1 e = esize g f2 e.
Proof. intros H. destruct e; cbn [esize]; auto. now rewrite (child_size_cs _ _ v H). Qed.
Lemma slot_size_cs g f1 f2 k s : cs_eq f1 f2 -> slot_size g f1 k s = slot_size g f2 k s.
Proof. intros H. unfold slot_size. now rewrite (esize_cs g _ _ (s_val s) H). Qed.
Lemma data_size_cs g f1 f2 k l : cs_eq f1 f2 -> data_size g f1 k l = data_size g f2 k l.
Proof.
  intros H. unfold data_size. f_equal. induction l as [|s r IH]; cbn [sum_slots]; auto.
  now rewrite IH, (slot_size_cs g _ _ k s H).
Qed.

Lemma storable_cs f1 f2 v lim : cs_eq f1 f2 -> cs_eq (storable f1 v lim) (storable f2 v lim).
Proof.
  intros H. unfold storable. rewrite (fget_cs _ _ v H). destruct (fget f2 v) as [c|]; auto.
  destruct (inl_size c <=? lim), (c_inl c); auto; cs.
Qed.

Lemma storable_elem_cs g f1 f2 k ksz e :
  cs_eq f1 f2 -> cs_eq (storable_elem g f1 k ksz e) (storable_elem g f2 k ksz e).
Proof. intros H. destruct e; cbn [storable_elem]; auto. now apply storable_cs. Qed.

Lemma uninline_old_cs f1 f2 e : cs_eq f1 f2 -> cs_eq (uninline_old f1 e) (uninline_old f2 e).
Proof.
  intros H. destruct e as [|v w]; cbn [uninline_old]; auto. rewrite (fget_cs _ _ v H).
  destruct (fget f2 v) as [c|]; auto. destruct (c_inl c); auto; cs.
Qed.

Lemma commit_slots_cs f1 f2 p c l sz idx :
  cs_eq f1 f2 -> cs_eq (commit_slots f1 p c l sz idx) (commit_slots f2 p c l sz idx).
Proof. intros H. unfold commit_slots. destruct (c_inl c); cs. Qed.

Lemma set_callback_cs g f1 f2 p i s : cs_eq f1 f2 -> cs_eq (set_callback g f1 p i s) (set_callback g f2 p i s).
Proof.
  intros H. unfold set_callback. destruct (s_val s) as [|v w]; auto. rewrite (fget_cs _ _ p H).
  destruct (fget f2 p) as [c|]; auto.
  set (a1 := match c_kind c with KArr => fset f1 p _ | KMap => f1 end).
  set (a2 := match c_kind c with KArr => fset f2 p _ | KMap => f2 end).
  assert (Ha : cs_eq a1 a2) by (unfold a1, a2; destruct (c_kind c); cs).
  rewrite (fget_cs _ _ v Ha). destruct (fget a2 v); auto; cs.
Qed.

Lemma clear_upd_cs f1 f2 v : cs_eq f1 f2 -> cs_eq (clear_upd f1 v) (clear_upd f2 v).
Proof. intros H. unfold clear_upd. rewrite (fget_cs _ _ v H). destruct (fget f2 v); auto; cs. Qed.

Lemma del_idx_cs f1 f2 p v : cs_eq f1 f2 -> cs_eq (del_idx f1 p v) (del_idx f2 p v).
Proof. intros H. unfold del_idx. rewrite (fget_cs _ _ p H). destruct (fget f2 p); auto; cs. Qed.

Definition r2 (a b : forest * bool) : Prop := cs_eq (fst a) (fst b) /\ snd a = snd b.
Definition r3 (a b : forest * bool * option elem) : Prop :=
  cs_eq (fst (fst a)) (fst (fst b)) /\ snd (fst a) = snd (fst b) /\ snd a = snd b.
Definition ntf_cs (ntf : forest -> N -> forest * bool) : Prop :=
  forall a b q, cs_eq a b -> r2 (ntf a q) (ntf b q).

Lemma r2_same f1 f2 b : cs_eq f1 f2 -> r2 (f1, b) (f2, b).
Proof. now split. Qed.

Lemma cset_body_cs ntf g f1 f2 p i e :
  ntf_cs ntf -> cs_eq f1 f2 -> r3 (cset_body ntf g f1 p i e) (cset_body ntf g f2 p i e).
Proof.
  intros Hn H. unfold cset_body. rewrite (fget_cs _ _ p H).
  destruct (fget f2 p) as [c|]; [|now repeat split].
  destruct (nth_error (c_slots c) i) as [s|]; [|now repeat split].
  pose proof (storable_elem_cs g f1 f2 (c_kind c) (s_ksz s) e H) as H1.
  set (a1 := storable_elem g f1 (c_kind c) (s_ksz s) e) in *.
  set (a2 := storable_elem g f2 (c_kind c) (s_ksz s) e) in *.
  rewrite (fget_cs _ _ p H1). destruct (fget a2 p) as [c1|]; [|now repeat split].
  rewrite (data_size_cs g a1 a2 _ _ H1).
  match goal with |- r3 (match ntf ?x p with _ => _ end) (match ntf ?y p with _ => _ end) =>
    assert (H3 : cs_eq x y) by (apply set_callback_cs, commit_slots_cs, H1);
    pose proof (Hn x y p H3) as Hr; destruct (ntf x p) as [fa oka], (ntf y p) as [fb okb] end.
  destruct Hr as (Hc & Ho). cbn [fst snd] in *. subst. now repeat split.
Qed.

Lemma notify_cs g : forall n, ntf_cs (notify n g).
Proof.
  induction n as [|n IH]; intros f1 f2 v H; cbn [notify]; [now split|].
  rewrite (fget_cs _ _ v H). destruct (fget f2 v) as [c|]; [|now split].
  destruct (c_upd c) as [u|]; [|now split].
  destruct (negb (c_inl c) && negb (inl_size c <=? u_lim u)); [now split|].
  rewrite (fget_cs _ _ (u_par u) H). destruct (fget f2 (u_par u)) as [pc|]; [|split; auto; now apply clear_upd_cs].
  destruct (find_child pc v u) as [i|]; [|split; auto; now apply clear_upd_cs].
  pose proof (cset_body_cs (notify n g) g f1 f2 (u_par u) i (NChild v (u_w u)) IH H) as Hr.
  destruct (cset_body (notify n g) g f1 (u_par u) i (NChild v (u_w u))) as [[fa oka] olda].
  destruct (cset_body (notify n g) g f2 (u_par u) i (NChild v (u_w u))) as [[fb okb] oldb].
  destruct Hr as (Hc & Ho & _). now split.
Qed.

Lemma arr_insert_cs n g f1 f2 p i e : cs_eq f1 f2 -> r2 (arr_insert n g f1 p i e) (arr_insert n g f2 p i e).
Proof.
  intros H. unfold arr_insert. rewrite (fget_cs _ _ p H). destruct (fget f2 p) as [c|]; [|now split].
  destruct (negb (is_arr c) || Nat.ltb (length (c_slots c)) i); [now split|].
  pose proof (storable_elem_cs g f1 f2 KArr 0 e H) as H1.
  set (a1 := storable_elem g f1 KArr 0 e) in *. set (a2 := storable_elem g f2 KArr 0 e) in *.
  rewrite (fget_cs _ _ p H1). destruct (fget a2 p) as [c1|]; [|now split].
  rewrite (esize_cs g a1 a2 e H1).
  destruct (shift_up_fails i _ (c_idx c1)).
  - split; auto. now apply commit_slots_cs.
  - apply notify_cs. now apply set_callback_cs, commit_slots_cs.
Qed.

Lemma arr_set_cs n g f1 f2 p i e : cs_eq f1 f2 -> r2 (arr_set n g f1 p i e) (arr_set n g f2 p i e).
Proof.
  intros H. unfold arr_set. rewrite (fget_cs _ _ p H). destruct (fget f2 p) as [c|]; [|now split].
  destruct (negb (is_arr c)); [now split|].
  pose proof (cset_body_cs (notify n g) g f1 f2 p i e (notify_cs g n) H) as Hr.
  destruct (cset_body (notify n g) g f1 p i e) as [[fa oka] olda].
  destruct (cset_body (notify n g) g f2 p i e) as [[fb okb] oldb].
  destruct Hr as (Hc & Ho & Hold). cbn [fst snd] in *. subst.
  destruct oldb as [o|]; [|now split]. split; auto. cbn [fst].
  pose proof (uninline_old_cs fa fb o Hc) as H2.
  destruct o as [|v0 w0]; auto. destruct (same_child e v0); auto. now apply del_idx_cs.
Qed.

Lemma arr_remove_cs n g f1 f2 p i : cs_eq f1 f2 -> r2 (arr_remove n g f1 p i) (arr_remove n g f2 p i).
Proof.
  intros H. unfold arr_remove. rewrite (fget_cs _ _ p H). destruct (fget f2 p) as [c|]; [|now split].
  destruct (negb (is_arr c)); [now split|].
  destruct (nth_error (c_slots c) i) as [s|]; [|now split].
  rewrite (slot_size_cs g f1 f2 KArr s H).
  match goal with |- r2 (match notify n g ?x p with _ => _ end) (match notify n g ?y p with _ => _ end) =>
    assert (H3 : cs_eq x y) by (apply commit_slots_cs, H);
    pose proof (notify_cs g n x y p H3) as Hr; destruct (notify n g x p) as [fa oka], (notify n g y p) as [fb okb] end.
  destruct Hr as (Hc & Ho). cbn [fst snd] in *. subst. split; auto. cbn [fst].
  pose proof (uninline_old_cs fa fb (s_val s) Hc) as H2.
  destruct (s_val s) as [|v0 w0]; auto. now apply del_idx_cs.
Qed.

Lemma pop_step_cs n g f1 f2 p : cs_eq f1 f2 -> r2 (pop_step n g f1 p) (pop_step n g f2 p).
Proof.
  intros H. unfold pop_step. rewrite (fget_cs _ _ p H). destruct (fget f2 p) as [c|]; [|now split].
  apply notify_cs. now apply commit_slots_cs.
Qed.

Lemma map_set_cs n g f1 f2 p kid ksz e : cs_eq f1 f2 -> r2 (map_set n g f1 p kid ksz e) (map_set n g f2 p kid ksz e).
Proof.
  intros H. unfold map_set. rewrite (fget_cs _ _ p H). destruct (fget f2 p) as [c|]; [|now split].
  destruct (is_arr c); [now split|].
  destruct (find_key (c_slots c) kid) as [i|].
  - pose proof (cset_body_cs (notify n g) g f1 f2 p i e (notify_cs g n) H) as Hr.
    destruct (cset_body (notify n g) g f1 p i e) as [[fa oka] olda].
    destruct (cset_body (notify n g) g f2 p i e) as [[fb okb] oldb].
    destruct Hr as (Hc & Ho & Hold). cbn [fst snd] in *. subst.
    destruct oldb as [o|]; [|now split]. split; auto. cbn [fst]. now apply uninline_old_cs.
  - pose proof (storable_elem_cs g f1 f2 KMap ksz e H) as H1.
    set (a1 := storable_elem g f1 KMap ksz e) in *. set (a2 := storable_elem g f2 KMap ksz e) in *.
    rewrite (fget_cs _ _ p H1). destruct (fget a2 p) as [c1|]; [|now split].
    rewrite (slot_size_cs g a1 a2 KMap _ H1).
    apply notify_cs. now apply set_callback_cs, commit_slots_cs.
Qed.

Lemma map_remove_cs n g f1 f2 p kid : cs_eq f1 f2 -> r2 (map_remove n g f1 p kid) (map_remove n g f2 p kid).
Proof.
  intros H. unfold map_remove. rewrite (fget_cs _ _ p H). destruct (fget f2 p) as [c|]; [|now split].
  destruct (is_arr c); [now split|].
  destruct (find_key (c_slots c) kid) as [i|]; [|now split].
  destruct (nth_error (c_slots c) i) as [s|]; [|now split].
  rewrite (slot_size_cs g f1 f2 KMap s H).
  match goal with |- r2 (match notify n g ?x p with _ => _ end) (match notify n g ?y p with _ => _ end) =>
    assert (H3 : cs_eq x y) by (apply commit_slots_cs, H);
    pose proof (notify_cs g n x y p H3) as Hr; destruct (notify n g x p) as [fa oka], (notify n g y p) as [fb okb] end.
  destruct Hr as (Hc & Ho). cbn [fst snd] in *. subst. split; auto. cbn [fst]. now apply uninline_old_cs.
Qed.

Lemma get_child_cs g f1 f2 p loc : cs_eq f1 f2 -> r2 (get_child g f1 p loc) (get_child g f2 p loc).
Proof.
  intros H. unfold get_child. rewrite (fget_cs _ _ p H). destruct (fget f2 p) as [c|]; [|now split].
  destruct (match c_kind c with KArr => Some (N.to_nat loc) | KMap => find_key (c_slots c) loc end) as [i|]; [|now split].
  destruct (nth_error (c_slots c) i) as [s|]; [|now split]. split; auto. now apply set_callback_cs.
Qed.

Lemma touch_cs n g f1 f2 v : cs_eq f1 f2 -> r2 (touch n g f1 v) (touch n g f2 v).
Proof.
  intros H. unfold touch. rewrite (fget_cs _ _ v H). destruct (fget f2 v) as [c|]; [|now split].
  destruct (c_inl c); [now apply notify_cs|]. split; auto.
Qed.

Lemma step_cs n g f1 f2 o : cs_eq f1 f2 -> r2 (step n g f1 o) (step n g f2 o).
Proof.
  intros H. destruct o; cbn [step].
  - split; auto. unfold new_container. now apply flog_cs, fset_cs.
  - now apply arr_insert_cs.
  - now apply arr_set_cs.
  - now apply arr_remove_cs.
  - now apply pop_step_cs.
  - now apply map_set_cs.
  - now apply map_remove_cs.
  - now apply get_child_cs.
  - now apply touch_cs.
  - split; auto.
  - split; auto. unfold fresh_wrapper. cbn [fst]. rewrite (fget_cs _ _ v H). destruct (fget f2 v); auto; cs.
Qed.

(* ====================================================================================== *)
(* histories *)

Lemma dstep_cs n g d d0 o : cs_eq (d_f d) (d_f d0) ->
  cs_eq (d_f (fst (dstep n g d o))) (d_f (fst (dstep n g d0 o))) /\ snd (dstep n g d o) = snd (dstep n g d0 o).
Proof.
  intros H. pose proof (step_cs n g _ _ o H) as (Hc & Ho). unfold dstep.
  destruct (step n g (d_f d) o) as [fa oka], (step n g (d_f d0) o) as [fb okb]. cbn in *. auto.
Qed.

Lemma fstep_dinv n g d it :
  dinv n g d -> item_ok n d it -> snd (fstep n g d it) = true -> dinv n g (fst (fstep n g d it)).
Proof.
  destruct it; cbn [fstep item_ok fst snd]; intros Hd Hok Hs; auto.
  - eapply dinv_step; eauto. destruct (dstep n g d o) as [d' ok]; cbn in *; now subst.
  - now apply try_dinv.
Qed.

Lemma frun_cons n g d it r :
  snd (fstep n g d it) = true -> frun n g d (it :: r) = frun n g (fst (fstep n g d it)) r.
Proof. cbn [frun]. destruct (fstep n g d it) as [d1 ok]. cbn. now intros ->. Qed.

Lemma frun_dinv n g : forall l d,
  dinv n g d -> hist_ok n g d l -> snd (frun n g d l) = true /\ dinv n g (fst (frun n g d l)).
Proof.
  induction l as [|it r IH]; intros d Hd Hok; [split; auto|].
  destruct Hok as (Hi & Hs & Hr). rewrite frun_cons by auto. apply IH; auto. now apply fstep_dinv.
Qed.

Lemma hist_ok_app n g : forall l1 l2 d,
  hist_ok n g d (l1 ++ l2) -> hist_ok n g d l1 /\ hist_ok n g (fst (frun n g d l1)) l2.
Proof.
  induction l1 as [|it r IH]; intros l2 d H; cbn [app] in *; [split; [exact I|exact H]|].
  destruct H as (Hi & Hs & Hr). rewrite frun_cons by auto. destruct (IH _ _ Hr). cbn [hist_ok]. auto.
Qed.

(* the forest of a history with attempts is the forest of its operations alone *)
Lemma sim_fwd n g : forall l d d0,
  dinv n g d -> dinv n g d0 -> cs_eq (d_f d) (d_f d0) -> hist_ok n g d l ->
  hist_ok n g d0 (map FOp (ops_of l)) /\ sched_ok n g d l /\
  cs_eq (d_f (fst (frun n g d l))) (d_f (fst (frun n g d0 (map FOp (ops_of l))))) /\
  ftrace n g d l = ftrace n g d0 (map FOp (ops_of l)).
Proof.
  induction l as [|it r IH]; intros d d0 Hd Hd0 Hcs Hok; [cbn; auto|].
  destruct Hok as (Hi & Hs & Hr).
  pose proof (fstep_dinv _ _ _ _ Hd Hi Hs) as Hd1.
  destruct it as [o|order fail| |].
  - cbn [ops_of map]. cbn [item_ok] in Hi.
    destruct (dstep_cs n g d d0 o Hcs) as (Hc1 & Ho1).
    assert (Hi0 : op_ok n (d_f d0) o) by (eapply op_ok_cs; eauto).
    assert (Hs0 : snd (fstep n g d0 (FOp o)) = true) by (cbn [fstep] in *; congruence).
    pose proof (fstep_dinv n g d0 (FOp o) Hd0 Hi0 Hs0) as Hd01.
    destruct (IH _ _ Hd1 Hd01 Hc1 Hr) as (A & B & C & D).
    rewrite (frun_cons n g d (FOp o) r) by exact Hs. rewrite (frun_cons n g d0 (FOp o)) by exact Hs0.
    split; [cbn [hist_ok item_ok]; auto|]. split; [cbn [sched_ok]; auto|]. split; auto.
    cbn [ftrace]. f_equal; auto.
  - cbn [ops_of]. rewrite frun_cons by reflexivity.
    destruct (IH _ d0 Hd1 Hd0 Hcs Hr) as (A & B & C & D). cbn [sched_ok ftrace]. auto.
  - cbn [ops_of]. rewrite frun_cons by reflexivity.
    destruct (IH _ d0 Hd1 Hd0 Hcs Hr) as (A & B & C & D). cbn [sched_ok ftrace]. auto.
  - cbn [ops_of]. rewrite frun_cons by reflexivity.
    destruct (IH _ d0 Hd1 Hd0 Hcs Hr) as (A & B & C & D). cbn [sched_ok ftrace]. auto.
Qed.

(* conversely: a valid history of operations stays valid under every admissible schedule *)
Lemma sim_bwd n g : forall l d d0,
  dinv n g d -> dinv n g d0 -> cs_eq (d_f d) (d_f d0) ->
  hist_ok n g d0 (map FOp (ops_of l)) -> sched_ok n g d l -> hist_ok n g d l.
Proof.
  induction l as [|it r IH]; intros d d0 Hd Hd0 Hcs Hok Hsch; [exact I|].
  destruct Hsch as (Hi & Hr).
  destruct it as [o|order fail| |].
  - cbn [ops_of map] in Hok. destruct Hok as (Hi0 & Hs0 & Hr0). cbn [item_ok] in Hi0.
    destruct (dstep_cs n g d d0 o Hcs) as (Hc1 & Ho1).
    assert (Hi1 : op_ok n (d_f d) o) by (eapply op_ok_cs; [apply cs_eq_sym|]; eauto).
    assert (Hs : snd (fstep n g d (FOp o)) = true) by (cbn [fstep] in *; congruence).
    pose proof (fstep_dinv n g d (FOp o) Hd Hi1 Hs) as Hd1.
    pose proof (fstep_dinv n g d0 (FOp o) Hd0 Hi0 Hs0) as Hd01.
    cbn [hist_ok item_ok]. split; auto. split; auto. eapply IH; eauto.
  - cbn [ops_of] in Hok. cbn [hist_ok]. split; auto. split; auto.
    eapply IH; eauto. apply (fstep_dinv n g d (FTry order fail)); auto.
  - cbn [ops_of] in Hok. cbn [hist_ok]. split; auto. split; auto. eapply IH; eauto.
  - cbn [ops_of] in Hok. cbn [hist_ok]. split; auto. split; auto. eapply IH; eauto.
Qed.

Lemma frun_plain n g : forall os d, frun n g d (map FOp os) = drun n g d os.
Proof.
  induction os as [|o r IH]; intros d; [reflexivity|]. cbn [map frun drun fstep].
  destruct (dstep n g d o) as [d1 ok]. destruct ok; auto.
Qed.

Lemma drun_forest n g : forall os d,
  d_f (fst (drun n g d os)) = fst (run n g (d_f d) os) /\ snd (drun n g d os) = snd (run n g (d_f d) os).
Proof.
  induction os as [|o r IH]; intros d; [split; reflexivity|]. cbn [drun run]. unfold dstep.
  destruct (step n g (d_f d) o) as [f1 ok]. destruct ok; [|split; reflexivity].
  apply (IH (mkD f1 _)).
Qed.

(* ---------- C14 ---------- *)
Theorem C14_nested_failed_commit_keeps_view_l n g l order fail :
  (0 < n)%nat -> hist_ok n g dinit l ->
  let d := fst (frun n g dinit l) in
  let d' := try_commit n d order fail in
  (* nothing is lost *)
  f_cs (d_f d') = f_cs (d_f d) /\
  f_cs (d_f d) = f_cs (fst (run n g empty_forest (ops_of l))) /\
  (forall v b, dirty (d_f d) v = Some b ->
     (dirty (d_f d') v = Some b /\ lookup (d_led d') v = lookup (d_led d) v /\ ~ In v (processed order fail)) \/
     (dirty (d_f d') v = None /\ lookup (d_led d') v = flat n (d_f d) v /\ In v (processed order fail))) /\
  (forall v, dirty (d_f d) v = None -> dirty (d_f d') v = None /\ lookup (d_led d') v = lookup (d_led d) v) /\
  (* the instance still holds the current forest *)
  (forall v, sview n d' v = flat n (d_f d) v) /\
  (forall r, stored (d_f d) r -> load n (sview n d') r = unfold n (d_f d) r /\ unfold n (d_f d) r <> None).
Proof.
  intros Hn Hok d d'. pose proof (dinv_init n g Hn) as H0.
  destruct (frun_dinv n g l dinit H0 Hok) as (_ & Hd). fold d in Hd.
  destruct (attempt_loses_nothing n g d order fail Hd) as (A & B & C & D). fold d' in A, B, C, D.
  destruct (sim_fwd n g l dinit dinit H0 H0 (cs_eq_refl _) Hok) as (_ & _ & E & _). fold d in E.
  rewrite frun_plain in E. rewrite (proj1 (drun_forest n g (ops_of l) dinit)) in E.
  split; auto. split; [exact E|]. split; auto. split; auto.
  pose proof (try_dinv n g d order fail Hd) as Hd'. fold d' in Hd'. split.
  - intros v. rewrite D. now apply (sview_flat n g).
  - intros r Hr. destruct (sview_load n g d' r Hd') as (L & U).
    { eapply stored_cs; [|exact Hr]. apply cs_eq_sym. exact A. }
    rewrite (unfold_cs n (d_f d') (d_f d) r A) in L, U. auto.
Qed.

Theorem C14_nested_retry_durable_l n g l order fail :
  (0 < n)%nat -> hist_ok n g dinit l ->
  let d := fst (frun n g dinit l) in
  attempt_ok (d_f d) order fail = true -> faulted order fail = false ->
  let d' := try_commit n d order fail in
  f_log (d_f d') = [] /\ f_cs (d_f d') = f_cs (d_f d) /\
  f_cs (d_f d) = f_cs (fst (run n g empty_forest (ops_of l))) /\
  (forall v, lookup (d_led d') v = lookup (flatten n (d_f d)) v) /\
  (forall v, In v (map fst (d_led d')) <-> stored (d_f d) v) /\
  (forall r, stored (d_f d) r -> load n (lookup (d_led d')) r = unfold n (d_f d) r /\ unfold n (d_f d) r <> None).
Proof.
  intros Hn Hok d Ha Hf d'. pose proof (dinv_init n g Hn) as H0.
  destruct (frun_dinv n g l dinit H0 Hok) as (_ & Hd). fold d in Hd.
  destruct (full_attempt n g d order fail Hd Ha Hf) as (A & B & C & D & E). fold d' in A, B, C, D, E.
  destruct (sim_fwd n g l dinit dinit H0 H0 (cs_eq_refl _) Hok) as (_ & _ & F & _). fold d in F.
  rewrite frun_plain in F. rewrite (proj1 (drun_forest n g (ops_of l) dinit)) in F.
  repeat split; auto; try apply D; try apply E; auto.
Qed.

Lemma plain_dreach n g : forall os d,
  dreach n g d -> hist_ok n g d (map FOp os) ->
  dreach n g (fst (drun n g d os)) /\ snd (drun n g d os) = true.
Proof.
  induction os as [|o r IH]; intros d Hd Hok; [split; auto|].
  cbn [map hist_ok item_ok fstep] in Hok. destruct Hok as (Hi & Hs & Hr). cbn [drun].
  destruct (dstep n g d o) as [d1 ok] eqn:E. cbn [fst snd] in *. subst ok.
  apply IH; auto. econstructor; eauto.
Qed.

Lemma lookup_flatten_cs n f f' v : cs_eq f f' -> lookup (flatten n f) v = lookup (flatten n f') v.
Proof. intros H. rewrite !lookup_flatten. symmetry. now apply flat_cs. Qed.

Theorem C14_nested_retry_converges_l n g l order fail order0 fail0 :
  (0 < n)%nat -> hist_ok n g dinit l ->
  let d := fst (frun n g dinit l) in
  let d0 := fst (drun n g dinit (ops_of l)) in
  attempt_ok (d_f d) order fail = true -> faulted order fail = false ->
  attempt_ok (d_f d0) order0 fail0 = true -> faulted order0 fail0 = false ->
  dreach n g d0 /\ snd (drun n g dinit (ops_of l)) = true /\
  f_cs (d_f d) = f_cs (d_f d0) /\
  (forall v, lookup (d_led (try_commit n d order fail)) v = lookup (d_led (try_commit n d0 order0 fail0)) v) /\
  (forall v, lookup (d_led (try_commit n d order fail)) v = lookup (commit_ledger n (d_f d0) (d_led d0)) v) /\
  (forall v, lookup (d_led (try_commit n d order fail)) v = lookup (flatten n (d_f d0)) v).
Proof.
  intros Hn Hok d d0 Ha Hf Ha0 Hf0. pose proof (dinv_init n g Hn) as H0.
  destruct (frun_dinv n g l dinit H0 Hok) as (_ & Hd). fold d in Hd.
  destruct (sim_fwd n g l dinit dinit H0 H0 (cs_eq_refl _) Hok) as (P & _ & E & _). fold d in E.
  rewrite frun_plain in E. fold d0 in E.
  destruct (plain_dreach n g (ops_of l) dinit (dreach_init n g) P) as (R & S). fold d0 in R.
  pose proof (dreach_dinv n g d0 Hn R) as Hd0.
  destruct (full_attempt n g d order fail Hd Ha Hf) as (_ & _ & C & _).
  destruct (full_attempt n g d0 order0 fail0 Hd0 Ha0 Hf0) as (_ & _ & C0 & _).
  assert (X : forall v, lookup (d_led (try_commit n d order fail)) v = lookup (flatten n (d_f d0)) v).
  { intros v. rewrite C. now apply lookup_flatten_cs. }
  split; auto. split; auto. split; [exact E|]. split; [|split; auto].
  - intros v. now rewrite X, C0.
  - intros v. rewrite X. symmetry. now apply (C03_nested_commit_durable_l n g d0 Hn R).
Qed.

(* ---------- C08 ---------- *)
Theorem C08_nested_schedule_same_ledger_l n g os l :
  (0 < n)%nat -> ops_of l = os -> hist_ok n g dinit (map FOp os) -> sched_ok n g dinit l ->
  let d1 := fst (frun n g dinit (map FOp os)) in
  let d2 := fst (frun n g dinit l) in
  hist_ok n g dinit l /\ snd (frun n g dinit l) = true /\
  (* every intermediate forest, and the final one *)
  ftrace n g dinit l = ftrace n g dinit (map FOp os) /\
  f_cs (d_f d2) = f_cs (d_f d1) /\
  (* the ledger after a final fault-free commit of either kind, on either side *)
  (forall o1 fl1 o2 fl2,
     attempt_ok (d_f d1) o1 fl1 = true -> faulted o1 fl1 = false ->
     attempt_ok (d_f d2) o2 fl2 = true -> faulted o2 fl2 = false ->
     let e1 := try_commit n d1 o1 fl1 in
     let e2 := try_commit n d2 o2 fl2 in
     f_log (d_f e2) = [] /\
     (forall v, lookup (d_led e1) v = lookup (d_led e2) v) /\
     (forall v, lookup (d_led e2) v = lookup (flatten n (d_f d2)) v) /\
     (forall v, In v (map fst (d_led e2)) <-> stored (d_f d2) v) /\
     (forall r, stored (d_f d2) r ->
        load n (lookup (d_led e1)) r = unfold n (d_f d2) r /\
        load n (lookup (d_led e2)) r = unfold n (d_f d2) r /\ unfold n (d_f d2) r <> None)) /\
  (* reopening: the new storage reads the forest as it is *)
  (forall l1 l2, l = l1 ++ FReopen :: l2 ->
     let d := fst (frun n g dinit l1) in
     forall r, stored (d_f d) r -> load n (lookup (d_led d)) r = unfold n (d_f d) r /\ unfold n (d_f d) r <> None).
Proof.
  intros Hn Hops Hplain Hsch d1 d2. pose proof (dinv_init n g Hn) as H0. subst os.
  assert (Hok : hist_ok n g dinit l) by (eapply (sim_bwd n g l dinit dinit); eauto; apply cs_eq_refl).
  destruct (frun_dinv n g l dinit H0 Hok) as (Hs & Hd2). fold d2 in Hd2.
  destruct (frun_dinv n g _ dinit H0 Hplain) as (_ & Hd1). fold d1 in Hd1.
  destruct (sim_fwd n g l dinit dinit H0 H0 (cs_eq_refl _) Hok) as (_ & _ & E & T). fold d1 d2 in E.
  split; auto. split; auto. split; auto. split; [exact E|]. split.
  - intros o1 fl1 o2 fl2 A1 F1 A2 F2 e1 e2.
    destruct (full_attempt n g d1 o1 fl1 Hd1 A1 F1) as (_ & _ & C1 & _ & L1). fold e1 in C1, L1.
    destruct (full_attempt n g d2 o2 fl2 Hd2 A2 F2) as (G2 & _ & C2 & K2 & L2). fold e2 in G2, C2, K2, L2.
    split; auto. split; [|split; auto; split; auto].
    + intros v. rewrite C1, C2. symmetry. now apply lookup_flatten_cs.
    + intros r Hr. destruct (L2 r Hr) as (X & Y). split; auto.
      destruct (L1 r) as (X1 & _); [eapply stored_cs; eauto|]. rewrite X1. symmetry. now apply unfold_cs.
  - intros l1 l2 -> d r Hr. destruct (hist_ok_app n g l1 _ dinit Hok) as (Hok1 & Hok2). fold d in Hok2.
    destruct Hok2 as (Hlog & _). cbn [item_ok] in Hlog.
    destruct (frun_dinv n g l1 dinit H0 Hok1) as (_ & Hd). fold d in Hd. pose proof Hd as (Hwf & _ & Hc).
    rewrite (load_ext (lookup (d_led d)) (lookup (flatten n (d_f d))) n r).
    + now apply (C03_nested_roundtrip_l n g).
    + intros v. rewrite lookup_flatten. apply Hc. unfold dirty. now rewrite Hlog.
Qed.

From AtreeProofs Require Import Nested_examples NestedDurable_examples.

(* ====================================================================================== *)
(* a concrete history (non-vacuity of C14_nested / C08_nested).  maxInlineArrayElementSize = 33
   ([cfgS]): a child array of five 3-byte scalars is inlined, a sixth uninlines it. *)

Lemma hist_ok_sched n g l :
  (0 < n)%nat -> hist_ok n g dinit (map FOp (ops_of l)) -> sched_ok n g dinit l -> hist_ok n g dinit l.
Proof.
  intros Hn H1 H2. pose proof (dinv_init n g Hn) as H0.
  eapply (sim_bwd n g l dinit dinit); eauto. apply cs_eq_refl.
Qed.

Lemma hist_ok_cons n g d it r d1 :
  item_ok n d it -> fstep n g d it = (d1, true) -> hist_ok n g d1 r -> hist_ok n g d (it :: r).
Proof. intros Hi Hs Hr. cbn [hist_ok]. rewrite Hs. auto. Qed.

Ltac hstep tac := eapply hist_ok_cons; [tac | vm_compute; reflexivity | ].

(* parent 1 = [child 2 (5 scalars), 99]; a third container 3; then the child grows beyond the limit
   (uninlined), shrinks (inlined again), grows again *)
Definition xGrow2 : nop := OArrInsert 2 5 (sc 16).
Definition xos1 : list nop :=
  [ONew 1 KArr; ONew 2 KArr;
   OArrInsert 2 0 (sc 10); OArrInsert 2 1 (sc 11); OArrInsert 2 2 (sc 12); OArrInsert 2 3 (sc 13); OArrInsert 2 4 (sc 14);
   OArrInsert 1 0 (NChild 2 0); OArrInsert 1 1 (sc 99)].
Definition xos : list nop := xos1 ++ [ONew 3 KArr; oGrow; oShrink; xGrow2].

Lemma xos_ok : hist_ok 8 cfgS dinit (map FOp xos).
Proof.
  unfold xos, xos1. cbn [map app].
  hstep ltac:(vm_compute; reflexivity).
  hstep ltac:(vm_compute; reflexivity).
  do 5 (hstep ltac:(ok_scalar_insert)).
  hstep ltac:(idtac).
  { split; [eexists; split; [vm_compute; reflexivity|split; [reflexivity|cbn; lia]]|].
    split; [eexists; vm_compute; reflexivity|]. split.
    - intros (p & i & s & w & E). edge_enum E.
    - exists (fun v => if v =? 2 then 1%nat else 0%nat). split; [|split].
      + intros x i s v' w' E. edge_enum E.
      + cbn. lia.
      + intros x. destruct (x =? 2); lia. }
  hstep ltac:(ok_scalar_insert).
  hstep ltac:(vm_compute; reflexivity).
  hstep ltac:(ok_scalar_insert).
  hstep ltac:(eexists; split; [vm_compute; reflexivity|split; [reflexivity|cbn [c_slots length]; lia]]).
  hstep ltac:(ok_scalar_insert).
  exact I.
Qed.

(* C14: a fault-free commit while the child is inlined; container 3 and the sixth element: a commit of
   the three registers 1 2 3 in sorted order whose SECOND ledger call fails; a cache drop; the child
   shrinks; an order-relaxed commit (removals first) whose third call fails; the child grows again; a
   sorted commit whose first call fails *)
Definition xl : list fitem :=
  map FOp xos1 ++
  [FTry [1; 2] None;
   FOp (ONew 3 KArr); FOp oGrow; FTry [1; 2; 3] (Some 1%nat); FDrop;
   FOp oShrink; FTry [2; 1; 3] (Some 2%nat);
   FOp xGrow2; FTry [1; 2; 3] (Some 0%nat)].
(* the states before the three failed attempts *)
Definition xlA := firstn 12 xl.
Definition xlB := firstn 15 xl.
Definition xdA : dstate := fst (frun 8 cfgS dinit xlA).
Definition xdA' : dstate := try_commit 8 xdA [1; 2; 3] (Some 1%nat).
Definition xdB : dstate := fst (frun 8 cfgS dinit xlB).
Definition xd : dstate := fst (frun 8 cfgS dinit xl).
Definition xd0 : dstate := fst (drun 8 cfgS dinit xos).
Definition six (a : N) : list (N * N * nval) :=
  [(0,0,NS a 3); (0,0,NS (a+1) 3); (0,0,NS (a+2) 3); (0,0,NS (a+3) 3); (0,0,NS (a+4) 3); (0,0,NS (a+5) 3)].

Lemma xl_ops : ops_of xl = xos.
Proof. reflexivity. Qed.

Lemma xl_sched : sched_ok 8 cfgS dinit xl.
Proof. vm_compute. repeat split. Qed.

Lemma xl_ok : hist_ok 8 cfgS dinit xl.
Proof. apply hist_ok_sched; [lia|rewrite xl_ops; apply xos_ok|apply xl_sched]. Qed.

Lemma xl_prefix_ok k : hist_ok 8 cfgS dinit (firstn k xl).
Proof.
  pose proof xl_ok as H. rewrite <- (firstn_skipn k xl) in H. now apply hist_ok_app in H.
Qed.

Lemma xl_facts :
  (* the first failed attempt: three registers in sorted order, the second call fails *)
  sorted_keys (d_f xdA) = [1; 2; 3] /\ attempt_ok (d_f xdA) [1; 2; 3] (Some 1%nat) = true /\
  faulted [1; 2; 3] (Some 1%nat) = true /\
  map (dirty (d_f xdA)) [1; 2; 3] = [Some true; Some true; Some true] /\
  map (dirty (d_f xdA')) [1; 2; 3] = [None; Some true; Some true] /\
  (* register 1 now references the child, whose register has not been written: the LEDGER is not a
     consistent snapshot (nor is that claimed) ... *)
  lookup (d_led xdA) 1 = Some (KArr, [(0,0,TI 2 0 KArr five); (0,0,TS 99 3)]) /\
  lookup (d_led xdA') 1 = Some (KArr, [(0,0,TR 2 0); (0,0,TS 99 3)]) /\ lookup (d_led xdA') 2 = None /\
  load 8 (lookup (d_led xdA')) 1 = None /\
  (* ... the storage instance still holds the forest *)
  load 8 (sview 8 xdA') 1 = Some (KArr, [(0,0,NC 2 0 KArr false (six 10)); (0,0,NS 99 3)]) /\
  load 8 (sview 8 xdA') 1 = unfold 8 (d_f xdA) 1 /\
  (* the second failed attempt, after the child was inlined again: removals first *)
  nondet_order (d_f xdB) = [2; 1; 3] /\ map (dirty (d_f xdB)) [1; 2; 3] = [Some true; Some false; Some true] /\
  (* at the end: the child is stored again, everything is pending, register 2 is absent *)
  map (dirty (d_f xd)) [1; 2; 3] = [Some true; Some true; Some true] /\
  map (lookup (d_led xd)) [2; 3] = [None; None] /\
  stored_ids 8 (d_f xd) = [1; 2; 3] /\
  (* one fault-free commit of either kind: the ledger of the run without any attempt *)
  attempt_ok (d_f xd) (nondet_order (d_f xd)) None = true /\ attempt_ok (d_f xd0) (sorted_keys (d_f xd0)) None = true /\
  map (lookup (d_led (try_commit 8 xd (nondet_order (d_f xd)) None))) [1; 2; 3; 4] =
  map (lookup (d_led (try_commit 8 xd0 (sorted_keys (d_f xd0)) None))) [1; 2; 3; 4] /\
  map (lookup (d_led (try_commit 8 xd (nondet_order (d_f xd)) None))) [1; 2; 3; 4] =
  [Some (KArr, [(0,0,TR 2 0); (0,0,TS 99 3)]);
   Some (KArr, [(0,0,TS 11 3); (0,0,TS 12 3); (0,0,TS 13 3); (0,0,TS 14 3); (0,0,TS 15 3); (0,0,TS 16 3)]);
   Some (KArr, []); None] /\
  load 8 (lookup (d_led (try_commit 8 xd (nondet_order (d_f xd)) None))) 1 =
    Some (KArr, [(0,0,NC 2 0 KArr false (six 11)); (0,0,NS 99 3)]).
Proof. vm_compute. repeat split; reflexivity. Qed.

(* C08: after every operation of [xos] a group of schedule items, cycling through
   {sorted fault-free commit; reopen}, {cache drop}, {order-relaxed fault-free commit}, {} *)
Definition xpick (k : nat) (d : dstate) : list fitem :=
  match (k mod 4)%nat with
  | 0%nat => [FTry (sorted_keys (d_f d)) None; FReopen]
  | 1%nat => [FDrop]
  | 2%nat => [FTry (nondet_order (d_f d)) None]
  | _ => []
  end.
Fixpoint xweave (d : dstate) (os : list nop) (k : nat) : list fitem :=
  match os with
  | [] => []
  | o :: r =>
    let d1 := fst (dstep 8 cfgS d o) in
    let ins := xpick k d1 in
    FOp o :: ins ++ xweave (fst (frun 8 cfgS d1 ins)) r (S k)
  end.
Definition xs : list fitem := xweave dinit xos 0.
Definition xs2 : dstate := fst (frun 8 cfgS dinit xs).

Lemma xs_ops : ops_of xs = xos.
Proof. vm_compute. reflexivity. Qed.
Lemma xs_sched : sched_ok 8 cfgS dinit xs.
Proof. vm_compute. repeat split. Qed.

Lemma xs_facts :
  length xos = 13%nat /\ length xs = 27%nat /\
  length (filter is_try xs) = 7%nat /\ fault_free xs = true /\
  (* the scheduled run has committed along the way, the plain one never *)
  map (lookup (d_led xd0)) [1; 2; 3] = [None; None; None] /\
  lookup (d_led xs2) 1 = Some (KArr, [(0,0,TR 2 0); (0,0,TS 99 3)]) /\
  f_log (d_f xs2) = [] /\ length (f_log (d_f xd0)) = 18%nat /\
  f_cs (d_f xs2) = f_cs (d_f xd0) /\
  attempt_ok (d_f xs2) (nondet_order (d_f xs2)) None = true /\
  map (lookup (d_led (try_commit 8 xs2 (nondet_order (d_f xs2)) None))) [1; 2; 3; 4] =
  map (lookup (d_led (try_commit 8 xd0 (sorted_keys (d_f xd0)) None))) [1; 2; 3; 4].
Proof. vm_compute. repeat split; reflexivity. Qed.
