(* Extraction of the executable models for the OCaml runner.
   Only ExtrOcamlBasic is used (bool, option, unit, list, prod, sumbool, sumor map to
   OCaml's own types); N, Z, positive and nat stay Coq datatypes; no Extract Constant. *)
Require Import ExtrOcamlBasic.
From AtreeModel Require Import Proto StorageTrace ArrayTrace HealthTrace CodecTrace MapTrace DecodeTrace BatchTrace MapTreeTrace NestedTrace CodecInlTrace IterMapTrace MapBatchTrace AliasTrace MapExtTrace CallbackTrace NestedSelfSetTrace.
Extraction Language OCaml.
Extraction "model.ml" chk_storage chk_array chk_health chk_codec chk_mapelems chk_decode chk_batch chk_maptree chk_nested chk_codecinl chk_itermap chk_mapbatch chk_alias chk_mapext chk_callback chk_nested2.
