(* C07 (compact maps) — round trip of data slabs whose inlined children include COMPACT MAPS.
   Property theorems only; each is closed by [exact] of a lemma of proofs/CodecInlCompact_proofs.v.
   An inlined map is written in compact form when its type is composite, it has no collision
   group and all keys are StringValues (canBeEncodedAsCompactMap): the shared table then holds,
   once per (type, key set), the map's type info / count / seed, digests and keys; the child
   itself writes only its values, in the order of the shared keys.  Decoding such a child gives a
   map with the SHARED seed / digests / key order — not the original — which is why the round
   trip is stated through [xslab_canon] (theories/CodecInl.v).
   [xswf false]: well-formed, compact maps allowed, Go's encoder raises no error (no error marker
   in the table; at most 256 entries). *)
From Coq Require Import ZArith NArith List Bool.
From AtreeGen Require Import Consts CodecConsts.
From AtreeModel Require Import Codec CodecInl.
From AtreeProofs Require Import Codec_proofs CodecInl_proofs CodecInlCompact_proofs.
Import ListNotations.
Local Open Scope N_scope.

(* decoding what the two-pass encoder wrote gives the slab [xslab_canon s]: inlined children at any
   depth, compact or not, compact maps sharing entries or not *)
Theorem C07_compact_decode_encode : forall s, xswf false s = true ->
  decode_xslab (xsid s) (encode_xslab s) = Some (xslab_canon s).
Proof. exact xdecode_encode_canon. Qed.

(* what [x_canon] does to a compact map (entries kvs): it stays an inlined map with the same
   value id whose elements are plain StringValue-keyed entries kvs', and EVERY KEY HAS THE VALUE
   IT HAD (itself cycled): same key -> value content; type info / count / seed, digests and the
   order of the entries may be the shared ones *)
Theorem C07_compact_content : forall F mx vid els hk kvs, compact_kvs mx els = Some (hk, kvs) ->
  exists mx' l' hk' kvs',
    x_canon F (XInlMap mx vid els) = XInlMap mx' vid (XHkeyElems l' hk' (singles_of kvs')) /\
    forall k, kv_lookup k kvs' = option_map (x_canon F) (kv_lookup k kvs).
Proof. exact x_canon_content. Qed.

(* [x_canon] touches nothing but compact maps: a slab without them comes back unchanged
   (so C07_compact_decode_encode contains C07_inl_decode_encode) *)
Theorem C07_canon_plain : forall s, xslab_compact s = false -> xslab_canon s = s.
Proof. exact xslab_canon_plain. Qed.

(* ---------- examples (vm_compute) ---------- *)

(* two composite-typed children of the same shape (keys {a, b} entered in different order,
   different seeds and digests) share table entry 0; a third of another shape has its own entry;
   one value is itself an inlined array *)
Definition exc : xslab :=
  XArrayData 3 2 (Some (TSimple 42)) 0 0
    [XInlMap (mk_mextra (TTagged 201 1) 2 1234) 11
       (XHkeyElems 0 [5; 6] [XESingle (SString [98]) (XUint W8 1); XESingle (SString [97]) (XInlArray (TSimple 40) 13 [XUint W8 9])]);
     XInlMap (mk_mextra (TTagged 201 1) 2 4321) 12
       (XHkeyElems 0 [8; 9] [XESingle (SString [97]) (XUint W8 3); XESingle (SString [98]) (XUint W8 4)]);
     XSome (XInlMap (mk_mextra (TTagged 201 1) 1 7) 14 (XHkeyElems 0 [3] [XESingle (SString [99]) (XString [120; 121])]))].

Example C07_compact_example : xswf false exc = true /\ xslab_compact exc = true /\
  xslab_table exc = [XDCompact (mk_mextra (TTagged 201 1) 2 1234) [5; 6] [[98]; [97]]; XDArray (TSimple 40);
                     XDCompact (mk_mextra (TTagged 201 1) 1 7) [3] [[99]]] /\
  decode_xslab (3, 2) (encode_xslab exc) = Some (xslab_canon exc) /\ xslab_canon exc <> exc /\
  (* the second child comes back with the first child's seed, digests and key order, values by key *)
  nth 1 (match xslab_canon exc with XArrayData _ _ _ _ _ es => es | _ => [] end) (XUint W8 0)
  = XInlMap (mk_mextra (TTagged 201 1) 2 1234) 12
      (XHkeyElems 0 [5; 6] [XESingle (SString [98]) (XUint W8 4); XESingle (SString [97]) (XUint W8 3)]).
Proof. vm_compute. repeat split. discriminate. Qed.

(* the compact child's bytes: tag 252, [index 0, value id 12, [values in shared key order]] *)
Example C07_compact_example_bytes :
  fst (enc_x 0 [XDCompact (mk_mextra (TTagged 201 1) 2 1234) [5; 6] [[98]; [97]]]
         (XInlMap (mk_mextra (TTagged 201 1) 2 4321) 12
            (XHkeyElems 0 [8; 9] [XESingle (SString [97]) (XUint W8 3); XESingle (SString [98]) (XUint W8 4)])))
  = [216; 252; 131; 24; 0; 72; 0; 0; 0; 0; 0; 0; 0; 12; 130; 216; 161; 4; 216; 161; 3].
Proof. vm_compute. reflexivity. Qed.

(* outside xswf: key sets {"a,b"} and {"a","b"} have the same type id "ti,a,b" (makeCompactMapTypeID
   joins names with commas): Go's encoder fails with "number of elements ... is different"; the
   model marks the table *)
Example C07_compact_type_id_collision :
  let s := XArrayData 3 2 None 0 0
    [XInlMap (mk_mextra (TTagged 201 1) 1 1) 11 (XHkeyElems 0 [5] [XESingle (SString [97; 44; 98]) (XUint W8 1)]);
     XInlMap (mk_mextra (TTagged 201 1) 2 1) 12 (XHkeyElems 0 [8; 9] [XESingle (SString [97]) (XUint W8 3); XESingle (SString [98]) (XUint W8 4)])] in
  xswf false s = false /\ existsb (fun e => match e with XDError => true | _ => false end) (xslab_table s) = true.
Proof. vm_compute. split; reflexivity. Qed.

(* FINDING (refutes "every well-formed slab can be encoded"): all elements well-formed, yet the
   encoder fails, because makeCompactMapTypeID is not injective on key sets containing ','.
   Go: Commit / EncodeSlab return "encoding error: number of elements 2 is different from number
   of elements in cached compact map type 1" (same length: "failed to find key c"). *)
Theorem C07_compact_encodable_refuted : exists a i es,
  forallb (x_wf false 0) es = true /\ lenN es < two16 /\
  existsb (fun e => match e with XDError => true | _ => false end) (xslab_table (XArrayData a i None 0 0 es)) = true.
Proof.
  exists 3, 2,
    [XInlMap (mk_mextra (TTagged 201 1) 1 1) 11 (XHkeyElems 0 [5] [XESingle (SString [97; 44; 98]) (XUint W8 1)]);
     XInlMap (mk_mextra (TTagged 201 1) 2 1) 12 (XHkeyElems 0 [8; 9] [XESingle (SString [97]) (XUint W8 3); XESingle (SString [98]) (XUint W8 4)])].
  vm_compute. repeat split.
Qed.

Print Assumptions C07_compact_decode_encode.
Print Assumptions C07_compact_content.
Print Assumptions C07_canon_plain.
Print Assumptions C07_compact_encodable_refuted.
