(* C01 — Array behaves as a plain sequence under every operation history.
   Property theorems only; each is closed by [exact] of a lemma of proofs/Array_proofs.v.

   [a_run c a ops] runs the executable model of atree's Array (theories/ArrayTree.v: slab tree with
   every cached field, split / merge / lend / borrow, root split and promotion) over a history;
   [seq_run s ops] runs the same history on a plain list ([seq_step]: index-out-of-bounds exactly
   when the position is out of range, the max-count error exactly at 2^32-1 elements, nothing else
   fails).  [abs_arr] reads the tree left to right; [strip]/[strip_out] forget WHERE a large value
   is stored (the slab index of its StorableSlab), which the plain sequence does not know.
   [aop_ok c o]: the new element of Set/Insert/Append respects the caller's Storable contract
   (0 < size <= inline limit; a larger value arrives as a reference) and its "stored externally"
   field is a flag (0/1). *)
From Coq Require Import ZArith NArith List Bool.
From AtreeGen Require Import Consts.
From AtreeModel Require Import Settings ArrayTree ArrayInv.
From AtreeProofs Require Import Rebalance_proofs Array_proofs.
Import ListNotations.
Local Open Scope N_scope.

(* every history, every legal slab size: same answers (elements, previous elements, counts, types,
   error classes — so in-range requests never fail), same contents, the root identifier never
   changes, the tree invariant holds at the end (hence after every prefix) *)
Theorem C01_array_refines_sequence : forall T, valid_T T -> forall rootid ti ops,
  let c := set_threshold T in
  Forall (aop_ok c) ops ->
  let a0 := fst (arr_init rootid ti) in
  let '(a, outs) := a_run c a0 ops in
  let '(s, outs') := seq_run (abs_arr a0) ops in
  map strip_out outs = outs' /\ abs_arr a = s /\ a_rootid a = rootid /\ awf c a.
Proof. exact array_refines_sequence. Qed.

(* one step, from any state satisfying the invariant *)
Theorem C01_step_refines : forall T, valid_T T -> forall a o,
  let c := set_threshold T in
  awfl c a -> aop_ok c o ->
  awfl c (fst (fst (a_step c a o))) /\ a_rootid (fst (fst (a_step c a o))) = a_rootid a /\
  strip_out (snd (fst (a_step c a o))) = snd (seq_step (abs_arr a) o) /\
  abs_arr (fst (fst (a_step c a o))) = fst (seq_step (abs_arr a) o).
Proof. exact a_step_ok. Qed.

(* positional reads anywhere in a well-formed subtree agree with its left-to-right contents *)
Theorem C01_get_refines : forall T, valid_T T -> forall d n i,
  let c := set_threshold T in
  wfn c d n ->
  n_get n i = match nth_error (to_list n) (N.to_nat i) with Some e => Ok e | None => Err EIndexOOB end.
Proof. exact ArrayRoute_proofs.n_get_refines. Qed.

(** Non-vacuity: a history at T = 256 that splits the root (10 appends of 60 bytes), overwrites with
    an externally stored value, inserts, reads out of range, removes back to a single slab (merge
    and root promotion), iterates, takes ranges, pops everything and changes the type. *)
Definition ex_hist : list aop :=
  map (fun i => OAppend (mkelem (Z.of_nat i) 60 0)) (seq 1 10) ++
  [OSet 2 (mkelem 100 117 1); OGet 2; OInsert 1 (mkelem 101 30 0); OGet 50; OCount; OIterate] ++
  [ORemove 0; ORemove 0; ORemove 3; ORemove 0; ORemove 0; ORemove 0; ORemove 0; ORemove 0] ++
  [OIterate; ORange 1 2; ORange 3 2; ORange 0 9; OPop; OCount; OSetType 9; OType].

Example C01_example :
  let c := set_threshold 256 in
  let a0 := fst (arr_init 1 7) in
  Forall (aop_ok c) ex_hist /\
  is_data (a_root (fst (a_run c a0 (firstn 10 ex_hist)))) = false /\          (* root was split *)
  is_data (a_root (fst (a_run c a0 (firstn 24 ex_hist)))) = true /\           (* and promoted back *)
  a_count (fst (a_run c a0 (firstn 24 ex_hist))) = 3 /\
  map strip_out (snd (a_run c a0 ex_hist)) = snd (seq_run (abs_arr a0) ex_hist) /\
  nth 11 (snd (a_run c a0 ex_hist)) RUnit = RElem (mkelem 100 117 4) /\       (* stored in slab 4 *)
  nth 13 (snd (a_run c a0 ex_hist)) RUnit = RErr EIndexOOB.
Proof.
  cbv zeta. split; [|vm_compute; repeat split; reflexivity].
  unfold ex_hist. repeat (apply Forall_app; split).
  - apply Forall_forall. intros o Ho. apply in_map_iff in Ho. destruct Ho as (i & <- & _).
    cbn. repeat split; vm_compute; congruence.
  - repeat constructor; vm_compute; congruence.
  - repeat constructor.
  - repeat constructor.
Qed.

Print Assumptions C01_array_refines_sequence.
Print Assumptions C01_step_refines.
Print Assumptions C01_get_refines.
