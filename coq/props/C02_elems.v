(* C02 (element level) — an OrderedMap's element structure behaves as a dictionary under every
   operation history.  One logical map = one hkeyElements at level 0 (distribution of the level-0
   elements over slabs is a separate model).  Property theorems only. *)
From Coq Require Import ZArith NArith List.
From AtreeModel Require Import MapElems MapElemsInv.
From AtreeProofs Require Import MapElems_proofs.
Import ListNotations.

(* For EVERY digest assignment dg, number of digest levels >= 1, inline-element limit, collision
   limit, allocator start and finite history of Set / Get / Has / Remove / Count / Iterate /
   PopIterate operations (any keys, any key and value sizes), started from the empty map:
   every answer (previous value, value, membership, removed pair, count, key-not-found,
   collision-limit error, iteration sequence, pop sequence) equals the answer of the dictionary
   machine [d_run] on an association list kept in canonical order; the final entry sequence IS the
   dictionary's; the count in the extra data is its length; the structural invariant holds.
   (OIterNext = enumeration by the mutable iterator's next-key hand-off, OIterate = read-only.) *)
Theorem C02_elems_refines_dictionary :
  forall (dg : N -> nat -> N) (levels : nat) (max_inline_elem limit next : N) (ops : list mop),
    (1 <= levels)%nat ->
    let '(s, outs) := m_run dg levels max_inline_elem limit (m_init next) ops in
    let '(d, outs') := d_run dg levels limit [] ops in
    outs = outs' /\ to_list (m_root s) = d /\ m_count s = N.of_nat (length d) /\ ewf dg levels (m_root s).
Proof.
  intros dg levels mi lim next ops Hlv.
  destruct (m_run_refines_all dg levels mi lim ops Hlv (m_init next) (ewf_init dg levels next Hlv)) as (E1 & E2 & W1 & W2).
  change (to_list (m_root (m_init next))) with (@nil (kv * kv)) in *.
  destruct (m_run dg levels mi lim (m_init next) ops) as [s outs].
  destruct (d_run dg levels lim [] ops) as [d outs']. cbn [fst snd] in *. subst. auto.
Qed.

(* one operation on ANY well-formed state (not only reachable ones): same answer as the dictionary,
   entry sequence transformed as the dictionary, invariant and count preserved *)
Theorem C02_elems_step :
  forall dg levels max_inline_elem limit s o, (1 <= levels)%nat -> mwf dg levels s ->
    let '(s', x, _) := m_step dg levels max_inline_elem limit s o in
    d_step dg levels limit (to_list (m_root s)) o = (to_list (m_root s'), x) /\ mwf dg levels s'.
Proof.
  intros dg levels mi lim s o Hlv Hs. pose proof (m_step_refines_all dg levels mi lim s o Hlv Hs) as H.
  destruct (m_step dg levels mi lim s o) as [[s' x] evs]. exact H.
Qed.

Theorem C02_elems_init : forall dg levels next, (1 <= levels)%nat -> mwf dg levels (m_init next).
Proof. exact ewf_init. Qed.

(* non-vacuity: a history reaching a state with an external group holding a depth-4 chain that
   ends in list mode, a second external group, singles; incl. an overwrite, a removal (collapse of a
   group's sibling), a lookup and a refused insert (limit 1) *)
Local Open Scope N_scope.
Definition ex_dg (k : N) (l : nat) : N := match l with 0%nat => k / 100 | 1%nat => (k / 10) mod 10 | _ => 0 end.
Definition ex_ops : list mop :=
  let K i := mkkv i 3 in
  [OSet (K 11) (mkkv 1 5); OSet (K 12) (mkkv 2 5); OSet (K 21) (mkkv 3 5); OSet (K 105) (mkkv 4 9);
   OSet (K 206) (mkkv 5 30); OSet (K 216) (mkkv 6 30); OSet (K 12) (mkkv 7 6); ORemove 21; OGet 12;
   OSet (K 31) (mkkv 8 5); OSet (K 41) (mkkv 9 5); OCount; OIterNext].

Example C02_elems_example :
  let K i := mkkv i 3 in
  let '(s, outs) := m_run ex_dg 4 60 1 (m_init 0) ex_ops in
  m_root s =
    HKey 0 [0; 1; 2]
      [EExternal 0
         (HKey 1 [1; 3]
            [EInline (HKey 2 [0] [EInline (HKey 3 [0] [EInline (SList 4 [(K 11, mkkv 1 5); (K 12, mkkv 7 6)] 25)] 43)] 61);
             ESingle (K 31) (mkkv 8 5)] 96);
       ESingle (K 105) (mkkv 4 9);
       EExternal 1 (HKey 1 [0; 1] [ESingle (K 206) (mkkv 5 30); ESingle (K 216) (mkkv 6 30)] 92)] 87 /\
  outs = [RPrev None; RPrev None; RPrev None; RPrev None; RPrev None; RPrev None; RPrev (Some (mkkv 2 5));
          RPair (K 21) (mkkv 3 5); RVal (mkkv 7 6); RPrev None; RErr ECollisionLimit; RCount 6;
          RList (to_list (m_root s))] /\
  mwf ex_dg 4 s.
Proof.
  cbn zeta. pose proof (m_run_refines_all ex_dg 4 60 1 ex_ops) as R.
  destruct (m_run ex_dg 4 60 1 (m_init 0) ex_ops) as [s outs] eqn:E.
  specialize (R ltac:(repeat constructor) (m_init 0) (ewf_init ex_dg 4 0 ltac:(repeat constructor))).
  rewrite E in R. destruct R as (_ & _ & W). split; [|split; [|exact W]].
  - apply (f_equal (fun p => m_root (fst p))) in E. cbn [fst] in E. rewrite <- E. vm_compute. reflexivity.
  - pose proof (f_equal snd E) as E2. pose proof (f_equal (fun p => m_root (fst p)) E) as E1. cbn [fst snd] in E1, E2.
    rewrite <- E1, <- E2. vm_compute. reflexivity.
Qed.

Print Assumptions C02_elems_refines_dictionary.
Print Assumptions C02_elems_step.
Print Assumptions C02_elems_init.
