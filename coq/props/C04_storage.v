(* C04 (storage part) — the ledger state is a deterministic function of the history.
   The model is a Gallina function, so what has to be proved is that every choice the Go code
   leaves to the runtime (map iteration order, arrival order of worker results, processing order
   of the order-relaxed commit) does not influence the result. *)
From stdpp Require Import gmap sorting.
From Coq Require Import ZArith NArith.
From AtreeModel Require Import Storage StorageSpec.
From AtreeProofs Require Import Storage_proofs Commit_proofs StorageProps_proofs.

(* ledger calls of the deterministic commit are issued in strictly ascending (owner, index) order,
   also when a fault stops it early *)
Theorem C04_write_order_sorted : forall s fail,
  StronglySorted sid_lt (map snd (snd (fast_commit s fail))).
Proof. exact fast_commit_log_sorted_model. Qed.

(* whatever order Go's map iteration enumerates the owned write-set keys in *)
Theorem C04_delta_iteration_order_irrelevant : forall s ks fail,
  ks ≡ₚ owned_delta_keys s -> apply_writes (merge_sort sid_le ks) fail s [] = fast_commit s fail.
Proof. exact delta_iteration_order_irrelevant. Qed.

(* whatever order the encoder workers (any number of them, any scheduling) deliver their results in *)
Theorem C04_worker_arrival_order_irrelevant : forall s arrivals fail,
  arrivals ≡ₚ map (encode_job s) (sorted_owned_delta_keys s) ->
  fast_commit_with arrivals s fail = fast_commit s fail.
Proof. exact worker_arrival_order_irrelevant. Qed.

(* the order-relaxed commit may differ from the deterministic one only in the order of its calls *)
Theorem C04_relaxed_commit_same_registers : forall s order, reachable s -> order_ok s order true = true ->
  let s1 := fst (step s (SNondetCommit order None)) in
  let s0 := fst (step s (SFastCommit None)) in
  base s1 = base s0 /\ deltas s1 = deltas s0.
Proof. intros s order Hr. exact (relaxed_commit_same_registers s order (reachable_coherent s Hr)). Qed.

Example C04_example :
  let s := fst (run st_init [SStore (2,1) (mkval 9 3); SStore (1,2) (mkval 8 3); SStore (1,1) (mkval 7 3); SRemove (1,3)]%N) in
  snd (fast_commit s None) = [(true,(1,1)); (true,(1,2)); (false,(1,3)); (true,(2,1))]%N /\
  order_ok s [(1,3); (2,1); (1,1); (1,2)]%N true = true /\
  map_to_list (base (fst (step s (SNondetCommit [(1,3); (2,1); (1,1); (1,2)]%N None)))) = map_to_list (base (fst (step s (SFastCommit None)))).
Proof. vm_compute. repeat split. Qed.

Print Assumptions C04_write_order_sorted.
Print Assumptions C04_delta_iteration_order_irrelevant.
Print Assumptions C04_worker_arrival_order_irrelevant.
Print Assumptions C04_relaxed_commit_same_registers.
