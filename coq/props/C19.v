(* C19 — Decoding untrusted bytes never panics or hangs.
   Property theorems only; each is closed by [exact] of a lemma of proofs/DecodeSafe_proofs.v.

   Model: theories/DecodeSafe.v transcribes the Go decoders with every partial Go operation explicit
   (slices, indexing, binary.BigEndian reads, inlinedExtraData[i]) as [Panic], every `make([]T, n)` as n
   allocation units and every returned error as [Error].
   C19_terminates: every function of the model is a total Gallina function (structural recursion on the loop
   counter the Go loop counts, on lists, or on fuel with exhaustion = Error), so "never loops" holds by
   construction; there is deliberately no theorem for it. *)
From Coq Require Import NArith List Lia ZifyN ZifyNat.
From AtreeGen Require Import Consts.
From AtreeModel Require Import Proto DecodeSafe DecodeTrace.
From AtreeProofs Require Import DecodeSafe_proofs.
Import ListNotations.
Local Open Scope N_scope.

(* IsRootOfAnObject / HasPointers / HasSizeLimit on ANY byte string: a value or an error, never a panic. *)
Theorem C19_header_queries : forall data,
  is_root_go data <> Panic /\ has_pointers_go data <> Panic /\ has_size_limit_go data <> Panic.
Proof. exact header_queries_no_panic. Qed.

(* ... and what they answer: an error iff fewer than two bytes, else the flag bit of the second byte. *)
Theorem C19_header_queries_exact : forall f data,
  out (header_query f data) = match data with b0 :: b1 :: _ => Val (f (b0, b1)) | _ => Error end.
Proof. exact header_query_spec. Qed.

(* The fixed-offset code: DecodeSlab's dispatch, both metadata-slab decoders in both versions, and the
   prefixes of the data-slab decoders up to the hand-over to the CBOR stream decoder.  For EVERY identifier
   and byte string.  The three hypotheses are the one modelled fact about fxamacker/cbor:
   StreamDecoder.NumBytesDecoded() never exceeds the length of the input (it is needed:
   [after_extra_needs_bound]). *)
Theorem C19_no_panic_fixed :
  forall (array_extra_len map_extra_len inlined_extra_len : bytes -> option N),
  (forall d n, array_extra_len d = Some n -> n <= lenN d) ->
  (forall d n, map_extra_len d = Some n -> n <= lenN d) ->
  (forall d n, inlined_extra_len d = Some n -> n <= lenN d) ->
  forall id data, decode_slab_fixed array_extra_len map_extra_len inlined_extra_len id data <> Panic.
Proof. intros a m i Ha Hm Hi id data. exact (proj1 (decode_slab_fixed_safe a m i Ha Hm Hi id data)). Qed.

(* Allocation of the fixed-offset code: K = 1 unit per input byte.  The child-header slices are
   make([]Header, n) with n taken from the input, but only after `len(data) == headerSize * n` was checked
   (same order in the Go code), so n <= len(data)/14. *)
Theorem C19_alloc_proportional_fixed :
  forall (array_extra_len map_extra_len inlined_extra_len : bytes -> option N),
  (forall d n, array_extra_len d = Some n -> n <= lenN d) ->
  (forall d n, map_extra_len d = Some n -> n <= lenN d) ->
  (forall d n, inlined_extra_len d = Some n -> n <= lenN d) ->
  forall id data, alloc_units_fixed array_extra_len map_extra_len inlined_extra_len id data <= 1 * (lenN data + 1).
Proof.
  intros a m i Ha Hm Hi id data.
  pose proof (proj2 (decode_slab_fixed_safe a m i Ha Hm Hi id data)) as H. unfold alloc_units_fixed.
  apply (N.le_trans _ _ _ H). rewrite N.mul_1_l. apply N.le_add_r.
Qed.

(* The hypotheses are satisfiable by a real parser: the trace engine's concrete extra-data parser (the one the
   Go implementation is compared against on the structured mutation stream) satisfies them. *)
Theorem C19_no_panic_fixed_engine : forall id data,
  decode_concrete id data <> Panic /\
  alloc_units_fixed concrete_array_extra_len concrete_map_extra_len no_inlined_extra_len id data <= lenN data.
Proof. exact decode_concrete_safe. Qed.

(* The CBOR-driven decoders over ANY item tree, ANY inlined-extra-data table, ANY fuel: the element loops,
   newElementsFromData, newElementFromData, newSingleElementFromData, the collision groups, the three inlined
   container decoders (extra-data index, extra-data kind, slab index length, digest count checks) and the
   hardened storable decoder. *)
Theorem C19_no_panic_items : forall (utf8_valid : bytes -> bool) (fuel : nat) id ied it,
  out (decodeStorable utf8_valid fuel id ied it) <> Panic /\
  out (decodeInlinedArrayStorable utf8_valid fuel id ied it) <> Panic /\
  out (decodeInlinedMapStorable utf8_valid fuel id ied it) <> Panic /\
  out (decodeInlinedCompactMapStorable utf8_valid fuel id ied it) <> Panic /\
  out (newElementsFromData utf8_valid fuel id ied it) <> Panic /\
  out (newElementFromData utf8_valid fuel id ied it) <> Panic /\
  out (newSingleElementFromData utf8_valid fuel id ied it) <> Panic.
Proof.
  intros u fuel id ied it. destruct (items_no_panic u fuel) as (H1 & H2 & H3 & H4 & H5 & H6 & H7).
  repeat split; [apply H1 | apply H2 | apply H3 | apply H4 | apply H5 | apply H6 | apply H7].
Qed.

(* Allocation of the item decoders: K = 2 units per unit of item size (one per node and per payload byte).
   [wf_extra]: a compact-map extra data entry has as many digests as keys — established by its decoder
   ([newInlinedExtraData_wf]). *)
Theorem C19_alloc_items : forall (utf8_valid : bytes -> bool) (fuel : nat) id ied it,
  Forall wf_extra ied ->
  units (decodeStorable utf8_valid fuel id ied it) <= 2 * csize it /\
  units (newElementsFromData utf8_valid fuel id ied it) <= 2 * csize it /\
  units (newElementFromData utf8_valid fuel id ied it) <= 2 * csize it.
Proof.
  intros u fuel id ied it Hw. destruct (items_alloc u fuel) as (H1 & _ & _ & _ & H5 & H6 & _).
  pose proof (H1 id ied it Hw). pose proof (H5 id ied it Hw). pose proof (H6 id ied it Hw).
  repeat split; (eapply N.le_trans; [apply N.le_add_r | eassumption]).
Qed.

(* The whole DecodeSlab = fixed-offset part + cbor validation + item decoders, for every identifier and byte
   string.  [wellformed] stands for the validating step of cbor.StreamDecoder; the hypothesis is the modelled
   fact about it: a validated item lies inside the input and each of its nodes / payload bytes occupies at
   least one input byte. *)
Theorem C19_no_panic :
  forall (wellformed : bytes -> option (citem * N)) (decode_type_info : citem -> bool) (utf8_valid : bytes -> bool),
  (forall d it n, wellformed d = Some (it, n) -> n <= lenN d /\ csize it <= n) ->
  forall id data, decode_slab_go wellformed decode_type_info utf8_valid id data <> Panic.
Proof. intros w t u Hw id data. exact (proj1 (decode_slab_go_safe w t u Hw id data)). Qed.

Theorem C19_alloc_proportional :
  forall (wellformed : bytes -> option (citem * N)) (decode_type_info : citem -> bool) (utf8_valid : bytes -> bool),
  (forall d it n, wellformed d = Some (it, n) -> n <= lenN d /\ csize it <= n) ->
  forall id data, alloc_units wellformed decode_type_info utf8_valid id data <= 5 * (lenN data + 1).
Proof. intros w t u Hw id data. exact (proj2 (decode_slab_go_safe w t u Hw id data)). Qed.

(* ByteSize and ChildStorables of any slab that decoding returns.  Modelled as what they are in Go: total
   functions of the decoded value (a field read; a copy of the element slice; the walk over the three element
   kinds, whose Go default branch `panic(NewUnreachableError())` corresponds to no constructor). *)
Theorem C19_accessors :
  forall (wellformed : bytes -> option (citem * N)) (decode_type_info : citem -> bool) (utf8_valid : bytes -> bool)
         id data s fuel,
  decode_slab_go wellformed decode_type_info utf8_valid id data = Val s ->
  byte_size_go s <> Panic /\ child_storables_go fuel s <> Panic.
Proof. intros w t u id data s fuel _. exact (accessors_no_panic s fuel). Qed.

(* ---- the hypotheses are not vacuous, and the model accepts real registers ---- *)

(* a non-trivial [wellformed]: recognises one-byte unsigned integers *)
Definition tiny_wellformed (d : bytes) : option (citem * N) :=
  match d with b :: _ => if b <? 24 then Some (CUint b, 1) else None | [] => None end.
Example tiny_wellformed_ok : forall d it n, tiny_wellformed d = Some (it, n) -> n <= lenN d /\ csize it <= n.
Proof.
  intros d it n. unfold tiny_wellformed. destruct d as [|b r]; [discriminate|].
  destruct (b <? 24); [|discriminate]. intros H; inversion H; subst. unfold lenN; cbn [length csize]. lia.
Qed.
Example tiny_wellformed_nontrivial : tiny_wellformed [5] = Some (CUint 5, 1).
Proof. reflexivity. Qed.

(* the version-0 root array metadata slab of array_test.go TestArrayDecodeV0 "metadataslab as root" *)
Definition fixture_v0_array_meta : bytes :=
  [0;129;129;24;42;0;129;0;2;
   1;2;3;4;5;6;7;8;0;0;0;0;0;0;0;2;0;0;0;9;0;0;0;228;
   1;2;3;4;5;6;7;8;0;0;0;0;0;0;0;3;0;0;0;11;0;0;1;14].
Example fixture_decodes :
  match decode_concrete slabIDUndefined fixture_v0_array_meta with
  | Val (FArrayMeta s) =>
    ah_count (am_header s) = 20 /\ map ah_count (am_children s) = [9; 11] /\ map ah_size (am_children s) = [228; 270]
    /\ am_countSum s = [9; 20] /\ am_hasExtra s = true
  | _ => False
  end.
Proof. vm_compute. repeat split. Qed.
(* dropping the last byte makes the expected-length check fail: an error, not a panic *)
Example fixture_truncated : decode_concrete slabIDUndefined (removelast fixture_v0_array_meta) = Error.
Proof. vm_compute. reflexivity. Qed.
(* a child header count of 0xffff on a short input: rejected before any allocation *)
Example huge_count_rejected :
  decode_concrete slabIDUndefined [16;1; 0;0;0;0;0;0;0;1; 255;255; 0;0;0;0;0;0;0;2;0;0;0;9;0;228] = Error /\
  alloc_units_fixed concrete_array_extra_len concrete_map_extra_len no_inlined_extra_len slabIDUndefined
    [16;1; 0;0;0;0;0;0;0;1; 255;255; 0;0;0;0;0;0;0;2;0;0;0;9;0;228] = 0.
Proof. vm_compute. split; reflexivity. Qed.

Print Assumptions C19_header_queries.
Print Assumptions C19_header_queries_exact.
Print Assumptions C19_no_panic_fixed.
Print Assumptions C19_alloc_proportional_fixed.
Print Assumptions C19_no_panic_fixed_engine.
Print Assumptions C19_no_panic_items.
Print Assumptions C19_alloc_items.
Print Assumptions C19_no_panic.
Print Assumptions C19_alloc_proportional.
Print Assumptions C19_accessors.
