(* C08 (pointer level) — the read cache is transparent although slab OBJECTS are shared by pointer
   between the read cache, the write set and the container handles and are mutated in place.

   AliasStorage.v models storage.go with a heap of slab objects; [aabs] dereferences a pointer-level
   state into a state of the value model (Storage.v).  Property theorems only. *)
From stdpp Require Import gmap sorting.
From Coq Require Import ZArith NArith.
From AtreeModel Require Import Storage StorageSpec AliasStorage.
From AtreeProofs Require Import Storage_proofs Commit_proofs StorageProps_proofs Cache_proofs
  AliasStorage_proofs AliasClient_proofs.
Local Open Scope N_scope.

(* (a)+(b), storage calls.  For EVERY state satisfying the invariant
     INV = allocated addresses only
         + no dirty-but-unrecorded object: a cache entry whose identifier has no pending change
           denotes exactly the register's content
         + no register under the temporary address
         + an object is the live reference (write set, else cache) of at most one identifier,
   EVERY storage call except DropDeltas (Store: of an allocated object that is not the live object
   of another identifier) keeps the invariant, commutes with the abstraction, and answers what the
   value model answers — except the cache-bypassing read of an identifier that has a pending change
   AND a cache entry (see C08_alias_rid_returns_pending_object). *)
Theorem C08_alias_storage_call_refines : forall a o so,
  INV a -> vop a o = Some so -> store_ok a o ->
  let '(a', x) := astep a o in
  let '(s', y) := step (aabs a) so in
  INV a' /\ aabs a' = s' /\ answer_ok a o x y.
Proof. exact astep_refines. Qed.

(* the abstraction of an invariant state is a coherent value state, and shows the live objects *)
Theorem C08_alias_abs_coherent : forall a, INV a ->
  coherent (aabs a) /\ forall i, view (aabs a) i = aview a i.
Proof. intros a [H _]. split; [apply aabs_coherent, H|intros i; apply aview_abs, H]. Qed.

(* a cache entry shadowed by a pending change of the same identifier need not be the pending
   object (C08_alias_cache_and_deltas_may_differ); it is never consulted by Retrieve /
   RetrieveIfLoaded, and the next write of the identifier replaces it by the pending object *)
Theorem C08_alias_shadowed_cache_entry : forall a i r,
  adeltas a !! i = Some r ->
  (forall c', a_retrieve (set_cache a c') i = (set_cache a c', r) /\ a_retrieve_if_loaded (set_cache a c') i = r) /\
  (wf a -> acache (a_apply_one a i) !! i = Some r /\ adeltas (a_apply_one a i) !! i = None).
Proof.
  intros a i r H. split; [intros c'; apply shadowed_cache_not_consulted, H|intros Hw; apply shadowed_cache_replaced_by_commit; assumption].
Qed.

(* (a)+(b), disciplined client operations (read; retrieve-mutate-store; create-store; remove;
   root split = re-key + new root; child promotion = re-key + remove): each keeps the invariant,
   commutes with the abstraction (it IS the corresponding sequence of value-model calls), gives the
   same answers, and keeps every handle on an identifier it does not write. *)
Theorem C08_alias_client_op_refines : forall a o, INV a ->
  let '(a', xs) := cop_run a o in
  let '(s', ys) := run (aabs a) (cop_sops (aabs a) o) in
  INV a' /\ aabs a' = s' /\ map out_val xs = ys /\
  (forall h, hinv a h -> (forall k, k ∈ cop_writes o -> fst h <> k) -> hinv a' h).
Proof. exact cop_refines. Qed.

(* mutation through a container handle (the root object kept in [Array.root]): mutate in place,
   Store(root id, root object) — is the value model's Store, and keeps all handles *)
Theorem C08_alias_handle_update_refines : forall a h v, INV a -> hinv a h ->
  let a' := handle_update a h v in
  INV a' /\ aabs a' = fst (step (aabs a) (SStore (fst h) v)) /\ hinv a' h /\
  (forall h', hinv a h' -> fst h' <> fst h -> snd h' <> snd h -> hinv a' h').
Proof. exact handle_update_refines. Qed.

(* schedule operations {fault-free commit of either kind, drop cache, batch preload,
   cache-bypassing read, is-loaded probe, re-creation when nothing is pending}: each is a schedule
   operation of the value model on the abstraction, keeps the invariant, the visible slab under
   every identifier AND EVERY HANDLE (in particular: DropCache while a handle keeps its root) *)
Theorem C08_alias_schedule_op : forall a o, INV a -> is_asched a o = true ->
  exists so, vop a o = Some so /\ is_sched (aabs a) so = true /\
  INV (fst (astep a o)) /\ aabs (fst (astep a o)) = fst (step (aabs a) so) /\
  (forall i, aview (fst (astep a o)) i = aview a i) /\
  (forall h, hinv a h -> hinv (fst (astep a o)) h).
Proof. exact asched_refines. Qed.

(* THE TRANSFER.  For EVERY disciplined client history (operations through the storage on
   identifiers without a handle; open / update / read / close of handles; discipline = one wrapper
   per container) and EVERY way of inserting schedule operations between its events, every
   client-visible answer is the same as without the insertions, and both executions end in client
   states that satisfy the invariants, hold handles on the same identifiers and show the same slab
   under every identifier. *)
Theorem C08_alias_schedule_transparent : forall c2 es ses, ascheduled c2 es ses -> forall c1,
  csame c1 c2 ->
  snd (evs_run c1 (map Cl es)) = snd (evs_run c2 ses) /\
  csame (fst (evs_run c1 (map Cl es))) (fst (evs_run c2 ses)).
Proof. exact alias_schedule_transparent. Qed.

(* ... and a final commit then leaves the same owned registers *)
Theorem C08_alias_same_registers : forall c1 c2, csame c1 c2 -> forall i, is_temp i = false ->
  abase (fst (astep (fst c1) (AFastCommit None))) !! i = abase (fst (astep (fst c2) (AFastCommit None))) !! i.
Proof. exact alias_same_registers. Qed.

(* every disciplined scheduled history from the empty storage keeps the client invariant *)
Theorem C08_alias_reachable_invariant : forall es ses, ascheduled (ast_init, []) es ses ->
  CINV (fst (evs_run (ast_init, []) ses)).
Proof. intros es ses H. exact (ascheduled_CINV _ es ses H CINV_init). Qed.

(* DropDeltas is NOT a refinement step in general (C08_alias_dropdeltas_does_not_roll_back); it is
   one when every cache entry is clean, e.g. when nothing was pending *)
Theorem C08_alias_dropdeltas_when_clean : forall a, ainv a -> lit_clean a ->
  ainv (fst (astep a ADropDeltas)) /\ aabs (fst (astep a ADropDeltas)) = fst (step (aabs a) SDropDeltas).
Proof. exact dropdeltas_refines. Qed.

Theorem C08_alias_cleanb : forall a, cleanb a = true <-> clean a.
Proof. exact cleanb_spec. Qed.

(** (c) negative witnesses, by computation on the model (V n = slab version n; A, B identifiers) *)

Theorem C08_alias_unrecorded_mutation_refuted :
  cleanb (fst (arun w_committed [AMutate 0 (mkval 8 3)])) = false /\
  map out_val w1_keep = [OOk; ORet (Some (mkval 8 3))] /\
  map out_val w1_drop = [OOk; OOk; ORet (Some (mkval 7 3))] /\
  abase (fst (arun w_committed [AMutate 0 (mkval 8 3); AFastCommit None])) !! (1,1)%N = Some (mkval 7 3).
Proof. exact w1_unrecorded_mutation_breaks_transparency. Qed.

Theorem C08_alias_handle_across_dropcache_harmless :
  let a := fst (arun w_committed [ADropCache; AMutate 0 (mkval 8 3); AStore (1,1)%N 0]) in
  cleanb a = true /\ aview a (1,1)%N = Some (mkval 8 3) /\
  abase (fst (astep a (AFastCommit None))) !! (1,1)%N = Some (mkval 8 3) /\
  let a' := fst (arun w_committed [ADropCache; ARetrieve (1,1)%N; AMutate 0 (mkval 8 3); AStore (1,1)%N 0]) in
  cleanb a' = true /\ aview a' (1,1)%N = Some (mkval 8 3) /\
  acache a' !! (1,1)%N = Some (Some 1%N) /\ adeltas a' !! (1,1)%N = Some (Some 0%N).
Proof. exact w2_handle_across_dropcache_is_harmless. Qed.

Theorem C08_alias_two_holders_refuted :
  let a := fst (arun w_committed [ADropCache; ARetrieve (1,1)%N; AMutate 1 (mkval 9 3); AStore (1,1)%N 1]) in
  aview a (1,1)%N = Some (mkval 9 3) /\ handle_read a ((1,1)%N, 0%N) = Some (mkval 7 3) /\
  aview (handle_update a ((1,1)%N, 0%N) (mkval 8 3)) (1,1)%N = Some (mkval 8 3).
Proof. exact w3_two_holders_diverge. Qed.

Theorem C08_alias_rid_returns_pending_object :
  let a := fst (cop_run w_committed (CUpdate (1,1)%N (mkval 8 3))) in
  map out_val (snd (arun a [ARetrieveIgnoringDeltas (1,1)%N true])) = [ORet (Some (mkval 8 3))] /\
  map out_val (snd (arun a [ADropCache; ARetrieveIgnoringDeltas (1,1)%N true])) = [OOk; ORet (Some (mkval 7 3))] /\
  snd (step (aabs a) (SRetrieveIgnoringDeltas (1,1)%N true)) = ORet (Some (mkval 7 3)) /\
  cleanb a = true.
Proof. exact w4_rid_returns_pending_object. Qed.

Theorem C08_alias_dropdeltas_does_not_roll_back :
  let a := fst (cop_run w_committed (CUpdate (1,1)%N (mkval 8 3))) in
  let a' := fst (astep a ADropDeltas) in
  cleanb a' = false /\ aview a' (1,1)%N = Some (mkval 8 3) /\
  view (fst (step (aabs a) SDropDeltas)) (1,1)%N = Some (mkval 7 3) /\
  aview (fst (astep a' ADropCache)) (1,1)%N = Some (mkval 7 3).
Proof. exact w5_dropdeltas_does_not_roll_back. Qed.

Theorem C08_alias_cache_and_deltas_may_differ :
  let a := fst (arun (fst (cop_run w_committed (CUpdate (1,1)%N (mkval 8 3)))) [ABatchPreload [(1,1)%N]]) in
  acache a !! (1,1)%N = Some (Some 1%N) /\ adeltas a !! (1,1)%N = Some (Some 0%N) /\ cleanb a = true /\
  aview a (1,1)%N = Some (mkval 8 3).
Proof. exact w6_cache_and_deltas_differ. Qed.

Theorem C08_alias_shared_object_refuted :
  let a := fst (arun w_committed [AStore (1,2)%N 0]) in
  let a' := fst (cop_run a (CUpdate (1,1)%N (mkval 8 3))) in
  aview a (1,2)%N = Some (mkval 7 3) /\ aview a' (1,2)%N = Some (mkval 8 3).
Proof. exact w7_shared_object_two_ids. Qed.

(** non-vacuity: a disciplined history with a handle kept across commit, DropCache, preload,
    re-read of the root by a second reader, a root split and a child promotion; the scheduled
    run answers like the unscheduled one *)
Example C08_alias_example :
  let R := (1,1)%N in let C := (1,2)%N in let D := (1,3)%N in
  let es := [EOp (CCreate R (mkval 1 3)); EOpen R; EHUpdate 0%nat (mkval 2 3); EOp (CCreate C (mkval 5 3));
             EHRead 0%nat; EOp (CRead R); EOp (CUpdate C (mkval 6 3)); EOp (CRekey C D (mkval 7 3) (mkval 8 3));
             EHUpdate 0%nat (mkval 3 3); EOp (CPromote C D (mkval 9 3)); EHRead 0%nat; EOp (CRead C); EOp (CRead D)] in
  let ses := [Cl (EOp (CCreate R (mkval 1 3))); Sc (AFastCommit None); Cl (EOpen R); Sc ADropCache;
              Cl (EHUpdate 0%nat (mkval 2 3)); Sc (ABatchPreload [R]); Cl (EOp (CCreate C (mkval 5 3)));
              Sc (AFastCommit None); Sc ADropCache; Cl (EHRead 0%nat); Cl (EOp (CRead R));
              Sc (ARetrieveIgnoringDeltas C true); Cl (EOp (CUpdate C (mkval 6 3)));
              Cl (EOp (CRekey C D (mkval 7 3) (mkval 8 3))); Sc (AFastCommit None); Sc ARecreate;
              Cl (EHUpdate 0%nat (mkval 3 3)); Sc ADropCache; Cl (EOp (CPromote C D (mkval 9 3)));
              Sc (AFastCommit None); Cl (EHRead 0%nat); Sc ADropCache; Cl (EOp (CRead C)); Cl (EOp (CRead D))] in
  ascheduled (ast_init, []) es ses /\
  snd (evs_run (ast_init, []) (map Cl es)) = snd (evs_run (ast_init, []) ses) /\
  snd (evs_run (ast_init, []) ses) =
    [OOk; ORet (Some (mkval 1 3)); OOk; OOk; ORet (Some (mkval 2 3)); ORet (Some (mkval 2 3));
     ORet (Some (mkval 5 3)); OOk; ORet (Some (mkval 6 3)); OOk; OOk; OOk;
     ORet (Some (mkval 7 3)); OOk; OOk; ORet (Some (mkval 3 3)); ORet (Some (mkval 9 3)); ORet None].
Proof.
  cbn zeta. split; [apply aschedb_sound; vm_compute; reflexivity|split; vm_compute; reflexivity].
Qed.

Print Assumptions C08_alias_storage_call_refines.
Print Assumptions C08_alias_client_op_refines.
Print Assumptions C08_alias_handle_update_refines.
Print Assumptions C08_alias_schedule_op.
Print Assumptions C08_alias_schedule_transparent.
Print Assumptions C08_alias_same_registers.
Print Assumptions C08_alias_reachable_invariant.
Print Assumptions C08_alias_dropdeltas_when_clean.
Print Assumptions C08_alias_rid_returns_pending_object.
Print Assumptions C08_alias_dropdeltas_does_not_roll_back.
Print Assumptions C08_alias_abs_coherent.
Print Assumptions C08_alias_shadowed_cache_entry.
Print Assumptions C08_alias_cleanb.
Print Assumptions C08_alias_unrecorded_mutation_refuted.
Print Assumptions C08_alias_handle_across_dropcache_harmless.
Print Assumptions C08_alias_two_holders_refuted.
Print Assumptions C08_alias_cache_and_deltas_may_differ.
Print Assumptions C08_alias_shared_object_refuted.
