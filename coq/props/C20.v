(* C20 — The storage health check accepts exactly the healthy storages.
   Property theorems only; each is closed by [exact] of a lemma of proofs/Health_proofs.v.

   Vocabulary (Health_proofs.v): a storage with all slabs loaded is a graph
   [g : gmap sid (list sid)] (slab -> references found in it, in order); [edge g p c]: the
   present slab p holds a reference to c; [slabs g]: the identifiers present; [owner] is the
   address part of an identifier.  [healthy g roots] is the conjunction of
     no_dangling            every reference resolves,
     single_parent          no slab is referenced from two slabs or twice from one,
     same_owner             child and parent have the same owner,
     roots_are_unreferenced [roots] lists, without repetition, the present slabs nobody references,
     rooted                 every slab hangs below one of [roots] (finite depth, no cycle).
   [check_health order g n] is the CURRENT CheckStorageHealth (with the repair for missing
   referenced slabs), run with the slab iterator yielding the slabs in [order]; all theorems
   hold for EVERY order that enumerates the slabs. *)
From stdpp Require Import gmap sorting.
From Coq Require Import ZArith NArith.
From AtreeModel Require Import Storage Health.
From AtreeProofs Require Import Health_proofs.

(* On a healthy storage the check succeeds, whatever the iteration order, with or without an
   expected root count, and returns the true set of roots. *)
Theorem C20_complete : forall g roots order n,
  healthy g roots -> order ≡ₚ slabs g -> n = None \/ n = Some (length roots) ->
  exists roots', check_health order g n = Ok roots' /\ roots' ≡ₚ roots.
Proof. exact check_health_complete. Qed.

(* If the check succeeds the storage is healthy, the returned list is the set of roots, and it
   has the expected length. In particular the walk did not run out of fuel, i.e. the Go loop
   terminated. *)
Theorem C20_sound : forall g order n roots,
  order ≡ₚ slabs g -> check_health order g n = Ok roots ->
  no_dangling g /\ single_parent g /\ same_owner g /\ roots_are_unreferenced g roots /\
  rooted g roots /\ (forall k, n = Some k -> length roots = k).
Proof.
  intros g order n roots Hp H. destruct (check_health_sound g order n roots Hp H) as [[H1 H2 H3 H4 H5] H6].
  exact (conj H1 (conj H2 (conj H3 (conj H4 (conj H5 H6))))).
Qed.

(* Each single corruption of a healthy storage is rejected for every iteration order:
   (a) a referenced slab deleted, (b) an unreferenced slab added while the expected count stays,
   (c) a second reference to an already referenced slab, (d) a reference to a slab of another
   owner / a referenced slab re-owned.  See [single_corruption]. *)
Theorem C20_corruptions : forall g roots g',
  healthy g roots -> single_corruption g g' ->
  forall order, order ≡ₚ slabs g' -> exists e, check_health order g' (Some (length roots)) = Err e.
Proof. exact check_health_corruptions. Qed.

(* General form: any storage with a dangling reference, a slab referenced from two slabs or twice
   from one, an owner mismatch along a reference, or a wrong number of unreferenced slabs is
   rejected. *)
Theorem C20_rejects : forall g order n,
  order ≡ₚ slabs g ->
  (exists p c, edge g p c /\ ~ present g c) \/
  (exists p1 p2 c, p1 <> p2 /\ edge g p1 c /\ edge g p2 c) \/
  (exists p rs, g !! p = Some rs /\ ~ NoDup rs) \/
  (exists p c, edge g p c /\ owner c <> owner p) \/
  (exists k, n = Some k /\ forall rs, roots_are_unreferenced g rs -> length rs <> k) ->
  exists e, check_health order g n = Err e.
Proof. exact check_health_rejects. Qed.

(* GetAllChildReferences: whenever the loop terminates (within any fuel) the first list holds
   exactly the present slabs reachable from id through at least one reference, the second
   exactly the absent identifiers so reachable; an absent start slab is an error. *)
Theorem C20_all_child_refs : forall g fuel id R B,
  get_all_child_refs_fuel fuel g id = GOk R B ->
  present g id /\
  (forall x, x ∈ R <-> reachable_present g id x) /\
  (forall x, x ∈ B <-> reachable_broken g id x).
Proof. exact get_all_child_refs_spec. Qed.

Theorem C20_all_child_refs_absent : forall g fuel id,
  g !! id = None -> get_all_child_refs_fuel fuel g id = GNotFound.
Proof. exact get_all_child_refs_absent. Qed.

(* it terminates on every graph without cycles (a rank decreasing along references), broken
   references or not, given fuel above the rank of the start slab ... *)
Theorem C20_all_child_refs_terminates : forall g (rank : sid -> nat) fuel id,
  (forall p c, edge g p c -> rank c < rank p) -> rank id <= fuel ->
  get_all_child_refs_fuel fuel g id <> GFuel.
Proof. exact get_all_child_refs_terminates. Qed.

(* ... and on a healthy storage the default fuel (number of slabs + 1) is enough, the result is
   the set of descendants and there is no broken reference. *)
Theorem C20_all_child_refs_healthy : forall g roots id,
  healthy g roots -> present g id ->
  exists R B, get_all_child_refs g id = GOk R B /\
    (forall x, x ∈ R <-> reachable_present g id x) /\ (forall x, x ∈ B <-> False).
Proof. exact get_all_child_refs_healthy. Qed.

(* Finding F1 (repaired in /repo by "fix: CheckStorageHealth reports a reference to a slab that
   is missing in storage"): the algorithm WITHOUT the missing-reference loop accepts a parent
   with two children of which one was deleted; the current algorithm rejects it. *)
Theorem C20_sound_refuted_old :
  exists g order n roots p c,
    order ≡ₚ slabs g /\ check_health_old order g n = Ok roots /\ edge g p c /\ ~ present g c /\
    check_health order g n = Err EMissingRef.
Proof. exact check_health_old_unsound. Qed.

(* Non-vacuity: a healthy storage with two owners, two roots, depth 3, and each of the
   corruptions applied to it (verdicts of the executable model). *)
Definition ex_g : gmap sid (list sid) :=
  graph_of [((1, 1), [(1, 2); (1, 3)]); ((1, 2), [(1, 4)]); ((1, 3), []); ((1, 4), []);
            ((2, 1), [(2, 2)]); ((2, 2), [])]%N.

Example C20_example :
  (exists roots, healthy ex_g roots /\ length roots = 2) /\
  check_health (slabs ex_g) ex_g (Some 2) = Ok [(1, 1); (2, 1)]%N /\
  check_health (slabs (delete (1, 4)%N ex_g)) (delete (1, 4)%N ex_g) (Some 2) = Err EMissingRef /\
  check_health (slabs (<[(1, 9)%N := []]> ex_g)) (<[(1, 9)%N := []]> ex_g) (Some 2) = Err ERootCount /\
  check_health (slabs (<[(2, 2)%N := [(1, 4)%N]]> ex_g)) (<[(2, 2)%N := [(1, 4)%N]]> ex_g) (Some 2) = Err ETwoParents /\
  check_health (slabs (<[(2, 9)%N := []]> (<[(1, 3)%N := [(2, 9)%N]]> ex_g)))
               (<[(2, 9)%N := []]> (<[(1, 3)%N := [(2, 9)%N]]> ex_g)) (Some 2) = Err EOwner /\
  get_all_child_refs ex_g (1, 1)%N = GOk [(1, 2); (1, 3); (1, 4)]%N [] /\
  get_all_child_refs (delete (1, 4)%N ex_g) (1, 1)%N = GOk [(1, 2); (1, 3)]%N [(1, 4)%N] /\
  (* a cycle with a leaf hanging off it: the Go walk would not terminate *)
  (let cyc := graph_of [((1, 1), [(1, 2); (1, 3)]); ((1, 2), [(1, 1)]); ((1, 3), [])]%N in
   check_health (slabs cyc) cyc None = Err EFuel).
Proof.
  split.
  - exists [(1, 1); (2, 1)]%N. split; [|reflexivity].
    apply (check_health_sound ex_g (slabs ex_g) (Some 2)); [reflexivity|vm_compute; reflexivity].
  - vm_compute. repeat split.
Qed.

Print Assumptions C20_complete.
Print Assumptions C20_sound.
Print Assumptions C20_corruptions.
Print Assumptions C20_rejects.
Print Assumptions C20_all_child_refs.
Print Assumptions C20_all_child_refs_absent.
Print Assumptions C20_all_child_refs_terminates.
Print Assumptions C20_all_child_refs_healthy.
Print Assumptions C20_sound_refuted_old.
