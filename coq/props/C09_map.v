(* C09 (one map's slab tree) — no leaked, dangling or doubly-owned slabs; an external collision
   group slab is removed when the group collapses or is popped; emptying releases every auxiliary
   slab.

   Scope: the slabs of ONE OrderedMap with the model's storage log.  [mslab_ids] = the index/data
   slabs of the tree AND the slabs of external collision groups at ANY depth of the element
   structure of its leaves (MapElems.v: [EGroup (Some id) g]; under the well-formedness invariant
   they exist at the first level only, and then [mslab_ids] is MapTreeInv.slab_ids:
   [C09_map_ids_agree]).  All of them draw their index from the map's allocator [t_alloc]; the log
   [lg] is the exact sequence of storeSlab / Storage.Remove calls of the operation (tree level and
   element level).  What Set / Remove / PopIterate hand back to the caller (previous value, removed
   key and value, popped entries) are (identity, size) pairs [kv] in this model, never slabs: the
   accounting has no "handed back" term (the values' own slabs are C10 / C11).

   The theorems hold for every configuration [c], digest function [dg], number of levels, inline
   limit and collision limit: no byte size enters. *)
From Coq Require Import NArith ZArith List Bool Permutation.
From AtreeModel Require Import Settings MapElems MapElemsInv MapTree MapTreeInv.
From AtreeProofs Require Import MapFrame_proofs.
Import ListNotations.
Local Open Scope N_scope.

(* One operation from ANY state satisfying the identifier invariant
     [mids_ok]: all slab indexes pairwise distinct, positive, at most the allocator
   (and [shape]: as many digests as elements in every hkeyElements, as many header copies as
   children in every index slab):
   - the invariant holds again, the allocator never decreases, the root index never changes;
   - ACCOUNTING: new tree ++ slabs released by Storage.Remove is a duplicate-free permutation of
     old tree ++ the freshly allocated indexes: nothing is leaked (every old or fresh slab is still
     referenced or was released), nothing dangling (no live slab is released), nothing owned twice. *)
Theorem C09_map_ids_step : forall dg levels max_inline_elem limit c t o t' out lg,
  mids_ok t -> shape (t_root t) ->
  mt_step dg levels max_inline_elem limit c t o = (t', out, lg) ->
    mids_ok t' /\ t_alloc t <= t_alloc t' /\ t_rootid t' = t_rootid t /\
    NoDup (mslab_ids (t_root t') ++ removed lg) /\
    exists k, t_alloc t' = t_alloc t + N.of_nat k /\
              Permutation (mslab_ids (t_root t') ++ removed lg)
                          (mslab_ids (t_root t) ++ nseq (t_alloc t) k).
Proof. exact mids_step. Qed.

(* The same for every map reachable from an empty one by any history, and any next operation; in
   particular: a slab of the old tree that is no longer in the new tree — an external collision
   group that collapsed into its last element, a merged sibling, a promoted child, everything but
   the root on PopIterate — has been removed from storage; a slab that is new in the tree — a split
   half, a collision group that spilled out of its data slab — carries a fresh index and was stored. *)
Theorem C09_map_ids : forall dg levels max_inline_elem limit c rootid ops o, 0 < rootid ->
  let t := fst (mt_run dg levels max_inline_elem limit c (fst (mt_init rootid)) ops) in
  forall t' out lg, mt_step dg levels max_inline_elem limit c t o = (t', out, lg) ->
    mids_ok t /\ mids_ok t' /\ t_rootid t = rootid /\ t_rootid t' = rootid /\ t_alloc t <= t_alloc t' /\
    NoDup (mslab_ids (t_root t') ++ removed lg) /\
    (exists k, t_alloc t' = t_alloc t + N.of_nat k /\
               Permutation (mslab_ids (t_root t') ++ removed lg)
                           (mslab_ids (t_root t) ++ nseq (t_alloc t) k)) /\
    (forall id, In id (mslab_ids (t_root t)) -> ~ In id (mslab_ids (t_root t')) -> In (WRemove id) lg) /\
    (forall id, In id (mslab_ids (t_root t')) -> ~ In id (mslab_ids (t_root t)) ->
                t_alloc t < id <= t_alloc t' /\ In (WStore id) lg).
Proof. exact mreach_ids. Qed.

(* PopIterate on any reachable map: afterwards the root data slab is the only slab; the log stores
   the root and removes every other slab — index slabs, data slabs AND external collision group
   slabs — exactly once (rootid :: removed lg is a duplicate-free permutation of all slabs). *)
Theorem C09_map_empty_releases_all : forall dg levels max_inline_elem limit c rootid ops, 0 < rootid ->
  let t := fst (mt_run dg levels max_inline_elem limit c (fst (mt_init rootid)) ops) in
  forall t' out lg, mt_step dg levels max_inline_elem limit c t OPop = (t', out, lg) ->
    mslab_ids (t_root t') = [rootid] /\
    stored lg = [rootid] /\
    NoDup (rootid :: removed lg) /\
    Permutation (rootid :: removed lg) (mslab_ids (t_root t)) /\
    (forall id, In id (mslab_ids (t_root t)) -> id <> rootid -> In (WRemove id) lg).
Proof. exact mreach_pop. Qed.

(* the invariant of the reachable maps, and its relation to MapTreeInv.v: a tree satisfying
   [mtwf_full] satisfies it, and there "all slabs" = MapTreeInv.slab_ids *)
Theorem C09_map_reachable_inv : forall dg levels max_inline_elem limit c rootid ops, 0 < rootid ->
  finv (fst (mt_run dg levels max_inline_elem limit c (fst (mt_init rootid)) ops)) /\
  t_rootid (fst (mt_run dg levels max_inline_elem limit c (fst (mt_init rootid)) ops)) = rootid.
Proof. exact mreach_inv. Qed.

Theorem C09_map_ids_agree : forall dg levels c t,
  mtwf_full dg levels c t -> finv t /\ mslab_ids (t_root t) = slab_ids (t_root t).
Proof. exact mtwf_full_finv. Qed.

(** a concrete history at slab size 256 (max inline element 107): keys k with first-level digest
    k / 10, 50-byte entries.  Keys 10 11 12 collide: the inline group spills into slab 2 on the
    second insert; the root data slab splits (slabs 3 4), a leaf splits (slab 5), removals rebalance
    and merge (slab 5 released), removing 11 and 12 collapses the group (slab 2 released); two more
    colliding inserts spill again (slab 6); PopIterate releases 4 6 3. *)
Definition c09m_c := set_threshold 256.
Definition c09m_dg (k : N) (l : nat) : N := match l with O => k / 10 | 1%nat => k mod 10 | _ => k end.
Definition c09m_step := mt_step c09m_dg 4 (cinl_melem c09m_c) 8 c09m_c.
Fixpoint c09m_logs (t : mtree) (ops : list mop) : mtree * list (wlog * list N) :=
  match ops with
  | [] => (t, [])
  | o :: r => let '(t1, _, lg) := c09m_step t o in
              let '(t2, l) := c09m_logs t1 r in (t2, (lg, mslab_ids (t_root t1)) :: l)
  end.
Definition c09m_set (k : N) : mop := OSet (mkkv k 9) (mkkv (k + 1000) 40).
Definition c09m_ops : list mop :=
  map c09m_set [10; 11; 12; 20; 30; 40; 50; 60; 70; 80; 90; 100; 110] ++
  map ORemove [110; 100; 90; 80; 70; 60; 11; 12] ++ [c09m_set 13; c09m_set 14; OPop].
Definition c09m_nodupb (l : list N) : bool := Nat.eqb (length (nodup N.eq_dec l)) (length l).

Example C09_map_example :
  let '(t, l) := c09m_logs (fst (mt_init 1)) c09m_ops in
  (* (log, all slab indexes afterwards) per operation *)
  l = [ ([WStore 1], [1]);
        ([WStore 2; WStore 1], [1; 2]);                              (* 11: spill to external group slab 2 *)
        ([WStore 2; WStore 1], [1; 2]);
        ([WStore 1], [1; 2]); ([WStore 1], [1; 2]); ([WStore 1], [1; 2]); ([WStore 1], [1; 2]); ([WStore 1], [1; 2]);
        ([WStore 1; WStore 3; WStore 4; WStore 1], [1; 3; 2; 4]);    (* 70: root split *)
        ([WStore 4; WStore 1], [1; 3; 2; 4]); ([WStore 4; WStore 1], [1; 3; 2; 4]); ([WStore 4; WStore 1], [1; 3; 2; 4]);
        ([WStore 4; WStore 4; WStore 5; WStore 1], [1; 3; 2; 4; 5]); (* 110: leaf split *)
        ([WStore 5; WStore 1], [1; 3; 2; 4; 5]);
        ([WStore 5; WStore 4; WStore 5; WStore 1], [1; 3; 2; 4; 5]); (* rebalance *)
        ([WStore 5; WStore 4; WStore 5; WStore 1], [1; 3; 2; 4; 5]);
        ([WStore 5; WStore 4; WStore 1; WRemove 5], [1; 3; 2; 4]);   (* merge *)
        ([WStore 4; WStore 1], [1; 3; 2; 4]);
        ([WStore 4; WStore 3; WStore 4; WStore 1], [1; 3; 2; 4]);
        ([WStore 2; WStore 3; WStore 1], [1; 3; 2; 4]);              (* remove 11: group of 2 left *)
        ([WStore 2; WRemove 2; WStore 3; WStore 1], [1; 3; 4]);      (* remove 12: group collapses *)
        ([WStore 6; WStore 3; WStore 1], [1; 3; 6; 4]);              (* 13: spills again *)
        ([WStore 6; WStore 3; WStore 1], [1; 3; 6; 4]);
        ([WRemove 4; WRemove 6; WRemove 3; WStore 1], [1]) ] /\      (* PopIterate *)
  forallb (fun p => c09m_nodupb (snd p)) l = true /\
  mslab_ids (t_root t) = [1] /\ t_alloc t = 6.
Proof. vm_compute. repeat split. Qed.

(* the hypotheses of the step theorem are satisfied by the 3-leaf tree with an external group
   reached after the 13 inserts *)
Example C09_map_hyps_nonvacuous :
  let t := fst (mt_run c09m_dg 4 (cinl_melem c09m_c) 8 c09m_c (fst (mt_init 1)) (firstn 13 c09m_ops)) in
  mids_ok t /\ shape (t_root t) /\ mslab_ids (t_root t) = [1; 3; 2; 4; 5].
Proof.
  pose proof (mreach_inv c09m_dg 4 (cinl_melem c09m_c) 8 c09m_c 1 (firstn 13 c09m_ops) eq_refl) as [(H1 & H2 & _) _].
  cbv zeta. split; [exact H1|]. split; [exact H2|]. vm_compute. reflexivity.
Qed.

(* [shape] is needed: in an (unreachable, ill-shaped) data slab whose hkeyElements has an element but
   no digest, Set replaces the element list, and the external group slab 2 is leaked *)
Example C09_map_shape_needed :
  let g := HKey 1 [0; 1] [ESingle (mkkv 10 9) (mkkv 1010 40); ESingle (mkkv 11 9) (mkkv 1011 40)] 124 in
  let t := mkmt (MD (mkmhdr 1 39 0) 0 (HKey 0 [] [EGroup (Some 2) g] 37)) 2 2 in
  let '(t', _, lg) := c09m_step t (c09m_set 20) in
  mids_ok t /\ ~ shape (t_root t) /\
  mslab_ids (t_root t) = [1; 2] /\ mslab_ids (t_root t') = [1] /\ lg = [WStore 1].
Proof.
  vm_compute. split; [split; [repeat constructor; cbn; intuition discriminate|repeat constructor; discriminate]|].
  split; [intros [H _]; discriminate H|]. repeat split.
Qed.


Print Assumptions C09_map_ids_step.
Print Assumptions C09_map_ids.
Print Assumptions C09_map_empty_releases_all.
Print Assumptions C09_map_reachable_inv.
Print Assumptions C09_map_ids_agree.
