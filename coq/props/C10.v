(* C10 — Mutating a nested container through its handle updates and persists the parent.
   Model: theories/Nested.v (forest of containers with the callback machinery of array.go / map.go).
   [fwf n g f]: the forest invariant (every child exists and carries the callback of its slot;
   map keys distinct; nesting acyclic and shallower than the fuel n; index maps point at their
   children; cached sizes synchronised; a child is inlined iff it fits its slot). *)
From Coq Require Import ZArith NArith List Bool Lia.
From AtreeModel Require Import Nested.
From AtreeProofs Require Import Nested_proofs Nested_examples.
Import ListNotations.
Local Open Scope N_scope.

(* the tracked index of a child is the position of that child *)
Theorem C10_index_tracking : forall n g f p c v i,
  fwf n g f -> fget f p = Some c -> aget (c_idx c) v = Some i ->
  exists s w, nth_error (c_slots c) i = Some s /\ s_val s = NChild v w.
Proof. exact C10_index_tracking_l. Qed.

(* a child is stored inline exactly when (it is one slab that) fits the limit of its slot:
   maxInlineArrayElementSize resp. maxInlineMapValueSize(key size), minus the wrapper prefix *)
Theorem C10_inline_iff_fits : forall n g f p c i s v w cv,
  fwf n g f -> fget f p = Some c -> nth_error (c_slots c) i = Some s -> s_val s = NChild v w -> fget f v = Some cv ->
  (c_inl cv = true <-> inl_size cv <= slot_lim g (c_kind c) (s_ksz s) w).
Proof. exact C10_inline_iff_fits_l. Qed.

(* any operation (insert / set / remove / pop / map set / map remove / set-type) through the handle
   h of a container attached in slot i of p: no error; the element list of h is the plain-list
   result and is still what slot i of p holds (value ID h unchanged); every container of the forest
   is valid again (all ancestors' cached sizes re-synchronised, inline flags correct); the nearest
   stored (not inlined) ancestor-or-self of h is in the write set, so the next commit persists it *)
Theorem C10_visible_and_persisted : forall n g f h o f' ok p i s w,
  fwf n g f -> edge f p i s h w -> op_ok n f (cop_nop h o) -> child_step n g f h o = (f', ok) ->
  ok = true /\
  (exists c c', fget f h = Some c /\ fget f' h = Some c' /\ c_slots c' = slots_after o (c_slots c)) /\
  edge f' p i s h w /\
  fwf n g f' /\
  (forall k s0, enclosing k f' h = Some s0 -> dirty f' s0 = Some true).
Proof. exact C10_visible_and_persisted_l. Qed.

(* the invariant holds in every state reachable by interleaved parent / child operations *)
Theorem C10_reachable : forall n g f, (0 < n)%nat -> reach n g f -> fwf n g f.
Proof. exact C10_reachable_l. Qed.

(* the code before "fix: notify parent container after PopIterate" ([pop_step_old]) violates
   C10_visible_and_persisted: parent 1 = [child 2 (5 elements, inlined), 99], committed;
   PopIterate through the child handle empties the child, but the enclosing stored slab stays
   clean (nothing is persisted) and the parent's cached size stays 35 instead of 20 *)
Theorem C10_refuted_old :
  exists f h p i s w,
    fwf 8 cfg1024 f /\ edge f p i s h w /\
    let f' := fst (pop_step_old f h) in
    option_map c_slots (fget f' h) = Some [] /\
    enclosing 8 f' h = Some p /\ dirty f' p = None /\
    ~ fwf 8 cfg1024 f'.
Proof.
  exists f0, 2, 1, 0%nat, (mkSlot 0 0 (NChild 2 0)), 0. split; [exact fwf_f0|]. split; [exact edge_f0|].
  destruct refuted_old as (A & B & C & _). repeat split; auto. exact refuted_old_not_fwf.
Qed.

(* non-vacuity: a reachable forest with an attached, inlined child satisfies the hypotheses, and the
   conclusion is observable (parent's cached size 35 -> 38, parent dirty) *)
Example C10_hypotheses_inhabited :
  fwf 8 cfg1024 f0 /\ edge f0 1 0 (mkSlot 0 0 (NChild 2 0)) 2 0 /\ op_ok 8 f0 (cop_nop 2 (CInsert 5 (sc 15))) /\
  (let f' := fst (child_step 8 cfg1024 f0 2 (CInsert 5 (sc 15))) in
   enclosing 8 f' 2 = Some 1 /\ dirty f' 1 = Some true /\
   option_map c_csize (fget f' 1) = Some 38 /\ option_map c_csize (fget f0 1) = Some 35).
Proof. split; [exact fwf_f0|]. split; [exact edge_f0|]. split; [exact op_ok_f0_append|exact grow_f0]. Qed.

Print Assumptions C10_index_tracking.
Print Assumptions C10_inline_iff_fits.
Print Assumptions C10_visible_and_persisted.
Print Assumptions C10_reachable.
Print Assumptions C10_refuted_old.
