(* C02 — "an ordered map behaves as a dictionary … for any number of slabs the map spans".
   FULL statement over the SLAB-TREE model (MapTree.v: data slabs, index slabs, header copies, cached
   sizes and firstKeys, split / merge / lend / borrow, root promotion and root split), for EVERY legal
   slab size T (256..32768), EVERY digest assignment dg (any collisions), any number of digest levels
   >= 1, any collision limit and any finite history.

   Architecture: MapTree.mt_step  --(this file: C02_map_step_refines_elems)-->  MapElems.m_step on
   the ONE logical hkeyElements [elems_of_tree]  --(C02_elems / MapElems_proofs)-->  the dictionary
   machine d_step on an association list kept in canonical order.  Property theorems only; proofs in
   proofs/Map*_proofs.v. *)
From Coq Require Import ZArith NArith List Bool.
From AtreeGen Require Import Consts.
From AtreeModel Require Import Settings MapElems MapElemsInv MapTree MapTreeInv.
From AtreeProofs Require Import Settings_proofs MapElems_proofs MapTree_proofs
  MapRebalance_proofs MapFixup_proofs MapTreeOps_proofs MapTreeIter_proofs Map_proofs.
Import ListNotations.
Local Open Scope N_scope.

(* Preconditions on the operations = what OrderedMap.Set guarantees after Storable():
   [mop_ok T ks (OSet k v)]: the key's encoded size is the one recorded for this key identity
   ([ks]: size as a function of the key — the model compares keys by identity) and the single
   element (1 + key size + value size) fits maxInlineMapElementSize.  No condition on other
   operations.  [storable_ok] is the Go-side form (key <= maxInlineMapKeySize,
   value <= maxInlineMapValueSize(key size), sizes > 0); it implies [mop_ok]. *)
Theorem C02_storable_implies_mop_ok : forall T ks k v,
  storable_ok (set_threshold T) ks k v -> mop_ok T ks (OSet k v).
Proof. exact storable_mop_ok. Qed.

(* THE RUN-LEVEL THEOREM.  From the empty map (one root data slab), for every history whose Set
   arguments respect the inline limits: every answer of the slab-tree model (previous value, value,
   membership, removed pair, count, key-not-found, collision-limit error, read-only iteration,
   mutable-iterator enumeration, pop sequence) equals the answer of the dictionary machine; the
   entries read leaf by leaf ARE the dictionary (canonical order); the count in the root's extra
   data is its length; the tree invariant holds; the root slab keeps its identifier. *)
Theorem C02_map_refines_dictionary :
  forall (T : N) (dg : N -> nat -> N) (limit : N) (levels : nat) (ks : N -> N) (rootid : N) (ops : list mop),
    valid_T T -> (1 <= levels)%nat -> Forall (mop_ok T ks) ops ->
    let c := set_threshold T in
    let '(t, outs) := mt_run dg levels (cinl_melem c) limit c (fst (mt_init rootid)) ops in
    let '(d, outs') := d_run dg levels limit [] ops in
    outs = outs' /\ to_list_tree (t_root t) = d /\ t_count t = N.of_nat (length d) /\
    mtwf dg levels c t /\ t_rootid t = rootid.
Proof.
  intros T dg limit levels ks rootid ops HT Hlv Hops. cbv zeta.
  pose proof (mt_run_from_empty dg levels T HT Hlv limit ks rootid ops Hops) as H.
  destruct (mt_run _ _ _ _ _ _ _) as [t outs]. destruct (d_run _ _ _ _ _) as [d outs'].
  destruct H as (H1 & H2 & H3 & H4 & H5). repeat split; auto; apply H4.
Qed.

(* the same from ANY state satisfying the invariant [minv] (not only reachable ones) *)
Theorem C02_map_run_refines_dictionary :
  forall T dg limit levels ks ops t,
    valid_T T -> (1 <= levels)%nat -> minv dg levels T ks t -> Forall (mop_ok T ks) ops ->
    let c := set_threshold T in
    let '(t', outs) := mt_run dg levels (cinl_melem c) limit c t ops in
    let '(d', outs') := d_run dg levels limit (to_list_tree (t_root t)) ops in
    outs = outs' /\ to_list_tree (t_root t') = d' /\ t_count t' = N.of_nat (length d') /\
    minv dg levels T ks t' /\ t_rootid t' = t_rootid t.
Proof. intros T dg limit levels ks ops t HT Hlv Hi Hops. exact (mt_run_refines dg levels T HT Hlv limit ks ops t Hi Hops). Qed.

(* ONE STEP, tree level -> element level (M4): on any state satisfying the invariant, the slab-tree
   operation answers what the element-level operation answers on the logical hkeyElements of the
   tree ([mstate_of_tree]), the resulting tree's logical hkeyElements IS the element level's
   resulting root, the counts agree, the invariant is preserved and the root identifier is constant.
   (The element level's allocator is not compared: the tree also draws slab identifiers for
   splits.) *)
Theorem C02_map_step_refines_elems :
  forall T dg limit levels ks t o,
    valid_T T -> (1 <= levels)%nat -> minv dg levels T ks t -> mop_ok T ks o ->
    let c := set_threshold T in
    let '(t', x, _) := mt_step dg levels (cinl_melem c) limit c t o in
    let '(s', y, _) := m_step dg levels (cinl_melem c) limit (mstate_of_tree t) o in
    x = y /\ m_root s' = elems_of_tree (t_root t') /\ m_count s' = t_count t' /\
    minv dg levels T ks t' /\ t_rootid t' = t_rootid t.
Proof. intros T dg limit levels ks t o HT Hlv Hi Ho. exact (mt_step_ok dg levels T HT Hlv limit ks t o Hi Ho). Qed.

(* ONE STEP, subtree level (M3), Set: for a subtree of any height satisfying [mwfn] (an index slab
   with at least two children: [kids2]) the recursive Set fails exactly when the element-level Set
   on the subtree's logical hkeyElements [gtree n] fails (same error), otherwise returns the same
   previous value, the updated subtree's logical hkeyElements is the element level's result, and
   the subtree is well-formed, of the same height, identity and sibling link and at most one element
   cost / one header larger ([upd_post]). *)
Theorem C02_map_subtree_set :
  forall T dg limit levels ks d n,
    valid_T T -> (1 <= levels)%nat ->
    mwfn dg levels (set_threshold T) d n -> kids2 n -> pairs T ks n ->
    forall k v alloc, pair_ok T ks (k, v) ->
    let c := set_threshold T in
    match set_elems dg levels (cinl_melem c) limit (op_fuel levels) (gtree n) 0 k v (alloc + 1) with
    | inl e => n_set dg levels (cinl_melem c) limit c P n k v alloc = TErr (TElem e)
    | inr (g', prev, a', evs) =>
      exists n' alloc' lg, n_set dg levels (cinl_melem c) limit c P n k v alloc = TOk (n', prev, alloc', lg) /\
                           gtree n' = g' /\ upd_post dg levels T d n n'
    end.
Proof. intros T dg limit levels ks d n HT Hlv Hw H2 Hp. exact (n_set_ok dg levels T HT Hlv limit ks d n Hw H2 Hp). Qed.

(* … Remove (a removal can GROW a data slab: an external collision group collapsing into its last,
   large, element — the bound "at most one element cost larger" covers it and the parent splits) *)
Theorem C02_map_subtree_remove :
  forall T dg levels ks d n,
    valid_T T -> (1 <= levels)%nat ->
    mwfn dg levels (set_threshold T) d n -> kids2 n -> pairs T ks n ->
    forall k alloc,
    let c := set_threshold T in
    match remove_elems dg levels (op_fuel levels) (gtree n) 0 k with
    | inl e => n_remove dg levels c P n k alloc = TErr (TElem e)
    | inr (g', kvp, evs) =>
      exists n' alloc' lg, n_remove dg levels c P n k alloc = TOk (n', kvp, alloc', lg) /\
                           gtree n' = g' /\ upd_post dg levels T d n n'
    end.
Proof. intros T dg levels ks d n HT Hlv Hw H2 Hp. exact (n_remove_ok dg levels T HT Hlv 0 ks d n Hw H2 Hp). Qed.

(* [gtree n] is the specification link of MapTree.v on well-formed subtrees and roots *)
Theorem C02_map_gtree_is_elems_of_tree :
  forall T dg levels d n, valid_T T -> (1 <= levels)%nat ->
    mwfn dg levels (set_threshold T) d n ->
    elems_of_tree n = gtree n /\ ewf_g dg levels 0 (gtree n) /\ to_list_tree n = to_list (gtree n).
Proof.
  intros T dg levels d n HT Hlv Hw. split; [apply (elems_of_tree_gtree dg levels T HT Hlv d n Hw)|].
  split; [apply (gtree_wf dg levels T HT Hlv d n Hw)|apply (to_list_tree_gtree dg levels T HT Hlv d n Hw)].
Qed.

(* ROUTING (M2).  In an index slab whose children are well-formed, inside the size band and ordered,
   Set's binary search ([route_set], which sends a digest below the first child's firstKey to child
   0) and Get/Remove's ([route_get], "not found" in that case) pick the unique child position such
   that every digest stored left of it is smaller and every digest stored right of it is larger
   than the searched digest. *)
Theorem C02_map_routing :
  forall T dg levels d cs hk, valid_T T -> (1 <= levels)%nat ->
    kids_ok dg levels T d cs -> cs <> [] -> ssorted (flat_map keys_of cs) ->
    exists pre ch post, cs = pre ++ ch :: post /\ route_set (map hdr_of cs) hk = length pre /\
      Forall (fun y => y < hk) (flat_map keys_of pre) /\ Forall (fun y => hk < y) (flat_map keys_of post) /\
      (route_get (map hdr_of cs) hk = Some (length pre) \/
       (route_get (map hdr_of cs) hk = None /\ pre = [] /\ Forall (fun y => hk < y) (keys_of ch))).
Proof. intros T dg levels d cs hk HT Hlv. exact (route_split dg levels T HT Hlv d cs hk). Qed.

(* the empty map satisfies the invariant *)
Theorem C02_map_init : forall T dg levels ks rootid, valid_T T -> (1 <= levels)%nat ->
  minv dg levels T ks (fst (mt_init rootid)).
Proof. intros T dg levels ks rootid HT Hlv. exact (minv_empty dg levels T HT Hlv ks rootid rootid). Qed.

(* ---------- non-vacuity: a history that spans several slabs ---------- *)
(* T = 256 (max inline element 107): 40 inserts of 50-byte elements in scrambled digest order
   (digest = 37 k mod 101 at level 0, heavy collisions at the other levels), an overwrite, removals
   (incl. an absent key), lookups, count, both iterations, and further inserts.  The final tree has
   an index root over several data slabs; the executable invariant checker accepts it. *)
Definition ex_dg (k : N) (l : nat) : N := match l with O => (37 * k) mod 101 | 1%nat => k mod 3 | _ => 0 end.
Definition ex_ks (_ : N) : N := 9.
Definition ex_sets (a n : nat) : list mop :=
  map (fun i => OSet (mkkv (N.of_nat i) 9) (mkkv (N.of_nat i + 1000) 40)) (seq a n).
Definition ex_ops : list mop :=
  ex_sets 1 40 ++ [OSet (mkkv 7 9) (mkkv 7777 60); ORemove 5; ORemove 999; OGet 7; OHas 5; OCount; OIterate; OIterNext]
  ++ map ORemove [1; 2; 3; 4; 6; 8; 9; 10; 11; 12; 13; 14; 15; 16; 17; 18; 19; 20] ++ ex_sets 41 10 ++ [OCount].

Lemma ex_sets_ok a n : Forall (mop_ok 256 ex_ks) (ex_sets a n).
Proof.
  unfold ex_sets. rewrite Forall_map. rewrite Forall_forall. intros i _.
  split; [reflexivity|]. vm_compute. discriminate.
Qed.

Lemma ex_ops_ok : Forall (mop_ok 256 ex_ks) ex_ops.
Proof.
  unfold ex_ops. repeat (apply Forall_app; split); try apply ex_sets_ok.
  - repeat constructor. vm_compute. discriminate.
  - rewrite Forall_map. rewrite Forall_forall. intros; exact I.
  - repeat constructor.
Qed.

Example C02_map_example :
  valid_T 256 /\ Forall (mop_ok 256 ex_ks) ex_ops /\
  let c := set_threshold 256 in
  let '(t, outs) := mt_run ex_dg 4 (cinl_melem c) 2 c (fst (mt_init 1)) ex_ops in
  (match t_root t with MM _ _ cs => (3 <=? length cs)%nat | MD _ _ _ => false end) = true /\
  mtwfb ex_dg 4 c t = true /\ t_count t = 31 /\
  nth 40 outs (RErr EInternal) = RPrev (Some (mkkv 1007 40)) /\ nth 42 outs (RErr EInternal) = RErr EKeyNotFound /\
  nth 45 outs (RErr EInternal) = RCount 39 /\ nth 46 outs (RErr EInternal) = nth 47 outs (RErr EInternal).
Proof.
  split; [vm_compute; split; discriminate|]. split; [exact ex_ops_ok|].
  vm_compute. repeat split; reflexivity.
Qed.


(* the same history under heavy collisions (13 first-level digests, 3 second-level, 2 third-level,
   one fourth-level; collision limit 1): external collision groups, refused inserts; the tree still
   spans several slabs, the checker accepts it and the outputs are the dictionary's *)
Definition ex_dg2 (k : N) (l : nat) : N :=
  match l with O => (37 * k) mod 13 | 1%nat => k mod 3 | 2%nat => k mod 2 | _ => 0 end.
Definition is_ext (e : melem) : bool := match e with EGroup (Some _) _ => true | _ => false end.

Example C02_map_example_collisions :
  let c := set_threshold 256 in
  let '(t, outs) := mt_run ex_dg2 4 (cinl_melem c) 1 c (fst (mt_init 1)) ex_ops in
  (match t_root t with MM _ _ cs => (3 <=? length cs)%nat | MD _ _ _ => false end) = true /\
  mtwfb ex_dg2 4 c t = true /\ t_count t = 17 /\
  existsb (fun x => match x with RErr ECollisionLimit => true | _ => false end) outs = true /\
  existsb is_ext (g_elems (elems_of_tree (t_root t))) = true /\
  outs = snd (d_run ex_dg2 4 1 [] ex_ops) /\ to_list_tree (t_root t) = fst (d_run ex_dg2 4 1 [] ex_ops).
Proof. vm_compute. repeat split; reflexivity. Qed.

Print Assumptions C02_map_refines_dictionary.
Print Assumptions C02_map_run_refines_dictionary.
Print Assumptions C02_map_step_refines_elems.
Print Assumptions C02_map_subtree_set.
Print Assumptions C02_map_subtree_remove.
Print Assumptions C02_map_gtree_is_elems_of_tree.
Print Assumptions C02_map_routing.
Print Assumptions C02_map_init.
Print Assumptions C02_storable_implies_mop_ok.
Print Assumptions C02_map_example.
