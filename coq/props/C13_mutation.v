(* C13 (mutation clause) — "Overwriting the current element or mutating a nested container during
   mutable iteration is supported and does not skip or repeat elements."

   Property theorems only; proofs and the loop definitions in proofs/IterMutation_proofs.v.

   Go: the mutable ARRAY iterator holds an index and calls Array.Get(index) (array_iterator.go
   51-79; the bound lastIndex = Count() is fixed at creation); the mutable MAP iterator holds the
   next key: getElementAndNextKey(key) returns the entry of [key] and the key FOLLOWING it in
   canonical order, computed before the caller's code runs; the next step looks that key up again
   from the root (map_iterator.go 72-129, map.go 542-626).  Between two steps the caller overwrites
   the element it was handed — Array.Set(i, e') / OrderedMap.Set(k, v') with a value of any size
   within the Storable contract, or (a mutated nested container notifying its parent:
   setCallbackWithChild -> parent.Set(index or key, child)) the same Set issued by a child.  So
   between two steps leaves split / merge / rebalance, the root is split or promoted, and
   first-level collision groups move to their own slab.

   [ArrMut.iter_mut c a f]  : for i = 0 .. count-1: Get i, yield, if [f i e = Some e'] then Set i e',
                              continue at i+1 on the UPDATED array (model ArrayTree.a_step).
   [MapMut.miter_mut ..]    : element level (MapElems: one logical hkeyElements, inline / external
                              groups): start at the first key; at key k: getElementAndNextKey, yield
                              (k, v), if [f k v = Some v'] then Set k v', continue at the next key
                              computed BEFORE the update.
   [MapMut.mtiter_mut ..]   : the same through the slab tree (MapTree: data / index slabs, header
                              copies, split / merge / lend / borrow, root split and promotion).
   [f] is an arbitrary decision function (any subset of positions / keys, any new values within the
   contract). *)
From Coq Require Import ZArith NArith List Bool.
From AtreeGen Require Import Consts.
From AtreeModel Require Import Settings ArrayTree ArrayInv.
From AtreeProofs Require Import Rebalance_proofs Array_proofs.
From AtreeModel Require Import MapElems MapElemsInv MapTree MapTreeInv.
From AtreeProofs Require Import MapElems_proofs MapTree_proofs MapRebalance_proofs MapFixup_proofs
  MapTreeOps_proofs MapTreeIter_proofs Map_proofs.
From AtreeProofs Require Import IterMutation_proofs.
Import ListNotations.
Local Open Scope N_scope.

(** * Arrays *)

(* From ANY array satisfying the invariant of C01, for EVERY legal slab size and EVERY overwrite
   decision f whose new elements respect the Storable contract (the precondition [aop_ok] of C01):
   - the yielded elements are exactly the ORIGINAL contents, in index order, each once (as many as
     the original count) — whatever splits / merges / root changes the overwrites cause;
   - afterwards position k holds the replacement chosen for the k-th yielded element, or still that
     element ([ArrMut.upd]); in map/combine form;
   - the invariant, the root identifier and the count are preserved.
   ([strip] forgets the slab index at which a large value is stored: the plain sequence of C01.) *)
Theorem C13_array_mutation_during_iteration :
  forall T, valid_T T -> forall (f : N -> elem -> option elem) (a : arr),
    let c := set_threshold T in
    (forall i e e', f i e = Some e' -> ArrayInv.elem_ok c e' /\ strip e' = e') ->
    awfl c a ->
    let r := ArrMut.iter_mut c a f in
    map strip (snd r) = abs_list (a_root a) /\
    N.of_nat (length (snd r)) = a_count a /\
    abs_list (a_root (fst r)) = ArrMut.upd_from f 0 (snd r) /\
    abs_list (a_root (fst r)) =
      map (fun p => ArrMut.upd f (fst p) (snd p))
          (combine (map N.of_nat (seq 0 (length (snd r)))) (snd r)) /\
    awfl c (fst r) /\ a_rootid (fst r) = a_rootid a /\ a_count (fst r) = a_count a.
Proof. intros T HT f a c Hf Ha. exact (ArrMut.array_mutation_during_iteration T HT f Hf a Ha). Qed.

(* position by position: the k-th yielded element is the k-th original one and position k ends up
   with the replacement chosen for it — no other position is affected *)
Theorem C13_array_mutation_pointwise :
  forall T, valid_T T -> forall (f : N -> elem -> option elem) (a : arr) (k : nat) (x : elem),
    let c := set_threshold T in
    (forall i e e', f i e = Some e' -> ArrayInv.elem_ok c e' /\ strip e' = e') ->
    awfl c a -> nth_error (abs_list (a_root a)) k = Some x ->
    exists e, nth_error (snd (ArrMut.iter_mut c a f)) k = Some e /\ strip e = x /\
      nth_error (abs_list (a_root (fst (ArrMut.iter_mut c a f)))) k =
        Some (match f (N.of_nat k) e with Some e' => e' | None => x end).
Proof. intros T HT f a k x c Hf Ha Hk. exact (ArrMut.array_mutation_pointwise T HT f Hf a k x Ha Hk). Qed.

(* a decision that does not look at the storage location of a large value: the final contents as a
   function of the ORIGINAL plain sequence *)
Theorem C13_array_mutation_final_of_original :
  forall T, valid_T T -> forall (f : N -> elem -> option elem) (a : arr),
    let c := set_threshold T in
    (forall i e e', f i e = Some e' -> ArrayInv.elem_ok c e' /\ strip e' = e') ->
    (forall i e, f i (strip e) = f i e) ->
    awfl c a ->
    abs_list (a_root (fst (ArrMut.iter_mut c a f))) = ArrMut.upd_from f 0 (abs_list (a_root a)).
Proof. intros T HT f a c Hf Hs Ha. exact (ArrMut.array_mutation_final_of_original T HT f Hf a Ha Hs). Qed.

(** * Maps *)

(* KEY FACT: updating a key keeps every key storable in place, hence the key sequence, the first key
   and the successor of EVERY key — the next key remembered by the iterator before the update is
   still the successor afterwards *)
Theorem C13_update_keeps_key_sequence : forall d k v,
  map fst (d_replace d k v) = map fst d /\
  option_map fst (hd_error (d_replace d k v)) = option_map fst (hd_error d) /\
  forall k', d_next (d_replace d k v) k' = d_next d k'.
Proof.
  intros d k v. split; [apply MapMut.d_replace_fst|]. split; [apply MapMut.first_replace|].
  intros k'. apply MapMut.d_next_replace.
Qed.

(* SLAB-TREE level: from ANY map satisfying the invariant [minv] of C02, for every legal slab size,
   digest assignment (any collisions), number of digest levels >= 1, collision limit, and EVERY
   decision f whose new values fit the inline limit together with their key:
   - the yielded entries are exactly the ORIGINAL entries (keys AND original values) in canonical
     order, each key once;
   - the final dictionary is the original with the chosen values replaced ([map] form and as the
     fold of [d_replace] over the visited entries);
   - invariant, root identifier and count preserved. *)
Theorem C13_map_mutation_during_iteration :
  forall T dg levels limit ks (f : kv -> kv -> option kv) t,
    valid_T T -> (1 <= levels)%nat -> minv dg levels T ks t ->
    let c := set_threshold T in
    (forall k v v', In (k, v) (to_list_tree (t_root t)) -> f k v = Some v' -> ssize k v' <= cinl_melem c) ->
    let l := to_list_tree (t_root t) in
    let r := MapMut.mtiter_mut dg levels T limit f (S (length l)) t (first_key_tree (t_root t)) in
    snd r = l /\ map fst (snd r) = map fst l /\ NoDup (dkeys l) /\
    to_list_tree (t_root (fst r)) = map (MapMut.upd f) l /\
    to_list_tree (t_root (fst r)) = MapMut.fold_upd f l l /\
    minv dg levels T ks (fst r) /\ t_rootid (fst r) = t_rootid t /\ t_count (fst r) = t_count t.
Proof.
  intros T dg levels limit ks f t HT Hlv Hi c Hf.
  exact (MapMut.map_mutation_during_iteration_tree dg levels T HT Hlv limit ks f t Hi Hf).
Qed.

(* ELEMENT level (the one logical hkeyElements: nested collision groups, inline / external), for any
   inline limit and collision limit and ANY decision f (no size condition is needed here: an update
   of a present key is always accepted, C12_updates_accepted) *)
Theorem C13_map_mutation_during_iteration_elems :
  forall dg levels max_inline_elem limit (f : kv -> kv -> option kv) s,
    (1 <= levels)%nat -> mwf dg levels s ->
    let l := to_list (m_root s) in
    let r := MapMut.miter_mut dg levels max_inline_elem limit f (S (length l)) s (first_key (m_root s)) in
    snd r = l /\ map fst (snd r) = map fst l /\ NoDup (dkeys l) /\
    to_list (m_root (fst r)) = map (MapMut.upd f) l /\
    to_list (m_root (fst r)) = MapMut.fold_upd f l l /\
    mwf dg levels (fst r).
Proof.
  intros dg levels mi lim f s Hlv Hs.
  exact (MapMut.map_mutation_during_iteration_elems dg levels mi lim f Hlv s Hs).
Qed.

(** * Non-vacuity *)

(* ARRAY, T = 256: six 60-byte elements in the root data slab (365 bytes).  The overwrite of
   position 1 with a 117-byte element (during step 2 of the iteration) makes the root 422 > 384
   bytes: it is split into two leaves under a new index root; position 4 is then overwritten with a
   value stored in its own slab.  All six original elements are yielded, once, in order. *)
Definition ex_arr : arr :=
  fst (a_run (set_threshold 256) (fst (arr_init 1 7))
             (map (fun i => OAppend (mkelem (Z.of_nat i) 60 0)) (seq 1 6))).
Definition ex_af (i : N) (e : elem) : option elem :=
  if i =? 1 then Some (mkelem 100 117 0) else if i =? 4 then Some (mkelem 101 20 1) else None.

Example C13_array_mutation_example :
  let c := set_threshold 256 in
  awfl c ex_arr /\
  (forall i e e', ex_af i e = Some e' -> ArrayInv.elem_ok c e' /\ strip e' = e') /\
  ArrayTree.is_data (a_root ex_arr) = true /\
  ArrayTree.is_data (a_root (fst (ArrMut.iter_mut_from c ex_af 1 0 ex_arr))) = true /\
  ArrayTree.is_data (a_root (fst (ArrMut.iter_mut_from c ex_af 2 0 ex_arr))) = false /\     (* split in step 2 *)
  map e_id (snd (ArrMut.iter_mut c ex_arr ex_af)) = [1; 2; 3; 4; 5; 6]%Z /\
  map e_id (ArrayTree.to_list (a_root (fst (ArrMut.iter_mut c ex_arr ex_af)))) = [1; 100; 3; 4; 101; 6]%Z /\
  map e_ext (ArrayTree.to_list (a_root (fst (ArrMut.iter_mut c ex_arr ex_af)))) = [0; 0; 0; 0; 4; 0].
Proof.
  cbv zeta. split; [|split].
  - unfold ex_arr. apply (a_run_ok 256); [vm_compute; split; discriminate|apply arr_init_ok; vm_compute; split; discriminate|].
    apply Forall_forall. intros o Ho. apply in_map_iff in Ho. destruct Ho as (i & <- & _).
    cbn. repeat split; vm_compute; congruence.
  - intros i e e'. unfold ex_af. destruct (i =? 1); [|destruct (i =? 4)]; intros [= <-];
      repeat split; vm_compute; congruence.
  - vm_compute. repeat split; reflexivity.
Qed.

(* MAP, element level (2 digest levels, inline limit 80): keys 11, 21, 28 share the first-level
   digest 0 (21 and 28 also the second: a nested list-mode group), in ONE INLINE group; the
   iteration overwrites the value of key 21 (second entry) with a 40-byte value: the group (96
   bytes) moves to its own slab while the iterator stands inside it; key 28 — the remembered next
   key, now in the external slab — and all later keys are still yielded once. *)
Definition ex_dg (k : N) (l : nat) : N := match l with 0%nat => k / 100 | 1%nat => (k / 10) mod 10 | _ => 0 end.
Definition ex_ms : mstate :=
  let K i := mkkv i 3 in
  fst (m_run ex_dg 2 80 4 (m_init 10)
         [MapElems.OSet (K 131) (mkkv 1 5); MapElems.OSet (K 21) (mkkv 2 5); MapElems.OSet (K 205) (mkkv 3 5);
          MapElems.OSet (K 11) (mkkv 4 5); MapElems.OSet (K 28) (mkkv 5 5)]).
Definition ex_mf (k v : kv) : option kv :=
  if kid k =? 21 then Some (mkkv 900 40) else if kid k =? 205 then Some (mkkv 901 2) else None.
Definition is_ext (e : melem) : bool := match e with EGroup (Some _) _ => true | _ => false end.

Example C13_map_mutation_example_elems :
  mwf ex_dg 2 ex_ms /\
  map is_ext (g_elems (m_root ex_ms)) = [false; false; false] /\
  map is_ext (g_elems (m_root (fst (MapMut.miter_mut ex_dg 2 80 4 ex_mf 1 ex_ms (first_key (m_root ex_ms)))))) = [false; false; false] /\
  map is_ext (g_elems (m_root (fst (MapMut.miter_mut ex_dg 2 80 4 ex_mf 2 ex_ms (first_key (m_root ex_ms)))))) = [true; false; false] /\
  let r := MapMut.miter_mut ex_dg 2 80 4 ex_mf 6 ex_ms (first_key (m_root ex_ms)) in
  map (fun p => (kid (fst p), kid (snd p))) (snd r) = [(11, 4); (21, 2); (28, 5); (131, 1); (205, 3)] /\
  map (fun p => (kid (fst p), kid (snd p))) (to_list (m_root (fst r))) = [(11, 4); (21, 900); (28, 5); (131, 1); (205, 901)].
Proof.
  split; [|vm_compute; repeat split; reflexivity].
  apply m_run_refines_all; [repeat constructor|apply ewf_init; repeat constructor].
Qed.

(* MAP, slab tree, T = 256 (inline limit 107), 4 digest levels with heavy collisions: 15 keys over
   two data slabs, the first-level groups {2,15} and {1,14} inline.  Odd keys get a 60-byte value,
   other multiples of 3 a 4-byte value.  During the iteration a data slab SPLITS (after the 5th
   entry: 2 -> 3 data slabs) and both groups move to their own slab (after the 10th and the 13th
   entry).  The 15 original entries are yielded once, in canonical order. *)
Definition ex_dg2 (k : N) (l : nat) : N :=
  match l with O => (37 * k) mod 13 | 1%nat => k mod 3 | 2%nat => k mod 2 | _ => 0 end.
Definition ex_ks (_ : N) : N := 9.
Definition ex_sets (a n : nat) : list mop :=
  map (fun i => MapElems.OSet (mkkv (N.of_nat i) 9) (mkkv (N.of_nat i + 1000) 20)) (seq a n).
Definition ex_mt : mtree :=
  let c := set_threshold 256 in fst (mt_run ex_dg2 4 (cinl_melem c) 4 c (fst (mt_init 1)) (ex_sets 1 15)).
Definition ex_tf (k v : kv) : option kv :=
  if kid k mod 2 =? 1 then Some (mkkv (kid v + 1000) 60)
  else if kid k mod 3 =? 0 then Some (mkkv (kid v + 2000) 4) else None.
Definition nslabs (t : mtree) : nat := match t_root t with MM _ _ cs => length cs | MD _ _ _ => 1%nat end.
Definition next_cnt (t : mtree) : nat := length (filter is_ext (g_elems (elems_of_tree (t_root t)))).

Lemma ex_mt_minv : minv ex_dg2 4 256 ex_ks ex_mt.
Proof.
  assert (HT : valid_T 256) by (vm_compute; split; discriminate).
  assert (Hops : Forall (mop_ok 256 ex_ks) (ex_sets 1 15)).
  { unfold ex_sets. rewrite Forall_map. rewrite Forall_forall. intros i _.
    split; [reflexivity|]. vm_compute. discriminate. }
  pose proof (mt_run_from_empty ex_dg2 4 256 HT ltac:(repeat constructor) 4 ex_ks 1 (ex_sets 1 15) Hops) as H.
  unfold ex_mt. cbv zeta.
  destruct (mt_run ex_dg2 4 (cinl_melem (set_threshold 256)) 4 (set_threshold 256) (fst (mt_init 1)) (ex_sets 1 15)) as [t outs].
  destruct (d_run ex_dg2 4 4 [] (ex_sets 1 15)) as [d outs']. cbn [fst]. apply H.
Qed.

Example C13_map_mutation_example_tree :
  let c := set_threshold 256 in
  minv ex_dg2 4 256 ex_ks ex_mt /\
  (forall k v v', In (k, v) (to_list_tree (t_root ex_mt)) -> ex_tf k v = Some v' -> ssize k v' <= cinl_melem c) /\
  let it n := fst (MapMut.mtiter_mut ex_dg2 4 256 4 ex_tf n ex_mt (first_key_tree (t_root ex_mt))) in
  (nslabs ex_mt, next_cnt ex_mt) = (2, 0)%nat /\
  (nslabs (it 4%nat), next_cnt (it 4%nat)) = (2, 0)%nat /\
  (nslabs (it 5%nat), next_cnt (it 5%nat)) = (3, 0)%nat /\          (* a data slab split *)
  (nslabs (it 10%nat), next_cnt (it 10%nat)) = (3, 1)%nat /\        (* a group spilled *)
  (nslabs (it 16%nat), next_cnt (it 16%nat)) = (3, 2)%nat /\
  map (fun p => kid (fst p)) (snd (MapMut.mtiter_mut ex_dg2 4 256 4 ex_tf 16 ex_mt (first_key_tree (t_root ex_mt))))
    = [13; 6; 12; 5; 11; 4; 10; 3; 9; 15; 2; 8; 1; 14; 7] /\
  map (fun p => kid (snd p)) (to_list_tree (t_root (it 16%nat)))
    = [2013; 3006; 3012; 2005; 2011; 1004; 1010; 2003; 2009; 2015; 1002; 1008; 2001; 1014; 2007].
Proof.
  cbv zeta. split; [exact ex_mt_minv|]. split; [|vm_compute; repeat split; reflexivity].
  intros k v v' Hin Hg.
  assert (Hk : ksz k = 9).
  { destruct ex_mt_minv as (_ & _ & Hp). unfold pairs_ok in Hp. rewrite Forall_forall in Hp.
    exact (proj1 (Hp _ Hin)). }
  unfold ex_tf in Hg. unfold ssize. rewrite Hk.
  destruct (kid k mod 2 =? 1); [|destruct (kid k mod 3 =? 0)]; inversion Hg; subst; cbn [ksz];
    vm_compute; discriminate.
Qed.

Print Assumptions C13_array_mutation_during_iteration.
Print Assumptions C13_array_mutation_pointwise.
Print Assumptions C13_array_mutation_final_of_original.
Print Assumptions C13_update_keeps_key_sequence.
Print Assumptions C13_map_mutation_during_iteration.
Print Assumptions C13_map_mutation_during_iteration_elems.
Print Assumptions C13_array_mutation_example.
Print Assumptions C13_map_mutation_example_elems.
Print Assumptions C13_map_mutation_example_tree.
