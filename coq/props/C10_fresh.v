(* C10 (larger history language) — the forest invariant also holds in every state reachable by
   histories that RE-OBTAIN wrappers: reopen after commit (NewArrayWithRootID / NewMapWithRootID on
   a new storage object, then parent.Get for every child, top-down) and adoption of the value
   yielded by a mutable iterator.  This closes the gap left by C10_reachable ([op_ok (OFresh _)] is
   [False] there).
   Model: theories/Nested.v + theories/NestedFresh.v; proofs: proofs/NestedFresh_proofs.v.

   [HRehandle v par] is the op sequence the harness emits (nested_cmd.go: reopen, iterate/adopt,
   rehandleChildren; opcodes 12 FRESH and 8 GET of the `nested` engine):
       OFresh v; (OGet p loc if v sits in slot loc of p); for every child slot of v, in order:
       OFresh ch; OGet v loc; recursively the children of ch
   computed by [rehandle_ops] and executed by [run].  [OFresh] alone is NOT added as an operation:
   it breaks the invariant (C10_fresh_alone_breaks: a new wrapper of an attached container has no
   callback; a mutation through it is a lost update) — in Go this is a violation of the handle
   discipline (DESIGN 2.5), which the harness never commits.
   [reach' n g]: the forests reachable from the empty one by [hop]s: every operation of [reach]
   ([HOp o], [op_ok]) and [HRehandle v par] ([hop_ok]: v exists; par = the slot holding v, or
   None for a container that sits in no slot). *)
From Coq Require Import ZArith NArith List Bool Lia.
From AtreeModel Require Import Nested NestedErr NestedFresh.
From AtreeProofs Require Import Nested_proofs Nested_examples NestedFresh_proofs NestedFresh_examples.
Import ListNotations.
Local Open Scope N_scope.

(* re-obtaining the wrappers of the subtree of v never fails and preserves the forest invariant;
   the forest afterwards is the forest before: same write log, and for every container the same
   kind, elements, inline flag, cached size and callback (a stale callback of a container that sits
   in no slot is dropped), and the same index map as a finite map (only the order of the
   association list may differ, C10_fresh_example) *)
Theorem C10_rehandle_preserves : forall n g f v par,
  fwf n g f -> hop_ok n f (HRehandle v par) ->
  exists f', hstep n g f (HRehandle v par) = (f', true) /\ fwf n g f' /\ forest_equiv f f'.
Proof. exact rehandle_fwf. Qed.

(* every step of the larger language succeeds and preserves the invariant *)
Theorem C10_hstep_preserves : forall n g f h f' ok,
  fwf n g f -> hop_ok n f h -> hstep n g f h = (f', ok) -> ok = true /\ fwf n g f'.
Proof. exact hstep_fwf. Qed.

(* the invariant holds in every state reachable by interleaved parent / child operations and
   re-obtained wrappers *)
Theorem C10_reachable_fresh : forall n g f, (0 < n)%nat -> reach' n g f -> fwf n g f.
Proof. exact reach'_fwf. Qed.

(* [reach'] extends [reach] *)
Theorem C10_reach_included : forall n g f, reach n g f -> reach' n g f.
Proof. exact reach_reach'. Qed.

(* hence C10_visible_and_persisted holds in every such state, in particular through a wrapper
   obtained after reopen or from an iterator *)
Theorem C10_visible_and_persisted_fresh : forall n g f h o f' ok p i s w,
  (0 < n)%nat -> reach' n g f -> edge f p i s h w -> op_ok n f (cop_nop h o) -> child_step n g f h o = (f', ok) ->
  ok = true /\
  (exists c c', fget f h = Some c /\ fget f' h = Some c' /\ c_slots c' = slots_after o (c_slots c)) /\
  edge f' p i s h w /\
  fwf n g f' /\
  (forall k s0, enclosing k f' h = Some s0 -> dirty f' s0 = Some true).
Proof.
  intros n g f h o f' ok p i s w Hn Hr. apply C10_visible_and_persisted_l. now apply reach'_fwf.
Qed.

(* C18 over the larger language: a history that goes on after errors and the same history without
   its rejected requests end in the same forest with the same answers to the accepted requests *)
Theorem C18_nested_history_fresh : forall n g hs f, fwf n g f -> hhist_pre n g f hs ->
  fst (hrun_all n g f (hkeep_accepted n g f hs)) = fst (hrun_all n g f hs) /\
  snd (hrun_all n g f (hkeep_accepted n g f hs)) = filter (fun b => b) (snd (hrun_all n g f hs)) /\
  fwf n g (fst (hrun_all n g f hs)).
Proof. exact nested_history_fresh. Qed.

(* why OFresh is not an operation by itself *)
Theorem C10_fresh_alone_breaks :
  exists f v, reach 8 cfg1024 f /\ attached f v /\
    let f1 := fst (step 8 cfg1024 f (OFresh v)) in
    ~ fwf 8 cfg1024 f1 /\
    let f' := fst (child_step 8 cfg1024 f1 v (CInsert 5 (sc 15))) in
    option_map (fun c => length (c_slots c)) (fget f' v) = Some 6%nat /\
    option_map c_csize (fget f' 1) = Some 35 /\ dirty f' 1 = None /\ dirty f' v = None /\
    option_map (fun c => data_size cfg1024 f' (c_kind c) (c_slots c)) (fget f' 1) = Some 38.
Proof.
  exists f0, 2. split; [exact reach_f0|]. split; [exists 1, 0%nat, (mkSlot 0 0 (NChild 2 0)), 0; exact edge_f0|].
  exact fresh_alone.
Qed.

(* non-vacuity: reachable forests satisfying the hypotheses — reopen of fx (array 1 over array 2
   and map 3): five ops, succeeds, the representation of the index map of array 1 changes; the
   child of f0 re-obtained from an iterator *)
Example C10_fresh_example :
  reach' 8 cfg1024 fx /\ hop_ok 8 fx (HRehandle 1 None) /\
  rehandle_ops 8 fx 1 None = [OFresh 1; OFresh 2; OGet 1 0; OFresh 3; OGet 1 1] /\
  snd (hstep 8 cfg1024 fx (HRehandle 1 None)) = true /\
  option_map c_idx (fget fx 1) = Some [(3, 1%nat); (2, 0%nat)] /\
  option_map c_idx (fget (fst (hstep 8 cfg1024 fx (HRehandle 1 None))) 1) = Some [(2, 0%nat); (3, 1%nat)] /\
  fst (hstep 8 cfg1024 fx (HRehandle 1 None)) <> fx /\
  reach' 8 cfg1024 f0 /\ hop_ok 8 f0 (HRehandle 2 (Some (1, 0))) /\
  hstep 8 cfg1024 f0 (HRehandle 2 (Some (1, 0))) = (f0, true).
Proof.
  split; [apply reach_reach', reach_fx|]. split; [exact hop_ok_fx_root|].
  destruct rehandle_fx as (A & B & C & D & E). repeat (split; [assumption|]).
  split; [apply reach_reach', reach_f0|]. split; [exact hop_ok_f0_child|]. exact (proj2 rehandle_f0).
Qed.

Print Assumptions C10_rehandle_preserves.
Print Assumptions C10_hstep_preserves.
Print Assumptions C10_reachable_fresh.
Print Assumptions C10_reach_included.
Print Assumptions C10_visible_and_persisted_fresh.
Print Assumptions C18_nested_history_fresh.
Print Assumptions C10_fresh_alone_breaks.
Print Assumptions C10_fresh_example.
