(* C17 — Bulk build, copy and byte conversion give equivalent, valid, independent values.
   Property theorems only; each is closed by [exact] of a lemma of proofs/Batch_proofs.v.
   Model: theories/Batch.v (NewArrayFromBatchData, CopyNonRefSimple, ByteSliceToByteArray over the
   slab-tree model ArrayTree.v).  "Valid exactly as if built by individual operations" is stated as
   the SAME invariants [awf] / [awf_full] (ArrayInv.v) that the operation-by-operation proofs preserve.
   The map side (NewMapFromBatchData, map copy) is covered by the Go oracles of `harness batch` only. *)
From Coq Require Import ZArith NArith List Bool Lia.
From AtreeGen Require Import Consts.
From AtreeModel Require Import Settings ArrayTree ArrayInv Batch.
From AtreeProofs Require Import Batch_proofs.
Import ListNotations.
Local Open Scope N_scope.

(* the construction never fails (no merge/lend error, the level loop's fuel suffices) *)
Theorem C17_array_batch_ok : forall T alloc ti es, valid_T T -> let c := set_threshold T in
  Forall (elem_ok c) es ->
  array_from_batch_res c alloc ti es = Ok (array_from_batch c alloc ti es).
Proof. exact c17_array_batch_ok. Qed.

(* content: the stream, in order; type information; count *)
Theorem C17_array_batch_content : forall T alloc ti es, valid_T T -> let c := set_threshold T in
  Forall (elem_ok c) es ->
  let a := fst (array_from_batch c alloc ti es) in
  abs_list (a_root a) = map strip es /\ a_type a = ti /\ a_count a = N.of_nat (length es).
Proof. exact c17_array_batch_content. Qed.

(* structure: the array invariant (every leaf and index slab inside the size band, all cached sizes,
   counts, header copies and cumulative counts consistent, root index slab with >= 2 children) *)
Theorem C17_array_batch_wf : forall T alloc ti es, valid_T T -> let c := set_threshold T in
  Forall (elem_ok c) es -> N.of_nat (length es) <= max_count ->
  awf c (fst (array_from_batch c alloc ti es)).
Proof. exact c17_array_batch_wf. Qed.

(* ... together with consistent sibling links and pairwise distinct identifiers *)
Theorem C17_array_batch_full : forall T alloc ti es, valid_T T -> let c := set_threshold T in
  Forall (elem_ok c) es -> N.of_nat (length es) <= max_count ->
  awf_full c (fst (array_from_batch c alloc ti es)).
Proof. exact c17_array_batch_full. Qed.

(* every slab of the result (tree slabs and external value slabs) carries an identifier allocated by
   the call itself; they are pairwise distinct *)
Theorem C17_array_batch_fresh : forall T alloc ti es, valid_T T -> let c := set_threshold T in
  Forall (elem_ok c) es ->
  let a := fst (array_from_batch c alloc ti es) in
  Forall (fun i => alloc < i /\ i <= a_alloc a) (slab_ids (a_root a)) /\ NoDup (slab_ids (a_root a)) /\ alloc < a_alloc a.
Proof. exact c17_array_batch_fresh. Qed.

(* the build is framed: it issues only Store calls, all of them to identifiers it allocated itself;
   in particular it never writes to or removes a slab of a container that existed before *)
Theorem C17_array_batch_frame : forall T alloc ti es, valid_T T -> let c := set_threshold T in
  Forall (elem_ok c) es ->
  let '(a, lg) := array_from_batch c alloc ti es in
  Forall (fun w => exists i, w = WStore i /\ alloc < i /\ i <= a_alloc a) lg.
Proof. exact c17_array_batch_frame. Qed.

Theorem C17_batch_leaves_others : forall T alloc ti es (old : arr), valid_T T -> let c := set_threshold T in
  Forall (elem_ok c) es -> ids_ok old -> a_alloc old <= alloc ->
  Forall (fun w => match w with WStore i => ~ In i (slab_ids (a_root old)) | WRemove _ => False end)
         (snd (array_from_batch c alloc ti es)).
Proof. exact c17_batch_leaves_others. Qed.

(* copy: offered exactly for a single data slab whose elements are all plain non-reference values;
   then it succeeds, with equal content, a valid standalone (not inlined: root-prefix size) root slab
   under a fresh identifier, sharing no identifier with the source; otherwise it is refused *)
Theorem C17_copy : forall T pl root inlined alloc ti, valid_T T -> let c := set_threshold T in
  copy_src_ok c root inlined ->
  (can_copy pl root = match root with AD _ nx es => (nx =? 0) && forallb (elem_plain pl) es | AM _ _ _ _ => false end) /\
  (can_copy pl root = true ->
     exists a, copy_array pl root inlined alloc ti = (inl (a, [WStore (alloc + 1)]), alloc + 1) /\
       to_list (a_root a) = to_list root /\ wf_root c (a_root a) /\ a_type a = ti /\ a_alloc a = alloc + 1 /\
       slab_ids (a_root a) = [alloc + 1] /\
       (Forall (fun i => i <= alloc) (slab_ids root) -> forall i, In i (slab_ids (a_root a)) -> ~ In i (slab_ids root))) /\
  (can_copy pl root = false -> exists e al, copy_array pl root inlined alloc ti = (inr e, al)).
Proof. exact c17_copy. Qed.

(* byte slice -> byte array -> byte slice is the identity, and the array is valid, with fresh identifiers
   (fast single-slab path and batch path alike) *)
Theorem C17_bytes : forall T bsz is_byte alloc ti est bs, valid_T T -> let c := set_threshold T in
  (forall b, 0 < bsz b /\ bsz b <= cinl_arr c) -> (forall b, is_byte (byte_elem bsz b) = true) ->
  N.of_nat (length bs) <= max_count ->
  let a := fst (of_bytes c bsz alloc ti est bs) in
  to_bytes is_byte a = Some bs /\ awf c a /\
  Forall (fun i => alloc < i /\ i <= a_alloc a) (slab_ids (a_root a)) /\ NoDup (slab_ids (a_root a)).
Proof. exact c17_bytes. Qed.

(* SUPERSEDED by props/C17_independent.v (full independence statement); kept for reference.  Full statement wanted: for every operation o, the slabs of the source are unchanged by
   [a_step] on the result and vice versa (and by disposal).  Proved: the build itself is framed
   (C17_array_batch_frame, C17_batch_leaves_others) and, here, the identifier sets are
   disjoint (the result's identifiers are all above the allocator value at the time of the call, every
   container that existed before has identifiers at most that value, [ids_ok]).  Missing: the frame
   lemma "a_step stores/removes only identifiers in slab_ids of its own tree before or after the step,
   or allocated during the step", which belongs to proofs/ArrayTree_proofs.v (operation proofs, not
   part of this file).  The Go oracles of `harness batch` check the full statement on every run. *)
Theorem C17_independent_partial : forall T alloc ti es (old : arr), valid_T T -> let c := set_threshold T in
  Forall (elem_ok c) es -> ids_ok old -> a_alloc old <= alloc ->
  let a := fst (array_from_batch c alloc ti es) in
  forall i, In i (slab_ids (a_root a)) -> ~ In i (slab_ids (a_root old)).
Proof. exact c17_independent_partial. Qed.

(** Non-vacuity and the branches of the construction, by evaluation of the model. *)

Definition ex_c := set_threshold 256.
Definition ex_stream (n : nat) : list elem := repeat (mkelem 1 100 0) n.

Example ex_hyps : valid_T 256 /\ Forall (elem_ok ex_c) (ex_stream 200) /\ Forall (elem_ok ex_c) [mkelem 1 100 0; mkelem 2 40 0; mkelem 3 100 0; mkelem 4 3 0].
Proof.
  split; [unfold valid_T; vm_compute; split; discriminate|]. split.
  - apply Forall_forall. intros e He. apply repeat_spec in He. subst e. vm_compute. split; [reflexivity|discriminate].
  - repeat constructor; vm_compute; try reflexivity; discriminate.
Qed.

(* 200 elements of 100 bytes at slab size 256: an index root over 67 leaves in three index slabs *)
Example ex_two_levels :
  let a := fst (array_from_batch ex_c 7 42 (ex_stream 200)) in
  wf_rootb ex_c (a_root a) = true /\ length (to_list (a_root a)) = 200%nat /\
  (match a_root a with AM _ _ _ cs => length cs | _ => 0%nat end) = 3%nat /\ a_alloc a = 78.
Proof. vm_compute. repeat split. Qed.

(* tail rebalance by lending: 4 elements -> leaves of 2 + 2 (instead of 3 + 1) *)
Example ex_tail_lend :
  match a_root (fst (array_from_batch ex_c 0 42 (ex_stream 4))) with
  | AM _ [h1; h2] _ _ => (h_count h1, h_count h2) = (2, 2)
  | _ => False
  end.
Proof. vm_compute. reflexivity. Qed.

(* tail merge: the left sibling cannot lend -> a single root data slab; identifier 2 stays unused *)
Example ex_tail_merge :
  let '(a, lg) := array_from_batch ex_c 0 42 [mkelem 1 100 0; mkelem 2 40 0; mkelem 3 100 0; mkelem 4 3 0] in
  a_root a = AD (mkhdr 1 248 4) 0 [mkelem 1 100 0; mkelem 2 40 0; mkelem 3 100 0; mkelem 4 3 0] /\ a_alloc a = 2 /\ lg = [WStore 1].
Proof. vm_compute. repeat split. Qed.

(* a copyable inlined source and a refused one *)
Example ex_copy :
  let src := AD (mkhdr 9 (17 + 6) 2) 0 [mkelem 1 3 0; mkelem 2 3 0] in
  copy_src_ok ex_c src true /\ can_copy (fun _ => true) src = true /\
  fst (copy_array (fun _ => true) src true 20 42) = inl (mkarr (AD (mkhdr 21 (5 + 6) 2) 0 [mkelem 1 3 0; mkelem 2 3 0]) 21 42, [WStore 21]) /\
  can_copy (fun _ => true) (AD (mkhdr 9 (5 + 22) 2) 0 [mkelem 1 3 0; mkelem 2 19 12]) = false.
Proof.
  cbn zeta. split; [|vm_compute; repeat split].
  unfold copy_src_ok. eexists _, _. split; [reflexivity|]. repeat split; try (vm_compute; congruence).
  repeat constructor; vm_compute; congruence.
Qed.

Example ex_bytes :
  to_bytes (fun e => e_ext e =? 0) (fst (of_bytes ex_c uint8_size 3 40 0 (repeat 200 150))) = Some (repeat 200 150).
Proof. vm_compute. reflexivity. Qed.

Print Assumptions C17_array_batch_ok.
Print Assumptions C17_array_batch_content.
Print Assumptions C17_array_batch_wf.
Print Assumptions C17_array_batch_full.
Print Assumptions C17_array_batch_fresh.
Print Assumptions C17_array_batch_frame.
Print Assumptions C17_batch_leaves_others.
Print Assumptions C17_copy.
Print Assumptions C17_bytes.
Print Assumptions C17_independent_partial.
