(* C05 (map side) — arithmetic of map data slabs for EVERY legal slab size, and the first C02 link of
   the slab-tree model: Get through the index slabs answers what the element level answers on the
   one logical hkeyElements of the tree.

   Preservation of the tree invariant [mtwf] by Set / Remove (C05_map_wf_preserved, and with it the
   full C02 statement over the tree) is proved in C05_maptree.v / C02.v (this header predates those files); the tree model is also validated in lock step
   against the Go code (harness "maptree", engine chk_maptree) together with the executable
   invariant checker MapTreeInv.mtwfb. *)
From Coq Require Import ZArith NArith List Bool.
From AtreeGen Require Import Consts.
From AtreeModel Require Import Settings MapElems MapElemsInv MapTree MapTreeInv.
From AtreeProofs Require Import Settings_proofs MapElems_proofs MapTree_proofs.
Import ListNotations.
Local Open Scope N_scope.

(* Emax c = maxInlineMapElementSize + digestSize: what a level-0 element costs at most inside an
   hkeyElements (single element: by the key/value limits; inline group: spilled otherwise;
   external group: 21 + 8).  Nsum = sum of a list of costs. *)

(* A map data slab above the maximum — with the ordinary prefix or the small root prefix — holds at
   least two elements (so Split never fails for want of elements). *)
Theorem C05_map_full_has_two : forall T zs pfx,
  valid_T T -> let c := set_threshold T in
  Forall (fun z => z <= Emax c) zs -> pfx <= P ->
  pfx + HP + Nsum zs > cmax c -> (2 <= length zs)%nat.
Proof. exact map_full_has_two. Qed.

(* hkeyElements.Split: a data slab (ordinary, or the root with its smaller prefix) that exceeds the
   maximum by at most one element cost splits into two ordinary data slabs, both inside [min, max]
   and both non-empty; the left size is the sum of the first lc costs. *)
Theorem C05_map_split_both_halves_in_band : forall T zs pfx,
  valid_T T -> let c := set_threshold T in
  Forall (fun z => 0 < z <= Emax c) zs ->
  pfx = P \/ pfx = RP ->
  let D := Nsum zs in
  pfx + HP + D > cmax c -> pfx + HP + D <= cmax c + Emax c ->
  let '(lc, ls) := split_point zs D ((D + 1) / 2) 0 0 in
  cmin c <= P + HP + ls <= cmax c /\ cmin c <= P + HP + (D - ls) <= cmax c /\
  (0 < lc < length zs)%nat /\ ls = Nsum (firstn lc zs).
Proof. exact map_split_both_halves_in_band. Qed.

(* hkeyElements.CanLendToRight / LendToRight in lock step: when the left sibling (costs zs, inside
   the band) says it can lend what the underflowing right slab (data size sR) needs, LendToRight
   leaves both slabs inside [min, max].  The arguments are exactly those the Go code passes. *)
Theorem C05_map_lend_keeps_bands : forall T zs sR,
  valid_T T -> let c := set_threshold T in
  Forall (fun z => 0 < z <= Emax c) zs ->
  let sL := Nsum zs in
  P + HP + sL <= cmax c -> P + HP + sR < cmin c ->
  e_can_lend (rev zs) (HP + sL) (cmin c - P) (cmin c - (P + HP + sR)) = true ->
  let size := (HP + sL) + (HP + sR) - HP * 2 in
  let '(_, ls) := lend_loop (rev zs) size ((size + 1) / 2) (cmin c - P - HP) (length zs) (HP + sL - HP) in
  cmin c <= P + HP + ls <= cmax c /\ cmin c <= P + HP + (size - ls) <= cmax c.
Proof. exact map_lend_keeps_bands. Qed.

(* "merge only when no sibling can lend": if the sibling (inside the band; costs in the order its
   CanLend loop walks them) cannot lend, the merged data slab does not exceed the maximum. *)
Theorem C05_map_merge_le_max : forall T zs_walk sR,
  valid_T T -> let c := set_threshold T in
  Forall (fun z => 0 < z <= Emax c) zs_walk ->
  let sL := Nsum zs_walk in
  cmin c <= P + HP + sL -> P + HP + sL <= cmax c -> P + HP + sR < cmin c ->
  e_can_lend zs_walk (HP + sL) (cmin c - P) (cmin c - (P + HP + sR)) = false ->
  P + HP + (sL + sR) <= cmax c.
Proof. exact map_merge_le_max. Qed.

(* Index slabs (MapMetaDataSlab), by header count: n headers cost PM + n * 18 bytes.
   Split of a slab at most one header over the maximum: ceil(n/2) / floor(n/2), both in the band. *)
Theorem C05_map_index_split_in_band : forall T n,
  valid_T T -> let c := set_threshold T in
  PM + n * HS > cmax c -> PM + n * HS <= cmax c + HS ->
  let lc := (n + 1) / 2 in
  2 <= n /\ cmin c <= PM + lc * HS <= cmax c /\ cmin c <= PM + n * HS - lc * HS <= cmax c.
Proof. exact map_index_split_in_band. Qed.

(* CanLendToLeft/Right said yes: the even redistribution of LendToRight / BorrowFromRight leaves both
   index slabs inside the band *)
Theorem C05_map_index_rebalance_in_band : forall T n1 n2 id f,
  valid_T T -> let c := set_threshold T in
  PM + n1 * HS <= cmax c -> PM + n2 * HS < cmin c ->
  m_can_lend c (mkmhdr id (PM + n1 * HS) f) (cmin c - (PM + n2 * HS)) = true ->
  let lc := (n1 + n2) / 2 in
  cmin c <= PM + lc * HS <= cmax c /\ cmin c <= PM + (n1 + n2 - lc) * HS <= cmax c.
Proof. exact map_index_rebalance_in_band. Qed.

(* the sibling cannot lend: the merged index slab (size as MapMetaDataSlab.Merge computes it) fits *)
Theorem C05_map_index_merge_le_max : forall T n1 n2 id f,
  valid_T T -> let c := set_threshold T in
  cmin c <= PM + n1 * HS -> PM + n1 * HS <= cmax c -> PM + n2 * HS < cmin c ->
  m_can_lend c (mkmhdr id (PM + n1 * HS) f) (cmin c - (PM + n2 * HS)) = false ->
  (PM + n1 * HS) + (PM + n2 * HS - PM) <= cmax c.
Proof. exact map_index_merge_le_max. Qed.

(* Routing: under the tree invariant, Get / Has of the slab-tree model (binary search over the
   children's firstKeys, then the leaf's elements) answer exactly what the element-level model
   answers on [elems_of_tree] — for every digest assignment dg. *)
Theorem C02_map_tree_get_routes : forall dg levels mie limit c (t : mtree) k,
  (0 < levels)%nat -> P + HP < cmin c -> mtwf dg levels c t ->
  snd (fst (mt_step dg levels mie limit c t (OGet k))) = snd (fst (m_step dg levels mie limit (mstate_of_tree t) (OGet k))) /\
  snd (fst (mt_step dg levels mie limit c t (OHas k))) = snd (fst (m_step dg levels mie limit (mstate_of_tree t) (OHas k))).
Proof. exact mt_get_refines. Qed.

(* The executable checker that the trace engine evaluates on every compared tree dump accepts only
   states that satisfy the full invariant (well-formed tree, count, sibling links, identifiers). *)
Theorem C05_map_checker_sound : forall dg levels c t,
  mtwfb dg levels c t = true -> mtwf_full dg levels c t.
Proof. exact mtwfb_sound. Qed.

Theorem C05_map_min_above_prefix : forall T, valid_T T -> P + HP < cmin (set_threshold T).
Proof. exact valid_T_min. Qed.

(* ---------- the hypotheses are satisfiable ---------- *)

(* T = 256: Emax = 115, min 128, max 384; four elements 115,115,115,20 make a full slab (size 391) *)
Example C05_map_split_example :
  let c := set_threshold 256 in
  valid_T 256 /\ Forall (fun z => 0 < z <= Emax c) [115; 115; 115; 20] /\
  P + HP + Nsum [115; 115; 115; 20] > cmax c /\ P + HP + Nsum [115; 115; 115; 20] <= cmax c + Emax c /\
  split_point [115; 115; 115; 20] 365 183 0 0 = (2%nat, 230).
Proof. vm_compute. repeat split; try discriminate; repeat constructor; discriminate. Qed.

(* T = 256: a left sibling of size 256 (costs 60,60,60,50) lends to a right slab of size 106 *)
Example C05_map_lend_example :
  let c := set_threshold 256 in
  Forall (fun z => 0 < z <= Emax c) [60; 60; 60; 50] /\
  P + HP + Nsum [60; 60; 60; 50] <= cmax c /\ P + HP + 80 < cmin c /\
  e_can_lend (rev [60; 60; 60; 50]) (HP + 230) (cmin c - P) (cmin c - (P + HP + 80)) = true /\
  e_can_lend (rev [60; 50]) (HP + 110) (cmin c - P) (cmin c - (P + HP + 80)) = false.
Proof. vm_compute. repeat split; try discriminate; repeat constructor; discriminate. Qed.

(* T = 256: 21 headers (390 bytes) is one header over the maximum; 14 headers can lend to 5, 8 cannot *)
Example C05_map_index_example :
  let c := set_threshold 256 in
  PM + 21 * HS > cmax c /\ PM + 21 * HS <= cmax c + HS /\
  m_can_lend c (mkmhdr 1 (PM + 14 * HS) 0) (cmin c - (PM + 5 * HS)) = true /\
  m_can_lend c (mkmhdr 1 (PM + 8 * HS) 0) (cmin c - (PM + 5 * HS)) = false /\ cmin c <= PM + 8 * HS.
Proof. vm_compute. repeat split; discriminate. Qed.

(* a well-formed tree of height 2 at T = 256: an index root over two data slabs of two elements
   each; digests dg k 0 = 10 k *)
Definition ex_dg (k : N) (l : nat) : N := match l with O => 10 * k | _ => k end.
Definition ex_leaf (id nx a b : N) : mnode :=
  MD (mkmhdr id 142 (10 * a)) nx
     (HKey 0 [10 * a; 10 * b]
           [ESingle (mkkv a 9) (mkkv (100 + a) 40); ESingle (mkkv b 9) (mkkv (100 + b) 40)] 124).
Definition ex_tree : mtree :=
  mkmt (MM (mkmhdr 1 48 10) [mkmhdr 2 142 10; mkmhdr 3 142 30] [ex_leaf 2 3 1 2; ex_leaf 3 0 3 4]) 3 4.

Example C02_map_tree_example : mtwf ex_dg 4 (set_threshold 256) ex_tree /\ P + HP < cmin (set_threshold 256).
Proof.
  assert (L : forall id nx a b, a < b -> mwfn ex_dg 4 (set_threshold 256) 0 (ex_leaf id nx a b)).
  { intros id nx a b Hab. unfold ex_leaf. apply wf_MD.
    - apply wf_hkey.
      + repeat constructor.
      + repeat constructor. apply N.mul_lt_mono_pos_l; [reflexivity|assumption].
      + reflexivity.
      + constructor; [exact (wf_single ex_dg 4 0 (mkkv a 9) (mkkv (100 + a) 40))|].
        constructor; [exact (wf_single ex_dg 4 0 (mkkv b 9) (mkkv (100 + b) 40))|constructor].
    - repeat constructor; unfold elem_ok; vm_compute; discriminate.
    - reflexivity.
    - reflexivity. }
  split; [|vm_compute; reflexivity].
  split; [|reflexivity].
  apply wfr_MM with (d := 0%nat).
  - apply wf_MM.
    + constructor; [apply L; reflexivity|]. constructor; [apply L; reflexivity|constructor].
    + repeat constructor; vm_compute; discriminate.
    + reflexivity.
    + discriminate.
    + reflexivity.
    + reflexivity.
    + cbn [ranges_ok ex_leaf keys_of g_hkeys hdr_of mh_first].
      repeat split; repeat constructor; vm_compute; try reflexivity; discriminate.
  - cbn. repeat constructor.
  - vm_compute. discriminate.
Qed.

Example C02_map_tree_example_checker : mtwfb ex_dg 4 (set_threshold 256) ex_tree = true.
Proof. vm_compute. reflexivity. Qed.

(* on that tree key 3 (digest 30, second leaf) is found through the index slab, key 5 is not *)
Example C02_map_tree_example_get :
  snd (fst (mt_step ex_dg 4 107 255 (set_threshold 256) ex_tree (OGet 3))) = RVal (mkkv 103 40) /\
  snd (fst (mt_step ex_dg 4 107 255 (set_threshold 256) ex_tree (OGet 5))) = RErr EKeyNotFound.
Proof. vm_compute. split; reflexivity. Qed.

Print Assumptions C05_map_full_has_two.
Print Assumptions C05_map_split_both_halves_in_band.
Print Assumptions C05_map_lend_keeps_bands.
Print Assumptions C05_map_merge_le_max.
Print Assumptions C05_map_index_split_in_band.
Print Assumptions C05_map_index_rebalance_in_band.
Print Assumptions C05_map_index_merge_le_max.
Print Assumptions C02_map_tree_get_routes.
Print Assumptions C05_map_checker_sound.
Print Assumptions C05_map_min_above_prefix.
Print Assumptions C02_map_tree_example.
