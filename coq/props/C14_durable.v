(* C14 (container level) — "A ledger fault in the middle of a commit leaves the storage usable:
   the slabs that were written stay written, the others stay pending, reads keep returning the
   latest values, and a later successful commit makes everything durable."

   props/C14.v states this for the storage model alone (opaque slab values).  This file composes it
   with the array model (ArrayTree.v) and the map model (MapTree.v) through the representation
   invariant of C03_durable.v / C03_durable_map.v:

   [fop] / [mfop]   one item of a history: a container operation, or a commit ATTEMPT — any commit
                    step of the storage model, of either kind, with an arbitrary fault position:
                    [SFastCommit fail], [SNondetCommit order fail] ([fail = Some k]: the k-th ledger
                    call of the attempt returns an error; an order the Go code cannot produce is
                    refused and changes nothing); [tries_ok l]: the [FTry] items are commit steps
   [frun] / [mfrun] threads the container and the storage through such a history (every operation
                    issues its logged storeSlab / Remove calls)
   [final_ok s f]   f is a fault-free commit: [SFastCommit None], or [SNondetCommit order None]
                    with an order the Go code can produce in state s
   After a failed attempt the LEDGER is in general a mixture of old and new slabs (see the
   examples: a crash at that point does not give back the current container — nor is that
   claimed); what the theorems say is that the storage INSTANCE keeps representing the container
   exactly, and that the next successful commit repairs the ledger. *)
From stdpp Require Import gmap sorting.
From Coq Require Import ZArith NArith List Bool.
From AtreeModel Require Import Storage StorageSpec Settings ArrayTree ArrayInv Durable.
From AtreeProofs Require Import Storage_proofs Commit_proofs StorageProps_proofs Cache_proofs
  ArrayFrame_proofs Array_proofs Durable_proofs DurableFaults_proofs.
Local Open Scope N_scope.

(** * Arrays *)

(** after ANY history of array operations and commit attempts — in particular directly after a
    FAILED commit — the view of the storage instance under the array's address holds exactly the
    current array (every data / index slab with its exact content, every external element slab,
    nothing else but leftover external slabs), a reader going through the instance loads the tree
    after all operations, and every Retrieve returns the view *)
Theorem C14_array_failed_commit_keeps_view : forall K T, valid_T T -> forall addr rootid ti,
  addr <> 0 -> 0 < rootid -> forall s0, reachable s0 -> (forall id, view s0 (addr, id) = None) ->
  forall l, tries_ok l = true -> Forall (aop_ok (set_threshold T)) (faops_of l) ->
  let c := set_threshold T in
  let a0 := fst (arr_init rootid ti) in
  let a := fst (a_run c a0 (faops_of l)) in
  let st := frun K addr c a0 (fst (run s0 (init_sops K addr rootid ti))) l in
  fst st = a /\ coherent (snd st) /\
  holds_exactly K (view_map (snd st) addr) a /\
  (forall fuel, (length (tree_ids (a_root a)) < fuel)%nat ->
     load_arr fuel (decode_map K (view_map (snd st) addr)) rootid = Some (a_root a, a_type a)) /\
  (forall id, snd (step (snd st) (SRetrieve (addr, id))) = ORet (view_map (snd st) addr id)).
Proof. exact failed_commit_keeps_view. Qed.

(** ... and a final fault-free commit of either kind followed by a re-creation of the storage
    leaves nothing pending and a ledger that holds exactly the array after ALL operations of the
    history, whatever attempts failed in between and wherever they failed *)
Theorem C14_array_retry_durable : forall K T, valid_T T -> forall addr rootid ti,
  addr <> 0 -> 0 < rootid -> forall s0, reachable s0 -> (forall id, view s0 (addr, id) = None) ->
  forall l final, tries_ok l = true -> Forall (aop_ok (set_threshold T)) (faops_of l) ->
  let c := set_threshold T in
  let a0 := fst (arr_init rootid ti) in
  let a := fst (a_run c a0 (faops_of l)) in
  let st := frun K addr c a0 (fst (run s0 (init_sops K addr rootid ti))) l in
  final_ok (snd st) final ->
  let s2 := fst (step (snd st) final) in
  let s' := fst (step s2 SRecreate) in
  owned_delta_keys s2 = [] /\
  deltas s' = ∅ /\ cache s' = ∅ /\
  (forall id, view s' (addr, id) = base s' !! (addr, id)) /\
  holds_exactly K (ledger_map s' addr) a /\
  forall fuel, (length (tree_ids (a_root a)) < fuel)%nat ->
    load_arr fuel (decode_map K (ledger_map s' addr)) rootid = Some (a_root a, a_type a).
Proof. exact retry_durable. Qed.

(** any tail [cs] of commit attempts (either kind, any faults) followed by the fault-free commit
    leaves the ledger and the write set that ONE fault-free deterministic commit issued in their
    place would have left (no condition on the operations) *)
Theorem C14_array_retry_converges : forall K T addr rootid ti,
  addr <> 0 -> 0 < rootid -> forall s0, reachable s0 -> (forall id, view s0 (addr, id) = None) ->
  forall l cs final, tries_ok l = true -> forallb is_commit cs = true ->
  let c := set_threshold T in
  let a0 := fst (arr_init rootid ti) in
  let st := frun K addr c a0 (fst (run s0 (init_sops K addr rootid ti))) l in
  let st' := frun K addr c a0 (fst (run s0 (init_sops K addr rootid ti))) (l ++ map FTry cs) in
  final_ok (snd st') final ->
  fst st' = fst st /\ snd st' = fst (run (snd st) cs) /\
  base (fst (step (snd st') final)) = base (fst (step (snd st) (SFastCommit None))) /\
  deltas (fst (step (snd st') final)) = deltas (fst (step (snd st) (SFastCommit None))).
Proof. exact retry_converges_arr. Qed.

(** Non-vacuity (the history of C03_durable.v: T = 256, address 5, root 1, type info 7, concrete
    codec, empty storage): 17 operations (the tree has slabs 1..5), a deterministic commit whose 3rd
    ledger call fails (slabs 1 2 reach the ledger), 10 more operations (external element slab 6,
    rebalances, a merge releasing slab 3, type change), an order-relaxed commit whose 2nd call
    fails (the removal of register 3 is done, the store of slab 1 fails), a deterministic commit
    whose 1st call fails.  At that
    point: the attempts reported failure, the ledger is a mixture (a brand-new storage does NOT
    load the current array from it), the instance still loads the current array; a fault-free
    commit of either kind and a re-creation give the ledger of C03_durable.v. *)
Definition fx_c := set_threshold 256.
Definition fx_ops : list aop :=
  map (fun i => OAppend (mkelem (Z.of_nat i) 60 0)) (seq 1 16) ++
  [OSet 12 (mkelem 100 117 1); OInsert 1 (mkelem 101 30 0)] ++
  [ORemove 0; ORemove 0; ORemove 0; ORemove 0; ORemove 0; ORemove 0; ORemove 0; ORemove 0] ++
  [OSetType 9].
Definition fx_a0 := fst (arr_init 1 7).
Definition fx_a := fst (a_run fx_c fx_a0 fx_ops).
Definition fx_sc := fst (run st_init (init_sops g_codec 5 1 7)).
(* deletions first, then stores: an order the relaxed commit can produce with >= 2 modified slabs *)
Definition nd_order (s : st) : list sid :=
  List.filter (is_del s) (owned_delta_keys s) ++ List.filter (is_mod s) (owned_delta_keys s).
Definition fx_l1 := map FOp (firstn 17 fx_ops) ++ [FTry (SFastCommit (Some 2%nat))] ++ map FOp (skipn 17 fx_ops).
Definition fx_s1 := snd (frun g_codec 5 fx_c fx_a0 fx_sc fx_l1).
Definition fx_l := fx_l1 ++ [FTry (SNondetCommit (nd_order fx_s1) (Some 1%nat)); FTry (SFastCommit (Some 0%nat))].
Definition fx_st := frun g_codec 5 fx_c fx_a0 fx_sc fx_l.
Definition fx_plain := fst (run st_init (init_sops g_codec 5 1 7 ++ hist_sops g_codec 5 fx_c fx_a0 fx_ops)).

Example C14_durable_example :
  valid_T 256 /\ reachable st_init /\ (forall id, view st_init (5, id) = None) /\
  tries_ok fx_l = true /\ faops_of fx_l = fx_ops /\ Forall (aop_ok fx_c) fx_ops /\
  (* the attempts fail where they are told to *)
  order_ok fx_s1 (nd_order fx_s1) false = true /\
  (match snd (step fx_s1 (SNondetCommit (nd_order fx_s1) (Some 1%nat))) with
   | OCommit ok log => (ok, length log) | _ => (true, 0%nat) end) = (false, 2%nat) /\
  (* mixture in the ledger, pending slabs in the write set *)
  fst fx_st = fx_a /\ tree_ids (a_root fx_a) = [1; 2; 4; 5] /\
  map (fun id => match base (snd fx_st) !! (5, id) with Some _ => 1 | None => 0 end) [1; 2; 3; 4; 5; 6] = [1; 1; 0; 0; 0; 0] /\
  map (fun id => match deltas (snd fx_st) !! (5, id) with Some (Some _) => 1 | Some None => 2 | None => 0 end)
      [1; 2; 3; 4; 5; 6] = [1; 1; 0; 1; 1; 1] /\
  (* the instance still represents the array; a crash now does not *)
  load_arr 5 (decode_map g_codec (view_map (snd fx_st) 5)) 1 = Some (a_root fx_a, 9) /\
  load_arr 5 (decode_map g_codec (ledger_map (fst (step (snd fx_st) SRecreate)) 5)) 1 = None /\
  (* a fault-free commit of either kind repairs the ledger *)
  final_ok (snd fx_st) (SNondetCommit (nd_order (snd fx_st)) None) /\
  (let s' := fst (step (fst (step (snd fx_st) (SNondetCommit (nd_order (snd fx_st)) None))) SRecreate) in
   load_arr 5 (decode_map g_codec (ledger_map s' 5)) 1 = Some (a_root fx_a, 9) /\
   map (fun id => base s' !! (5, id)) [1; 2; 3; 4; 5; 6; 7] =
   map (fun id => base (fst (step fx_plain (SFastCommit None))) !! (5, id)) [1; 2; 3; 4; 5; 6; 7] /\
   length (map_to_list (base s')) = 5%nat) /\
  map (fun id => base (fst (step (snd fx_st) (SFastCommit None))) !! (5, id)) [1; 2; 3; 4; 5; 6; 7] =
  map (fun id => base (fst (step fx_plain (SFastCommit None))) !! (5, id)) [1; 2; 3; 4; 5; 6; 7].
Proof.
  split; [vm_compute; split; congruence|].
  split; [exists []; reflexivity|].
  split; [intros id; reflexivity|].
  split; [vm_compute; reflexivity|]. split; [vm_compute; reflexivity|].
  split.
  { unfold fx_ops. repeat (apply Forall_app; split).
    - apply Forall_forall. intros o Ho. apply in_map_iff in Ho. destruct Ho as (i & <- & _).
      cbn. repeat split; vm_compute; congruence.
    - repeat constructor; vm_compute; congruence.
    - repeat constructor.
    - repeat constructor. }
  split; [vm_compute; reflexivity|]. split; [vm_compute; reflexivity|].
  split; [vm_compute; reflexivity|]. split; [vm_compute; reflexivity|].
  split; [vm_compute; reflexivity|]. split; [vm_compute; reflexivity|].
  split; [vm_compute; reflexivity|]. split; [vm_compute; reflexivity|].
  split; [right; eexists; split; [reflexivity|vm_compute; reflexivity]|].
  split; [vm_compute; repeat split; reflexivity|]. vm_compute. reflexivity.
Qed.

Print Assumptions C14_array_failed_commit_keeps_view.
Print Assumptions C14_array_retry_durable.
Print Assumptions C14_array_retry_converges.

(** * Ordered maps *)
From AtreeModel Require Import MapElems MapElemsInv MapTree MapTreeInv DurableMap.
From AtreeProofs Require Import MapFrame_proofs Map_proofs DurableMap_proofs.

Theorem C14_map_failed_commit_keeps_view : forall K T, valid_T T -> forall dg levels, (1 <= levels)%nat ->
  forall limit ks addr rootid, addr <> 0 -> 0 < rootid ->
  forall s0, reachable s0 -> (forall id, view s0 (addr, id) = None) ->
  forall l, mtries_ok l = true -> Forall (mop_ok T ks) (mfops_of l) ->
  let c := set_threshold T in
  let t0 := fst (mt_init rootid) in
  let t := fst (mt_run dg levels (cinl_melem c) limit c t0 (mfops_of l)) in
  let st := mfrun dg levels (cinl_melem c) limit c K addr t0 (fst (run s0 (minit_sops K addr rootid))) l in
  fst st = t /\ coherent (snd st) /\
  mholds_exactly K (view_map (snd st) addr) t /\
  (forall fuel, (mdepth (t_root t) <= fuel)%nat ->
     mload_map fuel (mdecode_map K (view_map (snd st) addr)) rootid = Some (t_root t, t_count t)) /\
  (forall id, snd (step (snd st) (SRetrieve (addr, id))) = ORet (view_map (snd st) addr id)) /\
  to_list_tree (t_root t) = fst (d_run dg levels limit [] (mfops_of l)).
Proof. exact mfailed_commit_keeps_view. Qed.

Theorem C14_map_retry_durable : forall K T, valid_T T -> forall dg levels, (1 <= levels)%nat ->
  forall limit ks addr rootid, addr <> 0 -> 0 < rootid ->
  forall s0, reachable s0 -> (forall id, view s0 (addr, id) = None) ->
  forall l final, mtries_ok l = true -> Forall (mop_ok T ks) (mfops_of l) ->
  let c := set_threshold T in
  let t0 := fst (mt_init rootid) in
  let t := fst (mt_run dg levels (cinl_melem c) limit c t0 (mfops_of l)) in
  let st := mfrun dg levels (cinl_melem c) limit c K addr t0 (fst (run s0 (minit_sops K addr rootid))) l in
  final_ok (snd st) final ->
  let s2 := fst (step (snd st) final) in
  let s' := fst (step s2 SRecreate) in
  owned_delta_keys s2 = [] /\
  deltas s' = ∅ /\ cache s' = ∅ /\
  (forall id, view s' (addr, id) = base s' !! (addr, id)) /\
  mholds_exactly K (ledger_map s' addr) t /\
  (forall fuel, (mdepth (t_root t) <= fuel)%nat ->
     mload_map fuel (mdecode_map K (ledger_map s' addr)) rootid = Some (t_root t, t_count t)) /\
  to_list_tree (t_root t) = fst (d_run dg levels limit [] (mfops_of l)).
Proof. exact mretry_durable. Qed.

(** Non-vacuity for maps (the history of C03_durable_map.v: external collision groups, root split,
    group collapse, leaf merge) with three failed attempts in between *)
Definition fm_c := set_threshold 256.
Definition fm_M := cinl_melem fm_c.
Definition fm_dg (k : N) (l : nat) : N := match l with O => k / 10 | 1%nat => k mod 10 | _ => k end.
Definition fm_ks (_ : N) : N := 9.
Definition fm_set (k : N) : mop := MapElems.OSet (mkkv k 9) (mkkv (k + 1000) 40).
Definition fm_ops : list mop :=
  map fm_set [10; 11; 12; 20; 30; 40; 50; 60; 70; 80; 90; 100; 110; 120; 130; 21] ++
  map MapElems.ORemove [21; 110; 100; 90; 80; 70; 60; 50].
Definition fm_t0 := fst (mt_init 1).
Definition fm_t := fst (mt_run fm_dg 4 fm_M 8 fm_c fm_t0 fm_ops).
Definition fm_sc := fst (run st_init (minit_sops mg_codec 5 1)).
Definition fm_l1 := map MFOp (firstn 12 fm_ops) ++ [MFTry (SFastCommit (Some 2%nat))] ++ map MFOp (skipn 12 fm_ops).
Definition fm_s1 := snd (mfrun fm_dg 4 fm_M 8 fm_c mg_codec 5 fm_t0 fm_sc fm_l1).
Definition fm_l := fm_l1 ++ [MFTry (SNondetCommit (nd_order fm_s1) (Some 1%nat)); MFTry (SFastCommit (Some 0%nat))].
Definition fm_st := mfrun fm_dg 4 fm_M 8 fm_c mg_codec 5 fm_t0 fm_sc fm_l.

Example C14_durable_map_example :
  mtries_ok fm_l = true /\ mfops_of fm_l = fm_ops /\ Forall (mop_ok 256 fm_ks) fm_ops /\
  order_ok fm_s1 (nd_order fm_s1) false = true /\
  fst fm_st = fm_t /\ mslab_ids (t_root fm_t) = [1; 3; 2; 4] /\
  map (fun id => match base (snd fm_st) !! (5, id) with Some _ => 1 | None => 0 end) [1; 2; 3; 4; 5; 6] = [1; 1; 0; 0; 0; 0] /\
  mload_map 6 (mdecode_map mg_codec (view_map (snd fm_st) 5)) 1 = Some (t_root fm_t, 8) /\
  mload_map 6 (mdecode_map mg_codec (ledger_map (fst (step (snd fm_st) SRecreate)) 5)) 1 <> Some (t_root fm_t, 8) /\
  final_ok (snd fm_st) (SNondetCommit (nd_order (snd fm_st)) None) /\
  (let s' := fst (step (fst (step (snd fm_st) (SNondetCommit (nd_order (snd fm_st)) None))) SRecreate) in
   mload_map 6 (mdecode_map mg_codec (ledger_map s' 5)) 1 = Some (t_root fm_t, 8) /\
   length (map_to_list (base s')) = 4%nat).
Proof.
  split; [vm_compute; reflexivity|]. split; [vm_compute; reflexivity|].
  split.
  { unfold fm_ops. apply Forall_app; split.
    - rewrite Forall_map. rewrite Forall_forall. intros k _. split; [reflexivity|]. vm_compute. discriminate.
    - rewrite Forall_map. rewrite Forall_forall. intros; exact I. }
  split; [vm_compute; reflexivity|]. split; [vm_compute; reflexivity|].
  split; [vm_compute; reflexivity|]. split; [vm_compute; reflexivity|].
  split; [vm_compute; reflexivity|]. split; [vm_compute; discriminate|].
  split; [right; eexists; split; [reflexivity|vm_compute; reflexivity]|].
  vm_compute. split; reflexivity.
Qed.

Print Assumptions C14_map_failed_commit_keeps_view.
Print Assumptions C14_map_retry_durable.
