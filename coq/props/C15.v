(* C15 — Slab storage is a write-back overlay: read-your-writes, last-commit recovery.
   Property theorems only; each is closed by [exact] of a lemma proved elsewhere. *)
From stdpp Require Import gmap sorting.
From Coq Require Import ZArith NArith.
From AtreeModel Require Import Storage StorageSpec.
From AtreeProofs Require Import Storage_proofs Commit_proofs StorageProps_proofs.

(* For EVERY finite sequence of storage calls (any identifiers, any slab versions, any fault
   positions, any commit orders) the model of PersistentSlabStorage started empty and the
   overlay specification started empty stay related: the cache is coherent with the ledger,
   write set and ledger equal the specification's pending/committed maps, the visible slab
   under every identifier is the specification's view, and every answer is the
   specification's answer (is-loaded being the only freedom, see out_match). *)
Theorem C15_refines_overlay : forall ops : list sop,
  let '(s', ms) := run st_init ops in
  let '(a', sps) := spec_run spec_init ops in
  coherent s' /\ abs s' = a' /\ (forall i, view s' i = spec_view a' i) /\ outs_match ops ms sps.
Proof. exact storage_refines_overlay. Qed.

Theorem C15_store_remove_visible : forall s i v j, reachable s -> is_undefined i = false ->
  view (fst (step s (SStore i v))) j = (if decide (j = i) then Some v else view s j) /\
  view (fst (step s (SRemove i))) j = (if decide (j = i) then None else view s j).
Proof.
  intros s i v j Hr Hi. split;
    [exact (store_view s i v j (reachable_coherent s Hr) Hi) | exact (remove_view s i j (reachable_coherent s Hr) Hi)].
Qed.

Theorem C15_retrieve_returns_view : forall s i, reachable s ->
  snd (step s (SRetrieve i)) = ORet (view s i) /\
  forall j, view (fst (step s (SRetrieve i))) j = view s j.
Proof. intros s i Hr. exact (retrieve_returns_view s i (reachable_coherent s Hr)). Qed.

(* commit makes the ledger equal to the view for all owned identifiers, empties the owned write
   set, keeps temporary-address entries pending and unwritten, and does not change the view *)
Theorem C15_commit : forall s, reachable s ->
  let '(s', ok, log) := fast_commit s None in
  ok = true /\ coherent s' /\
  (forall i, is_temp i = false -> base s' !! i = view s i /\ deltas s' !! i = None) /\
  (forall i, is_temp i = true -> deltas s' !! i = deltas s !! i /\ base s' !! i = base s !! i) /\
  (forall i, view s' i = view s i) /\
  owned_delta_keys s' = [].
Proof. intros s Hr. exact (fast_commit_state s (reachable_coherent s Hr)). Qed.

Theorem C15_commit_relaxed : forall s order, reachable s -> order_ok s order true = true ->
  let '(s', ok, log) := apply_writes order None s [] in
  ok = true /\ coherent s' /\
  (forall i, is_temp i = false -> base s' !! i = view s i /\ deltas s' !! i = None) /\
  (forall i, is_temp i = true -> deltas s' !! i = deltas s !! i /\ base s' !! i = base s !! i) /\
  (forall i, view s' i = view s i) /\
  owned_delta_keys s' = [].
Proof. intros s order Hr. exact (nondet_commit_state s order (reachable_coherent s Hr)). Qed.

(* dropping write set and cache (or re-creating the storage) reverts the view to the ledger *)
Theorem C15_drop : forall s i, reachable s ->
  view (fst (step (fst (step s SDropDeltas)) SDropCache)) i = base s !! i /\
  view (fst (step s SRecreate)) i = base s !! i.
Proof. intros s i Hr. exact (drop_reverts_to_ledger s i (reachable_coherent s Hr)). Qed.

(* reads, preloading, cache-bypassing reads, observers and dropping the cache never change the
   view, the write set or the ledger *)
Theorem C15_reads_pure : forall s o, reachable s -> is_pure_read o = true ->
  (forall j, view (fst (step s o)) j = view s j) /\ abs (fst (step s o)) = abs s.
Proof. intros s o Hr. exact (reads_pure s o (reachable_coherent s Hr)). Qed.

(* non-vacuity: a reachable state with all three layers populated, a temporary slab pending,
   a committed deletion cached as nil *)
Example C15_example :
  let ops := [SStore (1,1) (mkval 7 3); SStore (1,2) (mkval 8 3); SStore (0,1) (mkval 9 3);
              SFastCommit None; SRemove (1,2); SFastCommit None; SStore (1,1) (mkval 10 4);
              SDropCache; SRetrieve (1,1); SRetrieve (1,2)]%N in
  let s := fst (run st_init ops) in
  reachable s /\ view s (1,1)%N = Some (mkval 10 4) /\ base s !! (1,1)%N = Some (mkval 7 3) /\
  view s (1,2)%N = None /\ deltas s !! (0,1)%N = Some (Some (mkval 9 3)) /\ base s !! (0,1)%N = None.
Proof. cbn zeta. split; [eexists; reflexivity|]. vm_compute. repeat split. Qed.

Print Assumptions C15_refines_overlay.
Print Assumptions C15_store_remove_visible.
Print Assumptions C15_retrieve_returns_view.
Print Assumptions C15_commit.
Print Assumptions C15_commit_relaxed.
Print Assumptions C15_drop.
Print Assumptions C15_reads_pure.
