(* C05 — the uint32 DOMAIN of the slab trees: what the audit found as prose only, as theorems.

   (A) C05_gen.v ties the Go source text of IsFull / IsUnderflow / CanLendToLeft / CanLendToRight to the
   model under three hypotheses (threshold, cached header size and request are uint32 values).
   C05_gen_predicate_domain discharged two of them; the third — every slab header size occurring in a
   reachable tree is < 2^32 — is C05_uint32_array_header_sizes_bounded / ..._map_...: under the carried
   invariant ([awf] / [mtwf]) EVERY header value stored anywhere in the tree (each slab's own header and the
   parent's copies) is <= maxThreshold = floor(1.5 T) <= 49152; the root too (clause "never above the
   maximum" of wf_root / mwf_root: in Go the root is split when full, after every operation).  Between the
   recursive update and the parent's fix-up a slab is at most one element / one child header above:
   C05_uint32_updated_child_header_bounded, C05_uint32_root_mid_header_bounded.
   C05_gen_predicates_apply_to_reachable(_map): for every reachable state, every slab of its tree and every
   request that is some slab's underflow deficit (or any value <= minThreshold) the three hypotheses hold and
   hence the transcribed Go predicates equal the model predicates.

   (B) The models compute on unbounded N with TRUNCATED subtraction (and nat subtraction), the Go code on
   uint32 (uint64 for array indices) with wrap-around.  proofs/Uint32_proofs.v defines for every function a
   wrap-detecting TWIN f_ck: the same text with every uint32 subtraction replaced by [usub] (None when the
   subtrahend is larger), every uint32 addition / multiplication by [uadd] / [umul] (None when the value is
   >= 2^32), the uint64 index addition of childSlabIndexInfo by [uadd64], nat subtractions / predecessors
   (move counts) by [nsub] / [npred]; where Go's && short-circuits the twin evaluates both operands.
   C05_uint32_*_meaning: "twin = Some r" means r is the mathematical value, in [0, 2^32), and equal to what
   Go's wrapping operation returns.  Each no_wrap theorem states f_ck args = Some (f args) under the
   invariant: at every program point of f the subtraction is non-negative and the sum below 2^32, and the
   model's value is the Go value.  Summary, arrays: C05_uint32_array_step_no_wrap (every operation on every
   state satisfying the inductive invariant [awfl]) and C05_uint32_array_reachable_no_wrap (every history).
   Caller-controlled arguments: the element sizes, bounded by the Storable contract [aop_ok] / [mop_ok]
   (0 < size <= maxInlineArrayElementSize) — stated as a hypothesis everywhere.
   Not instrumented (not uint32 arithmetic in Go): slab indices ([alloc + 1]: 8-byte counters), the float64
   computation inside ceil_div, the uint64 bounds of the range iterator (e - s, guarded by e >= s).

   Each theorem is closed by [exact] of a lemma of proofs/Uint32_proofs.v. *)
From Coq Require Import ZArith NArith List Bool.
From AtreeGen Require Import Consts.
From AtreeGen Require GoFuncs.
From AtreeModel Require Import Settings ArrayTree ArrayInv.
From AtreeModel Require MapElems MapTree MapTreeInv.
From AtreeProofs Require Import Rebalance_proofs ArrayFixup_proofs ArrayTree_proofs Array_proofs GoFuncs_proofs Uint32_proofs.
From AtreeModel Require MapElemsInv.
From AtreeProofs Require MapElems_proofs MapRebalance_proofs MapTreeOps_proofs Map_proofs.
Import ListNotations.
Import U AB.
Local Open Scope N_scope.
Local Open Scope ck_scope.

(** * (A) header sizes *)

Theorem C05_uint32_array_header_sizes_bounded : forall T a, valid_T T -> awf (set_threshold T) a ->
  Forall (fun h => h_size h <= cmax (set_threshold T) /\ h_size h <= 49152 /\ h_size h < two32)
         (A.all_hdrs (a_root a)).
Proof. exact A.array_hdr_sizes_bounded. Qed.

Theorem C05_gen_predicates_apply_to_reachable : forall T rootid ti ops, valid_T T ->
  let c := set_threshold T in
  Forall (aop_ok c) ops ->
  let a := fst (a_run c (fst (arr_init rootid ti)) ops) in
  awf c a /\
  forall x, In x (A.nodes (a_root a)) ->
  forall need, (need <= cmin c \/ exists y, n_underflow c y = Some need) ->
  let h := hdr_of x in
  (cmin c < two32 /\ h_size h < two32 /\ need + c_arraySlabHeaderSize <= two32) /\
  forall nx es hs sums cs,
    let d := AD h nx es in
    let m := AM h hs sums cs in
    GoFuncs.ArrayDataSlab_IsFull (cmax c) (h_size h) = n_is_full c d /\
    GoFuncs.ArrayDataSlab_IsUnderflow (cmin c) (h_size h) = underflow_result (n_underflow c d) /\
    GoFuncs.ArrayMetaDataSlab_IsFull (cmax c) (h_size h) = n_is_full c m /\
    GoFuncs.ArrayMetaDataSlab_IsUnderflow (cmin c) (h_size h) = underflow_result (n_underflow c m) /\
    GoFuncs.ArrayMetaDataSlab_CanLendToLeft (cmin c) (h_size h) need = n_can_lend_to_left c m need /\
    GoFuncs.ArrayMetaDataSlab_CanLendToRight (cmin c) (h_size h) need = n_can_lend_to_right c m need.
Proof. exact A.array_predicates_apply_to_reachable. Qed.

(* the slab on which the parent evaluates IsFull / IsUnderflow right after the recursive update *)
Theorem C05_uint32_updated_child_header_bounded : forall T, valid_T T -> forall d n,
  let c := set_threshold T in
  wfn c d n -> in_band c n ->
  (forall i e alloc n' old alloc' lg, elem_ok c e -> n_set c P n i e alloc = Ok (n', old, alloc', lg) ->
     h_size (hdr_of n') < two32) /\
  (forall i e alloc n' alloc' lg, elem_ok c e -> n_insert c n i e alloc = Ok (n', alloc', lg) ->
     h_size (hdr_of n') < two32) /\
  (forall i n' old lg, n_remove c n i = Ok (n', old, lg) -> h_size (hdr_of n') < two32).
Proof. exact updated_child_hdr_lt_two32. Qed.

Theorem C05_uint32_root_mid_header_bounded : forall T, valid_T T -> forall r,
  root_mid T r -> h_size (hdr_of r) < two32.
Proof. exact root_mid_hdr_lt_two32. Qed.

(** * (A) maps *)

Theorem C05_uint32_map_header_sizes_bounded : forall T dg levels t, valid_T T ->
  MapTreeInv.mtwf dg levels (set_threshold T) t ->
  Forall (fun h => MapTree.mh_size h <= cmax (set_threshold T) /\ MapTree.mh_size h <= 49152 /\
                   MapTree.mh_size h < two32)
         (M.all_hdrs (MapTree.t_root t)).
Proof. exact M.map_hdr_sizes_bounded. Qed.

Theorem C05_gen_predicates_apply_to_reachable_map : forall T dg limit levels ks rootid ops,
  valid_T T -> (1 <= levels)%nat ->
  let c := set_threshold T in
  Forall (Map_proofs.mop_ok T ks) ops ->
  let t := fst (MapTree.mt_run dg levels (cinl_melem c) limit c (fst (MapTree.mt_init rootid)) ops) in
  MapTreeInv.mtwf dg levels c t /\
  forall x, In x (M.nodes (MapTree.t_root t)) ->
  forall need, (need <= cmin c \/ exists y, MapTree.n_underflow c y = Some need) ->
  let h := MapTree.hdr_of x in
  (cmin c < two32 /\ MapTree.mh_size h < two32 /\ need + c_mapSlabHeaderSize <= two32) /\
  forall nx es hs cs,
    let d := MapTree.MD h nx es in
    let m := MapTree.MM h hs cs in
    GoFuncs.MapDataSlab_IsFull (cmax c) (MapTree.mh_size h) false = MapTree.n_is_full c d /\
    GoFuncs.MapDataSlab_IsUnderflow (cmin c) (MapTree.mh_size h) false = underflow_result (MapTree.n_underflow c d) /\
    (forall mx mn sz, GoFuncs.MapDataSlab_IsFull mx sz true = false /\ GoFuncs.MapDataSlab_IsUnderflow mn sz true = (0, false)) /\
    GoFuncs.MapMetaDataSlab_IsFull (cmax c) (MapTree.mh_size h) = MapTree.n_is_full c m /\
    GoFuncs.MapMetaDataSlab_IsUnderflow (cmin c) (MapTree.mh_size h) = underflow_result (MapTree.n_underflow c m) /\
    GoFuncs.MapMetaDataSlab_CanLendToLeft (cmin c) (MapTree.mh_size h) need = MapTree.n_can_lend_to_left c m need /\
    GoFuncs.MapMetaDataSlab_CanLendToRight (cmin c) (MapTree.mh_size h) need = MapTree.n_can_lend_to_right c m need.
Proof. exact M.map_predicates_apply_to_reachable. Qed.

(* [upd_post]: the post-condition of n_set / n_remove on a subtree (MapTreeOps_proofs.n_set_ok / n_remove_ok);
   [root_mid]: the root between the recursive operation and OrderedMap's root fix-up *)
Theorem C05_uint32_map_updated_child_header_bounded : forall dg levels T d n n', valid_T T ->
  MapTreeOps_proofs.upd_post dg levels T d n n' -> MapTreeInv.in_band (set_threshold T) n ->
  MapTree.mh_size (MapTree.hdr_of n') < two32.
Proof. exact M.updated_child_hdr_lt_two32. Qed.
Theorem C05_uint32_map_root_mid_header_bounded : forall dg levels T r, valid_T T ->
  Map_proofs.root_mid dg levels T r -> MapTree.mh_size (MapTree.hdr_of r) < two32.
Proof. exact M.root_mid_hdr_lt_two32. Qed.

(** * (B) what the twins report *)

Theorem C05_uint32_usub_meaning : forall a b r, usub a b = Some r ->
  (Z.of_N r = Z.of_N a - Z.of_N b)%Z /\ r = N.sub a b /\
  (a < two32 -> b < two32 -> r < two32 /\ r = (a + two32 - b) mod two32).
Proof. exact usub_spec. Qed.
Theorem C05_uint32_uadd_meaning : forall a b r, uadd a b = Some r ->
  (Z.of_N r = Z.of_N a + Z.of_N b)%Z /\ r = a + b /\ r < two32 /\ r = (a + b) mod two32.
Proof. exact uadd_spec. Qed.
Theorem C05_uint32_umul_meaning : forall a b r, umul a b = Some r ->
  (Z.of_N r = Z.of_N a * Z.of_N b)%Z /\ r = a * b /\ r < two32 /\ r = (a * b) mod two32.
Proof. exact umul_spec. Qed.
Theorem C05_uint32_twins_report : forall a b,
  (usub a b = None <-> a < b) /\ (uadd a b = None <-> two32 <= a + b).
Proof. exact (fun a b => conj (usub_none a b) (uadd_none a b)). Qed.

(** * (B) arrays: the functions of the audit's list, in terms of the sizes alone *)

Theorem C05_uint32_split_point_no_wrap : forall es D mid acc i,
  acc + sum_sz es = D -> D < two32 ->
  split_point_ck es D mid acc i = Some (split_point es D mid acc i).
Proof. exact split_point_no_wrap. Qed.
Theorem C05_uint32_lend_loop_no_wrap : forall res size mid m lc ls,
  sum_sz res <= ls -> ls <= size -> (length res <= lc)%nat ->
  lend_loop_ck res size mid m lc ls = Some (lend_loop res size mid m lc ls).
Proof. exact lend_loop_no_wrap. Qed.
Theorem C05_uint32_borrow_loop_no_wrap : forall es size mid m lc ls,
  ls + sum_sz es <= size -> size < two32 ->
  borrow_loop_ck es size mid m lc ls = Some (borrow_loop es size mid m lc ls).
Proof. exact borrow_loop_no_wrap. Qed.
Theorem C05_uint32_can_lend_loop_no_wrap : forall es hsize m need lend,
  lend + sum_sz es <= hsize -> hsize < two32 ->
  can_lend_loop_ck es hsize m need lend = Some (can_lend_loop es hsize m need lend).
Proof. exact can_lend_loop_no_wrap. Qed.
Theorem C05_uint32_d_can_lend_no_wrap : forall es hsize m need,
  sum_sz es <= hsize -> hsize < two32 -> need <= hsize ->
  d_can_lend_ck es hsize m need = Some (d_can_lend es hsize m need).
Proof. exact d_can_lend_no_wrap. Qed.

(** * (B) arrays: the same functions at their call sites, under the invariant *)

Theorem C05_uint32_split_point_call_site : forall T, valid_T T -> forall h nx es,
  let c := set_threshold T in
  wfn c 0 (AD h nx es) -> h_size h + 1 < two32 ->
  let dataSize := h_size h - P in
  usub (h_size h) P = Some dataSize /\ uadd dataSize 1 = Some (dataSize + 1) /\
  split_point_ck es dataSize ((dataSize + 1) / 2) 0 0 = Some (split_point es dataSize ((dataSize + 1) / 2) 0 0).
Proof. exact (fun T _ => split_point_call_site T). Qed.
Theorem C05_uint32_lend_loop_call_site : forall T, valid_T T -> forall h nx es h2 nx2 es2,
  let c := set_threshold T in
  wfn c 0 (AD h nx es) -> wfn c 0 (AD h2 nx2 es2) -> h_size h + h_size h2 + 1 < two32 ->
  let size := h_size h + h_size h2 in
  lend_loop_ck (rev es) size ((size + 1) / 2) (cmin c) (N.to_nat (h_count h)) (h_size h)
  = Some (lend_loop (rev es) size ((size + 1) / 2) (cmin c) (N.to_nat (h_count h)) (h_size h)).
Proof. exact (fun T _ => lend_loop_call_site T). Qed.
Theorem C05_uint32_borrow_loop_call_site : forall T, valid_T T -> forall h nx es h2 nx2 es2,
  let c := set_threshold T in
  wfn c 0 (AD h nx es) -> wfn c 0 (AD h2 nx2 es2) -> h_size h + h_size h2 + 1 < two32 ->
  let size := h_size h + h_size h2 in
  borrow_loop_ck es2 size ((size + 1) / 2) (cmin c) (N.to_nat (h_count h)) (h_size h)
  = Some (borrow_loop es2 size ((size + 1) / 2) (cmin c) (N.to_nat (h_count h)) (h_size h)).
Proof. exact (fun T _ => borrow_loop_call_site T). Qed.
(* CanLendToLeft / CanLendToRight of a sibling inside the band, asked for the deficit of an underflowing
   slab (data slab: d_can_lend with its first subtraction header.size - size; index slab: size - 18 n) *)
Theorem C05_uint32_can_lend_call_site : forall T, valid_T T -> forall d s x need,
  let c := set_threshold T in
  wfn c d s -> in_band c s -> n_underflow c x = Some need ->
  n_can_lend_to_left_ck c s need = Some (n_can_lend_to_left c s need) /\
  n_can_lend_to_right_ck c s need = Some (n_can_lend_to_right c s need).
Proof. exact can_lend_call_site. Qed.
Theorem C05_uint32_d_can_lend_call_site : forall T, valid_T T -> forall h nx es x need,
  let c := set_threshold T in
  wfn c 0 (AD h nx es) -> in_band c (AD h nx es) -> n_underflow c x = Some need ->
  d_can_lend_ck es (h_size h) (cmin c) need = Some (d_can_lend es (h_size h) (cmin c) need) /\
  d_can_lend_ck (rev es) (h_size h) (cmin c) need = Some (d_can_lend (rev es) (h_size h) (cmin c) need).
Proof. exact d_can_lend_call_site. Qed.
(* childSlabIndexInfo: index + uint64(count) - uint64(countSum) *)
Theorem C05_uint32_route_no_wrap : forall T, valid_T T -> forall d h hs sums cs i,
  let c := set_threshold T in
  wfn c (S d) (AM h hs sums cs) -> i < h_count h -> h_count h < two32 ->
  route_ck hs sums i = Some (route hs sums i).
Proof. exact route_no_wrap. Qed.
(* the nat subtractions (move counts of LendToRight / BorrowFromRight, data and index slabs) and all
   other arithmetic of the two operations, between an underflowing slab and a sibling inside the band *)
Theorem C05_uint32_move_counts_no_wrap : forall T, valid_T T -> forall d l r need,
  let c := set_threshold T in
  wfn c d l -> wfn c d r -> h_count (hdr_of l) + h_count (hdr_of r) < two32 ->
  (in_band c l -> h_size (hdr_of r) + need = cmin c -> 0 < need ->
     n_lend_to_right_ck c l r = Some (n_lend_to_right c l r)) /\
  (in_band c r -> h_size (hdr_of l) + need = cmin c -> 0 < need ->
     n_borrow_from_right_ck c l r = Some (n_borrow_from_right c l r)).
Proof. exact move_counts_call_site. Qed.
(* the size hypothesis of BorrowFromRight cannot be dropped: a left index slab with more children than
   the right one has a negative move count (Go: slice-bounds panic; model: truncated to 0) *)
Example C05_uint32_borrow_negative_move_count_detected :
  let mk := fun i => AD (mkhdr i 100 1) 0 [mkelem 0 89 0] in
  let l := AM (mkhdr 1 40 2) [hdr_of (mk 3); hdr_of (mk 4)] [1; 2] [mk 3; mk 4] in
  let r := AM (mkhdr 2 22 1) [hdr_of (mk 5)] [1] [mk 5] in
  n_borrow_from_right_ck (set_threshold 256) l r = None.
Proof. exact borrow_index_negative_move_count. Qed.

(** * (B) arrays: slab operations and the parent's fix-ups *)

Theorem C05_uint32_split_no_wrap : forall c d n newid,
  wfn c d n -> h_size (hdr_of n) + 1 < two32 -> h_count (hdr_of n) < two32 ->
  n_split_ck n newid = Some (n_split n newid).
Proof. exact n_split_no_wrap. Qed.
Theorem C05_uint32_merge_no_wrap : forall c d l r,
  wfn c d l -> wfn c d r ->
  h_size (hdr_of l) + h_size (hdr_of r) < two32 -> h_count (hdr_of l) + h_count (hdr_of r) < two32 ->
  n_merge_ck l r = Some (n_merge l r).
Proof. exact n_merge_no_wrap. Qed.
Theorem C05_uint32_split_child_no_wrap : forall T, valid_T T -> forall d h pre ch post alloc,
  let c := set_threshold T in
  kids_ok T d pre -> kids_ok T d post -> wfn c d ch ->
  cmax c < h_size (hdr_of ch) -> h_size (hdr_of ch) <= cmax c + split_slack T ch ->
  let cs := pre ++ ch :: post in
  h_count h = sum_cnt (map hdr_of cs) -> h_count h < two32 -> h_size h + HS < two32 ->
  split_child_ck h (map hdr_of cs) (psums 0 (map hdr_of cs)) cs (length pre) ch alloc
  = Some (split_child h (map hdr_of cs) (psums 0 (map hdr_of cs)) cs (length pre) ch alloc).
Proof. exact split_child_no_wrap. Qed.
Theorem C05_uint32_merge_or_rebalance_no_wrap : forall T, valid_T T -> forall d h ch need pre post,
  let c := set_threshold T in
  wfn c d ch -> h_size (hdr_of ch) + need = cmin c -> 0 < need ->
  kids_ok T d pre -> kids_ok T d post ->
  let cs := pre ++ ch :: post in
  h_count h = sum_cnt (map hdr_of cs) -> h_count h < two32 -> HS <= h_size h ->
  merge_or_rebalance_ck c h (map hdr_of cs) (psums 0 (map hdr_of cs)) cs (length pre) ch need
  = Some (merge_or_rebalance c h (map hdr_of cs) (psums 0 (map hdr_of cs)) cs (length pre) ch need).
Proof. exact merge_or_rebalance_no_wrap. Qed.

(** * (B) arrays: the recursive operations on a subtree and the summary *)

Theorem C05_uint32_subtree_ops_no_wrap : forall T, valid_T T -> forall d n,
  let c := set_threshold T in
  wfn c d n -> kids2 n -> h_size (hdr_of n) <= cmax c ->
  (h_count (hdr_of n) < two32 -> forall i, n_get_ck n i = Some (n_get n i)) /\
  (h_count (hdr_of n) < two32 -> forall i e alloc, elem_ok c e ->
     n_set_ck c P n i e alloc = Some (n_set c P n i e alloc)) /\
  (h_count (hdr_of n) + 1 < two32 -> forall i e alloc, elem_ok c e ->
     n_insert_ck c n i e alloc = Some (n_insert c n i e alloc)) /\
  (h_count (hdr_of n) < two32 -> forall i, n_remove_ck c n i = Some (n_remove c n i)).
Proof.
  exact (fun T HT d n Hw H2 Hs =>
    conj (fun Hc i => n_get_no_wrap T HT d n i Hw Hc)
   (conj (fun Hc => n_set_no_wrap T HT d n Hw H2 Hc Hs)
   (conj (fun Hc => n_insert_no_wrap T HT d n Hw H2 Hc Hs)
         (fun Hc => n_remove_no_wrap T HT d n Hw H2 Hc Hs)))).
Qed.

(* every operation, from every state satisfying the inductive invariant *)
Theorem C05_uint32_array_step_no_wrap : forall T, valid_T T -> forall a o,
  let c := set_threshold T in
  awfl c a -> aop_ok c o -> a_step_ck c a o = Some (a_step c a o).
Proof. exact a_step_no_wrap. Qed.

(* every history from the empty array: all steps, and one more step from the state reached *)
Theorem C05_uint32_array_reachable_no_wrap : forall T, valid_T T -> forall rootid ti ops o,
  let c := set_threshold T in
  Forall (aop_ok c) ops -> aop_ok c o ->
  let a := fst (a_run c (fst (arr_init rootid ti)) ops) in
  a_run_ck c (fst (arr_init rootid ti)) ops = Some (a_run c (fst (arr_init rootid ti)) ops) /\
  a_step_ck c a o = Some (a_step c a o).
Proof. exact array_reachable_no_wrap. Qed.

(** * (B) maps (twins of MapTree.v in module MB; costs = elem.Size() + digestSize of the elements of a leaf).
    Additionally instrumented there: the constant expressions minThreshold - mapDataSlabPrefixSize
    (- hkeyElementsPrefixSize), hkeyElementsPrefixSize*2, elem.Size() + digestSize, MapExtraData.Count--.
    Not instrumented: the element level below MapElems.set_elems / remove_elems, Count++ (uint64), slab
    indices, ceil_div. *)

Theorem C05_uint32_map_split_point_no_wrap : forall zs D mid acc i,
  acc + MapElems_proofs.Nsum zs = D -> D < two32 ->
  MB.split_point_ck zs D mid acc i = Some (MapTree.split_point zs D mid acc i).
Proof. exact MB.split_point_no_wrap. Qed.
Theorem C05_uint32_map_lend_loop_no_wrap : forall rzs size mid m lc ls,
  MapElems_proofs.Nsum rzs <= ls -> ls <= size -> (length rzs <= lc)%nat ->
  MB.lend_loop_ck rzs size mid m lc ls = Some (MapTree.lend_loop rzs size mid m lc ls).
Proof. exact MB.lend_loop_no_wrap. Qed.
Theorem C05_uint32_map_borrow_loop_no_wrap : forall zs size mid m lc ls,
  ls + MapElems_proofs.Nsum zs <= size -> size < two32 ->
  MB.borrow_loop_ck zs size mid m lc ls = Some (MapTree.borrow_loop zs size mid m lc ls).
Proof. exact MB.borrow_loop_no_wrap. Qed.
Theorem C05_uint32_map_can_lend_loop_no_wrap : forall zs esz m need lend,
  lend + MapElems_proofs.Nsum zs <= esz -> esz < two32 ->
  MB.can_lend_loop_ck zs esz m need lend = Some (MapTree.can_lend_loop zs esz m need lend).
Proof. exact MB.can_lend_loop_no_wrap. Qed.
Theorem C05_uint32_map_e_can_lend_no_wrap : forall zs esz m need,
  MapElems_proofs.Nsum zs <= esz -> esz < two32 -> need <= esz ->
  MB.e_can_lend_ck zs esz m need = Some (MapTree.e_can_lend zs esz m need).
Proof. exact MB.e_can_lend_no_wrap. Qed.

(* CanLendToLeft / CanLendToRight of a sibling inside the band, for the deficit of a well-formed slab of the
   same height (the deficit is at most minThreshold - prefix: second theorem) *)
Theorem C05_uint32_map_can_lend_call_site : forall dg levels T, valid_T T -> (0 < levels)%nat ->
  forall d n need,
  let c := set_threshold T in
  MapTreeInv.mwfn dg levels c d n -> MapTreeInv.in_band c n -> need + MapRebalance_proofs.pfx_of n <= cmin c ->
  MB.n_can_lend_to_left_ck c n need = Some (MapTree.n_can_lend_to_left c n need) /\
  MB.n_can_lend_to_right_ck c n need = Some (MapTree.n_can_lend_to_right c n need).
Proof.
  exact (fun dg levels T HT Hlv d n need Hw Hb Hn =>
           conj (MB.n_can_lend_to_left_no_wrap dg levels T HT Hlv d n need Hw Hb Hn)
                (MB.n_can_lend_to_right_no_wrap dg levels T HT Hlv d n need Hw Hb Hn)).
Qed.
Theorem C05_uint32_map_deficit_bound : forall dg levels T, valid_T T -> (0 < levels)%nat ->
  forall d ch n need,
  let c := set_threshold T in
  MapTreeInv.mwfn dg levels c d ch -> MapTreeInv.mwfn dg levels c d n ->
  MapTree.mh_size (MapTree.hdr_of ch) + need = cmin c ->
  need + MapRebalance_proofs.pfx_of n <= cmin c.
Proof. exact MB.deficit_le. Qed.

(* Split / Merge / LendToRight / BorrowFromRight of well-formed slabs (data and index): no wrap, and the
   Go-int move counts (nat subtractions of the model) are non-negative whenever the operation does not
   already answer with the slice-bounds panic the model reports *)
Theorem C05_uint32_map_slab_ops_no_wrap : forall dg levels T, valid_T T -> (0 < levels)%nat ->
  forall d l r newid,
  let c := set_threshold T in
  MapTreeInv.mwfn dg levels c d l -> MapTreeInv.mwfn dg levels c d r ->
  MapTree.mh_size (MapTree.hdr_of l) + MapTree.mh_size (MapTree.hdr_of r) < two32 ->
  MB.n_split_ck l newid = Some (MapTree.n_split l newid) /\
  MB.n_merge_ck l r = Some (MapTree.n_merge l r) /\
  MB.n_lend_to_right_ck c l r = Some (MapTree.n_lend_to_right c l r) /\
  MB.n_borrow_from_right_ck c l r = Some (MapTree.n_borrow_from_right c l r).
Proof.
  exact (fun dg levels T HT Hlv d l r newid Hl Hr Hs =>
           conj (MB.n_split_no_wrap dg levels T HT Hlv d l newid Hl
                   (N.le_lt_trans _ _ _ (N.le_add_r _ _) Hs))
          (conj (MB.n_merge_no_wrap dg levels T HT Hlv d l r Hl Hr Hs)
          (conj (MB.n_lend_to_right_no_wrap dg levels T HT Hlv d l r Hl Hr Hs)
                (MB.n_borrow_from_right_no_wrap dg levels T HT Hlv d l r Hl Hr Hs)))).
Qed.
(* after CanLend... said yes: the twin succeeds with the model's pair (so the negative-move-count guard of
   the model does not fire and every nat subtraction is exact), both slabs inside the band *)
Theorem C05_uint32_map_lend_after_can_lend : forall dg levels T, valid_T T -> (0 < levels)%nat ->
  forall d l r need,
  let c := set_threshold T in
  MapTreeInv.mwfn dg levels c d l -> MapTreeInv.mwfn dg levels c d r -> MapTreeInv.in_band c l ->
  MapTree.mh_size (MapTree.hdr_of r) + need = cmin c -> 0 < need ->
  MapElemsInv.ssorted (MapTreeInv.keys_of l ++ MapTreeInv.keys_of r) ->
  MapTree.n_can_lend_to_right c l need = true ->
  exists l' r', MB.n_lend_to_right_ck c l r = Some (MapTree.TOk (l', r')) /\
    MapTree.n_lend_to_right c l r = MapTree.TOk (l', r') /\
    MapTreeInv.in_band c l' /\ MapTreeInv.in_band c r'.
Proof. exact MB.n_lend_to_right_ck_ok. Qed.
Theorem C05_uint32_map_borrow_after_can_lend : forall dg levels T, valid_T T -> (0 < levels)%nat ->
  forall d l r need,
  let c := set_threshold T in
  MapTreeInv.mwfn dg levels c d l -> MapTreeInv.mwfn dg levels c d r -> MapTreeInv.in_band c r ->
  MapTree.mh_size (MapTree.hdr_of l) + need = cmin c -> 0 < need ->
  MapElemsInv.ssorted (MapTreeInv.keys_of l ++ MapTreeInv.keys_of r) ->
  MapTree.n_can_lend_to_left c r need = true ->
  exists l' r', MB.n_borrow_from_right_ck c l r = Some (MapTree.TOk (l', r')) /\
    MapTree.n_borrow_from_right c l r = MapTree.TOk (l', r') /\
    MapTreeInv.in_band c l' /\ MapTreeInv.in_band c r'.
Proof. exact MB.n_borrow_from_right_ck_ok. Qed.

(* the common tail of MapMetaDataSlab.Set / Remove after child |pre| has been updated to ch' *)
Theorem C05_uint32_map_fix_child_no_wrap : forall dg levels T, valid_T T -> (0 < levels)%nat ->
  forall d h pre (ch ch' : MapTree.mnode) post alloc,
  let c := set_threshold T in
  MapRebalance_proofs.kids_ok dg levels T d pre -> MapRebalance_proofs.kids_ok dg levels T d post ->
  MapTreeInv.mwfn dg levels c d ch' ->
  let cs := pre ++ ch :: post in
  MapTree.mh_size h = MapTree.PM + N.of_nat (length cs) * MapTree.HS ->
  MapTree.mh_size (MapTree.hdr_of ch') <= cmax c + MapRebalance_proofs.slack T ch' ->
  MapTree.mh_size h + MapTree.HS < two32 ->
  MB.fix_child_ck c h (map MapTree.hdr_of cs) cs (length pre) ch' alloc
  = Some (MapTree.fix_child c h (map MapTree.hdr_of cs) cs (length pre) ch' alloc).
Proof. exact MB.fix_child_no_wrap. Qed.

(* Set / Remove through a subtree *)
Theorem C05_uint32_map_subtree_ops_no_wrap : forall dg levels T, valid_T T -> (0 < levels)%nat ->
  forall limit ks d n,
  let c := set_threshold T in
  MapTreeInv.mwfn dg levels c d n -> MapTreeOps_proofs.kids2 n -> MapTreeOps_proofs.pairs T ks n ->
  MapTree.mh_size (MapTree.hdr_of n) <= cmax c ->
  (forall k v alloc, MapTreeOps_proofs.pair_ok T ks (k, v) ->
     MB.n_set_ck dg levels (cinl_melem c) limit c MapTree.P n k v alloc
     = Some (MapTree.n_set dg levels (cinl_melem c) limit c MapTree.P n k v alloc)) /\
  (forall k alloc,
     MB.n_remove_ck dg levels c MapTree.P n k alloc = Some (MapTree.n_remove dg levels c MapTree.P n k alloc)).
Proof.
  exact (fun dg levels T HT Hlv limit ks d n Hw H2 Hp Hs =>
           conj (MB.n_set_no_wrap dg levels T HT Hlv limit ks d n Hw H2 Hp Hs)
                (MB.n_remove_no_wrap dg levels T HT Hlv ks d n Hw H2 Hp Hs)).
Qed.

(* every operation, from every state satisfying the inductive invariant *)
Theorem C05_uint32_map_step_no_wrap : forall dg levels T, valid_T T -> (0 < levels)%nat ->
  forall limit ks t o,
  let c := set_threshold T in
  Map_proofs.minv dg levels T ks t -> Map_proofs.mop_ok T ks o ->
  MB.mt_step_ck dg levels (cinl_melem c) limit c t o = Some (MapTree.mt_step dg levels (cinl_melem c) limit c t o).
Proof. exact MB.mt_step_no_wrap. Qed.

(* every history from the empty map; and the next step from every state reached *)
Theorem C05_uint32_map_reachable_no_wrap : forall dg levels T, valid_T T -> (0 < levels)%nat ->
  forall limit ks rootid ops,
  let c := set_threshold T in
  Forall (Map_proofs.mop_ok T ks) ops ->
  MB.mt_run_ck dg levels (cinl_melem c) limit c (fst (MapTree.mt_init rootid)) ops
  = Some (MapTree.mt_run dg levels (cinl_melem c) limit c (fst (MapTree.mt_init rootid)) ops).
Proof. exact MB.map_reachable_no_wrap. Qed.
Theorem C05_uint32_map_reachable_step_no_wrap : forall dg levels T, valid_T T -> (0 < levels)%nat ->
  forall limit ks rootid pre o post,
  let c := set_threshold T in
  Forall (Map_proofs.mop_ok T ks) (pre ++ o :: post) ->
  let t := fst (MapTree.mt_run dg levels (cinl_melem c) limit c (fst (MapTree.mt_init rootid)) pre) in
  MB.mt_step_ck dg levels (cinl_melem c) limit c t o = Some (MapTree.mt_step dg levels (cinl_melem c) limit c t o).
Proof. exact MB.map_reachable_step_no_wrap. Qed.

(** Non-vacuity (T = 256, every pair costs 58 bytes): a history of 26 operations satisfying the caller's
    contract (15 insertions with root and leaf splits, removals with borrow / lend / merge, an overwrite,
    PopIterate) — the twin returns the model's run, after 22 operations the root is an index slab with 4
    leaves and 10 entries; and sensitivity: a request above the cached size, a cached elements size below the
    real one, a cached size below the prefix, a count of 0 with one stored pair *)
Example C05_uint32_map_example_history_ok :
  valid_T 256 /\ (0 < 4)%nat /\ Forall (Map_proofs.mop_ok 256 (fun _ => 9)) MB.xops.
Proof. exact MB.level5_hyps. Qed.
Example C05_uint32_map_example_history :
  MB.mt_run_ck MB.xdg 4 107 255 MB.xc (fst (MapTree.mt_init 1)) MB.xops
  = Some (MapTree.mt_run MB.xdg 4 107 255 MB.xc (fst (MapTree.mt_init 1)) MB.xops) /\
  (exists t outs h hs c1 c2 c3 c4,
     MB.mt_run_ck MB.xdg 4 107 255 MB.xc (fst (MapTree.mt_init 1)) (firstn 22 MB.xops) = Some (t, outs) /\
     MapTree.t_root t = MapTree.MM h hs [c1; c2; c3; c4] /\ MapTree.t_count t = 10).
Proof. exact MB.level5_some. Qed.
Example C05_uint32_map_example_twins_detect :
  (MB.e_can_lend_ck [40; 50] 98 110 99 = None /\ MB.split_point_ck [10] 4294967300 5 4294967290 0 = None) /\
  MB.n_can_lend_to_left_ck MB.xc (MB.xleaf 2 3 [1;2;3;4]) 300 = None /\
  MB.mt_remove_ck MB.xdg 4 MB.xc
    (MapTree.mkmt (MapTree.MD (MapTree.mkmhdr 1 68 10) 0 (MapElems.HKey 0 [10] [MB.xe 1] 66)) 1 0) 1 = None.
Proof. exact (conj MB.level1_none (conj (proj1 MB.level2_none) MB.level5_none)). Qed.

(** Non-vacuity: a history at T = 256 (60 appends of maximal elements, 40 inserts of growing sizes, 30
    overwrites, 90 removals, a read, a pop) that splits, merges, lends, borrows, splits and promotes the
    root; and sensitivity: outside the invariant the twins report the wrap *)
Example C05_uint32_example_history :
  let c := set_threshold 256 in
  Forall (aop_ok c) ex_ops /\
  a_run_ck c (fst (arr_init 1 7)) ex_ops = Some (a_run c (fst (arr_init 1 7)) ex_ops) /\
  a_count (fst (a_run c (fst (arr_init 1 7)) (firstn 100 ex_ops))) = 100 /\
  is_data (a_root (fst (a_run c (fst (arr_init 1 7)) (firstn 100 ex_ops)))) = false.
Proof. exact ex_run_no_wrap. Qed.

Example C05_uint32_example_twins_detect :
  let c := set_threshold 256 in
  d_can_lend_ck [mkelem 1 30 0; mkelem 2 30 0] 71 128 72 = None /\
  d_can_lend [mkelem 1 30 0; mkelem 2 30 0] 71 128 72 = false /\
  a_step_ck c (mkarr (AD (mkhdr 1 10 1) 0 [mkelem 1 20 0]) 1 0) (ORemove 0) = None /\
  a_step_ck c (mkarr (AD (mkhdr 1 47 0) 0 [mkelem 1 20 0]) 1 0) (ORemove 0) = None /\
  split_point_ck [mkelem 1 30 0; mkelem 2 30 0] 20 10 0 0 = None.
Proof. exact ex_twins_detect. Qed.

Print Assumptions C05_uint32_array_header_sizes_bounded.
Print Assumptions C05_gen_predicates_apply_to_reachable.
Print Assumptions C05_uint32_updated_child_header_bounded.
Print Assumptions C05_uint32_root_mid_header_bounded.
Print Assumptions C05_uint32_map_header_sizes_bounded.
Print Assumptions C05_gen_predicates_apply_to_reachable_map.
Print Assumptions C05_uint32_map_updated_child_header_bounded.
Print Assumptions C05_uint32_map_root_mid_header_bounded.
Print Assumptions C05_uint32_usub_meaning.
Print Assumptions C05_uint32_uadd_meaning.
Print Assumptions C05_uint32_umul_meaning.
Print Assumptions C05_uint32_twins_report.
Print Assumptions C05_uint32_split_point_no_wrap.
Print Assumptions C05_uint32_lend_loop_no_wrap.
Print Assumptions C05_uint32_borrow_loop_no_wrap.
Print Assumptions C05_uint32_can_lend_loop_no_wrap.
Print Assumptions C05_uint32_d_can_lend_no_wrap.
Print Assumptions C05_uint32_split_point_call_site.
Print Assumptions C05_uint32_lend_loop_call_site.
Print Assumptions C05_uint32_borrow_loop_call_site.
Print Assumptions C05_uint32_can_lend_call_site.
Print Assumptions C05_uint32_d_can_lend_call_site.
Print Assumptions C05_uint32_route_no_wrap.
Print Assumptions C05_uint32_move_counts_no_wrap.
Print Assumptions C05_uint32_split_no_wrap.
Print Assumptions C05_uint32_merge_no_wrap.
Print Assumptions C05_uint32_split_child_no_wrap.
Print Assumptions C05_uint32_merge_or_rebalance_no_wrap.
Print Assumptions C05_uint32_subtree_ops_no_wrap.
Print Assumptions C05_uint32_array_step_no_wrap.
Print Assumptions C05_uint32_array_reachable_no_wrap.
Print Assumptions C05_uint32_map_split_point_no_wrap.
Print Assumptions C05_uint32_map_lend_loop_no_wrap.
Print Assumptions C05_uint32_map_borrow_loop_no_wrap.
Print Assumptions C05_uint32_map_can_lend_loop_no_wrap.
Print Assumptions C05_uint32_map_e_can_lend_no_wrap.
Print Assumptions C05_uint32_map_can_lend_call_site.
Print Assumptions C05_uint32_map_deficit_bound.
Print Assumptions C05_uint32_map_slab_ops_no_wrap.
Print Assumptions C05_uint32_map_lend_after_can_lend.
Print Assumptions C05_uint32_map_borrow_after_can_lend.
Print Assumptions C05_uint32_map_fix_child_no_wrap.
Print Assumptions C05_uint32_map_subtree_ops_no_wrap.
Print Assumptions C05_uint32_map_step_no_wrap.
Print Assumptions C05_uint32_map_reachable_no_wrap.
Print Assumptions C05_uint32_map_reachable_step_no_wrap.
