(* C07 — Slab encoding is canonical, self-describing and round-trips exactly.
   Property theorems only; each is closed by [exact] of a lemma of proofs/Codec_proofs.v.
   Scope of the byte-level model (theories/Codec.v): version-1 encodings of array index slabs, map index
   slabs, storable slabs, array data slabs and map data slabs (hkey elements, single elements,
   inline collision groups nested to any depth, external collision groups, list mode), root and
   non-root, with and without sibling link, elements from {Uint8/16/32/64Value, StringValue,
   SlabIDStorable, SomeStorable (both encodings)}.  Slabs with inlined children (and compact
   maps) are the subject of props/C07_inlined.v and C07_compact.v over theories/CodecInl.v. *)
From Coq Require Import ZArith NArith List Bool.
From AtreeGen Require Import Consts CodecConsts.
From AtreeModel Require Import Codec.
From AtreeProofs Require Import Codec_proofs.
Import ListNotations.
Local Open Scope N_scope.

(* decoding what the encoder wrote gives back the slab: same elements in order, type info,
   counts, seeds, sibling link, flags *)
Theorem C07_decode_encode : forall s, swf s = true -> decode_slab (sid s) (encode_slab s) = Some s.
Proof. exact decode_encode. Qed.

(* decode then re-encode gives identical bytes *)
Theorem C07_reencode : forall s, swf s = true ->
  option_map encode_slab (decode_slab (sid s) (encode_slab s)) = Some (encode_slab s).
Proof. exact reencode. Qed.

(* the three flags readable from the raw bytes (IsRootOfAnObject, HasPointers, HasSizeLimit)
   describe the content.  [holds_slab_refs] is defined on content: some element, at any wrapping
   depth, is a slab reference or an external collision group; for index slabs (no elements) it is
   false, which is what the format writes. *)
Theorem C07_flags : forall s,
  raw_is_root (encode_slab s) = Some (is_root s) /\
  raw_has_pointers (encode_slab s) = Some (holds_slab_refs s) /\
  raw_has_size_limit (encode_slab s) = Some (negb (any_size s)).
Proof. exact flags_describe_content. Qed.

(* extraneous bytes are rejected by the decoders of index slabs and array data slabs ... *)
Theorem C07_no_trailing : forall i b s x, decode_slab i b = Some s -> checks_trailing s = true -> x <> [] ->
  decode_slab i (b ++ x) = None.
Proof. exact no_trailing. Qed.

(* ... but NOT by the decoders of map data slabs and storable slabs (newMapDataSlabFromDataV1 has no
   end-of-data check, DecodeSlab's storable case neither): a finding about canonicity of the
   accepted input, see C07_map_data_accepts_trailing below. *)

(* canonical form of the fixed-layout kinds: a well-formed byte string that decodes to a non-root
   index slab is, after its 2-byte head, exactly the encoding of that slab.  (Root index slabs
   and all CBOR parts accept non-shortest heads, and the decoders ignore the undefined head bits:
   examples below.) *)
Theorem C07_decode_canonical : forall i b s, bytes_ok b -> decode_slab i b = Some s ->
  is_meta s = true -> is_root s = false -> meta_addr_ok s ->
  skipn 2 (encode_slab s) = skipn 2 b.
Proof. exact decode_canonical. Qed.

(* the encoder produces bytes *)
Theorem C07_encode_is_bytes : forall s, swf s = true -> bytes_ok (encode_slab s).
Proof. exact encode_bytes_ok. Qed.

(* ---------- examples (vm_compute) ---------- *)

(* a root map data slab with a scalar entry, a wrapped string, a two-level inline collision group
   ending in list mode and an external collision group *)
Definition ex_map : slab :=
  SMapData 3 1 (Some (mk_mextra (TSimple 50) 7 9765714751975633507)) 0 0 false false
    (HkeyElems 0 [4728050203890185285; 5; 6]
       [ESingle (SUint W64 151593) (SSome (SString [122; 111]));
        EGroupH 1 [7; 8]
          [ESingle (SUint W8 1) (SSome (SSome (SSome (SUint W16 300))));
           EGroupS 2 [(SString [97], SUint W32 70000); (SString [98], SSlabID 3 9)]];
        EExt 3 17]).

(* a non-root array data slab with a sibling and a reference *)
Definition ex_array : slab :=
  SArrayData 3 2 None 3 4 [SUint W64 26; SString [104; 105]; SSome (SSlabID 1 2); SUint W8 255].

Definition ex_meta : slab :=
  SArrayMeta 3 5 (Some (TTagged 201 2)) [mk_ahdr 3 6 20 250; mk_ahdr 3 7 40 251; mk_ahdr 3 8 1 30].

Example C07_example_wf : swf ex_map = true /\ swf ex_array = true /\ swf ex_meta = true.
Proof. vm_compute. repeat split. Qed.

Example C07_example_roundtrip :
  decode_slab (3, 1) (encode_slab ex_map) = Some ex_map /\
  decode_slab (3, 2) (encode_slab ex_array) = Some ex_array /\
  decode_slab (3, 5) (encode_slab ex_meta) = Some ex_meta.
Proof. vm_compute. repeat split. Qed.

Example C07_example_bytes :
  encode_slab ex_array =
  [18; 64; 0; 0; 0; 0; 0; 0; 0; 3; 0; 0; 0; 0; 0; 0; 0; 4; 153; 0; 4; 216; 164; 24; 26; 98; 104; 105;
   216; 165; 216; 255; 80; 0; 0; 0; 0; 0; 0; 0; 1; 0; 0; 0; 0; 0; 0; 0; 2; 216; 161; 24; 255].
Proof. vm_compute. reflexivity. Qed.

Example C07_example_flags :
  raw_is_root (encode_slab ex_map) = Some true /\ raw_has_pointers (encode_slab ex_map) = Some true /\
  raw_has_size_limit (encode_slab ex_map) = Some true /\
  raw_is_root (encode_slab ex_array) = Some false /\ raw_has_pointers (encode_slab ex_array) = Some true /\
  raw_has_pointers (encode_slab ex_meta) = Some false.
Proof. vm_compute. repeat split. Qed.

Example C07_example_no_trailing : decode_slab (3, 2) (encode_slab ex_array ++ [0]) = None.
Proof. vm_compute. reflexivity. Qed.

(* the hypotheses of C07_decode_canonical are satisfiable *)
Definition ex_meta_nonroot : slab := SMapMeta 3 5 None [mk_mhdr 3 6 20 250; mk_mhdr 3 7 18446744073709551615 251].
Example C07_example_canonical_hyps :
  decode_slab (3, 5) (encode_slab ex_meta_nonroot) = Some ex_meta_nonroot /\
  is_meta ex_meta_nonroot = true /\ is_root ex_meta_nonroot = false /\ meta_addr_ok ex_meta_nonroot.
Proof. repeat split; try (vm_compute; reflexivity); try discriminate. repeat constructor. Qed.

(* FINDING (accepted input is not canonical): a map data slab followed by garbage decodes to the same slab *)
Example C07_map_data_accepts_trailing :
  decode_slab (3, 1) (encode_slab ex_map ++ [255; 255; 255]) = Some ex_map.
Proof. vm_compute. reflexivity. Qed.
Example C07_storable_slab_accepts_trailing :
  decode_slab (1, 1) (encode_slab (SStorable 1 1 (SUint W8 7)) ++ [0]) = Some (SStorable 1 1 (SUint W8 7)).
Proof. vm_compute. reflexivity. Qed.

(* the decoders ignore the undefined bits of the head: 0x1c 0x61 decodes like 0x10 0x01 *)
Example C07_head_bits_ignored :
  let b := encode_slab (SArrayMeta 3 5 None [mk_ahdr 3 6 20 250]) in
  decode_slab (3, 5) (28 :: 97 :: skipn 2 b) = decode_slab (3, 5) b /\ firstn 2 b = [16; 1].
Proof. vm_compute. split; reflexivity. Qed.

(* CBOR parts accept non-shortest heads: type info 42 written as 0x19 0x00 0x2a in a root's extra data *)
Example C07_root_not_canonical :
  decode_slab (3, 5) ([16; 129; 129; 25; 0; 42] ++ skipn 5 (encode_slab (SArrayMeta 3 5 (Some (TSimple 42)) [mk_ahdr 3 6 20 250])))
  = Some (SArrayMeta 3 5 (Some (TSimple 42)) [mk_ahdr 3 6 20 250]).
Proof. vm_compute. reflexivity. Qed.

(* outside swf: an EMPTY list-mode group would be written as `83 level 40 99 00 00` and read back
   as an (empty) hkey group; the library never builds one (a group that shrinks to one entry is
   replaced by that entry) *)
Example C07_empty_list_group_not_roundtrip :
  decode_slab (1, 1) (encode_slab (SMapData 1 1 None 0 0 false false (SingleElems 4 [])))
  = Some (SMapData 1 1 None 0 0 false false (HkeyElems 4 [] [])).
Proof. vm_compute. reflexivity. Qed.

Print Assumptions C07_decode_encode.
Print Assumptions C07_reencode.
Print Assumptions C07_flags.
Print Assumptions C07_no_trailing.
Print Assumptions C07_decode_canonical.
Print Assumptions C07_encode_is_bytes.
