(* C05 (map half, slab tree) — the size/shape invariant of the OrderedMap slab tree is preserved by
   every operation, for EVERY legal slab size, every digest assignment and every history; slab-level
   statements (split / merge / lend / borrow of data and index slabs, the parent's fix-up, the root
   fix-up).  Property theorems only; proofs in proofs/MapRebalance_proofs.v, MapFixup_proofs.v,
   MapTreeOps_proofs.v, Map_proofs.v.  Arithmetic of the loops: props/C05_map.v.

   Invariant: [mtwf] (MapTreeInv.v: every non-root slab inside [min, max], root <= max, cached sizes
   = prefix + recomputed sizes, header copies = children's headers, firstKey = first digest, children's
   key ranges ordered, element-level invariant in every leaf, count = number of entries)
   strengthened to the INDUCTIVE invariant [minv] = mtwf + "the last leaf has no sibling" + "every
   stored pair — also those inside collision groups — respects the single-element limit and its key
   has its recorded size".  [mtwf] alone is not inductive: C05_map_mtwf_alone_not_inductive. *)
From Coq Require Import ZArith NArith List Bool.
From AtreeGen Require Import Consts.
From AtreeModel Require Import Settings MapElems MapElemsInv MapTree MapTreeInv.
From AtreeProofs Require Import Settings_proofs MapElems_proofs MapTree_proofs
  MapRebalance_proofs MapFixup_proofs MapTreeOps_proofs MapTreeIter_proofs Map_proofs.
Import ListNotations.
Local Open Scope N_scope.

(* every operation preserves the invariant (hence the tree invariant mtwf), from ANY state that
   satisfies it *)
Theorem C05_map_wf_preserved :
  forall T dg limit levels ks t o,
    valid_T T -> (1 <= levels)%nat -> minv dg levels T ks t -> mop_ok T ks o ->
    let c := set_threshold T in
    let t' := fst (fst (mt_step dg levels (cinl_melem c) limit c t o)) in
    minv dg levels T ks t' /\ mtwf dg levels c t' /\ t_rootid t' = t_rootid t.
Proof.
  intros T dg limit levels ks t o HT Hlv Hi Ho. cbv zeta.
  pose proof (mt_step_ok dg levels T HT Hlv limit ks t o Hi Ho) as H.
  destruct (mt_step _ _ _ _ _ t o) as [[t' x] lg]. destruct (m_step _ _ _ _ _ o) as [[s' y] evs].
  cbn [fst]. destruct H as (_ & _ & _ & H4 & H5). split; [exact H4|]. split; [apply H4|exact H5].
Qed.

(* every state reachable from the empty map satisfies it *)
Theorem C05_map_reachable :
  forall T dg limit levels ks rootid ops,
    valid_T T -> (1 <= levels)%nat -> Forall (mop_ok T ks) ops ->
    let c := set_threshold T in
    let t := fst (mt_run dg levels (cinl_melem c) limit c (fst (mt_init rootid)) ops) in
    minv dg levels T ks t /\ mtwf dg levels c t.
Proof.
  intros T dg limit levels ks rootid ops HT Hlv Hops. cbv zeta.
  pose proof (mt_run_from_empty dg levels T HT Hlv limit ks rootid ops Hops) as H.
  destruct (mt_run _ _ _ _ _ _ _) as [t outs]. destruct (d_run _ _ _ _ _) as [d outs'].
  cbn [fst]. destruct H as (_ & _ & _ & H4 & _). split; [exact H4|apply H4].
Qed.

(* ---------- slab level (M1) ---------- *)

(* hkeyElements.BorrowFromRight after CanLendToLeft said yes (the twin of C05_map_lend_keeps_bands):
   zs = element costs of the right (lending) slab, sL = data size of the left (underflowing) slab *)
Theorem C05_map_borrow_keeps_bands : forall T zs sL lc0,
  valid_T T -> let c := set_threshold T in
  Forall (fun z => 0 < z <= Emax c) zs ->
  let sR := Nsum zs in
  P + HP + sR <= cmax c -> P + HP + sL < cmin c ->
  e_can_lend zs (HP + sR) (cmin c - P) (cmin c - (P + HP + sL)) = true ->
  let size := (HP + sL) + (HP + sR) - HP * 2 in
  let ls := snd (borrow_loop zs size ((size + 1) / 2) (cmin c - P - HP) lc0 (HP + sL - HP)) in
  cmin c <= P + HP + ls <= cmax c /\ cmin c <= P + HP + (size - ls) <= cmax c.
Proof. exact map_borrow_keeps_bands. Qed.

(* Split (data or index slab of any height): a well-formed slab above the maximum by at most one
   element cost / one header splits into two well-formed slabs inside the band; digests and
   elements concatenate to the original (so every digest of the left part is smaller than every
   digest of the right part: they are strictly ascending); the left keeps identity and firstKey, the
   right gets the new identifier, its firstKey is its first digest (part of [mwfn]) and it inherits
   the sibling link *)
Theorem C05_map_split_ok : forall T dg levels d n newid,
  valid_T T -> (1 <= levels)%nat ->
  let c := set_threshold T in
  mwfn dg levels c d n -> cmax c < mh_size (hdr_of n) -> mh_size (hdr_of n) <= cmax c + slack T n ->
  exists l r, n_split n newid = TOk (l, r) /\
    mwfn dg levels c d l /\ mwfn dg levels c d r /\ in_band c l /\ in_band c r /\
    keys_of l ++ keys_of r = keys_of n /\ elems_flat l ++ elems_flat r = elems_flat n /\
    mh_id (hdr_of l) = mh_id (hdr_of n) /\ mh_id (hdr_of r) = newid /\
    mh_first (hdr_of l) = mh_first (hdr_of n) /\ last_next r = last_next n.
Proof. intros T dg levels d n newid HT Hlv. exact (split_ok dg levels T HT Hlv d n newid). Qed.

(* the key ranges after a split, explicitly *)
Theorem C05_map_split_ranges : forall T dg levels d n newid l r,
  valid_T T -> (1 <= levels)%nat ->
  let c := set_threshold T in
  mwfn dg levels c d n -> cmax c < mh_size (hdr_of n) -> mh_size (hdr_of n) <= cmax c + slack T n ->
  n_split n newid = TOk (l, r) ->
  (forall x y, In x (keys_of l) -> In y (keys_of r) -> x < y) /\
  keys_of l <> [] /\ keys_of r <> [] /\
  mh_first (hdr_of l) = hd 0 (keys_of l) /\ mh_first (hdr_of r) = hd 0 (keys_of r).
Proof. intros T dg levels d n newid l r HT Hlv. exact (split_ranges dg levels T HT Hlv d n newid l r). Qed.

Theorem C05_map_merge_ok : forall T dg levels d l r,
  valid_T T -> (1 <= levels)%nat ->
  let c := set_threshold T in
  mwfn dg levels c d l -> mwfn dg levels c d r -> ssorted (keys_of l ++ keys_of r) ->
  exists m, n_merge l r = TOk m /\ mwfn dg levels c d m /\
    keys_of m = keys_of l ++ keys_of r /\ elems_flat m = elems_flat l ++ elems_flat r /\
    mh_id (hdr_of m) = mh_id (hdr_of l) /\
    mh_size (hdr_of m) + pfx_of l = mh_size (hdr_of l) + mh_size (hdr_of r) /\
    last_next m = last_next r.
Proof. intros T dg levels d l r HT Hlv. exact (merge_ok dg levels T HT Hlv d l r). Qed.

Theorem C05_map_lend_ok : forall T dg levels d l r need,
  valid_T T -> (1 <= levels)%nat ->
  let c := set_threshold T in
  mwfn dg levels c d l -> mwfn dg levels c d r -> in_band c l ->
  mh_size (hdr_of r) + need = cmin c -> 0 < need ->
  ssorted (keys_of l ++ keys_of r) -> n_can_lend_to_right c l need = true ->
  exists l' r', n_lend_to_right c l r = TOk (l', r') /\
    mwfn dg levels c d l' /\ mwfn dg levels c d r' /\ in_band c l' /\ in_band c r' /\
    keys_of l' ++ keys_of r' = keys_of l ++ keys_of r /\
    elems_flat l' ++ elems_flat r' = elems_flat l ++ elems_flat r /\
    mh_id (hdr_of l') = mh_id (hdr_of l) /\ mh_id (hdr_of r') = mh_id (hdr_of r) /\
    mh_first (hdr_of l') = mh_first (hdr_of l) /\ last_next r' = last_next r.
Proof. intros T dg levels d l r need HT Hlv. exact (lend_ok dg levels T HT Hlv d l r need). Qed.

Theorem C05_map_borrow_ok : forall T dg levels d l r need,
  valid_T T -> (1 <= levels)%nat ->
  let c := set_threshold T in
  mwfn dg levels c d l -> mwfn dg levels c d r -> in_band c r ->
  mh_size (hdr_of l) + need = cmin c -> 0 < need ->
  ssorted (keys_of l ++ keys_of r) -> n_can_lend_to_left c r need = true ->
  exists l' r', n_borrow_from_right c l r = TOk (l', r') /\
    mwfn dg levels c d l' /\ mwfn dg levels c d r' /\ in_band c l' /\ in_band c r' /\
    keys_of l' ++ keys_of r' = keys_of l ++ keys_of r /\
    elems_flat l' ++ elems_flat r' = elems_flat l ++ elems_flat r /\
    mh_id (hdr_of l') = mh_id (hdr_of l) /\ mh_id (hdr_of r') = mh_id (hdr_of r) /\
    last_next r' = last_next r.
Proof. intros T dg levels d l r need HT Hlv. exact (borrow_ok dg levels T HT Hlv d l r need). Qed.

(* "merge only when no sibling can lend": then the merged slab fits the maximum *)
Theorem C05_map_cannot_lend_merge_le_max : forall T dg levels d l r need,
  valid_T T -> (1 <= levels)%nat ->
  let c := set_threshold T in
  mwfn dg levels c d l -> mwfn dg levels c d r ->
  (in_band c l -> mh_size (hdr_of r) + need = cmin c -> 0 < need -> n_can_lend_to_right c l need = false ->
     mh_size (hdr_of l) + mh_size (hdr_of r) <= cmax c + pfx_of l) /\
  (in_band c r -> mh_size (hdr_of l) + need = cmin c -> 0 < need -> n_can_lend_to_left c r need = false ->
     mh_size (hdr_of l) + mh_size (hdr_of r) <= cmax c + pfx_of l).
Proof.
  intros T dg levels d l r need HT Hlv c Hl Hr. split; intros.
  - eapply (cannot_lend_right_merge_le_max dg levels T HT Hlv); eauto.
  - eapply (cannot_lend_left_merge_le_max dg levels T HT Hlv); eauto.
Qed.

(* the parent's fix-up (common tail of MapMetaDataSlab.Set / Remove): child [ch] at position
   [length pre] has been replaced by a well-formed [ch'] that is at most one element cost / one
   header above the maximum (or underflowing by any amount); the siblings are well-formed and in
   the band, the digests stay ordered.  Then SplitChildSlab / MergeOrRebalanceChildSlab / plain
   store succeeds (no "panic" cell, no split/merge/rebalance error), the result is a well-formed index
   slab — ALL children back in the band, header copies, size, firstKey and key ranges right —
   holding the same digests and elements, with the same identity and last sibling link, and its
   size changed by at most one header *)
Theorem C05_map_fix_child : forall T dg levels d h pre ch ch' post alloc,
  valid_T T -> (1 <= levels)%nat ->
  let c := set_threshold T in
  kids_ok dg levels T d pre -> kids_ok dg levels T d post -> mwfn dg levels c d ch' -> (pre <> [] \/ post <> []) ->
  let cs := pre ++ ch :: post in
  let cs' := pre ++ ch' :: post in
  ssorted (flat_map keys_of cs') ->
  mh_size h = PM + N.of_nat (length cs) * HS -> mh_first h = hfirst (map hdr_of cs) ->
  mh_size (hdr_of ch') <= cmax c + slack T ch' ->
  exists n' alloc' lg,
    fix_child c h (map hdr_of cs) cs (length pre) ch' alloc = TOk (n', alloc', lg) /\
    fix_good dg levels T d h cs' n' /\ alloc <= alloc' /\ alloc' <= alloc + 1 /\
    mh_size (hdr_of n') <= mh_size h + HS /\ mh_size h <= mh_size (hdr_of n') + HS.
Proof. intros T dg levels d h pre ch ch' post alloc HT Hlv. exact (fix_child_ok dg levels T HT Hlv d h pre ch ch' post alloc). Qed.

(* the root fix-up of OrderedMap.set / remove (promote a single child, THEN split a full root):
   from a root that is a data slab at most one element above the maximum, or a well-formed index slab
   at most one header above it (possibly left with a single child), the result is a well-formed
   root with the same digests, elements, identifier and count *)
Theorem C05_map_fix_root : forall T dg levels r' alloc cnt,
  valid_T T -> (1 <= levels)%nat ->
  let c := set_threshold T in
  root_mid dg levels T r' ->
  exists t2 lg, fix_root c (mkmt r' alloc cnt) = (TOk t2, lg) /\
    mwf_root dg levels c (t_root t2) /\ keys_of (t_root t2) = keys_of r' /\ elems_flat (t_root t2) = elems_flat r' /\
    t_count t2 = cnt /\ last_next (t_root t2) = 0 /\ mh_id (hdr_of (t_root t2)) = mh_id (hdr_of r').
Proof. intros T dg levels r' alloc cnt HT Hlv. exact (fix_root_ok dg levels T HT Hlv (fun _ => 0) r' alloc cnt). Qed.

(* ---------- [mtwf] alone is not inductive ---------- *)
(* T = 256 (maxInlineMapElementSize 107).  A root data slab with ONE element: an external collision
   group holding two single elements, one of 201 bytes — [mtwf] does not look inside groups, the state
   satisfies it (it is not reachable through Set with Storable()-sized arguments).  Removing the small
   key collapses the group into its last element, which is now a 201-byte level-0 element: the
   per-element bound of [mtwf] fails.  Hence the strengthened invariant [minv]. *)
Definition cx_dg (k : N) (l : nat) : N := match l with O => 5 | 1%nat => k mod 2 | _ => k end.
Definition cx_group : melems :=
  let es := [ESingle (mkkv 2 3) (mkkv 12 3); ESingle (mkkv 1 100) (mkkv 11 100)] in HKey 1 [0; 1] es (hk_recompute es).
Definition cx_tree : mtree :=
  let es := [EGroup (Some 2) cx_group] in
  mkmt (MD (mkmhdr 1 (RP + hk_recompute es) 5) 0 (HKey 0 [5] es (hk_recompute es))) 2 2.

Example C05_map_mtwf_alone_not_inductive :
  let c := set_threshold 256 in
  mtwf cx_dg 4 c cx_tree /\
  ~ mtwf cx_dg 4 c (fst (fst (mt_step cx_dg 4 (cinl_melem c) 255 c cx_tree (ORemove 2)))).
Proof.
  split.
  - apply (mtwfb_sound cx_dg 4 (set_threshold 256) cx_tree). vm_compute. reflexivity.
  - intros [Hr _].
    assert (E : t_root (fst (fst (mt_step cx_dg 4 (cinl_melem (set_threshold 256)) 255 (set_threshold 256) cx_tree (ORemove 2))))
                = MD (mkmhdr 1 219 5) 0 (HKey 0 [5] [ESingle (mkkv 1 100) (mkkv 11 100)] 217)) by (vm_compute; reflexivity).
    rewrite E in Hr. inversion Hr as [h hks els sz Hg He Hf Hs Hx|]; subst.
    apply Forall_inv in He. unfold elem_ok in He. vm_compute in He. apply He. reflexivity.
Qed.

(* ---------- the hypotheses of the slab-level theorems are satisfiable ---------- *)
(* T = 256: a data slab with four 107-byte elements (454 bytes > max 384, <= max + Emax) is
   well-formed and splits into two slabs of 240 bytes *)
Definition sx_dg (k : N) (l : nat) : N := match l with O => 10 * k | _ => k end.
Definition sx_leaf : mnode :=
  let es := map (fun i => ESingle (mkkv i 9) (mkkv (100 + i) 89)) [1; 2; 3; 4] in
  MD (mkmhdr 7 (P + hk_recompute es) 10) 0 (HKey 0 [10; 20; 30; 40] es (hk_recompute es)).

Example C05_map_split_example :
  let c := set_threshold 256 in
  mwfn sx_dg 4 c 0 sx_leaf /\ cmax c < mh_size (hdr_of sx_leaf) /\ mh_size (hdr_of sx_leaf) <= cmax c + slack 256 sx_leaf /\
  match n_split sx_leaf 8 with
  | TOk (l, r) => mh_size (hdr_of l) = 240 /\ mh_size (hdr_of r) = 240 /\ mh_first (hdr_of r) = 30
  | TErr _ => False
  end.
Proof.
  split; [|vm_compute; repeat split; discriminate].
  apply (mwfnb_sound sx_dg 4 (set_threshold 256) sx_leaf 0). vm_compute. reflexivity.
Qed.

Print Assumptions C05_map_wf_preserved.
Print Assumptions C05_map_reachable.
Print Assumptions C05_map_borrow_keeps_bands.
Print Assumptions C05_map_split_ok.
Print Assumptions C05_map_split_ranges.
Print Assumptions C05_map_merge_ok.
Print Assumptions C05_map_lend_ok.
Print Assumptions C05_map_borrow_ok.
Print Assumptions C05_map_cannot_lend_merge_le_max.
Print Assumptions C05_map_fix_child.
Print Assumptions C05_map_fix_root.
Print Assumptions C05_map_mtwf_alone_not_inductive.
Print Assumptions C05_map_split_example.
