(* C10 (self-set) — writing the child container a slot ALREADY HOLDS back into that slot
   (Array.Set(i, child) / OrderedMap.Set(key, child) with the array / map that sits there, wrapped
   as it is stored) is a mutation of the parent like any other: it never fails, changes no
   container, and the stored container enclosing the parent is persisted by the next commit.
   Model: theories/Nested.v + NestedFresh.v + NestedSelfSet.v; proofs: proofs/NestedSelfSet_proofs.v,
   proofs/NestedSelfSet_examples.v.

   The operation language of Nested.v requires a container handed to insert / set to be UNATTACHED
   ([elem_ok]), so it has no such operation; the library supports it (guard isInlinedSlabOfValue of
   inline_utils.go, repair "fix: keep an inlined child container inlined when it is set back into
   its own slot" = finding F4).  [HSelfSet par loc] (loc = index / key identity of the slot) is
   [self_set]: the private a.set / m.set of the model ([cset_body]: Storable decision of the child
   for its slot, element replaced by itself, cached size recomputed, the slab of par stored unless
   inlined, callback and index-map entry of the child written again, notifyParentIfNeeded) WITHOUT
   the uninline of the overwritten element.  [reach2 n g]: the forests reachable from the empty one
   by the operations of [reach'] (C10_fresh.v) and [HSelfSet]. *)
From Coq Require Import ZArith NArith List Bool Lia.
From AtreeModel Require Import Proto Nested NestedErr NestedFresh NestedSelfSet NestedTrace NestedSelfSetTrace.
From AtreeProofs Require Import Nested_proofs Nested_examples NestedFresh_proofs NestedFresh_examples
     NestedSelfSet_proofs NestedSelfSet_examples NestedSelfSetTrace_proofs.
Import ListNotations.
Local Open Scope N_scope.

(* a self-set of a slot that holds a child container never fails and preserves the forest invariant;
   the forest afterwards is the forest before plus store entries in the write log: every container
   keeps its kind, elements, inline flag, cached size, index map and callback (only a stale
   callback of a container that sits in no slot is dropped); the nearest stored ancestor-or-self of
   par is in the write set *)
Theorem C10_selfset_preserves : forall n g f par loc,
  fwf n g f -> hop2_ok n f (HSelfSet par loc) ->
  exists f', hstep2 n g f (HSelfSet par loc) = (f', true) /\ fwf n g f' /\ selfset_equiv f f' /\
    (forall k s0, enclosing k f' par = Some s0 -> dirty f' s0 = Some true).
Proof. exact selfset_fwf. Qed.

(* the write log exactly: ONE new entry, the store of the stored container that encloses par
   (par itself when it is not inlined) *)
Theorem C10_selfset_log : forall n g f par loc k e,
  fwf n g f -> selfset_ok f par loc -> enclosing k f par = Some e ->
  f_log (fst (self_set n g f par loc)) = (e, true) :: f_log f.
Proof. exact selfset_log. Qed.

(* the element handed back to the caller is the child itself, wrapped as the slot holds it
   (its inline flag is unchanged by C10_selfset_preserves: an inlined child comes back as its
   inlined slab, a stored child as the reference) *)
Theorem C10_selfset_returns_child : forall n g f par loc,
  fwf n g f -> selfset_ok f par loc ->
  exists c i s v w, fget f par = Some c /\ loc_index c loc = Some i /\ nth_error (c_slots c) i = Some s /\
    s_val s = NChild v w /\ snd (self_set_full n g f par loc) = Some (NChild v w).
Proof. exact selfset_returns. Qed.

(* through the handle of an attached container: the slot of ITS parent still holds it *)
Theorem C10_selfset_attached : forall n g f h loc p i s w,
  fwf n g f -> edge f p i s h w -> selfset_ok f h loc ->
  exists f', self_set n g f h loc = (f', true) /\ edge f' p i s h w /\ fwf n g f' /\
    (forall k s0, enclosing k f' h = Some s0 -> dirty f' s0 = Some true).
Proof. exact selfset_attached. Qed.

(* a request that names no slot holding a child container is an error and leaves no trace *)
Theorem C10_selfset_rejects : forall n g f par loc,
  ~ selfset_ok f par loc -> self_set n g f par loc = (f, false).
Proof. exact selfset_reject_id. Qed.

(* every step of the larger language succeeds and preserves the invariant *)
Theorem C10_hstep2_preserves : forall n g f h f' ok,
  fwf n g f -> hop2_ok n f h -> hstep2 n g f h = (f', ok) -> ok = true /\ fwf n g f'.
Proof. exact hstep2_fwf. Qed.

(* the invariant holds in every state reachable by interleaved parent / child operations,
   re-obtained wrappers and self-sets *)
Theorem C10_reachable_selfset : forall n g f, (0 < n)%nat -> reach2 n g f -> fwf n g f.
Proof. exact reach2_fwf. Qed.

(* [reach2] extends [reach'] (hence [reach]) *)
Theorem C10_reach'_included : forall n g f, reach' n g f -> reach2 n g f.
Proof. exact reach'_reach2. Qed.

(* hence C10_visible_and_persisted holds in every such state *)
Theorem C10_visible_and_persisted_selfset : forall n g f h o f' ok p i s w,
  (0 < n)%nat -> reach2 n g f -> edge f p i s h w -> op_ok n f (cop_nop h o) -> child_step n g f h o = (f', ok) ->
  ok = true /\
  (exists c c', fget f h = Some c /\ fget f' h = Some c' /\ c_slots c' = slots_after o (c_slots c)) /\
  edge f' p i s h w /\
  fwf n g f' /\
  (forall k s0, enclosing k f' h = Some s0 -> dirty f' s0 = Some true).
Proof. exact visible_and_persisted_selfset. Qed.

(* the code before the repair ([self_set_old]: the same step followed by uninlineStorableIfNeeded
   of the overwritten element) IS what the model's Array.Set / OrderedMap.Set do for any element,
   given the slot's own element *)
Theorem C10_selfset_old_is_arr_set : forall n g f p i c s v w,
  fget f p = Some c -> c_kind c = KArr -> nth_error (c_slots c) i = Some s -> s_val s = NChild v w ->
  self_set_old n g f p (N.of_nat i) = arr_set n g f p i (NChild v w).
Proof. exact self_set_old_arr_set. Qed.

Theorem C10_selfset_old_is_map_set : forall n g f p kid c i s v w,
  fget f p = Some c -> c_kind c = KMap -> find_key (c_slots c) kid = Some i -> nth_error (c_slots c) i = Some s ->
  s_val s = NChild v w ->
  self_set_old n g f p kid = map_set n g f p kid (s_ksz s) (NChild v w).
Proof. exact self_set_old_map_set. Qed.

(* finding F4: the code before the repair, applied to an INLINED child, reports no error and breaks
   the invariant: array 1 = [array 2 (5 scalars, inlined), 99], committed; Array.Set(0, array 2)
   marks array 2 as not inlined (stored on its own) while slot 0 of array 1 still holds it and it
   fits the slot; the cached size of array 1 (35) no longer matches its elements (22).  The
   repaired step on the same forest keeps the invariant. *)
Theorem C10_selfset_refuted_old :
  exists f p loc,
    reach 8 cfg1024 f /\ hop2_ok 8 f (HSelfSet p loc) /\
    let r := self_set_old 8 cfg1024 f p loc in
    snd r = true /\
    ~ fwf 8 cfg1024 (fst r) /\
    (exists v cv i s w, edge (fst r) p i s v w /\ fget (fst r) v = Some cv /\ c_inl cv = false /\
                        inl_size cv <= slot_lim cfg1024 KArr (s_ksz s) w) /\
    r = arr_set 8 cfg1024 f p (N.to_nat loc) (NChild 2 0) /\
    fwf 8 cfg1024 (fst (self_set 8 cfg1024 f p loc)).
Proof. exact selfset_refuted_old. Qed.

(* the lock-step engine `nested2` (theories/NestedSelfSetTrace.v, operation code 13 = self-set) is a
   conservative extension of the engine `nested`: a history without code 13 gets the same verdict *)
Theorem C10_engine_nested2_conservative : forall cfg tr,
  (forall o r, In (o, r) tr -> not13 o) -> chk_nested2 cfg tr = chk_nested cfg tr.
Proof. exact chk_nested2_conservative. Qed.

(* non-vacuity: reachable forests satisfying the hypotheses.  f0 (array 1 over the inlined array 2):
   the self-set of slot 0 adds the store of array 1 and nothing else.  fz (array 1 = [map 2],
   map 2 = {7 -> Some(array 3)}, maps 2 and array 3 inlined): the self-set of key 7 of the INLINED
   map 2 hands back Some(array 3) and adds the store of array 1, the enclosing stored container;
   the old code breaks the invariant there too; a history of the larger language through it *)
Example C10_selfset_example :
  fwf 8 cfg1024 f0 /\ hop2_ok 8 f0 (HSelfSet 1 0) /\
  self_set_full 8 cfg1024 f0 1 0 = (mkF (f_cs f0) [(1, true)], true, Some (NChild 2 0)) /\
  reach 8 cfg1024 fz /\ hop2_ok 8 fz (HSelfSet 2 7) /\
  self_set_full 8 cfg1024 fz 2 7 = (mkF (f_cs fz) [(1, true)], true, Some (NChild 3 1)) /\
  enclosing 8 fz 2 = Some 1 /\ f_log fz = [] /\
  ~ fwf 8 cfg1024 (fst (self_set_old 8 cfg1024 fz 2 7)) /\
  reach2 8 cfg1024 (fst (hrun2 8 cfg1024 fz [HSelfSet 2 7; H2 (HOp (OArrInsert 3 3 (sc 13))); H2 (HOp OCommit); H2 (HRehandle 1 None)])).
Proof.
  split; [exact fwf_f0|]. split; [exact selfset_ok_f0|]. split; [exact (proj1 selfset_f0)|].
  split; [exact reach_fz|]. split; [exact selfset_ok_fz|].
  destruct selfset_fz as (A & B & C & _). split; [exact A|]. split; [exact C|]. split; [exact B|].
  split; [exact selfset_old_fz_not_fwf|]. exact (proj1 (proj2 reach2_example)).
Qed.

Print Assumptions C10_selfset_preserves.
Print Assumptions C10_selfset_log.
Print Assumptions C10_selfset_returns_child.
Print Assumptions C10_selfset_attached.
Print Assumptions C10_selfset_rejects.
Print Assumptions C10_hstep2_preserves.
Print Assumptions C10_reachable_selfset.
Print Assumptions C10_reach'_included.
Print Assumptions C10_visible_and_persisted_selfset.
Print Assumptions C10_selfset_old_is_arr_set.
Print Assumptions C10_selfset_old_is_map_set.
Print Assumptions C10_selfset_refuted_old.
Print Assumptions C10_engine_nested2_conservative.
Print Assumptions C10_selfset_example.
