(* C14 (nested containers) — "A commit that fails part-way loses nothing: every pending change is
   still pending or durably written; any number of failed attempts followed by one fault-free commit
   converges to the state of a single fault-free commit" — for FORESTS of nested arrays / maps whose
   children are inlined in, or stored outside, their parent's slab and cross that line between the
   attempts.

   Model: theories/Nested.v (forest, write log [f_log]; C10 / C11), theories/NestedDurable.v (one
   ledger register per STORED container, [flatten] / [load] / [unfold]; C03_nested / C09_nested) and
   theories/NestedFaults.v (commit attempts).  props/C14_durable.v is the same property for the slab
   tree of ONE container over the storage model; what is added here is the part a single container
   cannot show: the registers of a parent and of its children are written by different ledger calls
   of one commit, so a fault separates them.  Vocabulary:
     [FTry order fail]   a commit attempt visiting the write set in the order [order] — any
                         duplicate-free list of dirty identifiers is admissible ([attempt_ok]): the
                         ascending order of Commit / FastCommit ([sorted_keys]) and every order
                         NondeterministicFastCommit can take (e.g. [nondet_order]: removals first);
                         [fail = Some k]: ledger call k (0-based) fails: exactly the first k
                         identifiers [processed order fail] are written / removed and leave the
                         write set, all others stay pending; an attempt not stopped by a fault
                         ([faulted order fail = false]) must visit the whole write set
     [hist_ok n g dinit l]  l is a history of forest operations (each satisfying its precondition
                         [op_ok], C10_reachable's notion), commit attempts of either kind with any
                         fault positions, cache drops and reopenings, each admissible where issued
     [sview n d]         reads through the storage instance: pending slab object, else ledger register
     [ops_of l]          the forest operations of l alone
     fuel n              > nesting depth. *)
From Coq Require Import ZArith NArith List Bool Lia Sorted.
From AtreeModel Require Import Nested NestedDurable NestedFaults.
From AtreeProofs Require Import Nested_proofs Nested_examples NestedDurable_base NestedDurable_proofs NestedDurable_examples
  NestedFaults_proofs.
Import ListNotations.
Local Open Scope N_scope.

(* FAILED COMMIT.  After any history l (which may itself contain failed attempts) and any further
   attempt with any order and any fault position — admissible or not —:
   - the containers are untouched and are those of the operations alone;
   - every pending change (v,b) is either still pending with its register untouched, or it was
     among the processed calls, left the write set, and its register now holds exactly the current
     flattening of v ([flat]: v's slots with its inlined descendants embedded; None for a removal);
     nothing becomes pending; registers outside the write set are untouched;
   - reading through the instance still yields exactly the current forest: every identifier reads as
     its flattening, and the reader started at any stored container r returns the forest below r. *)
Theorem C14_nested_failed_commit_keeps_view : forall n g l order fail,
  (0 < n)%nat -> hist_ok n g dinit l ->
  let d := fst (frun n g dinit l) in
  let d' := try_commit n d order fail in
  f_cs (d_f d') = f_cs (d_f d) /\
  f_cs (d_f d) = f_cs (fst (run n g empty_forest (ops_of l))) /\
  (forall v b, dirty (d_f d) v = Some b ->
     (dirty (d_f d') v = Some b /\ lookup (d_led d') v = lookup (d_led d) v /\ ~ In v (processed order fail)) \/
     (dirty (d_f d') v = None /\ lookup (d_led d') v = flat n (d_f d) v /\ In v (processed order fail))) /\
  (forall v, dirty (d_f d) v = None -> dirty (d_f d') v = None /\ lookup (d_led d') v = lookup (d_led d) v) /\
  (forall v, sview n d' v = flat n (d_f d) v) /\
  (forall r, stored (d_f d) r -> load n (sview n d') r = unfold n (d_f d) r /\ unfold n (d_f d) r <> None).
Proof. exact C14_nested_failed_commit_keeps_view_l. Qed.

(* RETRY.  Any number of failed attempts at any positions, in any orders, with further forest
   operations in between (children crossing the inline limit in both directions), followed by ONE
   attempt that no fault stops: nothing is pending, the ledger is the flattening of the current
   forest — which is the forest of the operations alone —, its registers are exactly the stored
   containers, and a fresh reader returns the forest below every stored container. *)
Theorem C14_nested_retry_durable : forall n g l order fail,
  (0 < n)%nat -> hist_ok n g dinit l ->
  let d := fst (frun n g dinit l) in
  attempt_ok (d_f d) order fail = true -> faulted order fail = false ->
  let d' := try_commit n d order fail in
  f_log (d_f d') = [] /\ f_cs (d_f d') = f_cs (d_f d) /\
  f_cs (d_f d) = f_cs (fst (run n g empty_forest (ops_of l))) /\
  (forall v, lookup (d_led d') v = lookup (flatten n (d_f d)) v) /\
  (forall v, In v (map fst (d_led d')) <-> stored (d_f d) v) /\
  (forall r, stored (d_f d) r -> load n (lookup (d_led d')) r = unfold n (d_f d) r /\ unfold n (d_f d) r <> None).
Proof. exact C14_nested_retry_durable_l. Qed.

(* CONVERGENCE.  The run WITHOUT any attempt, cache drop or reopening ([drun] of the operations alone)
   is a valid history with the same containers, and one fault-free commit of either kind at its end
   (any admissible order, or NestedDurable's [commit_ledger]) leaves the same ledger as the final
   fault-free attempt of the faulted run. *)
Theorem C14_nested_retry_converges : forall n g l order fail order0 fail0,
  (0 < n)%nat -> hist_ok n g dinit l ->
  let d := fst (frun n g dinit l) in
  let d0 := fst (drun n g dinit (ops_of l)) in
  attempt_ok (d_f d) order fail = true -> faulted order fail = false ->
  attempt_ok (d_f d0) order0 fail0 = true -> faulted order0 fail0 = false ->
  dreach n g d0 /\ snd (drun n g dinit (ops_of l)) = true /\
  f_cs (d_f d) = f_cs (d_f d0) /\
  (forall v, lookup (d_led (try_commit n d order fail)) v = lookup (d_led (try_commit n d0 order0 fail0)) v) /\
  (forall v, lookup (d_led (try_commit n d order fail)) v = lookup (commit_ledger n (d_f d0) (d_led d0)) v) /\
  (forall v, lookup (d_led (try_commit n d order fail)) v = lookup (flatten n (d_f d0)) v).
Proof. exact C14_nested_retry_converges_l. Qed.

(* the orders of the two commits are admissible (with any fault), as is every permutation of the
   write set; the first is ascending *)
Theorem C14_nested_orders_admissible : forall f fail,
  attempt_ok f (sorted_keys f) fail = true /\ Sorted N.le (sorted_keys f) /\
  attempt_ok f (nondet_order f) fail = true /\
  forall order, Permutation.Permutation order (dedup (dirty_keys f)) -> attempt_ok f order fail = true.
Proof. exact orders_admissible_l. Qed.

(* Non-vacuity (proofs/NestedFaults_proofs.v, maxInlineArrayElementSize = 33): parent 1 = [child 2
   (five 3-byte scalars, inlined), 99], committed; container 3 is created and a sixth element through
   the child handle uninlines the child; the commit of registers 1 2 3 in ascending order fails at its
   SECOND call: register 1 now references register 2, which does not exist — a fresh reader of the
   ledger fails (a crash here is not claimed to be consistent), the instance still loads the forest.
   Cache drop; the child shrinks (inlined again: its pending store becomes a pending removal); an
   order-relaxed commit (removal of 2, then 1, 3) fails at its third call; the child grows again; a
   commit fails at its first call; a fault-free order-relaxed commit then gives the ledger of the run
   without any attempt followed by one sorted commit. *)
Example C14_nested_inhabited :
  hist_ok 8 cfgS dinit xl /\ ops_of xl = xos /\ hist_ok 8 cfgS dinit xlA /\ hist_ok 8 cfgS dinit xlB /\
  sorted_keys (d_f xdA) = [1; 2; 3] /\ attempt_ok (d_f xdA) [1; 2; 3] (Some 1%nat) = true /\
  faulted [1; 2; 3] (Some 1%nat) = true /\
  map (dirty (d_f xdA)) [1; 2; 3] = [Some true; Some true; Some true] /\
  map (dirty (d_f xdA')) [1; 2; 3] = [None; Some true; Some true] /\
  lookup (d_led xdA) 1 = Some (KArr, [(0,0,TI 2 0 KArr five); (0,0,TS 99 3)]) /\
  lookup (d_led xdA') 1 = Some (KArr, [(0,0,TR 2 0); (0,0,TS 99 3)]) /\ lookup (d_led xdA') 2 = None /\
  load 8 (lookup (d_led xdA')) 1 = None /\
  load 8 (sview 8 xdA') 1 = Some (KArr, [(0,0,NC 2 0 KArr false (six 10)); (0,0,NS 99 3)]) /\
  load 8 (sview 8 xdA') 1 = unfold 8 (d_f xdA) 1 /\
  nondet_order (d_f xdB) = [2; 1; 3] /\ map (dirty (d_f xdB)) [1; 2; 3] = [Some true; Some false; Some true] /\
  map (dirty (d_f xd)) [1; 2; 3] = [Some true; Some true; Some true] /\
  map (lookup (d_led xd)) [2; 3] = [None; None] /\
  stored_ids 8 (d_f xd) = [1; 2; 3] /\
  attempt_ok (d_f xd) (nondet_order (d_f xd)) None = true /\ attempt_ok (d_f xd0) (sorted_keys (d_f xd0)) None = true /\
  map (lookup (d_led (try_commit 8 xd (nondet_order (d_f xd)) None))) [1; 2; 3; 4] =
  map (lookup (d_led (try_commit 8 xd0 (sorted_keys (d_f xd0)) None))) [1; 2; 3; 4] /\
  map (lookup (d_led (try_commit 8 xd (nondet_order (d_f xd)) None))) [1; 2; 3; 4] =
  [Some (KArr, [(0,0,TR 2 0); (0,0,TS 99 3)]);
   Some (KArr, [(0,0,TS 11 3); (0,0,TS 12 3); (0,0,TS 13 3); (0,0,TS 14 3); (0,0,TS 15 3); (0,0,TS 16 3)]);
   Some (KArr, []); None] /\
  load 8 (lookup (d_led (try_commit 8 xd (nondet_order (d_f xd)) None))) 1 =
    Some (KArr, [(0,0,NC 2 0 KArr false (six 11)); (0,0,NS 99 3)]).
Proof.
  split; [exact xl_ok|]. split; [exact xl_ops|]. split; [exact (xl_prefix_ok 12)|]. split; [exact (xl_prefix_ok 15)|].
  exact xl_facts.
Qed.

Print Assumptions C14_nested_failed_commit_keeps_view.
Print Assumptions C14_nested_retry_durable.
Print Assumptions C14_nested_retry_converges.
Print Assumptions C14_nested_orders_admissible.
