(* C09 (one map, large keys and values) — "after any history in which the caller disposes of every
   value the library hands back on removal or overwrite, the set of slabs in storage is exactly the
   set reachable from the live root … nothing else remains.  Emptying a container releases every
   auxiliary slab it used (…, large-value slabs)."

   Scope: ONE OrderedMap whose keys and values may be LARGE: a key above maxInlineMapKeySize, a
   value above maxInlineMapValueSize(stored key size) lives in its own StorableSlab and the element
   holds a reference (model MapExt.v on top of the slab-tree model MapTree.v; closes the part of
   C09_map.v that treated what Set / Remove / PopIterate hand back as plain (identity, size) pairs).

     [all_ids x]  every slab reachable from the root: the slabs of the tree and the external
                  collision groups (C09_map's [mslab_ids]) ++ the StorableSlab of every key / value
                  reference of every entry ([ext_ids x]);
     [lg]         the storeSlab / Storage.Remove calls of the operation, in order (incl. the storeSlab
                  of the new StorableSlabs);
     [back]       the slab indexes of the storables HANDED BACK to the caller: the previous value of
                  an overwrite, key and value of a Remove, everything PopIterate passes to its
                  callback.  The library removes none of them.

   What the Go code does with a large key that is ALREADY in the map (the question the model has to
   answer): key.Storable is called in newSingleElement only, which is reached only when the key is
   absent; singleElement.Set / singleElements.Set on an equal key call value.Storable alone.  No
   slab is created for the key of an update, the entry keeps its key slab: [C09_map_ext_update].
   Consequently the faithful model has NO leak and there is no [..._leak_refuted] theorem; the
   harness `mapext` confirms it on the Go code (registers == own walk after every operation).

   The theorems hold for every legal slab size T, every digest function (any collisions: large
   entries inside inline and external collision groups), any number of digest levels >= 1, any
   collision limit, and any assignment [kz] of true encoded sizes to key identities. *)
From Coq Require Import NArith ZArith List Bool Permutation.
From AtreeModel Require Import Settings MapElems MapElemsInv MapTree MapExt.
From AtreeProofs Require Import MapFrame_proofs Map_proofs MapExt_proofs.
Import ListNotations.
Local Open Scope N_scope.

(* ONE OPERATION from ANY state satisfying the invariant
     [xinv] = [Map_proofs.minv] of the slab tree (for the key-size function "19 if large") +
              all slab indexes of [all_ids] pairwise distinct, positive, at most the allocator:
   - the invariant holds again, the allocator never decreases, the root index never changes;
   - ACCOUNTING: reachable afterwards ++ removed by the library ++ handed back to the caller is a
     duplicate-free permutation of reachable before ++ the freshly allocated indexes (tree slabs,
     group slabs, key slabs, value slabs — all drawn from the one allocator), and every fresh index
     was stored: nothing leaks, nothing dangles, nothing is owned twice;
   - what is handed back was a key/value slab of the map, is no longer reachable and was not removed
     by the library (it is the caller's). *)
Theorem C09_map_ext_step : forall dg levels T limit kz x o x' out back lg,
  valid_T T -> (0 < levels)%nat ->
  xinv dg levels T kz x -> xop_ok kz o ->
  xm_step dg levels limit (set_threshold T) x o = (x', out, back, lg) ->
    xinv dg levels T kz x' /\ t_alloc (x_tree x) <= t_alloc (x_tree x') /\
    t_rootid (x_tree x') = t_rootid (x_tree x) /\
    NoDup (all_ids x' ++ removed lg ++ back) /\
    (exists n, t_alloc (x_tree x') = t_alloc (x_tree x) + N.of_nat n /\
       Permutation (all_ids x' ++ removed lg ++ back) (all_ids x ++ nseq (t_alloc (x_tree x)) n) /\
       (forall id, In id (nseq (t_alloc (x_tree x)) n) -> In (WStore id) lg)) /\
    incl back (ext_ids x) /\
    (forall id, In id back -> ~ In id (all_ids x') /\ ~ In (WRemove id) lg).
Proof. intros dg levels T limit kz x o x' out back lg HT Hlv. exact (xm_step_ok dg levels T HT Hlv limit kz x o x' out back lg). Qed.

(* The same for every map reachable from an empty one by any history (the caller passes the true
   size of each key: [xop_ok]), and any next operation; moreover a slab that is no longer reachable
   was removed by the library or handed back. *)
Theorem C09_map_ext_ids : forall dg levels T limit kz rootid ops o,
  valid_T T -> (0 < levels)%nat -> 0 < rootid -> Forall (xop_ok kz) ops -> xop_ok kz o ->
  let c := set_threshold T in
  let x := fst (xm_run dg levels limit c (fst (xm_init rootid)) ops) in
  forall x' out back lg, xm_step dg levels limit c x o = (x', out, back, lg) ->
    xinv dg levels T kz x /\ xinv dg levels T kz x' /\
    t_rootid (x_tree x) = rootid /\ t_rootid (x_tree x') = rootid /\
    t_alloc (x_tree x) <= t_alloc (x_tree x') /\
    NoDup (all_ids x' ++ removed lg ++ back) /\
    (exists n, t_alloc (x_tree x') = t_alloc (x_tree x) + N.of_nat n /\
       Permutation (all_ids x' ++ removed lg ++ back) (all_ids x ++ nseq (t_alloc (x_tree x)) n) /\
       (forall id, In id (nseq (t_alloc (x_tree x)) n) -> In (WStore id) lg)) /\
    incl back (ext_ids x) /\
    (forall id, In id back -> ~ In id (all_ids x') /\ ~ In (WRemove id) lg) /\
    (forall id, In id (all_ids x) -> ~ In id (all_ids x') -> In (WRemove id) lg \/ In id back).
Proof. intros dg levels T limit kz rootid ops o HT Hlv. exact (xreach_step dg levels T HT Hlv limit kz rootid ops o). Qed.

(* THE REGISTERS.  Replay any history on a register set: start from the registers written by NewMap,
   after each operation apply its log (storeSlab adds, Storage.Remove deletes) and then delete what
   the caller was handed back ([xm_regs]).  Afterwards the registers are exactly the slabs
   reachable from the root, each once. *)
Theorem C09_map_ext_registers : forall dg levels T limit kz rootid ops,
  valid_T T -> (0 < levels)%nat -> 0 < rootid -> Forall (xop_ok kz) ops ->
  let c := set_threshold T in
  let r := xm_regs dg levels limit c (fst (xm_init rootid)) (apply_log [] (snd (xm_init rootid))) ops in
  xinv dg levels T kz (fst r) /\ NoDup (snd r) /\ Permutation (snd r) (all_ids (fst r)).
Proof. intros dg levels T limit kz rootid ops HT Hlv. exact (xreach_regs dg levels T HT Hlv limit kz rootid ops). Qed.

(* PopIterate on any reachable map: afterwards the root data slab is the only slab; the library
   stores the root, removes every other slab of the tree and every external collision group, and
   hands EVERY key / value slab to the callback, each exactly once. *)
Theorem C09_map_ext_empty_releases_all : forall dg levels T limit kz rootid ops,
  valid_T T -> (0 < levels)%nat -> 0 < rootid -> Forall (xop_ok kz) ops ->
  let c := set_threshold T in
  let x := fst (xm_run dg levels limit c (fst (xm_init rootid)) ops) in
  forall x' out back lg, xm_step dg levels limit c x OPop = (x', out, back, lg) ->
    all_ids x' = [rootid] /\ x_entries x' = [] /\ stored lg = [rootid] /\
    Permutation back (ext_ids x) /\
    Permutation (rootid :: removed lg ++ back) (all_ids x) /\
    NoDup (rootid :: removed lg ++ back) /\
    (forall id, In id (all_ids x) -> id <> rootid -> In (WRemove id) lg \/ In id back).
Proof. intros dg levels T limit kz rootid ops HT Hlv. exact (xreach_pop dg levels T HT Hlv limit kz rootid ops). Qed.

(* Set on a key that is ALREADY in the map: the previous value is returned and exactly its slab is
   handed back; the entry keeps its key slab (no slab is created for the key offered by the caller,
   however large); the new value's slab is the next index if the value is large and absent
   otherwise; no other entry is touched. *)
Theorem C09_map_ext_update : forall dg levels T limit kz x k v k0 v0 x' out back lg,
  valid_T T -> (0 < levels)%nat ->
  xinv dg levels T kz x -> ksz k = kz (kid k) -> d_get (x_entries x) (kid k) = Some (k0, v0) ->
  xm_step dg levels limit (set_threshold T) x (OSet k v) = (x', out, back, lg) ->
    out = RPrev (Some v0) /\
    back = nz (snd (xget (x_tab x) (kid k))) /\
    fst (xget (x_tab x') (kid k)) = fst (xget (x_tab x) (kid k)) /\
    snd (xget (x_tab x') (kid k)) =
      (if is_large (ksz v) (vmax (set_threshold T) (ksz k0)) then t_alloc (x_tree x) + 1 else 0) /\
    (forall k', k' <> kid k -> xget (x_tab x') k' = xget (x_tab x) k') /\
    dkeys (x_entries x') = dkeys (x_entries x).
Proof.
  intros dg levels T limit kz x k v k0 v0 x' out back lg HT Hlv.
  exact (xm_set_existing dg levels T HT Hlv limit kz x k v k0 v0 x' out back lg).
Qed.

(* the empty map satisfies the invariant; its only slab is the root *)
Theorem C09_map_ext_init : forall dg levels T kz rootid, valid_T T -> (0 < levels)%nat -> 0 < rootid ->
  xinv dg levels T kz (fst (xm_init rootid)) /\ all_ids (fst (xm_init rootid)) = [rootid] /\
  t_rootid (x_tree (fst (xm_init rootid))) = rootid.
Proof. intros dg levels T kz rootid HT Hlv. exact (xinv_init dg levels T HT Hlv kz rootid). Qed.

(** a concrete history at slab size 256 (max inline element 107, max inline key 53, reference 19
    bytes): keys k with first-level digest k / 10, so 10 11 12 collide.
      Set 10 (60-byte key, 200-byte value): key slab 2, value slab 3
      Set 11 (9-byte key, 200-byte value):  value slab 4
      Set 12 (70-byte key, 20-byte value):  key slab 5; the inline group spills: group slab 6
      Set 10 again (5-byte value):          NO key slab; old value slab 3 handed back
      Set 12 again (90-byte value):         value slab 7 (87 is the limit beside a reference key)
      Remove 12:                            key slab 5 and value slab 7 handed back
      PopIterate:                           group slab 6 removed; slabs 4 and 2 handed out *)
Definition c09x_c := set_threshold 256.
Definition c09x_dg (k : N) (l : nat) : N := match l with O => k / 10 | 1%nat => k mod 10 | _ => k end.
Definition c09x_kz (k : N) : N := if k =? 10 then 60 else if k =? 12 then 70 else 9.
Definition c09x_step := xm_step c09x_dg 4 8 c09x_c.
Definition c09x_ops : list mop :=
  [OSet (mkkv 10 60) (mkkv 100 200); OSet (mkkv 11 9) (mkkv 101 200); OSet (mkkv 12 70) (mkkv 102 20);
   OSet (mkkv 10 60) (mkkv 103 5); OSet (mkkv 12 70) (mkkv 104 90); ORemove 12; OPop].
Fixpoint c09x_logs (x : xmap) (ops : list mop) : list (list N * wlog * N * list N) :=
  match ops with
  | [] => []
  | o :: r => let '(x1, _, back, lg) := c09x_step x o in
              (back, lg, t_alloc (x_tree x1), all_ids x1) :: c09x_logs x1 r
  end.

Example C09_map_ext_example :
  (cinl_melem c09x_c, cinl_mkey c09x_c) = (107, 53) /\
  (* per operation: handed back, log, allocator, reachable slabs afterwards *)
  c09x_logs (fst (xm_init 1)) c09x_ops =
  [ ([], [WStore 2; WStore 3; WStore 1], 3, [1; 2; 3]);
    ([], [WStore 4; WStore 1], 4, [1; 2; 3; 4]);
    ([], [WStore 5; WStore 6; WStore 1], 6, [1; 6; 2; 3; 4; 5]);
    ([3], [WStore 6; WStore 1], 6, [1; 6; 2; 4; 5]);
    ([], [WStore 7; WStore 6; WStore 1], 7, [1; 6; 2; 4; 5; 7]);
    ([5; 7], [WStore 6; WStore 1], 7, [1; 6; 2; 4]);
    ([4; 2], [WRemove 6; WStore 1], 7, [1]) ] /\
  (* the registers, with the caller disposing of what it is handed back *)
  snd (xm_regs c09x_dg 4 8 c09x_c (fst (xm_init 1)) [1] (firstn 6 c09x_ops)) = [1; 2; 4; 6] /\
  snd (xm_regs c09x_dg 4 8 c09x_c (fst (xm_init 1)) [1] c09x_ops) = [1].
Proof. vm_compute. repeat split. Qed.

(* the proviso "the caller disposes of what it is handed back" is necessary: the same history
   WITHOUT disposal leaves the handed-back slabs 3 5 7 4 2 in the storage beside the root *)
Fixpoint c09x_regs_nodispose (x : xmap) (regs : list N) (ops : list mop) : list N :=
  match ops with
  | [] => regs
  | o :: r => let '(x1, _, _, lg) := c09x_step x o in c09x_regs_nodispose x1 (apply_log regs lg) r
  end.
Example C09_map_ext_caller_must_dispose :
  c09x_regs_nodispose (fst (xm_init 1)) [1] c09x_ops = [1; 2; 3; 4; 5; 7].
Proof. vm_compute. reflexivity. Qed.

(* OBSERVATION (not claimed, not a history of the theorems above: it needs a failure of
   value.Storable — an error of the client's Value implementation, a value above 2^32 - 3 bytes or a
   storage failure): a Set of a NEW large key whose value.Storable fails leaves the key's
   StorableSlab (slab 2) in the storage, referenced by nothing.  Reproduced on the Go code by the
   harness (`mapext`, event observation_failed_value_storable_orphans_key_slab). *)
Example C09_map_ext_observation_failed_value_storable :
  let '(x1, lg) := xm_set_vfail c09x_dg 4 8 c09x_c (fst (xm_init 1)) (mkkv 10 60) in
  lg = [WStore 2] /\ apply_log [1] lg = [1; 2] /\ all_ids x1 = [1] /\ t_alloc (x_tree x1) = 2.
Proof. vm_compute. repeat split. Qed.

(* the hypotheses of the step theorem are satisfied by a state with a key slab, value slabs, an
   external collision group holding a reference key, after the fifth operation *)
Example C09_map_ext_hyps_nonvacuous :
  let x := fst (xm_run c09x_dg 4 8 c09x_c (fst (xm_init 1)) (firstn 5 c09x_ops)) in
  xinv c09x_dg 4 256 c09x_kz x /\ all_ids x = [1; 6; 2; 4; 5; 7] /\ ext_ids x = [2; 4; 5; 7].
Proof.
  cbv zeta. split; [|vm_compute; split; reflexivity].
  assert (HT : valid_T 256) by (vm_compute; split; discriminate).
  assert (Hops : Forall (xop_ok c09x_kz) (firstn 5 c09x_ops)) by (repeat constructor).
  exact (proj1 (xinv_run c09x_dg 4 256 HT ltac:(repeat constructor) 8 c09x_kz (firstn 5 c09x_ops) _
                 (proj1 (xinv_init c09x_dg 4 256 HT ltac:(repeat constructor) c09x_kz 1 eq_refl)) Hops)).
Qed.

Print Assumptions C09_map_ext_step.
Print Assumptions C09_map_ext_ids.
Print Assumptions C09_map_ext_registers.
Print Assumptions C09_map_ext_empty_releases_all.
Print Assumptions C09_map_ext_update.
Print Assumptions C09_map_ext_init.
