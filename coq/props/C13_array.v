(* C13 (arrays) — every way of enumerating an array yields its elements once, in index order, and
   agrees with positional lookups.  Property theorems only; closed by [exact] of lemmas of
   proofs/Array_proofs.v.

   In the model (theories/ArrayTree.v, [a_step]) the read-only / mutable iteration answers with the
   left-to-right contents [to_list] of the slab tree, PopIterate with its reverse, RangeIterator
   with [firstn (e-s) (skipn s ...)] after the range validation of array.go; what needs proof is
   that these sequential traversals agree with positional access through the cached counts and
   running sums ([a_get], the routing of childSlabIndexInfo), for every well-formed array. *)
From Coq Require Import ZArith NArith List Bool.
From AtreeGen Require Import Consts.
From AtreeModel Require Import Settings ArrayTree ArrayInv.
From AtreeProofs Require Import Array_proofs.
Import ListNotations.
Local Open Scope N_scope.

Theorem C13_array_iterators : forall T, valid_T T -> forall a,
  let c := set_threshold T in
  awf c a ->
  (* iteration = the contents; pop = the reverse; as many elements as the cached count *)
  snd (fst (a_step c a OIterate)) = RList (to_list (a_root a)) /\
  snd (fst (a_step c a OPop)) = RList (rev (to_list (a_root a))) /\
  N.of_nat (length (to_list (a_root a))) = a_count a /\
  (* Get i is the i-th element of the iteration; out of range exactly beyond the count *)
  (forall i, a_get a i = match nth_error (to_list (a_root a)) (N.to_nat i) with
                         | Some e => RElem e | None => RErr EIndexOOB end) /\
  (forall i, i < a_count a ->
     exists e, a_get a i = RElem e /\ nth_error (to_list (a_root a)) (N.to_nat i) = Some e) /\
  (* ranges: rejected exactly when a bound exceeds the count (slice out of bounds) or end < start
     (invalid slice); otherwise the sub-sequence *)
  (forall s e, a_range a s e =
     if (a_count a <? s) || (a_count a <? e) then RErr ESliceOOB
     else if e <? s then RErr EInvalidSlice
     else RList (firstn (N.to_nat (e - s)) (skipn (N.to_nat s) (to_list (a_root a))))) /\
  (forall s e, s <= e -> e <= a_count a ->
     exists l, a_range a s e = RList l /\ N.of_nat (length l) = e - s /\
       forall k, k < e - s -> exists x, nth_error l (N.to_nat k) = Some x /\ a_get a (s + k) = RElem x).
Proof. exact array_iterators. Qed.

(* all flavours against the plain sequence along every history: part of C01_array_refines_sequence
   (OIterate, OPop, ORange are operations of the history) *)

(** Non-vacuity: the height-2 tree of 60 maximal elements at T = 256 *)
Example C13_example :
  let c := set_threshold 256 in
  let a := fst (a_run c (fst (arr_init 1 7))
                  (map (fun i => OAppend (mkelem (Z.of_nat i) 117 0)) (seq 1 60))) in
  wf_rootb c (a_root a) = true /\ a_count a = 60 /\
  map e_id (to_list (a_root a)) = map Z.of_nat (seq 1 60) /\
  a_get a 31 = RElem (mkelem 32 117 0) /\
  a_range a 58 60 = RList [mkelem 59 117 0; mkelem 60 117 0] /\
  a_range a 58 61 = RErr ESliceOOB /\ a_range a 3 2 = RErr EInvalidSlice.
Proof. vm_compute. repeat split; reflexivity. Qed.

Print Assumptions C13_array_iterators.
