(* C08 (container level: arrays, then ordered maps) — "The read cache, eviction and the timing of commits are
   transparent: the content the containers end up with in the ledger does not depend on when
   commits, cache drops, preloads or re-creations happen."

   props/C08.v states this for the storage model alone.  This file composes it with the array model
   through the representation invariant of C03_durable.v.

   [cl]                    the storage calls of NewArray and of an array history (C03_durable.v:
                           [init_sops] ++ [hist_sops]), all of them client calls (Store / Remove)
   [scheduled s0 cl sch]   (Cache_proofs) sch is cl with schedule operations inserted at ARBITRARY
                           positions — also between the calls of one array operation —, each
                           admissible in the state where it is issued ([is_sched]): a fault-free
                           commit of either kind (an order-relaxed one with an order the Go code
                           can produce), DropCache, BatchPreload of any identifiers,
                           RetrieveIgnoringDeltas / RetrieveIfLoaded of any identifier, and
                           re-creation of the storage when the write set is empty
   [final_ok s f]          f is a fault-free commit of either kind in state s
   [schedb]                an executable check of [scheduled] (sound: [schedb_sound]) *)
From stdpp Require Import gmap sorting.
From Coq Require Import ZArith NArith List Bool.
From AtreeModel Require Import Storage StorageSpec Settings ArrayTree ArrayInv Durable.
From AtreeProofs Require Import Storage_proofs Commit_proofs StorageProps_proofs Cache_proofs
  ArrayFrame_proofs Array_proofs Durable_proofs DurableFaults_proofs.
Local Open Scope N_scope.

(** Any legal slab size, codec, owned address fresh in a reachable storage state s0, array history
    [ops], schedule [sch] of its calls: after a final fault-free commit (of either kind, on either
    side) the registers under every owned address — in particular the array's — are the same as
    without the schedule, they hold exactly the array, a brand-new storage loads the same tree
    from either ledger, and the client's calls got the same answers. *)
Theorem C08_array_schedule_same_ledger : forall K T, valid_T T -> forall addr rootid ti,
  addr <> 0 -> 0 < rootid -> forall s0, reachable s0 -> (forall id, view s0 (addr, id) = None) ->
  forall ops sch f1 f2, Forall (aop_ok (set_threshold T)) ops ->
  let c := set_threshold T in
  let a0 := fst (arr_init rootid ti) in
  let a := fst (a_run c a0 ops) in
  let cl := init_sops K addr rootid ti ++ hist_sops K addr c a0 ops in
  scheduled s0 cl sch ->
  final_ok (fst (run s0 cl)) f1 -> final_ok (fst (run s0 sch)) f2 ->
  let s1 := fst (step (fst (run s0 cl)) f1) in
  let s2 := fst (step (fst (run s0 sch)) f2) in
  client_outs cl (snd (run s0 cl)) = client_outs sch (snd (run s0 sch)) /\
  (forall i, is_temp i = false -> base s1 !! i = base s2 !! i) /\
  (forall id, ledger_map s1 addr id = ledger_map s2 addr id) /\
  holds_exactly K (ledger_map s2 addr) a /\
  forall fuel, (length (tree_ids (a_root a)) < fuel)%nat ->
    load_arr fuel (decode_map K (ledger_map (fst (step s1 SRecreate)) addr)) rootid = Some (a_root a, a_type a) /\
    load_arr fuel (decode_map K (ledger_map (fst (step s2 SRecreate)) addr)) rootid = Some (a_root a, a_type a).
Proof. exact schedule_same_ledger. Qed.

(* the executable schedule check is sound *)
Theorem C08_schedb_sound : forall sch s cl, schedb s cl sch = true -> scheduled s cl sch.
Proof. exact schedb_sound. Qed.

(** Non-vacuity (history of C03_durable.v, T = 256, address 5, root 1, type 7, concrete codec):
    after EVERY storage call of the history a group of schedule operations is inserted, cycling
    through {FastCommit; Recreate}, {DropCache}, {order-relaxed commit with deletions first},
    {BatchPreload; RetrieveIgnoringDeltas}, {RetrieveIfLoaded}: 64 client calls, 90 inserted
    operations.  The ledger after the final commit is the one of the unscheduled run. *)
Definition sx_c := set_threshold 256.
Definition sx_ops : list aop :=
  map (fun i => OAppend (mkelem (Z.of_nat i) 60 0)) (seq 1 16) ++
  [OSet 12 (mkelem 100 117 1); OInsert 1 (mkelem 101 30 0)] ++
  [ORemove 0; ORemove 0; ORemove 0; ORemove 0; ORemove 0; ORemove 0; ORemove 0; ORemove 0] ++
  [OSetType 9].
Definition sx_a0 := fst (arr_init 1 7).
Definition sx_a := fst (a_run sx_c sx_a0 sx_ops).
Definition sx_cl := init_sops g_codec 5 1 7 ++ hist_sops g_codec 5 sx_c sx_a0 sx_ops.
Definition nd_order (s : st) : list sid :=
  List.filter (is_del s) (owned_delta_keys s) ++ List.filter (is_mod s) (owned_delta_keys s).
Definition sx_pick (k : nat) (s : st) : list sop :=
  match (k mod 5)%nat with
  | 0%nat => [SFastCommit None; SRecreate]
  | 1%nat => [SDropCache]
  | 2%nat => [SNondetCommit (nd_order s) None]
  | 3%nat => [SBatchPreload [(5, 1); (5, 2); (5, 3); (9, 9)]; SRetrieveIgnoringDeltas (5, 1) true]
  | _ => [SRetrieveIfLoaded (5, 2)]
  end.
Fixpoint sx_weave (s : st) (cl : list sop) (k : nat) : list sop :=
  match cl with
  | [] => []
  | o :: r =>
    let s1 := fst (step s o) in
    let ins := sx_pick k s1 in
    o :: ins ++ sx_weave (fst (run s1 ins)) r (S k)
  end.
Definition sx_sch := sx_weave st_init sx_cl 0.

Example C08_durable_example :
  valid_T 256 /\ reachable st_init /\ (forall id, view st_init (5, id) = None) /\
  Forall (aop_ok sx_c) sx_ops /\
  length sx_cl = 64%nat /\ length sx_sch = 154%nat /\
  scheduled st_init sx_cl sx_sch /\
  (let s1 := fst (step (fst (run st_init sx_cl)) (SFastCommit None)) in
   let s2 := fst (step (fst (run st_init sx_sch)) (SNondetCommit (nd_order (fst (run st_init sx_sch))) None)) in
   final_ok (fst (run st_init sx_sch)) (SNondetCommit (nd_order (fst (run st_init sx_sch))) None) /\
   map (fun id => base s1 !! (5, id)) [1; 2; 3; 4; 5; 6; 7] = map (fun id => base s2 !! (5, id)) [1; 2; 3; 4; 5; 6; 7] /\
   length (map_to_list (base s2)) = 5%nat /\
   (* the caches differ, the ledger does not *)
   length (map_to_list (cache (fst (run st_init sx_sch)))) <> length (map_to_list (cache (fst (run st_init sx_cl)))) /\
   load_arr 5 (decode_map g_codec (ledger_map (fst (step s2 SRecreate)) 5)) 1 = Some (a_root sx_a, 9)).
Proof.
  split; [vm_compute; split; congruence|].
  split; [exists []; reflexivity|].
  split; [intros id; reflexivity|].
  split.
  { unfold sx_ops. repeat (apply Forall_app; split).
    - apply Forall_forall. intros o Ho. apply in_map_iff in Ho. destruct Ho as (i & <- & _).
      cbn. repeat split; vm_compute; congruence.
    - repeat constructor; vm_compute; congruence.
    - repeat constructor.
    - repeat constructor. }
  split; [vm_compute; reflexivity|]. split; [vm_compute; reflexivity|].
  split; [apply schedb_sound; vm_compute; reflexivity|].
  cbv zeta. split; [right; eexists; split; [reflexivity|vm_compute; reflexivity]|].
  split; [vm_compute; reflexivity|]. split; [vm_compute; reflexivity|].
  split; [vm_compute; congruence|]. vm_compute. reflexivity.
Qed.

Print Assumptions C08_array_schedule_same_ledger.
Print Assumptions C08_schedb_sound.

(** * Ordered maps *)
From AtreeModel Require Import MapElems MapElemsInv MapTree MapTreeInv DurableMap.
From AtreeProofs Require Import MapFrame_proofs Map_proofs DurableMap_proofs.

(** the same for ordered maps (C03_durable_map.v vocabulary); the loaded tree's entries are the
    dictionary of the specification (C02) *)
Theorem C08_map_schedule_same_ledger : forall K T, valid_T T -> forall dg levels, (1 <= levels)%nat ->
  forall limit ks addr rootid, addr <> 0 -> 0 < rootid ->
  forall s0, reachable s0 -> (forall id, view s0 (addr, id) = None) ->
  forall ops sch f1 f2, Forall (mop_ok T ks) ops ->
  let c := set_threshold T in
  let t0 := fst (mt_init rootid) in
  let t := fst (mt_run dg levels (cinl_melem c) limit c t0 ops) in
  let cl := minit_sops K addr rootid ++ mhist_sops dg levels (cinl_melem c) limit c K addr t0 ops in
  scheduled s0 cl sch ->
  final_ok (fst (run s0 cl)) f1 -> final_ok (fst (run s0 sch)) f2 ->
  let s1 := fst (step (fst (run s0 cl)) f1) in
  let s2 := fst (step (fst (run s0 sch)) f2) in
  client_outs cl (snd (run s0 cl)) = client_outs sch (snd (run s0 sch)) /\
  (forall i, is_temp i = false -> base s1 !! i = base s2 !! i) /\
  (forall id, ledger_map s1 addr id = ledger_map s2 addr id) /\
  mholds_exactly K (ledger_map s2 addr) t /\
  (forall fuel, (mdepth (t_root t) <= fuel)%nat ->
     mload_map fuel (mdecode_map K (ledger_map (fst (step s2 SRecreate)) addr)) rootid = Some (t_root t, t_count t)) /\
  to_list_tree (t_root t) = fst (d_run dg levels limit [] ops).
Proof. exact mschedule_same_ledger. Qed.

(* the map history of C03_durable_map.v under the same weave *)
Definition sm_c := set_threshold 256.
Definition sm_M := cinl_melem sm_c.
Definition sm_dg (k : N) (l : nat) : N := match l with O => k / 10 | 1%nat => k mod 10 | _ => k end.
Definition sm_ks (_ : N) : N := 9.
Definition sm_set (k : N) : mop := MapElems.OSet (mkkv k 9) (mkkv (k + 1000) 40).
Definition sm_ops : list mop :=
  map sm_set [10; 11; 12; 20; 30; 40; 50; 60; 70; 80; 90; 100; 110; 120; 130; 21] ++
  map MapElems.ORemove [21; 110; 100; 90; 80; 70; 60; 50].
Definition sm_t0 := fst (mt_init 1).
Definition sm_t := fst (mt_run sm_dg 4 sm_M 8 sm_c sm_t0 sm_ops).
Definition sm_cl := minit_sops mg_codec 5 1 ++ mhist_sops sm_dg 4 sm_M 8 sm_c mg_codec 5 sm_t0 sm_ops.
Definition sm_sch := sx_weave st_init sm_cl 0.

Example C08_durable_map_example :
  Forall (mop_ok 256 sm_ks) sm_ops /\
  (length sm_cl < length sm_sch)%nat /\
  scheduled st_init sm_cl sm_sch /\
  (let s1 := fst (step (fst (run st_init sm_cl)) (SFastCommit None)) in
   let s2 := fst (step (fst (run st_init sm_sch)) (SNondetCommit (nd_order (fst (run st_init sm_sch))) None)) in
   final_ok (fst (run st_init sm_sch)) (SNondetCommit (nd_order (fst (run st_init sm_sch))) None) /\
   map (fun id => base s1 !! (5, id)) [1; 2; 3; 4; 5; 6; 7] = map (fun id => base s2 !! (5, id)) [1; 2; 3; 4; 5; 6; 7] /\
   length (map_to_list (base s2)) = 4%nat /\
   mload_map 6 (mdecode_map mg_codec (ledger_map (fst (step s2 SRecreate)) 5)) 1 = Some (t_root sm_t, 8)).
Proof.
  split.
  { unfold sm_ops. apply Forall_app; split.
    - rewrite Forall_map. rewrite Forall_forall. intros k _. split; [reflexivity|]. vm_compute. discriminate.
    - rewrite Forall_map. rewrite Forall_forall. intros; exact I. }
  split; [vm_compute; repeat constructor|].
  split; [apply schedb_sound; vm_compute; reflexivity|].
  cbv zeta. split; [right; eexists; split; [reflexivity|vm_compute; reflexivity]|].
  split; [vm_compute; reflexivity|]. split; [vm_compute; reflexivity|]. vm_compute. reflexivity.
Qed.

Print Assumptions C08_map_schedule_same_ledger.
