(* C13 (array part, loaded-value iteration) — a partially loaded array yields an in-order
   subsequence of the full enumeration; with every slab loaded it yields the full enumeration.
   Model: theories/Iter.v ([iter_loaded], transcribed from ArrayLoadedValueIterator and
   getLoadedValue); full enumeration: [to_list] of theories/ArrayTree.v. *)
From Coq Require Import NArith ZArith List Bool.
From AtreeModel Require Import Settings ArrayTree ArrayInv Iter.
From AtreeProofs Require Import Iter_proofs.
Import ListNotations.
Local Open Scope N_scope.

(* for ANY tree (no invariant needed) and ANY set of loaded slabs *)
Theorem C13_loaded_sublist : forall loaded n, sublist (iter_loaded loaded n) (to_list n).
Proof. exact iter_loaded_sublist. Qed.

(* hence nothing is yielded twice if the full enumeration has no duplicates *)
Theorem C13_loaded_once : forall loaded n, NoDup (to_list n) -> NoDup (iter_loaded loaded n).
Proof. intros loaded n. apply sublist_NoDup. apply iter_loaded_sublist. Qed.

(* everything loaded (slabs of the tree and slabs of externally stored elements) *)
Theorem C13_loaded_all : forall loaded n,
  (forall id, loaded id = true) -> hdrs_agree n -> iter_loaded loaded n = to_list n.
Proof. exact iter_loaded_all. Qed.

(* the same for an array that satisfies the array invariant of C05 *)
Theorem C13_loaded_all_awf : forall c a loaded,
  awf c a -> (forall id, loaded id = true) -> a_iter_loaded loaded a = to_list (a_root a).
Proof.
  intros c a loaded [H _] HL. apply iter_loaded_all; [exact HL|].
  eapply wf_root_hdrs_agree. exact H.
Qed.

(* exact content: an element is yielded iff every slab on its path below the root is loaded and
   the element itself does not reference an unloaded slab (the harness evaluates this formula
   on the implementation's slab-tree dump for every loaded-subset it tries) *)
Theorem C13_loaded_exact : forall loaded n,
  iter_loaded loaded n = map fst (filter snd (reach loaded true n)) /\
  (hdrs_agree n -> map fst (reach loaded true n) = to_list n).
Proof. intros loaded n. split; [apply iter_loaded_reach|apply reach_to_list]. Qed.

(* non-vacuity: a two-level tree (root index slab 1; leaves 2,3,4; element 12 lives in slab 9)
   satisfies hdrs_agree; with leaf 3 and slab 9 unloaded the iteration yields elements 10, 13, 14
   (12 is skipped because its value slab is not loaded, 11 because its leaf is not) *)
Definition ex_e (i : Z) (x : N) : elem := mkelem i 3 x.
Definition ex_tree : anode :=
  AM (mkhdr 1 0 5)
     [mkhdr 2 0 2; mkhdr 3 0 1; mkhdr 4 0 2] [2; 3; 5]
     [AD (mkhdr 2 0 2) 3 [ex_e 10 0; ex_e 12 9];
      AD (mkhdr 3 0 1) 4 [ex_e 11 0];
      AD (mkhdr 4 0 2) 0 [ex_e 13 0; ex_e 14 8]].
Definition ex_loaded (id : N) : bool := negb ((id =? 3) || (id =? 9)).

Example C13_loaded_example :
  hdrs_agree ex_tree /\
  map e_id (iter_loaded ex_loaded ex_tree) = [10; 13; 14]%Z /\
  map e_id (to_list ex_tree) = [10; 12; 11; 13; 14]%Z /\
  iter_loaded (fun _ => true) ex_tree = to_list ex_tree.
Proof. cbn. repeat split; reflexivity. Qed.

Print Assumptions C13_loaded_sublist.
Print Assumptions C13_loaded_once.
Print Assumptions C13_loaded_all.
Print Assumptions C13_loaded_all_awf.
Print Assumptions C13_loaded_exact.
