(* C17 "independent" for maps: two OrderedMaps living in ONE slab storage at one address (shared
   slab store and identifier counter) never affect each other, whatever is done to either.
   Model: theories/TwoMaps.v over the map slab-tree model MapTree.v (data slabs, index slabs,
   external collision group slabs, split / merge / lend / borrow, root split and promotion);
   vocabulary and proofs: proofs/TwoMaps_proofs.v, from the per-operation theorems behind
   C09_map_ids_step / C03_map_frame_step and the dictionary refinement C02_map_run_refines_dictionary.

   [mwinv w]       both maps satisfy the identifier invariant of C09_map w.r.t. the world's counter
                   (all slab identifiers — tree slabs and external collision group slabs — pairwise
                   distinct, positive, at most the counter; shape; sibling links) and share none.
   [mstore_ok w X] under every identifier of map X the store holds that slab's own content
                   ([mnode_at], the register notion of C03_map).
   [muntouched w w' X] map X of w' IS map X of w: same slab tree, same count, and the same register
                   in the store under every one of its identifiers.
   [mwwf ... w]    both trees satisfy the map invariant of C02 ([minv]).
   Histories: lists of (side, operation) over every operation of the map model (Set, Get, Has,
   Remove, Count, Iterate, mutable-iterator enumeration, PopIterate), any interleaving, any digest
   function (any collisions), any collision limit.

   Scope: any two maps satisfying [mwinv]: two NewMap calls followed by any history
   (C17_map_independent_new2), or B built by NewMapFromBatchData (MapBatch.v) next to A
   (C17_map_independent_batch; that the batch build stores every slab of its result — [mstore_ok]
   for B in that world — is not proved here, the Go-side lock-step of `mapbatch` compares the store
   sequence).  The root's extra data (count) is part of the map object, not of the register. *)
From Coq Require Import NArith ZArith List Bool.
From AtreeGen Require Import Consts.
From AtreeModel Require Import Settings MapElems MapElemsInv MapTree MapTreeInv MapBatch TwoMaps.
From AtreeProofs Require Import MapFrame_proofs Map_proofs TwoMaps_proofs TwoMaps_examples TwoMapsBatch_proofs.
From AtreeProofs Require MapBatch_proofs.
Import ListNotations.
Local Open Scope N_scope.

(* ONE operation on X *)
Theorem C17_map_independent_step : forall dg levels max_inline_elem limit c w X o w' out,
  mwinv w -> mwstep mreg mreg_of dg levels max_inline_elem limit c w X o = (w', out) ->
  mwinv w' /\ muntouched w w' (mother X) /\ mw_alloc w <= mw_alloc w' /\
  (mstore_ok w X -> mstore_ok w' X) /\ (mstore_ok w (mother X) -> mstore_ok w' (mother X)).
Proof. exact mwstep_inv. Qed.

(* EVERY finite history, any interleaving, any legal slab size, digest function and limits:
   identifier sets stay duplicate-free, below the counter and disjoint; both trees stay valid; the
   store keeps holding every slab of both maps; a history addressed to one map only leaves the other
   untouched; in an interleaved history every single request leaves the other map untouched; each
   map refines its OWN dictionary (C02): contents and answers are those of the dictionary machine
   run on the requests addressed to it alone; root identifiers never change. *)
Theorem C17_map_independent : forall dg levels T, valid_T T -> (0 < levels)%nat -> forall limit ks,
  let c := set_threshold T in
  let run := mwrun mreg mreg_of dg levels (cinl_melem c) limit c in
  let step := mwstep mreg mreg_of dg levels (cinl_melem c) limit c in
  forall w, mwinv w -> mwwf dg levels T ks w ->
  forall ops, Forall (fun p : mside * mop => mop_ok T ks (snd p)) ops ->
  let w' := fst (run w ops) in
  mwinv w' /\ mwwf dg levels T ks w' /\ mw_alloc w <= mw_alloc w' /\
  (forall X, mstore_ok w X -> mstore_ok w' X) /\
  (forall X, Forall (fun p : mside * mop => fst p = X) ops -> muntouched w w' (mother X)) /\
  (forall ops1 X o ops2, ops = ops1 ++ (X, o) :: ops2 ->
     muntouched (fst (run w ops1)) (fst (step (fst (run w ops1)) X o)) (mother X)) /\
  (forall X,
     to_list_tree (t_root (mw_get w' X)) =
       fst (d_run dg levels limit (to_list_tree (t_root (mw_get w X))) (mproj X ops)) /\
     mproj_out X ops (snd (run w ops)) =
       snd (d_run dg levels limit (to_list_tree (t_root (mw_get w X))) (mproj X ops)) /\
     t_rootid (mw_get w' X) = t_rootid (mw_get w X)).
Proof. exact two_maps_main. Qed.

(* the identifier part alone: no tree invariant, no contract on the arguments *)
Theorem C17_map_independent_ids : forall dg levels max_inline_elem limit c ops w, mwinv w ->
  let w' := fst (mwrun mreg mreg_of dg levels max_inline_elem limit c w ops) in
  mwinv w' /\ mw_alloc w <= mw_alloc w' /\ forall X, mstore_ok w X -> mstore_ok w' X.
Proof. exact mwrun_inv. Qed.

Theorem C17_map_independent_one_side : forall dg levels max_inline_elem limit c X ops w, mwinv w ->
  Forall (fun p : mside * mop => fst p = X) ops ->
  muntouched w (fst (mwrun mreg mreg_of dg levels max_inline_elem limit c w ops)) (mother X).
Proof. exact mwrun_one_side. Qed.

(* two new maps satisfy the hypotheses *)
Theorem C17_map_independent_new2 : forall alloc,
  let w := mw_new2 mreg mreg_of alloc in
  mwinv w /\ mstore_ok w MA /\ mstore_ok w MB /\ mw_alloc w = alloc + 2 /\
  t_rootid (mw_a w) = alloc + 1 /\ t_rootid (mw_b w) = alloc + 2.
Proof. exact mw_new2_ok. Qed.

Theorem C17_map_independent_new2_wf : forall dg levels T, valid_T T -> (0 < levels)%nat -> forall ks alloc,
  mwwf dg levels T ks (mw_new2 mreg mreg_of alloc).
Proof. exact mw_new2_wwf. Qed.

(* B built by NewMapFromBatchData in the storage that holds A (A: any map satisfying the identifier
   invariant w.r.t. the counter; the stream: level-0 sorted, duplicate-free, within the size
   contract — e.g. the iteration order of a source map, C17_map_source_stream_ok): the hypotheses
   of C17_map_independent hold, and building B left every register of A as it was *)
Theorem C17_map_independent_batch : forall T dg limit levels ks alloc seed stream a (st : mstore mreg),
  valid_T T -> (1 <= levels)%nat -> seed <> 0 -> MapBatch_proofs.stream_ok dg T ks stream ->
  let c := set_threshold T in
  finv (mwith_alloc a alloc) ->
  let w := mw_batch mreg mreg_of dg levels (cinl_melem c) limit c a alloc st seed stream in
  mw_a w = a /\ mw_b w = fst (map_from_batch dg levels (cinl_melem c) limit c alloc seed stream) /\
  mwinv w /\ alloc < mw_alloc w /\
  (forall i, In i (mslab_ids (t_root a)) -> mw_store w i = st i) /\
  ((forall i, In i (mslab_ids (t_root a)) -> st i = Some (mreg_of a i)) -> mstore_ok w MA) /\
  (minv dg levels T ks a -> mwwf dg levels T ks w).
Proof. exact mw_batch_ok. Qed.

(** Non-vacuity, by evaluation at slab size 256, 13 first-level digests, collision limit 1: two new
    maps (roots 1 and 2), 24 inserts into each, interleaved, then removals: both are index slabs
    over several data slabs, both own external collision group slabs, their identifiers interleave
    (1..30).  Then B is emptied by PopIterate (its 13 other slabs are released) and refilled while
    A splits (new slab 31): every slab of A is still in the store. *)
Example C17_map_independent_example :
  valid_T 256 /\ Forall (fun p : mside * mop => mop_ok 256 mex_ks (snd p)) mex_ops /\
  mwex = fst (mex_run (mw_new2 mreg mreg_of 0) mex_ops) /\
  mwinv mwex /\ mwwf mex_dg 4 256 mex_ks mwex /\ mstore_ok mwex MA /\ mstore_ok mwex MB /\
  mslab_ids (t_root (mw_a mwex)) = [1; 3; 19; 17; 8; 29; 15; 27; 25; 4; 11; 23; 9; 21] /\
  mslab_ids (t_root (mw_b mwex)) = [2; 5; 16; 28; 14; 26; 7; 12; 24; 10; 22; 20; 6; 30] /\ mw_alloc mwex = 30 /\
  has_ext (mw_a mwex) = true /\ has_ext (mw_b mwex) = true /\
  is_data (t_root (mw_a mwex)) = false /\ is_data (t_root (mw_b mwex)) = false /\
  Forall (fun p : mside * mop => mop_ok 256 mex_ks (snd p)) mex_ops2 /\
  (let w := fst (mex_run mwex mex_ops2) in
   mslab_ids (t_root (mw_a w)) = [1; 3; 19; 31; 17; 8; 29; 15; 27; 25; 4; 11; 23; 9; 21] /\
   mslab_ids (t_root (mw_b w)) = [2] /\ mw_alloc w = 31 /\
   forallb (fun i => match mw_store w i with Some _ => false | None => true end)
           [5; 16; 28; 14; 26; 7; 12; 24; 10; 22; 20; 6; 30] = true /\
   forallb (fun i => match mw_store w i with Some _ => true | None => false end)
           [1; 3; 19; 31; 17; 8; 29; 15; 27; 25; 4; 11; 23; 9; 21; 2] = true).
Proof.
  split; [exact mex_valid|]. split; [exact mex_ops_ok|]. split; [exact mwex_eq|].
  destruct mex_world as (A1 & A2 & A3 & A4).
  destruct mex_world_ids as (B1 & B2 & B3 & B4 & B5 & B6 & B7).
  repeat (split; [assumption|]). split; [exact mex_ops2_ok|]. exact mex_after.
Qed.

Print Assumptions C17_map_independent_step.
Print Assumptions C17_map_independent.
Print Assumptions C17_map_independent_ids.
Print Assumptions C17_map_independent_one_side.
Print Assumptions C17_map_independent_new2.
Print Assumptions C17_map_independent_new2_wf.
Print Assumptions C17_map_independent_batch.
Print Assumptions C17_map_independent_example.
