(* C17 "independent", full statement (closes C17_independent_partial of props/C17.v).
   Two arrays A and B live in ONE slab storage at one address: they share the slab store and the
   identifier counter (Go: storage.GenerateSlabID(address)), nothing else.
   Model: theories/TwoArrays.v ([world], [wstep], [wrun]; the arrays are the slab trees of
   ArrayTree.v, the store maps identifiers to slab contents, an operation's effect on the store is
   its storeSlab / Storage.Remove log); proofs: proofs/TwoArrays_proofs.v, from the per-operation
   theorems behind C03_array_frame, C09_array_ids and C01_step_refines.

   [winv w]      both arrays own pairwise distinct positive identifiers, all handed out by the
                 world's counter, and the two identifier sets are disjoint ([ids_ok], [disjoint_ids]).
   [store_ok w X] under every identifier of array X the store holds exactly that slab of X
                 (header, sibling link, elements / child headers and counts; type info for the root).
   [untouched w w' X] array X of w' IS array X of w: same slab tree (contents, elements, all
                 cached fields), same type, and the same register in the store under every one of
                 its identifiers.
   [wwf T w]     both slab trees satisfy the array invariant of C05/C01.
   Histories are lists of (side, operation): every operation of the array model, including
   PopIterate (which releases every slab of its own array), SetType, Set/Insert/Remove with
   external (large) values, in any interleaving.

   Scope: arrays whose elements are values (identity, size, own-slab flag) as in ArrayTree.v; the
   payload of a large value's StorableSlab is not modelled (register [VExt]).  Maps:
   props/C17_map_independent.v. *)
From Coq Require Import NArith ZArith List Bool.
From AtreeGen Require Import Consts.
From AtreeModel Require Import Settings ArrayTree ArrayInv Batch TwoArrays.
From AtreeProofs Require Import Array_proofs TwoArrays_proofs TwoArrays_examples.
Import ListNotations.
Local Open Scope N_scope.

(* ONE operation on X: the invariant is kept, the other array is untouched (object and registers),
   the counter never decreases, the store keeps representing both arrays *)
Theorem C17_independent_step : forall c w X o w' out,
  winv w -> wstep c w X o = (w', out) ->
  winv w' /\ untouched w w' (other X) /\ w_alloc w <= w_alloc w' /\
  (store_ok w X -> store_ok w' X) /\ (store_ok w (other X) -> store_ok w' (other X)).
Proof. exact wstep_inv. Qed.

(* EVERY finite history, any interleaving, any legal slab size:
   - the identifier sets stay duplicate-free, below the counter and disjoint ([winv]);
   - both trees stay valid; the store keeps holding every slab of both arrays;
   - a history addressed to one array only leaves the other untouched;
   - in an interleaved history every single request to X leaves the other array untouched;
   - each array refines its OWN plain sequence (C01): its contents are those of the plain list after
     the requests addressed to it alone, with the same answers, under the same root identifier. *)
Theorem C17_array_independent : forall T, valid_T T -> let c := set_threshold T in
  forall w, winv w -> wwf T w ->
  forall ops, Forall (fun p : side * aop => aop_ok c (snd p)) ops ->
  let w' := fst (wrun c w ops) in
  winv w' /\ wwf T w' /\ w_alloc w <= w_alloc w' /\
  (forall X, store_ok w X -> store_ok w' X) /\
  (forall X, Forall (fun p : side * aop => fst p = X) ops -> untouched w w' (other X)) /\
  (forall ops1 X o ops2, ops = ops1 ++ (X, o) :: ops2 ->
     untouched (fst (wrun c w ops1)) (fst (wstep c (fst (wrun c w ops1)) X o)) (other X)) /\
  (forall X,
     abs_arr (w_get w' X) = fst (seq_run (abs_arr (w_get w X)) (proj X ops)) /\
     map strip_out (proj_out X ops (snd (wrun c w ops))) = snd (seq_run (abs_arr (w_get w X)) (proj X ops)) /\
     a_rootid (w_get w' X) = a_rootid (w_get w X)).
Proof. exact two_arrays_main. Qed.

(* the identifier part alone needs no tree invariant and no contract on the elements *)
Theorem C17_independent_ids : forall c ops w, winv w ->
  winv (fst (wrun c w ops)) /\ w_alloc w <= w_alloc (fst (wrun c w ops)) /\
  forall X, store_ok w X -> store_ok (fst (wrun c w ops)) X.
Proof. exact wrun_inv. Qed.

Theorem C17_independent_one_side : forall c X ops w, winv w ->
  Forall (fun p : side * aop => fst p = X) ops -> untouched w (fst (wrun c w ops)) (other X).
Proof. exact wrun_one_side. Qed.

(** the worlds the property speaks about satisfy the hypotheses *)

(* B built by NewArrayFromBatchData in the storage that holds A (A: any array whose identifiers are
   distinct, positive and at most the counter): the hypotheses hold, building B left every register
   of A as it was, and the store holds every slab of B *)
Theorem C17_independent_batch : forall T alloc ti es a st, valid_T T -> let c := set_threshold T in
  Forall (elem_ok c) es -> ids_ok (with_alloc a alloc) ->
  let w := w_batch c a alloc st ti es in
  w_a w = a /\ w_b w = fst (array_from_batch c alloc ti es) /\ winv w /\ alloc < w_alloc w /\
  (forall i, In i (slab_ids (a_root a)) -> w_store w i = st i) /\
  store_ok w SB /\
  ((forall i, In i (slab_ids (a_root a)) -> st i = Some (reg_of a i)) -> store_ok w SA).
Proof. exact w_batch_ok. Qed.

Theorem C17_independent_batch_wf : forall T, valid_T T -> let c := set_threshold T in
  forall alloc ti es a st, Forall (elem_ok c) es -> N.of_nat (length es) <= max_count -> awfl c a ->
  wwf T (w_batch c a alloc st ti es).
Proof. exact w_batch_wwf. Qed.

(* NewArrayFromBatchData stores every slab of its result (tree slabs and external value slabs) *)
Theorem C17_array_batch_all_stored : forall c alloc ti es a lg,
  array_from_batch_res c alloc ti es = Ok (a, lg) ->
  forall i, In i (slab_ids (a_root a)) -> In (WStore i) lg.
Proof. exact batch_all_stored. Qed.

(* B = copy of the single-slab array A *)
Theorem C17_independent_copy : forall pl a alloc st ti w,
  ids_ok (with_alloc a alloc) -> w_copy pl a alloc st ti = Some w ->
  w_a w = a /\ winv w /\ w_alloc w = alloc + 1 /\
  to_list (a_root (w_b w)) = to_list (a_root a) /\ a_type (w_b w) = ti /\ slab_ids (a_root (w_b w)) = [alloc + 1] /\
  (forall i, In i (slab_ids (a_root a)) -> w_store w i = st i) /\
  store_ok w SB /\
  ((forall i, In i (slab_ids (a_root a)) -> st i = Some (reg_of a i)) -> store_ok w SA).
Proof. exact w_copy_ok. Qed.

Theorem C17_independent_copy_wf : forall T pl a alloc st ti w,
  awfl (set_threshold T) a -> w_copy pl a alloc st ti = Some w -> wwf T w.
Proof. exact w_copy_wwf. Qed.

(* two new arrays *)
Theorem C17_independent_new2 : forall alloc ta tb,
  let w := w_new2 alloc ta tb in
  winv w /\ store_ok w SA /\ store_ok w SB /\ w_alloc w = alloc + 2 /\
  a_rootid (w_a w) = alloc + 1 /\ a_rootid (w_b w) = alloc + 2.
Proof. exact w_new2_ok. Qed.

Theorem C17_independent_new2_wf : forall T, valid_T T -> forall alloc ta tb, wwf T (w_new2 alloc ta tb).
Proof. exact w_new2_wwf. Qed.

(** Non-vacuity, by evaluation at slab size 256 (proofs/TwoArrays_examples.v).  Two new arrays
    (roots 1 and 2), 12 appends to A interleaved with 12 inserts at the front of B, a Set with a
    large value on A, removes, SetType on B: both are index slabs over several data slabs and their
    identifiers interleave (A = 1,3,9,4,7 with 9 an external value slab; B = 2,5,8,6).  Then B' is
    built by batch (10 elements of 100 bytes: identifiers 10..14) next to A, emptied by PopIterate
    (10..13 released) and refilled, while A splits a leaf (new slab 15); register 2 (a slab of the
    old B, no longer referenced by either array) is still what it was. *)
Example C17_independent_example :
  valid_T 256 /\ Forall (fun p : side * aop => aop_ok ex_c (snd p)) ex_ops /\
  wex = fst (wrun ex_c (w_new2 0 7 8) ex_ops) /\
  winv wex /\ wwf 256 wex /\ store_ok wex SA /\ store_ok wex SB /\
  slab_ids (a_root (w_a wex)) = [1; 3; 9; 4; 7] /\ slab_ids (a_root (w_b wex)) = [2; 5; 8; 6] /\ w_alloc wex = 9 /\
  is_data (a_root (w_a wex)) = false /\ is_data (a_root (w_b wex)) = false /\
  wb = w_batch ex_c (w_a wex) (w_alloc wex) (w_store wex) 9 ex_batch /\
  winv wb /\ wwf 256 wb /\ store_ok wb SA /\ store_ok wb SB /\
  Forall (fun p : side * aop => aop_ok ex_c (snd p)) ex_ops2 /\
  slab_ids (a_root (w_b wb)) = [14; 10; 11; 12; 13] /\
  (let w := fst (wrun ex_c wb ex_ops2) in
   slab_ids (a_root (w_a w)) = [1; 3; 15; 9; 4; 7] /\ slab_ids (a_root (w_b w)) = [14] /\
   map (fun i => match w_store w i with Some _ => true | None => false end) [10; 11; 12; 13; 14; 15]
     = [false; false; false; false; true; true] /\
   w_store w 2 = w_store wex 2).
Proof.
  split; [exact ex_valid|]. split; [exact ex_ops_ok|]. split; [exact wex_eq|].
  destruct ex_world as (A1 & A2 & A3 & A4). destruct ex_world_ids as (B1 & B2 & B3 & B4 & B5).
  destruct ex_batch_world as (C1 & C2 & C3 & C4). destruct ex_batch_ids as (D1 & D2).
  repeat (split; [assumption|]). split; [exact wb_eq|]. repeat (split; [assumption|]).
  split; [exact ex_ops2_ok|]. split; [exact D1|exact D2].
Qed.

(* The map side is props/C17_map_independent.v. *)

Print Assumptions C17_independent_step.
Print Assumptions C17_array_independent.
Print Assumptions C17_independent_ids.
Print Assumptions C17_independent_one_side.
Print Assumptions C17_independent_batch.
Print Assumptions C17_independent_batch_wf.
Print Assumptions C17_array_batch_all_stored.
Print Assumptions C17_independent_copy.
Print Assumptions C17_independent_copy_wf.
Print Assumptions C17_independent_new2.
Print Assumptions C17_independent_new2_wf.
Print Assumptions C17_independent_example.
