(* C18, last sentence — "An error raised by a caller-supplied component (ledger read, key comparator,
   hash-input provider) during a lookup is reported as an external error", quantified over "failures
   injected into each caller-supplied callback at each call made during lookups".

   Property theorems only; each is closed by [exact]/[apply] of a lemma of proofs/Callback_proofs.v.
   Model: theories/Callback.v (OrderedMap.Get / Has on the element level of MapElems.v and through the
   slab tree of MapTree.v, Array.Get through ArrayTree.v, every call of a caller-supplied component
   explicit, a fault plan [p] decides which calls fail, with what kind of error).

   A. a run without faults computes the answer of the existing models (so C02 / C01 apply to it);
   B. a run whose plan fails only CHECKED calls is the fault-free run cut at the first failing call,
      and reports that component's error through wrapErrorfAsExternalErrorIfNeeded; for a plan that
      fails the i-th call of component c: reached => failure of c (ExternalError for an uncategorised
      error), not reached => the fault-free run;
   C. a lookup has no state output; the read cache it leaves behind holds only slabs of the container
      and cannot change any later answer;
   D. for EVERY plan the number of calls of each component is bounded by the structure: the
      enumeration "each call made during a lookup" is finite and the harness covers it exhaustively;
   E. where the sentence FAILS in the Go code, exactly: (1) digester.Digest(level >= 1) errors are
      dropped (map_element.go:366,568) — the run equals a fault-free run over other digests, a present
      key can be reported absent; (2) an error that already is an atree UserError / FatalError keeps
      its category (errors.go:501); (3) OrderedMap.Has turns a KeyNotFoundError returned by a
      component into the answer "false".  (1)-(3) are observations about components the sentence
      does not name / errors no ordinary component returns; all three are reproduced on the Go code
      by `harness callback`. *)
From Coq Require Import String NArith ZArith List Bool Arith.
From AtreeGen Require Import Consts.
From AtreeModel Require Import ErrSpec Settings MapElems MapElemsInv MapTree MapTreeInv Callback.
From AtreeModel Require ArrayTree ArrayInv.
From AtreeProofs Require Import Callback_proofs.
Import ListNotations.
Local Open Scope N_scope.

(* ---------------------------------------------------------------------- *)
(* A. no fault: the existing models                                       *)
(* ---------------------------------------------------------------------- *)

(* through the slab tree, whatever the cache holds *)
Theorem C18_lookup_no_fault_refines : forall dg levels vext loaded t k,
  fst (mt_get_f dg levels vext no_faults loaded t k) = FOk (mt_get dg levels t k) /\
  fst (mt_has_f dg levels no_faults loaded t k) = FOk (mt_has dg levels t k) /\
  fst (mt_lookup_f dg levels no_faults loaded t k) = FOk (n_get dg levels (t_root t) k).
Proof.
  intros. split; [apply mt_get_nof|]. split; [apply mt_has_nof|apply mt_lookup_nof].
Qed.

(* on the element level: the answers of MapElems.m_step *)
Theorem C18_lookup_no_fault_refines_elems : forall dg levels max_inline_elem limit vext loaded s k,
  fst (m_get_f dg levels vext no_faults loaded s k) = FOk (snd (fst (m_step dg levels max_inline_elem limit s (OGet k)))) /\
  fst (m_has_f dg levels no_faults loaded s k) = FOk (snd (fst (m_step dg levels max_inline_elem limit s (OHas k)))).
Proof. intros. split; [apply m_get_nof|apply m_has_nof]. Qed.

Theorem C18_array_get_no_fault_refines : forall loaded a i,
  fst (a_get_f no_faults loaded a i) = FOk (ArrayTree.a_get a i).
Proof. exact a_get_nof. Qed.

(* ---------------------------------------------------------------------- *)
(* B. checked failures                                                    *)
(* ---------------------------------------------------------------------- *)

(* any plan that does not fail the digester after its first call (any number of faults, any
   components): the run is the fault-free run cut at the first failing call *)
Theorem C18_lookup_faulty_run_is_cut : forall dg levels vext p loaded t k, noswallow p ->
  mt_get_f dg levels vext p loaded t k = cutr p [] (mt_get_f dg levels vext no_faults loaded t k) /\
  mt_has_f dg levels p loaded t k = has_post (cutr p [] (mt_has_raw_f dg levels no_faults loaded t k)).
Proof. intros. split; [apply mt_get_cuts; assumption|apply mt_has_cuts; assumption]. Qed.

Theorem C18_lookup_faulty_run_is_cut_elems : forall dg levels vext p loaded s k, noswallow p ->
  m_get_f dg levels vext p loaded s k = cutr p [] (m_get_f dg levels vext no_faults loaded s k).
Proof. intros. apply m_get_cuts. assumption. Qed.

(* the sentence.  [first_fault p c i]: the plan fails call i of component c and no earlier call
   (e.g. fail_at c i, fail_from c i).  With x0 the fault-free run and x the run under p:
     reached     (i < number of calls of c in x0): x fails with c's error handed through
                 wrapErrorfAsExternalErrorIfNeeded, made exactly i+1 calls of c, and is a prefix of x0;
     not reached (otherwise): x = x0. *)
Theorem C18_lookup_fault_is_external : forall dg levels vext p loaded t k c i,
  first_fault p c i -> noswallow p ->
  fault_outcome p c i (mt_get_f dg levels vext no_faults loaded t k) (mt_get_f dg levels vext p loaded t k).
Proof. exact mt_get_fault. Qed.

Theorem C18_lookup_fault_is_external_elems : forall dg levels vext p loaded s k c i,
  first_fault p c i -> noswallow p ->
  fault_outcome p c i (m_get_f dg levels vext no_faults loaded s k) (m_get_f dg levels vext p loaded s k).
Proof. exact m_get_fault. Qed.

Theorem C18_has_fault_is_external : forall dg levels p loaded t k c i,
  first_fault p c i -> noswallow p -> p_kind p <> KKeyNotFound ->
  fault_outcome p c i (mt_has_f dg levels no_faults loaded t k) (mt_has_f dg levels p loaded t k).
Proof. exact mt_has_fault. Qed.

(* the plans the harness injects, literally: comparator / hash-input provider / ledger read at any
   call, the digester at its first call; an uncategorised error comes back as an ExternalError *)
Theorem C18_kth_call_fails : forall dg levels vext loaded t k c i junk,
  c <> CDig \/ i = O ->
  let x0 := mt_get_f dg levels vext no_faults loaded t k in
  let x := mt_get_f dg levels vext (fail_at c i KPlain junk) loaded t k in
  ((i < cnt c (snd x0))%nat -> fst x = FFail c KPlain /\ fres_cat (fst x) = Some External /\ cnt c (snd x) = S i) /\
  ((cnt c (snd x0) <= i)%nat -> x = x0).
Proof.
  intros dg levels vext loaded t k c i junk Hc. cbn zeta.
  destruct (mt_get_fault dg levels vext (fail_at c i KPlain junk) loaded t k c i
              (first_fault_fail_at c i KPlain junk) (fail_at_noswallow c i KPlain junk Hc)) as [H1 H2].
  split; [|exact H2]. intros H. destruct (H1 H) as (E1 & E2 & E3 & _). auto.
Qed.

Theorem C18_wrapped_category_exact : forall k, wrap_cat k = External <-> (k = KPlain \/ k = KExternal).
Proof. exact wrap_cat_external. Qed.

(* arrays: every plan (no error is dropped on this path); only ledger reads occur *)
Theorem C18_array_get_faulty_run_is_cut : forall p loaded a i,
  a_get_f p loaded a i = cutr p [] (a_get_f no_faults loaded a i).
Proof. exact a_get_cuts. Qed.

Theorem C18_array_get_fault_is_external : forall p loaded a n c i, first_fault p c i ->
  fault_outcome p c i (a_get_f no_faults loaded a n) (a_get_f p loaded a n).
Proof. exact a_get_fault. Qed.

(* ---------------------------------------------------------------------- *)
(* C. nothing changes                                                     *)
(* ---------------------------------------------------------------------- *)

(* The lookup functions return an answer and the calls made: no container, no allocator, no write
   set.  What remains is the read cache.  After ANY run (any plan) the cache still holds what it
   held, gained only slabs of this map (children of index slabs, external collision groups, the
   value's own slab), and every later fault-free lookup of any key answers as the model does. *)
Theorem C18_lookup_state_unchanged : forall dg levels vext p loaded t k,
  let loaded' := loaded_after loaded (mt_get_f dg levels vext p loaded t k) in
  (forall id, loaded id = true -> loaded' id = true) /\
  (forall id, loaded' id = true ->
     loaded id = true \/ In id (tree_slabs (t_root t)) \/ exists v, vext v = Some id) /\
  (forall k', fst (mt_get_f dg levels vext no_faults loaded' t k') = FOk (mt_get dg levels t k') /\
              fst (mt_has_f dg levels no_faults loaded' t k') = FOk (mt_has dg levels t k')).
Proof.
  intros. cbn zeta. split; [intros id H; apply loaded_after_mono, H|].
  split; [intros id; apply mt_get_cache|]. intros k'. split; [apply mt_get_nof|apply mt_has_nof].
Qed.

Theorem C18_has_state_unchanged : forall dg levels p loaded t k,
  let loaded' := loaded_after loaded (mt_has_raw_f dg levels p loaded t k) in
  (forall id, loaded id = true -> loaded' id = true) /\
  (forall id, loaded' id = true -> loaded id = true \/ In id (tree_slabs (t_root t))) /\
  (forall k', fst (mt_has_f dg levels no_faults loaded' t k') = FOk (mt_has dg levels t k')).
Proof.
  intros. cbn zeta. split; [intros id H; apply loaded_after_mono, H|].
  split; [intros id; apply mt_has_cache|]. intros k'. apply mt_has_nof.
Qed.

Theorem C18_array_get_state_unchanged : forall p loaded a i j,
  fst (a_get_f no_faults (loaded_after loaded (a_get_f p loaded a i)) a j) = FOk (ArrayTree.a_get a j).
Proof. intros. apply a_get_nof. Qed.

(* ---------------------------------------------------------------------- *)
(* D. how many calls                                                      *)
(* ---------------------------------------------------------------------- *)

(* every plan: one hash input; one digester call per level at most (levels 0 .. levels); comparator
   calls bounded by the collision group reached (1 for a single element, the length of a list-mode
   group); ledger reads bounded by the index slabs crossed plus external groups on the path, plus
   the value's own slab for Get *)
Theorem C18_lookup_call_count : forall dg levels vext p loaded t k,
  let tr := snd (mt_get_f dg levels vext p loaded t k) in
  (cnt CHip tr <= 1 /\ cnt CDig tr <= S levels /\ cnt CCmp tr <= tcmp_bound (t_root t) /\
   cnt CRead tr <= rd_bound (t_root t) + 1)%nat.
Proof. exact mt_get_counts. Qed.

Theorem C18_has_call_count : forall dg levels p loaded t k,
  let tr := snd (mt_has_f dg levels p loaded t k) in
  (cnt CHip tr <= 1 /\ cnt CDig tr <= S levels /\ cnt CCmp tr <= tcmp_bound (t_root t) /\
   cnt CRead tr <= rd_bound (t_root t))%nat.
Proof. exact mt_has_counts. Qed.

Theorem C18_lookup_call_count_elems : forall dg levels vext p loaded s k,
  let tr := snd (m_get_f dg levels vext p loaded s k) in
  (cnt CHip tr <= 1 /\ cnt CDig tr <= S levels /\ cnt CCmp tr <= cmp_bound (m_root s) /\
   cnt CRead tr <= ext_bound (m_root s) + 1)%nat.
Proof. exact m_get_counts. Qed.

(* on a well-formed element structure external groups exist at the first level only: at most one
   ledger read below the leaf, one more for the value *)
Theorem C18_lookup_reads_wf : forall dg levels vext p loaded s k, ewf dg levels (m_root s) ->
  (cnt CRead (snd (m_get_f dg levels vext p loaded s k)) <= 2)%nat.
Proof. exact m_get_wf_reads. Qed.

(* which keys the comparator is shown (well-formed structure, fault-free run — every run with
   checked failures is a prefix of it): only stored keys; and two or more comparator calls happen
   only among stored keys whose digests equal the looked-up key's on EVERY level *)
Theorem C18_comparator_calls_collide : forall dg levels vext loaded s k x, ewf dg levels (m_root s) ->
  let t := snd (m_get_f dg levels vext no_faults loaded s k) in
  In (VCmp x) t ->
  In x (dkeys (to_list (m_root s))) /\
  ((2 <= cnt CCmp t)%nat -> forall l, (l < levels)%nat -> dg x l = dg k l).
Proof. exact m_get_cmp_keys. Qed.

Theorem C18_array_get_call_count : forall p loaded a i,
  let tr := snd (a_get_f p loaded a i) in
  (cnt CHip tr = 0 /\ cnt CDig tr = 0 /\ cnt CCmp tr = 0 /\ cnt CRead tr <= aheight (ArrayTree.a_root a) + 1)%nat.
Proof. exact a_get_counts. Qed.

(* ---------------------------------------------------------------------- *)
(* E. where the sentence fails                                            *)
(* ---------------------------------------------------------------------- *)

(* every plan, dropped errors included: the run is the fault-free run over the digests [dgp p dg k]
   (level l >= 1 of the looked-up key replaced by the failing digester's value where the plan fails
   digester call l), cut by the plan's checked failures [strip p] *)
Theorem C18_lookup_any_plan : forall dg levels vext p loaded t k,
  mt_get_f dg levels vext p loaded t k =
  cutr (strip p) [] (mt_get_f (dgp p dg k) levels vext no_faults loaded t k).
Proof. exact mt_get_general. Qed.

(* (1) a digester failing at a deeper level is NEVER reported: the run is a fault-free run *)
Theorem C18_digester_fault_dropped : forall dg levels vext loaded t k i kd junk,
  let p := fail_at CDig (S i) kd junk in
  mt_get_f dg levels vext p loaded t k = mt_get_f (dgp p dg k) levels vext no_faults loaded t k /\
  fst (mt_get_f dg levels vext p loaded t k) = FOk (mt_get (dgp p dg k) levels t k).
Proof.
  intros dg levels vext loaded t k i kd junk p. subst p.
  split; [apply mt_get_dig_dropped|]. rewrite mt_get_dig_dropped. apply mt_get_nof.
Qed.

(* (3) Has: a KeyNotFoundError returned by a component that is reached becomes the answer "false" *)
Theorem C18_has_keynotfound_swallowed : forall dg levels p loaded t k c i,
  first_fault p c i -> noswallow p -> p_kind p = KKeyNotFound ->
  (i < cnt c (snd (mt_has_raw_f dg levels no_faults loaded t k)))%nat ->
  fst (mt_has_f dg levels p loaded t k) = FOk (RBool false).
Proof. exact mt_has_knf. Qed.

(* ---------------------------------------------------------------------- *)
(* Examples (non-vacuity, witnesses)                                      *)
(* ---------------------------------------------------------------------- *)

(* a map of 28 keys over 7 slabs (slab size 256): six leaves under an index root, one external
   collision group (slab 8) holding keys 511 512 513 (equal digests on all four levels: list mode)
   and 521 (same first-level digest) *)
Definition ex_dg (k : N) (l : nat) : N := match l with 0%nat => k / 100 | 1%nat => (k / 10) mod 10 | _ => 0 end.
Definition ex_keys : list N := map (fun i => N.of_nat i * 100 + 11) (seq 1 25) ++ [512; 521; 513].
Definition ex_ops : list mop := map (fun k => OSet (mkkv k 9) (mkkv (k + 10000) 30)) ex_keys.
Definition ex_c : cfg := set_threshold 256.
Definition ex_t : mtree := fst (mt_run ex_dg 4 (cinl_melem ex_c) 255 ex_c (fst (mt_init 1)) ex_ops).
Definition cold : N -> bool := fun _ => false.
Definition inl_values : kv -> option N := fun _ => None.

Example C18_callbacks_example_tree :
  mtwfb ex_dg 4 ex_c ex_t = true /\ t_count ex_t = 28 /\ tree_slabs (t_root ex_t) = [2; 3; 4; 5; 6; 7; 8] /\
  tcmp_bound (t_root ex_t) = 3%nat /\ rd_bound (t_root ex_t) = 2%nat.
Proof. vm_compute. repeat split; reflexivity. Qed.

(* the fault-free Get of 513 on a cold cache: 1 hash input, 5 digester calls (levels 0..4), 2 ledger
   reads (leaf 3, group slab 8), 3 comparator calls in list order *)
Example C18_callbacks_example_run :
  mt_get_f ex_dg 4 inl_values no_faults cold ex_t 513 =
  (FOk (RVal (mkkv 10513 30)),
   [VHip 513; VDig 0; VRead 3; VRead 8; VDig 1; VDig 2; VDig 3; VDig 4; VCmp 511; VCmp 512; VCmp 513]).
Proof. vm_compute. reflexivity. Qed.

(* each component failing at one of its calls: the run stops there with that component's failure *)
Example C18_callbacks_example_faults :
  mt_get_f ex_dg 4 inl_values (fail_at CCmp 1 KPlain 0) cold ex_t 513 =
    (FFail CCmp KPlain, [VHip 513; VDig 0; VRead 3; VRead 8; VDig 1; VDig 2; VDig 3; VDig 4; VCmp 511; VCmp 512]) /\
  mt_get_f ex_dg 4 inl_values (fail_at CRead 1 KPlain 0) cold ex_t 513 =
    (FFail CRead KPlain, [VHip 513; VDig 0; VRead 3; VRead 8]) /\
  mt_get_f ex_dg 4 inl_values (fail_at CHip 0 KPlain 0) cold ex_t 513 = (FFail CHip KPlain, [VHip 513]) /\
  mt_get_f ex_dg 4 inl_values (fail_at CDig 0 KPlain 0) cold ex_t 513 = (FFail CDig KPlain, [VHip 513; VDig 0]) /\
  (* not reached: the comparator is called three times only *)
  mt_get_f ex_dg 4 inl_values (fail_at CCmp 3 KPlain 0) cold ex_t 513 = mt_get_f ex_dg 4 inl_values no_faults cold ex_t 513 /\
  (* the failed read left slab 3 in the cache: the retry reads slab 8 only *)
  snd (mt_get_f ex_dg 4 inl_values no_faults
         (loaded_after cold (mt_get_f ex_dg 4 inl_values (fail_at CRead 1 KPlain 0) cold ex_t 513)) ex_t 513) =
    [VHip 513; VDig 0; VRead 8; VDig 1; VDig 2; VDig 3; VDig 4; VCmp 511; VCmp 512; VCmp 513].
Proof. vm_compute. repeat split; reflexivity. Qed.

(* E(1) witness: key 512 is PRESENT; its digester fails at call 1 (level 1) handing back 0: the lookup
   reports KeyNotFoundError — a UserError — and no failure of any component *)
Theorem C18_digester_fault_refuted :
  exists dg levels t k p,
    p = fail_at CDig 1 KPlain 0 /\
    mt_get dg levels t k = RVal (mkkv 10512 30) /\
    mt_get_f dg levels inl_values p cold t k =
      (FOk (RErr EKeyNotFound), [VHip 512; VDig 0; VRead 3; VRead 8; VDig 1]) /\
    expected_category "KeyNotFoundError"%string = Some User.
Proof. exists ex_dg, 4%nat, ex_t, 512, (fail_at CDig 1 KPlain 0). vm_compute. repeat split; reflexivity. Qed.

(* E(2) witness: a comparator returning an atree FatalError: reported Fatal, not External *)
Theorem C18_categorised_error_kept_refuted :
  exists p, fres_cat (fst (mt_get_f ex_dg 4 inl_values p cold ex_t 513)) = Some Fatal /\
            first_fault p CCmp 0 /\ noswallow p.
Proof.
  exists (fail_at CCmp 0 KFatal 0). split; [vm_compute; reflexivity|].
  split; [apply first_fault_fail_at|apply fail_at_noswallow; left; discriminate].
Qed.

(* E(3) witness: Has of the PRESENT key 513 with the second ledger read returning a KeyNotFoundError *)
Theorem C18_has_keynotfound_refuted :
  mt_has ex_dg 4 ex_t 513 = RBool true /\
  mt_has_f ex_dg 4 (fail_at CRead 1 KKeyNotFound 0) cold ex_t 513 =
    (FOk (RBool false), [VHip 513; VDig 0; VRead 3; VRead 8]).
Proof. vm_compute. split; reflexivity. Qed.

(* arrays: a two-level array read cold, ledger read 0 failing *)
Definition ex_arr : ArrayTree.arr :=
  fst (ArrayTree.a_run (set_threshold 256) (fst (ArrayTree.arr_init 1 42))
         (map (fun i => ArrayTree.OAppend (ArrayTree.mkelem (Z.of_nat i) 20 (if (i =? 30)%nat then 77 else 0))) (seq 0 60))).

Example C18_callbacks_example_array :
  ArrayInv.wf_rootb (set_threshold 256) (ArrayTree.a_root ex_arr) = true /\ aheight (ArrayTree.a_root ex_arr) = 1%nat /\
  (* element 30 lives in its own slab (index 5, allocated by the append), its leaf is slab 6 *)
  a_get_f no_faults cold ex_arr 30 = (FOk (ArrayTree.RElem (ArrayTree.mkelem 30%Z 20 5)), [VRead 6; VRead 5]) /\
  a_get_f (fail_at CRead 1 KPlain 0) cold ex_arr 30 = (FFail CRead KPlain, [VRead 6; VRead 5]) /\
  a_get_f (fail_at CRead 0 KPlain 0) cold ex_arr 30 = (FFail CRead KPlain, [VRead 6]) /\
  a_get_f (fail_at CRead 2 KPlain 0) cold ex_arr 30 = a_get_f no_faults cold ex_arr 30.
Proof. vm_compute. repeat split; reflexivity. Qed.

Print Assumptions C18_lookup_no_fault_refines.
Print Assumptions C18_lookup_no_fault_refines_elems.
Print Assumptions C18_array_get_no_fault_refines.
Print Assumptions C18_lookup_faulty_run_is_cut.
Print Assumptions C18_lookup_faulty_run_is_cut_elems.
Print Assumptions C18_lookup_fault_is_external.
Print Assumptions C18_lookup_fault_is_external_elems.
Print Assumptions C18_has_fault_is_external.
Print Assumptions C18_kth_call_fails.
Print Assumptions C18_wrapped_category_exact.
Print Assumptions C18_array_get_faulty_run_is_cut.
Print Assumptions C18_array_get_fault_is_external.
Print Assumptions C18_lookup_state_unchanged.
Print Assumptions C18_has_state_unchanged.
Print Assumptions C18_array_get_state_unchanged.
Print Assumptions C18_lookup_call_count.
Print Assumptions C18_has_call_count.
Print Assumptions C18_lookup_call_count_elems.
Print Assumptions C18_lookup_reads_wf.
Print Assumptions C18_comparator_calls_collide.
Print Assumptions C18_array_get_call_count.
Print Assumptions C18_lookup_any_plan.
Print Assumptions C18_digester_fault_dropped.
Print Assumptions C18_has_keynotfound_swallowed.
Print Assumptions C18_callbacks_example_tree.
Print Assumptions C18_callbacks_example_run.
Print Assumptions C18_callbacks_example_faults.
Print Assumptions C18_digester_fault_refuted.
Print Assumptions C18_categorised_error_kept_refuted.
Print Assumptions C18_has_keynotfound_refuted.
Print Assumptions C18_callbacks_example_array.
