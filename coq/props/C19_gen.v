(* C19 — tie of the decoder-safety model's copies of flag.go / math_utils.go to the Go SOURCE TEXT.
   DecodeSafe.v writes the head queries with literal masks and the slab kinds as inductive types; these
   theorems state that they equal the transcriptions `harness gen-go` regenerates from the source on
   every run (gen/GoFuncs.v).  Each is closed by [exact] of a lemma of proofs/GoFuncs_proofs.v. *)
From Coq Require Import NArith ZArith.
From AtreeGen Require GoFuncs.
From AtreeModel Require DecodeSafe.
From AtreeProofs Require Import GoFuncs_proofs.
Local Open Scope N_scope.

Theorem C19_gen_flags_match_source :
  forall h,
    GoFuncs.head_version h = DecodeSafe.h_version h /\
    GoFuncs.head_isRoot h = DecodeSafe.h_isRoot h /\
    GoFuncs.head_hasPointers h = DecodeSafe.h_hasPointers h /\
    GoFuncs.head_hasSizeLimit h = DecodeSafe.h_hasSizeLimit h /\
    GoFuncs.head_hasInlinedSlabs h = DecodeSafe.h_hasInlinedSlabs h /\
    GoFuncs.head_hasNextSlabID h = DecodeSafe.h_hasNextSlabID h.
Proof.
  exact (fun h => conj (gen_ds_version_eq h) (conj (gen_ds_isRoot_eq h) (conj (gen_ds_hasPointers_eq h)
         (conj (gen_ds_hasSizeLimit_eq h) (conj (gen_ds_hasInlinedSlabs_eq h) (gen_ds_hasNextSlabID_eq h)))))).
Qed.

(* slab kinds; the codes (iota values parsed from flag.go) are injective *)
Theorem C19_gen_slab_kinds_match_source :
  forall h,
    GoFuncs.head_getSlabType h = slabType_code (DecodeSafe.getSlabType h) /\
    GoFuncs.head_getSlabArrayType h = slabArrayType_code (DecodeSafe.getSlabArrayType h) /\
    GoFuncs.head_getSlabMapType h = slabMapType_code (DecodeSafe.getSlabMapType h).
Proof.
  exact (fun h => conj (gen_ds_getSlabType_eq h) (conj (gen_ds_getSlabArrayType_eq h) (gen_ds_getSlabMapType_eq h))).
Qed.

Theorem C19_gen_slab_kind_codes_injective :
  (forall a b, slabType_code a = slabType_code b -> a = b) /\
  (forall a b, slabArrayType_code a = slabArrayType_code b -> a = b) /\
  (forall a b, slabMapType_code a = slabMapType_code b -> a = b).
Proof. exact (conj slabType_code_inj (conj slabArrayType_code_inj slabMapType_code_inj)). Qed.

(* overflow-checked additions of math_utils.go (uint64 sum, comparison with MaxUint32, truncation) *)
Theorem C19_gen_safe_add_matches_source :
  (forall a b, GoFuncs.safeAdd2Uint32 a b = safe_add_result (DecodeSafe.safeAdd2Uint32 a b)) /\
  (forall a b c, GoFuncs.safeAdd3Uint32 a b c = safe_add_result (DecodeSafe.safeAdd3Uint32 a b c)).
Proof. exact (conj gen_safeAdd2Uint32_eq gen_safeAdd3Uint32_eq). Qed.

Example C19_gen_example_safe_add :
  GoFuncs.safeAdd2Uint32 4294967295 1 = (0, false) /\ GoFuncs.safeAdd2Uint32 4294967294 1 = (4294967295, true).
Proof. exact gen_example_safe_add. Qed.

Print Assumptions C19_gen_flags_match_source.
Print Assumptions C19_gen_slab_kinds_match_source.
Print Assumptions C19_gen_slab_kind_codes_injective.
Print Assumptions C19_gen_safe_add_matches_source.
