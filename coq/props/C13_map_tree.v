(* C13 (map part, slab tree) — iteration ACROSS the slabs of an OrderedMap: the read-only sequence
   (leaves left to right, each leaf's elements in order) yields every entry exactly once in ascending
   order of the digest sequence; PopIterate yields the reverse; the mutable iterator's next-key
   hand-off through the index slabs (incl. the hand-off from the last entry of a leaf to the first
   key of the next sibling subtree) enumerates the same sequence.  For every legal slab size, digest
   assignment and well-formed tree.  Lifts props/C13_map_elems.v through the index slabs. *)
From Coq Require Import ZArith NArith List Sorted.
From AtreeModel Require Import Settings MapElems MapElemsInv MapTree MapTreeInv.
From AtreeProofs Require Import MapElems_proofs MapTree_proofs MapRebalance_proofs MapTreeOps_proofs
  MapTreeIter_proofs Map_proofs.
Import ListNotations.

(* the entries read leaf by leaf are the entries of the ONE logical hkeyElements, which is
   well-formed at the element level; they are sorted by the canonical order (lexicographic order of
   the digest vectors) and no key occurs twice.  (Ties — equal digest vectors — keep insertion
   order: C02_map_refines_dictionary.) *)
Theorem C13_map_tree_order :
  forall T dg levels t, valid_T T -> (1 <= levels)%nat -> mtwf dg levels (set_threshold T) t ->
    to_list_tree (t_root t) = to_list (elems_of_tree (t_root t)) /\
    ewf dg levels (elems_of_tree (t_root t)) /\
    StronglySorted (fun p q => key_lt dg levels (kid (fst q)) (kid (fst p)) = false) (to_list_tree (t_root t)) /\
    NoDup (dkeys (to_list_tree (t_root t))).
Proof.
  intros T dg levels t HT Hlv Ht. pose proof (tree_iteration dg levels T HT Hlv t Ht) as H. cbv zeta in H. tauto.
Qed.

(* PopIterate (children from the last to the first, each leaf backwards) visits exactly the reverse
   of the read-only sequence — for ANY tree *)
Theorem C13_map_tree_pop_order : forall n, fst (n_pop n) = rev (to_list_tree n).
Proof. exact n_pop_rev. Qed.

(* the mutable iterator: first key of the first data slab, then repeatedly the next key computed by
   getElementAndNextKey through the index slabs before each hand-off *)
Theorem C13_map_tree_next_key_iteration :
  forall T dg levels t, valid_T T -> (1 <= levels)%nat -> mtwf dg levels (set_threshold T) t ->
    iter_next_tree dg levels (S (length (to_list_tree (t_root t)))) (t_root t) (first_key_tree (t_root t))
    = to_list_tree (t_root t).
Proof.
  intros T dg levels t HT Hlv Ht. pose proof (tree_iteration dg levels T HT Hlv t Ht) as H. cbv zeta in H. tauto.
Qed.

(* the hand-off itself, for a subtree of any height: getElementAndNextKey through the index slabs
   (binary search for the child; if the entry is the last one of its subtree, the first key of the
   next sibling subtree) is the element level's getElementAndNextKey on the logical hkeyElements, and
   firstKeyInMapSlab is its first key *)
Theorem C13_map_tree_next_key_handoff :
  forall T dg levels d n, valid_T T -> (1 <= levels)%nat -> mwfn dg levels (set_threshold T) d n ->
    (forall k, n_next dg levels n k = next_elems dg levels (op_fuel levels) (gtree n) 0 k) /\
    first_key_tree n = first_key (gtree n) /\ elems_of_tree n = gtree n.
Proof.
  intros T dg levels d n HT Hlv Hw. split; [intros k; apply (n_next_ok dg levels T HT Hlv d n k Hw)|].
  split; [apply (first_key_tree_ok dg levels T HT Hlv d n Hw)|apply (elems_of_tree_gtree dg levels T HT Hlv d n Hw)].
Qed.

(* non-vacuity: the trees of props/C02.v (C02_map_example, C02_map_example_collisions: index root
   over >= 3 data slabs, accepted by the checker) satisfy [mtwf] by C02_map_refines_dictionary; their
   OIterate and OIterNext outputs were compared there. *)

Print Assumptions C13_map_tree_order.
Print Assumptions C13_map_tree_pop_order.
Print Assumptions C13_map_tree_next_key_iteration.
Print Assumptions C13_map_tree_next_key_handoff.
