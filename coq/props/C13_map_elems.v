(* C13 (map part, element level) — iteration yields every entry exactly once in ascending order of
   the digest sequence; PopIterate yields the reverse. *)
From Coq Require Import ZArith NArith List Sorted.
From AtreeModel Require Import MapElems MapElemsInv.
From AtreeProofs Require Import MapElems_proofs.
Import ListNotations.

(* In any well-formed structure the iteration sequence [to_list] is sorted by the canonical order
   (lexicographic order of the digest vectors: no entry is followed by one with a smaller vector)
   and no key occurs twice.  The relative order of keys with EQUAL digest vectors (insertion order)
   is fixed by C02_elems_refines_dictionary: [to_list] equals the dictionary kept by [d_ins], which
   inserts after all entries that are not greater. *)
Theorem C13_map_order :
  forall dg levels g, ewf dg levels g ->
    StronglySorted (fun p q => key_lt dg levels (kid (fst q)) (kid (fst p)) = false) (to_list g) /\
    NoDup (dkeys (to_list g)).
Proof.
  intros dg levels g H. destruct (order_spec dg levels 0%N) as [_ O]. specialize (O g 0%nat H).
  rewrite Nat.sub_0_r in O. exact O.
Qed.

(* the read-only iteration of the model is to_list by definition; PopIterate visits exactly the
   reverse sequence, for ANY structure *)
Theorem C13_pop_order : forall g, fst (pop_list g) = rev (to_list g).
Proof. exact (proj2 pop_list_rev). Qed.

(* the mutable iterator (first key, then the next key computed by getElementAndNextKey before each
   hand-off, across elements, nested groups and external slabs) enumerates exactly the read-only
   sequence, in any well-formed structure and for any digest assignment *)
Theorem C13_next_key_iteration :
  forall dg levels g, ewf dg levels g ->
    iter_next dg levels (S (length (to_list g))) g (first_key g) = to_list g.
Proof. intros dg levels g H. exact (iter_next_to_list dg levels 0%N 0%N g H). Qed.

Print Assumptions C13_map_order.
Print Assumptions C13_next_key_iteration.
Print Assumptions C13_pop_order.
