(* C08 (nested containers) — "The read cache, eviction and the timing of commits are transparent: the
   content the containers end up with in the ledger does not depend on when commits, cache drops or
   re-creations of the storage happen" — for FORESTS of nested arrays / maps whose children are
   inlined in, or stored outside, their parent's slab.

   Model: theories/Nested.v, theories/NestedDurable.v (one register per stored container) and
   theories/NestedFaults.v.  props/C08_durable.v is the same property for the slab tree of ONE
   container over the storage model (with its cache).  On this value-level model
     - the read cache is not a component: it is coherent with the ledger (C08 / C15 over Storage.v),
       so a cache drop [FDrop] is the IDENTITY on (forest, ledger);
     - a reopening [FReopen] (brand-new storage over the ledger; admissible when nothing is pending,
       as in C08_durable) is the IDENTITY on the forest, and what the new storage reads is stated:
       [load n (lookup led) r = unfold n f r] for every stored container r, i.e. reopen = load ∘
       flatten = identity (C03_nested_roundtrip, C03_nested_unfold_faithful);
     - a commit [FTry order fail] of either kind visits the write set in any admissible order
       (C14_nested_orders_admissible: ascending = Commit / FastCommit, removals first =
       NondeterministicFastCommit, any permutation).
   Vocabulary:
     [os]                a history of forest operations, valid on its own: [hist_ok n g dinit (map FOp os)]
                         (every operation satisfies its precondition [op_ok] and succeeds)
     [l]                 os with schedule items inserted at arbitrary positions ([ops_of l = os]), each
                         admissible in the state where it is issued ([sched_ok]: [attempt_ok] for a
                         commit, empty write set for a reopening); nothing is asked of the operations of l
     [ftrace n g dinit l]  the container states after every forest operation of l
   The theorem does not even need the inserted commits to be fault-free: a failed one is as
   transparent (C14_nested_retry_converges reads it that way); the example inserts fault-free ones. *)
From Coq Require Import ZArith NArith List Bool Lia.
From AtreeModel Require Import Nested NestedDurable NestedFaults.
From AtreeProofs Require Import Nested_proofs Nested_examples NestedDurable_base NestedDurable_proofs NestedDurable_examples
  NestedFaults_proofs.
Import ListNotations.
Local Open Scope N_scope.

(* For every valid forest history os and every insertion l of commits of either kind, cache drops
   and reopenings between its operations:
   - l is a valid history (every operation still satisfies its precondition and succeeds);
   - the container states after every operation, and at the end, are those of the unscheduled run;
   - after a final fault-free commit of either kind on either side (o1 / o2: any admissible orders)
     nothing is pending, the two ledgers agree on every register, they are the flattening of the
     final forest, their registers are exactly the stored containers, and a fresh reader returns
     the same forest from either;
   - at every reopening point the new storage reads exactly the forest as it is. *)
Theorem C08_nested_schedule_same_ledger : forall n g os l,
  (0 < n)%nat -> ops_of l = os -> hist_ok n g dinit (map FOp os) -> sched_ok n g dinit l ->
  let d1 := fst (frun n g dinit (map FOp os)) in
  let d2 := fst (frun n g dinit l) in
  hist_ok n g dinit l /\ snd (frun n g dinit l) = true /\
  ftrace n g dinit l = ftrace n g dinit (map FOp os) /\
  f_cs (d_f d2) = f_cs (d_f d1) /\
  (forall o1 fl1 o2 fl2,
     attempt_ok (d_f d1) o1 fl1 = true -> faulted o1 fl1 = false ->
     attempt_ok (d_f d2) o2 fl2 = true -> faulted o2 fl2 = false ->
     let e1 := try_commit n d1 o1 fl1 in
     let e2 := try_commit n d2 o2 fl2 in
     f_log (d_f e2) = [] /\
     (forall v, lookup (d_led e1) v = lookup (d_led e2) v) /\
     (forall v, lookup (d_led e2) v = lookup (flatten n (d_f d2)) v) /\
     (forall v, In v (map fst (d_led e2)) <-> stored (d_f d2) v) /\
     (forall r, stored (d_f d2) r ->
        load n (lookup (d_led e1)) r = unfold n (d_f d2) r /\
        load n (lookup (d_led e2)) r = unfold n (d_f d2) r /\ unfold n (d_f d2) r <> None)) /\
  (forall l1 l2, l = l1 ++ FReopen :: l2 ->
     let d := fst (frun n g dinit l1) in
     forall r, stored (d_f d) r -> load n (lookup (d_led d)) r = unfold n (d_f d) r /\ unfold n (d_f d) r <> None).
Proof. exact C08_nested_schedule_same_ledger_l. Qed.

(* no operation of the forest model reads the write log: the container states after an operation and
   its success are functions of the container states before it (the reason behind the theorem) *)
Theorem C08_nested_step_ignores_log : forall n g f1 f2 o,
  f_cs f1 = f_cs f2 ->
  f_cs (fst (step n g f1 o)) = f_cs (fst (step n g f2 o)) /\ snd (step n g f1 o) = snd (step n g f2 o).
Proof. exact step_cs. Qed.

(* Non-vacuity (proofs/NestedFaults_proofs.v; maxInlineArrayElementSize = 33): the 13 operations [xos]
   (parent 1 = [child 2, 99]; container 3; the child grows beyond the limit through its own handle,
   shrinks back, grows again) without any commit, against the schedule [xs] that inserts after every
   operation, in turn, {ascending fault-free commit; reopening}, {cache drop}, {order-relaxed
   fault-free commit}, {}: 14 inserted items, 7 of them commits (the child is committed while
   inlined and, after it crossed the limit, while stored).  The write logs differ (18 entries against none), the containers do not,
   and a final commit on either side gives the same registers. *)
Example C08_nested_inhabited :
  hist_ok 8 cfgS dinit (map FOp xos) /\ ops_of xs = xos /\ sched_ok 8 cfgS dinit xs /\
  length xos = 13%nat /\ length xs = 27%nat /\
  length (filter is_try xs) = 7%nat /\ fault_free xs = true /\
  map (lookup (d_led xd0)) [1; 2; 3] = [None; None; None] /\
  lookup (d_led xs2) 1 = Some (KArr, [(0,0,TR 2 0); (0,0,TS 99 3)]) /\
  f_log (d_f xs2) = [] /\ length (f_log (d_f xd0)) = 18%nat /\
  f_cs (d_f xs2) = f_cs (d_f xd0) /\
  attempt_ok (d_f xs2) (nondet_order (d_f xs2)) None = true /\
  map (lookup (d_led (try_commit 8 xs2 (nondet_order (d_f xs2)) None))) [1; 2; 3; 4] =
  map (lookup (d_led (try_commit 8 xd0 (sorted_keys (d_f xd0)) None))) [1; 2; 3; 4].
Proof. split; [exact xos_ok|]. split; [exact xs_ops|]. split; [exact xs_sched|exact xs_facts]. Qed.

Print Assumptions C08_nested_schedule_same_ledger.
Print Assumptions C08_nested_step_ignores_log.
